(** Reading and writing dense buffers through a unifier, generic part shared by the refinement
    proofs of [project], [where] and [stack] (Model/PTensorOps.v):
    - [at_axes fuel sigma r es] (the virtual indices computed from [Axis.stride(subst)]) is [evals rho es]
      for every environment [rho] that satisfies the bindings and agrees with [r] on the keys of the
      stride dicts ([at_axes_model]); success does not depend on the environment;
    - every index of a view over unbound axes denotes an environment that satisfies a well-typed
      substitution and respects the sizes ([env_model]);
    - the free axes [fv_list] returns are the keys of the stride dicts: pairwise distinct, unbound,
      reachable ([fv_list_keys]);
    - inversion of the fold of strided writes ([write_all_inv]). *)
From Coq Require Import List Arith Lia PeanoNat Bool PArith.
Import ListNotations.
Require Import Fggs.Model.Axis Fggs.Model.PTensor Fggs.Model.PTensorOps.
Require Import Fggs.Proofs.Axis_sem Fggs.Proofs.Axis_unify Fggs.Proofs.Axis_complete_gen Fggs.Proofs.Axis_typed.
Require Import Fggs.Proofs.Axis_rank Fggs.Proofs.Axis_stride_typed Fggs.Proofs.Axis_stride_total.
Require Import Fggs.Proofs.PTensor_sem Fggs.Proofs.PTensor_dense.
Local Open Scope nat_scope.

(** * [at_axes] *)
Lemma at_axis_model sigma fuel r rho e v : at_axis fuel sigma r e = Ok v -> models rho sigma ->
  (forall o s j, stride fuel sigma e = Ok (o, s) -> In j (keys s) -> r j = rho j) -> v = eval rho e.
Proof.
  unfold at_axis. intros H M A. destruct (stride fuel sigma e) as [[o s]|] eqn:E; [|discriminate].
  cbn [bind fst snd] in H. inversion H; subst v. rewrite (stride_affine rho sigma M _ _ _ _ E). f_equal.
  apply lin_eval_ext. intros j Hj. exact (A o s j eq_refl Hj).
Qed.

Lemma at_axes_model sigma fuel r rho es vs : at_axes fuel sigma r es = Ok vs -> models rho sigma ->
  (forall e o s j, In e es -> stride fuel sigma e = Ok (o, s) -> In j (keys s) -> r j = rho j) -> vs = evals rho es.
Proof.
  unfold at_axes, evals. revert vs. induction es as [|e es IH]; intros vs H M A; simpl in H.
  - inversion H. reflexivity.
  - destruct (at_axis fuel sigma r e) as [v|] eqn:E; [|discriminate]. cbn [bind] in H.
    destruct (mapM (at_axis fuel sigma r) es) as [vs'|] eqn:E'; [|discriminate]. cbn [bind] in H. inversion H; subst vs.
    simpl. f_equal.
    + eapply at_axis_model; eauto. intros o s j Es Hj. eapply A; eauto. left. reflexivity.
    + apply IH; trivial. intros e0 o s j He0. apply A. right. exact He0.
Qed.

(** success of [at_axes] is success of [stride] on every axis: independent of the environment *)
Lemma at_axes_strides sigma fuel r es vs : at_axes fuel sigma r es = Ok vs ->
  forall e, In e es -> exists o s, stride fuel sigma e = Ok (o, s).
Proof.
  unfold at_axes. revert vs. induction es as [|e es IH]; intros vs H x Hx; [contradiction|]. simpl in H.
  destruct (at_axis fuel sigma r e) as [v|] eqn:E; [|discriminate]. cbn [bind] in H.
  destruct (mapM (at_axis fuel sigma r) es) as [vs'|] eqn:E'; [|discriminate].
  destruct Hx as [<-|Hx]; [|eapply IH; eauto].
  unfold at_axis in E. destruct (stride fuel sigma e) as [[o s]|]; [eauto|discriminate].
Qed.

Lemma at_axes_total sigma fuel r es : (forall e, In e es -> exists o s, stride fuel sigma e = Ok (o, s)) ->
  exists vs, at_axes fuel sigma r es = Ok vs.
Proof.
  unfold at_axes. induction es as [|e es IH]; intros H; simpl; [eauto|].
  destruct (H e (or_introl eq_refl)) as (o & s & E). unfold at_axis at 1. rewrite E. cbn [bind].
  destruct IH as (vs & ->); [intros x Hx; apply H; right; exact Hx|]. cbn [bind]. eauto.
Qed.

(** * the fold of strided writes, inverted *)
Lemma write_all_inv {V : Type} (vars : list pn) off (val : env -> res (option V)) st0 st :
  write_all vars off val st0 = Ok st ->
  forall pi, In pi (all_envs vars) -> exists o v, off (env_of pi) = Ok o /\ val (env_of pi) = Ok v.
Proof.
  unfold write_all. revert st0. induction (all_envs vars) as [|p envs IH]; intros st0 H pi Hpi; [contradiction|].
  simpl in H. destruct (off (env_of p)) as [o|e] eqn:Eo.
  - cbn [bind] in H. destruct (val (env_of p)) as [v|e] eqn:Ev.
    + cbn [bind] in H. destruct Hpi as [<-|Hpi]; [eauto|]. destruct v; eapply IH; eauto.
    + cbn [bind] in H. exfalso. clear -H. induction envs as [|q envs IHe]; simpl in H; [discriminate|auto].
  - cbn [bind] in H. exfalso. clear -H. induction envs as [|q envs IHe]; simpl in H; [discriminate|auto].
Qed.

(** a more general specification of the fold: the value may be [None] (no write) *)
Lemma write_all_spec_opt {V : Type} (vars : list pn) off val (offv : list pn -> nat) (valv : list pn -> option V) :
  forall st0, (forall pi, In pi (all_envs vars) -> off (env_of pi) = Ok (offv pi) /\ val (env_of pi) = Ok (valv pi)) ->
  exists st, write_all vars off val st0 = Ok st /\
    forall o, ((forall pi, In pi (all_envs vars) -> offv pi = o -> valv pi = None) -> st o = st0 o) /\
              (forall v, (exists pi, In pi (all_envs vars) /\ offv pi = o /\ valv pi = Some v) ->
                         (forall pi w, In pi (all_envs vars) -> offv pi = o -> valv pi = Some w -> w = v) -> st o = v).
Proof.
  unfold write_all. induction (all_envs vars) as [|pi envs IH]; intros st0 Hoff.
  - exists st0. split; [reflexivity|]. intros o. split; [reflexivity|]. intros v [pi [[] _]].
  - simpl. destruct (Hoff pi (or_introl eq_refl)) as [E1 E2]. rewrite E1. cbn [bind]. rewrite E2. cbn [bind].
    set (st1 := match valv pi with Some x => write V st0 (offv pi) x | None => st0 end).
    destruct (IH st1 (fun p Hp => Hoff p (or_intror Hp))) as (st & E & S).
    exists st. split; [destruct (valv pi); exact E|]. intros o. destruct (S o) as [S1 S2]. split.
    + intros N. rewrite S1 by (intros p Hp; apply N; right; exact Hp). unfold st1.
      destruct (valv pi) as [x|] eqn:Vp; [|reflexivity]. unfold write.
      destruct (Nat.eqb_spec o (offv pi)) as [->|]; [|reflexivity].
      specialize (N pi (or_introl eq_refl) eq_refl). congruence.
    + intros v (p & Hp & Ep & Vp) Hv.
      destruct (existsb (fun q => Nat.eqb (offv q) o && match valv q with Some _ => true | None => false end) envs) eqn:Ex.
      * apply existsb_exists in Ex. destruct Ex as (q & Hq & Eq). apply andb_true_iff in Eq. destruct Eq as [Eq Vq].
        apply Nat.eqb_eq in Eq. destruct (valv q) as [w|] eqn:Vq'; [|discriminate].
        apply S2; [exists q; split; [exact Hq|split; [exact Eq|]]|].
        -- rewrite Vq'. f_equal. apply (Hv q w); [right; exact Hq|exact Eq|exact Vq'].
        -- intros r w' Hr Er Vr. apply (Hv r w'); [right; exact Hr|exact Er|exact Vr].
      * assert (N : forall q, In q envs -> offv q = o -> valv q = None).
        { intros q Hq Eq. destruct (valv q) as [w|] eqn:Vq; [|reflexivity]. exfalso.
          assert (existsb (fun q => Nat.eqb (offv q) o && match valv q with Some _ => true | None => false end) envs = true); [|congruence].
          apply existsb_exists. exists q. split; [exact Hq|]. rewrite Vq, andb_true_r. apply Nat.eqb_eq. exact Eq. }
        rewrite S1 by exact N. destruct Hp as [<-|Hp]; [|rewrite (N p Hp Ep) in Vp; discriminate].
        unfold st1. rewrite Vp. unfold write. rewrite Ep, Nat.eqb_refl. reflexivity.
Qed.

(** * the free axes under a substitution are the keys of the stride dicts *)
Lemma fv_occ_stride sigma : forall fuel e o s r, stride fuel sigma e = Ok (o, s) -> fv_occ fuel sigma e = Ok r ->
  forall j, In j (map fst r) -> In j (keys s).
Proof.
  induction fuel as [|fuel IH]; intros e o s r H F j Hj; [discriminate|]. destruct e as [k n|l|b t a].
  - cbn [stride fv_occ] in *. destruct (lookup (lookup_fuel sigma) sigma (Phys k n)) as [look|]; [|discriminate].
    cbn [bind] in *. destruct (same_object look (Phys k n)).
    + inversion H; subst. inversion F; subst. exact Hj.
    + exact (IH _ _ _ _ H F j Hj).
  - rewrite stride_Prod in H. change (fold_left (fv_step fuel sigma) l (Ok []) = Ok r) in F.
    assert (Gen : forall l os0 a0 o s r, fold_left (stride_step fuel sigma) l (Ok os0) = Ok (o, s) ->
              fold_left (fv_step fuel sigma) l (Ok a0) = Ok r ->
              (forall j, In j (map fst a0) -> In j (keys (snd os0))) -> forall j, In j (map fst r) -> In j (keys s)).
    { clear - IH. induction l as [|x l IHl]; intros os0 a0 o s r H F K j Hj; cbn [fold_left] in *.
      - inversion H; subst. inversion F; subst. apply K. exact Hj.
      - unfold stride_step at 2 in H. unfold fv_step at 2 in F. cbn [bind] in H, F.
        destruct (stride fuel sigma x) as [[ox sx]|e] eqn:Ex.
        + destruct (fv_occ fuel sigma x) as [rx|e] eqn:Fx.
          * cbn [bind fst snd] in H, F. apply (IHl _ _ _ _ _ H F); [|exact Hj]. cbn [snd]. intros j0 Hj0.
            rewrite map_app in Hj0. apply in_app_or in Hj0. apply keys_merge. rewrite keys_scale.
            destruct Hj0 as [Hj0|Hj0]; [left; apply K; exact Hj0|right; exact (IH _ _ _ _ Ex Fx j0 Hj0)].
          * cbn [bind] in F. rewrite fold_fail in F; [discriminate|]. intros e' x'. reflexivity.
        + cbn [bind] in H. rewrite fold_fail in H; [discriminate|]. intros e' x'. reflexivity. }
    exact (Gen l (0, []) [] o s r H F (fun j0 Hj0 => Hj0) j Hj).
  - cbn [stride fv_occ] in *. destruct (stride fuel sigma t) as [[o1 s1]|] eqn:Et; [|discriminate].
    cbn [bind fst snd] in H. inversion H; subst. exact (IH _ _ _ _ Et F j Hj).
Qed.

Lemma dedup_keys_nodup : forall l seen, NoDup (map fst (dedup seen l)) /\
  forall k, In k (map fst (dedup seen l)) -> existsb (Pos.eqb k) seen = false.
Proof.
  induction l as [|[k n] l IH]; intros seen; simpl; [split; [constructor|intros k []]|].
  destruct (existsb (Pos.eqb k) seen) eqn:E; [apply IH|].
  destruct (IH (k :: seen)) as [N S]. split.
  - simpl. constructor; [|exact N]. intros Hk. specialize (S k Hk). simpl in S. rewrite Pos.eqb_refl in S. discriminate.
  - intros k' [<-|Hk']; [exact E|]. specialize (S k' Hk'). simpl in S. apply orb_false_iff in S. tauto.
Qed.

Lemma dedup_In : forall l seen x, In x (dedup seen l) -> In x l.
Proof.
  induction l as [|[k n] l IH]; intros seen x H; simpl in H; [contradiction|].
  destruct (existsb (Pos.eqb k) seen); [right; eapply IH; eauto|]. destruct H as [<-|H]; [left; reflexivity|right; eapply IH; eauto].
Qed.

Lemma dedup_keys_In : forall l seen k, In k (map fst l) -> existsb (Pos.eqb k) seen = false -> In k (map fst (dedup seen l)).
Proof.
  induction l as [|[k0 n] l IH]; intros seen k H S; simpl in *; [contradiction|].
  destruct (Pos.eqb_spec k k0) as [->|Ne].
  - rewrite S. left. reflexivity.
  - destruct H as [H|H]; [congruence|]. destruct (existsb (Pos.eqb k0) seen); [apply IH; assumption|].
    right. apply IH; [exact H|]. simpl. destruct (Pos.eqb_spec k k0); [congruence|exact S].
Qed.

(** [fv_list]: keys pairwise distinct; every key is a key of the stride dict of one of the axes
    (hence unbound and reachable); every key of such a stride dict is listed *)
Lemma fv_list_keys sigma fuel es r : fv_list fuel sigma es = Ok r ->
  NoDup (map fst r) /\
  (forall j, In j (map fst r) -> forall (Hs : forall e, In e es -> exists o s, stride fuel sigma e = Ok (o, s)),
     exists e o s, In e es /\ stride fuel sigma e = Ok (o, s) /\ In j (keys s)) /\
  (forall e o s j, In e es -> stride fuel sigma e = Ok (o, s) -> In j (keys s) -> In j (map fst r)) /\
  (forall jn, In jn r -> exists e rx, In e es /\ fv_occ fuel sigma e = Ok rx /\ In jn rx).
Proof.
  unfold fv_list. change (fold_left _ es (Ok [])) with (fold_left (fv_step fuel sigma) es (Ok [])).
  destruct (fold_left (fv_step fuel sigma) es (Ok [])) as [r0|] eqn:F; [|discriminate]. cbn [bind]. intros H. inversion H; subst r. clear H.
  split; [apply dedup_keys_nodup|]. split; [|split].
  - intros j Hj Hs. apply in_map_iff in Hj. destruct Hj as ([j' n] & <- & Hj). apply dedup_In in Hj.
    destruct (fv_fold_In fuel sigma es [] r0 F (j', n) Hj) as [[]|(x & rx & Hx & Ex & Hjx)].
    destruct (Hs x Hx) as (o & s & Es). exists x, o, s. split; [exact Hx|]. split; [exact Es|].
    apply (fv_occ_stride sigma _ _ _ _ _ Es Ex). apply in_map_iff. exists (j', n). auto.
  - intros e o s j He Es Hj. apply dedup_keys_In; [|reflexivity].
    destruct (stride_fv_occ sigma _ _ _ _ Es) as (rx & Erx & K). specialize (K j Hj).
    apply in_map_iff in K. destruct K as ([j' n] & <- & Hjn). apply in_map_iff. exists (j', n). split; [reflexivity|].
    clear - F He Erx Hjn. revert F. generalize (@nil pn). induction es as [|x es IH]; intros a0 F; [contradiction|].
    cbn [fold_left] in F. unfold fv_step at 2 in F. cbn [bind] in F. destruct (fv_occ fuel sigma x) as [rx'|e'] eqn:Ex.
    + cbn [bind] in F. destruct He as [<-|He].
      * rewrite Erx in Ex. inversion Ex; subst rx'. clear - F Hjn.
        assert (Sup : forall l b0 r1, fold_left (fv_step fuel sigma) l (Ok b0) = Ok r1 -> forall y, In y b0 -> In y r1).
        { clear. induction l as [|y l IHl]; intros b0 r1 F1 y0 Hy; cbn [fold_left] in F1; [inversion F1; subst; exact Hy|].
          unfold fv_step at 2 in F1. cbn [bind] in F1. destruct (fv_occ fuel sigma y) as [ry|e'].
          - cbn [bind] in F1. apply (IHl _ _ F1). apply in_or_app. left. exact Hy.
          - cbn [bind] in F1. rewrite fold_fail in F1; [discriminate|]. intros e'' x'. reflexivity. }
        apply (Sup _ _ _ F). apply in_or_app. right. exact Hjn.
      * exact (IH He _ F).
    + cbn [bind] in F. rewrite fold_fail in F; [discriminate|]. intros e'' x'. reflexivity.
  - intros jn Hj. apply dedup_In in Hj. destruct (fv_fold_In fuel sigma es [] r0 F jn Hj) as [[]|(x & rx & Hx & Ex & Hjx)]. eauto.
Qed.

(** * every view index over unbound axes denotes an environment *)
Section EnvModel.
Variable G : ctx.
Variable sigma : subst.
Hypothesis CG : ctx_good G.
Hypothesis W : wts G sigma.

Lemma env_model (sub : list pn) g : NoDup (map fst sub) ->
  (forall j n, In (j, n) sub -> n = tsizes (G j)) -> In g (all_envs sub) ->
  exists rho, models rho sigma /\ fits G rho /\ forall j, assoc j sigma = None -> rho j = env_of g j.
Proof.
  intros ND Sz Hg. destruct (model_exists G sigma (env_of g) W) as (rho & M & U). exists rho. split; [exact M|].
  split; [|exact U]. apply (model_fits G sigma rho W M). intros k A Gk. rewrite (U k A).
  destruct (in_all_envs _ _ Hg) as [K _]. unfold env_of. destruct (assoc k g) as [v|] eqn:Ak.
  - apply assoc_In in Ak. assert (Hk : In k (map fst sub)) by (rewrite <- K; apply in_map_iff; exists (k, v); auto).
    apply in_map_iff in Hk. destruct Hk as ([k' n] & Ek & Hk). simpl in Ek. subst k'.
    rewrite <- (Sz k n Hk). pose proof (env_of_in_range sub g ND Hg k n Hk) as R. unfold env_of in R.
    rewrite (assoc_In_nodup k g v) in R; [exact R| |exact Ak]. rewrite K. exact ND.
  - pose proof (gprimes_pos _ (CG k)). lia.
Qed.

(** restriction of an environment to a list of axes *)
Definition restrict (rho : env) (sub : list pn) : list pn := map (fun kn : pn => (fst kn, rho (fst kn))) sub.

Lemma restrict_env rho sub k : In k (map fst sub) -> env_of (restrict rho sub) k = rho k.
Proof. intros H. unfold env_of, restrict. rewrite assoc_restrict; [reflexivity|exact H]. Qed.

Lemma restrict_in rho sub : (forall j n, In (j, n) sub -> rho j < n) -> In (restrict rho sub) (all_envs sub).
Proof. intros R. apply all_envs_complete. exact R. Qed.

End EnvModel.
