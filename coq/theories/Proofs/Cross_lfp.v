(** C11 -- the cross-semiring relations at the level of least fixed points / certified enclosures
    of RECURSIVE grammars (composition of Proofs/Homomorphism.v with C02's Kleene theorems). *)
From Coq Require Import List Arith Bool PeanoNat Lia.
Import ListNotations.
Require Import Fggs.Model.Semiring Fggs.Model.SCC Fggs.Model.SumProduct Fggs.Model.EReal Fggs.Model.CrossSemiring
               Fggs.Model.Kleene.
Require Import Fggs.Proofs.SP_mono Fggs.Proofs.Kleene_proofs Fggs.Proofs.Kleene_fixpoint Fggs.Proofs.Homomorphism
               Fggs.Proofs.Instances_cross Fggs.Proofs.Instances_kleene.
Require Fggs.Proofs.SemiringLaws.
Local Open Scope nat_scope.

(** Bool = support of Real, at the least fixed point.  The Boolean Kleene chain on the supports
    of the weights is stationary from some k <= (number of Boolean cells) on; that iterate B is
    the Boolean least fixed point (a fixed point on the range, below every pre-fixed point); it
    is the support of the k-th Real iterate, and the support of EVERY Real iterate is below it.
    So B is the union of the supports of the Real Kleene chain -- the support of its supremum,
    the Real least fixed point -- and the union is attained at pass k. *)
Theorem supp_lfp G (w : env (R:=ereal)) :
  wf_grammar G = true ->
  exists k, k <= length (flat_map (fun X => map (pair X) (all_assts (lshape G X))) (nonterminals G)) /\
    let sw := fun l idx => supp (w l idx) in
    let B := Zk bool_ops G sw k in
    env_eq_on G (step bool_ops G sw B) B /\
    (forall v : env (R:=bool), env_le_on bool_ops G (step bool_ops G sw v) v -> env_le_on bool_ops G B v) /\
    (forall X xi, supp (Zk ereal_ops G w k X xi) = B X xi) /\
    (forall j X xi, In X (nonterminals G) -> In xi (all_assts (lshape G X)) ->
                    le bool_ops (supp (Zk ereal_ops G w j X xi)) (B X xi)).
Proof.
  intros Hwf. set (sw := fun l idx => supp (w l idx)).
  destruct (bool_chain_stabilises G sw) as (k & Hk & Hst).
  exists k. split; [exact Hk|]. cbv zeta. fold sw.
  destruct (Zk_fixed_is_least bool_ops bool_sr_ring bool_sr_ordered G sw k Hwf Hst) as (H1 & H2 & H3).
  split; [exact H1|]. split; [exact H2|]. split.
  - intros X xi. apply supp_Zk.
  - intros j X xi HX Hxi. rewrite supp_Zk. apply (H3 j X xi HX Hxi).
Qed.

(** Viterbi <= Log, at certified enclosures: every max-times Kleene iterate -- hence their
    supremum, the Viterbi least fixed point in the exp reading -- is below the upper end [u] of
    every certified enclosure of the Real/Log least fixed point computed by [enclosure] (the
    one [fp_check_real] uses) *)
Theorem maxtimes_below_real_enclosure G w K lo u :
  wf_grammar G = true ->
  enclosure ereal_ops rd_real infl_real eleb G w K = Some (lo, u) ->
  forall k X xi, In X (nonterminals G) -> In xi (all_assts (lshape G X)) ->
    ele (Zk maxtimes_ops G w k X xi) (env_of ereal_ops u X xi).
Proof.
  intros Hwf He k X xi HX Hxi.
  destruct (real_enclosure_sound G w K lo u Hwf He) as (Hu & _).
  eapply (le_trans ereal_ops SemiringLaws.ereal_ordered); [apply maxtimes_le_plustimes_closed | apply (Hu k X xi HX Hxi)].
Qed.

(** ... and below every pre-fixed point of the Real equations (Park) *)
Theorem maxtimes_below_real_prefix G w (v : env (R:=ereal)) :
  wf_grammar G = true ->
  (forall X xi, In X (nonterminals G) -> In xi (all_assts (lshape G X)) -> ele (step ereal_ops G w v X xi) (v X xi)) ->
  forall k X xi, In X (nonterminals G) -> In xi (all_assts (lshape G X)) ->
    ele (Zk maxtimes_ops G w k X xi) (v X xi).
Proof.
  intros Hwf Hv k X xi HX Hxi.
  eapply (le_trans ereal_ops SemiringLaws.ereal_ordered); [apply maxtimes_le_plustimes_closed|].
  apply (park_on ereal_ops SemiringLaws.ereal_ring SemiringLaws.ereal_ordered G w v Hwf Hv k X xi HX Hxi).
Qed.

(** the hypotheses are satisfiable by a recursive grammar (Proofs/Kleene_examples.v:
    X -> a X | a,  Y -> Y Y | a  with a = [0, 3/16]) *)
Require Fggs.Proofs.Kleene_examples.
Example cross_lfp_hyps :
  wf_grammar Kleene_examples.exG = true /\
  exists lo u, enclosure ereal_ops rd_real infl_real eleb Kleene_examples.exG Kleene_examples.exw_real 20 = Some (lo, u).
Proof. split; [exact Kleene_examples.ex_wf | exact Kleene_examples.ex_real_enclosure]. Qed.
