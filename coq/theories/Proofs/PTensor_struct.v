(** Refinement of the structural operations that rebuild the pattern:
    [__post_init__] (size-1 physical axes replaced by [unitAxis] and squeezed),
    [PatternedTensor(dense, default=d)] / [full] / [default_to].
    Each result is well formed, has no size-1 physical axis ([repr_ok]) and denotes the same dense
    tensor. *)
From Coq Require Import List Arith Lia PeanoNat Bool PArith.
Import ListNotations.
Require Import Fggs.Model.Axis Fggs.Model.PTensor.
Require Import Fggs.Proofs.Axis_sem Fggs.Proofs.Axis_unify Fggs.Proofs.Axis_antiunify Fggs.Proofs.Axis_antiunify_inv.
Require Import Fggs.Proofs.PTensor_sem Fggs.Proofs.PTensor_dense Fggs.Proofs.PTensor_views Fggs.Proofs.PTensor_gen.
Require Import Fggs.Proofs.Axis_clone.

Lemma keys_fun (ps : list pn) k n n' : NoDup (map fst ps) -> In (k, n) ps -> In (k, n') ps -> n = n'.
Proof.
  induction ps as [|[k0 n0] ps IH]; intros ND H1 H2; [contradiction|]. simpl in ND. inversion ND as [|? ? Hk ND']; subst.
  destruct H1 as [H1|H1], H2 as [H2|H2].
  - congruence.
  - inversion H1; subst. exfalso. apply Hk. apply in_map_iff. exists (k, n'). auto.
  - inversion H2; subst. exfalso. apply Hk. apply in_map_iff. exists (k, n). auto.
  - eauto.
Qed.

Lemma assoc_in_keys {A} k (s : list (positive * A)) : In k (map fst s) -> exists a, assoc k s = Some a.
Proof.
  induction s as [|[k' a'] s IH]; intros H; [contradiction|]. simpl.
  destruct (Pos.eqb_spec k' k) as [->|Hne]; [eauto|]. apply IH. destruct H as [H|H]; [simpl in H; congruence|exact H].
Qed.

Lemma assoc_notin {A} k (s : list (positive * A)) : ~ In k (map fst s) -> assoc k s = None.
Proof.
  induction s as [|[k' a] s IH]; simpl; intros H; [reflexivity|].
  destruct (Pos.eqb_spec k' k) as [->|_]; [exfalso; apply H; left; reflexivity|]. apply IH. tauto.
Qed.

Lemma env_of_binds (pi : list pn) : NoDup (map fst pi) -> Forall (fun ki => env_of pi (fst ki) = snd ki) pi.
Proof.
  induction pi as [|[k i] pi IH]; intros ND; [constructor|]. simpl in ND. inversion ND as [|? ? Hk ND']; subst.
  constructor.
  - unfold env_of. simpl. rewrite Pos.eqb_refl. reflexivity.
  - specialize (IH ND'). rewrite Forall_forall in *. intros [k' i'] Hin. specialize (IH _ Hin). cbn [fst snd] in *.
    unfold env_of in *. simpl. destruct (Pos.eqb_spec k k') as [->|_]; [|exact IH].
    exfalso. apply Hk. apply in_map_iff. exists (k', i'). auto.
Qed.

Lemma NoDup_map_filter' {A B} (f : A -> B) (p : A -> bool) l : NoDup (map f l) -> NoDup (map f (filter p l)).
Proof.
  induction l as [|x l IH]; intros N; [constructor|]. simpl in N. inversion N as [|? ? Hn N']; subst. simpl.
  destruct (p x); [|apply IH; exact N']. simpl. constructor; [|apply IH; exact N'].
  intros H. apply Hn. apply in_map_iff in H. destruct H as (y & E & Hy). apply filter_In in Hy.
  apply in_map_iff. exists y. tauto.
Qed.

Lemma Forall_inrange_ext' r1 r2 es : (forall k, In k (flat_map fv es) -> r1 k = r2 k) ->
  Forall (inrange r1) es -> Forall (inrange r2) es.
Proof.
  intros H R. rewrite Forall_forall in *. intros e He. specialize (R e He). apply inrange_fvn. intros k n Hk.
  rewrite <- H; [exact (proj2 (inrange_fvn r1 e) R k n Hk)|]. apply in_flat_map. exists e. split; [exact He|].
  apply fv_of_fvn. eauto.
Qed.

Lemma Forall2_impl_in {A B} (P Q : A -> B -> Prop) l l' :
  Forall2 P l l' -> (forall x y, In x l -> P x y -> Q x y) -> Forall2 Q l l'.
Proof.
  induction 1 as [|x y l l' Hxy _ IH]; intros H; constructor.
  - apply H; [left; reflexivity|exact Hxy].
  - apply IH. intros a b Ha. apply H. right. exact Ha.
Qed.

Lemma Forall2_Forall_iff {A B} (P : A -> Prop) (Q : B -> Prop) (R : A -> B -> Prop) l l' :
  Forall2 R l l' -> (forall x y, In x l -> R x y -> (Q y <-> P x)) -> (Forall Q l' <-> Forall P l).
Proof.
  induction 1 as [|x y l l' Hxy _ IH]; intros H; [split; constructor|].
  rewrite !Forall_cons_iff, (H x y (or_introl eq_refl) Hxy), IH; [tauto|].
  intros a b Ha. apply H. right. exact Ha.
Qed.

Section Struct.
Variable V : Type.
Notation ptensor := (ptensor V).

(** the representation invariant of [PatternedTensor] as a proposition: [wf] (physical axes distinct
    and exactly the free axes of the pattern, with consistent sizes) and no size-1 physical axis *)
Definition no1 (ps : list pn) : Prop := forall k n, In (k, n) ps -> n <> 1.
Definition repr_ok (t : ptensor) : Prop := wf V t /\ no1 (paxes t).

(** two tensors denote the same element at related indices when their backing environments correspond *)
Lemma denote_transfer (t t' : ptensor) idx idx' :
  wf V t -> wf V t' -> default t' = default t ->
  length idx = length (vaxes t) -> length idx' = length (vaxes t') ->
  (forall rho, Forall (inrange rho) (vaxes t) -> evals rho (vaxes t) = idx ->
     exists rho', Forall (inrange rho') (vaxes t') /\ evals rho' (vaxes t') = idx' /\ pget V t' rho' = pget V t rho) ->
  (forall rho', Forall (inrange rho') (vaxes t') -> evals rho' (vaxes t') = idx' ->
     exists rho, Forall (inrange rho) (vaxes t) /\ evals rho (vaxes t) = idx) ->
  denote V t' idx' = denote V t idx.
Proof.
  intros W W' Hd L L' Fw Bw.
  destruct (denote_cases V t idx (wf_covers V t W) L) as [(rho & R & E & D)|[N D]].
  - rewrite D. destruct (Fw rho R E) as (rho' & R' & E' & P). rewrite <- E', <- P.
    apply denote_backed; [apply wf_covers; exact W'|exact R'].
  - rewrite D, <- Hd. apply denote_unbacked; [exact L'|]. intros rho' R' E'.
    destruct (Bw rho' R' E') as (rho & R & E). exact (N rho R E).
Qed.

(** * [__post_init__] *)
Definition is1 (kn : pn) : bool := Nat.eqb (snd kn) 1.
Definition ones_sigma (ps : list pn) : subst := map (fun kn => (fst kn, unitAxis)) (filter is1 ps).

Lemma ones_assoc ps k c : assoc k (ones_sigma ps) = Some c -> c = unitAxis /\ In (k, 1) ps.
Proof.
  intros H. apply assoc_In in H. unfold ones_sigma in H. apply in_map_iff in H. destruct H as ([k' n] & E & H).
  inversion E; subst. apply filter_In in H. destruct H as [H H1]. unfold is1 in H1. simpl in H1. apply Nat.eqb_eq in H1. subst.
  split; [reflexivity|exact H].
Qed.

Lemma ones_bound ps k : In (k, 1) ps -> assoc k (ones_sigma ps) <> None.
Proof.
  intros H. destruct (assoc_in_keys k (ones_sigma ps)) as (a & E); [|congruence].
  unfold ones_sigma. rewrite map_map. simpl. apply in_map_iff. exists (k, 1). split; [reflexivity|].
  apply filter_In. split; [exact H|reflexivity].
Qed.

Lemma ones_closed ps : closed_vals (ones_sigma ps).
Proof. intros k c H. apply ones_assoc in H. destruct H as [-> _]. reflexivity. Qed.

Lemma ones_sized (t : ptensor) e : wf V t -> In e (vaxes t) -> sized_for (ones_sigma (paxes t)) e.
Proof.
  intros W He k n c Hk Ha. apply ones_assoc in Ha. destruct Ha as [-> H1].
  assert (In (k, n) (paxes t)) by (apply (wf_fv V t W); apply in_flat_map; eauto).
  rewrite (keys_fun _ k n 1 (wf_nodup V t W) H H1). reflexivity.
Qed.

Lemma unsqueeze_pcoords ps rho rho1 :
  (forall k n, In (k, n) ps -> (n = 1 -> rho1 k = 0) /\ (n <> 1 -> rho1 k = rho k)) ->
  unsqueeze_coords ps (pcoords (filter (fun kn => negb (Nat.eqb (snd kn) 1)) ps) rho) = pcoords ps rho1.
Proof.
  induction ps as [|[k n] ps IH]; intros H; [reflexivity|].
  assert (IH' := IH (fun k' n' Hin => H k' n' (or_intror Hin))).
  destruct (H k n (or_introl eq_refl)) as [H1 H2]. cbn [unsqueeze_coords filter snd].
  destruct (Nat.eqb_spec n 1) as [E|E]; cbn [negb].
  - cbn [pcoords map fst]. rewrite H1 by exact E. f_equal. exact IH'.
  - cbn [pcoords map fst]. rewrite H2 by exact E. f_equal. exact IH'.
Qed.

Lemma post_init_total (t : ptensor) : exists t', post_init V t = Ok t'.
Proof.
  unfold post_init. destruct (filter (fun kn => Nat.eqb (snd kn) 1) (paxes t)) as [|o ones] eqn:EO; [eauto|].
  destruct (mapM_total (fun e => clone (asize e + 2) (map (fun kn : pn => (fst kn, unitAxis)) (o :: ones)) e) (vaxes t)) as (vs & E).
  - intros e _. apply (clone_total _ 1); [|lia]. intros k c H. apply assoc_In in H. apply in_map_iff in H.
    destruct H as (kn & Ekn & _). inversion Ekn; subst. split; [reflexivity|simpl; lia].
  - rewrite E. cbn [bind]. eauto.
Qed.

Theorem post_init_refines (t t' : ptensor) : wf V t -> post_init V t = Ok t' ->
  repr_ok t' /\ shape V t' = shape V t /\ default t' = default t /\
  forall idx, length idx = length (vaxes t) -> denote V t' idx = denote V t idx.
Proof.
  intros W H. unfold post_init in H.
  destruct (filter (fun kn => Nat.eqb (snd kn) 1) (paxes t)) as [|o ones] eqn:EO.
  - inversion H; subst t'. split; [split; [exact W|]|repeat split].
    intros k n Hk ->. assert (In (k, 1) (filter (fun kn => Nat.eqb (snd kn) 1) (paxes t))) by (apply filter_In; split; [exact Hk|reflexivity]).
    rewrite EO in H0. destruct H0.
  - rewrite <- EO in H. clear EO o ones.
    change (map (fun kn : pn => (fst kn, unitAxis)) (filter (fun kn => Nat.eqb (snd kn) 1) (paxes t))) with (ones_sigma (paxes t)) in H.
    set (sigma := ones_sigma (paxes t)) in *.
    destruct (mapM (fun e => clone (asize e + 2) sigma e) (vaxes t)) as [vs|] eqn:EM; [|discriminate].
    cbn [bind] in H. inversion H; subst t'. clear H.
    assert (F2 : Forall2 (clone_ok sigma) (vaxes t) vs).
    { apply mapM_Forall2' in EM. apply (Forall2_impl_in _ _ _ _ EM). intros x y Hx Hxy.
      eapply clone_spec; [apply ones_closed|apply ones_sized; [exact W|exact Hx]|exact Hxy]. }
    destruct (clone_ok_list _ _ _ F2) as (_ & _ & FV).
    set (T' := mkPT _ _ _ _).
    assert (Unb : forall k n, In (k, n) (paxes t) -> (assoc k sigma = None <-> n <> 1)).
    { intros k n Hk. split.
      - intros Hn ->. exact (ones_bound _ _ Hk Hn).
      - intros Hn. destruct (assoc k sigma) as [c|] eqn:E; [|reflexivity]. apply ones_assoc in E. destruct E as [_ E].
        exfalso. apply Hn. exact (keys_fun _ k n 1 (wf_nodup V t W) Hk E). }
    assert (WT : wf V T').
    { constructor; cbn [paxes vaxes T'].
      - apply NoDup_map_filter'. apply (wf_nodup V t W).
      - intros k n. rewrite (FV (k, n)). cbn [fst]. rewrite filter_In. cbn [snd]. rewrite negb_true_iff, Nat.eqb_neq.
        split.
        + intros [Hk Hn]. apply (wf_fv V t W) in Hk. split; [exact Hk|]. apply (Unb k n Hk). exact Hn.
        + intros [Hk Hn]. split; [apply (wf_fv V t W); exact Hk|apply (Unb k n Hk); exact Hn]. }
    assert (Lvs : length vs = length (vaxes t)) by (symmetry; eapply Forall2_len; eauto).
    assert (Per : forall rho e e', In e (vaxes t) -> clone_ok sigma e e' ->
               (inrange rho e' <-> inrange (cenv sigma rho) e)).
    { intros rho e e' He Hc. apply clone_inrange; [apply ones_closed|apply ones_sized; assumption|exact Hc]. }
    assert (RngEq : forall rho, Forall (inrange rho) vs <-> Forall (inrange (cenv sigma rho)) (vaxes t)).
    { intros rho. apply (Forall2_Forall_iff _ _ _ _ _ F2). intros x y Hx Hxy. apply Per; assumption. }
    assert (EvEq : forall rho, evals rho vs = evals (cenv sigma rho) (vaxes t)).
    { intros rho. clear - F2. unfold evals. induction F2 as [|x y l l' (_ & E & _) _ IHl]; [reflexivity|]. simpl. rewrite E, IHl. reflexivity. }
    split; [split; [exact WT|]|].
    { cbn [paxes T']. intros k n Hk. apply filter_In in Hk. destruct Hk as [_ Hk]. cbn [snd] in Hk.
      apply negb_true_iff in Hk. apply Nat.eqb_neq in Hk. exact Hk. }
    split.
    { unfold shape. cbn [vaxes T']. clear - F2. induction F2 as [|x y l l' (N & _) _ IHl]; [reflexivity|]. simpl. rewrite N, IHl. reflexivity. }
    split; [reflexivity|].
    intros idx L. apply denote_transfer; try assumption; try reflexivity.
    + cbn [vaxes T']. rewrite Lvs. exact L.
    + intros rho R E. exists rho.
      assert (Same : forall k, In k (flat_map fv (vaxes t)) -> cenv sigma rho k = rho k).
      { intros k Hk. unfold cenv. destruct (assoc k sigma) as [c|] eqn:Ec; [|reflexivity].
        apply ones_assoc in Ec. destruct Ec as [-> H1]. simpl.
        apply (wf_fv V t W) in H1. symmetry.
        assert (rho k < 1); [|lia]. exact (proj1 (inrange_list_fvn rho (vaxes t)) R k 1 H1). }
      cbn [vaxes T']. split; [|split].
      * apply RngEq. apply (Forall_inrange_ext' rho); [|exact R]. intros k Hk. symmetry. apply Same. exact Hk.
      * rewrite EvEq, <- E. apply evals_ext. exact Same.
      * unfold pget. cbn [physical paxes T']. f_equal. apply unsqueeze_pcoords.
        intros k n Hk. split; [|reflexivity]. intros ->.
        assert (rho k < 1); [|lia]. apply (proj1 (inrange_list_fvn rho (vaxes t)) R k 1). apply (wf_fv V t W). exact Hk.
    + intros rho' R' E'. cbn [vaxes T'] in R', E'. exists (cenv sigma rho'). split; [apply RngEq; exact R'|].
      rewrite <- EvEq. exact E'.
Qed.

(** * dense tensors: [PatternedTensor(tensor, default=d)], [full], [from_int] *)
Fixpoint dbinds (shp : list nat) (next : positive) (idx : list nat) : list pn :=
  match shp, idx with
  | n :: shp', i :: idx' => if Nat.eqb n 1 then dbinds shp' next idx' else (next, i) :: dbinds shp' (Pos.succ next) idx'
  | _, _ => []
  end.

Lemma dense_axes_spec : forall shp next vs nx, dense_axes shp next = (vs, nx) ->
  map numel vs = shp /\ (next <= nx)%positive /\
  (forall k n, In (k, n) (flat_map fvn vs) -> (next <= k)%positive /\ (k < nx)%positive /\ n <> 1) /\
  NoDup (map fst (flat_map fvn vs)).
Proof.
  induction shp as [|n shp IH]; intros next vs nx H.
  - simpl in H. inversion H; subst. split; [reflexivity|]. split; [lia|]. split; [intros k n []|constructor].
  - cbn [dense_axes] in H. destruct (Nat.eqb_spec n 1) as [E|E].
    + destruct (dense_axes shp next) as [r nx'] eqn:D. inversion H; subst. destruct (IH _ _ _ D) as (A & B & C & N).
      split; [simpl; f_equal; exact A|]. split; [exact B|]. split; [exact C|exact N].
    + destruct (dense_axes shp (Pos.succ next)) as [r nx'] eqn:D. inversion H; subst. destruct (IH _ _ _ D) as (A & B & C & N).
      split; [simpl; f_equal; exact A|]. split; [lia|]. split.
      * intros k m [Hk|Hk]; [inversion Hk; subst; repeat split; try lia; try assumption|].
        destruct (C k m Hk) as (C1 & C2 & C3). repeat split; try lia; try assumption.
      * simpl. constructor; [|exact N]. intros Hin. apply in_map_iff in Hin. destruct Hin as ([k m] & Ek & Hk). simpl in Ek. subst k.
        destruct (C _ _ Hk). lia.
Qed.

Lemma index_unit pi v : v < 1 -> index unitAxis pi v = IOk pi.
Proof. intros H. assert (v = 0) by lia. subst. reflexivity. Qed.

Lemma dense_index : forall shp next idx pi vs nx, dense_axes shp next = (vs, nx) -> Forall2 lt idx shp ->
  (forall k, In k (map fst pi) -> (k < next)%positive) ->
  index_list vs pi idx = IOk (pi ++ dbinds shp next idx).
Proof.
  induction shp as [|n shp IH]; intros next idx pi vs nx H B Hpi.
  - inversion B; subst. simpl in H. inversion H; subst. simpl. rewrite app_nil_r. reflexivity.
  - inversion B as [|i ? idx' ? Hi B']; subst. cbn [dense_axes] in H. cbn [dbinds]. destruct (Nat.eqb_spec n 1) as [E|E].
    + destruct (dense_axes shp next) as [r nx'] eqn:D. inversion H; subst. cbn [index_list].
      rewrite index_unit by exact Hi. exact (IH _ _ _ _ _ D B' Hpi).
    + destruct (dense_axes shp (Pos.succ next)) as [r nx'] eqn:D. inversion H; subst. cbn [index_list index].
      destruct (n <=? i) eqn:Ei; [apply Nat.leb_le in Ei; lia|].
      rewrite assoc_notin by (intros Hin; specialize (Hpi _ Hin); lia).
      rewrite (IH _ _ (pi ++ [(next, i)]) _ _ D B').
      * rewrite <- app_assoc. reflexivity.
      * intros k Hk. rewrite map_app in Hk. apply in_app_or in Hk. destruct Hk as [Hk|[<-|[]]]; [specialize (Hpi _ Hk); lia|simpl; lia].
Qed.

Lemma dbinds_keys : forall shp next idx vs nx, dense_axes shp next = (vs, nx) -> length idx = length shp ->
  map fst (dbinds shp next idx) = map fst (flat_map fvn vs).
Proof.
  induction shp as [|n shp IH]; intros next idx vs nx H L; destruct idx as [|i idx]; try discriminate.
  - simpl in H. inversion H; subst. reflexivity.
  - cbn [dense_axes] in H. cbn [dbinds]. destruct (Nat.eqb_spec n 1) as [E|E].
    + destruct (dense_axes shp next) as [r nx'] eqn:D. inversion H; subst. simpl. apply (IH _ _ _ _ D). simpl in L. lia.
    + destruct (dense_axes shp (Pos.succ next)) as [r nx'] eqn:D. inversion H; subst. simpl. f_equal. apply (IH _ _ _ _ D). simpl in L. lia.
Qed.

Lemma unsqueeze_dbinds : forall shp next idx vs nx rho, dense_axes shp next = (vs, nx) -> Forall2 lt idx shp ->
  Forall (fun ki => rho (fst ki) = snd ki) (dbinds shp next idx) ->
  unsqueeze_idx shp (pcoords (flat_map fvn vs) rho) = idx.
Proof.
  induction shp as [|n shp IH]; intros next idx vs nx rho H B F.
  - inversion B; subst. reflexivity.
  - inversion B as [|i ? idx' ? Hi B']; subst. cbn [dense_axes] in H. cbn [dbinds] in F. cbn [unsqueeze_idx].
    destruct (Nat.eqb_spec n 1) as [E|E].
    + destruct (dense_axes shp next) as [r nx'] eqn:D. inversion H; subst. simpl. f_equal; [lia|]. exact (IH _ _ _ _ _ D B' F).
    + destruct (dense_axes shp (Pos.succ next)) as [r nx'] eqn:D. inversion H; subst. inversion F as [|? ? F1 F2]; subst.
      simpl in F1. simpl. rewrite F1. f_equal. exact (IH _ _ _ _ _ D B' F2).
Qed.

Theorem of_dense_refines shp (f : list nat -> V) d next :
  let r := fst (pt_of_dense V shp f d next) in
  repr_ok r /\ shape V r = shp /\ default r = d /\
  (forall k, In k (map fst (paxes r)) -> (next <= k)%positive /\ (k < snd (pt_of_dense V shp f d next))%positive) /\
  forall idx, in_bounds shp idx -> denote V r idx = f idx.
Proof.
  unfold pt_of_dense. destruct (dense_axes shp next) as [vs nx] eqn:D. cbn [fst snd].
  destruct (dense_axes_spec _ _ _ _ D) as (A & B & C & N).
  split; [split|].
  - constructor; cbn [paxes vaxes]; [exact N|intros k n; reflexivity].
  - cbn [paxes]. intros k n Hk. exact (proj2 (proj2 (C k n Hk))).
  - split; [exact A|]. split; [reflexivity|]. split.
    + cbn [paxes]. intros k Hk. apply in_map_iff in Hk. destruct Hk as ([k' n] & <- & Hk). destruct (C _ _ Hk) as (C1 & C2 & _). auto.
    + intros idx Bd. unfold denote. cbn [vaxes].
      rewrite (dense_index _ _ _ [] _ _ D Bd) by (intros k []). cbn [app].
      unfold pget. cbn [physical paxes]. f_equal. apply (unsqueeze_dbinds _ _ _ _ _ _ D Bd).
      apply env_of_binds. rewrite (dbinds_keys _ _ _ _ _ D); [exact N|]. exact (Forall2_len _ _ _ Bd).
Qed.

(** [full(size, fill)] *)
Corollary full_refines shp (d : V) next :
  let r := fst (pt_full V shp d next) in
  repr_ok r /\ shape V r = shp /\ forall idx, in_bounds shp idx -> denote V r idx = d.
Proof.
  destruct (of_dense_refines shp (fun _ => d) d next) as (R & S & _ & _ & D). unfold pt_full. auto.
Qed.

(** [default_to]: the same dense tensor, whichever branch is taken *)
Theorem default_to_refines (veqb : V -> V -> bool) d next (t : ptensor) :
  wf V t ->
  let r := fst (pt_default_to V veqb d next t) in
  wf V r /\ shape V r = shape V t /\ (no1 (paxes t) -> no1 (paxes r)) /\
  (default r = d \/ veqb (default t) d = true /\ default r = default t) /\
  forall idx, in_bounds (shape V t) idx -> denote V r idx = denote V t idx.
Proof.
  intros W. cbv zeta. unfold pt_default_to. destruct (veqb (default t) d) eqn:E.
  - cbn [fst]. split; [exact W|]. split; [reflexivity|]. split; [auto|]. split; [right; split; reflexivity|intros; reflexivity].
  - destruct (of_dense_refines (shape V t) (denote V t) d next) as ([R1 R2] & S & Dd & _ & D).
    split; [exact R1|]. split; [exact S|]. split; [intros _; exact R2|]. split; [left; exact Dd|exact D].
Qed.

End Struct.
