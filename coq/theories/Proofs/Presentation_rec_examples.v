(** C12: the hypotheses of the theorems about RECURSIVE grammars (least fixed point, enclosure,
    derivations, Viterbi weight, gradients) are satisfiable by non-trivial values: the
    recursive grammar [exG] of Proofs/Kleene_examples.v ( X -> X a | a ,  Y -> Y Y | a  over a
    node label with two values) and a presentation [exG'] of it with the domain values swapped,
    the labels renumbered (a -> 2, X -> 0, Y -> 1), the edges of every rule reversed and the rules
    listed in reverse order. *)
From Coq Require Import QArith Qcanon List Arith Bool PeanoNat Lia Permutation.
Import ListNotations.
Local Open Scope nat_scope.
Require Import Fggs.Model.Semiring Fggs.Model.SCC Fggs.Model.SumProduct Fggs.Model.EReal Fggs.Model.Trop
               Fggs.Model.Kleene Fggs.Model.Dual.
Require Import Fggs.Proofs.BigSum Fggs.Proofs.SP_trees Fggs.Proofs.SP_mono Fggs.Proofs.Kleene_proofs
               Fggs.Proofs.Kleene_control Fggs.Proofs.Kleene_linear Fggs.Proofs.Kleene_scc Fggs.Proofs.Kleene_examples.
Require Import Fggs.Proofs.Presentation Fggs.Proofs.Presentation_perm Fggs.Proofs.Presentation_nodes
               Fggs.Proofs.Presentation_dom Fggs.Proofs.Presentation_relabel Fggs.Proofs.Presentation_wf
               Fggs.Proofs.Presentation_cor Fggs.Proofs.Presentation_lfp Fggs.Proofs.Presentation_trees.

Definition rho_r (nl : nat) : list nat := nth nl [[1; 0]] [].
Definition pe_r : list nat := [2; 0; 1].
Definition pn_r : list nat := [0].
Definition rev_edges (r : rule) : rule :=
  {| r_lhs := r_lhs r; r_nodes := r_nodes r; r_edges := rev (r_edges r); r_ext := r_ext r |}.
Definition R2 : grammar := relabel_grammar pe_r pn_r exG.
Definition R3 : grammar :=
  {| g_doms := g_doms R2; g_labels := g_labels R2; g_start := g_start R2;
     g_rules := map (permute_nodes [0]) (g_rules R2) |}.
Definition R4 : grammar :=
  {| g_doms := g_doms R2; g_labels := g_labels R2; g_start := g_start R2;
     g_rules := map rev_edges (g_rules R3) |}.
Definition exG' : grammar :=
  {| g_doms := g_doms R2; g_labels := g_labels R2; g_start := g_start R2; g_rules := rev (g_rules R4) |}.

(** spelled out: labels 0 = X, 1 = Y (nonterminals), 2 = a (terminal) *)
Example exG'_eq : exG' =
  {| g_doms := [2];
     g_labels := [(false, [0]); (false, [0]); (true, [0])];
     g_rules := [ {| r_lhs := 1; r_nodes := [0]; r_edges := [(2, [0])]; r_ext := [0] |};
                  {| r_lhs := 1; r_nodes := [0]; r_edges := [(1, [0]); (1, [0])]; r_ext := [0] |};
                  {| r_lhs := 0; r_nodes := [0]; r_edges := [(2, [0])]; r_ext := [0] |};
                  {| r_lhs := 0; r_nodes := [0]; r_edges := [(2, [0]); (0, [0])]; r_ext := [0] |} ];
     g_start := 0 |}.
Proof. reflexivity. Qed.

Example exG'_wf : wf_grammar exG' = true.
Proof. reflexivity. Qed.

Example rho_r_ok : dom_perms exG rho_r.
Proof.
  intros nl Hnl. cbn in Hnl. destruct nl as [|nl]; [|lia]. split; [apply is_permb_sound|]; reflexivity.
Qed.

Example exG_presents : presents rho_r (pfun pe_r) (pfun pn_r) exG exG'.
Proof.
  split; [exact rho_r_ok|]. exists R2, R3, R4.
  split; [apply relabel_grammar_rel; try reflexivity; apply is_permb_sound; reflexivity|].
  split; [split; reflexivity|].
  split.
  { cbn. repeat constructor; exists [0]; apply permute_nodes_rel; try reflexivity; apply is_permb_sound; reflexivity. }
  split; [split; reflexivity|].
  split.
  { cbn. repeat constructor. }
  split; [split; reflexivity|]. apply Permutation_rev.
Qed.

(** [pel] reaches every nonterminal of the presentation *)
Example exG_onto : forall X', In X' (nonterminals exG') -> exists X, vlab exG X /\ pfun pe_r X = X'.
Proof.
  intros X' [<-|[<-|[]]]; [exists 1|exists 2]; split; try reflexivity; unfold vlab; cbn; lia.
Qed.

(** weights in any semiring: the presentation's weights are the old ones, axes permuted, looked
    up under the old label *)
Section W.
Context {R : Type}.
Definition pres_w (w : env (R:=R)) : env (R:=R) := relabel_weights pe_r (permute_weights exG rho_r w).
Lemma pres_w_ok (w : env (R:=R)) : weights_pres rho_r (pfun pe_r) exG w (pres_w w).
Proof.
  intros l idx _ Hidx _. unfold pres_w, relabel_weights, permute_weights.
  rewrite (pfun_pinv_l pe_r l (is_permb_sound pe_r eq_refl)). f_equal. apply pmap_inv.
  - intros nl Hin. apply rho_r_ok. now apply (wf_grammar_ltype exG l).
  - apply all_assts_length in Hidx. unfold lshape in Hidx. now rewrite map_length in Hidx.
Qed.
End W.

(** Bool: the least fixed point of [exG] exists (Kleene_examples.ex_is_lfp), so the pushed
    table is the least fixed point of the presentation, on all its nonterminals *)
Example exG'_lfp :
  exists mu mu', is_lfp_on bool_ops exG (nonterminals exG) (step bool_ops exG exw) mu
    /\ env_pres rho_r (pfun pe_r) exG mu mu'
    /\ is_lfp_on bool_ops exG' (nonterminals exG') (step bool_ops exG' (pres_w exw)) mu'.
Proof.
  destruct ex_is_lfp as (mu & Hmu). exists mu, (push_env bool_ops rho_r (pfun pe_r) exG mu).
  pose proof (push_env_pres bool_ops rho_r (pfun pe_r) (pfun pn_r) exG exG' mu ex_wf exG_presents) as Hpres.
  split; [exact Hmu|]. split; [exact Hpres|].
  apply (lfp_presentation_all bool_ops bool_sr_ring rho_r (pfun pe_r) (pfun pn_r) exG exG' exw (pres_w exw) mu _
           ex_wf exG_presents (pres_w_ok exw) exG_onto Hpres). exact Hmu.
Qed.

(** the two exact enclosures succeed and agree at corresponding cells: X at value 1 is label 0
    at value 0 of the presentation *)
Example exG'_enclosure :
  exists lo lo', enclosure bool_ops (fun x => x) (fun x => x) (fun a b : bool => implb a b) exG exw 3 = Some (lo, lo)
    /\ enclosure bool_ops (fun x => x) (fun x => x) (fun a b : bool => implb a b) exG' (pres_w exw) 3 = Some (lo', lo')
    /\ env_of bool_ops lo 1 [1] = true /\ env_of bool_ops lo' 0 [0] = true
    /\ env_of bool_ops lo 1 [0] = false /\ env_of bool_ops lo' 0 [1] = false.
Proof. eexists. eexists. vm_compute. repeat split. Qed.

(** a derivation of X at value 1 (X -> X a, then X -> a), well formed, and the cell it belongs to *)
Definition ex_tree : dtree := DT 0 [1] [Some (DT 1 [1] [None]); None].
Example ex_tree_wf : wf_dtree exG 1 [1] ex_tree /\ vlab exG 1 /\ vidx exG 1 [1] /\ is_term exG 1 = false.
Proof.
  split; [|split; [unfold vlab; cbn; lia|split; [right; left; reflexivity|reflexivity]]].
  cbn. repeat split; try lia; auto.
Qed.

(** Viterbi weights a = [-inf, -1]: the derivation X -> a is optimal for X at value 1 *)
Definition exw_trop : env (R:=trop) :=
  fun l xi => match l, xi with 0, [1] => TFin (Q2Qc ((-1) # 1)) | _, _ => NInf end.

(** the weight entry a[1] of [exG] is the entry (label 2, value 0) of the presentation *)
Example ex_entry : pfun pe_r 0 = 2 /\ pmap rho_r (ltype exG 0) [1] = [0] /\ vlab exG 0 /\ vidx exG 0 [1].
Proof. repeat split; try reflexivity; [unfold vlab; cbn; lia|right; left; reflexivity]. Qed.

(** * reverse accumulation: the non-recursive grammar [P_ex] and its presentation [P_ex']
      (Proofs/Presentation_examples.v) with weight TABLES over the natural numbers *)
Require Import Fggs.Proofs.SP_driver Fggs.Proofs.SP_main Fggs.Proofs.SP_examples Fggs.Proofs.Presentation_examples.

Definition wt_ex : tmt (R:=nat) :=
  [(0, tabulate (lshape P_ex 0) (w_ex 0)); (1, tabulate (lshape P_ex 1) (w_ex 1))].
Definition wt_ex' : tmt (R:=nat) :=
  [(2, tabulate (lshape P_ex' 2) (w_ex' 2)); (0, tabulate (lshape P_ex' 0) (w_ex' 0))].

Example wt_ex_hyps :
  (forall l, tget wt_ex l <> None -> is_term P_ex l = true)
  /\ (forall l, tget wt_ex' l <> None -> is_term P_ex' l = true)
  /\ weights_pres rho_ex (pfun pe_ex) P_ex (env_of nat_ops_example wt_ex) (env_of nat_ops_example wt_ex')
  /\ g_start P_ex' = pfun pe_ex (g_start P_ex)
  /\ NoDup [2; 3] /\ (forall X, is_term P_ex X = false -> In X [2; 3])
  /\ NoDup [3; 1] /\ (forall X, is_term P_ex' X = false -> In X [3; 1])
  /\ is_term P_ex 0 = true /\ vlab P_ex 0 /\ vidx P_ex 0 [1; 2] /\ pfun pe_ex 0 < length (g_labels P_ex').
Proof.
  split; [intros [|[|l]] H; try reflexivity; cbn in H; congruence|].
  split; [intros [|[|[|l]]] H; try reflexivity; cbn in H; congruence|].
  split.
  { intros l idx Hl Hidx Ht. unfold vlab in Hl. cbn in Hl.
    destruct l as [|[|[|[|l]]]]; try lia; cbn in Ht; try discriminate Ht; unfold vidx in Hidx; cbn in Hidx;
      repeat (destruct Hidx as [<-|Hidx]; [vm_compute; reflexivity|]); destruct Hidx. }
  split; [reflexivity|].
  split.
  { constructor; [cbn; intuition lia|]. constructor; [cbn; intuition|constructor]. }
  split.
  { intros [|[|[|[|X]]]] H; cbn in H; try discriminate H; cbn; auto; destruct X; discriminate H. }
  split.
  { constructor; [cbn; intuition lia|]. constructor; [cbn; intuition|constructor]. }
  split.
  { intros [|[|[|[|X]]]] H; cbn in H; try discriminate H; cbn; auto; destruct X; discriminate H. }
  split; [reflexivity|]. split; [unfold vlab; cbn; lia|]. split; [|cbn; lia].
  unfold vidx. cbn. auto 10.
Qed.
