(** Refinement of the view operations that need list combinatorics: permute and flatten. *)
From Coq Require Import List Arith Lia PeanoNat Bool PArith.
Import ListNotations.
Require Import Fggs.Model.Axis Fggs.Model.PTensor.
Require Import Fggs.Proofs.Axis_sem Fggs.Proofs.Axis_unify Fggs.Proofs.PTensor_sem Fggs.Proofs.PTensor_dense.

(** * [select] *)
Lemma select_map {A B} (f : A -> B) dims : forall l,
  select dims (map f l) = match select dims l with Some r => Some (map f r) | None => None end.
Proof.
  induction dims as [|d dims IH]; intros l; simpl; [reflexivity|].
  rewrite nth_error_map, IH. destruct (nth_error l d); simpl; [|reflexivity]. destruct (select dims l); reflexivity.
Qed.

Lemma select_nth {A} dims : forall (l r : list A), select dims l = Some r ->
  forall p d, nth_error dims p = Some d -> nth_error r p = nth_error l d /\ nth_error l d <> None.
Proof.
  induction dims as [|d0 dims IH]; intros l r H p d Hp; [destruct p; discriminate|].
  simpl in H. destruct (nth_error l d0) as [x|] eqn:Ex; [|discriminate].
  destruct (select dims l) as [r'|] eqn:Er; [|discriminate]. inversion H; subst.
  destruct p as [|p]; simpl in Hp.
  - inversion Hp; subst. simpl. rewrite Ex. split; [reflexivity|discriminate].
  - simpl. eapply IH; eauto.
Qed.

Lemma select_length {A} dims : forall (l r : list A), select dims l = Some r -> length r = length dims.
Proof.
  induction dims as [|d dims IH]; intros l r H; simpl in H.
  - inversion H. reflexivity.
  - destruct (nth_error l d); [|discriminate]. destruct (select dims l) eqn:E; [|discriminate].
    inversion H; subst. simpl. f_equal. eapply IH; eauto.
Qed.

Lemma select_In {A} dims : forall (l r : list A) x, select dims l = Some r -> In x r -> In x l.
Proof.
  induction dims as [|d dims IH]; intros l r x H Hx; simpl in H.
  - inversion H; subst. contradiction.
  - destruct (nth_error l d) as [y|] eqn:Ey; [|discriminate]. destruct (select dims l) eqn:E; [|discriminate].
    inversion H; subst. destruct Hx as [<-|Hx]; [eapply nth_error_In; eauto|eapply IH; eauto].
Qed.

Lemma is_perm_pos dims n : is_perm dims n = true ->
  length dims = n /\ forall j, j < n -> exists p, nth_error dims p = Some j.
Proof.
  unfold is_perm. intros H. apply andb_true_iff in H. destruct H as [H1 H2]. apply Nat.eqb_eq in H1.
  split; [exact H1|]. intros j Hj. rewrite forallb_forall in H2.
  specialize (H2 j (proj2 (in_seq _ _ _) (conj (Nat.le_0_l _) Hj))).
  apply existsb_exists in H2. destruct H2 as (x & Hx & E). apply Nat.eqb_eq in E. subst x.
  apply In_nth_error in Hx. exact Hx.
Qed.

Lemma nth_error_ext {A} (a : list A) : forall b, (forall j, nth_error a j = nth_error b j) -> a = b.
Proof.
  induction a as [|x a IH]; intros [|y b] H; try reflexivity; try (specialize (H 0); discriminate).
  pose proof (H 0) as H0. simpl in H0. inversion H0; subst. f_equal. apply IH. intros j. exact (H (S j)).
Qed.

(** on lists of length [n], selecting along a permutation is injective and covers every element *)
Lemma select_inj {A} dims n (a b r : list A) : is_perm dims n = true -> length a = n -> length b = n ->
  select dims a = Some r -> select dims b = Some r -> a = b.
Proof.
  intros P La Lb Ha Hb. destruct (is_perm_pos _ _ P) as [_ Pos].
  apply nth_error_ext. intros j.
  destruct (Nat.lt_ge_cases j n) as [Hj|Hj].
  - destruct (Pos j Hj) as (p & Hp).
    destruct (select_nth _ _ _ Ha _ _ Hp) as [Ea _]. destruct (select_nth _ _ _ Hb _ _ Hp) as [Eb _]. congruence.
  - rewrite (proj2 (nth_error_None a j)) by lia. rewrite (proj2 (nth_error_None b j)) by lia. reflexivity.
Qed.

Lemma select_covers {A} dims n (l r : list A) x : is_perm dims n = true -> length l = n ->
  select dims l = Some r -> In x l -> In x r.
Proof.
  intros P L H Hx. destruct (is_perm_pos _ _ P) as [_ Pos].
  apply In_nth_error in Hx. destruct Hx as (j & Hj).
  assert (j < n) by (rewrite <- L; apply nth_error_Some; congruence).
  destruct (Pos j H0) as (p & Hp). destruct (select_nth _ _ _ H _ _ Hp) as [E _].
  rewrite Hj in E. eapply nth_error_In; eauto.
Qed.

Section Views.
Variable V : Type.
Notation ptensor := (ptensor V).

(** permute: the element at the permuted index is the element at the original index *)
Theorem permute_refines (t t' : ptensor) dims idx idx' :
  covers (paxes t) (vaxes t) -> length idx = length (vaxes t) ->
  pt_permute V dims t = Some t' -> select dims idx = Some idx' ->
  denote V t' idx' = denote V t idx.
Proof.
  intros C L H Hi. unfold pt_permute in H.
  destruct (is_perm dims (length (vaxes t))) eqn:P; [|discriminate].
  destruct (select dims (vaxes t)) as [vs'|] eqn:Ev; [|discriminate]. inversion H; subst t'. clear H.
  apply view_lemma; try assumption.
  - intros k Hk. specialize (C k Hk). apply in_flat_map in C. destruct C as (e & He & Hke).
    apply in_flat_map. exists e. split; [eapply select_covers; eauto|exact Hke].
  - rewrite (select_length _ _ _ Hi), (select_length _ _ _ Ev). reflexivity.
  - intros rho. split; intros [R E].
    + split.
      * rewrite Forall_forall in *. intros e He. apply R. eapply select_In; eauto.
      * unfold evals in *. pose proof (select_map (eval rho) dims (vaxes t)) as M. rewrite Ev, E, Hi in M.
        inversion M. reflexivity.
    + split.
      * rewrite Forall_forall in *. intros e He. apply R. eapply select_covers; eauto.
      * unfold evals in *. pose proof (select_map (eval rho) dims (vaxes t)) as M. rewrite Ev, E in M.
        eapply (select_inj dims (length (vaxes t))); eauto. rewrite map_length. reflexivity.
Qed.

(** * flatten *)
Lemma inrange_factors rho l : Forall (inrange rho) (flat_map factors_of l) <-> Forall (inrange rho) l.
Proof.
  induction l as [|x l IH]; simpl; [tauto|]. rewrite Forall_app, IH.
  assert (Forall (inrange rho) (factors_of x) <-> inrange rho x) as ->.
  { destruct x as [k n|l'|b t a]; simpl.
    - split; [intros H; inversion H; assumption|intros H; constructor; [exact H|constructor]].
    - symmetry. apply (inrange_Prod rho l').
    - split; [intros H; inversion H; assumption|intros H; constructor; [exact H|constructor]]. }
  split; [intros [H1 H2]; constructor; assumption|intros H; inversion H; split; assumption].
Qed.

Lemma inrange_productAxis rho l : inrange rho (productAxis l) <-> Forall (inrange rho) l.
Proof.
  rewrite <- inrange_factors. unfold productAxis. destruct (flat_map factors_of l) as [|x [|y r]].
  - rewrite inrange_Prod. tauto.
  - split; [intros H; constructor; [exact H|constructor]|intros H; inversion H; assumption].
  - apply inrange_Prod.
Qed.

Lemma fv_productAxis l k : In k (fv (productAxis l)) <-> In k (flat_map fv l).
Proof.
  assert (F : In k (flat_map fv (flat_map factors_of l)) <-> In k (flat_map fv l)).
  { induction l as [|x l IH]; simpl; [tauto|]. rewrite flat_map_app, !in_app_iff, IH.
    assert (In k (flat_map fv (factors_of x)) <-> In k (fv x)) as ->; [|tauto].
    destruct x as [k' n|l'|b t a]; simpl; rewrite ?app_nil_r; tauto. }
  rewrite <- F. unfold productAxis. destruct (flat_map factors_of l) as [|x [|y r]]; simpl; rewrite ?app_nil_r; tauto.
Qed.

Theorem flatten_refines (t : ptensor) idx :
  covers (paxes t) (vaxes t) -> in_bounds (shape V t) idx ->
  denote V (pt_flatten V t) [flat_offset (shape V t) idx] = denote V t idx.
Proof.
  intros C B.
  assert (L : length idx = length (vaxes t)).
  { apply Forall2_len in B. unfold shape in B. rewrite map_length in B. exact B. }
  assert (G : denote V (with_vaxes V t [productAxis (vaxes t)]) [flat_offset (shape V t) idx] = denote V t idx).
  { apply view_lemma; try assumption; [|reflexivity|].
    - intros k Hk. simpl. rewrite app_nil_r. apply fv_productAxis. exact (C k Hk).
    - intros rho. unfold evals. simpl. rewrite (proj1 (productAxis_sem rho (vaxes t))).
      split; intros [R E].
      + split; [constructor; [apply inrange_productAxis; exact R|constructor]|].
        f_equal. rewrite <- flat_offset_evals. unfold evals, shape. rewrite E. reflexivity.
      + inversion R as [|? ? R1 _]; subst. apply inrange_productAxis in R1. split; [exact R1|].
        inversion E as [E1]. rewrite <- flat_offset_evals in E1.
        apply (flat_offset_inj (shape V t)); [apply evals_in_bounds; exact R1|exact B|exact E1]. }
  unfold pt_flatten. destruct (vaxes t) as [|e [|e' r]] eqn:Ev; try exact G.
  (* a single dimension: flatten returns self *)
  destruct idx as [|i [|j r]]; try discriminate. unfold shape. rewrite Ev. simpl. unfold flat_offset. simpl. reflexivity.
Qed.

End Views.
