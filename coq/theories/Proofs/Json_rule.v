(** C14: one rule through [hrg_to_json] and back through [json_to_hrg]. *)
From Coq Require Import List Arith Bool PeanoNat ZArith Lia Permutation.
Import ListNotations.
Require Import Fggs.Model.Json Fggs.Proofs.Json_base Fggs.Proofs.Json_iso.
Local Open Scope nat_scope.

(** * ids *)
(** what [json_to_hrg] makes of an id: explicit ids are kept, an implicit one becomes a new object *)
Definition fresh_id (i : nid) (c : nat) : nid * nat :=
  match i with Explicit s => (Explicit s, c) | Implicit _ => (Implicit c, S c) end.

Lemma parse_id_jid : forall i c, parse_id (dict_find (jid i) k_id) c = Ok (fresh_id i c).
Proof. intros [s|n] c; reflexivity. Qed.

Lemma id_match_fresh : forall i c, id_match i (fst (fresh_id i c)).
Proof. intros [s|n] c; cbn; auto. Qed.

(** the ids met so far ([seen]) cannot clash with what is still to come: explicit ids of the rest
    are not in [seen], implicit ids in [seen] were made from smaller counter values *)
Definition seen_ok (seen : list nid) (c : nat) (ids : list nid) : Prop :=
  (forall s, In (Explicit s) seen -> ~ In (Explicit s) ids) /\ (forall n, In (Implicit n) seen -> n < c).

Lemma seen_ok_nil : forall c ids, seen_ok [] c ids.
Proof. intros c ids. split; intros ? []. Qed.

Lemma seen_ok_head : forall seen c i ids, seen_ok seen c (i :: ids) -> id_mem (fst (fresh_id i c)) seen = false.
Proof.
  intros seen c [s|n] ids [H1 H2]; cbn; apply id_mem_false; intro Hin.
  - apply (H1 s Hin). now left.
  - specialize (H2 c Hin). lia.
Qed.

Lemma seen_ok_tail : forall seen c i ids, NoDup (i :: ids) -> seen_ok seen c (i :: ids) ->
  seen_ok (fst (fresh_id i c) :: seen) (snd (fresh_id i c)) ids.
Proof.
  intros seen c i ids Hnd [H1 H2]. inversion Hnd as [|? ? Hni Hnd']; subst. destruct i as [s|n]; cbn; split.
  - intros s' [E|Hin]; [inversion E; subst; exact Hni|]. intro Hc. apply (H1 s' Hin). now right.
  - intros n [E|Hin]; [discriminate|]. now apply H2.
  - intros s' [E|Hin]; [discriminate|]. intro Hc. apply (H1 s' Hin). now right.
  - intros n' [E|Hin]; [inversion E; lia|]. specialize (H2 n' Hin). lia.
Qed.

(** * nodes *)
Fixpoint fresh_nodes (l : list node) (c : nat) : list node * nat :=
  match l with
  | [] => ([], c)
  | v :: l' =>
      let ic := fresh_id (n_id v) c in
      let r := fresh_nodes l' (snd ic) in
      (mkNode (n_label v) (fst ic) :: fst r, snd r)
  end.

Lemma parse_nodes_step : forall v l c seen,
  parse_nodes (jnode v :: l) c seen =
  (do ic <- parse_id (dict_find (jid (n_id v)) k_id) c;
   if id_mem (fst ic) seen then Err ValueErr
   else do r <- parse_nodes l (snd ic) (fst ic :: seen);
        Ok (mkNode (n_label v) (fst ic) :: fst r, snd r)).
Proof. intros [lab [s|n]] l c seen; reflexivity. Qed.

Lemma parse_nodes_jnode : forall l c seen,
  NoDup (map n_id l) -> seen_ok seen c (map n_id l) ->
  parse_nodes (map jnode l) c seen = Ok (fresh_nodes l c).
Proof.
  induction l as [|v l IH]; intros c seen Hnd Hok; [reflexivity|].
  cbn [map] in *. rewrite parse_nodes_step, parse_id_jid. cbn [bind].
  rewrite (seen_ok_head _ _ _ _ Hok).
  rewrite IH; [reflexivity| |].
  - now inversion Hnd.
  - now apply seen_ok_tail.
Qed.

Lemma fresh_nodes_match : forall l c, Forall2 node_match l (fst (fresh_nodes l c)).
Proof.
  induction l as [|v l IH]; intro c; cbn; constructor.
  - split; [reflexivity|apply id_match_fresh].
  - apply IH.
Qed.

Lemma fresh_nodes_explicit : forall l c, forallb (fun v => is_explicit (n_id v)) l = true -> fresh_nodes l c = (l, c).
Proof.
  induction l as [|[lab [s|n]] l IH]; intros c H; cbn in *; try discriminate; [reflexivity|].
  now rewrite IH.
Qed.

(** whatever [parse_nodes] accepts has pairwise distinct ids *)
Lemma parse_nodes_nodup : forall l c seen ns c',
  parse_nodes l c seen = Ok (ns, c') -> NoDup (map n_id ns) /\ forall v, In v ns -> ~ In (n_id v) seen.
Proof.
  induction l as [|jn l IH]; intros c seen ns c' H; cbn in H.
  - inversion H; subst. split; [constructor|intros ? []].
  - apply bind_ok in H as [lab [_ H]]. apply bind_ok in H as [name [_ H]]. apply bind_ok in H as [o [_ H]].
    apply bind_ok in H as [ic [_ H]]. destruct (id_mem (fst ic) seen) eqn:Em; [discriminate|].
    apply bind_ok in H as [[ns' c''] [Hr H]]. inversion H; subst. cbn [fst snd] in *.
    destruct (IH _ _ _ _ Hr) as [Hnd Hs]. split.
    + cbn. constructor; [|assumption]. intro Hin. apply in_map_iff in Hin as [v [Ev Hv]].
      apply (Hs v Hv). rewrite Ev. now left.
    + intros v [E|Hv]; [subst; cbn; now apply id_mem_false|].
      intro Hc. apply (Hs v Hv). now right.
Qed.

(** * attachments and externals: written as positions, read back by position *)
Lemma nth_error_combine : forall {A B : Type} (a : list A) (b : list B) i x y,
  nth_error a i = Some x -> nth_error b i = Some y -> In (x, y) (combine a b).
Proof.
  intros A B. induction a as [|x0 a IH]; intros [|y0 b] [|i] x y Ha Hb; cbn in *; try discriminate.
  - inversion Ha; inversion Hb; subst. now left.
  - right. eapply IH; eassumption.
Qed.

Lemma att_roundtrip : forall snodes nodes' l,
  length snodes = length nodes' -> (forall v, In v l -> In v snodes) ->
  exists js l', mapM (node_num snodes) l = Ok js /\ mapM (att_index nodes') js = Ok l' /\
                Forall2 (paired snodes nodes') l l'.
Proof.
  intros snodes nodes' l Hlen. induction l as [|v l IH]; intro Hin.
  - exists [], []. repeat split; constructor.
  - destruct IH as [js [l' [H1 [H2 H3]]]]; [intros u Hu; apply Hin; now right|].
    destruct (node_num_in snodes v (Hin v (or_introl eq_refl))) as [i [Hi Hn]].
    assert (i < length nodes') as Hlt by (rewrite <- Hlen; apply nth_error_Some; congruence).
    destruct (nth_error nodes' i) as [v'|] eqn:Ev; [|apply nth_error_None in Ev; lia].
    exists (JInt (Z.of_nat i) :: js), (v' :: l'). repeat split.
    + cbn. now rewrite Hi, H1.
    + cbn [mapM]. now rewrite (att_index_nat nodes' i v' Ev), H2.
    + constructor; [|assumption]. eapply nth_error_combine; eassumption.
Qed.

Lemma paired_labels : forall ns ns' l l',
  Forall2 node_match ns ns' -> Forall2 (paired ns ns') l l' -> map n_label l' = map n_label l.
Proof.
  intros ns ns' l l' Hm H. induction H as [|v v' l l' Hp _ IH]; cbn; [reflexivity|].
  now rewrite (paired_label ns ns' v v' Hm Hp), IH.
Qed.

(** a list paired with itself: the pairing is the identity *)
Lemma paired_self : forall ns v v', NoDup ns -> paired ns ns v v' -> v' = v.
Proof.
  intros ns v v' Hnd H. unfold paired in H.
  assert (forall l (x y : node), In (x, y) (combine l l) -> x = y) as Hd.
  { induction l as [|z l IHl]; intros x y Hxy; [inversion Hxy|]. cbn in Hxy.
    destruct Hxy as [E|Hxy]; [now inversion E|now apply IHl]. }
  symmetry. now apply (Hd ns).
Qed.

Lemma paired_self_list : forall ns l l', NoDup ns -> Forall2 (paired ns ns) l l' -> l' = l.
Proof.
  intros ns l l' Hnd H. induction H as [|v v' l l' Hp _ IH]; [reflexivity|].
  now rewrite (paired_self ns v v' Hnd Hp), IH.
Qed.

(** * edges *)
Lemma parse_edges_step : forall tbl nodes js name i l c seen,
  parse_edges tbl nodes (JDict ((k_attachments, JList js) :: (k_label, JStr name) :: jid i) :: l) c seen =
  (do att <- mapM (att_index nodes) js;
   do lab <- label_lookup tbl (JStr name);
   do ic <- parse_id (dict_find (jid i) k_id) c;
   if negb (strs_eqb (el_type lab) (map n_label att)) then Err ValueErr
   else if id_mem (fst ic) seen then Err ValueErr
   else do r <- parse_edges tbl nodes l (snd ic) (fst ic :: seen);
        Ok (mkEdge lab att (fst ic) :: fst r, snd r)).
Proof. intros tbl nodes js name [s|n] l c seen; reflexivity. Qed.

(** an edge that can be written and read: its label is registered under its name, its attachment
    nodes are nodes of the graph and have the labels the edge label demands *)
Definition edge_ok (tbl : list elabel) (snodes : list node) (e : edge) : Prop :=
  lab_get tbl (el_name (e_label e)) = Some (e_label e) /\
  (forall v, In v (e_att e) -> In v snodes) /\
  el_type (e_label e) = map n_label (e_att e).

Lemma edges_roundtrip : forall tbl snodes nodes' es c seen,
  Forall2 node_match snodes nodes' ->
  Forall (edge_ok tbl snodes) es -> NoDup (map e_id es) -> seen_ok seen c (map e_id es) ->
  exists jes es' c',
    mapM (jedge snodes) es = Ok jes /\
    parse_edges tbl nodes' jes c seen = Ok (es', c') /\
    Forall2 (edge_match snodes nodes') es es'.
Proof.
  intros tbl snodes nodes' es c seen Hm. revert c seen.
  assert (length snodes = length nodes') as Hlen by (eapply Forall2_len; exact Hm).
  induction es as [|e es IH]; intros c seen Hok Hnd Hseen.
  - exists [], [], c. repeat split; constructor.
  - inversion Hok as [|? ? [Hlab [Hatt Hty]] Hok']; subst. cbn [map] in *.
    destruct (att_roundtrip snodes nodes' (e_att e) Hlen Hatt) as [js [att' [H1 [H2 H3]]]].
    destruct (IH (snd (fresh_id (e_id e) c)) (fst (fresh_id (e_id e) c) :: seen) Hok')
      as [jes [es' [c' [H4 [H5 H6]]]]].
    { now inversion Hnd. }
    { now apply seen_ok_tail. }
    eexists. exists (mkEdge (e_label e) att' (fst (fresh_id (e_id e) c)) :: es'), c'. repeat split.
    + cbn [mapM]. unfold jedge at 1. rewrite H1. cbn [bind]. rewrite H4. cbn [bind]. reflexivity.
    + rewrite parse_edges_step, H2. cbn [bind label_lookup]. rewrite Hlab. cbn [bind].
      rewrite parse_id_jid. cbn [bind].
      rewrite (paired_labels _ _ _ _ Hm H3), Hty, (proj2 (strs_eqb_eq _ _) eq_refl). cbn [negb].
      rewrite (seen_ok_head _ _ _ _ Hseen), H5. reflexivity.
    + constructor; [|assumption]. split; [reflexivity|]. split; [apply id_match_fresh|assumption].
Qed.

(** * a rule *)
Lemma parse_rule_step : forall tbl name jn je jx c,
  parse_rule tbl (JDict [(k_lhs, JStr name);
                         (k_rhs, JDict [(k_nodes, JList jn); (k_edges, JList je); (k_externals, JList jx)])]) c =
  (do lhs <- label_lookup tbl (JStr name);
   do nc <- parse_nodes jn c [];
   do ec <- parse_edges tbl (fst nc) je (snd nc) [];
   do ext <- mapM (att_index (fst nc)) jx;
   if el_term lhs then Err OtherErr
   else if negb (strs_eqb (el_type lhs) (map n_label ext)) then Err OtherErr
   else Ok (mkRule lhs (mkGraph (fst nc) (fst ec) ext), snd ec)).
Proof. reflexivity. Qed.

(** the facts [wf_rule] packs, as propositions *)
Lemma wf_rule_facts : forall labels r, wf_rule labels r = true ->
  In (r_lhs r) labels /\ el_term (r_lhs r) = false /\
  el_type (r_lhs r) = map n_label (g_ext (r_rhs r)) /\
  NoDup (map n_id (g_nodes (r_rhs r))) /\ NoDup (map e_id (g_edges (r_rhs r))) /\
  (forall v, In v (g_ext (r_rhs r)) -> In v (g_nodes (r_rhs r))) /\
  Forall (fun e => In (e_label e) labels /\ (forall v, In v (e_att e) -> In v (g_nodes (r_rhs r))) /\
                   el_type (e_label e) = map n_label (e_att e)) (g_edges (r_rhs r)).
Proof.
  intros labels r H. unfold wf_rule, wf_graph in H.
  apply andb_true_iff in H as [H Hg]. apply andb_true_iff in H as [H H3]. apply andb_true_iff in H as [H1 H2].
  apply andb_true_iff in Hg as [Hg H7]. apply andb_true_iff in Hg as [Hg H6]. apply andb_true_iff in Hg as [H4 H5].
  repeat split.
  - now apply label_mem_In.
  - now apply negb_true_iff.
  - now apply strs_eqb_eq.
  - now apply nodup_ids_NoDup.
  - now apply nodup_ids_NoDup.
  - intros v Hv. rewrite forallb_forall in H6. apply node_mem_In. now apply H6.
  - apply Forall_forall. intros e He. rewrite forallb_forall in H7. specialize (H7 e He).
    apply andb_true_iff in H7 as [H7 H9]. apply andb_true_iff in H7 as [H7 H8]. repeat split.
    + now apply label_mem_In.
    + intros v Hv. rewrite forallb_forall in H8. apply node_mem_In. now apply H8.
    + now apply strs_eqb_eq.
Qed.

(** the rule [json_to_hrg] builds from what [hrg_to_json] wrote, in detail *)
Theorem rule_roundtrip_strong : forall dec tbl labels r c,
  wf_rule labels r = true ->
  (forall l, In l labels -> lab_get tbl (el_name l) = Some l) ->
  let snodes := sorted_nodes dec (r_rhs r) in
  let sedges := sorted_edges dec (r_rhs r) in
  let nodes' := fst (fresh_nodes snodes c) in
  exists jr es' ext' c',
    jrule dec r = Ok jr /\
    parse_rule tbl jr c = Ok (mkRule (r_lhs r) (mkGraph nodes' es' ext'), c') /\
    NoDup (map n_id snodes) /\ NoDup (map n_id nodes') /\
    Forall2 node_match snodes nodes' /\
    Forall2 (paired snodes nodes') (g_ext (r_rhs r)) ext' /\
    Forall2 (edge_match snodes nodes') sedges es'.
Proof.
  intros dec tbl labels r c Hwf Htbl snodes sedges nodes'.
  destruct (wf_rule_facts _ _ Hwf) as [Hlhs [Hterm [Hty [Hnd [Hed [Hext Hedges]]]]]].
  assert (Permutation snodes (g_nodes (r_rhs r))) as Hpn by apply sort_by_perm.
  assert (Permutation sedges (g_edges (r_rhs r))) as Hpe by apply sort_by_perm.
  assert (NoDup (map n_id snodes)) as Hnd'.
  { eapply Permutation_NoDup; [|exact Hnd]. apply Permutation_map. now symmetry. }
  assert (Forall2 node_match snodes nodes') as Hm by apply fresh_nodes_match.
  assert (length snodes = length nodes') as Hlen by (eapply Forall2_len; exact Hm).
  assert (parse_nodes (map jnode snodes) c [] = Ok (fresh_nodes snodes c)) as Hpn'.
  { apply parse_nodes_jnode; [assumption|apply seen_ok_nil]. }
  destruct (att_roundtrip snodes nodes' (g_ext (r_rhs r)) Hlen) as [jx [ext' [Hx1 [Hx2 Hx3]]]].
  { intros v Hv. apply (Permutation_in _ (Permutation_sym Hpn)). now apply Hext. }
  destruct (edges_roundtrip tbl snodes nodes' sedges (snd (fresh_nodes snodes c)) [] Hm)
    as [jes [es' [c' [He1 [He2 He3]]]]].
  { apply Forall_forall. intros e He. apply (Permutation_in _ Hpe) in He.
    rewrite Forall_forall in Hedges. destruct (Hedges e He) as [H1 [H2 H3]]. repeat split.
    - now apply Htbl.
    - intros v Hv. apply (Permutation_in _ (Permutation_sym Hpn)). now apply H2.
    - assumption. }
  { eapply Permutation_NoDup; [|exact Hed]. apply Permutation_map. now symmetry. }
  { apply seen_ok_nil. }
  exists (JDict [(k_lhs, JStr (el_name (r_lhs r)));
                 (k_rhs, JDict [(k_nodes, JList (map jnode snodes)); (k_edges, JList jes); (k_externals, JList jx)])]),
         es', ext', c'.
  split; [|split; [|repeat split; try assumption]].
  - unfold jrule. fold snodes. fold sedges. rewrite Hx1. cbn [bind]. rewrite He1. reflexivity.
  - rewrite parse_rule_step. cbn [label_lookup]. rewrite (Htbl _ Hlhs). cbn [bind].
    rewrite Hpn'. cbn [bind]. fold nodes'. rewrite He2. cbn [bind fst snd]. rewrite Hx2. cbn [bind].
    rewrite Hterm. rewrite (paired_labels _ _ _ _ Hm Hx3), Hty, (proj2 (strs_eqb_eq _ _) eq_refl). reflexivity.
  - assert (parse_nodes (map jnode snodes) c [] = Ok (nodes', snd (fresh_nodes snodes c))) as Hpn2.
    { rewrite Hpn'. unfold nodes'. now destruct (fresh_nodes snodes c). }
    destruct (parse_nodes_nodup _ _ _ _ _ Hpn2) as [Hn _]. exact Hn.
Qed.

Corollary rule_roundtrip : forall dec tbl labels r c,
  wf_rule labels r = true ->
  (forall l, In l labels -> lab_get tbl (el_name l) = Some l) ->
  exists jr r' c', jrule dec r = Ok jr /\ parse_rule tbl jr c = Ok (r', c') /\ rule_iso r r'.
Proof.
  intros dec tbl labels r c Hwf Htbl.
  destruct (rule_roundtrip_strong dec tbl labels r c Hwf Htbl) as [jr [es' [ext' [c' [H1 [H2 [H3 [H4 [H5 [H6 H7]]]]]]]]]].
  exists jr. eexists. exists c'. split; [exact H1|]. split; [exact H2|].
  split; [reflexivity|]. cbn.
  exists (sorted_nodes dec (r_rhs r)), (fst (fresh_nodes (sorted_nodes dec (r_rhs r)) c)),
         (sorted_edges dec (r_rhs r)), es'.
  repeat split; try assumption; try reflexivity; apply sort_by_perm.
Qed.

Lemma sorted_nodes_in : forall dec g v, In v (sorted_nodes dec g) <-> In v (g_nodes g).
Proof. intros. apply sort_by_in. Qed.
Lemma sorted_edges_in : forall dec g e, In e (sorted_edges dec g) <-> In e (g_edges g).
Proof. intros. apply sort_by_in. Qed.

(** when every id is explicit the rule comes back with its nodes and edges in sorted order and is
    otherwise unchanged *)
Definition norm_rule (dec : nat -> str) (r : rule) : rule :=
  mkRule (r_lhs r) (mkGraph (sorted_nodes dec (r_rhs r)) (sorted_edges dec (r_rhs r)) (g_ext (r_rhs r))).

Lemma edge_match_self : forall ns l l',
  NoDup ns -> Forall (fun e => is_explicit (e_id e) = true) l -> Forall2 (edge_match ns ns) l l' -> l' = l.
Proof.
  intros ns l l' Hnd Hex H. induction H as [|e e' l l' [Hl [Hi Ha]] _ IH]; [reflexivity|].
  inversion Hex as [|? ? He Hex']; subst. rewrite IH by assumption. f_equal.
  apply paired_self_list in Ha; [|assumption].
  destruct e as [la aa ia], e' as [lb ab ib]. cbn in *. subst.
  destruct ia as [s|n]; [|discriminate]. destruct ib as [s'|n']; cbn in Hi; [now subst|contradiction].
Qed.

(** no new object is created when every id read is explicit: the counter does not move *)
Lemma parse_id_counter : forall o c i c', parse_id o c = Ok (i, c') -> is_explicit i = true -> c' = c.
Proof.
  intros o c i c' H He. unfold parse_id in H.
  destruct o as [[]|]; inversion H; subst; cbn in He; try discriminate; reflexivity.
Qed.

Lemma parse_nodes_counter : forall l c seen ns c',
  parse_nodes l c seen = Ok (ns, c') -> Forall (fun v => is_explicit (n_id v) = true) ns -> c' = c.
Proof.
  induction l as [|jn l IH]; intros c seen ns c' H Hall; cbn in H.
  - now inversion H.
  - apply bind_ok in H as [lab [_ H]]. apply bind_ok in H as [name [_ H]]. apply bind_ok in H as [o [_ H]].
    apply bind_ok in H as [[i c1] [Hic H]]. cbn [fst snd] in H. destruct (id_mem i seen); [discriminate|].
    apply bind_ok in H as [[ns1 c2] [Hr H]]. inversion H; subst. cbn [fst snd] in *.
    inversion Hall as [|? ? He Hall']; subst. cbn in He.
    rewrite (IH _ _ _ _ Hr Hall'). eapply parse_id_counter; eassumption.
Qed.

Lemma parse_edges_counter : forall tbl nodes l c seen es c',
  parse_edges tbl nodes l c seen = Ok (es, c') -> Forall (fun e => is_explicit (e_id e) = true) es -> c' = c.
Proof.
  intros tbl nodes. induction l as [|je l IH]; intros c seen es c' H Hall; cbn in H.
  - now inversion H.
  - apply bind_ok in H as [ja [_ H]]. apply bind_ok in H as [la [_ H]]. apply bind_ok in H as [att [_ H]].
    apply bind_ok in H as [jl [_ H]]. apply bind_ok in H as [lab [_ H]]. apply bind_ok in H as [o [_ H]].
    apply bind_ok in H as [[i c1] [Hic H]]. cbn [fst snd] in H.
    destruct (negb (strs_eqb (el_type lab) (map n_label att))); [discriminate|].
    destruct (id_mem i seen); [discriminate|].
    apply bind_ok in H as [[es1 c2] [Hr H]]. inversion H; subst. cbn [fst snd] in *.
    inversion Hall as [|? ? He Hall']; subst. cbn in He.
    rewrite (IH _ _ _ _ Hr Hall'). eapply parse_id_counter; eassumption.
Qed.

Lemma parse_rule_counter : forall tbl jr c r c',
  parse_rule tbl jr c = Ok (r, c') -> all_explicit_graph (r_rhs r) = true -> c' = c.
Proof.
  intros tbl jr c r c' H Hex. unfold parse_rule in H.
  apply bind_ok in H as [jl [_ H]]. apply bind_ok in H as [lhs [_ H]]. apply bind_ok in H as [jrhs [_ H]].
  apply bind_ok in H as [jn [_ H]]. apply bind_ok in H as [ln [_ H]]. apply bind_ok in H as [[ns c1] [Hns H]].
  apply bind_ok in H as [jes [_ H]]. apply bind_ok in H as [le [_ H]]. apply bind_ok in H as [[es c2] [Hes H]].
  apply bind_ok in H as [oext [_ H]]. apply bind_ok in H as [lext [_ H]]. apply bind_ok in H as [ext [_ H]].
  cbn [fst snd] in *. destruct (el_term lhs); [discriminate|].
  destruct (negb (strs_eqb (el_type lhs) (map n_label ext))); [discriminate|].
  inversion H; subst. cbn in Hex. unfold all_explicit_graph in Hex. cbn in Hex.
  apply andb_true_iff in Hex as [Hn He]. rewrite forallb_forall in Hn, He.
  rewrite (parse_edges_counter _ _ _ _ _ _ _ Hes) by (apply Forall_forall; exact He).
  eapply parse_nodes_counter; [exact Hns|]. apply Forall_forall; exact Hn.
Qed.

Theorem rule_roundtrip_explicit : forall dec tbl labels r c,
  wf_rule labels r = true -> all_explicit_graph (r_rhs r) = true ->
  (forall l, In l labels -> lab_get tbl (el_name l) = Some l) ->
  exists jr, jrule dec r = Ok jr /\ parse_rule tbl jr c = Ok (norm_rule dec r, c).
Proof.
  intros dec tbl labels r c Hwf Hex Htbl.
  destruct (rule_roundtrip_strong dec tbl labels r c Hwf Htbl) as [jr [es' [ext' [c' [H1 [H2 [H3 [H4 [H5 [H6 H7]]]]]]]]]].
  pose proof Hex as Hex0.
  unfold all_explicit_graph in Hex. apply andb_true_iff in Hex as [Hxn Hxe].
  assert (forallb (fun v => is_explicit (n_id v)) (sorted_nodes dec (r_rhs r)) = true) as Hxn'.
  { apply forallb_forall. intros v Hv. rewrite forallb_forall in Hxn. apply Hxn. now apply sorted_nodes_in in Hv. }
  assert (forallb (fun e => is_explicit (e_id e)) (sorted_edges dec (r_rhs r)) = true) as Hxe'.
  { apply forallb_forall. intros e He. rewrite forallb_forall in Hxe. apply Hxe. now apply sorted_edges_in in He. }
  exists jr. split; [exact H1|].
  pose proof (fresh_nodes_explicit _ c Hxn') as Hf. rewrite Hf in *. cbn [fst] in *.
  assert (NoDup (sorted_nodes dec (r_rhs r))) as Hnd by (eapply NoDup_map_inv'; exact H3).
  apply paired_self_list in H6; [|assumption]. subst ext'.
  apply edge_match_self in H7; [|assumption|].
  - subst es'. fold (norm_rule dec r) in H2. rewrite H2. f_equal. f_equal.
    eapply parse_rule_counter; [exact H2|]. unfold norm_rule, all_explicit_graph. cbn. now rewrite Hxn', Hxe'.
  - apply Forall_forall. rewrite forallb_forall in Hxe'. exact Hxe'.
Qed.
