(** C15_derive: derive_model returns the derived graph with a total assignment whose
    factor-weight product is the product of the rule-instance weights (any commutative semiring). *)
From Coq Require Import List Arith Bool PeanoNat Lia Permutation Ring.
Import ListNotations.
Require Import Fggs.Model.Semiring Fggs.Model.Replace Fggs.Proofs.Replace_base Fggs.Proofs.Replace_wf
  Fggs.Proofs.Replace_explicit Fggs.Proofs.Replace_spec Fggs.Proofs.Replace_model_spec Fggs.Proofs.Replace_inv
  Fggs.Proofs.Replace_step Fggs.Proofs.Replace_nodup Fggs.Proofs.Replace_confl Fggs.Proofs.Replace_derive
  Fggs.Proofs.Replace_asst.

Section W.
  Context {S : Type} (o : sr_ops S) (w : elabel -> list nat -> S).
  Hypothesis HR : semi_ring_theory (zero o) (one o) (add o) (mul o) (@eq S).
  Add Ring SRing : HR.

  Definition getd (a : asst_t) (v : node) : nat := match aget node_eqb a v with Some x => x | None => 0 end.
  Definition wd (a : asst_t) (e : edge) : S := w (e_label e) (map (getd a) (e_att e)).
  Definition valued (a : asst_t) (e : edge) : Prop := forall v, In v (e_att e) -> amem node_eqb a v = true.

  Lemma edge_weight_d : forall a e, valued a e -> edge_weight w a e = Some (wd a e).
  Proof.
    intros a e V. unfold edge_weight, wd. rewrite (omap_Some_map _ (getd a)); auto.
    intros v Hv. specialize (V v Hv). apply amem_Some in V. destruct V as [x Hx]. unfold getd. rewrite Hx. auto.
  Qed.

  Lemma edges_weight_d : forall a es, (forall e, In e es -> valued a e) ->
    edges_weight o w a es = Some (prod_list o (map (wd a) es)).
  Proof.
    induction es; simpl; intros; auto.
    rewrite edge_weight_d by auto. rewrite IHes by auto. reflexivity.
  Qed.

  Lemma prod_list_app : forall l1 l2, prod_list o (l1 ++ l2) = mul o (prod_list o l1) (prod_list o l2).
  Proof. induction l1; simpl; intros; [ring | rewrite IHl1; ring]. Qed.

  (** total version of tree_weight *)
  Fixpoint twd (t : dtree) : S :=
    match t with
    | DT r a cs => fold_right (fun kc z => mul o (twd (snd kc)) z)
                              (prod_list o (map (wd a) (terminal_edges (r_rhs r)))) cs
    end.

  Definition tw_children (x : S) :=
    fix go (cs : list (edge * dtree)) : option S :=
      match cs with
      | [] => Some x
      | kc :: cs => match tree_weight o w (snd kc), go cs with
                    | Some y, Some z => Some (mul o y z) | _, _ => None end
      end.

  Lemma tree_weight_unfold : forall r a cs,
    tree_weight o w (DT r a cs) =
    match graph_weight o w (r_rhs r) a with None => None | Some x => tw_children x cs end.
  Proof. reflexivity. Qed.

  Lemma rule_edges_valued : forall L r a cs, wf_dtreeb L (DT r a cs) = true ->
    forall e, In e (terminal_edges (r_rhs r)) -> valued a e.
  Proof.
    intros L r a cs W e He v Hv. destruct (wf_dtreeb_unfold _ _ _ _ W) as [WR [_ [_ [HA _]]]].
    apply HA. unfold terminal_edges in He. apply filter_In in He.
    apply (wf_att _ (wr_graph r WR) e); tauto.
  Qed.

  Lemma tree_weight_d : forall L t, wf_dtreeb L t = true -> tree_weight o w t = Some (twd t).
  Proof.
    intros L. induction t as [r a cs IH] using dtree_ind'. intros W.
    rewrite tree_weight_unfold. unfold graph_weight.
    rewrite edges_weight_d by (eapply rule_edges_valued; eauto).
    cbn [twd]. destruct (wf_dtreeb_unfold _ _ _ _ W) as [_ [_ [_ [_ [_ HC]]]]].
    assert (G : forall cs2, incl cs2 cs ->
              tw_children (prod_list o (map (wd a) (terminal_edges (r_rhs r)))) cs2
              = Some (fold_right (fun kc z => mul o (twd (snd kc)) z)
                                 (prod_list o (map (wd a) (terminal_edges (r_rhs r)))) cs2)).
    { induction cs2 as [|[k c] cs2 IH2]; intros SUB; simpl; auto.
      rewrite (IH k c (SUB _ (or_introl eq_refl))) by (apply (HC k c); apply SUB; simpl; auto).
      rewrite IH2 by (intros x Hx; apply SUB; simpl; auto). reflexivity. }
    apply G. apply incl_refl.
  Qed.

  Lemma twd_split : forall r a cs,
    twd (DT r a cs) = mul o (prod_list o (map (wd a) (terminal_edges (r_rhs r))))
                            (prod_list o (map (fun kc => twd (snd kc)) cs)).
  Proof.
    intros. cbn [twd]. induction cs; simpl; [ring | rewrite IHcs; ring].
  Qed.

  (** ** the weight invariant *)
  Record InvW (W0 : S) (s : rstate) : Prop := {
    W_val : forall e, In e (terminal_edges (rs_graph s)) -> valued (rs_asst s) e;
    W_eq : mul o (prod_list o (map (wd (rs_asst s)) (terminal_edges (rs_graph s))))
                 (prod_list o (map (fun tk => twd (tk_tree tk)) (rs_pending s))) = W0 }.

  Lemma ecopies_weights : forall as' a nm res n,
    (forall re u, In re res -> In u (e_att re) -> getd as' (gn nm u) = getd a u) ->
    map (wd as') (filter (fun e => l_term (e_label e)) (ecopies nm n res))
    = map (wd a) (filter (fun e => l_term (e_label e)) res).
  Proof.
    induction res as [|re res IH]; intros n H; simpl; auto.
    destruct (l_term (e_label re)); simpl.
    - f_equal.
      + unfold wd. cbn [e_label e_att]. f_equal. rewrite map_map. apply map_ext_in. intros u Hu. apply (H re); simpl; auto.
      + apply IH. intros; eapply H; simpl; eauto.
    - apply IH. intros; eapply H; simpl; eauto.
  Qed.

  Section WStep.
    Variable L : list elabel.
    Hypothesis HF : functional L.
    Variables (s : rstate) (p0 : path) (pre post : list task) (tk : task) (r : rule) (a : asst_t) (cs : list (edge * dtree)).
    Hypothesis HI : Inv L s.
    Hypothesis HS : split_task p0 (rs_pending s) = Some (pre, tk, post).
    Hypothesis HT : tk_tree tk = DT r a cs.
    Hypothesis HA : InvA s.
    Variable as' : asst_t.
    Hypothesis Has : assign_nodes (r_nm (rs_next s) (tk_edge tk) (r_rhs r)) a (g_nodes (r_rhs r)) (rs_asst s) = (as', None).
    Variable W0 : S.
    Hypothesis HWt : InvW W0 s.

    Local Notation G := (rs_graph s).
    Local Notation nx := (rs_next s).
    Local Notation e := (tk_edge tk).
    Local Notation R := (r_rhs r).
    Local Notation nm := (r_nm (rs_next s) (tk_edge tk) (r_rhs r)).
    Local Notation GD := (step_guard L HF s p0 pre post tk r a cs HI HS HT).
    Local Notation FACTS := (asst_step_facts L HF s p0 pre post tk r a cs HI HS HT HA as' Has).

    Lemma tk_nonterminal : l_term (e_label e) = false.
    Proof.
      destruct (I_pend L s HI tk (tk_in s p0 pre post tk HS)) as [_ [Wt Hl]].
      rewrite Hl, HT. cbn [t_rule]. rewrite HT in Wt.
      destruct (wf_dtreeb_unfold _ _ _ _ Wt) as [WR _]. apply (wr_nt r WR).
    Qed.

    Lemma terminal_kept : filter (fun x => l_term (e_label x)) (kept G e) = terminal_edges G.
    Proof.
      unfold kept, terminal_edges. rewrite filter_filter. apply filter_ext_in. intros x Hx.
      destruct (l_term (e_label x)) eqn:E; [|apply andb_false_r]. rewrite andb_true_r.
      apply negb_true_iff. apply id_eqb_neq. intro Hid.
      assert (x = e).
      { apply (NoDup_map_inj_in e_id (g_edges G) (wf_edges _ (I_wf L s HI))); auto.
        apply (I_pend L s HI tk (tk_in s p0 pre post tk HS)). }
      subst x. rewrite tk_nonterminal in E. discriminate.
    Qed.

    Lemma terminal_next : terminal_edges (r_graph G nx e R)
      = terminal_edges G ++ filter (fun x => l_term (e_label x)) (r_es nx e R).
    Proof. unfold terminal_edges at 1. unfold r_graph. cbn [g_edges]. rewrite filter_app, terminal_kept. reflexivity. Qed.

    Lemma getd_image : forall u, In u (g_nodes R) -> getd as' (gn nm u) = getd a u.
    Proof. intros u Hu. unfold getd. rewrite (proj1 FACTS u Hu). reflexivity. Qed.

    Lemma getd_old : forall v, amem node_eqb (rs_asst s) v = true -> getd as' v = getd (rs_asst s) v.
    Proof.
      intros v Hv. apply amem_Some in Hv. destruct Hv as [x Hx]. unfold getd.
      rewrite (proj2 (proj2 FACTS) v x Hx), Hx. reflexivity.
    Qed.

    Lemma wstep : InvW W0 (s_next s pre post tk r cs as').
    Proof.
      pose proof GD as GDp.
      constructor; unfold s_next; cbn [rs_graph rs_asst rs_pending]; rewrite terminal_next.
      - intros x Hx v Hv. apply in_app_iff in Hx. destruct Hx as [Hx|Hx].
        + pose proof (W_val W0 s HWt x Hx v Hv) as V. apply amem_Some in V. destruct V as [y Hy].
          apply amem_Some. exists y. apply (proj2 (proj2 FACTS)); auto.
        + apply filter_In in Hx. destruct Hx as [Hx _]. unfold r_es in Hx. apply ecopies_In in Hx.
          destruct Hx as [j [re [-> [_ Hre]]]]. cbn [e_att] in Hv. apply in_map_iff in Hv.
          destruct Hv as [u [<- Hu]].
          assert (HuR : In u (g_nodes R)) by (apply (wf_att R (rg_wfr _ _ _ _ _ GDp) re Hre); auto).
          apply amem_Some. rewrite (proj1 FACTS u HuR).
          apply (tk_total L s p0 pre post tk r a cs HI HS HT); auto.
      - rewrite map_app, prod_list_app.
        assert (E1 : map (wd as') (terminal_edges G) = map (wd (rs_asst s)) (terminal_edges G)).
        { apply map_ext_in. intros x Hx. unfold wd. f_equal. apply map_ext_in. intros v Hv.
          apply getd_old. apply (W_val W0 s HWt x Hx v Hv). }
        assert (E2 : map (wd as') (filter (fun x => l_term (e_label x)) (r_es nx e R))
                     = map (wd a) (terminal_edges R)).
        { unfold r_es, terminal_edges. apply ecopies_weights. intros re u Hre Hu. apply getd_image.
          apply (wf_att R (rg_wfr _ _ _ _ _ GDp) re Hre); auto. }
        rewrite E1, E2.
        rewrite !map_app, !prod_list_app, map_map. cbn [tk_tree].
        pose proof (W_eq W0 s HWt) as EQ. rewrite (HP s p0 pre post tk HS) in EQ.
        rewrite map_app, prod_list_app in EQ. cbn [map prod_list] in EQ. rewrite HT, twd_split in EQ.
        rewrite <- EQ. ring.
    Qed.
  End WStep.

  (** ** along a run *)
  Lemma run_invAW : forall L, functional L -> forall W0 l s s',
    Inv L s -> InvA s -> InvW W0 s -> run l s = Ok s' -> InvA s' /\ InvW W0 s'.
  Proof.
    intros L HF W0. induction l as [|p l IH]; intros s s' HI HA HWt E.
    - simpl in E. inversion E; subst; auto.
    - simpl in E. destruct (split_task p (rs_pending s)) as [[[pre tk] post]|] eqn:HS.
      + destruct (tk_tree tk) as [r a cs] eqn:HT.
        destruct (step_explicit L HF s p pre post tk r a cs HI HS HT) as [as' [Has Hst]].
        rewrite Hst in E.
        eapply IH; [| | |exact E].
        * apply (s_next_inv L HF s p pre post tk r a cs HI HS HT).
        * apply (asst_step_inv L HF s p pre post tk r a cs HI HS HT HA as' Has).
        * apply (wstep L HF s p pre post tk r a cs HI HS HT HA as' Has W0 HWt).
      + rewrite step_not_pending in E by auto. discriminate.
  Qed.

  Lemma init_invW : forall L t nx, wf_dtreeb L t = true -> InvW (twd t) (init_state t nx).
  Proof.
    intros L t nx HW. rewrite (init_explicit t nx).
    assert (NT : l_term (r_lhs (t_rule t)) = false).
    { destruct t as [r a cs]. destruct (wf_dtreeb_unfold _ _ _ _ HW) as [WR _]. apply (wr_nt r WR). }
    constructor; cbn [rs_graph rs_asst rs_pending]; unfold terminal_edges; cbn [g_edges filter start_edge e_label];
      rewrite NT.
    - intros e [].
    - cbn [map prod_list tk_tree]. ring.
  Qed.
End W.

