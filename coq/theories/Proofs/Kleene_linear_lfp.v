(** C02, part 5b: method='linear' returns the least fixed point.
    Composition of [step_linear_affine] (Proofs/Kleene_linear.v: for a linearly recursive
    component the equations are  F x = J0 . x + F0  with J0/F0 as [linear] computes them) with
    C09 (Proofs/MultiSolveDense.v: [multi_solve_model] returns the least solution of the
    assembled system, for every elimination order and presence pattern).
    [linear] ends with [return multi_solve(J0, F0)]: J0 is a MultiTensor with one block per
    pair (n, m) of component nonterminals that occurs as (lhs, component edge label) of a rule
    (other blocks absent), flattened row-major, F0 one block per n with a rule without component
    edge.  [tabulates_J0]/[tabulates_F0] say that the blocks hold the values [lin_J0]/[lin_F0]
    at the row-major positions of the index tuples ([all_assts] is row-major), absent = zero.
    Conclusion: the environment read back from [multi_solve_model J0 F0] is a fixed point of the
    component's equations and below every pre-fixed point. *)
From Coq Require Import List Arith Bool PeanoNat Lia Ring_theory Ring.
Import ListNotations.
Require Import Fggs.Model.Semiring Fggs.Model.SCC Fggs.Model.SumProduct Fggs.Model.Kleene
               Fggs.Model.Solve Fggs.Model.MultiSolve.
Require Import Fggs.Proofs.SP_mono Fggs.Proofs.Kleene_control Fggs.Proofs.Kleene_linear.
Require Import Fggs.Proofs.SolveRefine Fggs.Proofs.MultiMV Fggs.Proofs.MultiSolveSem
               Fggs.Proofs.MultiSolveDense Fggs.Proofs.MultiOrder.
Require Fggs.Proofs.SolveElim.

(** * positions in a duplicate-free list of index tuples *)
Fixpoint pos_of (xi : list nat) (l : list (list nat)) : nat :=
  match l with
  | [] => 0
  | y :: l => if nat_list_eqb xi y then 0 else S (pos_of xi l)
  end.

Lemma pos_of_spec xi l : In xi l -> pos_of xi l < length l /\ nth (pos_of xi l) l [] = xi.
Proof.
  induction l as [|y l IH]; intros H; [destruct H|]. cbn [pos_of].
  destruct (nat_list_eqb xi y) eqn:E.
  - apply nat_list_eqb_eq in E. subst y. cbn. split; [lia|reflexivity].
  - destruct H as [->|H]; [rewrite nat_list_eqb_refl in E; discriminate|].
    destruct (IH H) as [H1 H2]. cbn [length nth]. split; [lia|exact H2].
Qed.

Lemma pos_of_nth l p : NoDup l -> p < length l -> pos_of (nth p l []) l = p.
Proof.
  revert p. induction l as [|y l IH]; intros p ND Hp; [cbn in Hp; lia|].
  inversion ND as [|? ? Hy ND']; subst. destruct p as [|p]; cbn [nth pos_of].
  - rewrite nat_list_eqb_refl. reflexivity.
  - cbn [length] in Hp. destruct (nat_list_eqb (nth p l []) y) eqn:E.
    + apply nat_list_eqb_eq in E. exfalso. apply Hy. rewrite <- E. apply nth_In. lia.
    + rewrite IH by (try assumption; lia). reflexivity.
Qed.

Lemma map_nth_seq {A B} (f : A -> B) (l : list A) (dflt : A) :
  map f l = map (fun q => f (nth q l dflt)) (seq 0 (length l)).
Proof.
  induction l as [|a l IH]; [reflexivity|]. cbn [length seq map nth]. f_equal.
  rewrite <- seq_shift, map_map. exact IH.
Qed.

Section LinearLfp.
Context {R : Type} (o : sr_ops R).
Hypothesis Hr : sr_ring o.
Hypothesis Hord : sr_ordered o.
Hypothesis Hstar : sr_star o.
Add Ring sr_ring_lfp : (Hr : semi_ring_theory (zero o) (one o) (add o) (mul o) eq).

Variables (G : grammar) (w inp : env (R:=R)) (comp : list nat).
Hypothesis Hwf : wf_grammar G = true.
Hypothesis Hcomp_nt : forall m, In m comp -> is_term G m = false.
Hypothesis Hnd : NoDup comp.
Hypothesis Hmax : max_rhs G comp <= 1.

Definition assts (n : nat) : list (list nat) := all_assts (lshape G n).
(** the flattened shapes: key n -> numel of the shape of n *)
Definition lin_dims : dims_t := map (fun n => (n, length (assts n))) comp.

(** the MultiTensors built by [linear] *)
Definition tabulates_J0 (J0t : @mt2 R) : Prop :=
  forall n m p q, In n comp -> In m comp -> p < length (assts n) -> q < length (assts m) ->
    get2 o (getm o lin_dims lin_dims J0t n m) p q
    = lin_J0 o G w inp comp n m (nth p (assts n) []) (nth q (assts m) []).
Definition tabulates_F0 (F0t : @mt1 R) : Prop :=
  forall n p, In n comp -> p < length (assts n) ->
    get1 o (getv o lin_dims F0t n) p = lin_F0 o G w inp comp n (nth p (assts n) []).

(** the result read back as an environment on the component *)
Definition env_of_blocks (sol : @mt1 R) : env (R:=R) :=
  fun n xi => get1 o (getv o lin_dims sol n) (pos_of xi (assts n)).
(** the component's equations: nonterminals outside the component read [inp] *)
Definition comp_step (x : env (R:=R)) : env (R:=R) :=
  step o G w (fun l => if mem comp l then x l else inp l).

Lemma map_fst_lin_dims : map fst lin_dims = comp.
Proof. unfold lin_dims. rewrite map_map. cbn [fst]. apply map_id. Qed.

Lemma dim_lin_dims n : In n comp -> dim lin_dims n = length (assts n).
Proof.
  unfold lin_dims. clear Hnd Hmax Hcomp_nt. induction comp as [|a l IH]; intros H; [destruct H|].
  cbn [map dim]. destruct (Nat.eqb_spec a n) as [->|Hne]; [reflexivity|].
  destruct H as [->|H]; [congruence|]. apply IH. exact H.
Qed.

Lemma sumS_positions {A} (l : list A) (dflt : A) (f : A -> R) :
  SumProduct.sumS o l f = sum_n o (length l) (fun q => f (nth q l dflt)).
Proof. unfold SumProduct.sumS, sum_n. rewrite (map_nth_seq f l dflt). reflexivity. Qed.

(** the affine form of the component's equations, written with the blocks of J0 and F0 *)
Lemma comp_step_blocks J0t F0t (x : env (R:=R)) n p :
  tabulates_J0 J0t -> tabulates_F0 F0t -> In n comp -> p < length (assts n) ->
  comp_step x n (nth p (assts n) [])
  = add o (SolveElim.sumS o nat (map fst lin_dims)
             (fun m => sum_n o (dim lin_dims m)
                         (fun q => mul o (blockA o lin_dims false J0t n m p q) (x m (nth q (assts m) [])))))
          (semb o lin_dims F0t n p).
Proof.
  intros HJ HF Hn Hp. unfold comp_step.
  assert (Hxi : In (nth p (assts n) []) (all_assts (lshape G n))) by (apply nth_In; exact Hp).
  etransitivity; [exact (step_linear_affine o Hr G w inp comp Hwf Hcomp_nt x n _ Hnd Hmax Hn Hxi)|].
  rewrite map_fst_lin_dims. f_equal.
  - unfold lin_J0x. change (SumProduct.sumS o comp) with (SolveElim.sumS o nat comp).
    apply SolveElim.sumS_ext. intros m Hm.
    rewrite (sumS_positions (all_assts (lshape G m)) []). fold (assts m).
    rewrite (dim_lin_dims m Hm). rewrite !sum_n_sumS. apply SolveElim.sumS_ext. intros q Hq.
    apply in_seq in Hq. f_equal. unfold blockA, semA.
    rewrite pad2_in by (rewrite ?dim_lin_dims by assumption; lia).
    symmetry. apply HJ; try assumption; lia.
  - unfold semb. rewrite pad1_in by (rewrite dim_lin_dims by assumption; exact Hp).
    symmetry. apply HF; assumption.
Qed.

(** from "least solution of the assembled system" to "least fixed point of the component" *)
Theorem linear_lfp_core J0t F0t (sol : @mt1 R) :
  tabulates_J0 J0t -> tabulates_F0 F0t ->
  least_spec o (total lin_dims) (assemble2 o lin_dims false J0t) (assemble1 o lin_dims F0t)
             (get1 o (assemble1 o lin_dims sol)) ->
  (forall n xi, In n comp -> In xi (assts n) ->
     comp_step (env_of_blocks sol) n xi = env_of_blocks sol n xi)
  /\ (forall v : env (R:=R),
        (forall n xi, In n comp -> In xi (assts n) -> le o (comp_step v n xi) (v n xi)) ->
        forall n xi, In n comp -> In xi (assts n) -> le o (env_of_blocks sol n xi) (v n xi)).
Proof.
  intros HJ HF Hleast.
  assert (NDd : NoDup (map fst lin_dims)) by (rewrite map_fst_lin_dims; exact Hnd).
  destruct (block_least_of_dense o Hr lin_dims false J0t F0t sol NDd Hleast) as [Hs Hl].
  assert (Hread : forall m q, In m comp -> q < length (assts m) ->
            env_of_blocks sol m (nth q (assts m) []) = semb o lin_dims sol m q).
  { intros m q Hm Hq. unfold env_of_blocks.
    rewrite (pos_of_nth (assts m) q (all_assts_NoDup _) Hq).
    unfold semb. rewrite pad1_in by (rewrite dim_lin_dims by assumption; exact Hq). reflexivity. }
  split.
  - intros n xi Hn Hxi. destruct (pos_of_spec xi (assts n) Hxi) as [Hp Enth].
    rewrite <- Enth at 1 2. rewrite (comp_step_blocks J0t F0t _ n _ HJ HF Hn Hp).
    rewrite (Hread n _ Hn Hp).
    rewrite (Hs n (pos_of xi (assts n))) by (rewrite ?map_fst_lin_dims, ?dim_lin_dims by assumption; assumption).
    f_equal. apply SolveElim.sumS_ext. intros m Hm. rewrite map_fst_lin_dims in Hm.
    rewrite !sum_n_sumS. apply SolveElim.sumS_ext. intros q Hq. apply in_seq in Hq.
    rewrite (dim_lin_dims m Hm) in Hq. rewrite Hread by (try assumption; lia). reflexivity.
  - intros v Hv n xi Hn Hxi. destruct (pos_of_spec xi (assts n) Hxi) as [Hp Enth].
    set (ys := fun m q => v m (nth q (assts m) [])).
    assert (Hpre : block_presol o lin_dims false J0t F0t ys).
    { intros n' p' Hn' Hp'. rewrite map_fst_lin_dims in Hn'. rewrite (dim_lin_dims n' Hn') in Hp'.
      unfold ys. rewrite <- (comp_step_blocks J0t F0t v n' p' HJ HF Hn' Hp').
      apply Hv; [exact Hn'|apply nth_In; exact Hp']. }
    rewrite <- Enth at 1 2. rewrite (Hread n _ Hn Hp).
    apply (Hl ys Hpre n (pos_of xi (assts n)));
      rewrite ?map_fst_lin_dims, ?dim_lin_dims by assumption; assumption.
Qed.

(** C02_linear: with ANY elimination order that enumerates the component *)
Theorem linear_is_lfp_any_order J0t F0t order :
  tabulates_J0 J0t -> tabulates_F0 F0t ->
  NoDup (map fst J0t) -> NoDup (map fst F0t) ->
  NoDup order -> (forall n, In n order <-> In n comp) ->
  let sol := multi_solve_model o lin_dims order false J0t F0t in
  (forall n xi, In n comp -> In xi (assts n) ->
     comp_step (env_of_blocks sol) n xi = env_of_blocks sol n xi)
  /\ (forall v : env (R:=R),
        (forall n xi, In n comp -> In xi (assts n) -> le o (comp_step v n xi) (v n xi)) ->
        forall n xi, In n comp -> In xi (assts n) -> le o (env_of_blocks sol n xi) (v n xi)).
Proof.
  intros HJ HF NDJ NDF NDo Henum sol. apply (linear_lfp_core J0t F0t sol HJ HF).
  apply (multi_solve_least o Hr Hord Hstar); try assumption.
  - rewrite map_fst_lin_dims. exact Hnd.
  - rewrite map_fst_lin_dims. exact Henum.
Qed.

(** ... and with the order [multi_solve] computes itself ([_order_nonterminals], for every
    iteration order of Python's sets; J0 without any block gives the order []) *)
Theorem linear_is_lfp_code_order (iter : list key -> list key) J0t F0t order :
  (forall s x, In x (iter s) -> In x s) -> (forall s x, In x s -> In x (iter s)) ->
  (forall s, NoDup s -> NoDup (iter s)) ->
  tabulates_J0 J0t -> tabulates_F0 F0t ->
  NoDup (map fst J0t) -> NoDup (map fst F0t) ->
  (forall e, In e (map fst J0t) -> In (snd e) comp) ->
  order_nonterminals_model iter (map fst J0t) comp = Some order ->
  let sol := multi_solve_model o lin_dims order false J0t F0t in
  (forall n xi, In n comp -> In xi (assts n) ->
     comp_step (env_of_blocks sol) n xi = env_of_blocks sol n xi)
  /\ (forall v : env (R:=R),
        (forall n xi, In n comp -> In xi (assts n) -> le o (comp_step v n xi) (v n xi)) ->
        forall n xi, In n comp -> In xi (assts n) -> le o (env_of_blocks sol n xi) (v n xi)).
Proof.
  intros I1 I2 I3 HJ HF NDJ NDF Hk Ho sol. apply (linear_lfp_core J0t F0t sol HJ HF).
  apply (multi_solve_code_order o Hr Hord Hstar lin_dims iter false J0t F0t order I1 I2 I3);
    rewrite ?map_fst_lin_dims; assumption.
Qed.

End LinearLfp.
