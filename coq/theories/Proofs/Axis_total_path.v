(** [unify] on typed axes is total and silent -- with a fuel bound that follows ONE path through
    the type instead of the whole type.

    Proofs/Axis_total.v proves totality by induction on the weight [tws ps] of the common type
    (number of nodes of the type) and needs [3 * tws ps + 2] units of fuel.  That bound is tight in
    the number of PRIMES of a product type (the conjugacy equation [a.X = X.a'] with [X] of type
    [a^w] needs [3 w + 1], Proofs/Axis_fuel_suffices.v), but it also counts every summand of every
    sum type, every summand's summands and so on, whereas a nested call only ever enters ONE
    summand.  Here the same induction is run with the path weight

      [pm ps = length ps + max over the primes p of ps of pmx p],
      [pmx (TSum l) = 1 + max over the summands t of l of (number of primes of t + pmx t)],

    i.e. the largest, over all root-to-leaf paths of the type tree, of the sum of the numbers of
    primes of the product spaces met plus the number of sum types crossed.  [pm] is what the fuel
    formula of the model ([unify_fuel], Model/AxisCheck.v) can bound from the two patterns alone
    (Proofs/Axis_coarsen.v).  The proof is the one of Axis_total.v; only the arithmetic of the
    measure differs: [pm] is monotone for prefixes and suffixes, strictly for proper ones, and
    strictly decreases from a sum prime to the primes of any of its summands. *)
From Coq Require Import List Arith Lia PeanoNat Bool PArith.
Import ListNotations.
Require Import Fggs.Model.Axis Fggs.Proofs.Axis_sem Fggs.Proofs.Axis_unify Fggs.Proofs.Axis_complete_gen
               Fggs.Proofs.Axis_typed Fggs.Proofs.Axis_total.

(** * the path weight *)
Fixpoint plen (t : ity) : nat :=
  match t with
  | TAtom n => if Nat.eqb n 1 then 0 else 1
  | TProd l => fold_right (fun t acc => plen t + acc) 0 l
  | TSum _ => 1
  end.

Fixpoint pmx (t : ity) : nat :=
  match t with
  | TAtom _ => 0
  | TProd l => fold_right (fun t acc => Nat.max (pmx t) acc) 0 l
  | TSum l => S (fold_right (fun t acc => Nat.max (plen t + pmx t) acc) 0 l)
  end.

Definition pmxs (ps : list ity) : nat := fold_right (fun t acc => Nat.max (pmx t) acc) 0 ps.
Definition pm (ps : list ity) : nat := length ps + pmxs ps.
Definition smx (l : list ity) : nat := fold_right (fun t acc => Nat.max (plen t + pmx t) acc) 0 l.

Lemma pmxs_app a b : pmxs (a ++ b) = Nat.max (pmxs a) (pmxs b).
Proof. induction a as [|x a IH]; simpl; [reflexivity|]. fold (pmxs (a ++ b)). fold (pmxs a). rewrite IH. lia. Qed.
Lemma pmxs_cons x l : pmxs (x :: l) = Nat.max (pmx x) (pmxs l).
Proof. reflexivity. Qed.

Lemma plen_tprimes t : length (tprimes t) = plen t.
Proof.
  induction t as [n|l IH|l IH] using ity_ind'; simpl.
  - destruct (Nat.eqb n 1); reflexivity.
  - induction l as [|x l IHl]; simpl; [reflexivity|]. inversion IH; subst. rewrite app_length, H1, IHl by assumption. reflexivity.
  - reflexivity.
Qed.

Lemma pmxs_tprimes t : pmxs (tprimes t) = pmx t.
Proof.
  induction t as [n|l IH|l IH] using ity_ind'.
  - simpl. destruct (Nat.eqb n 1); reflexivity.
  - cbn [tprimes pmx]. induction l as [|x l IHl]; simpl; [reflexivity|]. inversion IH; subst.
    rewrite pmxs_app, H1, IHl by assumption. reflexivity.
  - cbn [tprimes]. rewrite pmxs_cons. simpl pmxs. lia.
Qed.

Lemma pm_tprimes t : pm (tprimes t) = plen t + pmx t.
Proof. unfold pm. rewrite plen_tprimes, pmxs_tprimes. reflexivity. Qed.

Lemma smx_app a b : smx (a ++ b) = Nat.max (smx a) (smx b).
Proof. induction a as [|x a IH]; simpl; [reflexivity|]. fold (smx (a ++ b)). fold (smx a). rewrite IH. lia. Qed.

Lemma pm_summand pre tj post : pm (tprimes tj) < pm [TSum (pre ++ tj :: post)].
Proof.
  rewrite pm_tprimes. unfold pm. cbn [length pmxs fold_right pmx]. fold (smx (pre ++ tj :: post)).
  rewrite smx_app. simpl smx. fold (smx post). lia.
Qed.

Lemma pm_prefix_lt p0 p1 : p1 <> [] -> pm p0 < pm (p0 ++ p1).
Proof.
  intros N. unfold pm. rewrite app_length, pmxs_app. destruct p1 as [|x p1]; [congruence|]. simpl length. lia.
Qed.
Lemma pm_suffix_le p0 p1 : pm p1 <= pm (p0 ++ p1).
Proof. unfold pm. rewrite app_length, pmxs_app. lia. Qed.
Lemma pm_suffix_lt p0 p1 : p0 <> [] -> pm p1 < pm (p0 ++ p1).
Proof.
  intros N. unfold pm. rewrite app_length, pmxs_app. destruct p0 as [|x p0]; [congruence|]. simpl length. lia.
Qed.
Lemma pm_pos ps : ps <> [] -> 1 <= pm ps.
Proof. destruct ps; [congruence|]. intros _. unfold pm. simpl length. lia. Qed.

(** * the induction of Axis_total.v, on [pm] *)
Definition PU_lt (fuel n : nat) : Prop :=
  forall G e f q st, pm q < n -> gprimes q -> tstate G st -> ty G e q -> ty G f q -> tres G st (unify fuel e f st).
Definition PL_lt (fuel n : nat) : Prop :=
  forall G esr fsr ps st, pm ps < n -> gprimes ps -> tstate G st -> tyl G (rev esr) ps -> tyl G (rev fsr) ps ->
    tres G st (unify_loop fuel esr fsr st).
Definition PL2_lt (fuel n : nat) : Prop :=
  forall G esr fsr ps st, pm ps < n -> gprimes ps -> tstate G st -> tyl G (rev esr) ps -> tyl G (rev fsr) ps ->
    length esr <> 1 -> length fsr <> 1 -> tres G st (unify_loop fuel esr fsr st).

(** one splitting round: [big : g ++ psm] is split against [small : psm] *)
Lemma psplit_total fuel n wU : PU_lt fuel wU -> PL_lt fuel n ->
  forall G (big small : axis) (resb ress : list axis) p0 g psm st (swap : bool),
    pm (p0 ++ g ++ psm) <= n -> pm (g ++ psm) < wU -> gprimes (p0 ++ g ++ psm) -> g <> [] -> tstate G st ->
    ty G big (g ++ psm) -> ty G small psm -> is_prod small = false ->
    tyl G (rev resb) p0 -> tyl G (rev ress) (p0 ++ g) ->
    let k := Phys (us_next st) (numel big / numel small) in
    let st0 := {| us_subst := us_subst st; us_next := Pos.succ (us_next st); us_warn := us_warn st |} in
    numel small <> 0 /\ numel big mod numel small = 0 /\ numel small < numel big /\
    tres G st (r <- unify fuel big (productAxis [k; small]) st0 ;;
               if fst r then (if swap then unify_loop fuel (k :: resb) ress (snd r) else unify_loop fuel ress (k :: resb) (snd r))
               else Ok (false, snd r)).
Proof.
  intros HU HL G big small resb ress p0 g psm st swap Wn Wu Gp Ng T Tb Ts Nps Trb Trs k st0.
  apply gprimes_app in Gp. destruct Gp as [Gp0 Gp1]. pose proof Gp1 as Gp1'. apply gprimes_app in Gp1. destruct Gp1 as [Gg Gm].
  assert (Nb : numel big = tsizes g * numel small).
  { rewrite (ty_numel _ _ _ Tb), (ty_numel _ _ _ Ts), tsizes_app. reflexivity. }
  assert (Pm : 1 <= numel small) by (rewrite (ty_numel _ _ _ Ts); apply gprimes_pos; exact Gm).
  assert (Pg : 2 <= tsizes g) by (apply gprimes_big; assumption).
  split; [lia|]. split; [rewrite Nb; apply Nat.mod_mul; lia|]. split; [nia|].
  assert (Ek : numel big / numel small = tsizes g) by (rewrite Nb; apply Nat.div_mul; lia).
  set (G0 := upd_ctx G (us_next st) g).
  assert (T0 : tstate G0 st0) by (apply tstate_fresh; assumption).
  assert (X0 : ctx_ext (us_next st) G G0) by apply upd_ctx_ext.
  assert (Tk : ty G0 k g).
  { apply ty_phys'; [apply upd_ctx_same|exact Ng|exact Ek]. }
  assert (CB : ctx_below G (us_next st)) by apply (ts_below _ _ T).
  apply tres_from with (G1 := G0) (st1 := st0); [reflexivity|simpl; lia|exact X0|].
  apply (tres_seq G0 st0 (unify fuel big (productAxis [k; small]) st0)
           (fun s => if swap then unify_loop fuel (k :: resb) ress s else unify_loop fuel ress (k :: resb) s)).
  - apply (HU G0 big (productAxis [k; small]) (g ++ psm) st0); trivial.
    + eapply ty_ext; eauto.
    + unfold k. rewrite productAxis_pair by exact Nps. constructor; [simpl; lia|].
      constructor; [reflexivity|exact Tk|]. apply tyl_single; [exact Nps|]. eapply ty_ext; eauto.
  - intros G1 st1 W1 L1 X1 T1. cbv beta.
    assert (X01 : ctx_ext (us_next st) G G1).
    { eapply ctx_ext_trans; [|exact X0|exact X1]. simpl. lia. }
    assert (Tk1 : tyl G1 (rev (k :: resb)) (p0 ++ g)).
    { cbn [rev]. apply tyl_app; [eapply tyl_ext; [exact CB|exact X01|exact Trb]|].
      apply tyl_single; [reflexivity|]. eapply ty_ext; [apply (ts_below _ _ T0)|exact X1|exact Tk]. }
    assert (Ts1 : tyl G1 (rev ress) (p0 ++ g)) by (eapply tyl_ext; [exact CB|exact X01|exact Trs]).
    assert (Wr' : pm (p0 ++ g) < n).
    { assert (Npsm : psm <> []) by (eapply ty_factor_nonempty; eauto).
      pose proof (pm_prefix_lt (p0 ++ g) psm Npsm) as Hlt. rewrite <- app_assoc in Hlt. lia. }
    assert (Gr : gprimes (p0 ++ g)) by (apply gprimes_app; split; assumption).
    destruct swap.
    + apply (HL G1 (k :: resb) ress (p0 ++ g) st1); assumption.
    + apply (HL G1 ress (k :: resb) (p0 ++ g) st1); assumption.
Qed.

(** * one round of the sweep *)
Lemma ploop_body fuel n wU : PU_lt fuel wU -> PL_lt fuel n ->
  forall G esr fsr ps st, pm ps <= n -> gprimes ps -> tstate G st ->
    tyl G (rev esr) ps -> tyl G (rev fsr) ps ->
    (n < wU \/ (n <= wU /\ length esr <> 1 /\ length fsr <> 1)) ->
    tres G st (unify_loop (S fuel) esr fsr st).
Proof.
  intros HU HL G esr fsr ps st Wn Gp T Te Tf SC. cbn [unify_loop].
  destruct esr as [|e9 esr'].
  { (* both empty *)
    simpl in Te. apply tyl_nil_inv in Te. subst ps. apply tyl_nil_type in Tf.
    assert (fsr = []) as -> by (destruct fsr; [reflexivity|simpl in Tf; destruct (rev fsr); discriminate]).
    simpl. apply tres_refl. exact T. }
  destruct fsr as [|f9 fsr'].
  { simpl in Tf. apply tyl_nil_inv in Tf. subst ps. apply tyl_nil_type in Te. simpl in Te. destruct (rev esr'); discriminate. }
  cbn [rev] in Te, Tf.
  apply tyl_snoc_inv in Te. destruct Te as (p0e & pe & Ee & Te0 & Te9 & Ne9).
  apply tyl_snoc_inv in Tf. destruct Tf as (p0f & pf & Ef & Tf0 & Tf9 & Nf9).
  assert (Npe : pe <> []) by (eapply ty_factor_nonempty; eauto).
  assert (Npf : pf <> []) by (eapply ty_factor_nonempty; eauto).
  assert (Me : numel e9 = tsizes pe) by (apply (ty_numel _ _ _ Te9)).
  assert (Mf : numel f9 = tsizes pf) by (apply (ty_numel _ _ _ Tf9)).
  assert (Gpe : gprimes (p0e ++ pe)) by (rewrite <- Ee; exact Gp).
  assert (Gpf : gprimes (p0f ++ pf)) by (rewrite <- Ef; exact Gp).
  (* weights of the two factor types *)
  assert (We : pm pe < wU /\ pm pf < wU).
  { assert (A1 : pm pe <= pm ps) by (rewrite Ee; apply pm_suffix_le).
    assert (A2 : pm pf <= pm ps) by (rewrite Ef; apply pm_suffix_le).
    destruct SC as [SC|(SC & L1 & L2)]; [lia|].
    assert (N0e : p0e <> []).
    { eapply tyl_nonempty; [exact Te0|]. destruct esr'; [simpl in L1; congruence|]. simpl. destruct (rev esr'); discriminate. }
    assert (N0f : p0f <> []).
    { eapply tyl_nonempty; [exact Tf0|]. destruct fsr'; [simpl in L2; congruence|]. simpl. destruct (rev fsr'); discriminate. }
    assert (B1 : pm pe < pm ps) by (rewrite Ee; apply pm_suffix_lt; exact N0e).
    assert (B2 : pm pf < pm ps) by (rewrite Ef; apply pm_suffix_lt; exact N0f).
    lia. }
  destruct We as [We Wf].
  assert (CB : ctx_below G (us_next st)) by apply (ts_below _ _ T).
  assert (Ecmp : p0e ++ pe = p0f ++ pf) by congruence.
  apply gprimes_app in Gpe. destruct Gpe as [Gp0e Gpe]. apply gprimes_app in Gpf. destruct Gpf as [Gp0f Gpf].
  pose proof (gprimes_pos _ Gpe) as Ppe. pose proof (gprimes_pos _ Gpf) as Ppf.
  destruct (Nat.eqb_spec (numel e9) (numel f9)) as [Emn|Emn].
  - (* equal sizes: equal types *)
    assert (pf = pe /\ p0f = p0e) as [-> ->].
    { destruct (suffix_compare _ _ _ _ Ecmp) as [(g & -> & ->)|(g & -> & ->)].
      - assert (g = []) as ->; [|rewrite app_nil_r; split; reflexivity].
        apply gprimes_one; [apply gprimes_app in Gpf; tauto|]. rewrite Mf, tsizes_app in Emn. nia.
      - assert (g = []) as ->; [|rewrite app_nil_r; split; reflexivity].
        apply gprimes_one; [apply gprimes_app in Gpe; tauto|]. rewrite Me, tsizes_app in Emn. nia. }
    apply (tres_seq G st (unify fuel e9 f9 st) (fun s => unify_loop fuel esr' fsr' s)).
    + apply (HU G e9 f9 pe st); assumption.
    + intros G1 st1 W1 L1 X1 T1. apply (HL G1 esr' fsr' p0e st1); trivial.
      * pose proof (pm_prefix_lt p0e pe Npe) as Hlt. rewrite <- Ee in Hlt. lia.
      * eapply tyl_ext; eauto.
      * eapply tyl_ext; eauto.
  - destruct (numel e9 <? numel f9) eqn:Elt.
    + (* m < n: pf = g ++ pe *)
      apply Nat.ltb_lt in Elt.
      assert (exists g, g <> [] /\ pf = g ++ pe /\ p0e = p0f ++ g) as (g & Ng & -> & ->).
      { destruct (suffix_compare _ _ _ _ Ecmp) as [(g & -> & ->)|(g & -> & ->)].
        - exists g. split; [|split; reflexivity]. intros ->. simpl in Mf. lia.
        - exfalso. rewrite Me, tsizes_app in Elt. apply gprimes_app in Gpe. destruct Gpe as [Gg _].
          pose proof (gprimes_pos _ Gg). rewrite Mf in Elt. nia. }
      destruct (psplit_total fuel n wU HU HL G f9 e9 fsr' esr' p0f g pe st false) as (Hm & Hmod & _ & R); trivial.
      { rewrite Ef in Wn. exact Wn. }
      { rewrite <- Ef. exact Gp. }
      destruct (Nat.eqb_spec (numel e9) 0) as [|_]; [contradiction|].
      rewrite Hmod. cbn [Nat.eqb negb]. unfold u_fresh. exact R.
    + (* m > n: pe = g ++ pf *)
      apply Nat.ltb_ge in Elt.
      assert (exists g, g <> [] /\ pe = g ++ pf /\ p0f = p0e ++ g) as (g & Ng & -> & ->).
      { destruct (suffix_compare _ _ _ _ Ecmp) as [(g & -> & ->)|(g & -> & ->)].
        - exfalso. rewrite Mf, tsizes_app in Elt, Emn. apply gprimes_app in Gpf. destruct Gpf as [Gg _].
          pose proof (gprimes_pos _ Gg). rewrite Me in Elt, Emn. nia.
        - exists g. split; [|split; reflexivity]. intros ->. simpl in Me. lia. }
      destruct (psplit_total fuel n wU HU HL G e9 f9 esr' fsr' p0e g pf st true) as (Hm & Hmod & _ & R); trivial.
      { rewrite Ee in Wn. exact Wn. }
      { rewrite <- Ee. exact Gp. }
      destruct (Nat.eqb_spec (numel f9) 0) as [|_]; [contradiction|].
      rewrite Hmod. cbn [Nat.eqb negb]. unfold u_fresh. exact R.
Qed.

(** * the body of [unify] *)
Lemma punify_body fuel n : PL2_lt fuel (S n) -> PU_lt fuel n -> PU_lt (S fuel) (S n).
Proof.
  intros HL HU G e0 f0 ps st Wn Gp T Te0 Tf0. cbn [unify].
  destruct (lookup_typed G _ e0 ps (ts_wts _ _ T) Te0) as (e & -> & Te & Ue).
  destruct (lookup_typed G _ f0 ps (ts_wts _ _ T) Tf0) as (f & -> & Tf & Uf).
  cbn [bind]. clear Te0 Tf0 e0 f0.
  destruct (same_object e f) eqn:So; [apply tres_refl; exact T|].
  rewrite (ty_numel _ _ _ Te), (ty_numel _ _ _ Tf), Nat.eqb_refl.
  pose proof (ts_good _ _ T) as CG.
  destruct e as [k1 n1|l1|b1 t1 a1].
  - (* Phys, _ *)
    assert (R : tres G st (Ok (true, u_bind k1 f st))).
    { pose proof Te as Te'. apply ty_phys_inv in Te'. destruct Te' as (-> & _).
      apply tres_bind with (n := n1); trivial. apply (Ue k1 n1 eq_refl). }
    destruct f; exact R.
  - destruct f as [k2 n2|l2|b2 t2 a2].
    + (* Prod, Phys *)
      assert (R : tres G st (Ok (true, u_bind k2 (Prod l1) st))).
      { pose proof Tf as Tf'. apply ty_phys_inv in Tf'. destruct Tf' as (-> & _).
        apply tres_bind with (n := n2); trivial. apply (Uf k2 n2 eq_refl). }
      destruct l1; exact R.
    + (* Prod, Prod *)
      rewrite (zero_pos _ (ty_pos _ _ _ CG Te Gp)).
      apply ty_prod_inv in Te. destruct Te as [L1 Te]. apply ty_prod_inv in Tf. destruct Tf as [L2 Tf].
      apply (HL G (rev l1) (rev l2) ps st); trivial; rewrite ?rev_involutive, ?rev_length; assumption.
    + (* Prod, Sum: impossible *)
      exfalso. apply ty_sum_inv in Tf. destruct Tf as (pre & tj & post & -> & _).
      apply ty_prod_inv in Te. destruct Te as [L1 Te]. pose proof (tyl_length _ _ _ Te) as LL. simpl in LL.
      destruct l1 as [|x [|y l1]]; simpl in *; try lia. apply tyl_nil_inv in Te. discriminate.
  - destruct f as [k2 n2|l2|b2 t2 a2].
    + (* Sum, Phys *)
      pose proof Tf as Tf'. apply ty_phys_inv in Tf'. destruct Tf' as (-> & _).
      apply tres_bind with (n := n2); trivial. apply (Uf k2 n2 eq_refl).
    + (* Sum, Prod: impossible *)
      exfalso. apply ty_sum_inv in Te. destruct Te as (pre & tj & post & -> & _).
      apply ty_prod_inv in Tf. destruct Tf as [L1 Tf]. pose proof (tyl_length _ _ _ Tf) as LL. simpl in LL.
      destruct l2 as [|x [|y l2]]; simpl in *; try lia. apply tyl_nil_inv in Tf. discriminate.
    + (* Sum, Sum *)
      apply ty_sum_inv in Te. destruct Te as (pre & tj & post & -> & -> & -> & Tt1).
      apply ty_sum_inv in Tf. destruct Tf as (pre' & tj' & post' & Eps & -> & -> & Tt2).
      inversion Eps as [Eps']. inversion Gp as [|? ? Gsum _]; subst.
      pose proof (gprime_summands_pos _ Gsum) as Pos1.
      rewrite (ty_numel _ _ _ Tt1), (ty_numel _ _ _ Tt2), !tsizes_tprimes.
      destruct (split_compare _ _ _ _ _ _ Eps') as [(<- & <- & <-)|[[mid ->]|[mid ->]]].
      * rewrite !Nat.eqb_refl. cbn [andb]. apply (HU G t1 t2 (tprimes tj) st); trivial.
        -- pose proof (pm_summand pre tj post). lia.
        -- apply tgood_primes. eapply gprime_summand; eauto.
      * assert (P : 1 <= tsize tj).
        { rewrite Forall_forall in Pos1. apply Pos1. apply in_or_app. right. left. reflexivity. }
        rewrite tsum_app, tsum_cons.
        destruct (Nat.eqb_spec (tsum pre) (tsum pre + (tsize tj + tsum mid))) as [|_]; [lia|]. cbn [andb].
        destruct (Nat.ltb_spec (tsum pre + (tsize tj + tsum mid)) (tsum pre + tsize tj)) as [|_]; [lia|]. cbn [andb].
        apply tres_refl. exact T.
      * assert (P : 1 <= tsize tj').
        { rewrite Forall_forall in Pos1. apply Pos1. rewrite Eps'. apply in_or_app. right. left. reflexivity. }
        rewrite tsum_app, tsum_cons.
        destruct (Nat.eqb_spec (tsum pre' + (tsize tj' + tsum mid)) (tsum pre')) as [|_]; [lia|]. cbn [andb].
        destruct (Nat.ltb_spec (tsum pre' + (tsize tj' + tsum mid)) (tsum pre' + tsize tj')) as [|_]; [lia|].
        rewrite andb_false_r. apply tres_refl. exact T.
Qed.

(** * the induction on the path weight of the type *)
Theorem ptotal_both : forall n,
  (forall fuel, 3 * n + 2 <= fuel -> PU_lt fuel (S n)) /\ (forall fuel, 3 * n + 3 <= fuel -> PL_lt fuel (S n)).
Proof.
  induction n as [n IH] using lt_wf_ind.
  assert (IHU : forall fuel, 3 * n <= fuel + 1 -> PU_lt fuel n).
  { intros fuel Hf G e f q st W. destruct n as [|n']; [lia|].
    destruct (IH (pm q)) as [H _]; [lia|]. apply H; lia. }
  assert (IHL : forall fuel, 3 * n <= fuel -> PL_lt fuel n).
  { intros fuel Hf G e f q st W. destruct n as [|n']; [lia|].
    destruct (IH (pm q)) as [_ H]; [lia|]. apply H; lia. }
  assert (L2 : forall fuel, 3 * n + 1 <= fuel -> PL2_lt fuel (S n)).
  { intros fuel Hf G esr fsr ps st W Gp T Te Tf L1 L2'. destruct fuel as [|fuel]; [lia|].
    apply (ploop_body fuel n n (IHU fuel ltac:(lia)) (IHL fuel ltac:(lia)) G esr fsr ps st); auto; try lia. }
  assert (U : forall fuel, 3 * n + 2 <= fuel -> PU_lt fuel (S n)).
  { intros fuel Hf. destruct fuel as [|fuel]; [lia|]. apply punify_body; [apply L2; lia|apply IHU; lia]. }
  split; [exact U|].
  intros fuel Hf G esr fsr ps st W Gp T Te Tf. destruct fuel as [|fuel]; [lia|].
  apply (ploop_body fuel n (S n) (U fuel ltac:(lia)) (IHL fuel ltac:(lia)) G esr fsr ps st); auto; try lia.
Qed.

(** fuel that suffices for [unify] at type [ps]: three units per step of the longest path *)
Definition pmfuel (ps : list ity) : nat := 3 * pm ps + 2.

Theorem unify_total_path G e f ps st fuel :
  pmfuel ps <= fuel -> gprimes ps -> tstate G st -> ty G e ps -> ty G f ps -> tres G st (unify fuel e f st).
Proof.
  intros Hf Gp T Te Tf. destruct (ptotal_both (pm ps)) as [H _]. apply (H fuel Hf G e f ps st); auto.
Qed.

Lemma unify_list_total_path G es fs pss st fuel :
  Forall (fun ps => pmfuel ps <= fuel) pss -> Forall gprimes pss -> tstate G st -> tys G es pss -> tys G fs pss ->
  tres G st (unify_list fuel es fs st).
Proof.
  intros Hf Gp. revert G st es fs. induction pss as [|ps pss IH]; intros G st es fs T Te Tf.
  - inversion Te; subst. simpl. apply tres_refl. exact T.
  - inversion Te as [|e es' ? ? Te1 Tes]; subst. inversion Tf as [|f fs' ? ? Tf1 Tfs]; subst.
    inversion Hf; subst. inversion Gp; subst. cbn [unify_list].
    apply (tres_seq G st (unify fuel e f st) (fun s => unify_list fuel es' fs' s)).
    + apply unify_total_path with (ps := ps); assumption.
    + intros G1 st1 W1 L1 X1 T1. apply IH; trivial; eapply tys_ext; eauto; apply (ts_below _ _ T).
Qed.

(** from the empty substitution, as the library calls it *)
Theorem unify_total_path_list G es fs pss next fuel :
  ctx_good G -> ctx_below G next -> tys G es pss -> tys G fs pss -> Forall gprimes pss ->
  Forall (fun ps => pmfuel ps <= fuel) pss ->
  exists b st' G', unify_list fuel es fs (ustate0 next) = Ok (b, st') /\ us_warn st' = false /\
                   (next <= us_next st')%positive /\ ctx_ext next G G' /\ tstate G' st'.
Proof.
  intros CG CB Te Tf Gp Hf.
  destruct (unify_list_total_path G es fs pss (ustate0 next) fuel Hf Gp) as (b & st' & G' & E & W & L & X & T'); trivial.
  - split; [exact CG|exact CB|apply wts_nil].
  - exists b, st', G'. auto.
Qed.
