(** C03: [J_log] read through exp.  Every (rule, edge) contribution of [J_log] equals the
    corresponding contribution of [J] times x_edge / F -- i.e. J_log = diag(1/F) J diag(x), the
    Jacobian of log F w.r.t. the log-values -- PROVIDED the rule's sum-product and the total are
    invertible (finite, non-zero) at that cell.  Without the proviso the code as it stands is
    wrong: a rule whose sum-product is zero yields 0/0 = nan, which poisons the whole block and is
    later turned into 0 ([C03_log_dead_rule_refuted], the finding c03_log_dead_rule_nan). *)
From Coq Require Import QArith Qcanon List Arith Bool PeanoNat Lia Ring Ring_theory.
Import ListNotations.
Require Import Fggs.Model.Semiring Fggs.Model.SCC Fggs.Model.SumProduct Fggs.Model.SumProductCheck
               Fggs.Model.EReal Fggs.Model.Dual.
Require Import Fggs.Proofs.SCC_ntgraph Fggs.Proofs.BigSum Fggs.Proofs.SP_trees Fggs.Proofs.SP_nonrec
               Fggs.Proofs.SP_code Fggs.Proofs.SP_rename Fggs.Proofs.SP_spe Fggs.Proofs.SP_driver
               Fggs.Proofs.SP_main Fggs.Proofs.Dual_ring Fggs.Proofs.Dual_leibniz Fggs.Proofs.Dual_J.
Local Open Scope nat_scope.

Section DualLog.
Context {R : Type} (o : sr_ops R).
Hypothesis Hr : sr_ring o.
Add Ring RingD10 : (sr_is_srt o Hr).
Variable G : grammar.
Hypothesis Hwf : wf_grammar G = true.
Variable E : env (R:=R).
Local Notation e := (fun l : nat => Some (E l)).

(** the three tensors the code computes for a rule r and one of its edges (split s) *)
Definition full_prod (r : rule) (s : list (nat * list nat) * (nat * list nat) * list (nat * list nat)) (idx : list nat) : R :=
  oapp o (spe o (node_sizes G r) e (r_edges r) (r_ext r ++ snd (snd (fst s)))) idx.
Definition loo_prod (r : rule) (s : list (nat * list nat) * (nat * list nat) * list (nat * list nat)) (idx : list nat) : R :=
  oapp o (spe o (node_sizes G r) e (fst (fst s) ++ snd s) (r_ext r ++ snd (snd (fst s)))) idx.

Lemma oenv_total l i : oenv o e l i = E l i.
Proof. reflexivity. Qed.

(** A: the full product with externals ext ++ edge nodes = leave-one-out product * the edge's value *)
Lemma full_is_loo_times_edge r s xi yi :
  wf_rule G r = true -> In s (splits (r_edges r)) ->
  In xi (all_assts (lshape G (r_lhs r))) -> In yi (all_assts (lshape G (fst (snd (fst s))))) ->
  full_prod r s (xi ++ yi) = mul o (loo_prod r s (xi ++ yi)) (E (fst (snd (fst s))) yi).
Proof.
  intros Hw Hs Hxi Hyi. unfold full_prod, loo_prod.
  destruct (wf_rule_facts G r Hw) as (_ & Hext & Hedges & Hshape & Hesh).
  destruct (splits_In_parts _ s Hs) as [Hed _].
  rewrite (spe_leave_one_out o Hr G e r s xi yi Hw Hs Hxi Hyi).
  rewrite (spe_general o Hr).
  - rewrite (sumS_mul_r o Hr). apply sumS_ext. intros a Ha. apply filter_In in Ha. destruct Ha as [_ Ha].
    apply nat_list_eqb_iff in Ha. rewrite sel_app in Ha. apply app_eq_length_inv in Ha.
    2:{ unfold sel. rewrite map_length. apply all_assts_length in Hxi. now rewrite Hshape, map_length in Hxi. }
    destruct Ha as [_ Ha].
    rewrite (splits_spec (r_edges r) s Hs) at 1.
    rewrite !(prodS_app o Hr), prodS_cons. rewrite !oenv_total, Ha. ring.
  - intros u Hu. apply in_app_iff in Hu. destruct Hu as [Hu|Hu]; [now apply Hext|now apply (Hedges _ u Hed)].
  - exact Hedges.
  - rewrite map_app, <- Hshape, <- (Hesh _ Hed). now apply in_all_assts_app.
Qed.

(** B: summing the full product over the edge's cells gives the rule's sum-product *)
Lemma full_rowsum r s xi :
  wf_rule G r = true -> In s (splits (r_edges r)) -> In xi (all_assts (lshape G (r_lhs r))) ->
  sumS o (all_assts (lshape G (fst (snd (fst s))))) (fun yi => full_prod r s (xi ++ yi)) = rule_val o G E r xi.
Proof.
  intros Hw Hs Hxi. unfold full_prod.
  destruct (wf_rule_facts G r Hw) as (_ & Hext & Hedges & Hshape & Hesh).
  destruct (splits_In_parts _ s Hs) as [Hed _].
  rewrite (sumS_ext o _ _ (fun yi =>
             sumS o (filter (fun a => nat_list_eqb (sel a (r_ext r ++ snd (snd (fst s)))) (xi ++ yi)) (all_assts (node_sizes G r)))
                  (fun a => prodS o (r_edges r) (fun ed => E (fst ed) (sel a (snd ed)))))).
  - rewrite (sum_collapse o Hr (all_assts (node_sizes G r)) (r_ext r) (snd (snd (fst s))) (lshape G (fst (snd (fst s)))) xi
                          (fun a _ => prodS o (r_edges r) (fun ed => E (fst ed) (sel a (snd ed))))).
    + reflexivity.
    + apply all_assts_length in Hxi. now rewrite Hshape, map_length in Hxi.
    + intros a Ha. now apply (edge_arg_in_range G r _ a Hw Hed).
  - intros yi Hyi. rewrite (spe_general o Hr).
    + apply sumS_ext. intros a _. apply prodS_ext. intros ed _. apply oenv_total.
    + intros u Hu. apply in_app_iff in Hu. destruct Hu as [Hu|Hu]; [now apply Hext|now apply (Hedges _ u Hed)].
    + exact Hedges.
    + rewrite map_app, <- Hshape, <- (Hesh _ Hed). now apply in_all_assts_app.
Qed.

(** C (C03_log, per contribution): with a division that is exact on [ok] denominators,
      (full / rowsum) * (tau_r / total)  times  total  =  leave-one-out * x_edge
    i.e. the J_log entry is the J entry times x / F *)
Context (dv : R -> R -> option R) (ok : R -> Prop).
Hypothesis Hdv : forall a b, ok b -> exists c, dv a b = Some c /\ mul o c b = a.

Theorem J_log_entry r s xi yi (total : R) :
  wf_rule G r = true -> In s (splits (r_edges r)) ->
  In xi (all_assts (lshape G (r_lhs r))) -> In yi (all_assts (lshape G (fst (snd (fst s))))) ->
  ok (rule_val o G E r xi) -> ok total ->
  exists v,
    omul o (dv (full_prod r s (xi ++ yi))
               (sumS o (all_assts (lshape G (fst (snd (fst s))))) (fun yi' => full_prod r s (xi ++ yi'))))
           (dv (rule_val o G E r xi) total) = Some v
    /\ mul o v total = mul o (loo_prod r s (xi ++ yi)) (E (fst (snd (fst s))) yi).
Proof.
  intros Hw Hs Hxi Hyi Hok1 Hok2. rewrite (full_rowsum r s xi Hw Hs Hxi).
  destruct (Hdv (full_prod r s (xi ++ yi)) _ Hok1) as (c1 & E1 & H1).
  destruct (Hdv (rule_val o G E r xi) _ Hok2) as (c2 & E2 & H2).
  rewrite E1, E2. cbn [omul]. exists (mul o c1 c2). split; trivial.
  rewrite <- (full_is_loo_times_edge r s xi yi Hw Hs Hxi Hyi), <- H1, <- H2. ring.
Qed.
End DualLog.

(** * the code as it stands: a dead rule poisons the block *)
(** S -> t(n) | t(n) X, X without rules (its sum-product is the zero tensor), t = [1/4, 1/4].
    labels: 0 = S, 1 = X, 2 = t.  True Jacobian of log S w.r.t. log t: (1/4) * 1 / (1/2) = 1/2. *)
Local Open Scope Q_scope.
Definition G_dead : grammar :=
  {| g_doms := [2%nat];
     g_labels := [(false, []); (false, []); (true, [0%nat])];
     g_rules := [ {| r_lhs := 0; r_nodes := [0%nat]; r_edges := [(2%nat, [0%nat])]; r_ext := [] |};
                  {| r_lhs := 0; r_nodes := [0%nat]; r_edges := [(2%nat, [0%nat]); (1%nat, [])]; r_ext := [] |} ];
     g_start := 0%nat |}.
Definition quarter : ereal := Fin (nn_of_Q (1 # 4)).
Definition half : ereal := Fin (nn_of_Q (1 # 2)).
Definition E_dead (l : nat) : option (list nat -> ereal) :=
  match l with
  | 2%nat => Some (fun _ => quarter)
  | 1%nat => Some (fun _ => Fin nn0)
  | _ => None
  end.

Example G_dead_wf : wf_grammar G_dead = true.
Proof. reflexivity. Qed.

(** the J_log block (S, t) is nan at both cells, hence 0 after nan_to_num; the J block is 1 and
    the value of S is 1/2, so the true entry  J * x / F  is 1/2 *)
Theorem log_dead_rule_refuted :
  J_log_old_val ereal_ops (J_log_old_contribs ereal_ops ediv G_dead [0%nat] E_dead true) 0 2 [1%nat] = None
  /\ nan_to_zero ereal_ops (J_log_old_val ereal_ops (J_log_old_contribs ereal_ops ediv G_dead [0%nat] E_dead true) 0 2 [1%nat]) = Fin nn0
  /\ eeqb (J_val ereal_ops (J_contribs ereal_ops G_dead [0%nat] E_dead true) 0 2 [1%nat]) (Fin nn1) = true
  /\ eeqb (emul (J_val ereal_ops (J_contribs ereal_ops G_dead [0%nat] E_dead true) 0 2 [1%nat]) quarter)
          (emul half half) = true.
Proof. vm_compute. repeat split. Qed.

(** with the dead rule removed the same computation gives 1/2 *)
Definition G_live : grammar :=
  {| g_doms := [2%nat];
     g_labels := [(false, []); (false, []); (true, [0%nat])];
     g_rules := [ {| r_lhs := 0; r_nodes := [0%nat]; r_edges := [(2%nat, [0%nat])]; r_ext := [] |} ];
     g_start := 0%nat |}.
Example log_live_rule_value :
  match J_log_old_val ereal_ops (J_log_old_contribs ereal_ops ediv G_live [0%nat] E_dead true) 0 2 [1%nat] with
  | Some v => eeqb v half
  | None => false
  end = true.
Proof. vm_compute. reflexivity. Qed.

(** * the derivative at a zero weight (finding c03_fixed_point_empty_solution) *)
(** X -> X a | b with a = 1/4, b = 0 (labels 0 = a, 1 = b, 2 = X): Z = 0, but dZ_k/db =
    1 + a + ... + a^(k-1) (-> 4/3): the gradient of b is not zero; method fixed-point returns a
    constant without autograd graph (b.grad is None) because its first iterate F(0) = b = 0
    already passes the stopping test and the EMPTY MultiTensor is returned. *)
Definition G_rec0 : grammar :=
  {| g_doms := [2%nat];
     g_labels := [(true, []); (true, []); (false, [])];
     g_rules := [ {| r_lhs := 2%nat; r_nodes := []; r_edges := [(2%nat, []); (0%nat, [])]; r_ext := [] |};
                  {| r_lhs := 2%nat; r_nodes := []; r_edges := [(1%nat, [])]; r_ext := [] |} ];
     g_start := 2%nat |}.
Definition W_rec0 : env (R:=ereal) := fun l _ => match l with 0%nat => quarter | _ => Fin nn0 end.
Theorem zero_weight_derivative_witness :
  eeqb (Zk ereal_ops G_rec0 W_rec0 3%nat 2%nat []) (Fin nn0) = true
  /\ eeqb (grad_model ereal_ops G_rec0 W_rec0 1%nat [] 1%nat 2%nat []) (Fin nn1) = true
  /\ eeqb (grad_model ereal_ops G_rec0 W_rec0 1%nat [] 3%nat 2%nat []) (Fin (nn_of_Q (21 # 16))) = true.
Proof. vm_compute. repeat split. Qed.
