(** C09 -- the list model of Semiring.solve_thunks ([Model.Solve.solve_model], the in-place
    Gauss-Jordan loop) refines the elimination on functions of Proofs/SolveElim.v, hence
    returns the least solution of x = A x + b; soundness of the executable oracles. *)
From Coq Require Import List Arith Lia Bool PeanoNat Permutation.
Import ListNotations.
Require Import Fggs.Model.Semiring Fggs.Model.Solve Fggs.Proofs.SolveElim.

Lemma nth_map_seq {B} (f : nat -> B) a n i d : i < n -> nth i (map f (seq a n)) d = f (a + i).
Proof.
  revert a i. induction n as [|n IH]; intros a i H; [lia|].
  destruct i as [|i]; cbn [seq map nth]; [f_equal; lia|].
  rewrite IH by lia. f_equal; lia.
Qed.

Section Refine.
Context {S : Type} (o : sr_ops S).

(** the default of [nth] is never read for in-range indices *)
Lemma get1_tab1 n f i : i < n -> get1 o (tab1 n f) i = f i.
Proof. intros H. unfold get1, tab1. rewrite nth_map_seq by exact H. reflexivity. Qed.

Lemma get2_tab2 n m f i j : i < n -> j < m -> get2 o (tab2 n m f) i j = f i j.
Proof.
  intros Hi Hj. unfold get2, tab2.
  rewrite (nth_map_seq (fun i => map (f i) (seq 0 m)) 0 n i []) by exact Hi.
  rewrite nth_map_seq by exact Hj. reflexivity.
Qed.

Lemma length_tab1 n (f : nat -> S) : length (tab1 n f) = n.
Proof. unfold tab1. rewrite map_length, seq_length. reflexivity. Qed.

Lemma sum_n_sumS n f : sum_n o n f = sumS o nat (seq 0 n) f.
Proof. reflexivity. Qed.

(** one pass of the loop, read through [get2]/[get1], is [elimA]/[elimb] on the live part *)
Lemma gj_astep_get n k A i j : k < n -> i < n -> k < j < n ->
  get2 o (gj_astep o n k A) i j = elimA o nat (get2 o A) k i j.
Proof.
  intros Hk Hi Hj. unfold gj_astep, gj_rank1.
  rewrite get2_tab2 by lia.
  destruct (Nat.ltb_spec k j) as [_|]; [|lia].
  unfold gj_scale. rewrite !get2_tab2 by lia.
  rewrite Nat.eqb_refl.
  destruct (Nat.eqb_spec j k) as [->|_]; [lia|].
  unfold elimA. reflexivity.
Qed.

Lemma gj_astep_colk n k A i : k < n -> i < n ->
  get2 o (gj_astep o n k A) i k = mul o (get2 o A i k) (star o (get2 o A k k)).
Proof.
  intros Hk Hi. unfold gj_astep, gj_rank1.
  rewrite get2_tab2 by lia. rewrite Nat.ltb_irrefl.
  unfold gj_scale. rewrite get2_tab2 by lia. rewrite Nat.eqb_refl. reflexivity.
Qed.

Lemma gj_xvec_get n k A x i : k < n -> i < n ->
  get1 o (gj_xvec o n k (gj_astep o n k A) x) i = elimb o nat (get2 o A) (get1 o x) k i.
Proof.
  intros Hk Hi. unfold gj_xvec. rewrite get1_tab1 by lia.
  rewrite gj_astep_colk by lia. reflexivity.
Qed.

Lemma gj_xmat_get n m k A X i c : k < n -> i < n -> c < m ->
  get2 o (gj_xmat o n m k (gj_astep o n k A) X) i c
  = elimb o nat (get2 o A) (fun i => get2 o X i c) k i.
Proof.
  intros Hk Hi Hc. unfold gj_xmat. rewrite get2_tab2 by lia.
  rewrite gj_astep_colk by lia. reflexivity.
Qed.

(** the loop from pass [k] on, on lists, is [gjf] on the functions read from the lists *)
Lemma gj_fold_vec n : forall len k A x, k + len = n -> forall i, i < n ->
  get1 o (snd (fold_left (gj_step_vec o n) (seq k len) (A, x))) i
  = gjf o nat (seq k len) (get2 o A) (get1 o x) i.
Proof.
  induction len as [|len IH]; intros k A x Hlen i Hi; [reflexivity|].
  cbn [seq fold_left gjf]. unfold gj_step_vec at 2. cbn [fst snd].
  rewrite IH by lia.
  apply (gjf_ext o nat (fun i => i < n)); [| | |exact Hi].
  - intros j Hj. apply in_seq in Hj. lia.
  - intros i' j Hi' Hj. apply in_seq in Hj. apply gj_astep_get; lia.
  - intros i' Hi'. apply gj_xvec_get; lia.
Qed.

Lemma gj_fold_mat n m : forall len k A X, k + len = n -> forall i c, i < n -> c < m ->
  get2 o (snd (fold_left (gj_step_mat o n m) (seq k len) (A, X))) i c
  = gjf o nat (seq k len) (get2 o A) (fun i => get2 o X i c) i.
Proof.
  induction len as [|len IH]; intros k A X Hlen i c Hi Hc; [reflexivity|].
  cbn [seq fold_left gjf]. unfold gj_step_mat at 2. cbn [fst snd].
  rewrite IH by lia.
  apply (gjf_ext o nat (fun i => i < n)); [| | |exact Hi].
  - intros j Hj. apply in_seq in Hj. lia.
  - intros i' j Hi' Hj. apply in_seq in Hj. apply gj_astep_get; lia.
  - intros i' Hi'. apply gj_xmat_get; lia.
Qed.

(** the pivots of the list loop are those of the function loop *)
Lemma gjf_pivots_ext n : forall len k (F G : nat -> nat -> S), k + len = n ->
  (forall i j, i < n -> k <= j < n -> F i j = G i j) ->
  gjf_pivots o nat (seq k len) F = gjf_pivots o nat (seq k len) G.
Proof.
  induction len as [|len IH]; intros k F G Hl HFG; [reflexivity|].
  cbn [seq gjf_pivots]. f_equal; [apply HFG; lia|].
  apply IH; [lia|]. intros i j Hi Hj. unfold elimA.
  rewrite (HFG i j), (HFG i k), (HFG k k), (HFG k j) by lia. reflexivity.
Qed.

Lemma gj_pivots_fun n : forall len k A, k + len = n ->
  gj_pivots o n (seq k len) A = gjf_pivots o nat (seq k len) (get2 o A).
Proof.
  induction len as [|len IH]; intros k A Hlen; [reflexivity|].
  cbn [seq gj_pivots gjf_pivots]. f_equal. rewrite IH by lia.
  apply (gjf_pivots_ext n); [lia|].
  intros i j Hi Hj. apply gj_astep_get; lia.
Qed.

End Refine.

(** * Specification on lists *)
Section Spec.
Context {S : Type} (o : sr_ops S).
Infix "+" := (add o). Infix "*" := (mul o). Infix "<=" := (le o).

Definition sol_spec (n : nat) (A : mat S) (b : vec S) (x : nat -> S) : Prop :=
  forall i, i < n -> x i = sum_n o n (fun j => get2 o A i j * x j) + get1 o b i.
Definition presol_spec (n : nat) (A : mat S) (b : vec S) (y : nat -> S) : Prop :=
  forall i, i < n -> sum_n o n (fun j => get2 o A i j * y j) + get1 o b i <= y i.
Definition least_spec (n : nat) (A : mat S) (b : vec S) (x : nat -> S) : Prop :=
  sol_spec n A b x /\ forall y, presol_spec n A b y -> forall i, i < n -> x i <= y i.

Lemma sol_spec_iff n A b x :
  sol_spec n A b x <-> is_sol o nat (seq 0 n) (get2 o A) (get1 o b) x.
Proof.
  split; intros H i Hi.
  - apply in_seq in Hi. apply H. lia.
  - apply H. apply in_seq. lia.
Qed.
Lemma presol_spec_iff n A b y :
  presol_spec n A b y <-> is_presol o nat (seq 0 n) (get2 o A) (get1 o b) y.
Proof.
  split; intros H i Hi.
  - apply in_seq in Hi. apply H. lia.
  - apply H. apply in_seq. lia.
Qed.

(** the specifications do not mention the star *)
Lemma sum_n_with_star st n f : sum_n (with_star o st) n f = sum_n o n f.
Proof.
  unfold sum_n. induction (map f (seq 0 n)) as [|x l IH]; [reflexivity|].
  cbn [sum_list]. rewrite IH. reflexivity.
Qed.
Lemma sol_spec_with_star st n A b x : sol_spec n A b x ->
  forall i, i < n -> x i = add (with_star o st) (sum_n (with_star o st) n
        (fun j => mul (with_star o st) (get2 (with_star o st) A i j) (x j))) (get1 (with_star o st) b i).
Proof. intros H i Hi. rewrite sum_n_with_star. exact (H i Hi). Qed.
Lemma sol_spec_of_with_star st n A b x :
  (forall i, i < n -> x i = add (with_star o st) (sum_n (with_star o st) n
        (fun j => mul (with_star o st) (get2 (with_star o st) A i j) (x j))) (get1 (with_star o st) b i)) ->
  sol_spec n A b x.
Proof. intros H i Hi. specialize (H i Hi). rewrite sum_n_with_star in H. exact H. Qed.

(** C09_gauss_jordan_refines, first half: the list loop is the function loop *)
Theorem solve_model_gjf n A b i : i < n ->
  get1 o (solve_model o n A b) i = gjf o nat (seq 0 n) (get2 o A) (get1 o b) i.
Proof. intros Hi. unfold solve_model. apply gj_fold_vec; lia. Qed.

Theorem solve_model_mat_gjf n m A B i c : i < n -> c < m ->
  get2 o (solve_model_mat o n m A B) i c
  = gjf o nat (seq 0 n) (get2 o A) (fun i => get2 o B i c) i.
Proof. intros Hi Hc. unfold solve_model_mat. apply gj_fold_mat; lia. Qed.

(** the matrix code path is the vector code path column by column *)
Theorem solve_model_mat_col n m A B i c : i < n -> c < m ->
  get2 o (solve_model_mat o n m A B) i c = get1 o (solve_model o n A (col o n B c)) i.
Proof.
  intros Hi Hc. rewrite solve_model_mat_gjf, solve_model_gjf by assumption.
  apply (gjf_ext o nat (fun i => i < n)); [| | |exact Hi].
  - intros j Hj. apply in_seq in Hj. lia.
  - reflexivity.
  - intros i' Hi'. unfold col. rewrite get1_tab1 by exact Hi'. reflexivity.
Qed.

Lemma series_ser n A b N : forall i, i < n ->
  get1 o (series o n A b N) i = ser o nat (seq 0 n) (get2 o A) (get1 o b) N i.
Proof.
  induction N as [|N IH]; intros i Hi; cbn [series ser].
  - rewrite get1_tab1 by exact Hi. reflexivity.
  - unfold affine. rewrite get1_tab1 by exact Hi. unfold affF. f_equal.
    rewrite sum_n_sumS. apply sumS_ext. intros j Hj. apply in_seq in Hj. rewrite IH by lia. reflexivity.
Qed.

Section Laws.
Hypothesis Hring : sr_ring o.

Section Unfold.
Hypothesis Hunfold : forall a, star o a = add o (one o) (mul o a (star o a)).

(** C09_gauss_jordan_refines *)
Theorem solve_model_elim n A b i : i < n ->
  get1 o (solve_model o n A b) i = elim o nat Nat.eq_dec (seq 0 n) (get2 o A) (get1 o b) i.
Proof.
  intros Hi. rewrite solve_model_gjf by exact Hi.
  apply gjf_elim; [exact Hring|exact Hunfold|apply seq_NoDup|apply in_seq; lia].
Qed.

Theorem solve_model_sol n A b : sol_spec n A b (get1 o (solve_model o n A b)).
Proof.
  apply sol_spec_iff. intros i Hi.
  assert (Hi' : i < n) by (apply in_seq in Hi; lia).
  rewrite solve_model_gjf by exact Hi'.
  rewrite (sumS_ext o nat (seq 0 n) (fun j => get2 o A i j * get1 o (solve_model o n A b) j)
             (fun j => get2 o A i j * gjf o nat (seq 0 n) (get2 o A) (get1 o b) j)).
  - apply (gjf_sol o Hring nat Nat.eq_dec Hunfold); [apply seq_NoDup|exact Hi].
  - intros j Hj. apply in_seq in Hj. rewrite solve_model_gjf by lia. reflexivity.
Qed.

(** elimination in any order gives a solution *)
Theorem elim_any_order_sol n A b order : Permutation order (seq 0 n) ->
  sol_spec n A b (elim o nat Nat.eq_dec order (get2 o A) (get1 o b)).
Proof.
  intros P. apply sol_spec_iff. apply is_sol_perm with order; [exact Hring|exact P|].
  apply (elim_sol o Hring nat Nat.eq_dec Hunfold).
  apply Permutation_NoDup with (seq 0 n); [apply Permutation_sym; exact P|apply seq_NoDup].
Qed.
End Unfold.

Hypothesis Hord : sr_ordered o.
Hypothesis Hstar : sr_star o.

Theorem solve_model_least n A b y : presol_spec n A b y ->
  forall i, i < n -> get1 o (solve_model o n A b) i <= y i.
Proof.
  intros Hy i Hi. rewrite (solve_model_elim (star_unfold o Hstar)) by exact Hi.
  apply (elim_least o Hring nat Nat.eq_dec Hord (star_ind o Hstar));
    [apply seq_NoDup|apply presol_spec_iff; exact Hy|apply in_seq; lia].
Qed.

Theorem solve_model_least_spec n A b : least_spec n A b (get1 o (solve_model o n A b)).
Proof. split; [apply solve_model_sol; apply (star_unfold o Hstar)|apply solve_model_least]. Qed.

(** C09_elimination_least (scalars): any order *)
Theorem elim_any_order_least n A b order : Permutation order (seq 0 n) ->
  least_spec n A b (elim o nat Nat.eq_dec order (get2 o A) (get1 o b)).
Proof.
  intros P. split; [apply elim_any_order_sol; [apply (star_unfold o Hstar)|exact P]|].
  intros y Hy i Hi.
  assert (ND : NoDup order)
    by (apply Permutation_NoDup with (seq 0 n); [apply Permutation_sym; exact P|apply seq_NoDup]).
  apply (elim_least o Hring nat Nat.eq_dec Hord (star_ind o Hstar)); [exact ND| |].
  - apply is_presol_perm with (seq 0 n); [exact Hring|apply Permutation_sym; exact P|].
    apply presol_spec_iff. exact Hy.
  - apply Permutation_in with (seq 0 n); [apply Permutation_sym; exact P|apply in_seq; lia].
Qed.

Lemma least_spec_unique n A b x x' : least_spec n A b x -> least_spec n A b x' ->
  forall i, i < n -> x i = x' i.
Proof.
  intros [Hs Hl] [Hs' Hl'] i Hi. apply (le_antisym o Hord).
  - apply Hl; [|exact Hi]. intros k Hk. rewrite <- (Hs' k Hk). apply (le_refl o Hord).
  - apply Hl'; [|exact Hi]. intros k Hk. rewrite <- (Hs k Hk). apply (le_refl o Hord).
Qed.

(** every elimination order computes what the code computes *)
Corollary elim_any_order_eq n A b order : Permutation order (seq 0 n) -> forall i, i < n ->
  elim o nat Nat.eq_dec order (get2 o A) (get1 o b) i = get1 o (solve_model o n A b) i.
Proof.
  intros P. apply least_spec_unique with A b;
    [apply elim_any_order_least; exact P|apply solve_model_least_spec].
Qed.

(** C09_least_is_series *)
Theorem series_le_any_solution n A b x N i : sol_spec n A b x -> i < n ->
  get1 o (series o n A b N) i <= x i.
Proof.
  intros Hx Hi. rewrite series_ser by exact Hi.
  apply (ser_le_sol o Hring nat Hord (seq 0 n) (get2 o A) (get1 o b)); [|apply in_seq; lia].
  apply sol_spec_iff. exact Hx.
Qed.

Theorem series_le_solve n A b N i : i < n ->
  get1 o (series o n A b N) i <= get1 o (solve_model o n A b) i.
Proof.
  intros Hi. apply series_le_any_solution; [|exact Hi].
  apply solve_model_sol. apply (star_unfold o Hstar).
Qed.

(** * soundness of the executable oracles *)
Variables (eqb leb : S -> S -> bool).
Hypothesis Heqb : forall x y, eqb x y = true -> x = y.
Hypothesis Hleb : forall x y, leb x y = true <-> x <= y.

Lemma vec_all2_iff (r : S -> S -> bool) n x y :
  vec_all2 o r n x y = true <-> forall i, i < n -> r (get1 o x i) (get1 o y i) = true.
Proof.
  unfold vec_all2. rewrite forallb_forall. split; intros H i Hi.
  - apply H. apply in_seq. lia.
  - apply H. apply in_seq in Hi. lia.
Qed.

Lemma affine_get n A b x i : i < n ->
  get1 o (affine o n A b x) i = sum_n o n (fun j => get2 o A i j * get1 o x j) + get1 o b i.
Proof. intros Hi. unfold affine. rewrite get1_tab1 by exact Hi. reflexivity. Qed.

Theorem is_solution_b_sound n A b x :
  is_solution_b o eqb n A b x = true -> sol_spec n A b (get1 o x).
Proof.
  unfold is_solution_b. rewrite vec_all2_iff. intros H i Hi.
  rewrite <- affine_get by exact Hi. apply Heqb. apply H. exact Hi.
Qed.

Theorem presol_b_sound n A b u :
  presol_b o leb n A b u = true -> presol_spec n A b (get1 o u).
Proof.
  unfold presol_b. rewrite vec_all2_iff. intros H i Hi.
  rewrite <- affine_get by exact Hi. apply Hleb. apply H. exact Hi.
Qed.

(** the main oracle: acceptance implies "least solution" *)
Theorem is_least_solution_b_sound n A b x :
  is_least_solution_b o eqb leb n A b x = true -> least_spec n A b (get1 o x).
Proof.
  unfold is_least_solution_b. rewrite andb_true_iff, vec_all2_iff. intros [Hs Hl].
  split; [apply is_solution_b_sound; exact Hs|].
  intros y Hy i Hi. apply (le_trans o Hord) with (get1 o (solve_model o n A b) i).
  - apply Hleb. apply Hl. exact Hi.
  - apply solve_model_least; assumption.
Qed.

(** the lower-bound oracle never rejects a solution: a rejection refutes the output *)
Theorem series_le_b_complete n A b N x :
  sol_spec n A b (get1 o x) -> series_le_b o leb n A b N x = true.
Proof.
  intros Hx. unfold series_le_b. apply vec_all2_iff. intros i Hi. apply Hleb.
  apply series_le_any_solution; assumption.
Qed.

(** the certificate oracle never rejects the least solution *)
Theorem cert_le_b_complete n A b u x :
  least_spec n A b (get1 o x) -> cert_le_b o leb n A b u x = true.
Proof.
  intros [_ Hl]. unfold cert_le_b.
  destruct (presol_b o leb n A b u) eqn:Hu; [|reflexivity]. cbn.
  apply vec_all2_iff. intros i Hi. apply Hleb. apply Hl; [|exact Hi].
  apply presol_b_sound. exact Hu.
Qed.

(** a solution below the model's answer is the model's answer *)
Theorem least_solution_is_model n A b x :
  is_least_solution_b o eqb leb n A b x = true ->
  forall i, i < n -> get1 o x i = get1 o (solve_model o n A b) i.
Proof.
  intros H. apply least_spec_unique with A b;
    [apply is_least_solution_b_sound; exact H|apply solve_model_least_spec].
Qed.
End Laws.

(** * two stars that agree on the pivots met give the same run (guard of finding F2) *)
Lemma gjf_with_star (st : S -> S) vs : forall A b A' b',
  (forall i j, A i j = A' i j) -> (forall i, b i = b' i) ->
  (forall p, In p (gjf_pivots o nat vs A) -> star o p = st p) ->
  forall i, gjf o nat vs A b i = gjf (with_star o st) nat vs A' b' i.
Proof.
  induction vs as [|k vs IH]; intros A b A' b' HA Hb Hp i; [apply Hb|].
  cbn [gjf]. cbn [gjf_pivots] in Hp.
  assert (Hk : star o (A k k) = st (A' k k)) by (rewrite <- HA; apply Hp; now left).
  apply IH.
  - intros i' j. unfold elimA. cbn [with_star add mul star]. rewrite Hk, !HA. reflexivity.
  - intros i'. unfold elimb. cbn [with_star add mul star]. rewrite Hk, !HA, !Hb. reflexivity.
  - intros p Hin. apply Hp. now right.
Qed.

Theorem solve_model_with_star (st : S -> S) n A b :
  (forall p, In p (gj_pivots o n (seq 0 n) A) -> star o p = st p) ->
  forall i, i < n -> get1 o (solve_model o n A b) i = get1 o (solve_model (with_star o st) n A b) i.
Proof.
  intros Hp i Hi.
  rewrite (solve_model_gjf n A b i Hi).
  change (get1 o (solve_model (with_star o st) n A b) i)
    with (get1 (with_star o st) (solve_model (with_star o st) n A b) i).
  rewrite (gj_pivots_fun o n n 0 A eq_refl) in Hp.
  rewrite (gjf_with_star st (seq 0 n) (get2 o A) (get1 o b) (get2 o A) (get1 o b)); auto.
  symmetry.
  exact (gj_fold_vec (with_star o st) n n 0 A b eq_refl i Hi).
Qed.
End Spec.
