(** Composition ("glue") for C09 / C02: carrier instances of the matrix-star, multi_solve and
    linear-recursion theorems.  The law records of the carriers are proved in
    Proofs/SemiringLaws.v (C08); nothing in this file has a law premise.  Also the examples
    showing that the hypotheses of the generic theorems are satisfiable by non-trivial values. *)
From Coq Require Import List Arith Bool PeanoNat Lia QArith Qcanon.
Import ListNotations.
Require Import Fggs.Model.Semiring Fggs.Model.EReal Fggs.Model.Trop Fggs.Model.Solve Fggs.Model.MultiSolve.
Require Import Fggs.Model.SCC Fggs.Model.SumProduct Fggs.Model.Kleene.
Require Import Fggs.Proofs.SolveRefine Fggs.Proofs.SolveStar Fggs.Proofs.MultiSolveLU
               Fggs.Proofs.MultiSolveDense Fggs.Proofs.MultiOrder.
Require Import Fggs.Proofs.Kleene_control Fggs.Proofs.Kleene_linear Fggs.Proofs.Kleene_linear_lfp
               Fggs.Proofs.Kleene_examples.
Require Fggs.Proofs.SemiringLaws.
Local Open Scope nat_scope.

Local Notation bR := SemiringLaws.bool_ring. Local Notation bO := SemiringLaws.bool_ordered. Local Notation bS := SemiringLaws.bool_star.
Local Notation eR := SemiringLaws.ereal_ring. Local Notation eO := SemiringLaws.ereal_ordered. Local Notation eS := SemiringLaws.ereal_star.
Local Notation tR := SemiringLaws.trop_ring. Local Notation tO := SemiringLaws.trop_ordered. Local Notation tS := SemiringLaws.trop_star.

Lemma eeqb_refl x : eeqb x x = true.
Proof. destruct x; cbn; [apply Qeq_bool_refl|reflexivity]. Qed.
Lemma teqb_refl x : teqb x x = true.
Proof. destruct x; cbn; try reflexivity. apply Qeq_bool_refl. Qed.
Lemma beqb_refl (x : bool) : Bool.eqb x x = true.
Proof. destruct x; reflexivity. Qed.

(** * C09: X = X A + B *)
Definition bool_mul_star_least := @mul_star_least bool bool_ops bR bO bS.
Definition real_mul_star_least := @mul_star_least ereal ereal_ops eR eO eS.
Definition trop_mul_star_least := @mul_star_least trop trop_ops tR tO tS.
Definition bool_solve_transposed := @solve_transposed bool bool_ops bR bO bS.
Definition real_solve_transposed := @solve_transposed ereal ereal_ops eR eO eS.
Definition trop_solve_transposed := @solve_transposed trop trop_ops tR tO tS.

(** * C09: multi_solve *)
Definition bool_multi_solve_least := @multi_solve_least bool bool_ops bR bO bS.
Definition real_multi_solve_least := @multi_solve_least ereal ereal_ops eR eO eS.
Definition trop_multi_solve_least := @multi_solve_least trop trop_ops tR tO tS.
Definition bool_multi_solve_is_dense_solve := @multi_solve_is_dense_solve bool bool_ops bR bO bS.
Definition real_multi_solve_is_dense_solve := @multi_solve_is_dense_solve ereal ereal_ops eR eO eS.
Definition trop_multi_solve_is_dense_solve := @multi_solve_is_dense_solve trop trop_ops tR tO tS.
Definition bool_multi_solve_code_order := @multi_solve_code_order bool bool_ops bR bO bS.
Definition real_multi_solve_code_order := @multi_solve_code_order ereal ereal_ops eR eO eS.
Definition trop_multi_solve_code_order := @multi_solve_code_order trop trop_ops tR tO tS.
(** the cross-check "block model = dense model" of the correspondence never fails *)
Definition bool_multi_solve_never_13 d order tr a b :=
  @multi_solve_never_13 bool bool_ops bR bO bS d Bool.eqb order tr a b beqb_refl.
Definition real_multi_solve_never_13 d order tr a b :=
  @multi_solve_never_13 ereal ereal_ops eR eO eS d eeqb order tr a b eeqb_refl.
Definition trop_multi_solve_never_13 d order tr a b :=
  @multi_solve_never_13 trop trop_ops tR tO tS d teqb order tr a b teqb_refl.

(** * C02: method='linear' *)
Definition bool_linear_is_lfp_any_order := @linear_is_lfp_any_order bool bool_ops bR bO bS.
Definition real_linear_is_lfp_any_order := @linear_is_lfp_any_order ereal ereal_ops eR eO eS.
Definition trop_linear_is_lfp_any_order := @linear_is_lfp_any_order trop trop_ops tR tO tS.
Definition bool_linear_is_lfp_code_order := @linear_is_lfp_code_order bool bool_ops bR bO bS.
Definition real_linear_is_lfp_code_order := @linear_is_lfp_code_order ereal ereal_ops eR eO eS.
Definition trop_linear_is_lfp_code_order := @linear_is_lfp_code_order trop trop_ops tR tO tS.

(** * examples *)
(** a 2-block system over Viterbi (shapes 2 and 1), blocks (1,1) of [a] and 0 of [b] absent,
    eliminated in the order [1; 0], both transpose flags: the hypotheses hold and the block
    solver and the dense solver return the same, non-trivial, vector *)
Definition exd : dims_t := [(0, 2); (1, 1)].
Definition tq (n : Z) : trop := TFin (Q2Qc (n # 1)).
Definition exa : @mt2 trop :=
  [((0, 0), [[NInf; tq (-1)]; [tq (-2); NInf]]); ((0, 1), [[tq 0]; [NInf]]); ((1, 0), [[NInf; tq (-3)]])].
Definition exb : @mt1 trop := [(1, [tq 5])].

Example multi_solve_hyps :
  NoDup (map fst exd) /\ NoDup [1; 0] /\ (forall x, In x [1; 0] <-> In x (map fst exd))
  /\ NoDup (map fst exa) /\ NoDup (map fst exb).
Proof.
  repeat split; try (repeat constructor; cbn; intuition congruence); cbn; intuition.
Qed.

Example multi_solve_example :
  assemble1 trop_ops exd (multi_solve_model trop_ops exd [1; 0] false exa exb) = [tq 5; tq 3; tq 5]
  /\ solve_model trop_ops 3 (assemble2 trop_ops exd false exa) (assemble1 trop_ops exd exb) = [tq 5; tq 3; tq 5]
  /\ assemble1 trop_ops exd (multi_solve_model trop_ops exd [1; 0] true exa exb) = [tq 0; tq 2; tq 5]
  /\ solve_model trop_ops 3 (assemble2 trop_ops exd true exa) (assemble1 trop_ops exd exb) = [tq 0; tq 2; tq 5].
Proof. vm_compute. repeat split. Qed.

(** the code's own order for these keys *)
Example multi_solve_code_order_example :
  order_nonterminals_model iter_sorted (map fst exa) (map fst exd) = Some [0; 1].
Proof. vm_compute. reflexivity. Qed.

(** X = X A + B: a 2 x 2 system with a 1 x 2 right-hand side over Viterbi *)
Example right_solve_example :
  rsolve_model trop_ops 2 1 [[NInf; tq (-1)]; [tq (-2); NInf]] [[tq 0; NInf]] = [[tq 0; tq (-1)]]
  /\ mm_model trop_ops 1 2 2 [[tq 0; NInf]] (star_model trop_ops 2 [[NInf; tq (-1)]; [tq (-2); NInf]])
     = [[tq 0; tq (-1)]].
Proof. vm_compute. repeat split. Qed.

(** C02: the linearly recursive component [1] of the example grammar  X -> X a | a  (Bool):
    J0 and F0 tabulated as [linear] does; every hypothesis of [linear_is_lfp_any_order] holds
    and the value read back from multi_solve is the (non-trivial) least fixed point *)
Lemma tabulates_single {R} (o : sr_ops R) G (w inp : env (R:=R)) n :
  let L := length (assts G n) in
  tabulates_J0 o G w inp [n]
    [((n, n), tab2 L L (fun p q => lin_J0 o G w inp [n] n n (nth p (assts G n) []) (nth q (assts G n) [])))]
  /\ tabulates_F0 o G w inp [n]
    [(n, tab1 L (fun p => lin_F0 o G w inp [n] n (nth p (assts G n) [])))].
Proof.
  intros L. split.
  - intros n' m p q [<-|[]] [<-|[]] Hp Hq. unfold getm. cbn [MultiSolve.lookup2]. rewrite Nat.eqb_refl. cbn [andb].
    rewrite get2_tab2 by assumption. reflexivity.
  - intros n' p [<-|[]] Hp. unfold getv. cbn [MultiSolve.lookup1]. rewrite Nat.eqb_refl.
    rewrite get1_tab1 by assumption. reflexivity.
Qed.

Definition exJ0 : @mt2 bool :=
  [((1, 1), tab2 2 2 (fun p q => lin_J0 bool_ops exG exw (fun _ _ => false) [1] 1 1
                                   (nth p (assts exG 1) []) (nth q (assts exG 1) [])))].
Definition exF0 : @mt1 bool :=
  [(1, tab1 2 (fun p => lin_F0 bool_ops exG exw (fun _ _ => false) [1] 1 (nth p (assts exG 1) [])))].

Example linear_lfp_hyps :
  wf_grammar exG = true /\ (forall m, In m [1] -> is_term exG m = false) /\ NoDup [1]
  /\ max_rhs exG [1] <= 1
  /\ tabulates_J0 bool_ops exG exw (fun _ _ => false) [1] exJ0
  /\ tabulates_F0 bool_ops exG exw (fun _ _ => false) [1] exF0
  /\ NoDup (map fst exJ0) /\ NoDup (map fst exF0) /\ NoDup [1] /\ (forall n, In n [1] <-> In n [1])
  /\ order_nonterminals_model iter_sorted (map fst exJ0) [1] = Some [1].
Proof.
  split; [reflexivity|]. split; [intros m [<-|[]]; reflexivity|].
  split; [repeat constructor; intros []|]. split; [cbn; lia|].
  split; [exact (proj1 (tabulates_single bool_ops exG exw (fun _ _ => false) 1))|].
  split; [exact (proj2 (tabulates_single bool_ops exG exw (fun _ _ => false) 1))|].
  split; [repeat constructor; intros []|]. split; [repeat constructor; intros []|].
  split; [repeat constructor; intros []|]. split; [tauto|]. vm_compute. reflexivity.
Qed.

Example linear_lfp_value :
  let sol := multi_solve_model bool_ops (lin_dims exG [1]) [1] false exJ0 exF0 in
  env_of_blocks bool_ops exG [1] sol 1 [1] = true /\ env_of_blocks bool_ops exG [1] sol 1 [0] = false.
Proof. vm_compute. split; reflexivity. Qed.
