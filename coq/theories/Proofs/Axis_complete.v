(** Completeness of [unify] on typed axes, bounded (stop-gap for the unbounded tier-B theorem):
    exhaustively, in the kernel, for
    (a) every pair of axes of every index type with <= 3 leaves and size <= 12 (atoms 2..4), and
    (b) every pair of two-dimensional patterns (shared variables = diagonals included) over the
        index types with <= 2 leaves and size <= 6,
    [unify] terminates within its fuel, does not warn, and either succeeds with a substitution
    denoting exactly the coincidence set of the two patterns, or fails and the patterns are
    disjoint. *)
From Coq Require Import List Arith Lia PeanoNat Bool PArith.
Import ListNotations.
Require Import Fggs.Model.Axis Fggs.Model.AxisCheck Fggs.Model.AxisEnum.
Require Import Fggs.Proofs.Axis_repr.

Lemma nat_list_eqb_eq a b : nat_list_eqb a b = true <-> a = b.
Proof.
  unfold nat_list_eqb. revert b. induction a as [|x a IH]; intros [|y b]; simpl; try (split; discriminate); [tauto|].
  rewrite andb_true_iff, Nat.eqb_eq, IH. split; [intros [-> ->]; reflexivity|intros H; inversion H; auto].
Qed.

(** meaning of the executable specification *)
Lemma coincidences_spec es fs vars tup :
  In tup (coincidences es fs vars) <->
  exists pi, In pi (all_envs vars) /\ evals (env_of pi) es = evals (env_of pi) fs /\
             tup = map (fun kn => env_of pi (fst kn)) vars.
Proof.
  unfold coincidences. rewrite in_map_iff. split.
  - intros (pi & E & H). apply filter_In in H. destruct H as [H1 H2]. exists pi. split; [exact H1|].
    split; [apply nat_list_eqb_eq; exact H2|symmetry; exact E].
  - intros (pi & H1 & H2 & ->). exists pi. split; [reflexivity|]. apply filter_In. split; [exact H1|].
    apply nat_list_eqb_eq. exact H2.
Qed.

Definition unify_complete (es fs : list axis) (next : positive) : Prop :=
  let vars := fvn_list (es ++ fs) in
  exists ok st, unify_list (unify_fuel es fs) es fs {| us_subst := []; us_next := next; us_warn := false |} = Ok (ok, st) /\
    us_warn st = false /\
    if ok
    then exists d, denotation (unify_fuel es fs + length (us_subst st) + 2) (us_subst st) vars = Some d /\
                   (forall tup, In tup d <-> In tup (coincidences es fs vars))
    else coincidences es fs vars = [].

Lemma unify_complete_b_sound es fs next : unify_complete_b es fs next = true -> unify_complete es fs next.
Proof.
  unfold unify_complete_b, unify_complete. intros H.
  destruct (unify_list _ es fs _) as [[[|] st]|]; [| |discriminate].
  - exists true, st. split; [reflexivity|]. apply andb_true_iff in H. destruct H as [Hw H].
    split; [apply negb_true_iff; exact Hw|].
    destruct (denotation _ _ _) as [d|]; [|discriminate]. exists d. split; [reflexivity|].
    apply (seteq_In nat_list_eqb nat_list_eqb_eq). exact H.
  - exists false, st. split; [reflexivity|]. apply andb_true_iff in H. destruct H as [Hw H].
    split; [apply negb_true_iff; exact Hw|].
    destruct (coincidences es fs (fvn_list (es ++ fs))); [reflexivity|discriminate].
Qed.

Lemma complete_types_upto12_b : forallb complete_for_type (types_upto 12) = true.
Proof. vm_compute. reflexivity. Qed.

Lemma complete_small2_b : forallb complete_for_types2 (list_prod small_types small_types) = true.
Proof. vm_compute. reflexivity. Qed.

(** (a) single axes, all index types with <= 3 leaves and size <= 12 *)
Theorem unify_complete_upto12 : forall t e f,
  In t (types_upto 12) -> In e (axes_of t 1) -> In f (axes_of t 50) ->
  has_type e t = true /\ has_type f t = true /\ unify_complete [e] [f] 100.
Proof.
  intros t e f Ht He Hf. pose proof complete_types_upto12_b as H. rewrite forallb_forall in H.
  specialize (H t Ht). unfold complete_for_type in H. rewrite forallb_forall in H.
  specialize (H (e, f) (in_prod _ _ _ _ He Hf)). simpl in H.
  apply andb_true_iff in H. destruct H as [H H3]. apply andb_true_iff in H. destruct H as [H1 H2].
  split; [exact H1|]. split; [exact H2|]. apply unify_complete_b_sound. exact H3.
Qed.

(** (b) two-dimensional patterns with shared variables over the small index types *)
Theorem unify_complete_2d_upto6 : forall t1 t2 es fs,
  In t1 small_types -> In t2 small_types ->
  In es (patterns2 t1 t2 1) -> In fs (patterns2 t1 t2 50) -> unify_complete es fs 100.
Proof.
  intros t1 t2 es fs H1 H2 He Hf. pose proof complete_small2_b as H. rewrite forallb_forall in H.
  specialize (H (t1, t2) (in_prod _ _ _ _ H1 H2)). unfold complete_for_types2 in H. rewrite forallb_forall in H.
  specialize (H (es, fs) (in_prod _ _ _ _ He Hf)). simpl in H.
  apply andb_true_iff in H. destruct H as [_ H3]. apply unify_complete_b_sound. exact H3.
Qed.

Example unify_complete_nonvacuous :
  existsb (ity_eqb (TProd [TAtom 2; TSum [TAtom 2; TAtom 3]])) (types_upto 12) = true /\
  existsb (axis_eqb (Prod [Phys 1 2; Sum 2 (Phys 2 3) 0])) (axes_of (TProd [TAtom 2; TSum [TAtom 2; TAtom 3]]) 1) = true /\
  (2000 <? length (flat_map (fun t => typed_pairs t) (types_upto 12))) = true /\
  (1000 <? length (flat_map (fun tt => list_prod (patterns2 (fst tt) (snd tt) 1) (patterns2 (fst tt) (snd tt) 50))
                            (list_prod small_types small_types))) = true.
Proof. vm_compute. repeat split; reflexivity. Qed.
