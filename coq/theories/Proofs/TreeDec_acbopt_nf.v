(** The NORMAL FORM that the Arnborg-Corneil-Proskurowski dynamic programme searches, derived from
    an elimination order of width <= k (which exists iff a tree decomposition of width <= k exists:
    TreeDec_tw.v / TreeDec_lower.v).

    [top_separator] (the root of the k-tree embedding): if tw(g) <= k and g has at least k+2
    vertices then some k-subset [i0] of the vertices -- literally one of
    [itertools.combinations(g, k)] -- separates g (two vertices x, u outside it lie in no common
    component of g - i0), and every component of g - i0 is k-eliminable.
    (Take an optimal order pi = pi1 ++ x :: B with |B| = k+1: when x is eliminated only B is
    left, x has at most k neighbours there, so some u in B is not adjacent to x; i0 = B - u.)

    [nf_step] (one step down the k-tree): if C is a k-eliminable component of g - i, |i| = k,
    |C| >= 2, then for some v in C (the LAST vertex of an elimination order of C; i + v is a bag
    of exactly k+1 vertices) every component D of g - (i+v) inside C is again k-eliminable, and
    some u in i has no neighbour in D -- so D is a component of g - m for the k-separator
    m = i + v - u, which is how the programme finds it ("components attached through
    k-separators"). *)
From Coq Require Import List Arith Bool PeanoNat Lia Permutation.
Import ListNotations.
Require Import Fggs.Model.TreeDec Fggs.Proofs.TreeDec_graph Fggs.Proofs.TreeDec_tdok
               Fggs.Proofs.TreeDec_elim Fggs.Proofs.TreeDec_qbb Fggs.Proofs.TreeDec_tw
               Fggs.Proofs.TreeDec_complete Fggs.Proofs.TreeDec_lower
               Fggs.Proofs.TreeDec_rtree Fggs.Proofs.TreeDec_cc Fggs.Proofs.TreeDec_acb
               Fggs.Proofs.TreeDec_acbopt_cc Fggs.Proofs.TreeDec_acbopt_elim.

(** * [itertools.combinations] *)
Lemma filter_in_combinations (p : nat -> bool) l :
  In (filter p l) (combinations l (length (filter p l))).
Proof.
  induction l as [|x l IH]; cbn [filter].
  - cbn. auto.
  - destruct (p x).
    + cbn [length combinations]. apply in_or_app. left. apply in_map. exact IH.
    + destruct (length (filter p l)) as [|n] eqn:E.
      * destruct (filter p l); [|discriminate]. cbn. auto.
      * cbn [combinations]. apply in_or_app. right. exact IH.
Qed.

Lemma seteq_set_eqb a b : (forall x, In x a <-> In x b) -> set_eqb a b = true.
Proof.
  intro E. unfold set_eqb. apply andb_true_iff. split; apply subset_incl; intros x Hx; now apply E.
Qed.

Lemma FOP_app {A} (R : A -> A -> Prop) a b :
  ForallOrdPairs R a -> ForallOrdPairs R b -> (forall x y, In x a -> In y b -> R x y) ->
  ForallOrdPairs R (a ++ b).
Proof.
  induction 1 as [|x a Hx Ha IH]; intros Hb Hab; cbn; auto.
  constructor.
  - apply Forall_app. split; auto. apply Forall_forall. intros y Hy. apply Hab; cbn; auto.
  - apply IH; auto. intros p q Hp Hq. apply Hab; cbn; auto.
Qed.
Lemma FOP_In {A} (R : A -> A -> Prop) l a b :
  ForallOrdPairs R l -> In a l -> In b l -> a = b \/ R a b \/ R b a.
Proof.
  induction 1 as [|x l Hx Hl IH]; intros Ha Hb; [destruct Ha|].
  rewrite Forall_forall in Hx.
  destruct Ha as [->|Ha]; destruct Hb as [->|Hb]; auto.
Qed.

(** different combinations are different as sets *)
Lemma combinations_distinct l : NoDup l ->
  forall k, ForallOrdPairs (fun a b => set_eqb a b = false) (combinations l k).
Proof.
  induction l as [|x l IH]; intros Nd k.
  - destruct k; cbn; repeat constructor.
  - inversion Nd as [|? ? Hx Nl]; subst. destruct k as [|k]; [cbn; repeat constructor|].
    cbn [combinations]. apply FOP_app.
    + apply FOP_map. eapply FOP_impl; [|apply (IH Nl k)]. cbn beta. intros a b Ha Hb Hab.
      destruct (combinations_spec l k a Ha) as [_ [Ia _]].
      destruct (combinations_spec l k b Hb) as [_ [Ib _]].
      apply not_true_is_false. intro E. rewrite seteq_set_eqb in Hab; [discriminate|].
      intro y. pose proof (set_eqb_In _ _ y E) as Hy. cbn [In] in Hy. split; intro H.
      * assert (x = y \/ In y b) as [->|] by (apply Hy; auto); auto. exfalso. apply Hx. auto.
      * assert (x = y \/ In y a) as [->|] by (apply Hy; auto); auto. exfalso. apply Hx. auto.
    + apply (IH Nl).
    + intros a b Ha Hb. apply in_map_iff in Ha. destruct Ha as [a' [<- Ha']].
      destruct (combinations_spec l (S k) b Hb) as [_ [Ib _]].
      rewrite set_eqb_sym. apply (set_eqb_false_wit b (x :: a') x); [cbn; auto|].
      intro H. apply Hx. auto.
Qed.

(** * the root separator *)
Theorem top_separator g k : wf_graph g -> tw_perm g <= k -> k + 2 <= length g ->
  exists i0 x u, In i0 (combinations (gverts g) k) /\
     In x (gverts g) /\ In u (gverts g) /\ ~ In x i0 /\ ~ In u i0 /\
     (forall D, compP g i0 D -> In x D -> ~ In u D) /\
     (forall D, compP g i0 D -> kelim g k D).
Proof.
  intros W Htw Hn.
  destruct (tw_perm_attained g) as [pi [P E]].
  assert (Npi : NoDup pi) by (eapply Permutation_NoDup; [apply Permutation_sym; exact P|apply W]).
  assert (Lpi : length pi = length g).
  { rewrite (Permutation_length P). unfold gverts. apply map_length. }
  set (n1 := length g - (k + 2)).
  assert (Epi : pi = firstn n1 pi ++ skipn n1 pi) by (symmetry; apply firstn_skipn).
  assert (L1 : length (firstn n1 pi) = n1) by (rewrite firstn_length; lia).
  assert (L2 : length (skipn n1 pi) = k + 2) by (rewrite skipn_length; lia).
  set (pi1 := firstn n1 pi) in *. clearbody pi1.
  destruct (skipn n1 pi) as [|x B]; [cbn in L2; lia|].
  assert (LB : length B = k + 1) by (cbn in L2; lia).
  rewrite Epi in Npi. apply NoDup_app_iff in Npi. destruct Npi as [N1 [N2 N3]].
  apply NoDup_cons_iff in N2. destruct N2 as [HxB NB].
  assert (Hin : forall y, In y (gverts g) <-> In y pi1 \/ y = x \/ In y B).
  { intro y. split; intro H.
    - eapply Permutation_in in H; [|apply Permutation_sym; exact P]. rewrite Epi in H.
      apply in_app_or in H. destruct H as [H|[H|H]]; auto.
    - eapply Permutation_in; [exact P|]. rewrite Epi. apply in_or_app.
      destruct H as [H|[H|H]]; [left; auto|right; left; auto|right; right; auto]. }
  set (g1 := elim_seq g pi1).
  assert (W1 : wf_graph g1) by (apply wf_elim_seq; exact W).
  assert (Hw : elim_width g pi = Nat.max (elim_width g pi1) (elim_width g1 (x :: B))).
  { rewrite Epi at 1. apply elim_width_app. }
  cbn [elim_width] in Hw.
  assert (Hg1 : forall y, In y (gverts g1) <-> y = x \/ In y B).
  { intro y. unfold g1. rewrite gverts_elim_seq_In, Hin. split.
    - intros [[H|H] Hn']; [contradiction|exact H].
    - intro H. split; [right; exact H|]. intro H1. apply (N3 y H1). destruct H as [->|H]; cbn; auto. }
  assert (Hnx : incl (nbrs g1 x) B).
  { intros y Hy. pose proof (wf_closed g1 W1 x y Hy) as H. apply Hg1 in H. destruct H as [->|H]; auto.
    exfalso. exact (wf_irrefl g1 W1 x Hy). }
  destruct (incl_dec_find B (nbrs g1 x)) as [Hall|[u [HuB Hun]]].
  { exfalso. apply NoDup_incl_length in Hall; auto. unfold deg in Hw. lia. }
  set (p := fun y => mem y B && negb (y =? u)).
  set (i0 := filter p (gverts g)).
  assert (Hi0 : forall y, In y i0 <-> In y B /\ y <> u).
  { intro y. unfold i0, p. rewrite filter_In, andb_true_iff, negb_true_iff, Nat.eqb_neq, mem_In, Hin. tauto. }
  assert (Li0 : length i0 = k).
  { assert (L : length i0 = length (set_remove u B)).
    { apply NoDup_same_length.
      - apply NoDup_filter, W.
      - now apply set_remove_NoDup.
      - intro y. rewrite Hi0, set_remove_In. tauto. }
    pose proof (set_remove_length u B NB HuB). lia. }
  assert (Hxu : x <> u) by (intro Exu; apply HxB; rewrite Exu; exact HuB).
  exists i0, x, u.
  split. { pose proof (filter_in_combinations p (gverts g)) as H. fold i0 in H. now rewrite Li0 in H. }
  split. { apply Hin. auto. }
  split. { apply Hin. auto. }
  split. { rewrite Hi0. tauto. }
  split. { rewrite Hi0. tauto. }
  assert (Hx1 : ~ In x pi1) by (intro H; apply (N3 x H); cbn; auto).
  assert (Hu1 : ~ In u pi1) by (intro H; apply (N3 u H); cbn; auto).
  split.
  - (* x and u are separated *)
    intros D [CD KD] HxD HuD.
    pose proof (conn_elim_seq pi1 g (inl D) W KD) as K1. fold g1 in K1.
    assert (Wk : walk (adjin g1 (fun z => inl D z /\ ~ In z pi1)) x u) by (apply K1; split; auto).
    inversion Wk as [|? c ? [_ [[HcD Hc1] Hxc]] _]; subst; [congruence|].
    destruct (co_out g i0 D CD c HcD) as [HcV Hci].
    apply Hin in HcV. destruct HcV as [H|[->|H]]; [contradiction|exact (wf_irrefl g1 W1 x Hxc)|].
    destruct (Nat.eq_dec c u) as [->|Hcu]; [contradiction|]. apply Hci. apply Hi0. auto.
  - (* every component is k-eliminable *)
    intros D [CD KD].
    set (pis := pi1 ++ [x; u]).
    assert (Nps : NoDup pis).
    { apply NoDup_app_iff. split; auto. split.
      - constructor; [intros [H|[]]; congruence|constructor; [intros []|constructor]].
      - intros y Hy [<-|[<-|[]]]; contradiction. }
    assert (Hav : forall y, In y pis -> ~ In y i0).
    { intros y Hy. rewrite Hi0. apply in_app_or in Hy. destruct Hy as [Hy|[<-|[<-|[]]]]; [|tauto|tauto].
      intros [H _]. apply (N3 y Hy). cbn; auto. }
    assert (Hws : elim_width g pis <= k).
    { unfold pis. rewrite elim_width_app. fold g1. cbn [elim_width].
      assert (HxV : In x (gverts g1)) by (apply Hg1; auto).
      pose proof (length_eliminate g1 x (wf_keys g1 W1) HxV) as Le.
      assert (Lg1 : length g1 + length pi1 = length g).
      { apply length_elim_seq; auto; [apply W|]. intros y Hy. apply Hin. auto. }
      assert (HuV : In u (gverts (eliminate_node g1 x))).
      { rewrite gverts_eliminate. apply set_remove_In. split; [apply Hg1; auto|auto]. }
      pose proof (deg_lt_length _ u (wf_eliminate g1 x W1) HuV). lia. }
    exists (filter (fun z => mem z D) pis). split; [now apply NoDup_filter|]. split.
    + intro z. rewrite filter_In, mem_In. split; [tauto|]. intro Hz. split; auto.
      destruct (co_out g i0 D CD z Hz) as [HzV Hzi]. apply Hin in HzV. unfold pis. apply in_or_app.
      destruct HzV as [H|[->|H]]; [auto|right; cbn; auto|].
      destruct (Nat.eq_dec z u) as [->|Hzu]; [right; cbn; auto|]. exfalso. apply Hzi. apply Hi0. auto.
    + etransitivity; [|exact Hws]. apply (restrict_order_closed g i0 D pis W); auto.
      * exact (co_closed g i0 D CD).
      * intros z Hz. apply (co_out g i0 D CD z Hz).
Qed.

(** * one step of the normal form *)
Theorem nf_step g k i C : wf_graph g -> NoDup i -> length i = k ->
  compP g i C -> 2 <= length C -> kelim g k C ->
  exists v, In v C /\ forall D, compP g (set_add v i) D -> incl D C ->
     kelim g k D /\ exists u, In u i /\ forall x, In x D -> ~ In u (nbrs g x).
Proof.
  intros W Ni Li [CC KC] L2 [pi [Npi [Epi Hwpi]]].
  assert (Lpi : length pi = length C).
  { apply NoDup_same_length; auto. apply (co_nodup g i C CC). }
  destruct (exists_last (l := pi)) as [pi' [v Epi']]; [intro; subst; cbn in Lpi; lia|].
  subst pi. apply NoDup_app_iff in Npi. destruct Npi as [N1 [_ N3]].
  assert (HvC : In v C) by (apply Epi; apply in_or_app; right; cbn; auto).
  assert (Hvi : ~ In v i) by (apply (co_out g i C CC v HvC)).
  assert (Hw' : elim_width g pi' <= k) by (pose proof (elim_width_prefix g pi' [v]); lia).
  exists v. split; auto. intros D [CD KD] HDC.
  set (bg := set_add v i) in *.
  assert (Hbg : forall y, In y bg <-> y = v \/ In y i) by (intro y; apply set_add_In).
  assert (HDpi : forall x, In x D -> In x pi').
  { intros x Hx. pose proof (HDC x Hx) as H. apply Epi in H. apply in_app_or in H.
    destruct H as [H|[E|[]]]; auto. exfalso. apply (co_out g bg D CD x Hx). apply Hbg. left. now symmetry. }
  assert (Hav : forall y, In y pi' -> ~ In y bg).
  { intros y Hy Hb. apply Hbg in Hb. destruct Hb as [->|Hb].
    - apply (N3 v Hy). cbn; auto.
    - assert (HyC : In y C) by (apply Epi; apply in_or_app; auto). apply (co_out g i C CC y HyC). exact Hb. }
  set (piD := filter (fun z => mem z D) pi').
  assert (NpD : NoDup piD) by (apply NoDup_filter; exact N1).
  assert (EpD : forall x, In x piD <-> In x D).
  { intro x. unfold piD. rewrite filter_In, mem_In. split; [tauto|]. auto. }
  assert (HwD : elim_width g piD <= k).
  { etransitivity; [|exact Hw'].
    exact (restrict_order_closed g bg D pi' W (co_closed g bg D CD)
             (fun z Hz => proj2 (co_out g bg D CD z Hz)) Hav). }
  split; [exists piD; auto|].
  (* the last vertex d of D sees every outside neighbour of D: at most k of them *)
  destruct (exists_last (l := piD)) as [rho [d Erho]].
  { intro E0. destruct D as [|x0 D0]; [exact (co_ne g bg _ CD eq_refl)|].
    assert (H : In x0 piD) by (apply EpD; cbn; auto). rewrite E0 in H. destruct H. }
  rewrite Erho in NpD, EpD, HwD. apply NoDup_app_iff in NpD. destruct NpD as [Nr [_ Nr3]].
  set (gr := elim_seq g rho).
  assert (Hdeg : deg gr d <= k).
  { rewrite elim_width_app in HwD. fold gr in HwD. cbn [elim_width] in HwD. lia. }
  assert (HdD : In d D) by (apply EpD; apply in_or_app; right; cbn; auto).
  assert (Sees : forall w, ~ In w D -> (exists x, In x D /\ In w (nbrs g x)) -> In w (nbrs gr d)).
  { intros w Hw Hex. apply (last_sees_all rho g (inl D) d); auto.
    - intro H. apply (Nr3 d H). cbn; auto.
    - intros x Hx. apply EpD. apply in_or_app. auto.
    - intros x Hx. apply EpD in Hx. apply in_app_or in Hx. destruct Hx as [Hx|[<-|[]]]; auto. }
  assert (Wr : wf_graph gr) by (apply wf_elim_seq; exact W).
  destruct (incl_dec_find i (nbrs gr d)) as [Hall|[u [Hui Hun]]].
  - (* all of i adjacent to D: then v is not, D is closed in g - i, so D = C contains v *)
    exfalso.
    assert (Hvn : ~ In v (nbrs gr d)).
    { intro Hv. assert (I : incl (v :: i) (nbrs gr d)) by (intros y [<-|Hy]; auto).
      apply NoDup_incl_length in I; [|constructor; auto].
      unfold deg in Hdeg. cbn [length] in I. lia. }
    assert (HvD : forall x, In x D -> ~ In v (nbrs g x)).
    { intros x Hx Hv. apply Hvn. apply Sees; [|eauto].
      intro HvD. apply (co_out g bg D CD v HvD). apply Hbg. auto. }
    assert (Hcl : closed_in g i D).
    { intros x y Hx Hy. destruct (co_closed g bg D CD x y Hx Hy) as [H|H]; auto.
      apply Hbg in H. destruct H as [->|H]; auto. exfalso. exact (HvD x Hx Hy). }
    assert (I : incl C D).
    { apply (conn_in_closed g i C D d); auto. intros y Hy. apply (co_out g i C CC y Hy). }
    apply (co_out g bg D CD v (I v HvC)). apply Hbg. auto.
  - exists u. split; auto. intros x Hx Hu. apply Hun. apply Sees; [|eauto].
    intro HuD. apply (co_out g bg D CD u HuD). apply Hbg. auto.
Qed.
