(** C02: the loop shape of [fixed_point] instantiated with the grammar's equations.  The states
    are environments, F = [step o G w], the start is zero: the loop's iterates are the Kleene
    iterates [Zk], and when an EXACT stopping test (one that implies equality on the range)
    ends the loop without warning, the returned value is the least fixed point: it is a fixed
    point on the range and below every pre-fixed point.  (DESIGN C02_bool_exact, second half:
    "with any kmax, warned = false -> the result is the least fixed point".) *)
From Coq Require Import List Arith Bool PeanoNat Lia Ring_theory.
Import ListNotations.
Require Import Fggs.Model.SCC Fggs.Model.SumProduct Fggs.Model.Kleene
               Fggs.Proofs.SP_mono Fggs.Proofs.Kleene_proofs Fggs.Proofs.Kleene_control Fggs.Model.Semiring.

Section FixpointLoop.
Context {R : Type} (o : sr_ops R).
Hypothesis Hr : sr_ring o.
Hypothesis Ho : sr_ordered o.

Lemma iter_step_Zk G w k : iter k (step o G w) (zero_env o) = Zk o G w k.
Proof. induction k as [|k IH]; cbn [iter Zk]; [reflexivity | rewrite IH; reflexivity]. Qed.

(** a Kleene iterate that is a fixed point (on the range) is the least one *)
Theorem Zk_fixed_is_least G w k :
  wf_grammar G = true ->
  env_eq_on G (Zk o G w k) (Zk o G w (S k)) ->
  env_eq_on G (step o G w (Zk o G w k)) (Zk o G w k)
  /\ (forall v : env (R:=R), env_le_on o G (step o G w v) v -> env_le_on o G (Zk o G w k) v)
  /\ (forall j, env_le_on o G (Zk o G w j) (Zk o G w k)).
Proof.
  intros Hwf Hfix. split; [|split].
  - intros X xi HX Hxi. symmetry. apply (Hfix X xi HX Hxi).
  - intros v Hv. apply (park_on o Hr Ho G w v Hwf Hv k).
  - intros j. apply (park_on o Hr Ho G w (Zk o G w k) Hwf).
    intros X xi HX Hxi. change (step o G w (Zk o G w k) X xi) with (Zk o G w (S k) X xi).
    rewrite <- (Hfix X xi HX Hxi). apply (le_refl o Ho).
Qed.

(** the loop of [fixed_point] on the grammar's equations from zero, with a stopping test that is
    exact on the range (Boolean / integer-weight Viterbi runs: allclose on equal values) *)
Theorem fixed_point_quiet_is_lfp G w (close : env (R:=R) -> env (R:=R) -> bool) kmax y0 y1 :
  wf_grammar G = true ->
  (forall x y, close x y = true -> env_eq_on G x y) ->
  fixed_point_loop (step o G w) close kmax (zero_env o) = Some (y0, y1, false) ->
  exists k, k <= kmax /\ y0 = Zk o G w k /\ y1 = Zk o G w (S k)
    /\ env_eq_on G (step o G w y0) y0
    /\ (forall v : env (R:=R), env_le_on o G (step o G w v) v -> env_le_on o G y0 v)
    /\ (forall j, env_le_on o G (Zk o G w j) y0).
Proof.
  intros Hwf Hclose H.
  destruct (fixed_point_loop_quiet (step o G w) close kmax (zero_env o) y0 y1 H) as (Hc & Hy1 & k & Hk & Hy0).
  rewrite iter_step_Zk in Hy0. subst y0. exists k. split; [exact Hk|]. split; [reflexivity|].
  split; [exact Hy1|]. apply Zk_fixed_is_least; [exact Hwf|].
  subst y1. apply Hclose. exact Hc.
Qed.

(** and when it warns, what it returns is still a lower bound of every pre-fixed point: the
    warning is the only thing that distinguishes "converged" from "budget exhausted" *)
Theorem fixed_point_result_below_prefix G w (close : env (R:=R) -> env (R:=R) -> bool) kmax y0 y1 warned :
  wf_grammar G = true ->
  fixed_point_loop (step o G w) close kmax (zero_env o) = Some (y0, y1, warned) ->
  forall v : env (R:=R), env_le_on o G (step o G w v) v -> env_le_on o G y0 v /\ env_le_on o G y1 v.
Proof.
  intros Hwf H v Hv.
  destruct (fixed_point_loop_spec (step o G w) close kmax (zero_env o)) as (k & Hs & _).
  rewrite Hs in H. injection H as <- <- _.
  split; rewrite iter_step_Zk; [apply (park_on o Hr Ho G w v Hwf Hv k) | apply (park_on o Hr Ho G w v Hwf Hv (S k))].
Qed.
End FixpointLoop.

(** * Bool: the chain stabilises within N steps, N = number of cells *)
Section BoolHeight.
Variables (G : grammar) (w : env (R:=bool)).
Hypothesis Hwf : wf_grammar G = true.

Definition cells : list (nat * list nat) :=
  flat_map (fun X => map (pair X) (all_assts (lshape G X))) (nonterminals G).
Definition ncells : nat := length cells.
Definition cnt (x : env (R:=bool)) : nat := length (filter (fun c => x (fst c) (snd c)) cells).

Lemma in_cells X xi : In (X, xi) cells <-> In X (nonterminals G) /\ In xi (all_assts (lshape G X)).
Proof.
  unfold cells. rewrite in_flat_map. split.
  - intros (Y & HY & H). apply in_map_iff in H as (xj & E & Hxj). injection E as -> ->. auto.
  - intros [HX Hxi]. exists X. split; [exact HX|]. apply in_map. exact Hxi.
Qed.

Lemma filter_len_mono {A} (p q : A -> bool) (l : list A) :
  (forall a, In a l -> p a = true -> q a = true) -> length (filter p l) <= length (filter q l).
Proof.
  induction l as [|a l IH]; intros H; [apply Nat.le_refl|]. cbn [filter].
  assert (IH' : length (filter p l) <= length (filter q l)) by (apply IH; intros b Hb; apply H; right; exact Hb).
  destruct (p a) eqn:Ep.
  - rewrite (H a (or_introl eq_refl) Ep). cbn [length]. lia.
  - destruct (q a); cbn [length]; lia.
Qed.

Lemma filter_len_eq {A} (p q : A -> bool) (l : list A) :
  (forall a, In a l -> p a = true -> q a = true) -> length (filter p l) = length (filter q l) ->
  forall a, In a l -> p a = q a.
Proof.
  induction l as [|a l IH]; intros H Hlen b Hb; [destruct Hb|]. cbn [filter] in Hlen.
  assert (Hmono : length (filter p l) <= length (filter q l))
    by (apply filter_len_mono; intros c Hc; apply H; right; exact Hc).
  destruct (p a) eqn:Ep.
  - rewrite (H a (or_introl eq_refl) Ep) in Hlen. cbn [length] in Hlen.
    destruct Hb as [<-|Hb]; [rewrite Ep; symmetry; apply (H a (or_introl eq_refl) Ep)|].
    apply IH; [intros c Hc; apply H; right; exact Hc | lia | exact Hb].
  - destruct (q a) eqn:Eq; cbn [length] in Hlen; [lia|].
    destruct Hb as [<-|Hb]; [congruence|].
    apply IH; [intros c Hc; apply H; right; exact Hc | lia | exact Hb].
Qed.

Lemma filter_len_le {A} (p : A -> bool) (l : list A) : length (filter p l) <= length l.
Proof. induction l as [|a l IH]; cbn [filter length]; [lia|]. destruct (p a); cbn [length]; lia. Qed.

Lemma cnt_le_ncells x : cnt x <= ncells.
Proof. unfold cnt, ncells. apply filter_len_le. Qed.

Lemma cnt_mono x y : env_le_on bool_ops G x y -> cnt x <= cnt y.
Proof.
  intros H. unfold cnt. apply filter_len_mono. intros [X xi] Hc Hx. apply in_cells in Hc as [HX Hxi].
  apply (H X xi HX Hxi Hx).
Qed.

Lemma cnt_eq x y : env_le_on bool_ops G x y -> cnt x = cnt y -> env_eq_on G x y.
Proof.
  intros H Hc X xi HX Hxi.
  apply (filter_len_eq (fun c => x (fst c) (snd c)) (fun c => y (fst c) (snd c)) cells) with (a := (X, xi)).
  - intros [Y xj] Hin Hx. apply in_cells in Hin as [HY Hxj]. apply (H Y xj HY Hxj Hx).
  - exact Hc.
  - apply in_cells. auto.
Qed.

Lemma bool_chain_progress n :
  (exists k, k < n /\ cnt (Zk bool_ops G w k) = cnt (Zk bool_ops G w (S k))) \/ n <= cnt (Zk bool_ops G w n).
Proof.
  induction n as [|n IH]; [right; lia|].
  destruct IH as [(k & Hk & E)|Hn]; [left; exists k; split; [lia | exact E]|].
  pose proof (cnt_mono _ _ (env_le_le_on bool_ops G _ _ (Zk_chain bool_ops bool_sr_ring bool_sr_ordered G w n))) as Hm.
  destruct (Nat.eq_dec (cnt (Zk bool_ops G w n)) (cnt (Zk bool_ops G w (S n)))) as [E|E].
  - left. exists n. split; [lia | exact E].
  - right. lia.
Qed.

(** the Boolean Kleene chain reaches its fixed point after at most [ncells] steps *)
Theorem bool_chain_stabilises :
  exists k, k <= ncells /\ env_eq_on G (Zk bool_ops G w k) (Zk bool_ops G w (S k)).
Proof.
  destruct (bool_chain_progress (S ncells)) as [(k & Hk & E)|Hn].
  - exists k. split; [lia|]. apply cnt_eq; [|exact E].
    apply env_le_le_on. apply (Zk_chain bool_ops bool_sr_ring bool_sr_ordered).
  - pose proof (cnt_le_ncells (Zk bool_ops G w (S ncells))). lia.
Qed.

(** DESIGN C02_bool_exact: with an exact stopping test and kmax >= number of Boolean cells the
    loop of [fixed_point] does not warn and returns the least fixed point *)
Theorem bool_fixed_point_exact (close : env (R:=bool) -> env (R:=bool) -> bool) kmax :
  (forall x y, close x y = true <-> env_eq_on G x y) ->
  ncells <= kmax ->
  exists y0 y1 k,
    fixed_point_loop (step bool_ops G w) close kmax (zero_env bool_ops) = Some (y0, y1, false)
    /\ k <= ncells /\ y0 = Zk bool_ops G w k
    /\ env_eq_on G (step bool_ops G w y0) y0
    /\ (forall v : env (R:=bool), env_le_on bool_ops G (step bool_ops G w v) v -> env_le_on bool_ops G y0 v).
Proof.
  intros Hclose Hk.
  destruct (fixed_point_loop_spec (step bool_ops G w) close kmax (zero_env bool_ops)) as (k' & Hs & Hk' & Hfail & Hstop).
  destruct bool_chain_stabilises as (k & Hkn & Hst).
  assert (Hle : k' <= k).
  { destruct (le_lt_dec k' k) as [H|H]; [exact H|]. exfalso.
    specialize (Hfail k H). unfold fp_test in Hfail.
    rewrite (iter_step_Zk bool_ops G w (S k)), (iter_step_Zk bool_ops G w k) in Hfail.
    apply Hclose in Hst. congruence. }
  assert (Hw : (kmax <? k') = false) by (apply Nat.ltb_ge; lia).
  rewrite Hw in Hs.
  assert (Hfix : env_eq_on G (Zk bool_ops G w k') (Zk bool_ops G w (S k'))).
  { apply Hclose. assert (Hk'' : k' <= kmax) by lia. specialize (Hstop Hk''). unfold fp_test in Hstop.
    rewrite (iter_step_Zk bool_ops G w (S k')), (iter_step_Zk bool_ops G w k') in Hstop. exact Hstop. }
  rewrite (iter_step_Zk bool_ops G w (S k')), (iter_step_Zk bool_ops G w k') in Hs.
  exists (Zk bool_ops G w k'), (Zk bool_ops G w (S k')), k'.
  split; [exact Hs|]. split; [lia|]. split; [reflexivity|].
  destruct (Zk_fixed_is_least bool_ops bool_sr_ring bool_sr_ordered G w k' Hwf Hfix) as (H1 & H2 & _).
  split; [exact H1 | exact H2].
Qed.
End BoolHeight.
