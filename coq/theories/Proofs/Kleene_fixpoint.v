(** C02: the loop shape of [fixed_point] instantiated with the grammar's equations.  The states
    are environments, F = [step o G w], the start is zero: the loop's iterates are the Kleene
    iterates [Zk], and when an EXACT stopping test (one that implies equality on the range)
    ends the loop without warning, the returned value is the least fixed point: it is a fixed
    point on the range and below every pre-fixed point.  (DESIGN C02_bool_exact, second half:
    "with any kmax, warned = false -> the result is the least fixed point".) *)
From Coq Require Import List Arith Bool PeanoNat Lia Ring_theory.
Import ListNotations.
Require Import Fggs.Model.SCC Fggs.Model.SumProduct Fggs.Model.Kleene
               Fggs.Proofs.SP_mono Fggs.Proofs.Kleene_control Fggs.Model.Semiring.

Section FixpointLoop.
Context {R : Type} (o : sr_ops R).
Hypothesis Hr : sr_ring o.
Hypothesis Ho : sr_ordered o.

Lemma iter_step_Zk G w k : iter k (step o G w) (zero_env o) = Zk o G w k.
Proof. induction k as [|k IH]; cbn [iter Zk]; [reflexivity | rewrite IH; reflexivity]. Qed.

(** a Kleene iterate that is a fixed point (on the range) is the least one *)
Theorem Zk_fixed_is_least G w k :
  wf_grammar G = true ->
  env_eq_on G (Zk o G w k) (Zk o G w (S k)) ->
  env_eq_on G (step o G w (Zk o G w k)) (Zk o G w k)
  /\ (forall v : env (R:=R), env_le_on o G (step o G w v) v -> env_le_on o G (Zk o G w k) v)
  /\ (forall j, env_le_on o G (Zk o G w j) (Zk o G w k)).
Proof.
  intros Hwf Hfix. split; [|split].
  - intros X xi HX Hxi. symmetry. apply (Hfix X xi HX Hxi).
  - intros v Hv. apply (park_on o Hr Ho G w v Hwf Hv k).
  - intros j. apply (park_on o Hr Ho G w (Zk o G w k) Hwf).
    intros X xi HX Hxi. change (step o G w (Zk o G w k) X xi) with (Zk o G w (S k) X xi).
    rewrite <- (Hfix X xi HX Hxi). apply (le_refl o Ho).
Qed.

(** the loop of [fixed_point] on the grammar's equations from zero, with a stopping test that is
    exact on the range (Boolean / integer-weight Viterbi runs: allclose on equal values) *)
Theorem fixed_point_quiet_is_lfp G w (close : env (R:=R) -> env (R:=R) -> bool) kmax y0 y1 :
  wf_grammar G = true ->
  (forall x y, close x y = true -> env_eq_on G x y) ->
  fixed_point_loop (step o G w) close kmax (zero_env o) = Some (y0, y1, false) ->
  exists k, k <= kmax /\ y0 = Zk o G w k /\ y1 = Zk o G w (S k)
    /\ env_eq_on G (step o G w y0) y0
    /\ (forall v : env (R:=R), env_le_on o G (step o G w v) v -> env_le_on o G y0 v)
    /\ (forall j, env_le_on o G (Zk o G w j) y0).
Proof.
  intros Hwf Hclose H.
  destruct (fixed_point_loop_quiet (step o G w) close kmax (zero_env o) y0 y1 H) as (Hc & Hy1 & k & Hk & Hy0).
  rewrite iter_step_Zk in Hy0. subst y0. exists k. split; [exact Hk|]. split; [reflexivity|].
  split; [exact Hy1|]. apply Zk_fixed_is_least; [exact Hwf|].
  subst y1. apply Hclose. exact Hc.
Qed.

(** and when it warns, what it returns is still a lower bound of every pre-fixed point: the
    warning is the only thing that distinguishes "converged" from "budget exhausted" *)
Theorem fixed_point_result_below_prefix G w (close : env (R:=R) -> env (R:=R) -> bool) kmax y0 y1 warned :
  wf_grammar G = true ->
  fixed_point_loop (step o G w) close kmax (zero_env o) = Some (y0, y1, warned) ->
  forall v : env (R:=R), env_le_on o G (step o G w v) v -> env_le_on o G y0 v /\ env_le_on o G y1 v.
Proof.
  intros Hwf H v Hv.
  destruct (fixed_point_loop_spec (step o G w) close kmax (zero_env o)) as (k & Hs & _).
  rewrite Hs in H. injection H as <- <- _.
  split; rewrite iter_step_Zk; [apply (park_on o Hr Ho G w v Hwf Hv k) | apply (park_on o Hr Ho G w v Hwf Hv (S k))].
Qed.
End FixpointLoop.
