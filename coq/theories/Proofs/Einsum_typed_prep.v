(** C07 on typed operands, part 2: what [einsum] does to an operand before the unification loop --
    [default_to(zero)] (densification: [PatternedTensor(to_dense(), default=zero)]) and [freshen] --
    keeps it well formed and typed (in an extension of the typing context that gives the new
    physical axes the types of the index they stand for), keeps [st_ok], and does not change the
    dense tensor it denotes (this replaces the executable premise [cert_pre]). *)
From Coq Require Import List Arith Lia PeanoNat Bool PArith.
Import ListNotations.
Require Import Fggs.Model.Semiring.
Require Import Fggs.Model.Axis Fggs.Model.AxisCheck Fggs.Model.PTensor Fggs.Model.Einsum.
Require Import Fggs.Proofs.Axis_sem Fggs.Proofs.Axis_unify Fggs.Proofs.Axis_complete_gen Fggs.Proofs.Axis_typed Fggs.Proofs.Axis_total.
Require Import Fggs.Proofs.PTensor_sem Fggs.Proofs.PTensor_dense.
Require Import Fggs.Proofs.PTEqual_freshen Fggs.Proofs.PTEqual_dense Fggs.Proofs.PTEqual_typed Fggs.Proofs.PTEqual_typed_main.
Require Import Fggs.Proofs.Einsum_project.

(** * dense axes are typed by the types of their dimensions *)
Lemma ty_unit G : ty G unitAxis [].
Proof. apply ty_prod; [simpl; lia|constructor]. Qed.

Lemma tys_shape G es pss : tys G es pss -> map numel es = map tsizes pss.
Proof. induction 1 as [|e es ps pss He _ IH]; [reflexivity|]. simpl. rewrite (ty_numel _ _ _ He), IH. reflexivity. Qed.

Lemma dense_axes_typed : forall pss G next, ctx_good G -> ctx_below G next -> Forall gprimes pss ->
  exists G1, ctx_good G1 /\ ctx_below G1 (snd (dense_axes (map tsizes pss) next)) /\
    (next <= snd (dense_axes (map tsizes pss) next))%positive /\ ctx_ext next G G1 /\
    tys G1 (fst (dense_axes (map tsizes pss) next)) pss.
Proof.
  induction pss as [|ps pss IH]; intros G next CG CB Gp.
  - exists G. simpl. split; [exact CG|]. split; [exact CB|]. split; [lia|]. split; [apply ctx_ext_refl|constructor].
  - inversion Gp as [|? ? Gps Gpss]; subst. cbn [map dense_axes].
    destruct (Nat.eqb_spec (tsizes ps) 1) as [E1|N1].
    + destruct (IH G next CG CB Gpss) as (G1 & CG1 & CB1 & L1 & X1 & T1).
      destruct (dense_axes (map tsizes pss) next) as [r nx]. cbn [fst snd] in *.
      exists G1. split; [exact CG1|]. split; [exact CB1|]. split; [exact L1|]. split; [exact X1|].
      rewrite (gprimes_one ps Gps E1). constructor; [apply ty_unit|exact T1].
    + destruct (IH (upd_ctx G next ps) (Pos.succ next)) as (G1 & CG1 & CB1 & L1 & X1 & T1).
      { apply upd_ctx_good; assumption. } { apply upd_ctx_below. exact CB. } { exact Gpss. }
      destruct (dense_axes (map tsizes pss) (Pos.succ next)) as [r nx]. cbn [fst snd] in *.
      exists G1. split; [exact CG1|]. split; [exact CB1|]. split; [lia|]. split.
      * intros k Hk. rewrite (X1 k) by lia. apply upd_ctx_ext. exact Hk.
      * constructor; [|exact T1]. apply ty_phys'; [|intros ->; simpl in N1; lia|reflexivity].
        rewrite (X1 next) by lia. apply upd_ctx_same.
Qed.

(** strides of a contiguous tensor are positive *)
Lemma cstrides_nth_pos shp : forall i, nth i (cstrides shp) 1 <> 0.
Proof.
  induction shp as [|n shp IH]; intros i; [destruct i; simpl; lia|]. destruct i as [|i]; [|apply IH]. simpl.
  clear. induction shp as [|m shp IH]; simpl; [lia|]. nia.
Qed.

Lemma cstrides_length shp : length (cstrides shp) = length shp.
Proof. induction shp as [|n shp IH]; simpl; [reflexivity|rewrite IH; reflexivity]. Qed.

(** * the typing context of a freshened tensor *)
Section RenCtx.
Variable V : Type.
Variable u : ptensor V.
Variable G : ctx.
Variable next : positive.
Hypothesis W : wf V u.
Hypothesis CG : ctx_good G.
Hypothesis CB : ctx_below G next.

Let g := ren_of (new_rename (paxes u) next).

Definition ren_ctx : ctx := fun k' =>
  if Pos.ltb k' next then G k'
  else match find (fun kn : pn => Pos.eqb (g (fst kn)) k') (paxes u) with
       | Some kn => G (fst kn)
       | None => []
       end.

Lemma ren_g_ge k n : In (k, n) (paxes u) -> (next <= g k)%positive /\ In (g k, n) (new_pn (paxes u) next).
Proof.
  intros Hk. destruct (new_rename_assoc (paxes u) next k n (wf_nodup V u W) Hk) as (k' & E & L & I).
  unfold g, ren_of. rewrite E. auto.
Qed.

Lemma ren_ctx_new k n : In (k, n) (paxes u) -> ren_ctx (g k) = G k.
Proof.
  intros Hk. destruct (ren_g_ge k n Hk) as [L _]. unfold ren_ctx.
  destruct (Pos.ltb_spec (g k) next) as [Lt|_]; [lia|].
  destruct (find _ (paxes u)) as [[k1 n1]|] eqn:F.
  - apply find_some in F. destruct F as [F1 F2]. apply Pos.eqb_eq in F2. cbn [fst] in *.
    f_equal. eapply (ren_inj (paxes u) next); eauto. apply (wf_nodup V u W).
  - exfalso. apply (find_none _ _ F (k, n)) in Hk. simpl in Hk. rewrite Pos.eqb_refl in Hk. discriminate.
Qed.

Lemma ren_ctx_good : ctx_good ren_ctx.
Proof.
  intros k. unfold ren_ctx. destruct (Pos.ltb k next); [apply CG|].
  destruct (find _ (paxes u)) as [kn|]; [apply CG|constructor].
Qed.

Lemma pos_after_mono m : forall nx, (nx <= pos_after nx m)%positive.
Proof. induction m as [|m IH]; intros nx; simpl; [lia|]. specialize (IH (Pos.succ nx)). lia. Qed.

Lemma ren_ctx_below : ctx_below ren_ctx (snd (pt_freshen V next u)).
Proof.
  intros k Hk. rewrite (pt_freshen_next V u next W) in Hk.
  pose proof (pos_after_mono (length (paxes u)) next).
  unfold ren_ctx. destruct (Pos.ltb_spec k next) as [Lt|_]; [lia|].
  destruct (find _ (paxes u)) as [[k1 n1]|] eqn:F; [|reflexivity]. exfalso.
  apply find_some in F. destruct F as [F1 F2]. apply Pos.eqb_eq in F2. cbn [fst] in F2. subst k.
  destruct (ren_g_ge k1 n1 F1) as [_ I]. apply new_pn_keys_lt in I. lia.
Qed.

Lemma ren_ctx_ext : ctx_ext next G ren_ctx.
Proof. intros k Hk. unfold ren_ctx. destruct (Pos.ltb_spec k next); [reflexivity|lia]. Qed.

Lemma ren_next_le : (next <= snd (pt_freshen V next u))%positive.
Proof. rewrite (pt_freshen_next V u next W). apply pos_after_mono. Qed.

Lemma ren_tys pss : tys G (vaxes u) pss -> tys ren_ctx (vaxes (fst (pt_freshen V next u))) pss.
Proof.
  intros T. rewrite (pt_freshen_vaxes V u next W). apply (tys_rename G); [exact T|].
  intros k Hk. apply (fv_paxes V u W) in Hk. apply in_map_iff in Hk. destruct Hk as ([k' n] & <- & Hk). simpl.
  eapply ren_ctx_new; eauto.
Qed.

Lemma ren_keys_range k : In k (map fst (paxes (fst (pt_freshen V next u)))) ->
  (next <= k)%positive /\ (k < snd (pt_freshen V next u))%positive.
Proof.
  intros H. split; [exact (pt_freshen_fresh V u next W k H)|exact (pt_freshen_keys_lt V u next W k H)].
Qed.
End RenCtx.

(** * operands *)
Section Prep.
Context {R : Type}.
Notation stensor := (stensor (R:=R)).
Variable lty : nat -> list ity.
Hypothesis Hlty : forall l, gprimes (lty l).

Definition op_typed (G : ctx) (t : stensor) (inp : list nat) : Prop :=
  wf R (st_pt t) /\ tys G (vaxes (st_pt t)) (map lty inp) /\ st_ok t.

Definition same_dense (t t1 : ptensor R) : Prop :=
  shape R t1 = shape R t /\ forall idx, in_bounds (shape R t) idx -> denote R t1 idx = denote R t idx.

Lemma same_dense_refl t : same_dense t t.
Proof. split; [reflexivity|intros; reflexivity]. Qed.

Lemma same_dense_trans a b c : same_dense a b -> same_dense b c -> same_dense a c.
Proof.
  intros [S1 D1] [S2 D2]. split; [congruence|]. intros idx B. rewrite D2 by (rewrite S1; exact B). apply D1. exact B.
Qed.

Lemma lty_all inp : Forall gprimes (map lty inp).
Proof. apply Forall_forall. intros ps H. apply in_map_iff in H. destruct H as (l & <- & _). apply Hlty. Qed.

Lemma op_typed_ext G G' nx t inp : ctx_below G nx -> ctx_ext nx G G' -> op_typed G t inp -> op_typed G' t inp.
Proof. intros CB X (W & T & S). split; [exact W|]. split; [eapply tys_ext; eauto|exact S]. Qed.

Lemma op_typed_keys_below G nx t inp : ctx_below G nx -> op_typed G t inp ->
  forall k, In k (map fst (paxes (st_pt t))) -> (k < nx)%positive.
Proof.
  intros CB (W & T & _) k Hk. apply in_map_iff in Hk. destruct Hk as ([k' n] & <- & Hk). apply (wf_fv R _ W) in Hk.
  destruct (tys_sized G _ _ T k' n Hk) as [_ Gk]. simpl.
  destruct (Pos.ltb_spec k' nx) as [Lt|Ge]; [exact Lt|]. exfalso. apply Gk. apply CB. exact Ge.
Qed.

(** [default_to(d)] *)
Lemma st_default_to_typed (veqb : R -> R -> bool) (Hveqb : forall a b, veqb a b = true -> a = b)
      genabled d G next t inp t1 nx1 :
  ctx_good G -> ctx_below G next -> op_typed G t inp ->
  st_default_to veqb genabled d next t = (t1, nx1) ->
  exists G1, ctx_good G1 /\ ctx_below G1 nx1 /\ (next <= nx1)%positive /\ ctx_ext next G G1 /\ op_typed G1 t1 inp /\
    default (st_pt t1) = d /\ same_dense (st_pt t) (st_pt t1).
Proof.
  intros CG CB (W & T & S) H. unfold st_default_to in H. destruct (veqb (default (st_pt t)) d) eqn:Ev.
  - inversion H; subst. exists G. split; [exact CG|]. split; [exact CB|]. split; [lia|]. split; [apply ctx_ext_refl|].
    split; [split; [exact W|split; [exact T|exact S]]|]. split; [apply Hveqb; exact Ev|apply same_dense_refl].
  - pose proof (pt_of_dense_eq R (shape R (st_pt t)) (denote R (st_pt t)) d next) as Eq.
    pose proof (pt_of_dense_wf R (shape R (st_pt t)) (denote R (st_pt t)) d next) as Wp.
    pose proof (pt_of_dense_shape R (shape R (st_pt t)) (denote R (st_pt t)) d next) as Sp.
    pose proof (pt_of_dense_denote R (shape R (st_pt t)) (denote R (st_pt t)) d next) as Dp.
    assert (Enx : snd (pt_of_dense R (shape R (st_pt t)) (denote R (st_pt t)) d next) = snd (dense_axes (shape R (st_pt t)) next)).
    { unfold pt_of_dense. destruct (dense_axes _ _) as [vs nx]. reflexivity. }
    destruct (pt_of_dense R (shape R (st_pt t)) (denote R (st_pt t)) d next) as [p nx] eqn:Ep. cbn [fst snd] in *.
    inversion H; subst t1 nx1. clear H. cbn [st_pt].
    assert (Esh : shape R (st_pt t) = map tsizes (map lty inp)) by (unfold shape; apply (tys_shape G); exact T).
    destruct (dense_axes_typed (map lty inp) G next CG CB (lty_all inp)) as (G1 & CG1 & CB1 & L1 & X1 & T1).
    rewrite <- Esh in CB1, L1, T1. rewrite <- Enx in CB1, L1.
    exists G1. split; [exact CG1|]. split; [exact CB1|]. split; [exact L1|]. split; [exact X1|].
    split; [split; [exact Wp|split]|split].
    + rewrite Eq. cbn [vaxes]. exact T1.
    + split; cbn [st_pstr st_pt].
      * rewrite cstrides_length, map_length. reflexivity.
      * intros i idx v Hn _. exfalso. cbn [st_pstr] in Hn. exact (cstrides_nth_pos _ i Hn).
    + rewrite Eq. reflexivity.
    + split; [exact Sp|exact Dp].
Qed.

(** [freshen] *)
Lemma st_freshen_typed G next (t : stensor) inp t1 nx1 :
  ctx_good G -> ctx_below G next -> op_typed G t inp ->
  st_freshen next t = (t1, nx1) ->
  exists G1, ctx_good G1 /\ ctx_below G1 nx1 /\ (next <= nx1)%positive /\ ctx_ext next G G1 /\ op_typed G1 t1 inp /\
    default (st_pt t1) = default (st_pt t) /\ same_dense (st_pt t) (st_pt t1) /\
    (forall k, In k (map fst (paxes (st_pt t1))) -> (next <= k)%positive /\ (k < nx1)%positive).
Proof.
  intros CG CB (W & T & [SL SB]) H. unfold st_freshen in H.
  pose proof (pt_freshen_eq R (st_pt t) next W) as Eq.
  pose proof (pt_freshen_wf R (st_pt t) next W) as Wp.
  pose proof (ren_ctx_below R (st_pt t) G next W) as CB1.
  pose proof (ren_next_le R (st_pt t) next W) as L1.
  pose proof (ren_tys R (st_pt t) G next W (map lty inp) T) as T1.
  pose proof (ren_keys_range R (st_pt t) next W) as K1.
  pose proof (pt_freshen_shape R (st_pt t) next W) as Sp.
  pose proof (pt_freshen_denote R (st_pt t) next W) as Dp.
  destruct (pt_freshen R next (st_pt t)) as [p nx] eqn:Ep. cbn [fst snd] in *. inversion H; subst t1 nx1. clear H. cbn [st_pt].
  exists (ren_ctx R (st_pt t) G next). split; [apply ren_ctx_good; exact CG|]. split; [exact CB1|]. split; [exact L1|].
  split; [apply ren_ctx_ext|]. split; [split; [exact Wp|split; [exact T1|]]|split; [|split]].
  - split; cbn [st_pstr st_pt st_rg].
    + rewrite SL, Eq. cbn [paxes]. clear. generalize next. induction (paxes (st_pt t)) as [|[k n] ps IH]; intros nx; [reflexivity|].
      simpl. rewrite <- IH. reflexivity.
    + intros i idx v Hn Hi. cbn [st_pstr st_pt] in *. rewrite Eq. cbn [physical]. apply SB; assumption.
  - rewrite Eq. reflexivity.
  - split; [exact Sp|]. intros idx B. apply Dp. apply Forall2_len in B. unfold shape in B. rewrite map_length in B. exact B.
  - exact K1.
Qed.

(** [default_to(d)] for every operand *)
Lemma default_all_typed (veqb : R -> R -> bool) (Hveqb : forall a b, veqb a b = true -> a = b) genabled d :
  forall ts inputs G next ts1 nx1,
  ctx_good G -> ctx_below G next -> Forall2 (op_typed G) ts inputs ->
  default_all veqb genabled d next ts = (ts1, nx1) ->
  exists G1, ctx_good G1 /\ ctx_below G1 nx1 /\ (next <= nx1)%positive /\ ctx_ext next G G1 /\
    Forall2 (op_typed G1) ts1 inputs /\ Forall (fun t => default (st_pt t) = d) ts1 /\
    Forall2 (fun t t1 => same_dense (st_pt t) (st_pt t1)) ts ts1.
Proof.
  induction ts as [|t ts IH]; intros inputs G next ts1 nx1 CG CB F H.
  - inversion F; subst. simpl in H. inversion H; subst. exists G. repeat split; try constructor; try assumption; try lia.
  - inversion F as [|? inp ? inputs' Ft F']; subst. cbn [default_all] in H.
    destruct (st_default_to veqb genabled d next t) as [t' nx] eqn:E1.
    destruct (default_all veqb genabled d nx ts) as [r nx'] eqn:E2. inversion H; subst ts1 nx1. clear H.
    destruct (st_default_to_typed veqb Hveqb genabled d G next t inp t' nx CG CB Ft E1) as (G1 & CG1 & CB1 & L1 & X1 & T1 & D1 & S1).
    assert (F1 : Forall2 (op_typed G1) ts inputs').
    { clear -F' CB X1. induction F' as [|a b l l' Hab _ IHF]; constructor; [eapply op_typed_ext; eauto|exact IHF]. }
    destruct (IH inputs' G1 nx r nx' CG1 CB1 F1 E2) as (G2 & CG2 & CB2 & L2 & X2 & T2 & D2 & S2).
    exists G2. split; [exact CG2|]. split; [exact CB2|]. split; [lia|].
    split; [exact (ctx_ext_trans _ _ _ _ _ L1 X1 X2)|].
    split.
    { constructor; [|exact T2]. exact (op_typed_ext G1 G2 nx t' inp CB1 X2 T1). }
    split.
    { constructor; assumption. }
    constructor; assumption.
Qed.
End Prep.
