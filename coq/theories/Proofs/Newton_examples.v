(** C02 (tier B): the hypotheses of the Newton theorems are satisfiable by non-trivial values.
    Grammar [exG] of Proofs/Kleene_examples.v: X -> X a | a (label 1, linear) and Y -> Y Y | a
    (label 2, non-linear) over a node label of size 2. *)
From Coq Require Import QArith Qcanon List Arith Bool PeanoNat Lia.
Import ListNotations.
Require Import Fggs.Model.Semiring Fggs.Model.SCC Fggs.Model.SumProduct Fggs.Model.EReal Fggs.Model.Trop Fggs.Model.Kleene
               Fggs.Model.Newton.
Require Import Fggs.Proofs.SP_mono Fggs.Proofs.SemiringLaws Fggs.Proofs.Kleene_proofs Fggs.Proofs.Kleene_examples
               Fggs.Proofs.Newton_sandwich Fggs.Proofs.Newton_solve Fggs.Proofs.Newton_laws
               Fggs.Proofs.Newton_inst Fggs.Proofs.Newton_tab.
Local Open Scope nat_scope.

(** the component [2] = {Y} satisfies the hypotheses of the component theorems *)
Example newton_ex_hyps :
  wf_grammar exG = true /\ NoDup [2] /\ (forall m, In m [2] -> is_term exG m = false)
  /\ max_rhs exG [2] = 2 /\ max_rhs exG [1] <= 1.
Proof.
  split; [reflexivity|]. split; [constructor; [intros []|constructor]|].
  split; [intros m [<-|[]]; reflexivity|]. split; [reflexivity | cbn; lia].
Qed.

(** the laws hold for the three carriers (no premise is left in the instances) *)
Example newton_ex_laws :
  newton_laws bool_ops bsub2 orb (fun u _ => u) /\ newton_laws ereal_ops esub emax2 ersd
  /\ newton_laws trop_ops (fun x _ => x) tmax (fun u _ => u)
  /\ solve_spec ereal_ops exG [2] (solve_ms ereal_ops exG [2]).
Proof.
  split; [exact bool_newton_laws|]. split; [exact ereal_newton_laws|]. split; [exact trop_newton_laws|].
  apply (solve_ms_spec ereal_ops ereal_ring ereal_ordered ereal_star). constructor; [intros []|constructor].
Qed.

(** Real, Y = Y Y + a with a[1] = 3/16 (least fixed point 1/4): the Newton iterates at the cell
    [1] are 3/16, 39/160, ... and the Kleene iterates 3/16, 57/256, ...: strictly in between *)
Definition ex_nu (k : nat) : ereal :=
  newton_iter ereal_ops esub emax2 exG exw_real exw_real [2] (solve_ms ereal_ops exG [2]) k 2 [1].
Definition ex_kappa (k : nat) : ereal := comp_kleene ereal_ops exG exw_real exw_real [2] k 2 [1].
Definition qe (q : Q) : ereal := Fin (nn_of_Q q).

Example newton_ex_values :
  eeqb (ex_nu 1) (qe (3 # 16)%Q) = true /\ eeqb (ex_nu 2) (qe (39 # 160)%Q) = true
  /\ eeqb (ex_kappa 2) (qe (57 # 256)%Q) = true
  /\ eleb (ex_kappa 3) (ex_nu 3) = true /\ eleb (ex_nu 3) (qe (1 # 4)%Q) = true
  /\ eeqb (ex_nu 3) (qe (1 # 4)%Q) = false.
Proof. vm_compute. repeat split. Qed.

(** a pre-fixed point that is not the least fixed point: 1/4 everywhere *)
Definition ex_u : env (R:=ereal) := fun _ _ => qe (1 # 4)%Q.
Example newton_ex_prefix : env_le_on ereal_ops exG (step ereal_ops exG exw_real ex_u) ex_u.
Proof.
  assert (H : forallb (fun X => forallb (fun xi => eleb (step ereal_ops exG exw_real ex_u X xi) (ex_u X xi))
                                        (all_assts (lshape exG X))) (nonterminals exG) = true)
    by (vm_compute; reflexivity).
  intros X xi HX Hxi. apply eleb_sound.
  rewrite forallb_forall in H. specialize (H X HX). rewrite forallb_forall in H. now apply H.
Qed.
(** ... hence every Newton iterate of the whole system stays below 1/4 (C02_newton_sandwich) *)
Example newton_ex_below k : env_le_on ereal_ops exG (newton_whole ereal_ops esub emax2 exG exw_real k) ex_u.
Proof. exact (proj1 (proj2 (newton_whole_sandwich_real exG ex_wf exw_real k)) ex_u newton_ex_prefix). Qed.

(** the enclosure hypothesis of C02_newton_in_enclosure_real is satisfiable *)
Example newton_ex_enclosure :
  exists lo u, enclosure ereal_ops rd_real infl_real eleb exG exw_real 20 = Some (lo, u)
               /\ forall k, env_le_on ereal_ops exG (newton_whole ereal_ops esub emax2 exG exw_real k) (env_of ereal_ops u).
Proof.
  destruct ex_real_enclosure as (lo & u & H). exists lo, u. split; [exact H|].
  apply (newton_in_enclosure_real exG ex_wf exw_real 20 lo u H).
Qed.

(** Bool: the loop with the exact stop test and budget 3 does not warn, and returns the least
    fixed point: X[1] = Y[1] = true, X[0] = Y[0] = false *)
Example newton_ex_bool_run :
  let run := newton_whole_run bool_ops bsub2 orb exG exw (close_exact exG (nonterminals exG) Bool.eqb) 3 in
  snd run = false /\ fst run 1 [1] = true /\ fst run 2 [1] = true /\ fst run 1 [0] = false /\ fst run 2 [0] = false.
Proof. vm_compute. repeat split. Qed.
(** with budget 1 it warns *)
Example newton_ex_bool_warn :
  snd (newton_whole_run bool_ops bsub2 orb exG exw (close_exact exG (nonterminals exG) Bool.eqb) 1) = true.
Proof. vm_compute. reflexivity. Qed.

(** the linear component [1]: one pass from zero is already the least fixed point 3/13 *)
Example newton_ex_linear :
  eeqb (newton_iter ereal_ops esub emax2 exG exw_real exw_real [1] (solve_ms ereal_ops exG [1]) 1 1 [1]) (qe (3 # 13)%Q) = true.
Proof. vm_compute. reflexivity. Qed.

(** the check function on this input: Y after 2 passes = 39/160; an observation below the Kleene
    iterate 57/256 is rejected by the oracle (1), one off the Newton iterate by the model (10) *)
