(** C08: the code's formulas (Model/SemiringCode.v) coincide with the carrier operations on the
    carriers, hence satisfy the semiring laws.  The formula ViterbiSemiring.star had before the
    repair of F2 ([viterbi_star_old], x >= 0 -> inf) is refuted at exactly 0: it returns a solution
    of y = 1 + x*y that is not the least one. *)
From Coq Require Import QArith Qcanon Lqa Bool List Ring_theory.
Import ListNotations.
Require Import Fggs.Model.Semiring Fggs.Model.EReal Fggs.Model.Trop Fggs.Model.SemiringCode.
Require Import Fggs.Proofs.SemiringGeneric Fggs.Proofs.SemiringLaws.
Open Scope Qc_scope.

(* ------------------------------------------------------------------------- *)
(** * helpers *)

Lemma qsgn_nn (a : nnq) :
  (qsgn (qv a) = Eq /\ is0 a = true) \/ (qsgn (qv a) = Gt /\ is0 a = false).
Proof.
  unfold qsgn, is0. pose proof (nnq_nonneg a) as H. unfold Qcle in H. change (this 0) with 0%Q in H.
  destruct (this (qv a) ?= 0)%Q eqn:E.
  - left. split; [reflexivity|]. apply Qeq_bool_iff. apply Qeq_alt. exact E.
  - exfalso. apply Qlt_alt in E. lra.
  - right. split; [reflexivity|]. apply Qgt_alt in E.
    destruct (Qeq_bool (this (qv a)) 0) eqn:E2; [|reflexivity]. apply Qeq_bool_iff in E2. lra.
Qed.

Lemma Qeq_bool_false_iff x y : Qeq_bool x y = false <-> ~ (x == y)%Q.
Proof.
  split.
  - intros H C. apply Qeq_bool_iff in C. congruence.
  - intros H. destruct (Qeq_bool x y) eqn:E; [|reflexivity]. apply Qeq_bool_iff in E. contradiction.
Qed.

Lemma XFin_eq a b : (this a == this b)%Q -> XFin a = XFin b.
Proof. intros H. f_equal. apply Qc_is_canon, H. Qed.

Lemma ereal_of_xr_emb x : ereal_of_xr (xr_of_ereal x) = Some x.
Proof.
  destruct x as [a|]; [|reflexivity]. cbn. rewrite (qnn a). f_equal. apply Fin_eq.
  apply nn_of_Qc_qv, qnn.
Qed.
Lemma trop_of_xr_emb x : trop_of_xr (xr_of_trop x) = Some x.
Proof. destruct x; reflexivity. Qed.
Lemma xr_of_ereal_inj x y : xr_of_ereal x = xr_of_ereal y -> x = y.
Proof. intros H. apply (f_equal ereal_of_xr) in H. rewrite !ereal_of_xr_emb in H. congruence. Qed.
Lemma xr_of_trop_inj x y : xr_of_trop x = xr_of_trop y -> x = y.
Proof. intros H. apply (f_equal trop_of_xr) in H. rewrite !trop_of_xr_emb in H. congruence. Qed.

(* ------------------------------------------------------------------------- *)
(** * RealSemiring *)

Lemma real_add_ok x y : real_add (xr_of_ereal x) (xr_of_ereal y) = xr_of_ereal (eadd x y).
Proof. destruct x, y; reflexivity. Qed.

Lemma real_mul_ok lo x y : real_mul lo (xr_of_ereal x) (xr_of_ereal y) = xr_of_ereal (emul x y).
Proof.
  destruct x as [a|], y as [b|]; try reflexivity; unfold real_mul; cbn [xr_of_ereal xmul xsgn emul].
  - destruct (qsgn_nn a) as [[-> ->] | [-> ->]]; reflexivity.
  - destruct (qsgn_nn b) as [[-> ->] | [-> ->]]; reflexivity.
Qed.

Lemma real_sub_ok lo x y : real_sub lo (xr_of_ereal x) (xr_of_ereal y) = xr_of_ereal (esub x y).
Proof.
  destruct x as [a|], y as [b|]; try reflexivity.
  unfold real_sub. cbn [xr_of_ereal xsub xneg xadd xrelu esub xle].
  change (qv a + - qv b) with (qv a - qv b).
  unfold nn_of_Qc. destruct (Sumbool.sumbool_of_bool (nnb (qv a - qv b))) as [e|e]; cbn [qv nn0].
  - apply nnb_le in e. destruct (Qle_bool (this (qv a - qv b)) (this 0)) eqn:E; cbn [nan_to_num]; [|reflexivity].
    apply Qle_bool_iff in E. change (this 0) with 0%Q in E. apply XFin_eq. change (this 0) with 0%Q. lra.
  - assert (E : Qle_bool (this (qv a - qv b)) (this 0) = true).
    { apply Qle_bool_iff. change (this 0) with 0%Q.
      destruct (Qle_bool 0 (this (qv a - qv b))) eqn:E2; [unfold nnb in e; congruence|].
      apply Qle_bool_false in E2. lra. }
    rewrite E. reflexivity.
Qed.

Lemma real_star_ok x : real_star (xr_of_ereal x) = xr_of_ereal (estar x).
Proof.
  destruct x as [a|]; [|reflexivity].
  unfold real_star. cbn [xr_of_ereal xge xle]. change (this 1) with 1%Q.
  destruct (Qle_bool 1 (this (qv a))) eqn:E.
  - unfold estar. rewrite E. reflexivity.
  - destruct (estar_fin_lt1 a E) as (s & -> & Hs). cbn [xr_of_ereal]. rewrite Hs.
    apply Qle_bool_false in E. cbn [xsub xneg xadd xdiv].
    assert (Hne : ~ (this (1 + - qv a) == 0)%Q).
    { rewrite this_plus, this_opp. change (this 1) with 1%Q. lra. }
    apply Qeq_bool_false_iff in Hne. rewrite Hne.
    f_equal. unfold Qcdiv. change (1 + - qv a) with (1 - qv a). ring.
Qed.

Lemma real_from_int_ok n : real_from_int n = xr_of_ereal (from_nat ereal_ops n).
Proof. rewrite ereal_from_nat. reflexivity. Qed.

(* ------------------------------------------------------------------------- *)
(** * ViterbiSemiring *)

Lemma viterbi_add_ok x y : viterbi_add (xr_of_trop x) (xr_of_trop y) = xr_of_trop (tmax x y).
Proof.
  destruct x as [|a|], y as [|b|]; try reflexivity.
  unfold viterbi_add. cbn [xr_of_trop xmax xle tmax].
  destruct (Qle_bool (this a) (this b)); reflexivity.
Qed.

Lemma viterbi_mul_ok x y : viterbi_mul (xr_of_trop x) (xr_of_trop y) = xr_of_trop (tplus x y).
Proof. destruct x, y; reflexivity. Qed.

Lemma viterbi_sub_ok x y : viterbi_sub (xr_of_trop x) (xr_of_trop y) = xr_of_trop (tsub x y).
Proof. reflexivity. Qed.

Lemma viterbi_from_int_ok n : viterbi_from_int n = xr_of_trop (from_nat trop_ops n).
Proof. rewrite trop_from_nat. destruct n; reflexivity. Qed.

(** the OLD star agrees with the least-solution star everywhere except at exactly 0 *)
Theorem viterbi_star_old_ok x : x <> TFin 0 -> viterbi_star_old (xr_of_trop x) = xr_of_trop (tstar x).
Proof.
  destruct x as [|a|]; try reflexivity. intros Hne.
  unfold viterbi_star_old. cbn [xr_of_trop xge xle tstar]. change (this 0) with 0%Q.
  destruct (Qle_bool 0 (this a)) eqn:E1; destruct (Qle_bool (this a) 0) eqn:E2; try reflexivity.
  - apply Qle_bool_iff in E1. apply Qle_bool_iff in E2. exfalso. apply Hne. f_equal.
    apply Qc_is_canon. change (this 0) with 0%Q. lra.
  - apply Qle_bool_false in E1. apply Qle_bool_false in E2. lra.
Qed.

Definition viterbi_star_old_guard (x : trop) : bool := negb (teqb x (TFin 0)).
Lemma viterbi_star_old_guard_ok x : viterbi_star_old_guard x = true -> x <> TFin 0.
Proof. intros H ->. discriminate H. Qed.
Example viterbi_star_old_guard_ex :
  viterbi_star_old_guard (TFin (-(1))) = true /\ viterbi_star_old_guard (TFin 1) = true /\
  viterbi_star_old_guard NInf = true /\ viterbi_star_old_guard TPInf = true.
Proof. repeat split. Qed.

(** F2 (repaired in /repo by d2ec7af): at x = 0 the old formula returns +inf.  +inf *is* a solution of y = max(0, x + y), which is
    why test_star passes, but the least solution is 0 *)
Theorem viterbi_star_old_zero_refuted :
  exists x y : trop,
    viterbi_star_old (xr_of_trop x) = xr_of_trop y /\
    y = add trop_ops (one trop_ops) (mul trop_ops x y) /\
    y <> star trop_ops x /\
    ~ (forall z, z = add trop_ops (one trop_ops) (mul trop_ops x z) -> le trop_ops y z).
Proof.
  exists (TFin 0), TPInf. repeat split.
  - discriminate.
  - intros H. exact (H (TFin 0) eq_refl).
Qed.

(** the code as it is now, where(x > 0, inf, 0.), is the least-solution star everywhere *)
Theorem viterbi_star_ok x : viterbi_star (xr_of_trop x) = xr_of_trop (tstar x).
Proof.
  destruct x as [|a|]; try reflexivity.
  unfold viterbi_star. cbn [xr_of_trop xgt xlt xle tstar]. change (this 0) with 0%Q.
  destruct (Qle_bool (this a) 0); reflexivity.
Qed.

(* ------------------------------------------------------------------------- *)
(** * BoolSemiring *)
Lemma bool_code_ok :
  (forall x y, boolc_add x y = add bool_ops x y) /\ (forall x y, boolc_mul x y = mul bool_ops x y) /\
  (forall x y, boolc_sub x y = bsub x y) /\ (forall x, boolc_star x = star bool_ops x) /\
  (forall n, boolc_from_int n = from_nat bool_ops n).
Proof. repeat split. intros n. rewrite bool_from_nat. destruct n; reflexivity. Qed.

(* ------------------------------------------------------------------------- *)
(** * LogSemiring, exp reading *)

Lemma log_add_ok x y : log_add (xr_of_ereal x) (xr_of_ereal y) = xr_of_ereal (eadd x y).
Proof. destruct x, y; reflexivity. Qed.

Lemma log_mul_ok x y : log_mul (xr_of_ereal x) (xr_of_ereal y) = xr_of_ereal (emul x y).
Proof.
  destruct x as [a|], y as [b|]; try reflexivity; unfold log_mul, log_nan_to_num;
    cbn [xr_of_ereal xmul xsgn emul].
  - destruct (qsgn_nn a) as [[-> ->] | [-> ->]]; reflexivity.
  - destruct (qsgn_nn b) as [[-> ->] | [-> ->]]; reflexivity.
Qed.

Lemma log_from_int_ok n : log_from_int n = xr_of_ereal (from_nat ereal_ops n).
Proof.
  rewrite ereal_from_nat. unfold log_from_int, xr_of_nat, xlog. cbn [xr_of_ereal qv nn_of_nat].
  assert (H : xlt (XFin (Q2Qc (inject_Z (Z.of_nat n)))) (XFin 0) = false).
  { cbn [xlt xle]. apply negb_false_iff. exact (nnb_inject_nat n). }
  rewrite H. reflexivity.
Qed.

(** log(1 - D) for a real-space D >= 0 or NaN: the two branches of the code agree *)
Lemma log_branches_agree d :
  xlog (xadd (XFin 1) (xneg d)) = xlog (xneg (xsub d (XFin 1))).
Proof.
  destruct d as [| |q|]; try reflexivity.
  cbn [xneg xadd xsub]. assert (E : 1 + - q = - (q + - (1))) by ring. rewrite E. reflexivity.
Qed.

Lemma xlog_1m_fin (q : Qc) :
  xlog (XFin (1 + - q)) = if Qle_bool (this q) 1 then XFin (1 - q) else XNaN.
Proof.
  unfold xlog, xlt, xle. change (this 0) with 0%Q. change (1 + - q) with (1 - q).
  destruct (Qle_bool 0 (this (1 - q))) eqn:E1; destruct (Qle_bool (this q) 1) eqn:E2; cbn [negb]; try reflexivity.
  - apply Qle_bool_iff in E1. apply Qle_bool_false in E2. rewrite this_minus in E1.
    change (this 1) with 1%Q in E1. lra.
  - apply Qle_bool_false in E1. apply Qle_bool_iff in E2. rewrite this_minus in E1.
    change (this 1) with 1%Q in E1. lra.
Qed.

Lemma esub_fin_val a b :
  xr_of_ereal (esub (Fin a) (Fin b)) =
  if Qle_bool (this (qv b)) (this (qv a)) then XFin (qv a - qv b) else XFin 0.
Proof.
  cbn [esub xr_of_ereal]. unfold nn_of_Qc.
  destruct (Sumbool.sumbool_of_bool (nnb (qv a - qv b))) as [e|e]; cbn [qv nn0];
    destruct (Qle_bool (this (qv b)) (this (qv a))) eqn:E; try reflexivity.
  - apply nnb_le in e. apply Qle_bool_false in E. rewrite this_minus in e. lra.
  - apply Qle_bool_iff in E. assert (C : nnb (qv a - qv b) = true).
    { apply nnb_le. rewrite this_minus. lra. }
    congruence.
Qed.

Lemma log_sub_fin_ok a b :
  log_nan_to_num (xmul (XFin (qv a)) (xlog (xadd (XFin 1) (xneg (xdiv (XFin (qv b)) (XFin (qv a))))))) XPInf
  = xr_of_ereal (esub (Fin a) (Fin b)).
Proof.
  rewrite esub_fin_val. cbn [xdiv].
  pose proof (nnq_nonneg a) as Hna. unfold Qcle in Hna. change (this 0) with 0%Q in Hna.
  pose proof (nnq_nonneg b) as Hnb. unfold Qcle in Hnb. change (this 0) with 0%Q in Hnb.
  destruct (Qeq_bool (this (qv a)) 0) eqn:Ea.
  - (* a = 0 *)
    apply Qeq_bool_iff in Ea.
    destruct (qsgn_nn b) as [[Hs Hb] | [Hs Hb]]; rewrite Hs; cbn.
    + apply is0_iff in Hb. apply Qc_eq_iff in Hb. change (this 0) with 0%Q in Hb.
      destruct (Qle_bool (this (qv b)) (this (qv a))); [|reflexivity].
      apply XFin_eq. rewrite this_minus. change (this 0) with 0%Q. lra.
    + apply is0_false_pos in Hb. unfold Qclt in Hb. change (this 0) with 0%Q in Hb.
      destruct (Qle_bool (this (qv b)) (this (qv a))) eqn:E; [|reflexivity].
      apply Qle_bool_iff in E. lra.
  - (* a > 0 *)
    apply Qeq_bool_false_iff in Ea. assert (Hpos : (0 < this (qv a))%Q) by lra.
    cbn [xneg xadd]. rewrite xlog_1m_fin.
    assert (Hdiv : (this (qv b / qv a) == this (qv b) / this (qv a))%Q).
    { unfold Qcdiv. rewrite this_mult, this_inv. reflexivity. }
    destruct (Qle_bool (this (qv b / qv a)) 1) eqn:E1;
      destruct (Qle_bool (this (qv b)) (this (qv a))) eqn:E2; cbn [xmul log_nan_to_num nan_to_num];
      try reflexivity.
    + apply XFin_eq. rewrite this_mult, !this_minus, Hdiv. change (this 1) with 1%Q. field. exact Ea.
    + exfalso. apply Qle_bool_iff in E1. apply Qle_bool_false in E2. rewrite Hdiv in E1.
      apply (Qmult_le_r _ _ (this (qv a)) Hpos) in E1.
      assert (H3 : (this (qv b) / this (qv a) * this (qv a) == this (qv b))%Q) by (field; exact Ea).
      lra.
    + exfalso. apply Qle_bool_false in E1. apply Qle_bool_iff in E2. rewrite Hdiv in E1.
      apply (Qmult_lt_r _ _ (this (qv a)) Hpos) in E1.
      assert (H3 : (this (qv b) / this (qv a) * this (qv a) == this (qv b))%Q) by (field; exact Ea).
      lra.
Qed.

Lemma log_sub_ok c x y : log_sub c (xr_of_ereal x) (xr_of_ereal y) = xr_of_ereal (esub x y).
Proof.
  unfold log_sub. rewrite <- log_branches_agree.
  assert (E : (if c then xlog (xadd (XFin 1) (xneg (xdiv (xr_of_ereal y) (xr_of_ereal x))))
               else xlog (xadd (XFin 1) (xneg (xdiv (xr_of_ereal y) (xr_of_ereal x)))))
              = xlog (xadd (XFin 1) (xneg (xdiv (xr_of_ereal y) (xr_of_ereal x))))) by (destruct c; reflexivity).
  rewrite E. clear E c.
  destruct x as [a|], y as [b|].
  - apply log_sub_fin_ok.
  - (* finite - inf = 0 *)
    cbn [xr_of_ereal xdiv esub].
    destruct (Qeq_bool (this (qv a)) 0); [reflexivity|].
    destruct (qsgn_nn a) as [[Hs _] | [Hs _]]; rewrite Hs; reflexivity.
  - (* inf - finite = inf *)
    reflexivity.
  - reflexivity.
Qed.

Lemma log_star_ok c hi x : log_star c hi (xr_of_ereal x) = xr_of_ereal (estar x).
Proof.
  unfold log_star. rewrite <- log_branches_agree.
  assert (E : (if c then xlog (xadd (XFin 1) (xneg (xr_of_ereal x)))
               else xlog (xadd (XFin 1) (xneg (xr_of_ereal x))))
              = xlog (xadd (XFin 1) (xneg (xr_of_ereal x)))) by (destruct c; reflexivity).
  rewrite E. clear E c.
  destruct x as [a|]; [|reflexivity].
  cbn [xr_of_ereal xneg xadd]. rewrite xlog_1m_fin.
  destruct (Qle_bool (this (qv a)) 1) eqn:E1.
  - apply Qle_bool_iff in E1. unfold xrecip, log_nan_to_num. cbn [nan_to_num xdiv].
    destruct (Qle_bool 1 (this (qv a))) eqn:E2.
    + (* a = 1 *)
      unfold estar. rewrite E2. apply Qle_bool_iff in E2.
      assert (Hz : Qeq_bool (this (1 - qv a)) 0 = true).
      { apply Qeq_bool_iff. rewrite this_minus. change (this 1) with 1%Q. lra. }
      rewrite Hz. reflexivity.
    + destruct (estar_fin_lt1 a E2) as (s & -> & Hs). cbn [xr_of_ereal]. rewrite Hs.
      apply Qle_bool_false in E2.
      assert (Hne : Qeq_bool (this (1 - qv a)) 0 = false).
      { apply Qeq_bool_false_iff. rewrite this_minus. change (this 1) with 1%Q. lra. }
      rewrite Hne. f_equal. unfold Qcdiv. ring.
  - apply Qle_bool_false in E1. unfold estar.
    assert (E2 : Qle_bool 1 (this (qv a)) = true) by (apply Qle_bool_iff; lra).
    rewrite E2. reflexivity.
Qed.

(* ------------------------------------------------------------------------- *)
(** * The code's operations, packaged as semiring structures on the carriers *)

(** laws transfer along pointwise equality of operations (no functional extensionality) *)
Record ops_ext {S} (o o' : sr_ops S) : Prop := {
  ext_zero : zero o = zero o';
  ext_one : one o = one o';
  ext_add : forall x y, add o x y = add o' x y;
  ext_mul : forall x y, mul o x y = mul o' x y;
  ext_le : forall x y, le o x y <-> le o' x y;
}.

Section Transfer.
  Context {S : Type} (o o' : sr_ops S).
  Hypothesis E : ops_ext o o'.
  Ltac tr := rewrite ?(ext_add _ _ E), ?(ext_mul _ _ E), ?(ext_zero _ _ E), ?(ext_one _ _ E).
  Lemma ring_transfer : sr_ring o' -> sr_ring o.
  Proof.
    intros R. constructor; intros; repeat tr.
    - apply (SRadd_0_l R).
    - apply (SRadd_comm R).
    - apply (SRadd_assoc R).
    - apply (SRmul_1_l R).
    - apply (SRmul_0_l R).
    - apply (SRmul_comm R).
    - apply (SRmul_assoc R).
    - apply (SRdistr_l R).
  Qed.
  Lemma ordered_transfer : sr_ordered o' -> sr_ordered o.
  Proof.
    intros O. constructor; intros; repeat tr;
      repeat match goal with H : le o _ _ |- _ => apply (ext_le _ _ E) in H end;
      try apply (ext_le _ _ E); repeat tr.
    - apply (le_refl _ O).
    - eapply (le_trans _ O); eassumption.
    - apply (le_antisym _ O); assumption.
    - apply (zero_le _ O).
    - apply (add_mono _ O); assumption.
    - apply (mul_mono _ O); assumption.
  Qed.
  Lemma star_transfer : (forall x, star o x = star o' x) -> sr_star o' -> sr_star o.
  Proof.
    intros Es St. constructor.
    - intros a. repeat tr. rewrite !Es. apply (star_unfold _ St).
    - intros a b x H. apply (ext_le _ _ E). apply (ext_le _ _ E) in H.
      generalize H. repeat tr. rewrite Es. apply (star_ind _ St).
  Qed.
End Transfer.

(** reading a result back into the carrier; [None] (NaN or out of the carrier) never occurs on
    carrier inputs -- lemmas [*_ok] above -- so the fallback value is unreachable *)
Definition back_e (r : xr) : ereal := match ereal_of_xr r with Some e => e | None => Fin nn0 end.
Definition back_t (r : xr) : trop := match trop_of_xr r with Some t => t | None => NInf end.
Lemma back_e_emb x : back_e (xr_of_ereal x) = x.
Proof. unfold back_e. rewrite ereal_of_xr_emb. reflexivity. Qed.
Lemma back_t_emb x : back_t (xr_of_trop x) = x.
Proof. unfold back_t. rewrite trop_of_xr_emb. reflexivity. Qed.

Definition real_code_ops (lo : xr) : sr_ops ereal :=
  {| zero := back_e (real_from_int 0); one := back_e (real_from_int 1);
     add := fun x y => back_e (real_add (xr_of_ereal x) (xr_of_ereal y));
     mul := fun x y => back_e (real_mul lo (xr_of_ereal x) (xr_of_ereal y));
     star := fun x => back_e (real_star (xr_of_ereal x));
     le := ele |}.
Definition log_code_ops (c : bool) (hi : xr) : sr_ops ereal :=
  {| zero := back_e (log_from_int 0); one := back_e (log_from_int 1);
     add := fun x y => back_e (log_add (xr_of_ereal x) (xr_of_ereal y));
     mul := fun x y => back_e (log_mul (xr_of_ereal x) (xr_of_ereal y));
     star := fun x => back_e (log_star c hi (xr_of_ereal x));
     le := ele |}.
Definition viterbi_old_code_ops : sr_ops trop :=
  {| zero := back_t (viterbi_from_int 0); one := back_t (viterbi_from_int 1);
     add := fun x y => back_t (viterbi_add (xr_of_trop x) (xr_of_trop y));
     mul := fun x y => back_t (viterbi_mul (xr_of_trop x) (xr_of_trop y));
     star := fun x => back_t (viterbi_star_old (xr_of_trop x));
     le := tle |}.
Definition viterbi_code_ops : sr_ops trop :=
  {| zero := back_t (viterbi_from_int 0); one := back_t (viterbi_from_int 1);
     add := fun x y => back_t (viterbi_add (xr_of_trop x) (xr_of_trop y));
     mul := fun x y => back_t (viterbi_mul (xr_of_trop x) (xr_of_trop y));
     star := fun x => back_t (viterbi_star (xr_of_trop x));
     le := tle |}.
Definition bool_code_ops : sr_ops bool :=
  {| zero := boolc_from_int 0; one := boolc_from_int 1; add := boolc_add; mul := boolc_mul;
     star := boolc_star; le := le bool_ops |}.

Lemma real_code_ext lo : ops_ext (real_code_ops lo) ereal_ops.
Proof.
  constructor; cbn [zero one add mul le real_code_ops ereal_ops]; intros.
  - rewrite real_from_int_ok. apply back_e_emb.
  - rewrite real_from_int_ok, back_e_emb. apply (from_nat_1 _ ereal_ring).
  - rewrite real_add_ok. apply back_e_emb.
  - rewrite real_mul_ok. apply back_e_emb.
  - reflexivity.
Qed.
Lemma log_code_ext c hi : ops_ext (log_code_ops c hi) ereal_ops.
Proof.
  constructor; cbn [zero one add mul le log_code_ops ereal_ops]; intros.
  - rewrite log_from_int_ok. apply back_e_emb.
  - rewrite log_from_int_ok, back_e_emb. apply (from_nat_1 _ ereal_ring).
  - rewrite log_add_ok. apply back_e_emb.
  - rewrite log_mul_ok. apply back_e_emb.
  - reflexivity.
Qed.
Lemma viterbi_old_code_ext : ops_ext viterbi_old_code_ops trop_ops.
Proof.
  constructor; cbn [zero one add mul le viterbi_old_code_ops trop_ops]; intros.
  - reflexivity.
  - reflexivity.
  - rewrite viterbi_add_ok. apply back_t_emb.
  - rewrite viterbi_mul_ok. apply back_t_emb.
  - reflexivity.
Qed.
Lemma viterbi_code_ext : ops_ext viterbi_code_ops trop_ops.
Proof.
  constructor; cbn [zero one add mul le viterbi_code_ops trop_ops]; intros.
  - reflexivity.
  - reflexivity.
  - rewrite viterbi_add_ok. apply back_t_emb.
  - rewrite viterbi_mul_ok. apply back_t_emb.
  - reflexivity.
Qed.

(** RealSemiring's and LogSemiring's formulas form a commutative ordered star-semiring *)
Theorem real_code_laws lo :
  sr_ring (real_code_ops lo) /\ sr_ordered (real_code_ops lo) /\ sr_star (real_code_ops lo).
Proof.
  pose proof (real_code_ext lo) as E. split; [|split].
  - apply (ring_transfer _ _ E), ereal_ring.
  - apply (ordered_transfer _ _ E), ereal_ordered.
  - apply (star_transfer _ _ E); [|apply ereal_star].
    intros x. cbn [star real_code_ops ereal_ops]. rewrite real_star_ok. apply back_e_emb.
Qed.
Theorem log_code_laws c hi :
  sr_ring (log_code_ops c hi) /\ sr_ordered (log_code_ops c hi) /\ sr_star (log_code_ops c hi).
Proof.
  pose proof (log_code_ext c hi) as E. split; [|split].
  - apply (ring_transfer _ _ E), ereal_ring.
  - apply (ordered_transfer _ _ E), ereal_ordered.
  - apply (star_transfer _ _ E); [|apply ereal_star].
    intros x. cbn [star log_code_ops ereal_ops]. rewrite log_star_ok. apply back_e_emb.
Qed.
Theorem bool_code_laws : sr_ring bool_code_ops /\ sr_ordered bool_code_ops /\ sr_star bool_code_ops.
Proof. split; [exact bool_ring | split; [exact bool_ordered | exact bool_star]]. Qed.

(** the old ViterbiSemiring formulas: ring and order laws hold, star is a solution ... *)
Theorem viterbi_old_code_laws_partial :
  sr_ring viterbi_old_code_ops /\ sr_ordered viterbi_old_code_ops /\
  (forall a, star viterbi_old_code_ops a =
             add viterbi_old_code_ops (one viterbi_old_code_ops) (mul viterbi_old_code_ops a (star viterbi_old_code_ops a))) /\
  (forall a b x, viterbi_star_old_guard a = true ->
     le viterbi_old_code_ops (add viterbi_old_code_ops (mul viterbi_old_code_ops a x) b) x ->
     le viterbi_old_code_ops (mul viterbi_old_code_ops (star viterbi_old_code_ops a) b) x).
Proof.
  pose proof viterbi_old_code_ext as E. split; [|split; [|split]].
  - apply (ring_transfer _ _ E), trop_ring.
  - apply (ordered_transfer _ _ E), trop_ordered.
  - intros a. cbn [zero one add mul star viterbi_old_code_ops].
    assert (Hs : exists s, viterbi_star_old (xr_of_trop a) = xr_of_trop s /\ s = tmax (TFin 0) (tplus a s)).
    { destruct a as [|a|].
      - exists (TFin 0). split; reflexivity.
      - unfold viterbi_star_old. cbn [xr_of_trop xge xle]. destruct (Qle_bool (this 0) (this a)) eqn:E1.
        + exists TPInf. split; reflexivity.
        + exists (TFin 0). split; [reflexivity|]. cbn [tplus tmax].
          apply Qle_bool_false in E1. change (this 0) with 0%Q in E1.
          assert (E2 : Qle_bool (this 0) (this (a + 0)) = false).
          { apply Qle_bool_false. rewrite this_plus. change (this 0) with 0%Q. lra. }
          rewrite E2. reflexivity.
      - exists TPInf. split; reflexivity. }
    destruct Hs as (s & Hs & Hfix). rewrite Hs, back_t_emb.
    change (back_t (viterbi_from_int 1)) with (TFin 0).
    rewrite viterbi_mul_ok, back_t_emb.
    change (xr_of_trop (TFin 0)) with (xr_of_trop (TFin 0)).
    rewrite viterbi_add_ok, back_t_emb. exact Hfix.
  - intros a b x G. apply viterbi_star_old_guard_ok in G.
    cbn [add mul star le viterbi_old_code_ops].
    rewrite (viterbi_star_old_ok a G).
    repeat rewrite ?viterbi_mul_ok, ?viterbi_add_ok, ?back_t_emb.
    apply tstar_ind.
Qed.
(** ... but not the least one: the full star law fails for the old formula (F2) *)
Theorem viterbi_old_code_star_refuted : ~ sr_star viterbi_old_code_ops.
Proof.
  intros St. pose proof (star_ind _ St (TFin 0) (TFin 0) (TFin 0)) as H.
  cbn in H. apply H. discriminate.
Qed.
(** ViterbiSemiring as it is now: the full set of laws *)
Theorem viterbi_code_laws :
  sr_ring viterbi_code_ops /\ sr_ordered viterbi_code_ops /\ sr_star viterbi_code_ops.
Proof.
  pose proof viterbi_code_ext as E. split; [|split].
  - apply (ring_transfer _ _ E), trop_ring.
  - apply (ordered_transfer _ _ E), trop_ordered.
  - apply (star_transfer _ _ E); [|apply trop_star].
    intros x. cbn [star viterbi_code_ops trop_ops]. rewrite viterbi_star_ok. apply back_t_emb.
Qed.

(** sub: the code's formulas satisfy sub(x, y) + y = x whenever y <= x *)
Theorem code_sub_add :
  (forall lo x y, ele y x ->
      real_add (real_sub lo (xr_of_ereal x) (xr_of_ereal y)) (xr_of_ereal y) = xr_of_ereal x) /\
  (forall c x y, ele y x ->
      log_add (log_sub c (xr_of_ereal x) (xr_of_ereal y)) (xr_of_ereal y) = xr_of_ereal x) /\
  (forall x y, tle y x ->
      viterbi_add (viterbi_sub (xr_of_trop x) (xr_of_trop y)) (xr_of_trop y) = xr_of_trop x) /\
  (forall x y : bool, le bool_ops y x -> boolc_add (boolc_sub x y) y = x).
Proof.
  repeat split.
  - intros lo x y H. rewrite real_sub_ok, real_add_ok, esub_add; [reflexivity | exact H].
  - intros c x y H. rewrite log_sub_ok, log_add_ok, esub_add; [reflexivity | exact H].
  - intros x y H. rewrite viterbi_sub_ok, viterbi_add_ok, tsub_add; [reflexivity | exact H].
  - exact bsub_le.
Qed.
Example code_sub_add_ex :
  ele (Fin nn1) (Fin (nnadd nn1 nn1)) /\ tle (TFin 0) (TFin 1) /\ le bool_ops false true.
Proof. repeat split; cbn; discriminate. Qed.
