(** Composition C01 x C19, graph part: the nonterminal graph of ANY positional grammar is
    closed (distinct keys, duplicate-free successor lists, every successor a key), so the full
    Tarjan theorem of C19 ([tarjan_correct]) applies to it without any guard: [scc (nt_graph G)]
    never runs out of fuel and its output is accepted by the verified oracle [scc_ok].
    Also: for a grammar that is non-recursive in the Prop sense ([ranked G rank] for some rank
    function: every nonterminal on a right-hand side has a smaller rank than the left-hand
    side) the components Tarjan returns are single nonterminals without self-loop
    ([nonrecursive_order G order = true]), i.e. guard 3 of [sp_check] never fires. *)
From Coq Require Import List Arith Bool PeanoNat Lia Permutation.
Import ListNotations.
Require Import Fggs.Model.Semiring Fggs.Model.SCC Fggs.Model.SumProduct.
Require Import Fggs.Proofs.SCC_ntgraph Fggs.Proofs.SCC_checker Fggs.Proofs.SCC_tarjan.
Require Import Fggs.Proofs.SP_nonrec Fggs.Proofs.SP_main Fggs.Proofs.SP_scc_glue.

(** * [ntgraph] builds closed graphs *)
Definition succ_nodup (g : graph) : Prop := forall p, In p g -> NoDup (snd p).

Lemma add_new_NoDup acc w : NoDup acc -> NoDup (add_new acc w).
Proof.
  intros H. unfold add_new. destruct (mem acc w) eqn:E; trivial.
  apply SCC_checker.mem_false in E.
  apply NoDup_app_iff. split; [exact H|]. split; [constructor; [intros []|constructor]|].
  intros x Hx [<-|[]]. now apply E.
Qed.

Lemma succ_nodup_upd g x w : succ_nodup g -> succ_nodup (upd g x w).
Proof.
  unfold succ_nodup. induction g as [|[u ws] g IH]; intros H p Hp; cbn [upd] in Hp; [destruct Hp|].
  destruct (Nat.eqb u x).
  - destruct Hp as [<-|Hp]; [|apply H; now right]. cbn [snd].
    apply add_new_NoDup. apply (H (u, ws)). now left.
  - destruct Hp as [<-|Hp]; [apply (H (u, ws)); now left|].
    apply IH; trivial. intros q Hq. apply H. now right.
Qed.

Lemma succ_nodup_rule_step r g : succ_nodup g -> succ_nodup (rule_step g r).
Proof.
  unfold rule_step. generalize (snd r) as es. intros es. revert g.
  induction es as [|e es IH]; intros g H; cbn [fold_left]; trivial.
  apply IH. destruct (snd e); [now apply succ_nodup_upd|exact H].
Qed.

Lemma succ_nodup_fold rules : forall g, succ_nodup g -> succ_nodup (fold_left rule_step rules g).
Proof.
  induction rules as [|r rules IH]; intros g H; cbn [fold_left]; trivial.
  apply IH. now apply succ_nodup_rule_step.
Qed.

Lemma succ_nodup_ntgraph nts rules : succ_nodup (ntgraph nts rules).
Proof.
  rewrite ntgraph_unfold. apply succ_nodup_fold.
  intros p Hp. apply in_map_iff in Hp. destruct Hp as (x & <- & _). constructor.
Qed.

(** with distinct keys, the successor list stored at an entry is what [succs] returns *)
Lemma succs_of_entry g u ws : NoDup (verts g) -> In (u, ws) g -> succs g u = ws.
Proof.
  induction g as [|[a l] g IH]; intros Hnd Hin; [destruct Hin|].
  cbn [verts map fst] in Hnd. inversion Hnd as [|? ? Hna Hnd']; subst.
  cbn [succs]. destruct Hin as [E|Hin].
  - injection E as -> ->. now rewrite Nat.eqb_refl.
  - destruct (Nat.eqb a u) eqn:Eau; [|now apply IH].
    apply Nat.eqb_eq in Eau. subst a. exfalso. apply Hna.
    change (In (fst (u, ws)) (map fst g)). now apply in_map.
Qed.

Theorem ntgraph_closed nts rules :
  NoDup nts ->
  (forall r y, In r rules -> In (fst r) nts -> In (y, true) (snd r) -> In y nts) ->
  closed (ntgraph nts rules) = true.
Proof.
  intros Hnd Hcl. unfold closed. rewrite ntgraph_verts.
  apply andb_true_iff. split; [now apply SCC_checker.nodupb_NoDup|].
  apply forallb_forall. intros [u ws] Hp. cbn [snd].
  apply andb_true_iff. split.
  - apply SCC_checker.nodupb_NoDup. exact (succ_nodup_ntgraph nts rules (u, ws) Hp).
  - apply forallb_forall. intros y Hy. apply SCC_checker.mem_In.
    assert (Hs : succs (ntgraph nts rules) u = ws).
    { apply succs_of_entry; trivial. now rewrite ntgraph_verts. }
    rewrite <- Hs in Hy. apply ntgraph_edge in Hy.
    destruct Hy as (Hu & r & Hr & Hfst & Hin). apply (Hcl r y Hr); trivial. now rewrite Hfst.
Qed.

(** * the nonterminal graph of every grammar is closed (no well-formedness needed: a label
      outside the label table counts as a terminal, so it is never flagged as a nonterminal) *)
Theorem nt_graph_closed G : closed (nt_graph G) = true.
Proof.
  unfold nt_graph. apply ntgraph_closed; [apply nonterminals_NoDup|].
  intros r' y Hr' _ Hin. apply in_map_iff in Hr'. destruct Hr' as (r & <- & _). cbn [snd] in Hin.
  apply in_map_iff in Hin. destruct Hin as (ed & E & _). injection E as E1 E2.
  subst y. apply nonterminal_In. now apply negb_true_iff.
Qed.

(** * hence Tarjan's algorithm, as coded, succeeds on it and its output passes the oracle *)
Theorem scc_nt_graph_ok G :
  exists order, scc (nt_graph G) = Some order /\ scc_ok (nt_graph G) order = true.
Proof. apply tarjan_correct, nt_graph_closed. Qed.

Corollary scc_nt_graph_some G order :
  scc (nt_graph G) = Some order -> scc_ok (nt_graph G) order = true.
Proof.
  intros H. destruct (scc_nt_graph_ok G) as (order' & H' & Hok). rewrite H in H'. injection H' as <-. exact Hok.
Qed.

Corollary scc_nt_graph_not_none G : scc (nt_graph G) <> None.
Proof. destruct (scc_nt_graph_ok G) as (order & H & _). now rewrite H. Qed.

(** * Prop-level non-recursiveness implies the boolean test on the SCC order *)
(** along a path of the nonterminal graph of a ranked grammar the rank does not increase, and it
    decreases strictly unless the path is empty *)
Lemma ranked_edge G rank X Y : ranked G rank -> In Y (succs (nt_graph G) X) -> rank Y < rank X.
Proof.
  intros Hrk HY. apply nt_graph_edge in HY. destruct HY as [HX HY].
  apply in_deps in HY. destruct HY as (r & ed & Hr & Hlhs & Hed & Ht & <-).
  rewrite <- Hlhs. apply (Hrk r Hr); trivial. rewrite Hlhs. now apply nonterminals_In.
Qed.

Lemma ranked_path G rank X Y : ranked G rank -> path (nt_graph G) X Y -> X = Y \/ rank Y < rank X.
Proof.
  intros Hrk Hp. induction Hp as [u|u w v Hw _ IH]; [now left|]. right.
  pose proof (ranked_edge G rank u w Hrk Hw). destruct IH as [<-|IH]; lia.
Qed.

Lemma max_rhs_single_zero_conv G x :
  (forall r ed, In r (rules_of G x) -> In ed (r_edges r) -> fst ed <> x) -> max_rhs G [x] = 0.
Proof.
  intros H. unfold max_rhs. cbn [fold_left].
  assert (Hgen : forall rs, (forall r, In r rs -> In r (rules_of G x)) ->
            fold_left (fun m r => Nat.max m (length (filter (fun ed => mem [x] (fst ed)) (r_edges r)))) rs 0 = 0).
  { induction rs as [|r rs IH]; intros Hin; cbn [fold_left]; [reflexivity|].
    assert (E : filter (fun ed => mem [x] (fst ed)) (r_edges r) = []).
    { assert (Hf : forall ed, In ed (r_edges r) -> mem [x] (fst ed) = false).
      { intros ed Hed. cbn [mem existsb]. rewrite orb_false_r. apply Nat.eqb_neq.
        apply (H r ed); trivial. apply Hin. now left. }
      clear -Hf. induction (r_edges r) as [|e l IHl]; [reflexivity|]. cbn [filter].
      rewrite (Hf e) by now left. apply IHl. intros ed Hed. apply Hf. now right. }
    rewrite E. cbn [length Nat.max]. apply IH. intros r' Hr'. apply Hin. now right. }
  apply Hgen. auto.
Qed.

Theorem ranked_scc_nonrecursive G rank order :
  ranked G rank -> scc_ok (nt_graph G) order = true -> nonrecursive_order G order = true.
Proof.
  intros Hrk Hok.
  apply (scc_ok_spec _ _ (nt_graph_closed G)) in Hok.
  destruct Hok as (Hnd & Hperm & Hne & Hsame & _).
  unfold nonrecursive_order. apply forallb_forall. intros c Hc.
  assert (Hv : forall u, In u c -> In u (verts (nt_graph G))).
  { intros u Hu. apply (Permutation_in _ Hperm). apply in_concat. now exists c. }
  assert (Hone : forall u v, In u c -> In v c -> u = v).
  { intros u v Hu Hv'.
    destruct (proj1 (Hsame u v (Hv u Hu) (Hv v Hv')) (ex_intro _ c (conj Hc (conj Hu Hv')))) as [P1 P2].
    destruct (ranked_path G rank u v Hrk P1) as [E|L1]; trivial.
    destruct (ranked_path G rank v u Hrk P2) as [E|L2]; [now symmetry|lia]. }
  assert (Hndc : NoDup c).
  { clear -Hnd Hc. induction order as [|d order IH]; [destruct Hc|].
    cbn [concat] in Hnd. apply NoDup_app_iff in Hnd. destruct Hnd as (H1 & H2 & _).
    destruct Hc as [->|Hc]; trivial. now apply IH. }
  destruct c as [|x [|y c]].
  - exfalso. now apply (Hne [] Hc).
  - apply Nat.eqb_eq. apply max_rhs_single_zero_conv. intros r ed Hr Hed E.
    apply in_rules_of in Hr. destruct Hr as [Hr Hlhs].
    assert (HxN : In x (nonterminals G)).
    { rewrite <- nt_graph_verts. apply Hv. now left. }
    pose proof (nonterminals_In G x HxN) as Hxt.
    assert (L : rank (fst ed) < rank (r_lhs r)).
    { apply (Hrk r Hr); [now rewrite Hlhs|exact Hed|now rewrite E]. }
    rewrite E, Hlhs in L. lia.
  - exfalso. inversion Hndc as [|? ? Hnin _]; subst. apply Hnin.
    rewrite (Hone x y); [now left|now left|right; now left].
Qed.

(** the converse direction (already in Proofs/SP_main.v, [dep_ordered_ranked]): an order accepted
    by the two boolean tests yields a rank function *)
Theorem scc_nonrecursive_ranked G order :
  scc_ok (nt_graph G) order = true -> nonrecursive_order G order = true ->
  ranked G (fun X => index_of X (concat order)).
Proof.
  intros Hok Hnr. destruct (scc_order_dep_ordered G order Hok Hnr) as (Hd & _ & Hall).
  now apply dep_ordered_ranked.
Qed.

(** so: the grammar is non-recursive (has a rank function) iff the order computed by the Tarjan
    model passes [nonrecursive_order] *)
Theorem nonrecursive_iff_ranked G :
  (exists rank, ranked G rank)
  <-> exists order, scc (nt_graph G) = Some order /\ nonrecursive_order G order = true.
Proof.
  destruct (scc_nt_graph_ok G) as (order & Hs & Hok). split.
  - intros [rank Hrk]. exists order. split; trivial. exact (ranked_scc_nonrecursive G rank order Hrk Hok).
  - intros (order' & Hs' & Hnr). rewrite Hs in Hs'. injection Hs' as <-.
    eexists. exact (scc_nonrecursive_ranked G order Hok Hnr).
Qed.
