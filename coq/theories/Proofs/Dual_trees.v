(** C03: the epsilon part of the dual Kleene iterate is the sum over derivation trees and over
    each occurrence of a weight entry in the tree of the product of the remaining weights
    (the dual version of [Zk = tree_sum]); hence  w * dZ/dw = sum over trees of
    (number of uses of the entry in the tree) * weight(tree)  -- the numerator of the expected
    number of uses. *)
From Coq Require Import List Arith Bool PeanoNat Lia Ring Ring_theory.
Import ListNotations.
Require Import Fggs.Model.Semiring Fggs.Model.SCC Fggs.Model.SumProduct Fggs.Model.Dual.
Require Import Fggs.Proofs.BigSum Fggs.Proofs.SP_trees Fggs.Proofs.SP_nonrec
               Fggs.Proofs.Dual_ring Fggs.Proofs.Dual_leibniz.

(** the terminal edges of a derivation tree, with the values of their attachment nodes: the
    (label, index tuple) pairs whose weights are multiplied by [weight] *)
Fixpoint leaves (G : grammar) (t : dtree) : list (nat * list nat) :=
  match t with
  | DT ri a ch =>
    (fix go (ch : list (option dtree)) (es : list (nat * list nat)) {struct ch} : list (nat * list nat) :=
       match ch, es with
       | c :: ch, ed :: es =>
         (match c with
          | None => [(fst ed, sel a (snd ed))]
          | Some t' => leaves G t'
          end) ++ go ch es
       | _, _ => []
       end) ch (r_edges (get_rule G ri))
  end.

Definition key_eqb (p q : nat * list nat) : bool := Nat.eqb (fst p) (fst q) && nat_list_eqb (snd p) (snd q).

Section DualTrees.
Context {R : Type} (o : sr_ops R).
Hypothesis Hr : sr_ring o.
Add Ring RingD3 : (sr_is_srt o Hr).
Local Notation D := (dual_ops o).

Definition wt (w : env (R:=R)) (p : nat * list nat) : R := w (fst p) (snd p).

(** the weight of a tree is the product of the weights of its leaves *)
Lemma weight_leaves G (w : env (R:=R)) : forall t, weight o G w t = prodS o (leaves G t) (wt w).
Proof.
  fix IH 1. intros [ri a ch]. cbn [weight leaves].
  generalize (r_edges (get_rule G ri)). induction ch as [|c ch IHch]; intros es.
  - reflexivity.
  - destruct es as [|ed es]; [reflexivity|].
    rewrite (prodS_app o Hr), <- IHch. f_equal.
    destruct c as [t'|].
    + apply IH.
    + unfold wt. rewrite prodS_cons, prodS_nil. cbn [fst snd]. ring.
Qed.
End DualTrees.

Section DualTrees2.
Context {R : Type} (o : sr_ops R).
Hypothesis Hr : sr_ring o.
Add Ring RingD4 : (sr_is_srt o Hr).
Local Notation D := (dual_ops o).

(** the derivative of a tree's weight in the direction [d] *)
Definition dweight (G : grammar) (w d : env (R:=R)) (t : dtree) : R :=
  leib o (leaves G t) (wt w) (wt d).

Lemma snd_weight G (w d : env (R:=R)) t : snd (weight D G (denv w d) t) = dweight G w d t.
Proof.
  rewrite (weight_leaves D (dual_ring o Hr)). rewrite (snd_prodS o Hr). reflexivity.
Qed.
Lemma fst_weight G (w d : env (R:=R)) t : fst (weight D G (denv w d) t) = weight o G w t.
Proof.
  rewrite (weight_leaves D (dual_ring o Hr)), (weight_leaves o Hr). rewrite (fst_prodS o). reflexivity.
Qed.

(** C03_tree_derivative: the epsilon part of the k-th dual Kleene iterate is the sum, over the
    derivation trees of depth <= k, of the derivative of the tree's weight *)
Theorem tree_derivative G (w d : env (R:=R)) k X xi : is_term G X = false ->
  snd (Zk D G (denv w d) k X xi) = sumS o (enum_trees G k X xi) (dweight G w d).
Proof.
  intros HX. rewrite (Zk_is_tree_sum D (dual_ring o Hr) G (denv w d) k X xi HX).
  unfold tree_sum. rewrite snd_sumS. apply sumS_ext. intros t _. apply snd_weight.
Qed.

(** ** one weight entry: occurrences *)
(** the ways of singling out an occurrence of the entry [q] among the leaves *)
Definition occurrences (q : nat * list nat) (l : list (nat * list nat)) :=
  filter (fun s => key_eqb (snd (fst s)) q) (splits l).

Lemma key_eqb_eq p q : key_eqb p q = true <-> p = q.
Proof.
  unfold key_eqb. rewrite andb_true_iff, Nat.eqb_eq, nat_list_eqb_iff.
  destruct p, q; cbn. split; [intros [-> ->]; reflexivity|intros E; inversion E; tauto].
Qed.

Lemma wt_delta l0 i0 p : wt (delta_env o l0 i0) p = if key_eqb p (l0, i0) then one o else zero o.
Proof. reflexivity. Qed.

(** the derivative w.r.t. one entry = sum over its occurrences of the product of the other leaves *)
Lemma leib_delta (l : list (nat * list nat)) (w : env (R:=R)) l0 i0 :
  leib o l (wt w) (wt (delta_env o l0 i0))
  = sumS o (occurrences (l0, i0) l) (fun s => prodS o (fst (fst s) ++ snd s) (wt w)).
Proof.
  rewrite (leib_splits o Hr). unfold occurrences. rewrite (sumS_filter o Hr).
  apply sumS_ext. intros s _. rewrite wt_delta. destruct (key_eqb (snd (fst s)) (l0, i0)); ring.
Qed.

Theorem tree_derivative_entry G (w : env (R:=R)) l0 i0 k X xi : is_term G X = false ->
  grad_model o G w l0 i0 k X xi
  = sumS o (enum_trees G k X xi)
         (fun t => sumS o (occurrences (l0, i0) (leaves G t)) (fun s => prodS o (fst (fst s) ++ snd s) (wt w))).
Proof.
  intros HX. unfold grad_model, eenv. rewrite tree_derivative by exact HX.
  apply sumS_ext. intros t _. apply leib_delta.
Qed.

(** Euler: w * dZ/dw = sum over trees of (#uses of the entry) * weight -- so that
    w * dZ/dw / Z is the expected number of uses *)
Lemma occurrence_prod (l : list (nat * list nat)) (w : env (R:=R)) q s :
  In s (occurrences q l) -> mul o (wt w q) (prodS o (fst (fst s) ++ snd s) (wt w)) = prodS o l (wt w).
Proof.
  unfold occurrences. rewrite filter_In. intros [Hs Hk]. apply key_eqb_eq in Hk.
  rewrite (splits_spec l s Hs) at 1. rewrite !(prodS_app o Hr), prodS_cons, Hk. ring.
Qed.

Theorem expected_count_numerator G (w : env (R:=R)) l0 i0 k X xi : is_term G X = false ->
  mul o (w l0 i0) (grad_model o G w l0 i0 k X xi)
  = sumS o (enum_trees G k X xi)
         (fun t => mul o (from_nat o (length (occurrences (l0, i0) (leaves G t)))) (weight o G w t)).
Proof.
  intros HX. rewrite tree_derivative_entry by exact HX. rewrite (sumS_mul_l o Hr).
  apply sumS_ext. intros t _. rewrite (sumS_mul_l o Hr).
  rewrite (sumS_ext o _ _ (fun _ => weight o G w t)).
  - apply (sumS_const o Hr).
  - intros s Hs. rewrite (weight_leaves o Hr). exact (occurrence_prod (leaves G t) w (l0, i0) s Hs).
Qed.

(** the number of occurrences is the number of leaves equal to the entry *)
Lemma occurrences_count q (l : list (nat * list nat)) :
  length (occurrences q l) = length (filter (fun p => key_eqb p q) l).
Proof.
  unfold occurrences. induction l as [|x l IH]; [reflexivity|].
  rewrite splits_cons. cbn [filter fst snd].
  assert (E : length (filter (fun s : list (nat * list nat) * (nat * list nat) * list (nat * list nat) => key_eqb (snd (fst s)) q)
                             (map (fun s => (x :: fst (fst s), snd (fst s), snd s)) (splits l)))
              = length (filter (fun s : list (nat * list nat) * (nat * list nat) * list (nat * list nat) => key_eqb (snd (fst s)) q) (splits l))).
  { clear IH. induction (splits l) as [|s ss IHs]; [reflexivity|]. cbn [map filter fst snd].
    destruct (key_eqb (snd (fst s)) q); cbn [length]; now rewrite IHs. }
  destruct (key_eqb x q); cbn [length]; rewrite E, IH; reflexivity.
Qed.
End DualTrees2.
