(** C20, part 4: the oracles are not stricter than the property -- the model's own answers
    (which satisfy C20_bijection / C20_shape by the theorems of parts 1-2) pass them. *)
From Coq Require Import List Arith Bool PeanoNat ZArith QArith Lia.
Import ListNotations.
Require Import Fggs.Model.Domain Fggs.Proofs.Domain_dom Fggs.Proofs.Domain_fac.
Local Open Scope nat_scope.

Lemma map_nth_seq {A} (l : list A) : map (nth_error l) (seq 0 (length l)) = map Some l.
Proof.
  induction l as [|a l IH]; cbn [length seq map]; auto.
  rewrite <- seq_shift, map_map. cbn [nth_error]. f_equal. exact IH.
Qed.

Lemma denumberize_all items k :
  map (fun i => dom_denumberize (mk_finite k items) (vnat i)) (seq 0 (length items)) = map Ok items.
Proof.
  transitivity (map (fun o : option value => match o with Some a => Ok a | None => Err IndexErr end)
                    (map (nth_error items) (seq 0 (length items)))).
  - rewrite map_map. apply map_ext_in. intros i Hi. apply in_seq in Hi.
    cbn [mk_finite dom_denumberize]. rewrite as_int_vnat. unfold fin_denumberize.
    destruct (nth_error items i) as [a|] eqn:E.
    + apply py_index_nat; auto.
    + apply nth_error_None in E. lia.
  - rewrite map_nth_seq, map_map. reflexivity.
Qed.

Lemma lookup_combine {B} (l : list value) (x : list B) v :
  In v l -> length x = length l -> lookup (combine l x) v <> None.
Proof.
  revert x. induction l as [|a l IH]; intros [|b x] Hin Hl; cbn in *; try contradiction; try discriminate.
  destruct (value_eqb a v) eqn:E; [discriminate|].
  destruct Hin as [->|Hin]; [rewrite value_eqb_refl in E; discriminate|].
  apply IH; auto.
Qed.

Lemma in_combine_maps {A B C} (f : A -> B) (g : A -> C) l a b c :
  In (a, (b, c)) (combine l (combine (map f l) (map g l))) -> b = f a /\ c = g a.
Proof.
  induction l as [|x l IH]; cbn; [contradiction|].
  intros [H|H]; [injection H as -> -> ->; auto | auto].
Qed.

Lemma in_combine_tmaps {T B C} (f : value * T -> B) (g : value -> C) (l : list (value * T)) a b c :
  In (a, (b, c)) (combine (map fst l) (combine (map f l) (map g (map fst l)))) ->
  (exists t, b = f (a, t)) /\ c = g a.
Proof.
  induction l as [|[x t] l IH]; cbn; [contradiction|].
  intros [H|H]; [injection H as E1 E2 E3; subst; eauto | auto].
Qed.

(** the answers of the model for a duplicate-free, re-iterable FiniteDomain pass [bij_oracle],
    whatever values are probed (as long as the domain's own values are among them) *)
Theorem bij_oracle_model k items tprobes : NoDup items -> (forall v, In v items -> In v (map fst tprobes)) ->
  let d := mk_finite k items in
  let probes := map fst tprobes in
  bij_oracle items (length items)
             (combine probes (combine (map (fun p => dom_contains d (fst p) (snd p)) tprobes) (map (dom_numberize d) probes)))
             (map (fun i => dom_denumberize d (vnat i)) (seq 0 (length items))) = true.
Proof.
  intros Hnd Hsub d probes. subst probes. unfold bij_oracle. rewrite !andb_true_iff. repeat split.
  - apply Nat.eqb_refl.
  - apply (list_eqb_eq rvalue_eqb rvalue_eqb_eq). apply denumberize_all.
  - apply forallb_forall. intros v Hv.
    destruct (lookup _ v) eqn:E; auto.
    exfalso. revert E. apply lookup_combine; auto.
    rewrite combine_length, !map_length. lia.
  - apply forallb_forall. intros [v [c n]] Hin.
    apply in_combine_tmaps in Hin. destruct Hin as [[t ->] ->].
    subst d. cbn [mk_finite dom_contains dom_numberize fst snd].
    rewrite (numberize_position items v Hnd). fold (memv items v).
    destruct (position items v) as [i|] eqn:P.
    + assert (Hm : memv items v = true).
      { apply memv_In. destruct (position_Some _ _ _ P). eapply nth_error_In; eauto. }
      rewrite Hm. apply andb_true_iff. split; [apply rbool_eqb_eq | apply rvalue_eqb_eq]; reflexivity.
    + assert (Hm : memv items v = false).
      { destruct (memv items v) eqn:E; auto. apply memv_In in E. apply position_None in P. contradiction. }
      rewrite Hm. apply andb_true_iff. split; [apply rbool_eqb_eq | apply rvalue_eqb_eq]; reflexivity.
Qed.

(** the answers of the model for a RangeDomain pass [range_oracle] on every well-typed probe *)
Theorem range_oracle_model n tprobes : forallb int_flag_ok tprobes = true ->
  let d := DRange (Some n) in
  let probes := map fst tprobes in
  range_oracle n (dom_size d)
               (combine tprobes (combine (combine (map (fun p => dom_contains d (fst p) (snd p)) tprobes)
                                                  (map (dom_numberize d) probes))
                                         (map (dom_denumberize d) probes))) = true.
Proof.
  intros Hint d probes. unfold range_oracle. apply andb_true_iff. split.
  - cbn. apply Nat.eqb_refl.
  - apply forallb_forall. intros [[v b] [[c nu] de]] Hin.
    assert (Hv : In (v, b) tprobes /\ c = dom_contains d v b /\ nu = dom_numberize d v /\ de = dom_denumberize d v).
    { clear Hint. subst probes. induction tprobes as [|[x y] l IH]; cbn in Hin; [contradiction|].
      destruct Hin as [H|H]; [injection H as E1 E2 E3 E4 E5; subst; cbn; auto|].
      destruct (IH H) as [H1 H2]. split; [right|]; auto. }
    destruct Hv as [Hv [-> [-> ->]]].
    rewrite forallb_forall in Hint. specialize (Hint _ Hv). cbv beta iota zeta.
    destruct b.
    + destruct (int_flag_vint v Hint) as [z ->]. subst d. rewrite range_contains_int.
      cbn [andb dom_numberize dom_denumberize].
      apply andb_true_iff. split; [apply rbool_eqb_eq; reflexivity|].
      destruct (in_range_int n (vint z)); cbn [negb orb]; auto.
      apply andb_true_iff. split; apply rvalue_eqb_eq; reflexivity.
    + cbn. reflexivity.
Qed.

(** the model's apply passes [apply_oracle] *)
Theorem apply_oracle_model doms sh d vs :
  forallb good_dom doms = true -> sh = sizes_of doms -> length d = numel sh ->
  apply_oracle doms (sh, d) vs (fac_apply (FFinite doms sh d) vs) = true.
Proof.
  intros Hg Hs Hl. unfold apply_oracle. destruct (spec_indices doms vs) as [is|] eqn:E; auto.
  destruct (apply_spec doms sh d vs is Hg Hs Hl E) as [w [Hw Ha]]. cbn [fst snd].
  rewrite Hw, Ha. cbn. rewrite Qeq_bool_refl. reflexivity.
Qed.

Example range_oracle_example :
  let d := DRange (Some 3) in
  let tprobes := [(vint (-1), true); (vint 0, true); (vint 2, true); (vint 2, false); (vint 3, true);
                  (VNum (3#2), false); (VOther 5, false)] in
  let probes := map fst tprobes in
  range_oracle 3 (dom_size d)
    (combine tprobes (combine (combine (map (fun p => dom_contains d (fst p) (snd p)) tprobes)
                                       (map (dom_numberize d) probes))
                              (map (dom_denumberize d) probes))) = true.
Proof. reflexivity. Qed.
