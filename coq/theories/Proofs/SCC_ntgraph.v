(** nonterminal_graph: edge X -> Y iff some rule for X has a rhs edge labelled by the
    nonterminal Y; every nonterminal (with or without rules) is a vertex. *)
From Coq Require Import List Arith Bool PeanoNat Lia.
Import ListNotations.
Require Import Fggs.Model.SCC.

Lemma mem_In l x : mem l x = true <-> In x l.
Proof.
  unfold mem. rewrite existsb_exists. split.
  - intros [y [Hy He]]. apply Nat.eqb_eq in He. subst. exact Hy.
  - intros H. exists x. split; [exact H | apply Nat.eqb_refl].
Qed.

Lemma add_new_In acc w y : In y (add_new acc w) <-> In y acc \/ y = w.
Proof.
  unfold add_new. destruct (mem acc w) eqn:E.
  - apply mem_In in E. split; [auto | intros [H|H]; subst; auto].
  - rewrite in_app_iff. simpl. intuition.
Qed.

Lemma verts_upd g x w : verts (upd g x w) = verts g.
Proof.
  induction g as [|[u ws] g IH]; simpl; [reflexivity|].
  destruct (Nat.eqb u x); simpl; [reflexivity | f_equal; exact IH].
Qed.

Lemma succs_upd g x w x' y :
  In y (succs (upd g x w) x') <-> In y (succs g x') \/ (x' = x /\ In x (verts g) /\ y = w).
Proof.
  induction g as [|[u ws] g IH]; simpl.
  - intuition.
  - destruct (Nat.eqb u x) eqn:Eux.
    + apply Nat.eqb_eq in Eux. subst u. simpl.
      destruct (Nat.eqb x x') eqn:Exx.
      * apply Nat.eqb_eq in Exx. subst x'. rewrite add_new_In. intuition.
      * apply Nat.eqb_neq in Exx. intuition; congruence.
    + simpl. destruct (Nat.eqb u x') eqn:Eux'.
      * apply Nat.eqb_eq in Eux'. subst u. apply Nat.eqb_neq in Eux. intuition; congruence.
      * rewrite IH. apply Nat.eqb_neq in Eux. intuition.
Qed.

Definition rule_step (g : graph) (r : nat * list (nat * bool)) : graph :=
  fold_left (fun (g : graph) (e : nat * bool) => if snd e then upd g (fst r) (fst e) else g) (snd r) g.

Lemma verts_rule_step r g : verts (rule_step g r) = verts g.
Proof.
  unfold rule_step. generalize (snd r) as es. intros es. revert g.
  induction es as [|e es IH]; intros g; simpl; [reflexivity|].
  rewrite IH. destruct (snd e); [apply verts_upd | reflexivity].
Qed.

Lemma succs_rule_step r g x y :
  In y (succs (rule_step g r) x) <->
  In y (succs g x) \/ (x = fst r /\ In x (verts g) /\ In (y, true) (snd r)).
Proof.
  unfold rule_step. generalize (snd r) as es. intros es. revert g.
  induction es as [|e es IH]; intros g; simpl.
  - intuition.
  - rewrite IH. destruct e as [l b]; simpl. destruct b.
    + rewrite succs_upd, verts_upd. split.
      * intros [[H|[H1 [H2 H3]]]|[H1 [H2 H3]]]; subst; auto 6.
      * intros [H|[H1 [H2 [H3|H3]]]]; subst; auto 6.
        inversion H3; subst. auto 6.
    + split.
      * intros [H|[H1 [H2 H3]]]; auto 6.
      * intros [H|[H1 [H2 [H3|H3]]]]; auto 6. discriminate.
Qed.

Lemma ntgraph_unfold nts rules :
  ntgraph nts rules = fold_left rule_step rules (map (fun x => (x, @nil nat)) nts).
Proof. reflexivity. Qed.

Lemma verts_fold rules g : verts (fold_left rule_step rules g) = verts g.
Proof.
  revert g. induction rules as [|r rules IH]; intros g; simpl; [reflexivity|].
  rewrite IH. apply verts_rule_step.
Qed.

Lemma succs_fold rules g x y :
  In y (succs (fold_left rule_step rules g) x) <->
  In y (succs g x) \/ (In x (verts g) /\ exists r, In r rules /\ fst r = x /\ In (y, true) (snd r)).
Proof.
  revert g. induction rules as [|r rules IH]; intros g; simpl.
  - split; [auto | intros [H|[_ [r [[] _]]]]; exact H].
  - rewrite IH, succs_rule_step, verts_rule_step. split.
    + intros [[H|[H1 [H2 H3]]]|[H1 [r' [H2 [H3 H4]]]]]; auto.
      * right. split; [exact H2|]. exists r. auto.
      * right. split; [exact H1|]. exists r'. auto.
    + intros [H|[H1 [r' [[H2|H2] [H3 H4]]]]]; auto.
      * subst r'. left. right. auto.
      * right. split; [exact H1|]. exists r'. auto.
Qed.

Lemma succs_init nts x : succs (map (fun x => (x, @nil nat)) nts) x = [].
Proof. induction nts as [|a nts IH]; simpl; [reflexivity|]. destruct (Nat.eqb a x); auto. Qed.

Lemma verts_init nts : verts (map (fun x => (x, @nil nat)) nts) = nts.
Proof. unfold verts. rewrite map_map. simpl. apply map_id. Qed.

Theorem ntgraph_verts nts rules : verts (ntgraph nts rules) = nts.
Proof. rewrite ntgraph_unfold, verts_fold. apply verts_init. Qed.

Theorem ntgraph_edge nts rules x y :
  In y (succs (ntgraph nts rules) x) <->
  In x nts /\ exists r, In r rules /\ fst r = x /\ In (y, true) (snd r).
Proof.
  rewrite ntgraph_unfold, succs_fold, succs_init, verts_init. simpl. intuition.
Qed.

(** the oracle [ntg_ok] is sound: whatever graph it accepts has exactly the specified
    vertices and edges *)
Lemma list_eqb_eq a b : list_eqb a b = true -> a = b.
Proof.
  unfold list_eqb. revert b. induction a as [|x a IH]; intros [|y b]; simpl; try discriminate; auto.
  intros H. apply andb_prop in H. destruct H as [Hl H]. apply andb_prop in H. destruct H as [Hxy H].
  apply Nat.eqb_eq in Hxy. subst y. f_equal. apply IH. rewrite Hl. exact H.
Qed.

Lemma has_edge_spec_iff rules x y :
  has_edge_spec rules x y = true <-> exists r, In r rules /\ fst r = x /\ In (y, true) (snd r).
Proof.
  unfold has_edge_spec. rewrite existsb_exists. split.
  - intros [r [Hr H]]. apply andb_prop in H. destruct H as [H1 H2]. apply Nat.eqb_eq in H1.
    apply existsb_exists in H2. destruct H2 as [[l b] [He H2]]. simpl in H2.
    apply andb_prop in H2. destruct H2 as [Hb Hl]. apply Nat.eqb_eq in Hl. subst. exists r. auto.
  - intros [r [Hr [H1 H2]]]. exists r. split; [exact Hr|]. rewrite H1, Nat.eqb_refl. simpl.
    apply existsb_exists. exists (y, true). simpl. rewrite Nat.eqb_refl. auto.
Qed.

Theorem ntg_ok_sound nts rules g :
  ntg_ok nts rules g = true ->
  verts g = nts /\
  (forall x y, In x nts -> In y (succs g x) -> In y nts) /\
  forall x y, In x nts -> In y nts ->
    (In y (succs g x) <-> exists r, In r rules /\ fst r = x /\ In (y, true) (snd r)).
Proof.
  unfold ntg_ok. intros H. apply andb_prop in H. destruct H as [Hv H].
  apply list_eqb_eq in Hv. split; [exact Hv|].
  rewrite forallb_forall in H. split.
  - intros x y Hx Hy. specialize (H x Hx). apply andb_prop in H. destruct H as [_ H2].
    rewrite forallb_forall in H2. apply mem_In, H2, Hy.
  - intros x y Hx Hyn. specialize (H x Hx). apply andb_prop in H. destruct H as [H1 _].
    rewrite forallb_forall in H1. specialize (H1 y Hyn). apply eqb_prop in H1.
    rewrite <- has_edge_spec_iff, <- H1. symmetry. apply mem_In.
Qed.
