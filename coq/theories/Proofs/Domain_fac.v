(** C20, part 2: FiniteFactor -- the weights setter accepts exactly the weights whose shape is the
    tuple of the domains' sizes; apply returns the weight at the row-major position of the
    numberized values; factor equality is by domains and elementwise weights; soundness of
    ctor_oracle and apply_oracle. *)
From Coq Require Import List Arith Bool PeanoNat ZArith QArith Lia.
Import ListNotations.
Require Import Fggs.Model.Domain Fggs.Proofs.Domain_dom.
Local Open Scope nat_scope.

(** * Nested lists: what torch.tensor accepts *)

(** [has_shape sh n]: n is a regular nested list of shape sh *)
Fixpoint has_shape (sh : list nat) (n : nested) : Prop :=
  match sh with
  | [] => exists q, n = NLeaf q
  | s :: sh' => exists l, n = NNode l /\ length l = s /\ Forall (has_shape sh') l
  end.
Fixpoint nflat (n : nested) : list Q :=
  match n with NLeaf q => [q] | NNode l => flat_map nflat l end.

Lemma mapM_iff {A B} (f : A -> result B) (P : A -> Prop) (g : A -> B) :
  (forall a b, f a = Ok b <-> P a /\ b = g a) ->
  forall l bs, mapM f l = Ok bs <-> Forall P l /\ bs = map g l.
Proof.
  intros Hf. induction l as [|a l IH]; intros bs; cbn.
  - split.
    + intros H; injection H as <-. split; auto.
    + intros [_ ->]. reflexivity.
  - destruct (f a) as [b|e] eqn:Ea.
    + apply Hf in Ea. destruct Ea as [Pa ->].
      destruct (mapM f l) as [bs'|e] eqn:El.
      * destruct (proj1 (IH bs') eq_refl) as [Pl ->]. split.
        -- intros H; injection H as <-. split; auto.
        -- intros [_ ->]. reflexivity.
      * split; [discriminate|]. intros [HF ->]. inversion HF; subst.
        assert (Err e = Ok (map g l)) by (apply IH; auto). discriminate.
    + split; [discriminate|]. intros [HF ->]. inversion HF; subst.
      assert (f a = Ok (g a)) by (apply Hf; auto). congruence.
Qed.

Lemma store_iff sh : forall n d, store sh n = Ok d <-> has_shape sh n /\ d = nflat n.
Proof.
  induction sh as [|s sh IH]; intros n d; cbn [store has_shape].
  - destruct n as [q|l].
    + split.
      * intros H; injection H as <-. split; eauto.
      * intros [_ ->]. reflexivity.
    + split; [discriminate|]. intros [[q H] _]. discriminate.
  - destruct n as [q|l].
    + split; [discriminate|]. intros [[l [H _]] _]. discriminate.
    + destruct (Nat.eqb (length l) s) eqn:E.
      * apply Nat.eqb_eq in E.
        pose proof (mapM_iff (store sh) (has_shape sh) nflat IH l) as HM.
        destruct (mapM (store sh) l) as [ds|e] eqn:El.
        -- destruct (proj1 (HM ds) eq_refl) as [HF ->]. split.
           ++ intros H; injection H as <-. split; [exists l; auto|].
              cbn [nflat]. rewrite flat_map_concat_map. reflexivity.
           ++ intros [_ ->]. cbn [nflat]. rewrite flat_map_concat_map. reflexivity.
        -- split; [discriminate|]. intros [[l' [Hl [_ HF]]] _]. injection Hl as <-.
           assert (Err e = Ok (map nflat l)) by (apply HM; auto). discriminate.
      * split; [discriminate|]. intros [[l' [Hl [Hlen _]]] _]. injection Hl as <-.
        apply Nat.eqb_neq in E. contradiction.
Qed.

Lemma has_shape_length sh : forall n, has_shape sh n -> length (nflat n) = numel sh.
Proof.
  induction sh as [|s sh IH]; intros n; cbn [has_shape numel].
  - intros [q ->]. reflexivity.
  - intros [l [-> [<- HF]]]. cbn [nflat].
    induction HF as [|x l Hx HF IHl]; cbn; auto.
    rewrite app_length, IHl, (IH x Hx). reflexivity.
Qed.

Lemma has_shape_sizes sh : forall n, has_shape sh n -> numel sh <> 0 -> compute_sizes n = sh.
Proof.
  induction sh as [|s sh IH]; intros n; cbn [has_shape numel].
  - intros [q ->] _. reflexivity.
  - intros [l [-> [<- HF]]] Hne. cbn [compute_sizes]. f_equal.
    destruct l as [|x l]; [cbn in Hne; lia|].
    inversion HF; subst. apply IH; auto. cbn in Hne. intros E. rewrite E in Hne. lia.
Qed.

(** torch.tensor accepts every regular, non-empty nested list with its shape and row-major data,
    and whatever non-empty tensor it returns came from a regular nested list *)
Theorem nested_accepted sh n : has_shape sh n -> numel sh <> 0 ->
  tensor_of_nested n = Ok (sh, nflat n).
Proof.
  intros Hs Hne. unfold tensor_of_nested. rewrite (has_shape_sizes sh n Hs Hne).
  destruct (Nat.eqb (numel sh) 0) eqn:E; [apply Nat.eqb_eq in E; contradiction|].
  assert (H : store sh n = Ok (nflat n)) by (apply store_iff; auto). rewrite H. reflexivity.
Qed.

Theorem nested_accepted_only n sh d : tensor_of_nested n = Ok (sh, d) -> numel sh <> 0 ->
  has_shape sh n /\ d = nflat n /\ length d = numel sh.
Proof.
  unfold tensor_of_nested. destruct (Nat.eqb (numel (compute_sizes n)) 0) eqn:E.
  - intros H; injection H as <- <-. apply Nat.eqb_eq in E. contradiction.
  - destruct (store (compute_sizes n) n) as [d'|e] eqn:S; [|discriminate].
    intros H; injection H as <- <-. intros _. apply store_iff in S. destruct S as [Hs ->].
    split; auto. split; auto. apply has_shape_length; auto.
Qed.

(** the quirk: an empty tensor is returned without looking at the elements ([[], [0.75]] has
    "shape" (2, 0)) *)
Theorem nested_empty n : numel (compute_sizes n) = 0 -> tensor_of_nested n = Ok (compute_sizes n, []).
Proof. intros H. unfold tensor_of_nested. rewrite H. reflexivity. Qed.

Example nested_example :
  has_shape [2; 3] (NNode [NNode [NLeaf 1; NLeaf 2; NLeaf 3]; NNode [NLeaf 4; NLeaf 5; NLeaf 6]]) /\
  tensor_of_nested (NNode [NNode []; NNode [NLeaf 1]]) = Ok ([2; 0], []) /\
  tensor_of_nested (NNode [NNode [NLeaf 1]; NNode []]) = Err ValueErr /\
  tensor_of_nested (NNode [NLeaf 1; NNode [NLeaf 1]]) = Err TypeErr.
Proof.
  split; [|repeat split; reflexivity].
  exists [NNode [NLeaf 1; NLeaf 2; NLeaf 3]; NNode [NLeaf 4; NLeaf 5; NLeaf 6]]. repeat split.
  repeat constructor; eexists; repeat split; repeat constructor; eexists; reflexivity.
Qed.

Lemma to_tensor_wf w sh d : to_tensor w = Ok (sh, d) ->
  match w with WNested _ => True | _ => length d = numel sh end -> length d = numel sh.
Proof.
  destruct w as [n|sh' d'|sh' d']; cbn [to_tensor]; auto.
  intros H _. destruct (Nat.eq_dec (numel sh) 0) as [E|E].
  - unfold tensor_of_nested in H. destruct (Nat.eqb (numel (compute_sizes n)) 0) eqn:E'.
    + injection H as <- <-. rewrite E. reflexivity.
    + destruct (store (compute_sizes n) n); [|discriminate]. injection H as <- <-.
      apply Nat.eqb_neq in E'. contradiction.
  - apply (nested_accepted_only n sh d H E).
Qed.

(** * The constructor / weights setter *)
Lemma sizes_of_size doms : forallb size_finite doms = true ->
  map dom_size doms = map Some (sizes_of doms).
Proof.
  induction doms as [|d doms IH]; cbn; auto.
  rewrite andb_true_iff. intros [Hd Hr]. rewrite (IH Hr). f_equal.
  unfold size_finite, size_or0 in *. destruct (dom_size d); [reflexivity|discriminate].
Qed.

Lemma nat_list_eqb_eq a b : list_eqb Nat.eqb a b = true <-> a = b.
Proof. apply (list_eqb_eq Nat.eqb Nat.eqb_eq). Qed.

(** a FiniteFactor is constructed exactly when all domains are finite and the weights convert
    to a tensor whose shape is the tuple of the domains' sizes; it then holds those weights *)
Theorem finite_factor_accepts_iff doms w f :
  mk_finite_factor doms w = Ok f <->
  forallb size_finite doms = true /\
  exists sh d, to_tensor w = Ok (sh, d) /\ sh = sizes_of doms /\ f = FFinite doms sh d.
Proof.
  unfold mk_finite_factor. destruct (forallb size_finite doms); cbn [negb].
  2:{ split; [discriminate|]. intros [H _]. discriminate. }
  destruct (to_tensor w) as [[sh d]|e].
  - destruct (list_eqb Nat.eqb sh (sizes_of doms)) eqn:E.
    + apply nat_list_eqb_eq in E. split.
      * intros H; injection H as <-. split; auto. exists sh, d. auto.
      * intros [_ [sh' [d' [H [_ ->]]]]]. injection H as <- <-. reflexivity.
    + split; [discriminate|]. intros [_ [sh' [d' [H [-> _]]]]]. injection H as -> _.
      assert (list_eqb Nat.eqb (sizes_of doms) (sizes_of doms) = true) by (apply nat_list_eqb_eq; auto).
      congruence.
  - split; [discriminate|]. intros [_ [sh' [d' [H _]]]]. discriminate.
Qed.

(** the error raised otherwise: TypeError for an infinite domain (checked first), else the
    error of the tensor conversion, else ValueError for the wrong shape *)
Theorem finite_factor_rejects doms w :
  (forallb size_finite doms = false -> mk_finite_factor doms w = Err TypeErr) /\
  (forallb size_finite doms = true -> forall e, to_tensor w = Err e -> mk_finite_factor doms w = Err e) /\
  (forallb size_finite doms = true -> forall sh d, to_tensor w = Ok (sh, d) -> sh <> sizes_of doms ->
     mk_finite_factor doms w = Err ValueErr).
Proof.
  unfold mk_finite_factor. repeat split.
  - intros ->. reflexivity.
  - intros -> e ->. reflexivity.
  - intros -> sh d -> Hne. cbn [negb].
    destruct (list_eqb Nat.eqb sh (sizes_of doms)) eqn:E; auto.
    apply nat_list_eqb_eq in E. contradiction.
Qed.

(** for the three forms of weights: given as a Tensor or PatternedTensor of shape sh the factor is
    accepted iff sh is the tuple of sizes; given as a regular non-empty nested list likewise *)
Corollary finite_factor_shape_iff doms sh d : forallb size_finite doms = true ->
  ((exists f, mk_finite_factor doms (WTensor sh d) = Ok f) <-> sh = sizes_of doms) /\
  ((exists f, mk_finite_factor doms (WPatterned sh d) = Ok f) <-> sh = sizes_of doms) /\
  (forall n, has_shape sh n -> numel sh <> 0 ->
     ((exists f, mk_finite_factor doms (WNested n) = Ok f) <-> sh = sizes_of doms)).
Proof.
  intros Hf.
  assert (G : forall w dd, to_tensor w = Ok (sh, dd) ->
              ((exists f, mk_finite_factor doms w = Ok f) <-> sh = sizes_of doms)).
  { intros w dd Hw. split.
    - intros [f H]. apply finite_factor_accepts_iff in H.
      destruct H as [_ [sh' [d' [H [E _]]]]]. rewrite Hw in H. injection H as <- _. auto.
    - intros E. exists (FFinite doms sh dd). apply finite_factor_accepts_iff. split; auto.
      exists sh, dd. auto. }
  split; [apply (G _ d); reflexivity|]. split; [apply (G _ d); reflexivity|].
  intros n Hs Hne. apply (G _ (nflat n)). cbn. apply nested_accepted; auto.
Qed.

Example finite_factor_example :
  let da := mk_finite Reiterable [VOther 0; VOther 1] in
  let db := mk_finite Reiterable [VNum 1; VNum 2; VNum 3] in
  mk_finite_factor [da; db] (WTensor [2; 3] [1; 2; 3; 4; 5; 6]%Q) = Ok (FFinite [da; db] [2; 3] [1; 2; 3; 4; 5; 6]%Q) /\
  mk_finite_factor [da; db] (WTensor [3; 2] [1; 2; 3; 4; 5; 6]%Q) = Err ValueErr.
Proof. split; reflexivity. Qed.

(** * apply *)
Lemma idx_eqb_eq a b : idx_eqb a b = true <-> a = b.
Proof.
  unfold idx_eqb. apply list_eqb_eq. intros [x i] [y j]; cbn.
  rewrite andb_true_iff, value_eqb_eq, Nat.eqb_eq. split; [intros [-> ->]; auto | intros H; injection H; auto].
Qed.

Lemma good_dom_index d v i : good_dom d = true -> spec_index d v = Some i ->
  dom_numberize d v = Ok (vnat i) /\ i < size_or0 d.
Proof.
  destruct d as [vs idx|[n|]]; cbn [good_dom spec_index dom_numberize size_or0 dom_size]; try discriminate.
  - rewrite andb_true_iff. intros [Hnd Hidx] Hp.
    apply nodupv_NoDup in Hnd. fold (idx_eqb idx (build_index vs)) in Hidx. apply idx_eqb_eq in Hidx. subst idx.
    rewrite (numberize_position vs v Hnd), Hp. split; auto. apply (position_Some _ _ _ Hp).
  - intros _. destruct (in_range_int n v) eqn:E; [|discriminate].
    destruct (as_int v) as [z|] eqn:Ez; [|discriminate]. intros H; injection H as <-.
    unfold in_range_int in E. rewrite Ez in E. apply andb_true_iff in E. rewrite Z.leb_le, Z.ltb_lt in E.
    apply as_int_Some in Ez. subst v. unfold vnat. rewrite Z2Nat.id by lia. split; auto. lia.
Qed.

Lemma spec_indices_numberize doms : forall vs is,
  forallb good_dom doms = true -> spec_indices doms vs = Some is ->
  numberize_all doms vs = Ok (map vnat is) /\ Forall2 lt is (sizes_of doms).
Proof.
  unfold numberize_all.
  induction doms as [|d doms IH]; intros [|v vs] is Hg; cbn [spec_indices]; try discriminate.
  - intros H; injection H as <-. cbn. split; constructor.
  - cbn in Hg. apply andb_true_iff in Hg. destruct Hg as [Hd Hg].
    destruct (spec_index d v) as [i|] eqn:Ei; [|discriminate].
    destruct (spec_indices doms vs) as [is'|] eqn:Es; [|discriminate].
    intros H; injection H as <-.
    destruct (good_dom_index d v i Hd Ei) as [Hn Hl].
    destruct (IH vs is' Hg Es) as [Hm HF].
    cbn [combine mapM fst snd]. rewrite Hn, Hm. split; [reflexivity|].
    unfold sizes_of. cbn [map]. constructor; auto.
Qed.

Lemma index_axes_ok : forall is sh acc, Forall2 lt is (firstn (length is) sh) -> length is <= length sh ->
  index_axes sh (map vnat is) acc = Ok (rm_offset sh is acc, skipn (length is) sh).
Proof.
  induction is as [|i is IH]; intros sh acc HF Hl; cbn [map index_axes].
  - destruct sh; reflexivity.
  - destruct sh as [|s sh]; [cbn in Hl; lia|].
    cbn in HF. inversion HF; subst. cbn [index_axes]. rewrite as_int_vnat.
    assert (((0 <=? Z.of_nat i) && (Z.of_nat i <? Z.of_nat s))%Z = true) as ->.
    { apply andb_true_iff. rewrite Z.leb_le, Z.ltb_lt. lia. }
    rewrite Nat2Z.id. cbn [rm_offset length skipn]. apply IH; auto. cbn in Hl. lia.
Qed.

Lemma rm_offset_lt : forall sh is acc, Forall2 lt is sh -> rm_offset sh is acc < (acc + 1) * numel sh.
Proof.
  induction sh as [|s sh IH]; intros is acc HF; inversion HF; subst; cbn [rm_offset numel].
  - lia.
  - specialize (IH _ (acc * s + x) H3). nia.
Qed.

Lemma Forall2_len {A B} (R : A -> B -> Prop) a b : Forall2 R a b -> length a = length b.
Proof. induction 1; cbn; auto. Qed.

Lemma firstn1_skipn {A} (d : list A) : forall k w, nth_error d k = Some w -> firstn 1 (skipn k d) = [w].
Proof.
  induction d as [|a d IH]; intros [|k] w; cbn; try discriminate.
  - intros H; injection H as ->. reflexivity.
  - apply IH.
Qed.

(** On a complete tuple of values, each in its (duplicate-free, correctly indexed) FiniteDomain
    or within its RangeDomain, [apply] returns the 0-dimensional tensor holding the weight at the
    row-major position of the numberized values -- and that position exists. *)
Theorem apply_spec doms sh d vs is :
  forallb good_dom doms = true -> sh = sizes_of doms -> length d = numel sh ->
  spec_indices doms vs = Some is ->
  exists w, nth_error d (rm_offset sh is 0) = Some w /\
            fac_apply (FFinite doms sh d) vs = Ok ([], [w]).
Proof.
  intros Hg -> Hlen Hs.
  destruct (spec_indices_numberize doms vs is Hg Hs) as [Hn HF].
  assert (Hl : length is = length (sizes_of doms)) by (eapply Forall2_len; eauto).
  pose proof (rm_offset_lt _ _ 0 HF) as Hlt. cbn in Hlt. rewrite Nat.add_0_r in Hlt.
  destruct (nth_error d (rm_offset (sizes_of doms) is 0)) as [w|] eqn:E.
  2:{ apply nth_error_None in E. lia. }
  exists w. split; auto. cbn [fac_apply]. rewrite Hn. unfold getitem. cbn [fst snd].
  rewrite index_axes_ok.
  - rewrite Hl, skipn_all. cbn [numel]. rewrite Nat.mul_1_r, (firstn1_skipn d _ w E). reflexivity.
  - rewrite Hl, firstn_all. auto.
  - lia.
Qed.

Example apply_example :
  let da := mk_finite Reiterable [VOther 0; VOther 1] in
  let db := mk_finite Reiterable [VNum 1; VNum 2; VNum 3] in
  forallb good_dom [da; db] = true /\
  spec_indices [da; db] [VOther 1; VNum 3] = Some [1; 2] /\
  fac_apply (FFinite [da; db] [2; 3] [1; 2; 3; 4; 5; 6]%Q) [VOther 1; VNum 3] = Ok ([], [6%Q]).
Proof. repeat split; reflexivity. Qed.

(** a value that is not in its FiniteDomain makes apply raise KeyError *)
Theorem apply_keyerror d doms sh w v vs :
  (exists vals idx, d = DFinite vals idx /\ dget value_eqb idx v = None) ->
  fac_apply (FFinite (d :: doms) sh w) (v :: vs) = Err KeyErr.
Proof.
  intros [vals [idx [-> H]]]. cbn [fac_apply]. unfold numberize_all. cbn [combine mapM fst snd dom_numberize].
  unfold fin_numberize. rewrite H. reflexivity.
Qed.

(** * Equality *)
Lemma list_eqb_Forall2 {A} (e : A -> A -> bool) (R : A -> A -> Prop) :
  (forall x y, e x y = true <-> R x y) ->
  forall a b, list_eqb e a b = true <-> Forall2 R a b.
Proof.
  intros He a. induction a as [|x a IH]; intros [|y b]; cbn.
  - split; [constructor | reflexivity].
  - split; [discriminate|]. intros H; inversion H.
  - split; [discriminate|]. intros H; inversion H.
  - rewrite andb_true_iff, He, IH. split.
    + intros [H1 H2]. constructor; auto.
    + intros H; inversion H; auto.
Qed.

(** factor equality: same class, domains equal by content, same shape and elementwise equal weights *)
Theorem fac_eq_by_content f g :
  fac_eqb f g = true <->
  match f, g with
  | FFinite d1 s1 w1, FFinite d2 s2 w2 =>
    Forall2 (fun a b => dom_content a = dom_content b) d1 d2 /\ s1 = s2 /\ Forall2 Qeq w1 w2
  | FConst d1 w1, FConst d2 w2 =>
    Forall2 (fun a b => dom_content a = dom_content b) d1 d2 /\ Qeq w1 w2
  | _, _ => False
  end.
Proof.
  destruct f as [d1 s1 w1|d1 w1], g as [d2 s2 w2|d2 w2]; cbn [fac_eqb]; try (split; [discriminate|tauto]).
  - unfold tensor_eqb; cbn [fst snd]. rewrite !andb_true_iff.
    rewrite (list_eqb_Forall2 dom_eqb _ dom_eqb_content), nat_list_eqb_eq,
            (list_eqb_Forall2 Qeq_bool Qeq Qeq_bool_iff). tauto.
  - rewrite andb_true_iff, (list_eqb_Forall2 dom_eqb _ dom_eqb_content), Qeq_bool_iff. tauto.
Qed.

(** * Soundness of the oracles *)
Theorem ctor_oracle_sound doms w accepted : ctor_oracle doms w accepted = true ->
  (accepted = true <->
   forallb size_finite doms = true /\ exists sh d, to_tensor w = Ok (sh, d) /\ sh = sizes_of doms).
Proof.
  unfold ctor_oracle. intros H. apply eqb_prop in H. subst accepted.
  rewrite andb_true_iff. destruct (to_tensor w) as [[sh d]|e].
  - rewrite nat_list_eqb_eq. split.
    + intros [H1 H2]. split; auto. exists sh, d. auto.
    + intros [H1 [sh' [d' [H2 H3]]]]. injection H2 as <- <-. auto.
  - split; [intros [_ H]; discriminate | intros [_ [sh [d [H _]]]]; discriminate].
Qed.

(** the model's constructor passes the oracle: it accepts exactly what the property demands *)
Theorem ctor_oracle_model doms w :
  ctor_oracle doms w (match mk_finite_factor doms w with Ok _ => true | Err _ => false end) = true.
Proof.
  unfold ctor_oracle, mk_finite_factor.
  destruct (forallb size_finite doms); cbn [negb andb]; [|reflexivity].
  destruct (to_tensor w) as [[sh d]|e]; [|reflexivity].
  destruct (list_eqb Nat.eqb sh (sizes_of doms)); reflexivity.
Qed.

Theorem apply_oracle_sound doms t vs r : apply_oracle doms t vs r = true ->
  forall is, spec_indices doms vs = Some is ->
  exists w d', nth_error (snd t) (rm_offset (fst t) is 0) = Some w /\
               r = Ok ([], d') /\ Forall2 Qeq d' [w].
Proof.
  unfold apply_oracle. intros H is Hs. rewrite Hs in H.
  destruct (nth_error (snd t) (rm_offset (fst t) is 0)) as [w|]; [|discriminate].
  destruct r as [[sh' d']|e]; unfold result_eqb, tensor_eqb in H; cbn [fst snd] in H; [|discriminate].
  apply andb_true_iff in H. destruct H as [H1 H2].
  apply nat_list_eqb_eq in H1. subst sh'.
  apply (list_eqb_Forall2 Qeq_bool Qeq Qeq_bool_iff) in H2.
  exists w, d'. auto.
Qed.

(** what [spec_indices] means: the tuple is complete and every value has its position *)
Theorem spec_indices_iff doms : forall vs is,
  spec_indices doms vs = Some is <->
  length vs = length doms /\ length is = length doms /\
  forall k d v i, nth_error doms k = Some d -> nth_error vs k = Some v -> nth_error is k = Some i ->
                  spec_index d v = Some i.
Proof.
  induction doms as [|d doms IH]; intros [|v vs] is; cbn [spec_indices length].
  - split.
    + intros H; injection H as <-. repeat split; auto. intros [|k]; discriminate.
    + intros [_ [H _]]. destruct is; [reflexivity|discriminate].
  - split; [discriminate|]. intros [H _]. discriminate.
  - split; [discriminate|]. intros [H _]. discriminate.
  - destruct (spec_index d v) as [i|] eqn:Ei.
    + destruct (spec_indices doms vs) as [is'|] eqn:Es.
      * apply IH in Es. destruct Es as [L1 [L2 Hk]]. split.
        -- intros H; injection H as <-. cbn [length]. repeat split; try lia.
           intros [|k] d0 v0 i0; cbn.
           ++ intros H1 H2 H3. injection H1 as <-. injection H2 as <-. injection H3 as <-. auto.
           ++ apply Hk.
        -- intros [L1' [L2' Hk']]. destruct is as [|i0 is]; [discriminate|].
           assert (Ei0 : spec_index d v = Some i0) by (apply (Hk' 0 d v i0); reflexivity).
           assert (i0 = i) by congruence. subst i0. f_equal. f_equal.
           assert (Es' : spec_indices doms vs = Some is).
           { apply IH. cbn in L2'. repeat split; try lia. intros k. apply (Hk' (S k)). }
           assert (spec_indices doms vs = Some is') by (apply IH; auto). congruence.
      * split; [discriminate|]. intros [L1' [L2' Hk']]. destruct is as [|i0 is]; [discriminate|].
        assert (Es' : spec_indices doms vs = Some is).
        { apply IH. cbn in L2'. repeat split; try lia. intros k. apply (Hk' (S k)). }
        congruence.
    + split; [discriminate|]. intros [L1' [L2' Hk']]. destruct is as [|i0 is]; [discriminate|].
      assert (spec_index d v = Some i0) by (apply (Hk' 0 d v i0); reflexivity). congruence.
Qed.
