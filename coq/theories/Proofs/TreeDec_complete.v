(** Completeness of the executable checker [td_ok]: every valid tree decomposition (in the
    Prop-level sense [valid_td] of TreeDec_tdok.v) of a graph with distinct keys is accepted.
    Ingredients: (1) leaf peeling succeeds on every tree, whichever leaf it picks
    ([leaf_removal], [peel_complete]); (2) a connected induced subgraph of a tree is a tree
    ([induced_subtree]) -- this turns the walk formulation of the running-intersection
    property into what the checker tests. *)
From Coq Require Import List Arith Bool PeanoNat Lia Permutation Setoid Morphisms.
Import ListNotations.
Require Import Fggs.Model.TreeDec Fggs.Proofs.TreeDec_graph Fggs.Proofs.TreeDec_tdok.

(** * generalities *)
Lemma perm_filter {A} (f : A -> bool) l l' : Permutation l l' -> Permutation (filter f l) (filter f l').
Proof.
  induction 1 as [|x l l' P IH|x y l|l l' l'' P1 IH1 P2 IH2]; cbn; auto.
  - destruct (f x); auto.
  - destruct (f x); destruct (f y); auto. apply perm_swap.
  - eapply perm_trans; eauto.
Qed.
Lemma filter_none {A} (f : A -> bool) l : (forall x, In x l -> f x = false) -> filter f l = [].
Proof.
  induction l as [|x l IH]; cbn; intro H; auto. rewrite (H x) by auto. apply IH. auto.
Qed.
Lemma filter_all {A} (f : A -> bool) l : (forall x, In x l -> f x = true) -> filter f l = l.
Proof.
  induction l as [|x l IH]; cbn; intro H; auto. rewrite (H x) by auto. f_equal. apply IH. auto.
Qed.

Lemma tree_on_perm ns es ns' es' :
  tree_on ns es -> Permutation ns ns' -> Permutation es es' -> tree_on ns' es'.
Proof.
  intros T Pn Pe. destruct T as [v|ns0 es0 v u e ns1 es1 T Hu Hv He Pn1 Pe1].
  - apply Permutation_length_1_inv in Pn. apply Permutation_nil in Pe. subst. constructor.
  - eapply tree_leaf; eauto.
    + eapply perm_trans; [apply Permutation_sym; exact Pn|exact Pn1].
    + eapply perm_trans; [apply Permutation_sym; exact Pe|exact Pe1].
Qed.

Lemma incident_true v e : incident v e = true <-> fst e = v \/ snd e = v.
Proof. unfold incident. rewrite orb_true_iff, !Nat.eqb_eq. tauto. Qed.
Lemma incident_false v e : incident v e = false <-> fst e <> v /\ snd e <> v.
Proof. unfold incident. rewrite orb_false_iff, !Nat.eqb_neq. tauto. Qed.

Lemma tree_no_incident ns es v : tree_on ns es -> ~ In v ns -> forall e, In e es -> incident v e = false.
Proof.
  intros T Hv [a b] He. destruct (tree_on_edges_in _ _ a b T He) as [Ha Hb].
  apply incident_false. cbn. split; intro; subst; auto.
Qed.

Lemma leaf_edge_incident x w e : (e = (x, w) \/ e = (w, x)) -> incident w e = true.
Proof. intros [->| ->]; apply incident_true; cbn; auto. Qed.
Lemma leaf_edge_other x w e : x <> w -> (e = (x, w) \/ e = (w, x)) -> other_end w e = x /\ other_end x e = w.
Proof.
  intros Hne [->| ->]; unfold other_end; cbn.
  - destruct (Nat.eqb_spec x w); [congruence|]. rewrite Nat.eqb_refl. auto.
  - rewrite Nat.eqb_refl. destruct (Nat.eqb_spec w x); [congruence|]. auto.
Qed.
Lemma leaf_edge_incident_iff x w e v : (e = (x, w) \/ e = (w, x)) -> (incident v e = true <-> v = x \/ v = w).
Proof. intros [->| ->]; rewrite incident_true; cbn; intuition. Qed.

(** * removing any leaf of a tree leaves a tree *)
Lemma leaf_removal ns es : tree_on ns es -> forall v e, In v ns -> 2 <= length ns ->
  filter (incident v) es = [e] ->
  other_end v e <> v /\ In (other_end v e) ns /\
  tree_on (set_remove v ns) (filter (fun e => negb (incident v e)) es).
Proof.
  induction 1 as [v0|ns0 es0 w x e0 ns' es' T0 IH Hx Hw He Pn Pe]; intros v e Hv L F.
  - cbn in L. lia.
  - assert (Hxw : x <> w) by (intro; subst; auto).
    pose proof (perm_filter (incident v) _ _ Pe) as P1. rewrite F in P1.
    apply Permutation_length_1_inv in P1.
    pose proof (perm_filter (fun e => negb (incident v e)) _ _ Pe) as P2.
    assert (P3 : Permutation (set_remove v ns') (set_remove v (w :: ns0))) by (apply perm_filter; exact Pn).
    assert (Hin : forall y, In y (w :: ns0) -> In y ns').
    { intros y Hy. eapply Permutation_in; [apply Permutation_sym; exact Pn|exact Hy]. }
    assert (Hv' : In v (w :: ns0)) by (eapply Permutation_in; [exact Pn|exact Hv]).
    cbn [filter] in P1, P2.
    destruct (Nat.eq_dec v w) as [->|Hvw].
    + (* the leaf attached last *)
      rewrite (leaf_edge_incident x w e0 He) in P1, P2. cbn [negb] in P2.
      rewrite (filter_none (incident w) es0 (tree_no_incident _ _ w T0 Hw)) in P1.
      inversion P1; subst e. destruct (leaf_edge_other x w e0 Hxw He) as [O1 _]. rewrite O1.
      split; auto. split; [apply Hin; cbn; auto|].
      rewrite (filter_all (fun e => negb (incident w e)) es0) in P2.
      2:{ intros e1 He1. rewrite (tree_no_incident _ _ w T0 Hw e1 He1). reflexivity. }
      eapply tree_on_perm; [exact T0| |apply Permutation_sym; exact P2].
      apply Permutation_sym. eapply perm_trans; [exact P3|]. cbn. rewrite Nat.eqb_refl. cbn.
      fold (set_remove w ns0). rewrite set_remove_notin; auto.
    + destruct Hv' as [E|Hv0]; [congruence|].
      destruct (incident v e0) eqn:I0.
      * (* v is the node the last leaf is attached to: then the tree is the single edge v-w *)
        apply (leaf_edge_incident_iff x w e0 v He) in I0. destruct I0 as [->|E]; [|congruence].
        cbn [negb] in P2.
        assert (F0 : filter (incident x) es0 = []) by (destruct (filter (incident x) es0); [auto|discriminate]).
        assert (E1 : e = e0) by (rewrite F0 in P1; inversion P1; auto). subst e.
        assert (N1 : ns0 = [x]).
        { pose proof (tree_on_NoDup _ _ T0) as Nd.
          destruct ns0 as [|a [|b r]]; [destruct Hx| |].
          - destruct Hx as [->|[]]. reflexivity.
          - exfalso.
            assert (exists y, In y (a :: b :: r) /\ y <> x) as [y [Hy Hyx]].
            { inversion Nd as [|? ? Hab _]; subst. destruct (Nat.eq_dec a x) as [->|Hax].
              - exists b. split; [cbn; auto|]. intro; subst. apply Hab. cbn; auto.
              - exists a. split; [cbn; auto|auto]. }
            pose proof (tree_on_connected _ _ T0 x y Hx Hy) as Wk.
            destruct (walk_first _ _ _ Wk) as [E|[c Hc]]; [congruence|].
            assert (exists e1, In e1 es0 /\ incident x e1 = true) as [e1 [H1 H2]].
            { destruct Hc as [Hc|Hc]; eexists; (split; [exact Hc|]); apply incident_true; cbn; auto. }
            assert (H3 : In e1 (filter (incident x) es0)) by (apply filter_In; auto).
            rewrite F0 in H3. destruct H3. }
        subst ns0. pose proof (tree_on_length _ _ T0) as Le. cbn in Le.
        destruct es0; [|cbn in Le; lia].
        destruct (leaf_edge_other x w e0 Hxw He) as [_ O2]. rewrite O2.
        split; auto. split; [apply Hin; cbn; auto|].
        eapply tree_on_perm; [apply (tree_single w)| |apply Permutation_sym; exact P2].
        apply Permutation_sym. eapply perm_trans; [exact P3|]. cbn.
        destruct (Nat.eqb_spec w x); [congruence|]. rewrite Nat.eqb_refl. cbn. apply Permutation_refl.
      * (* v is a leaf of the smaller tree as well *)
        cbn [negb] in P2.
        assert (Hxv : x <> v).
        { intro; subst. assert (incident v e0 = true) by (apply (leaf_edge_incident_iff v w e0 v He); auto). congruence. }
        assert (L0 : 2 <= length ns0).
        { destruct ns0 as [|a [|b r]]; [destruct Hx| |cbn; lia].
          destruct Hx as [<-|[]]. destruct Hv0 as [<-|[]]. congruence. }
        destruct (IH v e Hv0 L0 P1) as [U1 [U2 U3]].
        split; auto. split; [apply Hin; cbn; auto|].
        eapply tree_on_perm; [|apply Permutation_sym; exact P3|apply Permutation_sym; exact P2].
        cbn [set_remove filter]. destruct (Nat.eqb_spec w v); [congruence|]. cbn [negb].
        fold (set_remove v ns0).
        eapply tree_leaf with (u := x) (v := w) (e := e0); [exact U3| | |exact He|apply Permutation_refl|apply Permutation_refl].
        -- apply set_remove_In. auto.
        -- rewrite set_remove_In. tauto.
Qed.

Lemma exists_leaf ns es : tree_on ns es -> 2 <= length ns ->
  exists v, In v ns /\ length (filter (incident v) es) = 1.
Proof.
  intros T L. destruct T as [v0|ns0 es0 w x e0 ns' es' T0 Hx Hw He Pn Pe]; [cbn in L; lia|].
  exists w. split.
  - eapply Permutation_in; [apply Permutation_sym; exact Pn|cbn; auto].
  - pose proof (perm_filter (incident w) _ _ Pe) as P1. apply Permutation_length in P1. rewrite P1.
    cbn [filter]. rewrite (leaf_edge_incident x w e0 He).
    rewrite (filter_none (incident w) es0 (tree_no_incident _ _ w T0 Hw)). reflexivity.
Qed.

Lemma peel_complete fuel : forall ns es, tree_on ns es -> length ns <= fuel -> peel fuel ns es = true.
Proof.
  induction fuel as [|fuel IH]; intros ns es T L.
  - pose proof (tree_on_length _ _ T). lia.
  - pose proof (tree_on_length _ _ T) as Le. pose proof (tree_on_NoDup _ _ T) as Nd.
    cbn [peel]. destruct ns as [|a [|b r]].
    + cbn in Le. lia.
    + destruct es; [reflexivity|cbn in Le; lia].
    + remember (a :: b :: r) as ns eqn:Ens.
      assert (L2 : 2 <= length ns) by (subst ns; cbn; lia).
      destruct (find (fun v => length (filter (incident v) es) =? 1) ns) as [v|] eqn:F.
      * apply find_some in F. destruct F as [Hv F]. apply Nat.eqb_eq in F.
        destruct (filter (incident v) es) as [|e [|e2 l]] eqn:Fi; try (cbn in F; lia).
        destruct (leaf_removal ns es T v e Hv L2 Fi) as [U1 [U2 U3]].
        apply Nat.eqb_neq in U1. rewrite U1. cbn [negb andb].
        rewrite (proj2 (mem_In _ _) U2). cbn [andb].
        apply IH; auto. pose proof (set_remove_length v ns Nd Hv). lia.
      * exfalso. destruct (exists_leaf ns es T L2) as [v [Hv Hl]].
        pose proof (find_none _ _ F v Hv) as N. cbn in N. rewrite Hl in N. discriminate.
Qed.

Lemma tree_ok_complete ns es : tree_on ns es -> tree_ok ns es = true.
Proof.
  intro T. unfold tree_ok. rewrite (proj2 (nodupb_NoDup ns) (tree_on_NoDup _ _ T)).
  cbn [andb]. now apply peel_complete.
Qed.

(** * a connected induced subgraph of a tree is a tree *)
Lemma walk_map (R R0 : nat -> nat -> Prop) (phi : nat -> nat) :
  (forall p q, R p q -> phi p = phi q \/ R0 (phi p) (phi q)) ->
  forall a b, walk R a b -> walk R0 (phi a) (phi b).
Proof.
  intros H a b W. induction W as [a|a c b Hac W IH]; [constructor|].
  destruct (H a c Hac) as [E|E]; [rewrite E; exact IH|eapply walk_cons; eauto].
Qed.

Definition conn_in (s : list nat) (es : list (nat * nat)) : Prop :=
  forall a b, In a s -> In b s -> walk (fun p q => eadj es p q /\ In p s /\ In q s) a b.

Lemma within_true s e : (mem (fst e) s && mem (snd e) s = true) <-> In (fst e) s /\ In (snd e) s.
Proof. rewrite andb_true_iff, !mem_In. tauto. Qed.

Lemma induced_subtree ns es : tree_on ns es ->
  forall s, NoDup s -> s <> [] -> incl s ns -> conn_in s es -> tree_on s (edges_within s es).
Proof.
  induction 1 as [v0|ns0 es0 w x e0 ns' es' T0 IH Hx Hw He Pn Pe]; intros s Nd Hne Hi Hc.
  - cbn. destruct s as [|a [|b r]]; [congruence| |].
    + assert (a = v0) by (destruct (Hi a); cbn; auto; contradiction). subst. constructor.
    + exfalso. assert (a = v0) by (destruct (Hi a); cbn; auto; contradiction).
      assert (b = v0) by (destruct (Hi b); cbn; auto; contradiction). subst.
      inversion Nd as [|? ? Hab _]; subst. apply Hab. cbn; auto.
  - assert (Hxw : x <> w) by (intro; subst; auto).
    assert (Pw : Permutation (edges_within s es') (edges_within s (e0 :: es0))) by (apply perm_filter; exact Pe).
    assert (Hi0 : forall y, In y s -> y = w \/ In y ns0).
    { intros y Hy. apply Hi in Hy. eapply Permutation_in in Hy; [|exact Pn]. cbn in Hy. intuition. }
    assert (Hc0 : conn_in s (e0 :: es0)).
    { intros a b Ha Hb. eapply walk_mono; [|exact (Hc a b Ha Hb)].
      intros p q [[H|H] Hpq]; (split; [|exact Hpq]); [left|right];
        (eapply Permutation_in; [exact Pe|exact H]). }
    assert (He0 : forall p q, In (p, q) es0 -> p <> w /\ q <> w).
    { intros p q Hpq. destruct (tree_on_edges_in _ _ p q T0 Hpq). split; intro; subst; auto. }
    assert (Hsplit : forall p q, eadj (e0 :: es0) p q -> (p = x /\ q = w) \/ (p = w /\ q = x) \/ eadj es0 p q).
    { intros p q [[H|H]|[H|H]].
      - destruct He as [->| ->]; inversion H; subst; auto.
      - right; right; left; auto.
      - destruct He as [->| ->]; inversion H; subst; auto.
      - right; right; right; auto. }
    eapply tree_on_perm; [|apply Permutation_refl|apply Permutation_sym; exact Pw].
    unfold edges_within. cbn [filter].
    destruct (in_dec Nat.eq_dec w s) as [Hws|Hws].
    + (* the last leaf belongs to s *)
      destruct (list_eq_dec Nat.eq_dec (set_remove w s) []) as [Es|Es].
      * (* s = [w] *)
        assert (Hs : forall y, In y s -> y = w).
        { intros y Hy. destruct (Nat.eq_dec y w); auto. exfalso.
          assert (In y (set_remove w s)) by (apply set_remove_In; auto). rewrite Es in H. destruct H. }
        assert (Ps : Permutation s [w]).
        { pose proof (NoDup_perm_remove w s Nd Hws) as P. rewrite Es in P. exact P. }
        assert (Wf : mem (fst e0) s && mem (snd e0) s = false).
        { apply not_true_is_false. intro H. apply within_true in H. destruct H as [H1 H2].
          apply Hs in H1. apply Hs in H2. destruct He as [->| ->]; cbn in *; congruence. }
        rewrite Wf. rewrite filter_none.
        -- eapply tree_on_perm; [apply (tree_single w)|apply Permutation_sym; exact Ps|apply Permutation_refl].
        -- intros [p q] Hpq. apply not_true_is_false. intro H. apply within_true in H. cbn in H.
           destruct H as [H1 _]. apply Hs in H1. destruct (He0 p q Hpq). congruence.
      * (* s has another node: then x is in s and s - w induces a subtree of the smaller tree *)
        destruct (set_remove w s) as [|y0 r0] eqn:Er; [congruence|].
        assert (Hy0 : In y0 s /\ y0 <> w) by (apply set_remove_In; rewrite Er; cbn; auto).
        destruct Hy0 as [Hy0 Hy0w]. rewrite <- Er in *. clear Es.
        assert (Hxs : In x s).
        { pose proof (Hc0 w y0 Hws Hy0) as Wk. destruct (walk_first _ _ _ Wk) as [E|[c [Hc1 [_ Hc2]]]]; [congruence|].
          destruct (Hsplit _ _ Hc1) as [[E _]|[[_ E]|[E|E]]]; try congruence.
          - apply He0 in E. tauto. - apply He0 in E. tauto. }
        set (s0 := set_remove w s) in *.
        assert (Hs0 : forall y, In y s0 <-> In y s /\ y <> w) by (intro y; apply set_remove_In).
        assert (T1 : tree_on s0 (edges_within s0 es0)).
        { apply IH.
          - apply set_remove_NoDup, Nd.
          - rewrite Er. discriminate.
          - intros y Hy. apply Hs0 in Hy. destruct Hy as [Hy Hyw]. destruct (Hi0 y Hy); [congruence|auto].
          - intros a b Ha Hb. apply Hs0 in Ha, Hb. destruct Ha as [Ha Haw]. destruct Hb as [Hb Hbw].
            pose proof (Hc0 a b Ha Hb) as Wk.
            apply (walk_map _ (fun p q => eadj es0 p q /\ In p s0 /\ In q s0)
                            (fun p => if Nat.eq_dec p w then x else p)) in Wk.
            + destruct (Nat.eq_dec a w); [congruence|]. destruct (Nat.eq_dec b w); [congruence|]. exact Wk.
            + intros p q [Hpq [Hp Hq]].
              destruct (Hsplit _ _ Hpq) as [[-> ->]|[[-> ->]|E]].
              * left. destruct (Nat.eq_dec x w); [congruence|]. destruct (Nat.eq_dec w w); congruence.
              * left. destruct (Nat.eq_dec x w); [congruence|]. destruct (Nat.eq_dec w w); congruence.
              * right. assert (p <> w /\ q <> w) as [Hpw Hqw] by (destruct E as [E|E]; apply He0 in E; tauto).
                destruct (Nat.eq_dec p w); [congruence|]. destruct (Nat.eq_dec q w); [congruence|].
                split; auto. split; apply Hs0; auto. }
        assert (Wt : mem (fst e0) s && mem (snd e0) s = true).
        { apply within_true. destruct He as [->| ->]; cbn; auto. }
        rewrite Wt.
        assert (Ef : filter (fun e => mem (fst e) s && mem (snd e) s) es0 = edges_within s0 es0).
        { unfold edges_within. apply filter_ext_in. intros [p q] Hpq. cbn.
          destruct (He0 p q Hpq) as [Hpw Hqw].
          assert (forall z, z <> w -> mem z s = mem z s0) as Hm.
          { intros z Hz. destruct (mem z s) eqn:M1; symmetry.
            - apply mem_In. apply Hs0. split; auto. now apply mem_In.
            - apply mem_nIn. intro H. apply Hs0 in H. apply mem_nIn in M1. tauto. }
          rewrite (Hm p Hpw), (Hm q Hqw). reflexivity. }
        rewrite Ef.
        eapply tree_leaf with (u := x) (v := w) (e := e0); [exact T1| | |exact He| |apply Permutation_refl].
        -- apply Hs0. auto.
        -- rewrite Hs0. tauto.
        -- now apply NoDup_perm_remove.
    + (* the last leaf is outside s *)
      assert (Wf : mem (fst e0) s && mem (snd e0) s = false).
      { apply not_true_is_false. intro H. apply within_true in H. destruct H as [H1 H2].
        destruct He as [->| ->]; cbn in *; auto. }
      rewrite Wf. apply IH; auto.
      * intros y Hy. destruct (Hi0 y Hy); [congruence|auto].
      * intros a b Ha Hb. eapply walk_mono; [|exact (Hc0 a b Ha Hb)].
        intros p q [Hpq [Hp Hq]]. split; auto.
        destruct (Hsplit _ _ Hpq) as [[_ ->]|[[-> _]|E]]; [contradiction|contradiction|exact E].
Qed.

(** * completeness of td_ok *)
Lemma map_fst_combine_seq {A} (l : list A) s : map fst (combine (seq s (length l)) l) = seq s (length l).
Proof. revert s. induction l as [|x l IH]; intro s; cbn; auto. f_equal. apply IH. Qed.
Lemma NoDup_map_fst_filter {A B} (f : A * B -> bool) (l : list (A * B)) :
  NoDup (map fst l) -> NoDup (map fst (filter f l)).
Proof.
  induction l as [|p l IH]; cbn; intro H; auto. inversion H; subst.
  destruct (f p); cbn; auto. constructor; auto.
  intro Hin. apply in_map_iff in Hin. destruct Hin as [q [E Hq]]. apply filter_In in Hq.
  match goal with Hn : ~ In _ _ |- _ => apply Hn end. rewrite <- E. apply in_map. tauto.
Qed.
Lemma bags_with_NoDup bags x : NoDup (bags_with bags x).
Proof.
  unfold bags_with. apply NoDup_map_fst_filter. rewrite map_fst_combine_seq. apply seq_NoDup.
Qed.


Theorem td_ok_complete g t : NoDup (gverts g) -> valid_td g t -> td_ok g t = true.
Proof.
  intros Hk V. unfold td_ok. rewrite !andb_true_iff. repeat split.
  - apply tree_ok_complete, V.
  - apply forallb_forall. intros b Hb. apply andb_true_iff. split.
    + apply nodupb_NoDup. now apply (vt_nodup g t V).
    + apply forallb_forall. intros x Hx. apply mem_In. exact (vt_sub g t V b x Hb Hx).
  - apply forallb_forall. intros x Hx. destruct (vt_vertex g t V x Hx) as [b [Hb Hxb]].
    apply existsb_exists. exists b. split; auto. now apply mem_In.
  - apply forallb_forall. intros p Hp. apply forallb_forall. intros y Hy.
    rewrite <- (nbrs_In_entry g p Hk Hp) in Hy.
    destruct (vt_edge g t V (fst p) y Hy) as [b [Hb [H1 H2]]].
    apply existsb_exists. exists b. split; auto. apply andb_true_iff. split; now apply mem_In.
  - apply forallb_forall. intros x Hx. cbv zeta.
    destruct (bags_with (fst t) x) as [|s0 s] eqn:Es; [reflexivity|]. rewrite <- Es.
    apply tree_ok_complete. apply (induced_subtree _ _ (vt_tree g t V)).
    + apply bags_with_NoDup.
    + rewrite Es. discriminate.
    + intros i Hi. apply bags_with_In in Hi. destruct Hi as [b [Hb _]].
      apply in_seq. split; [lia|]. cbn. apply nth_error_Some. congruence.
    + intros a b Ha Hb. apply bags_with_In in Ha, Hb.
      eapply walk_mono; [|exact (vt_run g t V x a b Ha Hb)].
      intros p q [Hpq [Hp Hq]]. split; auto. split; now apply bags_with_In.
Qed.

Theorem td_ok_sound_complete g t : NoDup (gverts g) -> (td_ok g t = true <-> valid_td g t).
Proof. intro Hk. split; [apply td_ok_sound|now apply td_ok_complete]. Qed.
