(** C03: [J] and the dual step; the blocks [Jx] / [J_inputs]; the backward pass of a component
    evaluated in one step is the vector-Jacobian product of that component's map from its
    inputs to its output. *)
From Coq Require Import List Arith Bool PeanoNat Lia Permutation Ring Ring_theory.
Import ListNotations.
Require Import Fggs.Model.Semiring Fggs.Model.SCC Fggs.Model.SumProduct Fggs.Model.SumProductCheck Fggs.Model.Dual.
Require Import Fggs.Proofs.SCC_ntgraph Fggs.Proofs.BigSum Fggs.Proofs.SP_trees Fggs.Proofs.SP_nonrec
               Fggs.Proofs.SP_code Fggs.Proofs.SP_rename Fggs.Proofs.SP_spe Fggs.Proofs.SP_driver
               Fggs.Proofs.SP_main Fggs.Proofs.Dual_ring Fggs.Proofs.Dual_leibniz Fggs.Proofs.Dual_J.

Section DualVjp.
Context {R : Type} (o : sr_ops R).
Hypothesis Hr : sr_ring o.
Add Ring RingD6 : (sr_is_srt o Hr).
Local Notation D := (dual_ops o).
Variable G : grammar.
Hypothesis Hwf : wf_grammar G = true.

Lemma dstep_ext (e e' de de' : env (R:=R)) X xi :
  (forall r ed a, In r (rules_of G X) -> In ed (r_edges r) -> In a (all_assts (node_sizes G r)) ->
                  e (fst ed) (sel a (snd ed)) = e' (fst ed) (sel a (snd ed))
                  /\ de (fst ed) (sel a (snd ed)) = de' (fst ed) (sel a (snd ed))) ->
  dstep o G e de X xi = dstep o G e' de' X xi.
Proof.
  intros H. unfold dstep. apply sumS_ext. intros r Hrin. apply drule_ext. intros ed a Hed Ha. now apply (H r).
Qed.

(** ** C03_J_is_formal_derivative, in terms of the dual step *)
(** at the point x (nonterminals) / w (terminals), direction dx / dw:
    multi_mv (J, J_inputs together) (dx, dw) = eps part of F over the duals at (x + eps dx, w + eps dw) *)
Theorem J_is_formal_derivative comp (w x dw dx : env (R:=R)) n xi :
  NoDup comp -> In n comp -> is_term G n = false -> In xi (all_assts (lshape G n)) ->
  J_mv o G (J_contribs o G comp (fun l => Some (env_k G w x l)) true) (env_k G dw dx) n xi
  = snd (step D G (denv w dw) (denv x dx) n xi).
Proof.
  intros Hnd Hn Hnt Hxi. rewrite (J_mv_is_dstep o Hr G Hwf) by assumption.
  rewrite (snd_step o Hr) by exact Hnt. try reflexivity.
Qed.

(** restricting the blocks = restricting the direction *)
Lemma J_mv_filter (p : nat -> bool) (J : list (nat * nat * (list nat -> R))) (de : env (R:=R)) n xi :
  J_mv o G (filter (fun c => p (snd (fst c))) J) de n xi
  = J_mv o G J (fun l i => if p l then de l i else zero o) n xi.
Proof.
  unfold J_mv. rewrite (sumS_filter o Hr). apply sumS_ext. intros c _.
  destruct (p (snd (fst c))) eqn:E.
  - destruct (Nat.eqb (fst (fst c)) n); reflexivity.
  - destruct (Nat.eqb (fst (fst c)) n); trivial. symmetry. apply (sumS_all_zero o Hr). intros yi _. ring.
Qed.

(** Jx: directions supported on the component; J_inputs: directions supported outside it
    (terminal weights and earlier nonterminals) *)
Corollary Jx_is_derivative comp (e : nat -> option (list nat -> R)) (de : env (R:=R)) wi n xi :
  NoDup comp -> In n comp -> In xi (all_assts (lshape G n)) ->
  J_mv o G (Jx_of comp (J_contribs o G comp e wi)) de n xi
  = dstep o G (oenv o e) (fun l i => if mem comp l then de l i else zero o) n xi.
Proof.
  intros Hnd Hn Hxi. unfold Jx_of. rewrite (J_mv_filter (mem comp)).
  rewrite (J_mv_is_dstep o Hr G Hwf) by assumption. apply dstep_ext. intros r ed a _ _ _. split; trivial.
  destruct (mem comp (fst ed)); [now rewrite orb_true_r|]. now destruct (wi || false).
Qed.
Corollary Jin_is_derivative comp (e : nat -> option (list nat -> R)) (de : env (R:=R)) n xi :
  NoDup comp -> In n comp -> In xi (all_assts (lshape G n)) ->
  J_mv o G (Jin_of comp (J_contribs o G comp e true)) de n xi
  = dstep o G (oenv o e) (fun l i => if mem comp l then zero o else de l i) n xi.
Proof.
  intros Hnd Hn Hxi. unfold Jin_of. rewrite (J_mv_filter (fun l => negb (mem comp l))).
  rewrite (J_mv_is_dstep o Hr G Hwf) by assumption. apply dstep_ext. intros r ed a _ _ _. split; trivial.
  cbn [orb]. now destruct (mem comp (fst ed)).
Qed.

(** ** the transposed product *)
Lemma J_contribs_lhs comp e wi c : In c (J_contribs o G comp e wi) -> In (fst (fst c)) comp.
Proof.
  unfold J_contribs. rewrite in_flat_map. intros (n & Hn & Hc).
  rewrite in_flat_map in Hc. destruct Hc as (r & _ & Hc).
  rewrite in_flat_map in Hc. destruct Hc as (s & _ & Hc).
  destruct (negb (mem comp (fst (snd (fst s)))) && negb wi); [destruct Hc|].
  destruct (spe o (node_sizes G r) e (fst (fst s) ++ snd s) (r_ext r ++ snd (snd (fst s)))); [|destruct Hc].
  destruct Hc as [<-|[]]. exact Hn.
Qed.

(** the vector-Jacobian product is the cotangent-weighted sum of the Jacobian's columns,
    a column being [multi_mv J] applied to a unit direction *)
Lemma J_vjp_mv (J : list (nat * nat * (list nat -> R))) X (g : env (R:=R)) l yi :
  (forall c, In c J -> fst (fst c) = X) -> In yi (all_assts (lshape G l)) ->
  J_vjp o G J g l yi
  = sumS o (all_assts (lshape G X)) (fun xi => mul o (g X xi) (J_mv o G J (delta_env o l yi) X xi)).
Proof.
  intros HX Hyi. unfold J_vjp, J_mv.
  rewrite (sumS_ext o (all_assts (lshape G X)) _
             (fun xi => sumS o J (fun c => mul o (g X xi)
                (if Nat.eqb (fst (fst c)) X
                 then sumS o (all_assts (lshape G (snd (fst c)))) (fun yi' => mul o (snd c (xi ++ yi')) (delta_env o l yi (snd (fst c)) yi'))
                 else zero o))))
    by (intros xi _; apply (sumS_mul_l o Hr)).
  rewrite (sumS_exchange o Hr). apply sumS_ext. intros c Hc.
  rewrite (HX c Hc), Nat.eqb_refl.
  destruct (Nat.eqb (snd (fst c)) l) eqn:El.
  - apply Nat.eqb_eq in El. apply sumS_ext. intros xi _.
    rewrite (sumS_ext o _ _ (fun yi' => if nat_list_eqb yi' yi then snd c (xi ++ yi') else zero o)).
    + rewrite El. rewrite (sumS_pick o Hr nat_list_eqb _ yi (fun yi' => snd c (xi ++ yi')) nat_list_eqb_iff (NoDup_all_assts _) Hyi). ring.
    + intros yi' _. unfold delta_env. rewrite El, Nat.eqb_refl. cbn [andb]. destruct (nat_list_eqb yi' yi); ring.
  - symmetry. apply (sumS_all_zero o Hr). intros xi _.
    rewrite (sumS_all_zero o Hr); [ring|]. intros yi' _. unfold delta_env. rewrite El. cbn [andb]. ring.
Qed.

(** ** C03_scc_vjp_onestep *)
(** X is evaluated in one step (no rule of X has an edge labelled X).  For every incoming
    cotangent g, input label l and cell yi of l, [backward] returns
      sum_xi g[X][xi] * d F_X[xi] / d input_l[yi],
    the derivative being that of the sum of X's rule values at the current values [all] of the
    inputs (terminal weights and earlier nonterminals) in the unit direction (l, yi). *)
Theorem vjp_onestep (all : tmt (R:=R)) X (g : env (R:=R)) l yi :
  (forall r ed, In r (rules_of G X) -> In ed (r_edges r) -> fst ed <> X) ->
  l <> X -> In yi (all_assts (lshape G l)) ->
  backward_onestep o G all X g l yi
  = sumS o (all_assts (lshape G X))
         (fun xi => mul o (g X xi) (dstep o G (env_of o all) (delta_env o l yi) X xi)).
Proof.
  intros Hone Hl Hyi. unfold backward_onestep, onestep_J.
  set (inputs := comp_inputs G [X] (mt_of o all)).
  set (x := match tmt_get all X with Some tb => [(X, tab_get o tb)] | None => [] end).
  rewrite (J_vjp_mv _ X).
  - apply sumS_ext. intros xi Hxi. f_equal.
    rewrite Jin_is_derivative; trivial; [|constructor; [intros []|constructor]|now left].
    apply dstep_ext. intros r ed a Hrin Hed Ha.
    assert (Hne : fst ed <> X) by now apply (Hone r).
    assert (Hm : mem [X] (fst ed) = false).
    { unfold mem. cbn [existsb]. rewrite orb_false_r. now apply Nat.eqb_neq. }
    rewrite Hm. split; trivial.
    unfold oenv, lookup2.
    assert (Hx : mt_get x (fst ed) = None).
    { unfold x. destruct (tmt_get all X); [|reflexivity]. cbn [mt_get].
      destruct (Nat.eqb X (fst ed)) eqn:E; [|reflexivity]. apply Nat.eqb_eq in E. congruence. }
    rewrite Hx. unfold inputs. rewrite (comp_inputs_get G X _ r ed Hrin Hed Hne).
    apply (oenv_mt_of o).
  - intros c Hc. unfold Jin_of in Hc. apply filter_In in Hc. destruct Hc as [Hc _].
    apply J_contribs_lhs in Hc. destruct Hc as [<-|[]]. reflexivity.
  - exact Hyi.
Qed.
End DualVjp.
