(** C04, code-shaped model (Model/ViterbiAlg.v): basic facts.
    - order facts of the Viterbi carrier used by the pointer arguments ([gt] versus [maximum],
      a finite product has finite factors, a product that does not grow has factors that do
      not grow);
    - tables ([tget] of [ttab]) and dictionaries ([aget]);
    - [rebuild] inverts "project the assignment to the summed-out nodes" on the candidates;
    - the arg-max einsum returns the maximum and a candidate attaining it;
    - ONE evaluation of F_viterbi at a cell: the value is the max over the rules of the rule
      maxima, and if it is finite the lhs_pointer names a rule whose rhs_pointer rebuilds an
      in-range assignment, agreeing with the cell on the externals, whose edge product IS the
      value ([F_cell_spec]). *)
From Coq Require Import QArith Qcanon Lqa List Arith Bool PeanoNat Lia Ring_theory.
Import ListNotations.
Require Import Fggs.Model.Semiring Fggs.Model.SCC Fggs.Model.SumProduct Fggs.Model.SumProductCheck
               Fggs.Model.Kleene Fggs.Model.EReal Fggs.Model.Trop Fggs.Model.Viterbi Fggs.Model.ViterbiAlg.
Require Import Fggs.Proofs.BigSum Fggs.Proofs.SP_mono Fggs.Proofs.SP_trees Fggs.Proofs.SP_rename
               Fggs.Proofs.Viterbi_trop Fggs.Proofs.Viterbi_proofs.
Local Open Scope nat_scope.

(* ------------------------------------------------------------------------- *)
(** * the carrier *)
Definition tfin (x : trop) : Prop := exists q, x = TFin q.

Lemma tgtb_true x y : tgtb x y = true -> tmax y x = x /\ tle y x /\ x <> y.
Proof.
  unfold tgtb. rewrite negb_true_iff.
  destruct x as [|a|], y as [|b|]; cbn [tleb tmax tle]; try discriminate; intros H;
    try (repeat split; try exact I; discriminate).
  apply vt_Qle_bool_false in H.
  assert (E : Qle_bool (this b) (this a) = true) by (apply Qle_bool_iff; lra).
  rewrite E. split; [reflexivity|]. split; [unfold Qcle; lra|].
  intros C. injection C as C. rewrite C in H. lra.
Qed.

Lemma tgtb_false x y : tgtb x y = false -> tmax y x = y /\ tle x y.
Proof.
  unfold tgtb. rewrite negb_false_iff. intros H. apply vt_tleb_iff in H. split; [|exact H].
  destruct x as [|a|], y as [|b|]; cbn [tmax tle] in *; try reflexivity; try tauto.
  unfold Qcle in H. destruct (Qle_bool (this b) (this a)) eqn:E; [|reflexivity].
  apply Qle_bool_iff in E. f_equal. apply Qc_is_canon. lra.
Qed.

Lemma tle_total x y : tle x y \/ tle y x.
Proof.
  destruct x as [|a|], y as [|b|]; cbn [tle]; auto.
  unfold Qcle. destruct (Qlt_le_dec (this a) (this b)); [left; lra | right; lra].
Qed.

Lemma tplus_fin_inv x y q : tplus x y = TFin q -> tfin x /\ tfin y.
Proof. destruct x as [|a|], y as [|b|]; cbn [tplus]; try discriminate. intros _. split; eexists; reflexivity. Qed.

(** if both factors can only grow and the product does not, neither factor grew *)
Lemma tplus_same_inv x y x' y' q :
  tplus x y = TFin q -> tle x x' -> tle y y' -> tplus x' y' = TFin q -> x' = x /\ y' = y.
Proof.
  destruct x as [|a|], y as [|b|]; cbn [tplus]; try discriminate.
  destruct x' as [|a'|], y' as [|b'|]; cbn [tplus tle]; try discriminate; try tauto.
  intros H1 Ha Hb H2. injection H1 as H1. injection H2 as H2. unfold Qcle in *.
  assert (E : (this (a + b) == this (a' + b'))%Q) by (rewrite H1, H2; reflexivity).
  rewrite !vt_this_plus in E.
  split; f_equal; apply Qc_is_canon; lra.
Qed.

Lemma tle_NInf_inv x : tle x NInf -> x = NInf.
Proof. destruct x; cbn [tle]; tauto. Qed.

Lemma tle_fin_below x q : tle (TFin q) x -> x <> NInf.
Proof. destruct x; cbn [tle]; [tauto | discriminate | discriminate]. Qed.

Local Notation sumT := (sumS trop_ops).
Local Notation prodT := (prodS trop_ops).

Lemma sumT_cons {A} (x : A) l f : sumT (x :: l) f = tmax (f x) (sumT l f).
Proof. reflexivity. Qed.
Lemma prodT_cons {A} (x : A) l f : prodT (x :: l) f = tplus (f x) (prodT l f).
Proof. reflexivity. Qed.

Lemma in_le_sumT {A} (l : list A) f x : In x l -> tle (f x) (sumT l f).
Proof. apply (in_le_sumS trop_ops vt_trop_ring vt_trop_ordered). Qed.

Lemma sumT_lub {A} (l : list A) f z : (forall x, In x l -> tle (f x) z) -> tle (sumT l f) z.
Proof.
  induction l as [|x l IH]; intros H; [exact I|].
  rewrite sumT_cons. apply vt_tmax_lub; [apply H; left; reflexivity | apply IH; intros y Hy; apply H; right; exact Hy].
Qed.

Lemma sumT_all_NInf {A} (l : list A) f : (forall x, In x l -> f x = NInf) -> sumT l f = NInf.
Proof. apply (sumS_all_zero trop_ops vt_trop_ring). Qed.

Lemma prodT_fin_factors {A} (l : list A) f q : prodT l f = TFin q -> forall x, In x l -> tfin (f x).
Proof.
  revert q. induction l as [|y l IH]; intros q H x Hx; [destruct Hx|].
  rewrite prodT_cons in H. destruct (tplus_fin_inv _ _ _ H) as [Hy [q' Hl]].
  destruct Hx as [<-|Hx]; [exact Hy | apply (IH q' Hl x Hx)].
Qed.

Lemma prodT_NInf_factor {A} (l : list A) f x : In x l -> f x = NInf -> prodT l f = NInf.
Proof. apply (prodS_zero trop_ops vt_trop_ring). Qed.

(** a product over factors that can only grow, which did not grow: no factor grew *)
Lemma prodT_same_inv {A} (l : list A) f g q :
  prodT l f = TFin q -> (forall x, In x l -> tle (f x) (g x)) -> prodT l g = TFin q ->
  forall x, In x l -> g x = f x.
Proof.
  revert q. induction l as [|y l IH]; intros q Hf Hle Hg x Hx; [destruct Hx|].
  rewrite prodT_cons in Hf, Hg.
  destruct (tplus_fin_inv _ _ _ Hf) as [_ [q' Hl]].
  assert (Hrest : tle (prodT l f) (prodT l g)).
  { apply (prodS_mono trop_ops vt_trop_ring vt_trop_ordered). intros a Ha. apply Hle. right. exact Ha. }
  destruct (tplus_same_inv _ _ _ _ _ Hf (Hle y (or_introl eq_refl)) Hrest Hg) as [E1 E2].
  destruct Hx as [<-|Hx]; [exact E1|].
  apply (IH q' Hl (fun a Ha => Hle a (or_intror Ha))); [rewrite E2; exact Hl | exact Hx].
Qed.

(* ------------------------------------------------------------------------- *)
(** * tables and dictionaries *)
Lemma tget_map_in {A} (d : A) (f : list nat -> A) l xi :
  In xi l -> tget d (map (fun k => (k, f k)) l) xi = f xi.
Proof.
  induction l as [|k l IH]; [intros []|]. cbn [map tget]. intros Hin.
  destruct (nat_list_eqb k xi) eqn:E.
  - apply nat_list_eqb_eq in E. subst k. reflexivity.
  - destruct Hin as [->|Hin]; [rewrite nat_list_eqb_refl in E; discriminate | apply IH; exact Hin].
Qed.
Lemma tget_map_out {A} (d : A) (f : list nat -> A) l xi :
  ~ In xi l -> tget d (map (fun k => (k, f k)) l) xi = d.
Proof.
  induction l as [|k l IH]; [reflexivity|]. cbn [map tget]. intros Hin.
  destruct (nat_list_eqb k xi) eqn:E.
  - apply nat_list_eqb_eq in E. subst k. exfalso. apply Hin. left. reflexivity.
  - apply IH. intros C. apply Hin. right. exact C.
Qed.
Lemma tget_ttab {A} (d : A) shape (f : list nat -> A) xi :
  In xi (all_assts shape) -> tget d (ttab shape f) xi = f xi.
Proof. apply tget_map_in. Qed.
Lemma tget_ttab_out {A} (d : A) shape (f : list nat -> A) xi :
  ~ In xi (all_assts shape) -> tget d (ttab shape f) xi = d.
Proof. apply tget_map_out. Qed.
Lemma map_ttab {A B} shape (f : list nat -> A) (g : list nat * A -> B) :
  map (fun p => (fst p, g p)) (ttab shape f) = ttab shape (fun xi => g (xi, f xi)).
Proof. unfold ttab. rewrite map_map. reflexivity. Qed.

Lemma aget_map_in {A} (g : nat -> A) l k : In k l -> aget (map (fun n => (n, g n)) l) k = Some (g k).
Proof.
  induction l as [|a l IH]; [intros []|]. cbn [map aget]. intros Hin.
  destruct (Nat.eqb a k) eqn:E; [apply Nat.eqb_eq in E; subst a; reflexivity|].
  destruct Hin as [->|Hin]; [rewrite Nat.eqb_refl in E; discriminate | apply IH; exact Hin].
Qed.
Lemma aget_map_out {A} (g : nat -> A) l k : ~ In k l -> aget (map (fun n => (n, g n)) l) k = None.
Proof.
  induction l as [|a l IH]; [reflexivity|]. cbn [map aget]. intros Hin.
  destruct (Nat.eqb a k) eqn:E; [apply Nat.eqb_eq in E; subst a; exfalso; apply Hin; left; reflexivity|].
  apply IH. intros C. apply Hin. right. exact C.
Qed.
Lemma aget_app {A} (l1 l2 : list (nat * A)) k :
  aget (l1 ++ l2) k = match aget l1 k with Some v => Some v | None => aget l2 k end.
Proof.
  induction l1 as [|[a v] l1 IH]; [reflexivity|]. cbn [app aget].
  destruct (Nat.eqb a k); [reflexivity | exact IH].
Qed.
Lemma aget_keys {A} (l : list (nat * A)) k v : aget l k = Some v -> In k (map fst l).
Proof.
  induction l as [|[a u] l IH]; [discriminate|]. cbn [aget map fst].
  destruct (Nat.eqb a k) eqn:E; [apply Nat.eqb_eq in E; left; exact E | intros H; right; apply IH; exact H].
Qed.
Lemma aget_not_key {A} (l : list (nat * A)) k : ~ In k (map fst l) -> aget l k = None.
Proof.
  induction l as [|[a u] l IH]; [reflexivity|]. cbn [aget map fst]. intros H.
  destruct (Nat.eqb a k) eqn:E; [apply Nat.eqb_eq in E; exfalso; apply H; left; exact E|].
  apply IH. intros C. apply H. right. exact C.
Qed.

Lemma mem_iff l x : mem l x = true <-> In x l.
Proof.
  unfold mem. rewrite existsb_exists. split.
  - intros (y & Hy & E). apply Nat.eqb_eq in E. subst y. exact Hy.
  - intros H. exists x. split; [exact H | apply Nat.eqb_refl].
Qed.
Lemma mem_false_iff l x : mem l x = false <-> ~ In x l.
Proof.
  rewrite <- mem_iff. destruct (mem l x); split; intros H; congruence.
Qed.

(* ------------------------------------------------------------------------- *)
(** * [index_of], [rebuild] *)
Lemma index_of_some v l j : index_of v l = Some j -> j < length l /\ nth j l 0 = v.
Proof.
  revert j. induction l as [|x l IH]; intros j; [discriminate|]. cbn [index_of].
  destruct (Nat.eqb x v) eqn:E.
  - intros H. injection H as <-. apply Nat.eqb_eq in E. cbn. split; [lia | exact E].
  - destruct (index_of v l) as [j'|]; [|discriminate]. intros H. injection H as <-.
    destruct (IH j' eq_refl) as [H1 H2]. cbn [length nth]. split; [lia | exact H2].
Qed.
Lemma index_of_none v l : index_of v l = None -> ~ In v l.
Proof.
  induction l as [|x l IH]; [intros _ []|]. cbn [index_of].
  destruct (Nat.eqb x v) eqn:E; [discriminate|].
  destruct (index_of v l); [discriminate|]. intros _ [C|C].
  - subst x. rewrite Nat.eqb_refl in E. discriminate.
  - apply IH; [reflexivity | exact C].
Qed.

Lemma nth_map_lt {A B} (g : A -> B) l j d d' : j < length l -> nth j (map g l) d' = g (nth j l d).
Proof.
  revert j. induction l as [|x l IH]; intros j Hj; [cbn in Hj; lia|].
  destruct j as [|j]; [reflexivity|]. cbn [map nth]. apply IH. cbn in Hj. lia.
Qed.

Lemma rebuild_length r xi ptr : length (rebuild r xi ptr) = length (r_nodes r).
Proof. unfold rebuild. rewrite map_length, seq_length. reflexivity. Qed.
Lemma rebuild_nth r xi ptr v : v < length (r_nodes r) -> nth v (rebuild r xi ptr) 0 = node_val r xi ptr v.
Proof.
  intros Hv. unfold rebuild. rewrite (nth_map_lt _ _ _ 0) by (rewrite seq_length; exact Hv).
  rewrite seq_nth by exact Hv. reflexivity.
Qed.

Lemma summed_In r v : In v (summed r) <-> In v (attached r) /\ ~ In v (r_ext r).
Proof. unfold summed. rewrite filter_In, negb_true_iff, mem_false_iff. reflexivity. Qed.

Lemma cand_ok_iff r xi a :
  cand_ok r xi a = true <->
  sel a (r_ext r) = xi /\ forall v, v < length (r_nodes r) -> In v (r_ext r) \/ In v (attached r) \/ nth v a 0 = 0.
Proof.
  unfold cand_ok. rewrite andb_true_iff, SP_mono.nat_list_eqb_iff, forallb_forall.
  split; intros [H1 H2]; split; try exact H1.
  - intros v Hv. specialize (H2 v). rewrite in_seq in H2. specialize (H2 ltac:(lia)).
    rewrite !orb_true_iff, !mem_iff, Nat.eqb_eq in H2. tauto.
  - intros v Hv. apply in_seq in Hv. rewrite !orb_true_iff, !mem_iff, Nat.eqb_eq.
    specialize (H2 v ltac:(lia)). tauto.
Qed.

Lemma in_cands G r xi a :
  In a (cands G r xi) <->
  In a (all_assts (node_sizes G r)) /\ sel a (r_ext r) = xi
  /\ forall v, v < length (r_nodes r) -> In v (r_ext r) \/ In v (attached r) \/ nth v a 0 = 0.
Proof. unfold cands. rewrite filter_In, cand_ok_iff. tauto. Qed.

(** the pointer row determines the candidate *)
Theorem rebuild_roundtrip G r xi a : In a (cands G r xi) -> rebuild r xi (sel a (summed r)) = a.
Proof.
  intros Ha. apply in_cands in Ha. destruct Ha as (Hin & Hxi & Hiso).
  assert (Hlen : length a = length (r_nodes r)).
  { rewrite (all_assts_length _ _ Hin). unfold node_sizes. apply map_length. }
  apply (nth_ext _ _ 0 0); [rewrite rebuild_length; symmetry; exact Hlen|].
  intros v Hv. rewrite rebuild_length in Hv. rewrite (rebuild_nth _ _ _ _ Hv). unfold node_val.
  destruct (index_of v (r_ext r)) as [j|] eqn:E1.
  - destruct (index_of_some _ _ _ E1) as [Hj Hnth]. rewrite <- Hxi. unfold sel.
    rewrite (nth_map_lt _ _ _ 0) by exact Hj. rewrite Hnth. reflexivity.
  - destruct (index_of v (summed r)) as [j|] eqn:E2.
    + destruct (index_of_some _ _ _ E2) as [Hj Hnth]. unfold sel.
      rewrite (nth_map_lt _ _ _ 0) by exact Hj. rewrite Hnth. reflexivity.
    + apply index_of_none in E1. apply index_of_none in E2.
      destruct (Hiso v Hv) as [C|[C|C]]; [contradiction | | symmetry; exact C].
      exfalso. apply E2. apply summed_In. split; assumption.
Qed.

(* ------------------------------------------------------------------------- *)
(** * the arg-max *)
Lemma argmax_from_spec {A} (f : A -> trop) l : forall bv ba v a,
  argmax_from f l bv ba = (v, a) -> f ba = bv ->
  v = tmax bv (sumT l f) /\ f a = v /\ (a = ba \/ In a l).
Proof.
  induction l as [|x l IH]; intros bv ba v a H Hb; cbn [argmax_from] in H.
  - injection H as <- <-. split; [destruct bv; reflexivity|]. split; [exact Hb | left; reflexivity].
  - rewrite sumT_cons. destruct (tgtb (f x) bv) eqn:E.
    + destruct (IH _ _ _ _ H eq_refl) as (Hv & Hfa & Hin). apply tgtb_true in E. destruct E as (E & _ & _).
      split; [rewrite vt_tmax_assoc, E; exact Hv|]. split; [exact Hfa|].
      right. destruct Hin as [->|Hin]; [left; reflexivity | right; exact Hin].
    + destruct (IH _ _ _ _ H Hb) as (Hv & Hfa & Hin). apply tgtb_false in E. destruct E as (E & _).
      split; [rewrite vt_tmax_assoc, E; exact Hv|]. split; [exact Hfa|].
      destruct Hin as [->|Hin]; [left; reflexivity | right; right; exact Hin].
Qed.

Lemma argmax_first_spec {A} (f : A -> trop) l v a :
  argmax_first f l = Some (v, a) -> v = sumT l f /\ f a = v /\ In a l.
Proof.
  destruct l as [|x l]; [discriminate|]. cbn [argmax_first]. intros H. injection H as H.
  destruct (argmax_from_spec f l _ _ _ _ H eq_refl) as (Hv & Hfa & Hin).
  split; [exact Hv|]. split; [exact Hfa|]. destruct Hin as [->|Hin]; [left; reflexivity | right; exact Hin].
Qed.

(** the maximum of one rule at one cell *)
Definition rule_max (G : grammar) (e : env (R:=trop)) (r : rule) (xi : list nat) : trop :=
  sumT (cands G r xi) (edges_prod e r).
(** the maximum over the rules of a nonterminal *)
Definition Fval (G : grammar) (e : env (R:=trop)) (n : nat) (xi : list nat) : trop :=
  sumT (rules_of G n) (fun r => rule_max G e r xi).

Theorem argmax_rule_spec G e r xi v a :
  argmax_rule G e r xi = (v, a) ->
  v = rule_max G e r xi
  /\ (v <> NInf -> In a (cands G r xi) /\ edges_prod e r a = v).
Proof.
  unfold argmax_rule, rule_max. destruct (argmax_first (edges_prod e r) (cands G r xi)) as [[v' a']|] eqn:E.
  - intros H. injection H as <- <-. destruct (argmax_first_spec _ _ _ _ E) as (Hv & Hfa & Hin).
    split; [exact Hv|]. intros _. split; [exact Hin | exact Hfa].
  - intros H. injection H as <- <-. destruct (cands G r xi); [|discriminate].
    split; [reflexivity | intros C; exfalso; apply C; reflexivity].
Qed.

(* ------------------------------------------------------------------------- *)
(** * one evaluation of F_viterbi at one cell *)
(** the pointer row [ptr] of rule [r] at cell [xi] is good for value [v] in environment [e] *)
Definition good_ptr (G : grammar) (e : env (R:=trop)) (r : rule) (xi ptr : list nat) (v : trop) : Prop :=
  length ptr = length (summed r)
  /\ In (rebuild r xi ptr) (all_assts (node_sizes G r))
  /\ sel (rebuild r xi ptr) (r_ext r) = xi
  /\ edges_prod e r (rebuild r xi ptr) = v.

Lemma forallb_false_exists {A} (p : A -> bool) l : forallb p l = false -> exists x, In x l /\ p x = false.
Proof.
  induction l as [|x l IH]; [discriminate|]. cbn [forallb]. rewrite andb_false_iff. intros [H|H].
  - exists x. split; [left; reflexivity | exact H].
  - destruct (IH H) as (y & Hy & Hp). exists y. split; [right; exact Hy | exact Hp].
Qed.

Lemma labels_missing_NInf G lk r xi : labels_ok lk r = false -> rule_max G (lk_env lk) r xi = NInf.
Proof.
  intros H. unfold rule_max. apply sumT_all_NInf. intros a _. unfold edges_prod.
  unfold labels_ok in H. apply forallb_false_exists in H. destruct H as (ed & Hed & Hlk).
  apply (prodT_NInf_factor _ _ ed Hed). unfold lk_env. destruct (lk (fst ed)); [discriminate | reflexivity].
Qed.

Section FCell.
Variables (G : grammar) (lk : lkup) (xi : list nat).
Let e := lk_env lk.

Definition finv (rs : list rule) (st : fstate) : Prop :=
  let '(present, v, lp, rps) := st in
  length rps = length rs
  /\ present = existsb (labels_ok lk) rs
  /\ v = sumT rs (fun r => rule_max G e r xi)
  /\ (v <> NInf -> exists r ptr, nth_error rs lp = Some r /\ nth lp rps None = Some ptr /\ good_ptr G e r xi ptr v).

Lemma sumT_snoc {A} (l : list A) x f : sumT (l ++ [x]) f = tmax (sumT l f) (f x).
Proof.
  rewrite (sumS_app trop_ops vt_trop_ring). cbn [add trop_ops]. f_equal.
  rewrite sumT_cons. cbn. destruct (f x); reflexivity.
Qed.

Lemma finv_step rs st r :
  finv rs st -> finv (rs ++ [r]) (F_rule_step G lk xi st (length rs, r)).
Proof.
  destruct st as [[[present v] lp] rps]. cbn [finv]. intros (Hlen & Hpres & Hv & Hptr).
  unfold F_rule_step. cbn [fst snd]. unfold spe_vit.
  destruct (labels_ok lk r) eqn:Hok.
  - destruct (argmax_rule G (lk_env lk) r xi) as [tau a] eqn:Ha.
    destruct (argmax_rule_spec _ _ _ _ _ _ Ha) as (Htau & Hcand). fold e in Htau, Hcand.
    assert (Hnew : tau <> NInf -> good_ptr G e r xi (sel a (summed r)) tau).
    { intros Hne. destruct (Hcand Hne) as (Hin & Hprod). pose proof (rebuild_roundtrip _ _ _ _ Hin) as Hrt.
      unfold good_ptr. rewrite Hrt. apply in_cands in Hin. destruct Hin as (H1 & H2 & _).
      split; [unfold sel; apply map_length|]. split; [exact H1|]. split; [exact H2 | exact Hprod]. }
    destruct present.
    + cbn [finv]. split; [rewrite !app_length, Hlen; reflexivity|].
      split; [rewrite existsb_app, <- Hpres; reflexivity|].
      split; [rewrite sumT_snoc, <- Hv, <- Htau; reflexivity|].
      destruct (tgtb tau v) eqn:Egt.
      * apply tgtb_true in Egt. destruct Egt as (Emax & _ & _). rewrite Emax. intros Hne.
        exists r, (sel a (summed r)). split; [rewrite nth_error_app2, Nat.sub_diag by lia; reflexivity|].
        split; [rewrite app_nth2, Hlen, Nat.sub_diag by lia; reflexivity | apply Hnew; exact Hne].
      * apply tgtb_false in Egt. destruct Egt as (Emax & _). rewrite Emax. intros Hne.
        destruct (Hptr Hne) as (r0 & ptr0 & H1 & H2 & H3). exists r0, ptr0.
        assert (Hlp : lp < length rs) by (apply nth_error_Some; congruence).
        split; [rewrite nth_error_app1 by exact Hlp; exact H1|].
        split; [rewrite app_nth1 by lia; exact H2 | exact H3].
    + cbn [finv]. split; [rewrite !app_length, Hlen; reflexivity|].
      split; [rewrite existsb_app, <- Hpres; cbn; rewrite Hok; reflexivity|].
      assert (Hv0 : v = NInf).
      { rewrite Hv. apply sumT_all_NInf. intros r0 Hr0. apply labels_missing_NInf.
        symmetry in Hpres. destruct (labels_ok lk r0) eqn:E0; [|reflexivity].
        assert (C : existsb (labels_ok lk) rs = true) by (apply existsb_exists; exists r0; tauto). congruence. }
      split; [rewrite sumT_snoc, <- Hv, Hv0, <- Htau; reflexivity|].
      intros Hne. exists r, (sel a (summed r)). split; [rewrite nth_error_app2, Nat.sub_diag by lia; reflexivity|].
      split; [rewrite app_nth2, Hlen, Nat.sub_diag by lia; reflexivity | apply Hnew; exact Hne].
  - cbn [finv]. split; [rewrite !app_length, Hlen; reflexivity|].
    split; [rewrite existsb_app, <- Hpres; cbn; rewrite Hok, !orb_false_r; reflexivity|].
    pose proof (labels_missing_NInf G lk r xi Hok) as Hm. fold e in Hm.
    split; [rewrite sumT_snoc, <- Hv, Hm; destruct v; reflexivity|].
    intros Hne. destruct (Hptr Hne) as (r0 & ptr0 & H1 & H2 & H3). exists r0, ptr0.
    assert (Hlp : lp < length rs) by (apply nth_error_Some; congruence).
    split; [rewrite nth_error_app1 by exact Hlp; exact H1|].
    split; [rewrite app_nth1 by lia; exact H2 | exact H3].
Qed.

Lemma finv_fold : forall l rs st,
  finv rs st -> finv (rs ++ l) (fold_left (F_rule_step G lk xi) (combine (seq (length rs) (length l)) l) st).
Proof.
  induction l as [|r l IH]; intros rs st H.
  - rewrite app_nil_r. exact H.
  - cbn [length seq combine fold_left].
    replace (rs ++ r :: l) with ((rs ++ [r]) ++ l) by (rewrite <- app_assoc; reflexivity).
    replace (S (length rs)) with (length (rs ++ [r])) by (rewrite app_length; cbn; lia).
    apply IH. apply finv_step. exact H.
Qed.
End FCell.

(** the cell computed by one evaluation of F_viterbi *)
Theorem F_cell_spec G lk n xi present v lp rps :
  F_cell G lk n xi = (present, v, lp, rps) ->
  length rps = length (rules_of G n)
  /\ present = existsb (labels_ok lk) (rules_of G n)
  /\ v = Fval G (lk_env lk) n xi
  /\ (v <> NInf -> exists r ptr, nth_error (rules_of G n) lp = Some r /\ nth lp rps None = Some ptr
                                 /\ good_ptr G (lk_env lk) r xi ptr v).
Proof.
  intros H. pose proof (finv_fold G lk xi (rules_of G n) [] (false, NInf, 0, [])) as Hf.
  cbn [app length] in Hf. unfold F_cell, enum in H. rewrite H in Hf. apply Hf.
  cbn. repeat split. intros C. exfalso. apply C. reflexivity.
Qed.

(** [rules_of] in terms of positions in [g_rules] *)
Lemma rules_of_rule_idx G X : rules_of G X = map (get_rule G) (rule_idx G X).
Proof.
  unfold rules_of, rule_idx. rewrite (g_rules_as_map G) at 1.
  generalize (seq 0 (length (g_rules G))). induction l as [|i l IH]; [reflexivity|].
  cbn [map filter]. destruct (Nat.eqb (r_lhs (get_rule G i)) X); cbn [map]; rewrite IH; reflexivity.
Qed.
Lemma rule_idx_spec G X gi : In gi (rule_idx G X) <-> gi < length (g_rules G) /\ r_lhs (get_rule G gi) = X.
Proof. unfold rule_idx. rewrite filter_In, in_seq, Nat.eqb_eq. split; intros [H1 H2]; split; try lia; exact H2. Qed.
