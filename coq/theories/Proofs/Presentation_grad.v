(** C12 for GRADIENTS: the dual numbers over a commutative semiring are a commutative semiring
    (C03, Proofs/Dual_ring.v), so the presentation theorem instantiated at the dual semiring
    says that the derivative of every Kleene iterate -- in any direction, in particular with
    respect to one weight entry -- is invariant under re-presentation, the weight entry being
    moved by the presentation together with the tables (label through [pel], index tuple
    through [pmap rho]).  Same for the code-shaped reverse accumulation [backward_nonrec] of
    non-recursive grammars (by C03_nonrecursive_gradient). *)
From Coq Require Import List Arith Bool PeanoNat Lia Permutation.
Import ListNotations.
Require Import Fggs.Model.Semiring Fggs.Model.SCC Fggs.Model.SumProduct Fggs.Model.SumProductCheck Fggs.Model.Dual.
Require Import Fggs.Proofs.SCC_ntgraph Fggs.Proofs.BigSum Fggs.Proofs.SP_trees Fggs.Proofs.SP_nonrec
               Fggs.Proofs.SP_code Fggs.Proofs.SP_rename Fggs.Proofs.SP_spe Fggs.Proofs.SP_driver
               Fggs.Proofs.SP_main Fggs.Proofs.Dual_ring Fggs.Proofs.Dual_leibniz Fggs.Proofs.Dual_J
               Fggs.Proofs.Dual_vjp Fggs.Proofs.Dual_back Fggs.Proofs.Dual_nonrec.
Require Import Fggs.Proofs.Presentation Fggs.Proofs.Presentation_perm Fggs.Proofs.Presentation_nodes
               Fggs.Proofs.Presentation_dom Fggs.Proofs.Presentation_relabel Fggs.Proofs.Presentation_wf
               Fggs.Proofs.Presentation_cor Fggs.Proofs.Presentation_lfp.

Section Grad.
Context {R : Type} (o : sr_ops R) (Hring : sr_ring o).
Local Notation D := (dual_ops o).

(** the dual Kleene iterates (value, derivative in the direction [d] of the terminal weights) *)
Theorem dual_Zk_presentation rho pel pnl G G' (w w' d d' : env (R:=R)) :
  wf_grammar G = true -> presents rho pel pnl G G' ->
  weights_pres rho pel G w w' -> weights_pres rho pel G d d' ->
  forall k X xi, vlab G X -> vidx G X xi ->
    Zk D G' (denv w' d') k (pel X) (pmap rho (ltype G X) xi) = Zk D G (denv w d) k X xi.
Proof.
  intros Hwf Hp Hw Hd. apply (Zk_presentation D (dual_ring o Hring) rho pel pnl); trivial.
  intros l idx Hl Hidx Ht. unfold denv. now rewrite Hw, Hd.
Qed.

(** the derivative part alone *)
Corollary derivative_presentation rho pel pnl G G' (w w' d d' : env (R:=R)) :
  wf_grammar G = true -> presents rho pel pnl G G' ->
  weights_pres rho pel G w w' -> weights_pres rho pel G d d' ->
  forall k X xi, vlab G X -> vidx G X xi ->
    eenv (Zk D G' (denv w' d') k) (pel X) (pmap rho (ltype G X) xi) = eenv (Zk D G (denv w d) k) X xi.
Proof. intros Hwf Hp Hw Hd k X xi HX Hxi. unfold eenv. now rewrite (dual_Zk_presentation rho pel pnl G G' w w' d d'). Qed.

(** the direction "one weight entry" is moved by the presentation *)
Lemma delta_env_pres rho pel pnl G G' l0 i0 :
  wf_grammar G = true -> presents rho pel pnl G G' -> vlab G l0 -> vidx G l0 i0 ->
  forall l idx, vlab G l -> vidx G l idx ->
    delta_env o (pel l0) (pmap rho (ltype G l0) i0) (pel l) (pmap rho (ltype G l) idx) = delta_env o l0 i0 l idx.
Proof.
  intros Hwf (Hrho & G2 & _ & _ & Hrel & _) Hl0 Hi0 l idx Hl Hidx. unfold delta_env.
  destruct (Nat.eqb l l0) eqn:E.
  - apply Nat.eqb_eq in E. subst l. rewrite Nat.eqb_refl. cbn [andb].
    assert (Hperm : forall nl, In nl (ltype G l0) -> is_perm (rho nl)).
    { intros nl Hin. apply Hrho. now apply (wf_grammar_ltype G l0). }
    assert (Hlen : forall a, vidx G l0 a -> length a = length (ltype G l0)).
    { intros a Ha. apply all_assts_length in Ha. unfold lshape in Ha. now rewrite map_length in Ha. }
    destruct (nat_list_eqb idx i0) eqn:E2.
    + apply nat_list_eqb_iff in E2. subst idx. now rewrite (proj2 (nat_list_eqb_iff _ _) eq_refl).
    + destruct (nat_list_eqb (pmap rho (ltype G l0) idx) (pmap rho (ltype G l0) i0)) eqn:E3; [|reflexivity].
      apply nat_list_eqb_iff in E3. apply pmap_inj in E3; auto.
      subst idx. rewrite (proj2 (nat_list_eqb_iff _ _) eq_refl) in E2. discriminate E2.
  - assert (E' : Nat.eqb (pel l) (pel l0) = false).
    { apply Nat.eqb_neq. apply Nat.eqb_neq in E. intros H. apply E. now apply (rl_inj _ _ _ _ Hrel). }
    now rewrite E'.
Qed.

(** d Z_k[X, xi] / d w[l0, i0]  =  d Z'_k[pel X, rho xi] / d w'[pel l0, rho i0] *)
Theorem grad_presentation rho pel pnl G G' (w w' : env (R:=R)) l0 i0 :
  wf_grammar G = true -> presents rho pel pnl G G' -> weights_pres rho pel G w w' ->
  vlab G l0 -> vidx G l0 i0 ->
  forall k X xi, vlab G X -> vidx G X xi ->
    grad_model o G' w' (pel l0) (pmap rho (ltype G l0) i0) k (pel X) (pmap rho (ltype G X) xi)
    = grad_model o G w l0 i0 k X xi.
Proof.
  intros Hwf Hp Hw Hl0 Hi0 k X xi HX Hxi. unfold grad_model.
  apply (derivative_presentation rho pel pnl); trivial.
  intros l idx Hl Hidx _. now apply (delta_env_pres rho pel pnl G G').
Qed.

(** * reverse accumulation on non-recursive grammars *)
Lemma sumS_combine_map {A} (L : list A) (f : A -> R) (F : A * R -> R) :
  sumS o (combine L (map f L)) F = sumS o L (fun x => F (x, f x)).
Proof. induction L as [|a L IH]; [reflexivity|]. cbn [map combine]. now rewrite !sumS_cons, IH. Qed.

Lemma Zk_ranked_any {S} (oS : sr_ops S) G (W : env (R:=S)) rank k k' X xi :
  ranked G rank -> is_term G X = false -> rank X < k -> rank X < k' ->
  Zk oS G W k X xi = Zk oS G W k' X xi.
Proof.
  intros Hrk HX Hk Hk'.
  rewrite (Zk_stable_ge oS G W rank Hrk k X xi HX Hk).
  now rewrite (Zk_stable_ge oS G W rank Hrk k' X xi HX Hk').
Qed.

Lemma wf_start_nonterminal G : wf_grammar G = true -> is_term G (g_start G) = false.
Proof.
  unfold wf_grammar. rewrite !andb_true_iff. intros [_ H]. now apply negb_true_iff in H.
Qed.

(** the cotangent is a table over the start symbol's cells: [cf] for [G], [cf'] for the
    presentation, related like every other table *)
Theorem backward_nonrec_presentation rho pel pnl G G' (w w' : tmt (R:=R)) ord ord' (cf cf' : list nat -> R) l0 i0 :
  wf_grammar G = true -> wf_grammar G' = true -> presents rho pel pnl G G' ->
  g_start G' = pel (g_start G) ->
  (forall l, tget w l <> None -> is_term G l = true) -> (forall l, tget w' l <> None -> is_term G' l = true) ->
  weights_pres rho pel G (env_of o w) (env_of o w') ->
  SP_main.dep_ordered G [] ord -> NoDup ord -> (forall X, is_term G X = false -> In X ord) ->
  SP_main.dep_ordered G' [] ord' -> NoDup ord' -> (forall X, is_term G' X = false -> In X ord') ->
  is_term G l0 = true -> vlab G l0 -> vidx G l0 i0 -> pel l0 < length (g_labels G') ->
  (forall xi, vidx G (g_start G) xi -> cf' (pmap rho (ltype G (g_start G)) xi) = cf xi) ->
  env_of o (backward_nonrec o G' w' (map (fun x => [x]) ord') (map cf' (all_assts (lshape G' (g_start G')))))
         (pel l0) (pmap rho (ltype G l0) i0)
  = env_of o (backward_nonrec o G w (map (fun x => [x]) ord) (map cf (all_assts (lshape G (g_start G))))) l0 i0.
Proof.
  intros Hwf Hwf' Hp Hstart Hk Hk' Hw Hd Hn Hc Hd' Hn' Hc' Ht0 Hl0 Hi0 Hl0' Hcf.
  pose proof (wf_start_nonterminal G Hwf) as HS.
  assert (HSv : vlab G (g_start G)) by (now apply is_term_false_lt).
  rewrite (nonrecursive_gradient o Hring G Hwf w Hk ord Hd Hn Hc _ l0 i0 Ht0 Hl0 Hi0) by now rewrite map_length.
  rewrite (nonrecursive_gradient o Hring G' Hwf' w' Hk' ord' Hd' Hn' Hc' _ (pel l0) (pmap rho (ltype G l0) i0)).
  2:{ now rewrite (presents_is_term rho pel pnl G G' l0 Hp Hl0). }
  2:{ exact Hl0'. }
  2:{ now apply (presents_vidx rho pel pnl). }
  2:{ now rewrite map_length. }
  rewrite !sumS_combine_map. cbn [fst snd]. rewrite Hstart.
  rewrite (presents_lshape rho pel pnl G G' (g_start G) Hwf Hp HSv).
  assert (Hperm : forall nl, In nl (ltype G (g_start G)) -> is_perm (rho nl) /\ length (rho nl) = dom G nl).
  { intros nl Hin. apply (proj1 Hp). now apply (wf_grammar_ltype G (g_start G)). }
  assert (Hlen : forall a, In a (all_assts (lshape G (g_start G))) -> length a = length (ltype G (g_start G))).
  { intros a Ha. apply all_assts_length in Ha. unfold lshape in Ha. now rewrite map_length in Ha. }
  symmetry.
  apply (sumS_bij o Hring (pmap rho (ltype G (g_start G)))); try apply NoDup_all_assts.
  - intros a Ha. unfold lshape in *. now apply pmap_all_assts.
  - intros a b Ha Hb E. apply pmap_inj in E; auto. intros nl Hin. now apply Hperm.
  - intros b Hb. exists (pmap (rho_inv rho) (ltype G (g_start G)) b). split.
    + unfold lshape in *. apply pmap_all_assts; [|exact Hb]. intros nl Hin.
      apply (dom_perms_inv G rho (proj1 Hp)). now apply (wf_grammar_ltype G (g_start G)).
    + apply pmap_inv_r; [intros nl Hin; now apply Hperm|now apply Hlen].
  - intros xi Hxi. rewrite (Hcf xi Hxi). f_equal. unfold grad_model, eenv. f_equal.
    pose proof (dep_ordered_ranked G ord Hd Hc) as Hrk.
    pose proof (dep_ordered_ranked G' ord' Hd' Hc') as Hrk'.
    assert (HS' : is_term G' (pel (g_start G)) = false) by now rewrite (presents_is_term rho pel pnl G G' _ Hp HSv).
    set (M := Nat.max (length ord) (length ord')).
    rewrite (Zk_ranked_any D G _ _ (length ord) M _ xi Hrk HS).
    2:{ apply index_of_lt. now apply Hc. }
    2:{ pose proof (index_of_lt (g_start G) ord (Hc _ HS)). unfold M. lia. }
    rewrite (Zk_ranked_any D G' _ _ (length ord') M _ _ Hrk' HS').
    2:{ apply index_of_lt. now apply Hc'. }
    2:{ pose proof (index_of_lt (pel (g_start G)) ord' (Hc' _ HS')). unfold M. lia. }
    symmetry. apply (dual_Zk_presentation rho pel pnl); trivial.
    intros l idx Hl Hidx _. now apply (delta_env_pres rho pel pnl G G').
Qed.
End Grad.
