(** C02 (tier B), the key lemma of Esparza-Kiefer-Luttenberger / Etessami-Yannakakis:
    the Taylor inequality for the grammar's polynomial equations,

        F(x) + J(x) . d  <=  F(x + d)            (all x, d; everything is >= 0)

    in every ordered commutative semiring.  It holds monomial by monomial: the expansion of
    [prod_i (p_i + d_i)] contains [prod_i p_i] and, for every position i, the first-order term
    [d_i * prod_{j <> i} p_j] ([leib]); all other terms of the expansion are >= 0.  No bound on
    the number of edges of a rule is needed.  Also: for rules with at most one edge in the
    direction's support (linearly recursive components) the inequality is an equality at every
    point that vanishes on the support. *)
From Coq Require Import List Arith Bool PeanoNat Lia Ring Ring_theory.
Import ListNotations.
Require Import Fggs.Model.Semiring Fggs.Model.SumProduct Fggs.Model.Dual.
Require Import Fggs.Proofs.BigSum Fggs.Proofs.SP_trees Fggs.Proofs.SP_nonrec Fggs.Proofs.SP_mono
               Fggs.Proofs.Dual_ring Fggs.Proofs.Dual_leibniz.

Section Taylor.
Context {R : Type} (o : sr_ops R).
Hypothesis Hr : sr_ring o.
Hypothesis Ho : sr_ordered o.
Add Ring RingNT : (sr_is_srt o Hr).
Local Notation "x <== y" := (le o x y) (at level 70).

Lemma le_add_r a d : a <== add o a d.
Proof.
  replace a with (add o a (zero o)) at 1 by ring.
  apply (add_mono o Ho); [apply (le_refl o Ho) | apply (zero_le o Ho)].
Qed.
Lemma le_add_l a d : a <== add o d a.
Proof. rewrite (SRadd_comm Hr). apply le_add_r. Qed.

Lemma le_eq a b : a = b -> a <== b.
Proof. intros ->. apply (le_refl o Ho). Qed.

Lemma prodS_le_add {A} (l : list A) (p d : A -> R) :
  prodS o l p <== prodS o l (fun x => add o (p x) (d x)).
Proof. apply (prodS_mono o Hr Ho). intros a _. apply le_add_r. Qed.

(** the product rule, as an inequality *)
Lemma taylor_prod {A} (l : list A) (p d : A -> R) :
  add o (prodS o l p) (leib o l p d) <== prodS o l (fun x => add o (p x) (d x)).
Proof.
  induction l as [|x l IH].
  - rewrite !prodS_nil. cbn [leib]. apply le_eq. ring.
  - rewrite !prodS_cons. cbn [leib].
    replace (add o (mul o (p x) (prodS o l p)) (add o (mul o (d x) (prodS o l p)) (mul o (p x) (leib o l p d))))
      with (add o (mul o (p x) (add o (prodS o l p) (leib o l p d))) (mul o (d x) (prodS o l p))) by ring.
    replace (mul o (add o (p x) (d x)) (prodS o l (fun x0 => add o (p x0) (d x0))))
      with (add o (mul o (p x) (prodS o l (fun x0 => add o (p x0) (d x0))))
                  (mul o (d x) (prodS o l (fun x0 => add o (p x0) (d x0))))) by ring.
    apply (add_mono o Ho); apply (mul_mono o Ho); [exact IH | apply prodS_le_add].
Qed.

(** one rule *)
Lemma taylor_rule G (e d : env (R:=R)) r xi :
  add o (rule_val o G e r xi) (drule o G e d r xi)
  <== rule_val o G (fun l i => add o (e l i) (d l i)) r xi.
Proof.
  unfold rule_val, drule, rule_assts. rewrite <- (sumS_add o Hr).
  apply (sumS_mono o Ho). intros a _.
  exact (taylor_prod (r_edges r) (fun ed => e (fst ed) (sel a (snd ed))) (fun ed => d (fst ed) (sel a (snd ed)))).
Qed.

(** C02_taylor: one application of the equations.  [y = x + d] is given pointwise on the
    environments the rules read ([env_k]: terminals read the weights). *)
Theorem taylor_step G w (x y d : env (R:=R)) X xi :
  is_term G X = false ->
  (forall l i, env_k G w y l i = add o (env_k G w x l i) (d l i)) ->
  add o (step o G w x X xi) (dstep o G (env_k G w x) d X xi) <== step o G w y X xi.
Proof.
  intros HX Hy. unfold step, dstep. rewrite HX. rewrite <- (sumS_add o Hr).
  apply (sumS_mono o Ho). intros r _.
  apply (le_trans o Ho) with (rule_val o G (fun l i => add o (env_k G w x l i) (d l i)) r xi).
  - exact (taylor_rule G (env_k G w x) d r xi).
  - apply le_eq. apply (rule_val_ext o). intros ed a _ _. symmetry. apply Hy.
Qed.

(** the derivative is monotone in the direction *)
Lemma leib_mono_dir {A} (l : list A) (p d d' : A -> R) :
  (forall x, In x l -> d x <== d' x) -> leib o l p d <== leib o l p d'.
Proof.
  induction l as [|x l IH]; intros H; cbn [leib]; [apply (le_refl o Ho)|].
  apply (add_mono o Ho).
  - rewrite (SRmul_comm Hr (d x)), (SRmul_comm Hr (d' x)). apply (mul_mono o Ho). apply H. now left.
  - apply (mul_mono o Ho). apply IH. intros y Hy. apply H. now right.
Qed.

(** ** the affine case: equality *)
(** if at most one element of the list has a non-zero direction and the point vanishes there,
    the product rule is exact *)
Lemma taylor_prod_eq {A} (supp : A -> bool) (l : list A) (p d : A -> R) :
  length (filter supp l) <= 1 ->
  (forall x, In x l -> supp x = false -> d x = zero o) ->
  (forall x, In x l -> supp x = true -> p x = zero o) ->
  prodS o l (fun x => add o (p x) (d x)) = add o (prodS o l p) (leib o l p d).
Proof.
  induction l as [|x l IH]; intros Hlen Hd Hp.
  - rewrite !prodS_nil. cbn [leib]. ring.
  - rewrite !prodS_cons. cbn [leib]. cbn [filter] in Hlen.
    destruct (supp x) eqn:Ex.
    + cbn [length] in Hlen.
      assert (Hnil : forall y, In y l -> supp y = false).
      { intros y Hy. destruct (supp y) eqn:Ey; trivial. exfalso.
        assert (In y (filter supp l)) by (apply filter_In; auto).
        destruct (filter supp l); [contradiction | cbn in Hlen; lia]. }
      assert (E1 : prodS o l (fun x0 => add o (p x0) (d x0)) = prodS o l p).
      { apply BigSum.prodS_ext. intros y Hy. rewrite (Hd y (or_intror Hy) (Hnil y Hy)). ring. }
      assert (E2 : leib o l p d = zero o).
      { apply (leib_zero o Hr). intros y Hy. apply (Hd y (or_intror Hy) (Hnil y Hy)). }
      rewrite E1, E2, (Hp x (or_introl eq_refl) Ex). ring.
    + rewrite IH.
      * rewrite (Hd x (or_introl eq_refl) Ex). ring.
      * exact Hlen.
      * intros y Hy. apply Hd. now right.
      * intros y Hy. apply Hp. now right.
Qed.

Lemma taylor_rule_eq G (supp : nat -> bool) (e d : env (R:=R)) r xi :
  length (filter (fun ed => supp (fst ed)) (r_edges r)) <= 1 ->
  (forall l i, supp l = false -> d l i = zero o) ->
  (forall l i, supp l = true -> e l i = zero o) ->
  rule_val o G (fun l i => add o (e l i) (d l i)) r xi
  = add o (rule_val o G e r xi) (drule o G e d r xi).
Proof.
  intros Hlen Hd He. unfold rule_val, drule, rule_assts. rewrite <- (sumS_add o Hr).
  apply BigSum.sumS_ext. intros a _.
  apply (taylor_prod_eq (fun ed => supp (fst ed)) (r_edges r)
           (fun ed => e (fst ed) (sel a (snd ed))) (fun ed => d (fst ed) (sel a (snd ed)))); trivial.
  - intros ed _ H. apply Hd. exact H.
  - intros ed _ H. apply He. exact H.
Qed.
End Taylor.
