(** The other half of the elimination-order characterisation of treewidth:
    EVERY valid tree decomposition of a simple undirected graph has width >= [tw_perm g].
    Together with [tw_perm_decomposition] (TreeDec_tw.v) this makes [tw_perm g] the least width of
    a valid tree decomposition, i.e. the treewidth.
    Proof: induction on |V| + number of bags, over decompositions with *named* bags
    ([valid_ntd]) so that a bag can be deleted without renumbering.  Take a leaf bag B with
    neighbour bag P.  If B is contained in P, delete B.  Otherwise some vertex v of B is not in P;
    by running intersection v occurs in no other bag, so all its neighbours are in B; eliminate v
    (degree <= |B| - 1) and remove it from B: the result is a valid decomposition of the
    eliminated graph. *)
From Coq Require Import List Arith Bool PeanoNat Lia Permutation Setoid Morphisms.
Import ListNotations.
Require Import Fggs.Model.TreeDec Fggs.Proofs.TreeDec_graph Fggs.Proofs.TreeDec_tdok
               Fggs.Proofs.TreeDec_elim Fggs.Proofs.TreeDec_qbb Fggs.Proofs.TreeDec_tw
               Fggs.Proofs.TreeDec_complete.

Definition nbags := list (nat * bag).
Definition nholds (nb : nbags) (x a : nat) : Prop := exists b, In (a, b) nb /\ In x b.

Record valid_ntd (g : graph) (nb : nbags) (es : list (nat * nat)) : Prop := {
  nv_tree : tree_on (map fst nb) es;
  nv_nodup : forall a b, In (a, b) nb -> NoDup b;
  nv_sub : forall a b x, In (a, b) nb -> In x b -> In x (gverts g);
  nv_vertex : forall x, In x (gverts g) -> exists a, nholds nb x a;
  nv_edge : forall x y, In y (nbrs g x) -> exists a b, In (a, b) nb /\ In x b /\ In y b;
  nv_run : forall x a c, nholds nb x a -> nholds nb x c ->
             walk (fun p q => eadj es p q /\ nholds nb x p /\ nholds nb x q) a c }.

Definition nmax (nb : nbags) : nat := fold_right Nat.max 0 (map (fun q => length (snd q)) nb).

Lemma nmax_In nb a b : In (a, b) nb -> length b <= nmax nb.
Proof.
  unfold nmax. induction nb as [|q nb IH]; cbn; intro H; [destruct H|].
  destruct H as [->|H]; cbn; [lia|]. specialize (IH H). lia.
Qed.
Lemma nmax_le (nb nb' : nbags) :
  (forall a b, In (a, b) nb' -> exists b0, In (a, b0) nb /\ length b <= length b0) -> nmax nb' <= nmax nb.
Proof.
  unfold nmax. induction nb' as [|[a b] nb' IH]; cbn; intro H; [lia|].
  apply Nat.max_lub.
  - destruct (H a b) as [b0 [H1 H2]]; auto. pose proof (nmax_In nb a b0 H1). unfold nmax in *. lia.
  - apply IH. intros a0 b0 H0. apply H. auto.
Qed.

Lemma named_inj (nb : nbags) a b b' : NoDup (map fst nb) -> In (a, b) nb -> In (a, b') nb -> b = b'.
Proof.
  induction nb as [|q nb IH]; intros Nd H1 H2; [destruct H1|].
  cbn in Nd. inversion Nd as [|? ? Hn Nd']; subst.
  destruct H1 as [->|H1]; destruct H2 as [E|H2].
  - congruence.
  - exfalso. apply Hn. cbn. change a with (fst (a, b')). now apply in_map.
  - exfalso. apply Hn. subst q. cbn. change a with (fst (a, b)). now apply in_map.
  - now apply IH.
Qed.

(** the unique edge at a leaf *)
Lemma leaf_unique_edge es l e r : filter (incident l) es = [e] -> eadj es l r -> r = other_end l e.
Proof.
  intros F [H|H].
  - assert (In (l, r) (filter (incident l) es)) as H1.
    { apply filter_In. split; auto. apply incident_true. cbn; auto. }
    rewrite F in H1. destruct H1 as [E|[]]. subst e. unfold other_end. cbn. now rewrite Nat.eqb_refl.
  - assert (In (r, l) (filter (incident l) es)) as H1.
    { apply filter_In. split; auto. apply incident_true. cbn; auto. }
    rewrite F in H1. destruct H1 as [E|[]]. subst e. unfold other_end. cbn.
    destruct (Nat.eqb_spec r l); auto.
Qed.

Lemma tree_on_nonempty ns es : tree_on ns es -> ns <> [].
Proof. intros T E. pose proof (tree_on_length _ _ T). subst. cbn in *. lia. Qed.

Lemma map_fst_filter_name (nb : nbags) l :
  map fst (filter (fun q => negb (fst q =? l)) nb) = set_remove l (map fst nb).
Proof.
  unfold set_remove. induction nb as [|q nb IH]; cbn; auto.
  destruct (fst q =? l); cbn; rewrite IH; auto.
Qed.

Lemma tw_perm_step g v : wf_graph g -> In v (gverts g) ->
  tw_perm g <= Nat.max (deg g v) (tw_perm (eliminate_node g v)).
Proof.
  intros W Hv. destruct (tw_perm_attained (eliminate_node g v)) as [o [P E]].
  rewrite <- E. change (Nat.max (deg g v) (elim_width (eliminate_node g v) o)) with (elim_width g (v :: o)).
  apply tw_perm_le. rewrite gverts_eliminate in P.
  eapply perm_trans; [apply perm_skip, P|]. apply Permutation_sym, NoDup_perm_remove; auto. apply W.
Qed.

(** * case (i): the leaf bag is contained in its neighbour: delete it *)
Lemma ntd_delete_leaf g nb es l e B Pb :
  valid_ntd g nb es -> In (l, B) nb -> 2 <= length nb ->
  filter (incident l) es = [e] -> In (other_end l e, Pb) nb -> incl B Pb ->
  valid_ntd g (filter (fun q => negb (fst q =? l)) nb) (filter (fun e => negb (incident l e)) es).
Proof.
  intros V HB L F HP Hsub.
  set (p := other_end l e) in *.
  set (nb' := filter (fun q => negb (fst q =? l)) nb).
  set (es' := filter (fun e => negb (incident l e)) es).
  pose proof (nv_tree g nb es V) as T. pose proof (tree_on_NoDup _ _ T) as Nd.
  assert (Hl : In l (map fst nb)) by (change l with (fst (l, B)); now apply in_map).
  assert (L2 : 2 <= length (map fst nb)) by now rewrite map_length.
  destruct (leaf_removal _ _ T l e Hl L2 F) as [Hpl [Hp T']]. fold p in Hpl, Hp.
  assert (Hnb' : forall a b, In (a, b) nb' <-> In (a, b) nb /\ a <> l).
  { intros a b. unfold nb'. rewrite filter_In. cbn. rewrite negb_true_iff, Nat.eqb_neq. tauto. }
  assert (Hold : forall x a, nholds nb x a -> nholds nb' x (if Nat.eq_dec a l then p else a)).
  { intros x a [b [H1 H2]]. destruct (Nat.eq_dec a l) as [->|Hne].
    - rewrite (named_inj nb l b B Nd H1 HB) in H2. exists Pb. split; [apply Hnb'; auto|auto].
    - exists b. split; [apply Hnb'; auto|auto]. }
  assert (Hnew : forall x a, nholds nb' x a -> nholds nb x a /\ a <> l).
  { intros x a [b [H1 H2]]. apply Hnb' in H1. destruct H1. split; auto. exists b. auto. }
  constructor.
  - unfold nb'. rewrite map_fst_filter_name. exact T'.
  - intros a b H. apply Hnb' in H. destruct H. eapply (nv_nodup g nb es V); eauto.
  - intros a b x H Hx. apply Hnb' in H. destruct H. eapply (nv_sub g nb es V); eauto.
  - intros x Hx. destruct (nv_vertex g nb es V x Hx) as [a Ha]. eexists. apply Hold. exact Ha.
  - intros x y Hxy. destruct (nv_edge g nb es V x y Hxy) as [a [b [H1 [H2 H3]]]].
    destruct (Nat.eq_dec a l) as [->|Hne].
    + rewrite (named_inj nb l b B Nd H1 HB) in H2, H3. exists p, Pb. split; [apply Hnb'; auto|auto].
    + exists a, b. split; [apply Hnb'; auto|auto].
  - intros x a c Ha Hc. destruct (Hnew x a Ha) as [Ha0 Hal]. destruct (Hnew x c Hc) as [Hc0 Hcl].
    pose proof (nv_run g nb es V x a c Ha0 Hc0) as Wk.
    apply (walk_map _ (fun q r => eadj es' q r /\ nholds nb' x q /\ nholds nb' x r)
                    (fun q => if Nat.eq_dec q l then p else q)) in Wk.
    + destruct (Nat.eq_dec a l); [congruence|]. destruct (Nat.eq_dec c l); [congruence|]. exact Wk.
    + intros q r [Hqr [Hq Hr]].
      destruct (Nat.eq_dec q l) as [->|Hql]; destruct (Nat.eq_dec r l) as [->|Hrl].
      * left; reflexivity.
      * left. symmetry. exact (leaf_unique_edge es l e r F Hqr).
      * left. exact (leaf_unique_edge es l e q F (eadj_sym _ _ _ Hqr)).
      * right. split.
        -- destruct Hqr as [H|H]; [left|right]; apply filter_In; (split; [exact H|]);
             apply negb_true_iff, incident_false; cbn; auto.
        -- pose proof (Hold x q Hq) as H1. pose proof (Hold x r Hr) as H2.
           destruct (Nat.eq_dec q l); [congruence|]. destruct (Nat.eq_dec r l); [congruence|]. auto.
Qed.

(** * case (ii): a vertex of the leaf bag that is not in the neighbour bag: eliminate it *)
Definition strip (l v : nat) (nb : nbags) : nbags :=
  map (fun q => if fst q =? l then (fst q, set_remove v (snd q)) else q) nb.

Lemma map_fst_strip l v nb : map fst (strip l v nb) = map fst nb.
Proof.
  unfold strip. rewrite map_map. apply map_ext. intro q. cbv beta.
  match goal with |- context [if ?c then _ else _] => destruct c end; reflexivity.
Qed.
Lemma In_strip l v nb a b' :
  In (a, b') (strip l v nb) <->
  exists b, In (a, b) nb /\ b' = (if a =? l then set_remove v b else b).
Proof.
  unfold strip. rewrite in_map_iff. split.
  - intros [[a0 b0] [E H]]. cbn in E. destruct (a0 =? l) eqn:El; inversion E; subst.
    + exists b0. rewrite El. auto.
    + exists b'. rewrite El. auto.
  - intros [b [H ->]]. exists (a, b). split; auto. cbn. destruct (a =? l); reflexivity.
Qed.

Lemma ntd_eliminate g nb es l e B Pb v :
  wf_graph g -> valid_ntd g nb es -> In (l, B) nb -> 2 <= length nb ->
  filter (incident l) es = [e] -> In (other_end l e, Pb) nb -> In v B -> ~ In v Pb ->
  deg g v < length B /\ valid_ntd (eliminate_node g v) (strip l v nb) es.
Proof.
  intros W V HB L F HP HvB HvP.
  set (p := other_end l e) in *.
  pose proof (nv_tree g nb es V) as T. pose proof (tree_on_NoDup _ _ T) as Nd.
  assert (Only : forall a, nholds nb v a -> a = l).
  { intros a Ha. assert (Hl : nholds nb v l) by (exists B; auto).
    pose proof (nv_run g nb es V v l a Hl Ha) as Wk.
    destruct (walk_first _ _ _ Wk) as [E|[c [Hc [_ Hvc]]]]; auto.
    exfalso. rewrite (leaf_unique_edge es l e c F Hc) in Hvc. fold p in Hvc.
    destruct Hvc as [b [H1 H2]]. rewrite (named_inj nb p b Pb Nd H1 HP) in H2. auto. }
  assert (Nv : incl (nbrs g v) B).
  { intros y Hy. destruct (nv_edge g nb es V v y Hy) as [a [b [H1 [H2 H3]]]].
    assert (a = l) by (apply Only; exists b; auto). subst a.
    now rewrite (named_inj nb l b B Nd H1 HB) in H3. }
  assert (Hv : In v (gverts g)) by exact (nv_sub g nb es V l B v HB HvB).
  split.
  - unfold deg.
    assert (I : incl (nbrs g v) (set_remove v B)).
    { intros y Hy. apply set_remove_In. split; [now apply Nv|]. intro; subst. now apply (wf_irrefl g W v). }
    apply NoDup_incl_length in I; [|apply W].
    pose proof (set_remove_length v B (nv_nodup g nb es V l B HB) HvB). lia.
  - assert (Hh : forall x a, nholds (strip l v nb) x a <-> nholds nb x a /\ x <> v).
    { intros x a. unfold nholds. split.
      - intros [b' [H1 H2]]. apply In_strip in H1. destruct H1 as [b [H1 ->]].
        destruct (Nat.eqb_spec a l) as [->|Hne].
        + apply set_remove_In in H2. destruct H2. split; eauto.
        + split; eauto. intro; subst x. apply Hne. apply Only. exists b; auto.
      - intros [[b [H1 H2]] Hx]. exists (if a =? l then set_remove v b else b). split.
        + apply In_strip. eauto.
        + destruct (a =? l); auto. apply set_remove_In. auto. }
    constructor.
    + rewrite map_fst_strip. exact T.
    + intros a b' H. apply In_strip in H. destruct H as [b [H ->]].
      pose proof (nv_nodup g nb es V a b H). destruct (a =? l); auto using set_remove_NoDup.
    + intros a b' x H Hx.
      assert (Hs : nholds (strip l v nb) x a) by (exists b'; auto).
      apply Hh in Hs. destruct Hs as [[b [H1 H2]] Hxv].
      rewrite gverts_eliminate. apply set_remove_In. split; [exact (nv_sub g nb es V a b x H1 H2)|exact Hxv].
    + intros x Hx. rewrite gverts_eliminate in Hx. apply set_remove_In in Hx. destruct Hx as [Hx Hxv].
      destruct (nv_vertex g nb es V x Hx) as [a Ha]. exists a. apply Hh. auto.
    + intros x y Hxy. apply In_nbrs_eliminate in Hxy; auto. destruct Hxy as [Hxv [Hyv H]].
      assert (K : forall a b, In (a, b) nb -> In x b -> In y b ->
                exists a0 b0, In (a0, b0) (strip l v nb) /\ In x b0 /\ In y b0).
      { intros a b H1 H2 H3. exists a, (if a =? l then set_remove v b else b). split.
        - apply In_strip. eauto.
        - destruct (a =? l); auto. split; apply set_remove_In; auto. }
      destruct H as [H|[Hne [H1 H2]]].
      * destruct (nv_edge g nb es V x y H) as [a [b [H1 [H2 H3]]]]. eapply K; eauto.
      * eapply K; [exact HB|now apply Nv|now apply Nv].
    + intros x a c Ha Hc. apply Hh in Ha, Hc. destruct Ha as [Ha Hxv]. destruct Hc as [Hc _].
      eapply walk_mono; [|exact (nv_run g nb es V x a c Ha Hc)].
      intros q r [Hqr [Hq Hr]]. split; auto. split; apply Hh; auto.
Qed.

(** * the induction *)
Lemma incl_dec_find (B Pb : list nat) : incl B Pb \/ exists v, In v B /\ ~ In v Pb.
Proof.
  destruct (find (fun x => negb (mem x Pb)) B) as [v|] eqn:F.
  - right. apply find_some in F. destruct F as [H1 H2]. exists v. split; auto.
    now apply negb_true_iff, mem_nIn in H2.
  - left. intros x Hx. pose proof (find_none _ _ F x Hx) as H. cbn in H.
    apply negb_false_iff in H. now apply mem_In.
Qed.

Lemma filter_len_le {A} (f : A -> bool) l : length (filter f l) <= length l.
Proof. induction l as [|a l IH]; cbn; [lia|]. destruct (f a); cbn; lia. Qed.

Lemma tw_perm_nil : tw_perm [] = 0.
Proof. reflexivity. Qed.

Lemma ntd_width_lower_bound n : forall g nb es,
  length g + length nb <= n -> wf_graph g -> valid_ntd g nb es -> tw_perm g <= pred (nmax nb).
Proof.
  induction n as [|n IH]; intros g nb es Ln W V.
  - destruct g; [rewrite tw_perm_nil; lia|cbn in Ln; lia].
  - destruct g as [|p0 g0]; [rewrite tw_perm_nil; lia|]. remember (p0 :: g0) as g eqn:Eg.
    pose proof (nv_tree g nb es V) as T. pose proof (tree_on_NoDup _ _ T) as Nd.
    pose proof (tree_on_nonempty _ _ T) as Hne.
    destruct (le_lt_dec 2 (length nb)) as [L2|L1].
    + (* at least two bags: take a leaf *)
      assert (L2' : 2 <= length (map fst nb)) by now rewrite map_length.
      destruct (exists_leaf _ _ T L2') as [l [Hl Hle]].
      destruct (filter (incident l) es) as [|e [|e2 r]] eqn:F; try (cbn in Hle; lia).
      destruct (leaf_removal _ _ T l e Hl L2' F) as [Hpl [Hp T']].
      apply in_map_iff in Hl. destruct Hl as [[l0 B] [El HB]]. cbn in El. subst l0.
      apply in_map_iff in Hp. destruct Hp as [[p1 Pb] [Ep HP]]. cbn in Ep. subst p1.
      destruct (incl_dec_find B Pb) as [Hsub|[v [HvB HvP]]].
      * pose proof (ntd_delete_leaf g nb es l e B Pb V HB L2 F HP Hsub) as V'.
        set (nb' := filter (fun q => negb (fst q =? l)) nb) in *.
        assert (Len : S (length nb') = length nb).
        { rewrite <- (map_length fst nb'), <- (map_length fst nb). unfold nb'.
          rewrite map_fst_filter_name. apply set_remove_length; auto.
          change l with (fst (l, B)). now apply in_map. }
        assert (Hm : nmax nb' <= nmax nb).
        { apply nmax_le. intros a b H. unfold nb' in H. apply filter_In in H. exists b. split; [tauto|lia]. }
        specialize (IH g nb' _ ltac:(lia) W V'). lia.
      * destruct (ntd_eliminate g nb es l e B Pb v W V HB L2 F HP HvB HvP) as [Hd V'].
        assert (Hv : In v (gverts g)) by exact (nv_sub g nb es V l B v HB HvB).
        pose proof (length_eliminate g v (wf_keys g W) Hv) as Le.
        assert (Ls : length (strip l v nb) = length nb) by (unfold strip; apply map_length).
        assert (Hm : nmax (strip l v nb) <= nmax nb).
        { apply nmax_le. intros a b' H. apply In_strip in H. destruct H as [b [H ->]]. exists b. split; auto.
          destruct (a =? l); auto. unfold set_remove. apply filter_len_le. }
        specialize (IH (eliminate_node g v) (strip l v nb) es ltac:(lia) (wf_eliminate g v W) V').
        pose proof (tw_perm_step g v W Hv). pose proof (nmax_In nb l B HB). lia.
    + (* a single bag: it contains every vertex *)
      destruct nb as [|[a b] [|q nb]]; [cbn in Hne; congruence| |cbn in L1; lia].
      assert (Hall : incl (gverts g) b).
      { intros x Hx. destruct (nv_vertex g _ es V x Hx) as [a' [b' [[E|[]] H2]]]. inversion E; subst. auto. }
      apply NoDup_incl_length in Hall; [|apply W]. unfold gverts in Hall. rewrite map_length in Hall.
      pose proof (tw_perm_le g (gverts g) (Permutation_refl _)) as H1.
      pose proof (elim_width_bound (gverts g) g W (Permutation_refl _)) as H2.
      unfold nmax. cbn [map fold_right snd]. lia.
Qed.

(** * back to [valid_td] *)
Lemma map_snd_combine_seq {A} (l : list A) s : map snd (combine (seq s (length l)) l) = l.
Proof. revert s. induction l as [|x l IH]; intro s; cbn; auto. f_equal. apply IH. Qed.

Lemma valid_td_ntd g t : valid_td g t ->
  valid_ntd g (combine (seq 0 (length (fst t))) (fst t)) (snd t).
Proof.
  intro V. set (nb := combine (seq 0 (length (fst t))) (fst t)).
  assert (Hin : forall a b, In (a, b) nb <-> nth_error (fst t) a = Some b).
  { intros a b. unfold nb. rewrite In_combine_seq, Nat.sub_0_r. split; [tauto|]. intro H. split; [lia|auto]. }
  assert (Hh : forall x a, nholds nb x a <-> holds t x a).
  { intros x a. unfold nholds, holds. split; intros [b [H1 H2]]; exists b; split; auto; now apply Hin. }
  constructor.
  - unfold nb. rewrite map_fst_combine_seq. apply V.
  - intros a b H. apply Hin in H. apply nth_error_In in H. now apply (vt_nodup g t V).
  - intros a b x H Hx. apply Hin in H. apply nth_error_In in H. exact (vt_sub g t V b x H Hx).
  - intros x Hx. destruct (vt_vertex g t V x Hx) as [b [Hb Hxb]].
    apply In_nth_error in Hb. destruct Hb as [a Ha]. exists a, b. split; auto. now apply Hin.
  - intros x y Hxy. destruct (vt_edge g t V x y Hxy) as [b [Hb [H1 H2]]].
    apply In_nth_error in Hb. destruct Hb as [a Ha]. exists a, b. split; auto. now apply Hin.
  - intros x a c Ha Hc. apply Hh in Ha, Hc.
    eapply walk_mono; [|exact (vt_run g t V x a c Ha Hc)].
    intros q r [Hqr [Hq Hr]]. split; auto. split; now apply Hh.
Qed.

Theorem td_width_lower_bound g t : wf_graph g -> valid_td g t -> tw_perm g <= width t.
Proof.
  intros W V. pose proof (valid_td_ntd g t V) as Vn.
  pose proof (ntd_width_lower_bound _ g _ _ (le_n _) W Vn) as H.
  unfold width, max_bag. unfold nmax in H.
  rewrite <- (map_map snd (@length nat)) in H. rewrite map_snd_combine_seq in H. exact H.
Qed.

(** [tw_perm g] is the treewidth: the least width of a valid tree decomposition *)
Theorem tw_perm_is_treewidth g : wf_graph g ->
  (exists t, valid_td g t /\ width t = tw_perm g) /\
  (forall t, valid_td g t -> tw_perm g <= width t).
Proof.
  intro W. split; [now apply tw_perm_decomposition|]. intros t V. now apply td_width_lower_bound.
Qed.
