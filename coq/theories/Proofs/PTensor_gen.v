(** Binary operations through anti-unification: the operand re-indexed by the generalised variables
    denotes the operand itself at the index the generalisation evaluates to (core lemma), hence
    [pt_binary] denotes the pointwise operation. *)
From Coq Require Import List Arith Lia PeanoNat Bool PArith.
Import ListNotations.
Require Import Fggs.Model.Axis Fggs.Model.PTensor.
Require Import Fggs.Proofs.Axis_sem Fggs.Proofs.Axis_unify Fggs.Proofs.Axis_antiunify.
Require Import Fggs.Proofs.PTensor_sem Fggs.Proofs.PTensor_dense.
Require Import Fggs.Proofs.Axis_antiunify_inv.

(** [eval] only depends on the free variables *)
Lemma eval_ext r1 r2 e : (forall k, In k (fv e) -> r1 k = r2 k) -> eval r1 e = eval r2 e.
Proof.
  induction e as [k n|l IH|b t a IH] using axis_ind'; intros H.
  - simpl. apply H. left. reflexivity.
  - simpl. assert (Hl : forall x, In x l -> eval r1 x = eval r2 x).
    { intros x Hx. rewrite Forall_forall in IH. apply IH; [exact Hx|]. intros k Hk. apply H. simpl. apply in_flat_map. eauto. }
    generalize 0 as acc. clear IH H. induction l as [|x l IHl]; intros acc; [reflexivity|].
    simpl. rewrite (Hl x (or_introl eq_refl)). apply IHl. intros y Hy. apply Hl. right. exact Hy.
  - simpl. f_equal. apply IH. exact H.
Qed.

Lemma evals_ext r1 r2 es : (forall k, In k (flat_map fv es) -> r1 k = r2 k) -> evals r1 es = evals r2 es.
Proof.
  intros H. unfold evals. apply map_ext_in. intros e He. apply eval_ext. intros k Hk. apply H. apply in_flat_map. eauto.
Qed.

Definition akey (en : aentry) : positive := match en with (k, _, _, _) => k end.
Definition apair (en : aentry) : pn := match en with (k, n, _, _) => (k, n) end.
Definition gs_of (L : list aentry) : list pn := map apair L.

Definition entry_of (k : positive) (L : list aentry) : option aentry :=
  find (fun en => Pos.eqb (akey en) k) L.

Lemma akeys_akey L : akeys L = map akey L.
Proof. unfold akeys. apply map_ext. intros [[[k n] e] f]. reflexivity. Qed.

Lemma entry_of_In L en : NoDup (akeys L) -> In en L -> entry_of (akey en) L = Some en.
Proof.
  rewrite akeys_akey. induction L as [|x L IH]; intros ND H; [contradiction|].
  simpl in ND. inversion ND as [|? ? Hnot ND']; subst. unfold entry_of. simpl.
  destruct H as [->|H]; [rewrite Pos.eqb_refl; reflexivity|].
  destruct (Pos.eqb_spec (akey x) (akey en)) as [E|_].
  - exfalso. apply Hnot. rewrite E. apply in_map. exact H.
  - apply IH; assumption.
Qed.

Lemma entry_of_None L k : ~ In k (akeys L) -> entry_of k L = None.
Proof.
  rewrite akeys_akey. induction L as [|x L IH]; intros H; [reflexivity|]. unfold entry_of. simpl.
  destruct (Pos.eqb_spec (akey x) k) as [E|_]; [exfalso; apply H; left; exact E|].
  apply IH. intros Hk. apply H. right. exact Hk.
Qed.

Lemma entry_of_Some L k en : entry_of k L = Some en -> In en L /\ akey en = k.
Proof.
  unfold entry_of. intros H. apply find_some in H. destruct H as [H1 H2]. apply Pos.eqb_eq in H2. auto.
Qed.

Section Core.
Variable V : Type.
Variable part : aentry -> axis.

Definition sigma_of (L : list aentry) : subst := map (fun en => (akey en, part en)) L.

Record gen_ok (B : positive) (L : list aentry) (lggs tes : list axis) : Prop := {
  g_nodup : NoDup (akeys L);
  g_fresh : forall k, In k (akeys L) -> (B <= k)%positive;
  g_entries : forall en, In en L ->
     snd (apair en) = numel (part en) /\
     (part en = Phys (akey en) (snd (apair en)) \/ below B (part en)) /\
     (forall kn, In kn (fvn (part en)) -> In kn (flat_map fvn tes));
  g_cover : forall kn, In kn (flat_map fvn tes) -> exists en, In en L /\ In kn (fvn (part en));
  g_lggs1 : forall kn, In kn (flat_map fvn lggs) -> exists en, In en L /\ apair en = kn;
  g_lggs2 : forall k, In k (akeys L) -> exists n, In (k, n) (flat_map fvn lggs);
  g_tes : forall k n, In (k, n) (flat_map fvn tes) ->
     (k < B)%positive \/ (exists en, In en L /\ apair en = (k, n) /\ part en = Phys k n);
  g_len : length lggs = length tes;
  g_sem : forall rho, models rho (sigma_of L) -> evals rho lggs = evals rho tes }.

(** mix two environments: generalised variables from [g], everything else from [r] *)
Definition mix (L : list aentry) (g r : env) : env :=
  fun k => match entry_of k L with Some _ => g k | None => r k end.

Lemma In_fv_fvn es k : In k (flat_map fv es) <-> exists n, In (k, n) (flat_map fvn es).
Proof.
  split.
  - intros H. apply in_flat_map in H. destruct H as (e & He & H). apply fv_of_fvn in H. destruct H as (n & H).
    exists n. apply in_flat_map. eauto.
  - intros (n & H). apply in_flat_map in H. destruct H as (e & He & H). apply in_flat_map. exists e. split; [exact He|].
    apply fv_of_fvn. eauto.
Qed.

Lemma inrange_list_fvn rho es : Forall (inrange rho) es <-> (forall k n, In (k, n) (flat_map fvn es) -> rho k < n).
Proof.
  split.
  - intros R k n H. apply in_flat_map in H. destruct H as (e & He & H). rewrite Forall_forall in R.
    exact (proj2 (inrange_fvn rho e) (R e He) k n H).
  - intros H. rewrite Forall_forall. intros e He. apply inrange_fvn. intros k n Hk. apply H. apply in_flat_map. eauto.
Qed.

Section WithGen.
Variables (B : positive) (L : list aentry) (lggs tes : list axis).
Hypothesis G : gen_ok B L lggs tes.

Lemma key_In en : In en L -> In (akey en) (akeys L).
Proof. intros H. rewrite akeys_akey. apply in_map. exact H. Qed.

Lemma mix_key g r en : In en L -> mix L g r (akey en) = g (akey en).
Proof. intros H. unfold mix. rewrite (entry_of_In L en (g_nodup _ _ _ _ G) H). reflexivity. Qed.

Lemma mix_below g r k : (k < B)%positive -> mix L g r k = r k.
Proof.
  intros H. unfold mix. rewrite entry_of_None; [reflexivity|]. intros Hk. pose proof (g_fresh _ _ _ _ G k Hk). lia.
Qed.

(** on the generalisation only the generalised variables matter *)
Lemma evals_mix_lggs g r : evals (mix L g r) lggs = evals g lggs.
Proof.
  apply evals_ext. intros k Hk. apply In_fv_fvn in Hk. destruct Hk as (n & Hn).
  destruct (g_lggs1 _ _ _ _ G _ Hn) as (en & Hen & E). assert (akey en = k) by (destruct en as [[[? ?] ?] ?]; inversion E; reflexivity).
  subst k. apply mix_key. exact Hen.
Qed.

(** the mixed environment satisfies the equations of the antisubst as soon as [g] assigns each
    new variable the value of its part under [r] *)
Lemma models_mix g r : (forall en, In en L -> g (akey en) = eval r (part en)) -> models (mix L g r) (sigma_of L).
Proof.
  intros H. unfold models, sigma_of. rewrite Forall_forall. intros ke Hke. apply in_map_iff in Hke.
  destruct Hke as (en & <- & Hen). cbn [fst snd]. rewrite (mix_key g r en Hen), (H en Hen).
  destruct (g_entries _ _ _ _ G en Hen) as (_ & [Own|Bel] & _).
  - rewrite Own. simpl. rewrite (mix_key g r en Hen), (H en Hen), Own. reflexivity.
  - symmetry. apply eval_ext. intros k Hk. apply mix_below. exact (Bel k Hk).
Qed.

Lemma evals_mix_tes g r : (forall en, In en L -> g (akey en) = eval r (part en)) -> evals (mix L g r) tes = evals r tes.
Proof.
  intros H. apply evals_ext. intros k Hk. apply In_fv_fvn in Hk. destruct Hk as (n & Hn).
  destruct (g_tes _ _ _ _ G k n Hn) as [Hb|(en & Hen & E & Own)]; [apply mix_below; exact Hb|].
  assert (akey en = k) by (destruct en as [[[? ?] ?] ?]; inversion E; reflexivity). subst k.
  rewrite (mix_key g r en Hen), (H en Hen), Own. reflexivity.
Qed.

Lemma pcoords_gs g : pcoords (gs_of L) g = map (fun en => g (akey en)) L.
Proof. unfold pcoords, gs_of. rewrite map_map. apply map_ext. intros [[[k n] e] f]. reflexivity. Qed.

Lemma evals_es r : evals r (map part L) = map (fun en => eval r (part en)) L.
Proof. unfold evals. apply map_map. Qed.

(** the two index relations coincide *)
Lemma core_iff g r : Forall (inrange g) lggs ->
  (Forall (inrange r) tes /\ evals r tes = evals g lggs) <->
  (Forall (inrange r) (map part L) /\ evals r (map part L) = pcoords (gs_of L) g).
Proof.
  intros Rg. split.
  - intros [R E].
    (* each part is in range for r *)
    assert (Rp : forall en, In en L -> inrange r (part en)).
    { intros en Hen. apply inrange_fvn. intros k n Hk. apply (proj1 (inrange_list_fvn r tes) R).
      exact (proj2 (proj2 (g_entries _ _ _ _ G en Hen)) _ Hk). }
    set (gr := fun k => match entry_of k L with Some en => eval r (part en) | None => 0 end).
    assert (Hgr : forall en, In en L -> gr (akey en) = eval r (part en)).
    { intros en Hen. unfold gr. rewrite (entry_of_In L en (g_nodup _ _ _ _ G) Hen). reflexivity. }
    pose proof (g_sem _ _ _ _ G _ (models_mix gr r Hgr)) as S.
    rewrite evals_mix_lggs, (evals_mix_tes gr r Hgr), E in S.
    (* gr and g agree on the generalised variables by injectivity of the generalisation *)
    assert (Rgr : Forall (inrange gr) lggs).
    { apply inrange_list_fvn. intros k n Hk. destruct (g_lggs1 _ _ _ _ G _ Hk) as (en & Hen & Ep).
      destruct (g_entries _ _ _ _ G en Hen) as (Hn & _ & _).
      assert (akey en = k /\ snd (apair en) = n) as [Ek En] by (destruct en as [[[? ?] ?] ?]; inversion Ep; auto).
      subst k n. rewrite (Hgr en Hen), Hn. apply eval_bound. apply Rp. exact Hen. }
    assert (Agree : forall en, In en L -> g (akey en) = eval r (part en)).
    { intros en Hen. rewrite <- (Hgr en Hen). symmetry.
      apply (pattern_injective lggs gr g Rgr Rg); [unfold evals in S; exact S|].
      destruct (g_lggs2 _ _ _ _ G _ (key_In en Hen)) as (n & Hn). apply In_fv_fvn. eauto. }
    split.
    + rewrite Forall_forall. intros e He. apply in_map_iff in He. destruct He as (en & <- & Hen). apply Rp. exact Hen.
    + rewrite evals_es, pcoords_gs. apply map_ext_in. intros en Hen. symmetry. apply Agree. exact Hen.
  - intros [R E]. rewrite evals_es, pcoords_gs in E.
    assert (Agree : forall en, In en L -> g (akey en) = eval r (part en)).
    { intros en Hen. symmetry. revert en Hen. apply (proj1 (Forall_forall _ _)).
      clear - E. induction L as [|x l IH]; [constructor|]. simpl in E. inversion E. constructor; [assumption|apply IH; assumption]. }
    pose proof (g_sem _ _ _ _ G _ (models_mix g r Agree)) as S.
    rewrite evals_mix_lggs, (evals_mix_tes g r Agree) in S.
    split; [|symmetry; exact S].
    apply inrange_list_fvn. intros k n Hk. destruct (g_cover _ _ _ _ G _ Hk) as (en & Hen & Hp).
    rewrite Forall_forall in R. specialize (R (part en) (in_map part L en Hen)).
    exact (proj2 (inrange_fvn r (part en)) R k n Hp).
Qed.

(** every backed element of the operand is hit by the generalisation *)
Lemma core_complete r : Forall (inrange r) tes ->
  exists g, Forall (inrange g) lggs /\ evals g lggs = evals r tes.
Proof.
  intros R.
  assert (Rp : forall en, In en L -> inrange r (part en)).
  { intros en Hen. apply inrange_fvn. intros k n Hk. apply (proj1 (inrange_list_fvn r tes) R).
    exact (proj2 (proj2 (g_entries _ _ _ _ G en Hen)) _ Hk). }
  set (gr := fun k => match entry_of k L with Some en => eval r (part en) | None => 0 end).
  assert (Hgr : forall en, In en L -> gr (akey en) = eval r (part en)).
  { intros en Hen. unfold gr. rewrite (entry_of_In L en (g_nodup _ _ _ _ G) Hen). reflexivity. }
  exists gr. split.
  - apply inrange_list_fvn. intros k n Hk. destruct (g_lggs1 _ _ _ _ G _ Hk) as (en & Hen & Ep).
    destruct (g_entries _ _ _ _ G en Hen) as (Hn & _ & _).
    assert (akey en = k /\ snd (apair en) = n) as [Ek En] by (destruct en as [[[? ?] ?] ?]; inversion Ep; auto).
    subst k n. rewrite (Hgr en Hen), Hn. apply eval_bound. apply Rp. exact Hen.
  - pose proof (g_sem _ _ _ _ G _ (models_mix gr r Hgr)) as S.
    rewrite evals_mix_lggs, (evals_mix_tes gr r Hgr) in S. exact S.
Qed.

(** the generalised pattern together with its variables is a well-formed pattern *)
Lemma gen_wf (phys : list nat -> V) d : wf V (mkPT phys (gs_of L) lggs d).
Proof.
  constructor; cbn [paxes vaxes].
  - replace (map fst (gs_of L)) with (akeys L); [exact (g_nodup _ _ _ _ G)|].
    rewrite akeys_akey. unfold gs_of. rewrite map_map. apply map_ext. intros [[[k n] e] f]. reflexivity.
  - intros k n. split; intros H.
    + destruct (g_lggs1 _ _ _ _ G _ H) as (en & Hen & E). unfold gs_of. apply in_map_iff. exists en. auto.
    + unfold gs_of in H. apply in_map_iff in H. destruct H as (en & E & Hen).
      destruct (g_lggs2 _ _ _ _ G _ (key_In en Hen)) as (n' & Hn').
      destruct (g_lggs1 _ _ _ _ G _ Hn') as (en' & Hen' & E').
      assert (akey en' = akey en) by (destruct en as [[[? ?] ?] ?], en' as [[[? ?] ?] ?]; simpl in *; inversion E; inversion E'; subst; reflexivity).
      pose proof (entry_of_In L en (g_nodup _ _ _ _ G) Hen) as F1.
      pose proof (entry_of_In L en' (g_nodup _ _ _ _ G) Hen') as F2.
      rewrite H in F2. rewrite F1 in F2. inversion F2; subst en'. rewrite E in E'. inversion E'; subst. exact Hn'.
Qed.

(** the core lemma: the operand re-indexed by the generalised variables *)
Theorem core_denote (T : ptensor V) g : vaxes T = tes -> wf V T -> Forall (inrange g) lggs ->
  denote V (with_vaxes V T (map part L)) (pcoords (gs_of L) g) = denote V T (evals g lggs).
Proof.
  intros Ev W Rg. apply view_lemma.
  - apply wf_covers. exact W.
  - intros k Hk. apply in_map_iff in Hk. destruct Hk as ([k' n] & <- & Hk). apply (wf_fv V T W) in Hk. rewrite Ev in Hk.
    destruct (g_cover _ _ _ _ G _ Hk) as (en & Hen & Hp). apply in_flat_map. exists (part en). split; [apply in_map; exact Hen|].
    apply fv_of_fvn. eauto.
  - unfold evals. rewrite map_length, Ev. apply (g_len _ _ _ _ G).
  - unfold pcoords, gs_of. rewrite !map_length. reflexivity.
  - intros rho. rewrite Ev. apply core_iff. exact Rg.
Qed.

End WithGen.
End Core.
