(** C16 -- the boolean oracle [wf_b] on observations:
    soundness (what [wf_b obs = true] means, in the words of the property) and the link with
    the state-level invariant ([inv s -> wf_b (observe s) = true]). *)
From Coq Require Import List Arith Bool Lia.
Import ListNotations.
Require Import Fggs.Model.GraphAPI Fggs.Proofs.GraphAPI_assoc Fggs.Proofs.GraphAPI_wf Fggs.Proofs.GraphAPI_inv.

(** * soundness *)
(** one label per name *)
Definition functional_names (els : list elabel) : Prop :=
  forall l1 l2, In l1 els -> In l2 els -> el_name l1 = el_name l2 -> l1 = l2.

Definition graph_obs_wf (nodes : list node) (edges : list edge) (ext : list node) (ty : list nat) (els : list elabel) : Prop :=
  NoDup (map n_id nodes) /\ NoDup (map e_id edges) /\
  (forall e n, In e edges -> In n (e_nodes e) -> In n nodes) /\
  (forall n, In n ext -> In n nodes) /\
  functional_names els /\
  (forall e, In e edges -> In (e_label e) els) /\
  (forall e, In e edges -> el_ty (e_label e) = map n_label (e_nodes e)) /\
  ty = map n_label ext.

Definition rule_obs_wf (all : list oobs) (els : list elabel) (r : rule) : Prop :=
  In (r_lhs r) els /\
  exists k nodes edges ext ty b c,
    nth_error all (r_rhs r) = Some (ObsG (k, nodes, edges, ext, ty) b c) /\
    el_ty (r_lhs r) = ty /\ forall e, In e edges -> In (e_label e) els.

Definition obs_wf (all : list oobs) (o : oobs) : Prop :=
  match o with
  | ObsG (_, nodes, edges, ext, ty) (_, els, _, _) _ => graph_obs_wf nodes edges ext ty els
  | ObsH (_, rules, groups, start) (_, els, _, _) _ =>
    functional_names els /\ In start els /\ rules = concat (map snd groups) /\
    forall r, In r rules -> rule_obs_wf all els r
  end.

Lemma NoDup_names_functional : forall els, NoDup (map el_name els) -> functional_names els.
Proof.
  induction els as [|l els IH]; intros ND l1 l2 H1 H2 E; [destruct H1|].
  cbn in ND. inversion ND as [|? ? NI ND']; subst.
  destruct H1 as [<-|H1], H2 as [<-|H2]; auto.
  - exfalso. apply NI. rewrite E. apply in_map. assumption.
  - exfalso. apply NI. rewrite <- E. apply in_map. assumption.
  - apply (IH ND' l1 l2); assumption.
Qed.

Lemma dec_true : forall {A} (d : forall a b : A, {a = b} + {a <> b}) a b, (if d a b then true else false) = true -> a = b.
Proof. intros A d a b H. destruct (d a b); [assumption | discriminate]. Qed.

Theorem wf_b_sound : forall all, wf_b all = true -> forall o, In o all -> obs_wf all o.
Proof.
  intros all W o Ho. unfold wf_b in W. rewrite forallb_forall in W. specialize (W o Ho).
  destruct o as [[[[[k nodes] edges] ext] ty] [[[nls els] nts] ts] c | [[[k rules] groups] start] [[[nls els] nts] ts] c]; cbn in *.
  - unfold wf_graph_obs in W. repeat (apply andb_true_iff in W; destruct W as [W ?]).
    repeat split.
    + apply (nodupb_true ident_eq_dec). assumption.
    + apply (nodupb_true ident_eq_dec). assumption.
    + intros e n He Hn. rewrite forallb_forall in H4. specialize (H4 e He). rewrite forallb_forall in H4.
      apply (inb_true node_eq_dec). apply H4. assumption.
    + intros n Hn. rewrite forallb_forall in H3. apply (inb_true node_eq_dec). apply H3. assumption.
    + apply NoDup_names_functional. apply (nodupb_true Nat.eq_dec). assumption.
    + intros e He. rewrite forallb_forall in H1. apply (inb_true elabel_eq_dec). apply H1. assumption.
    + intros e He. rewrite forallb_forall in H0. apply (dec_true lnat_eq_dec). apply H0. assumption.
    + apply (dec_true lnat_eq_dec). assumption.
  - repeat (apply andb_true_iff in W; destruct W as [W ?]).
    split; [apply NoDup_names_functional; apply (nodupb_true Nat.eq_dec); assumption|].
    split; [apply (inb_true elabel_eq_dec); assumption|].
    split; [apply (dec_true (list_eq_dec rule_eq_dec)); assumption|].
    intros r Hr. rewrite forallb_forall in H. specialize (H r Hr). unfold wf_rule_obs in H.
    apply andb_true_iff in H. destruct H as [H5 H6]. split; [apply (inb_true elabel_eq_dec); assumption|].
    destruct (nth_error all (r_rhs r)) as [[[[[[k' nodes'] edges'] ext'] ty'] b' c'|]|]; try discriminate.
    apply andb_true_iff in H6. destruct H6 as [H6 H7].
    exists k', nodes', edges', ext', ty', b', c'. split; [reflexivity|]. split; [apply (dec_true lnat_eq_dec); assumption|].
    intros e He. rewrite forallb_forall in H7. apply (inb_true elabel_eq_dec). apply H7. assumption.
Qed.

(** * the invariant implies the oracle *)
Lemma keyed_keys : forall {K V} (key : V -> K) (m : list (K * V)), keyed key m -> map fst m = map key (map snd m).
Proof.
  intros K V key m [_ H]. induction m as [|[k v] m IH]; cbn; [reflexivity|].
  f_equal; [apply H; left; reflexivity | apply IH; intros; apply H; right; assumption].
Qed.

Lemma dec_refl : forall {A} (d : forall a b : A, {a = b} + {a <> b}) a, (if d a a then true else false) = true.
Proof. intros. destruct (d a a); congruence. Qed.

Lemma In_snd : forall {K V} (m : list (K * V)) k v, In (k, v) m -> In v (map snd m).
Proof. intros. change v with (snd (k, v)). apply in_map. assumption. Qed.

Lemma graph_ok_obs : forall g, graph_ok g ->
    wf_graph_obs (map snd (g_nodes g)) (map snd (g_edges g)) (g_ext g) (g_type g) (map snd (t_el (g_tab g))) = true.
Proof.
  intros g [N E [_ T] A X R Ty]. unfold wf_graph_obs.
  repeat (apply andb_true_iff; split).
  - apply nodupb_true. rewrite <- (keyed_keys _ _ N). apply N.
  - apply nodupb_true. rewrite <- (keyed_keys _ _ E). apply E.
  - apply forallb_forall. intros e He. apply forallb_forall. intros n Hn. apply inb_true.
    apply in_map_iff in He. destruct He as [[k e'] [<- He]]. cbn in Hn.
    specialize (A _ _ _ He Hn). apply aget_In in A. eapply In_snd; eauto.
  - apply forallb_forall. intros n Hn. apply inb_true. specialize (X _ Hn). apply aget_In in X. eapply In_snd; eauto.
  - apply nodupb_true. rewrite <- (keyed_keys _ _ T). apply T.
  - apply forallb_forall. intros e He. apply inb_true.
    apply in_map_iff in He. destruct He as [[k e'] [<- He]]. cbn.
    specialize (R _ _ He). apply aget_In in R. eapply In_snd; eauto.
  - apply forallb_forall. intros e He.
    apply in_map_iff in He. destruct He as [[k e'] [<- He]]. cbn. rewrite (Ty _ _ He). apply dec_refl.
  - apply dec_refl.
Qed.

Lemma hrg_ok_obs : forall os x, hrg_ok os x -> wf_obs (map obs_obj os) (obs_obj (OH x)) = true.
Proof.
  intros os x [[_ T] K L S R]. cbn.
  repeat (apply andb_true_iff; split).
  - apply nodupb_true. rewrite <- (keyed_keys _ _ T). apply T.
  - apply inb_true. apply aget_In in S. eapply In_snd; eauto.
  - apply dec_refl.
  - apply nodupb_true. assumption.
  - apply forallb_forall. intros [k rs] Hg. apply forallb_forall. intros r Hr. cbn.
    unfold elabel_eqb. rewrite (L _ _ _ Hg Hr). apply dec_refl.
  - apply forallb_forall. intros r Hr. apply in_concat in Hr. destruct Hr as (rs & H1 & H2).
    apply in_map_iff in H1. destruct H1 as [[k rs0] [E H1]]. cbn in E. subst rs0.
    destruct (R _ _ _ H1 H2) as [RG (g & Hg & Ty & Ed)]. unfold wf_rule_obs.
    apply andb_true_iff. split; [apply inb_true; apply aget_In in RG; eapply In_snd; eauto|].
    rewrite nth_error_map. unfold get_graph in Hg. destruct (nth_error os (r_rhs r)) as [[g0|]|]; try discriminate.
    inversion Hg; subst g0. cbn. apply andb_true_iff. split; [rewrite Ty; apply dec_refl|].
    apply forallb_forall. intros e He. apply inb_true.
    apply in_map_iff in He. destruct He as [[k0 e'] [<- He]]. cbn.
    specialize (Ed _ _ He). apply aget_In in Ed. eapply In_snd; eauto.
Qed.

Theorem inv_wf_b : forall s, inv s -> wf_b (observe s) = true.
Proof.
  intros s I. unfold wf_b, observe. apply forallb_forall. intros o Ho.
  apply in_map_iff in Ho. destruct Ho as [o' [<- Ho]].
  apply In_nth_error in Ho. destruct Ho as [k Hk]. specialize (I _ _ Hk).
  destruct o' as [g|x]; [|apply hrg_ok_obs; assumption].
  cbn. apply graph_ok_obs. assumption.
Qed.

(** every state reached from the empty family by guarded calls is accepted by the oracle, and
    therefore has the properties listed in [obs_wf] *)
Theorem reachable_wf : forall ops, all_guarded init ops = true -> wf_b (observe (run init ops)) = true.
Proof. intros ops G. apply inv_wf_b. apply run_inv; [apply inv_init | assumption]. Qed.
