(** C03_nonrecursive_gradient: for a non-recursive grammar the code-shaped reverse accumulation
    [backward_nonrec] (one-step backward passes composed along the component order, as autograd
    does) returns, for every terminal weight entry and every cotangent, the cotangent-weighted
    sum of the dual-number derivatives of the start symbol's cells -- i.e. (by
    C03_tree_derivative) the sum over derivation trees and occurrences of the entry of the
    product of the remaining weights. *)
From Coq Require Import List Arith Bool PeanoNat Lia Permutation Ring Ring_theory.
Import ListNotations.
Require Import Fggs.Model.Semiring Fggs.Model.SCC Fggs.Model.SumProduct Fggs.Model.SumProductCheck Fggs.Model.Dual.
Require Import Fggs.Proofs.SCC_ntgraph Fggs.Proofs.BigSum Fggs.Proofs.SP_trees Fggs.Proofs.SP_nonrec
               Fggs.Proofs.SP_code Fggs.Proofs.SP_rename Fggs.Proofs.SP_spe Fggs.Proofs.SP_driver
               Fggs.Proofs.SP_main Fggs.Proofs.Dual_ring Fggs.Proofs.Dual_leibniz Fggs.Proofs.Dual_J
               Fggs.Proofs.Dual_vjp Fggs.Proofs.Dual_back.

Lemma dep_ordered_app G : forall l1 l2 done,
  dep_ordered G done (l1 ++ l2) -> dep_ordered G done l1 /\ dep_ordered G (done ++ l1) l2.
Proof.
  induction l1 as [|X l1 IH]; intros l2 done H; cbn [app dep_ordered] in *.
  - rewrite app_nil_r. tauto.
  - destruct H as (H1 & H2 & H3). destruct (IH _ _ H3) as [H4 H5].
    rewrite <- app_assoc in H5. cbn [app] in H5. tauto.
Qed.

Lemma dep_ordered_rdep G ord : dep_ordered G [] ord -> rdep G (rev ord).
Proof.
  induction ord as [|X ord IH] using rev_ind; intros H; [exact I|].
  rewrite rev_app_distr. cbn [rev app rdep]. apply dep_ordered_app in H. destruct H as [H1 H2].
  cbn [app dep_ordered] in H2. destruct H2 as (_ & H2 & _). split; [|now apply IH].
  intros r ed Hrin Hed Ht. apply in_rev. rewrite rev_involutive. now apply (H2 r ed).
Qed.

Lemma concat_singletons {A} (l : list A) : concat (map (fun x => [x]) l) = l.
Proof. induction l as [|x l IH]; [reflexivity|]. cbn [map concat app]. now rewrite IH. Qed.

Lemma nonterminal_lt G X : is_term G X = false -> X < length (g_labels G).
Proof.
  intros HX. destruct (Nat.lt_ge_cases X (length (g_labels G))) as [H|H]; trivial.
  unfold is_term in HX. rewrite nth_overflow in HX by exact H. discriminate.
Qed.

Section DualNonrec.
Context {R : Type} (o : sr_ops R).
Hypothesis Hr : sr_ring o.
Add Ring RingD9 : (sr_is_srt o Hr).
Local Notation D := (dual_ops o).
Variable G : grammar.
Hypothesis Hwf : wf_grammar G = true.
Local Notation L := (length (g_labels G)).

(** the driver leaves the terminals' weights alone *)
Lemma nonrec_terminal_values (ord : list nat) : forall (all : tmt (R:=R)) l xi,
  is_term G l = true -> (forall X, In X ord -> is_term G X = false) ->
  env_of o (fold_left (one_step_comp o G) (map (fun x => [x]) ord) all) l xi = env_of o all l xi.
Proof.
  induction ord as [|X ord IH]; intros all l xi Hl Hnt; [reflexivity|].
  cbn [map fold_left]. rewrite IH; trivial; [|intros Y HY; apply Hnt; now right].
  apply (one_step_other o). right. intros ->. rewrite (Hnt X) in Hl by now left. discriminate.
Qed.

(** a table built from two lists of equal length *)
Lemma sum_tab_get (cells : list (list nat)) (cot : list R) (f : list nat -> R) :
  NoDup cells -> length cot = length cells ->
  sumS o cells (fun yi => mul o (tab_get o (combine cells cot) yi) (f yi))
  = sumS o (combine cells cot) (fun p => mul o (snd p) (f (fst p))).
Proof.
  revert cot. induction cells as [|c cells IH]; intros [|q cot] Hnd Hl; try discriminate; [reflexivity|].
  inversion Hnd as [|? ? Hc Hnd']; subst. cbn [combine]. rewrite !sumS_cons. cbn [fst snd tab_get].
  rewrite (proj2 (nat_list_eqb_iff c c) eq_refl). f_equal.
  rewrite <- IH by (trivial; cbn in Hl; lia). apply sumS_ext. intros yi Hyi.
  destruct (nat_list_eqb c yi) eqn:E; [|reflexivity]. apply nat_list_eqb_iff in E. subst. contradiction.
Qed.

Lemma delta_env_sym l0 i0 l i : delta_env o l0 i0 l i = delta_env o l i l0 i0.
Proof.
  unfold delta_env. rewrite (Nat.eqb_sym l l0).
  destruct (Nat.eqb l0 l); cbn [andb]; trivial.
  destruct (nat_list_eqb i i0) eqn:E.
  - apply nat_list_eqb_iff in E. subst. now rewrite (proj2 (nat_list_eqb_iff i0 i0) eq_refl).
  - destruct (nat_list_eqb i0 i) eqn:E2; trivial. apply nat_list_eqb_iff in E2. subst.
    rewrite (proj2 (nat_list_eqb_iff i i) eq_refl) in E. discriminate.
Qed.

Lemma terminals_spec l : In l (terminals G) <-> l < L /\ is_term G l = true.
Proof. unfold terminals. rewrite filter_In, in_seq. cbn [Nat.add]. split; [intros [[_ ?] ?]|intros [? ?]]; repeat split; trivial; lia. Qed.
Lemma terminals_NoDup : NoDup (terminals G).
Proof. apply NoDup_filter, seq_NoDup. Qed.

Variable w : tmt (R:=R).
Hypothesis Hkeys : forall l, tget w l <> None -> is_term G l = true.
Variable ord : list nat.
Hypothesis Hdep : dep_ordered G [] ord.
Hypothesis Hnd : NoDup ord.
Hypothesis Hcov : forall X, is_term G X = false -> In X ord.

Let all := sum_products_nonrec o G w (map (fun x => [x]) ord).
Let K := length ord.
Let W := env_of o w.

Lemma ord_nonterminal X : In X ord -> is_term G X = false.
Proof. apply (dep_ordered_nonterminal G ord [] X Hdep). Qed.

(** the tangent of every label in the direction d of the terminal weights *)
Definition tangent (d : env (R:=R)) : env (R:=R) := env_k G d (eenv (Zk D G (denv W d) K)).

Lemma tangent_equation d X xi : is_term G X = false -> In xi (all_assts (lshape G X)) ->
  tangent d X xi = dstep o G (env_of o all) (tangent d) X xi.
Proof.
  intros HX Hxi. unfold tangent at 1. unfold env_k. rewrite HX. unfold eenv.
  pose proof (dep_ordered_ranked G ord Hdep Hcov) as Hrk.
  rewrite <- (Zk_stable D G (denv W d) _ Hrk K X xi HX) by (apply index_of_lt; now apply Hcov).
  rewrite (snd_Zk_S o Hr) by exact HX.
  apply (dstep_ext o G). intros r ed a Hrin Hed Ha. split; [|reflexivity].
  unfold env_k. destruct (is_term G (fst ed)) eqn:Ht.
  - unfold all, sum_products_nonrec. rewrite nonrec_terminal_values; trivial. apply ord_nonterminal.
  - unfold all. symmetry.
    rewrite (sum_products_nonrec_Zk o Hr G Hwf w ord Hkeys Hdep (fst ed) K); trivial.
    + now apply Hcov.
    + exact (edge_arg_in_range G r ed a (rules_of_wf G Hwf X r Hrin) Hed Ha).
Qed.

(** C03_nonrecursive_gradient *)
Theorem nonrecursive_gradient (cot : list R) l0 i0 :
  is_term G l0 = true -> l0 < L -> In i0 (all_assts (lshape G l0)) ->
  length cot = length (all_assts (lshape G (g_start G))) ->
  env_of o (backward_nonrec o G w (map (fun x => [x]) ord) cot) l0 i0
  = sumS o (combine (all_assts (lshape G (g_start G))) cot)
         (fun p => mul o (snd p) (grad_model o G W l0 i0 K (g_start G) (fst p))).
Proof.
  intros Hl0 Hl0L Hi0 Hcot.
  set (T := tangent (delta_env o l0 i0)).
  set (gbar0 := [(g_start G, combine (all_assts (lshape G (g_start G))) cot)] : tmt (R:=R)).
  assert (Hstart : is_term G (g_start G) = false).
  { unfold wf_grammar in Hwf. rewrite !andb_true_iff in Hwf. destruct Hwf as [_ H]. now apply negb_true_iff in H. }
  unfold backward_nonrec. rewrite concat_singletons. fold all gbar0.
  (* the pairing over the terminals picks the entry (l0, i0) *)
  assert (Hpick : forall g : env (R:=R), pairing o G g T (terminals G) = g l0 i0).
  { intros g. unfold pairing.
    rewrite (sumS_ext o (terminals G) _ (fun l => sumS o (all_assts (lshape G l)) (fun yi => mul o (g l yi) (delta_env o l yi l0 i0)))).
    - apply (recompose o Hr G (terminals G) g l0 i0 terminals_NoDup); trivial. now apply terminals_spec.
    - intros l Hl. apply terminals_spec in Hl. apply sumS_ext. intros yi _. f_equal.
      unfold T, tangent, env_k. rewrite (proj2 Hl). apply delta_env_sym. }
  rewrite <- (Hpick (env_of o (fold_left (back_step o G all) (rev ord) gbar0))).
  rewrite (back_fold o Hr G Hwf all T (tangent_equation (delta_env o l0 i0)) (terminals G) (rev ord) gbar0).
  - (* only the start symbol carries a cotangent initially *)
    rewrite pairing_app by exact Hr.
    assert (Hg0 : forall l yi, env_of o gbar0 l yi = if Nat.eqb (g_start G) l then tab_get o (combine (all_assts (lshape G (g_start G))) cot) yi else zero o).
    { intros l yi. unfold gbar0, env_of. destruct (Nat.eqb (g_start G) l); reflexivity. }
    assert (Hz : pairing o G (env_of o gbar0) T (terminals G) = zero o).
    { unfold pairing. apply (sumS_all_zero o Hr). intros l Hl. apply terminals_spec in Hl.
      apply (sumS_all_zero o Hr). intros yi _. rewrite Hg0.
      destruct (Nat.eqb (g_start G) l) eqn:E; [|ring]. apply Nat.eqb_eq in E. subst l. destruct Hl as [_ Hl]. congruence. }
    rewrite Hz. unfold pairing.
    rewrite (sumS_ext o (rev ord) _ (fun l => if Nat.eqb l (g_start G)
               then sumS o (all_assts (lshape G l)) (fun yi => mul o (tab_get o (combine (all_assts (lshape G (g_start G))) cot) yi) (T l yi))
               else zero o)).
    + rewrite (sumS_pick o Hr Nat.eqb (rev ord) (g_start G) _ Nat.eqb_eq).
      * rewrite sum_tab_get by (trivial; apply NoDup_all_assts).
        rewrite (r_add_0_l o Hr). apply sumS_ext. intros p _. f_equal.
        unfold T, tangent, env_k. rewrite Hstart. reflexivity.
      * now apply NoDup_rev.
      * apply in_rev. rewrite rev_involutive. now apply Hcov.
    + intros l _. rewrite (Nat.eqb_sym l). destruct (Nat.eqb (g_start G) l) eqn:E.
      * apply sumS_ext. intros yi _. now rewrite Hg0, E.
      * apply (sumS_all_zero o Hr). intros yi _. rewrite Hg0, E. ring.
  - apply NoDup_app_intro; [apply terminals_NoDup|now apply NoDup_rev|].
    intros l Hl Hl'. apply terminals_spec in Hl. apply in_rev in Hl'. apply ord_nonterminal in Hl'. destruct Hl. congruence.
  - intros l Hl. apply in_app_iff in Hl. destruct Hl as [Hl|Hl]; [now apply terminals_spec in Hl|].
    apply in_rev in Hl. apply nonterminal_lt. now apply ord_nonterminal.
  - intros l Hl. now apply terminals_spec in Hl.
  - intros X HX. apply in_rev in HX. now apply ord_nonterminal.
  - intros l Hl Ht. now apply terminals_spec.
  - now apply dep_ordered_rdep.
Qed.
End DualNonrec.
