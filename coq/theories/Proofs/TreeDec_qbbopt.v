(** quickbb is OPTIMAL for every simple undirected graph: the width it reports (and the width of
    tree_decomposition(method='quickbb')) is the treewidth.
    Safety of the three ingredients of the search:
    - eliminating a simplicial vertex v: deg v <= tw(g) (its closed neighbourhood is a clique,
      TreeDec_helly.v) and tw(g - v) <= tw(g) (delete v from every bag);
    - eliminating an almost simplicial vertex v of degree <= lb <= tw: eliminating v is the same
      as contracting the edge to its special neighbour, which does not increase the treewidth;
    - branching only over vertices outside the previous separator: the separator is a clique, and
      a clique can be eliminated last ([clique_last]);
    - pruning with max(g, minor_min_width) is sound because minor_min_width <= tw. *)
From Coq Require Import List Arith Bool PeanoNat Lia Permutation Setoid Morphisms.
Import ListNotations.
Require Import Fggs.Model.TreeDec Fggs.Proofs.TreeDec_graph Fggs.Proofs.TreeDec_tdok
               Fggs.Proofs.TreeDec_elim Fggs.Proofs.TreeDec_qbb Fggs.Proofs.TreeDec_tw
               Fggs.Proofs.TreeDec_complete Fggs.Proofs.TreeDec_lower Fggs.Proofs.TreeDec_minor
               Fggs.Proofs.TreeDec_qbbtotal Fggs.Proofs.TreeDec_helly.

(** * boolean tests *)
Lemma is_clique_spec g vs :
  is_clique g vs = true <-> (forall x y, In x vs -> In y vs -> x <> y -> In y (nbrs g x)).
Proof.
  unfold is_clique. rewrite forallb_forall. split.
  - intros H x y Hx Hy Hne. specialize (H x Hx). rewrite forallb_forall in H. specialize (H y Hy).
    apply orb_true_iff in H. destruct H as [H|H]; [apply Nat.eqb_eq in H; congruence|now apply mem_In].
  - intros H x Hx. apply forallb_forall. intros y Hy.
    destruct (Nat.eqb_spec x y) as [E|E]; [reflexivity|]. cbn [orb]. apply mem_In. auto.
Qed.

Definition nbrs_clique (g : graph) (v : nat) : Prop :=
  forall x y, In x (nbrs g v) -> In y (nbrs g v) -> x <> y -> In y (nbrs g x).
Lemma simplicial_spec g v : simplicial g v = true <-> nbrs_clique g v.
Proof. apply is_clique_spec. Qed.

Lemma almost_simplicial_spec g v : almost_simplicial g v = true ->
  exists u, In u (nbrs g v) /\
    forall x y, In x (nbrs g v) -> In y (nbrs g v) -> x <> u -> y <> u -> x <> y -> In y (nbrs g x).
Proof.
  unfold almost_simplicial. rewrite existsb_exists. intros [u [Hu H]]. exists u. split; auto.
  intros x y Hx Hy Hxu Hyu Hne. apply (proj1 (is_clique_spec g _) H); auto; apply set_remove_In; auto.
Qed.

Lemma max_len_map_le (f : bag -> bag) (bs : list bag) : (forall b, length (f b) <= length b) ->
  fold_right Nat.max 0 (map (@length nat) (map f bs)) <= fold_right Nat.max 0 (map (@length nat) bs).
Proof.
  intro H. induction bs as [|b bs IH]; cbn [map fold_right]; [lia|]. specialize (H b). lia.
Qed.

(** * simplicial vertices *)
Lemma remove_td g v t : wf_graph g -> nbrs_clique g v -> valid_td g t ->
  valid_td (eliminate_node g v) (map (set_remove v) (fst t), snd t) /\
  width (map (set_remove v) (fst t), snd t) <= width t.
Proof.
  intros W Hc V. destruct t as [bags es]. cbn [fst snd] in *.
  assert (Hh : forall x a, holds (map (set_remove v) bags, es) x a <-> x <> v /\ holds (bags, es) x a).
  { intros x a. unfold holds. cbn [fst]. rewrite nth_error_map. split.
    - intros [b' [H1 H2]]. revert H1.
      match goal with |- context [option_map _ ?t] => destruct t as [b|] eqn:E end;
        cbn [option_map]; intro H1; [|discriminate H1].
      injection H1 as <-. apply set_remove_In in H2. destruct H2 as [H2 H3]. split; [exact H3|].
      exists b. split; [exact E|exact H2].
    - intros [Hx [b [H1 H2]]]. exists (set_remove v b). split; [|apply set_remove_In; auto].
      change (option_map (set_remove v) (nth_error bags a) = Some (set_remove v b)).
      rewrite H1. reflexivity. }
  split.
  - constructor; cbn [fst snd].
    + rewrite map_length. exact (vt_tree g _ V).
    + intros b' Hb. apply in_map_iff in Hb. destruct Hb as [b [<- Hb]].
      apply set_remove_NoDup. exact (vt_nodup g _ V b Hb).
    + intros b' x Hb Hx. apply in_map_iff in Hb. destruct Hb as [b [<- Hb]].
      apply set_remove_In in Hx. destruct Hx as [Hx Hxv].
      rewrite gverts_eliminate, set_remove_In. split; auto. exact (vt_sub g _ V b x Hb Hx).
    + intros x Hx. rewrite gverts_eliminate in Hx. apply set_remove_In in Hx. destruct Hx as [Hx Hxv].
      destruct (vt_vertex g _ V x Hx) as [b [Hb Hxb]]. exists (set_remove v b).
      split; [now apply in_map|]. apply set_remove_In. auto.
    + intros x y Hxy. apply In_nbrs_eliminate in Hxy; auto. destruct Hxy as [Hxv [Hyv H]].
      assert (Hg : In y (nbrs g x)) by (destruct H as [H|[Hne [H1 H2]]]; [auto|apply Hc; auto]).
      destruct (vt_edge g _ V x y Hg) as [b [Hb [H1 H2]]]. exists (set_remove v b).
      split; [now apply in_map|]. split; apply set_remove_In; auto.
    + intros x a c Ha Hc0. apply Hh in Ha, Hc0. destruct Ha as [Hxv Ha]. destruct Hc0 as [_ Hc0].
      eapply walk_mono; [|exact (vt_run g _ V x a c Ha Hc0)].
      intros q r [H1 [H2 H3]]. split; auto. split; apply Hh; auto.
  - unfold width, max_bag. cbn [fst]. apply Nat.pred_le_mono. apply max_len_map_le.
    intro b. unfold set_remove. apply filter_len_le.
Qed.

Lemma tw_perm_simplicial g v : wf_graph g -> nbrs_clique g v ->
  tw_perm (eliminate_node g v) <= tw_perm g.
Proof.
  intros W Hc. destruct (tw_perm_decomposition g W) as [t [V Wd]].
  destruct (remove_td g v t W Hc V) as [V' Le].
  pose proof (td_width_lower_bound _ _ (wf_eliminate g v W) V'). lia.
Qed.

Lemma deg_simplicial g v : wf_graph g -> In v (gverts g) -> nbrs_clique g v -> deg g v <= tw_perm g.
Proof.
  intros W Hv Hc.
  assert (HK : clique_of g (v :: nbrs g v)).
  { split.
    - intros x [<-|Hx]; auto. eapply (wf_closed g W); eauto.
    - intros x y [<-|Hx] [<-|Hy] Hne; try congruence; auto.
      now apply (wf_sym g W). }
  assert (Nd : NoDup (v :: nbrs g v)) by (constructor; [apply (wf_irrefl g W)|apply W]).
  pose proof (clique_lower_bound g _ W HK Nd) as H. cbn in H. exact H.
Qed.

(** * almost simplicial vertices: elimination = contraction *)
Lemma geq_elim_contract g u v : wf_graph g -> In u (nbrs g v) ->
  (forall x y, In x (nbrs g v) -> In y (nbrs g v) -> x <> u -> y <> u -> x <> y -> In y (nbrs g x)) ->
  geq (eliminate_node g v) (contract_edge g u v).
Proof.
  intros W Hu Hc. split.
  - now rewrite gverts_eliminate, gverts_contract.
  - intros x y. rewrite In_nbrs_eliminate by auto. rewrite (In_nbrs_contract g u v x y W Hu). split.
    + intros [Hx [Hy [H|[Hne [H1 H2]]]]]; split; auto; split; auto.
      destruct (Nat.eq_dec x u) as [->|Hxu]; [right; split; auto|].
      destruct (Nat.eq_dec y u) as [->|Hyu]; [right; split; auto|].
      left. apply Hc; auto.
    + intros [Hx [Hy [H|[Hne [[-> H]|[-> H]]]]]]; split; auto; split; auto.
Qed.

Lemma tw_perm_geq g h : wf_graph g -> wf_graph h -> geq g h -> tw_perm g = tw_perm h.
Proof.
  intros Wg Wh E. unfold tw_perm. destruct E as [E1 E2]. rewrite E1.
  rewrite (map_ext (elim_width g) (elim_width h)); auto.
  intro o. apply geq_elim_width; auto. split; auto.
Qed.

Lemma tw_perm_almost g v : wf_graph g -> almost_simplicial g v = true ->
  tw_perm (eliminate_node g v) <= tw_perm g.
Proof.
  intros W H. destruct (almost_simplicial_spec g v H) as [u [Hu Hc]].
  rewrite (tw_perm_geq _ _ (wf_eliminate g v W) (wf_contract g u v W Hu) (geq_elim_contract g u v W Hu Hc)).
  now apply tw_perm_contract.
Qed.

(** * the candidate list *)
Definition reducible (g : graph) (lb v : nat) : bool :=
  simplicial g v || (almost_simplicial g v && (deg g v <=? lb)).

Lemma candidates_spec g lb sep : forall keys acc,
  (exists v, In v keys /\ reducible g lb v = true /\ candidates g lb sep keys acc = [v]) \/
  ((forall v, In v keys -> reducible g lb v = false) /\
   candidates g lb sep keys acc = acc ++ filter (fun v => negb (mem v sep)) keys).
Proof.
  induction keys as [|v ks IH]; intro acc; cbn [candidates filter].
  - right. split; [intros v []|now rewrite app_nil_r].
  - fold (reducible g lb v). destruct (reducible g lb v) eqn:R.
    + left. exists v. split; [cbn; auto|auto].
    + destruct (IH (if mem v sep then acc else acc ++ [v])) as [[w [Hw [Rw E]]]|[Hn E]].
      * left. exists w. split; [cbn; auto|auto].
      * right. split.
        -- intros w [<-|Hw]; auto.
        -- rewrite E. destruct (mem v sep); cbn [negb]; auto. now rewrite <- app_assoc.
Qed.

Lemma clique_nbrs_eliminate g v : wf_graph g -> clique_of (eliminate_node g v) (nbrs g v).
Proof.
  intro W. split.
  - intros x Hx. rewrite gverts_eliminate. apply set_remove_In. split.
    + eapply (wf_closed g W); eauto.
    + intro; subst. now apply (wf_irrefl g W v).
  - intros x y Hx Hy Hne. apply In_nbrs_eliminate; auto.
    split; [intro; subst; now apply (wf_irrefl g W v)|].
    split; [intro; subst; now apply (wf_irrefl g W v)|]. right. auto.
Qed.

(** * the branch and bound *)
Lemma bb_mono fuel : forall lb g order sep f gg best r,
  bb fuel lb g order sep f gg best = Some r -> fst r <= fst best.
Proof.
  induction fuel as [|fuel IH]; intros lb g order sep f gg best r H; [discriminate|].
  cbn [bb] in H. destruct (length g <? 2).
  - destruct (f <? fst best) eqn:C; [|inversion H; subst; lia].
    apply Nat.ltb_lt in C. destruct (f =? gg); [|discriminate]. inversion H; subst. cbn [fst]. lia.
  - revert best H. generalize (candidates g lb sep (gverts g) []). intro vs.
    induction vs as [|v vs IHvs]; intros best H; cbn [fold_left] in H.
    + inversion H; subst; lia.
    + cbv zeta in H. destruct (minor_min_width (eliminate_node g v)) as [l1|].
      2:{ rewrite fold_none in H; [discriminate|]. intros b; reflexivity. }
      destruct (Nat.max gg l1 <? fst best).
      * destruct (bb fuel lb (eliminate_node g v) (order ++ [v]) (nbrs g v) (Nat.max gg l1)
                     (Nat.max gg (deg g v)) best) as [b1|] eqn:B.
        2:{ rewrite fold_none in H; [discriminate|]. intros b; reflexivity. }
        apply IH in B. apply IHvs in H. lia.
      * now apply IHvs in H.
Qed.

Lemma bb_opt tau fuel : forall lb g order sep f gg best r,
  wf_graph g -> clique_of g sep -> lb <= tau -> f <= tau -> Nat.max gg (tw_perm g) <= tau ->
  bb fuel lb g order sep f gg best = Some r -> fst r <= tau.
Proof.
  induction fuel as [|fuel IH]; intros lb g order sep f gg best r W Hsep Hlb Hf Hmax H; [discriminate|].
  cbn [bb] in H. destruct (length g <? 2) eqn:L2.
  - destruct (f <? fst best) eqn:C.
    + destruct (f =? gg); [|discriminate]. inversion H; subst. cbn [fst]. exact Hf.
    + apply Nat.ltb_ge in C. inversion H; subst. lia.
  - apply Nat.ltb_ge in L2.
    (* what a good child gives *)
    assert (Child : forall v best0 l1, In v (gverts g) -> deg g v <= tau ->
              tw_perm (eliminate_node g v) <= tau ->
              minor_min_width (eliminate_node g v) = Some l1 ->
              Nat.max gg l1 <= tau /\
              forall b1, bb fuel lb (eliminate_node g v) (order ++ [v]) (nbrs g v) (Nat.max gg l1)
                            (Nat.max gg (deg g v)) best0 = Some b1 -> fst b1 <= tau).
    { intros v best0 l1 Hv Hd Ht Hl.
      pose proof (wf_eliminate g v W) as W1.
      destruct (minor_min_width_lower_bound _ W1) as [l [El Hl1]]. rewrite Hl in El. inversion El; subst l.
      split; [lia|]. intros b1 B.
      eapply (IH lb (eliminate_node g v)); [exact W1|apply clique_nbrs_eliminate; exact W|exact Hlb| | |exact B]; lia. }
    destruct (candidates_spec g lb sep (gverts g) []) as [[v [Hv [R E]]]|[Hn E]]; rewrite E in H.
    + (* a safe reduction *)
      assert (Hd : deg g v <= tau /\ tw_perm (eliminate_node g v) <= tau).
      { unfold reducible in R. apply orb_true_iff in R. destruct R as [R|R].
        - apply simplicial_spec in R. pose proof (deg_simplicial g v W Hv R).
          pose proof (tw_perm_simplicial g v W R). lia.
        - apply andb_true_iff in R. destruct R as [R1 R2]. apply Nat.leb_le in R2.
          pose proof (tw_perm_almost g v W R1). lia. }
      destruct Hd as [Hd Ht]. cbn [fold_left] in H. cbv zeta in H.
      destruct (minor_min_width (eliminate_node g v)) as [l1|] eqn:M; [|discriminate].
      destruct (Child v best l1 Hv Hd Ht M) as [Hf1 Hb].
      destruct (Nat.max gg l1 <? fst best) eqn:C.
      * now apply Hb.
      * apply Nat.ltb_ge in C. inversion H; subst. lia.
    + (* branching over the vertices outside the separator *)
      cbn [app] in H.
      assert (Hout : exists x, In x (gverts g) /\ ~ In x sep).
      { destruct (find (fun x => negb (mem x sep)) (gverts g)) as [x|] eqn:F.
        - apply find_some in F. destruct F as [F1 F2]. exists x. split; auto.
          now apply negb_true_iff, mem_nIn in F2.
        - exfalso. assert (Hall : forall x, In x (gverts g) -> In x sep).
          { intros x Hx. pose proof (find_none _ _ F x Hx) as Hx'. cbn in Hx'.
            apply negb_false_iff in Hx'. now apply mem_In. }
          destruct g as [|p g']; [cbn in L2; lia|].
          assert (Hp : In (fst p) (gverts (p :: g'))) by (cbn; auto).
          assert (R : reducible (p :: g') lb (fst p) = true).
          { unfold reducible. apply orb_true_iff. left. apply simplicial_spec.
            intros x y Hx Hy Hne. destruct Hsep as [_ S2]. apply S2; auto; apply Hall;
              eapply (wf_closed _ W); eauto. }
          rewrite (Hn _ Hp) in R. discriminate. }
      destruct (clique_last g sep W Hsep Hout) as [vs0 [Hv1 [Hv2 Hv3]]].
      assert (Hin : In vs0 (filter (fun v => negb (mem v sep)) (gverts g))).
      { apply filter_In. split; auto. now apply negb_true_iff, mem_nIn. }
      assert (Hd : deg g vs0 <= tau /\ tw_perm (eliminate_node g vs0) <= tau) by lia.
      destruct Hd as [Hd Ht].
      revert best H Hin. generalize (filter (fun v => negb (mem v sep)) (gverts g)). intro vs.
      assert (Gen : forall best, fold_left (fun (ob : option (nat * list nat)) v =>
                   match ob with
                   | None => None
                   | Some best =>
                     let g1 := eliminate_node g v in
                     let gg1 := Nat.max gg (deg g v) in
                     match minor_min_width g1 with
                     | None => None
                     | Some l1 =>
                       let f1 := Nat.max gg l1 in
                       if f1 <? fst best then bb fuel lb g1 (order ++ [v]) (nbrs g v) f1 gg1 best
                       else Some best
                     end
                   end) vs (Some best) = Some r -> In vs0 vs \/ fst best <= tau -> fst r <= tau).
      { induction vs as [|v vs IHvs]; intros best H Hor; cbn [fold_left] in H.
        - inversion H; subst. destruct Hor as [[]|Hor]; auto.
        - cbv zeta in H. destruct (minor_min_width (eliminate_node g v)) as [l1|] eqn:M.
          2:{ rewrite fold_none in H; [discriminate|]. intros b; reflexivity. }
          destruct (Nat.max gg l1 <? fst best) eqn:C.
          + destruct (bb fuel lb (eliminate_node g v) (order ++ [v]) (nbrs g v) (Nat.max gg l1)
                         (Nat.max gg (deg g v)) best) as [b1|] eqn:B.
            2:{ rewrite fold_none in H; [discriminate|]. intros b; reflexivity. }
            apply (IHvs b1 H). pose proof (bb_mono _ _ _ _ _ _ _ _ _ B) as Mo.
            destruct Hor as [[->|Hor]|Hor]; auto; [|right; lia].
            right. destruct (Child vs0 best l1 Hv1 Hd Ht M) as [_ Hb]. now apply Hb.
          + apply Nat.ltb_ge in C. apply (IHvs best H).
            destruct Hor as [[->|Hor]|Hor]; auto.
            right. destruct (Child vs0 best l1 Hv1 Hd Ht M) as [Hf1 _]. lia. }
      intros best H Hin. apply (Gen best H). auto.
Qed.

(** * quickbb *)
Theorem quickbb_optimal g w order : wf_graph g -> quickbb g = Some (w, order) -> w = tw_perm g.
Proof.
  intros W H. pose proof (quickbb_upper_bound g w order W H) as Hge.
  apply Nat.le_antisymm; [|exact Hge].
  unfold quickbb in H.
  pose proof (wf_normalize g W) as Wn. set (gn := normalize g) in *.
  assert (E : geq gn g).
  { split; [apply gverts_normalize|]. intros x y. now apply In_nbrs_normalize. }
  rewrite <- (tw_perm_geq gn g Wn W E).
  destruct (min_fill_upper_bound gn Wn) as [d [o [Em Hd]]]. rewrite Em in H.
  destruct (minor_min_width_lower_bound gn Wn) as [lb [Hlb Hl]]. rewrite Hlb in H. cbn [fst] in H.
  destruct (lb <? d) eqn:C.
  - change w with (fst (w, order)).
    eapply (bb_opt (tw_perm gn)); [exact Wn| |exact Hl|exact Hl| |exact H].
    + split; [intros x []|intros x y []].
    + lia.
  - apply Nat.ltb_ge in C. inversion H; subst. lia.
Qed.

(** quickbb, every graph: returns, optimal, and its tree decomposition is valid of width = treewidth *)
Theorem quickbb_correct g : wf_graph g ->
  exists w order t, quickbb g = Some (w, order) /\ Permutation order (gverts g) /\
                    w = elim_width g order /\ w = tw_perm g /\
                    tree_decomposition 1 g = Some t /\ valid_td g t /\ width t = tw_perm g.
Proof.
  intro W. destruct (quickbb_valid g W) as [w [o [t [H [P [D [T [V [Wd _]]]]]]]]].
  pose proof (quickbb_optimal g w o W H) as E.
  exists w, o, t. repeat (split; auto). congruence.
Qed.
