(** Partial correctness of the model of [quickbb] for ALL graphs: whenever it returns
    (no assertion failure, fuel not exhausted -- both proved to be the case for every graph
    on <= 5 vertices in TreeDec_bounded.v), the order is a permutation of the vertices, the
    reported number is its elimination width, and hence [tree_decomposition(method='quickbb')]
    is a valid tree decomposition of that width.  (Optimality for all graphs is open.) *)
From Coq Require Import List Arith Bool PeanoNat Lia Permutation Setoid Morphisms.
Import ListNotations.
Require Import Fggs.Model.TreeDec Fggs.Proofs.TreeDec_graph Fggs.Proofs.TreeDec_tdok Fggs.Proofs.TreeDec_elim.

(** * eliminating a sequence of vertices *)
Fixpoint elim_seq (g : graph) (order : list nat) : graph :=
  match order with [] => g | v :: r => elim_seq (eliminate_node g v) r end.
Fixpoint prefix_ok (g : graph) (order : list nat) : Prop :=
  match order with [] => True | v :: r => In v (gverts g) /\ prefix_ok (eliminate_node g v) r end.

Lemma elim_seq_app g a b : elim_seq g (a ++ b) = elim_seq (elim_seq g a) b.
Proof. revert g. induction a as [|v a IH]; intro g; cbn; auto. Qed.
Lemma elim_width_app g a b :
  elim_width g (a ++ b) = Nat.max (elim_width g a) (elim_width (elim_seq g a) b).
Proof. revert g. induction a as [|v a IH]; intro g; cbn; auto. rewrite IH. lia. Qed.
Lemma prefix_ok_app g a v : prefix_ok g a -> In v (gverts (elim_seq g a)) -> prefix_ok g (a ++ [v]).
Proof. revert g. induction a as [|x a IH]; intro g; cbn; intuition. Qed.
Lemma wf_elim_seq g a : wf_graph g -> wf_graph (elim_seq g a).
Proof. revert g. induction a as [|x a IH]; intros g W; cbn; auto. apply IH, wf_eliminate, W. Qed.
Lemma perm_prefix a : forall g, NoDup (gverts g) -> prefix_ok g a ->
  Permutation (a ++ gverts (elim_seq g a)) (gverts g).
Proof.
  induction a as [|v a IH]; intros g Hk P; cbn; auto.
  destruct P as [Hv P].
  assert (Hk' : NoDup (gverts (eliminate_node g v))) by (rewrite gverts_eliminate; now apply set_remove_NoDup).
  specialize (IH _ Hk' P). rewrite gverts_eliminate in IH.
  eapply perm_trans; [apply perm_skip, IH|]. apply Permutation_sym. now apply NoDup_perm_remove.
Qed.

(** * bb *)
Definition good (g0 : graph) (r : nat * list nat) : Prop :=
  Permutation (snd r) (gverts g0) /\ fst r = elim_width g0 (snd r).

Lemma candidates_incl g lb sep K : forall keys acc,
  incl acc K -> incl keys K -> incl (candidates g lb sep keys acc) K.
Proof.
  induction keys as [|v ks IH]; intros acc Ha Hk; cbn; auto.
  destruct (simplicial g v || almost_simplicial g v && (deg g v <=? lb)).
  - intros x [<-|[]]. apply Hk. cbn; auto.
  - apply IH.
    + destruct (mem v sep); auto. apply incl_app; auto. intros x [<-|[]]. apply Hk. cbn; auto.
    + intros x Hx. apply Hk. cbn; auto.
Qed.

Lemma fold_none {A B} (f : option A -> B -> option A) (l : list B) :
  (forall b, f None b = None) -> fold_left f l None = None.
Proof. intro H. induction l as [|b l IH]; cbn; auto. rewrite H. exact IH. Qed.

Lemma bb_sound g0 : wf_graph g0 -> forall fuel lb g order sep f gg best r,
  prefix_ok g0 order -> g = elim_seq g0 order -> gg = elim_width g0 order -> good g0 best ->
  bb fuel lb g order sep f gg best = Some r -> good g0 r.
Proof.
  intro W0. induction fuel as [|fuel IH]; intros lb g order sep f gg best r P Eg Egg Gb H; [discriminate|].
  cbn [bb] in H.
  assert (W : wf_graph g) by (subst g; now apply wf_elim_seq).
  destruct (length g <? 2) eqn:L2.
  - apply Nat.ltb_lt in L2.
    destruct (f <? fst best); [|inversion H; subst; auto].
    destruct (Nat.eqb_spec f gg) as [Ef|Ef]; [|discriminate]. inversion H; subst r. clear H.
    split; cbn [fst snd].
    + subst g. apply perm_prefix; auto. apply W0.
    + rewrite elim_width_app. rewrite <- Eg, <- Egg.
      pose proof (elim_width_bound (gverts g) g W (Permutation_refl _)) as B. lia.
  - remember (candidates g lb sep (gverts g) []) as vs eqn:Evs.
    assert (Hvs : incl vs (gverts g)).
    { subst vs. apply candidates_incl; [intros x []|apply incl_refl]. }
    clear Evs L2. revert best Gb H. induction vs as [|v vs IHvs]; intros best Gb H; cbn [fold_left] in H.
    + inversion H; subst; auto.
    + assert (Hv : In v (gverts g)) by (apply Hvs; cbn; auto).
      assert (Hvs' : incl vs (gverts g)) by (intros x Hx; apply Hvs; cbn; auto).
      destruct (minor_min_width (eliminate_node g v)) as [l1|] eqn:M.
      2:{ rewrite fold_none in H; [discriminate|]. intros b; reflexivity. }
      destruct (Nat.max gg l1 <? fst best) eqn:C.
      * destruct (bb fuel lb (eliminate_node g v) (order ++ [v]) (nbrs g v) (Nat.max gg l1)
                     (Nat.max gg (deg g v)) best) as [b1|] eqn:B.
        2:{ rewrite fold_none in H; [discriminate|]. intros b; reflexivity. }
        apply (IHvs Hvs' b1); auto.
        eapply IH; [| | | exact Gb | exact B].
        -- apply prefix_ok_app; auto. now rewrite <- Eg.
        -- rewrite elim_seq_app, <- Eg. reflexivity.
        -- rewrite elim_width_app, <- Eg, <- Egg. cbn [elim_width]. lia.
      * apply (IHvs Hvs' best); auto.
Qed.

(** * normalize *)

Definition norm_fold (ps : list (nat * list nat)) (g1 : graph) : graph :=
  fold_left (fun g1 p => mc_inner (fst p) (snd p) g1) ps g1.
Lemma normalize_eq g : normalize g = norm_fold g (map (fun p => (fst p, @nil nat)) g).
Proof. reflexivity. Qed.

Lemma gverts_norm_fold ps g1 : gverts (norm_fold ps g1) = gverts g1.
Proof.
  unfold norm_fold. revert g1. induction ps as [|p ps IH]; intro g1; cbn; auto.
  rewrite IH. apply gverts_mc_inner.
Qed.
Lemma NoDup_nbrs_norm_fold ps g1 x : NoDup (nbrs g1 x) -> NoDup (nbrs (norm_fold ps g1) x).
Proof.
  unfold norm_fold. revert g1. induction ps as [|p ps IH]; intros g1 H; cbn; auto.
  apply IH. now apply NoDup_nbrs_mc_inner.
Qed.
Lemma In_nbrs_norm_fold ps g1 x y :
  In y (nbrs (norm_fold ps g1) x) <->
  In y (nbrs g1 x) \/ (In x (gverts g1) /\ x <> y /\
     exists p, In p ps /\ ((x = fst p /\ In y (snd p)) \/ (y = fst p /\ In x (snd p)))).
Proof.
  unfold norm_fold. revert g1. induction ps as [|p ps IH]; intro g1; cbn [fold_left].
  - split; auto. intros [H|[_ [_ [p [[] _]]]]]. auto.
  - rewrite IH, gverts_mc_inner, In_nbrs_mc_inner. split.
    + intros [[H|[H1 [H2 H3]]]|[H1 [H2 [q [Hq H3]]]]]; auto.
      * right. split; auto. split; auto. exists p. split; [cbn; auto|]. tauto.
      * right. split; auto. split; auto. exists q. split; [cbn; auto|auto].
    + intros [H|[H1 [H2 [q [[<-|Hq] H3]]]]].
      * left. left. exact H.
      * left. right. tauto.
      * right. split; [exact H1|]. split; [exact H2|]. exists q. split; [exact Hq|exact H3].
Qed.

Lemma nbrs_empty_adj (g : graph) x : nbrs (map (fun p => (fst p, @nil nat)) g) x = [].
Proof. induction g as [|p g IH]; cbn; auto. destruct (fst p =? x); auto. Qed.

Lemma gverts_normalize g : gverts (normalize g) = gverts g.
Proof.
  rewrite normalize_eq, gverts_norm_fold. unfold gverts. rewrite map_map. reflexivity.
Qed.
Lemma In_nbrs_normalize g x y : wf_graph g -> (In y (nbrs (normalize g) x) <-> In y (nbrs g x)).
Proof.
  intro W. rewrite normalize_eq, In_nbrs_norm_fold, nbrs_empty_adj.
  assert (Ek : gverts (map (fun p => (fst p, @nil nat)) g) = gverts g).
  { unfold gverts. rewrite map_map. reflexivity. }
  rewrite Ek. split.
  - intros [[]|[Hx [Hne [p [Hp [[E H]|[E H]]]]]]].
    + subst x. rewrite (nbrs_In_entry g p (wf_keys g W) Hp). exact H.
    + subst y. apply (wf_sym g W). rewrite (nbrs_In_entry g p (wf_keys g W) Hp). exact H.
  - intro H. right. pose proof (nbrs_In_key g x y H) as Hx. split; auto. split.
    + intro E. subst. now apply (wf_irrefl g W y).
    + destruct (nbrs_entry g x Hx) as [p [Hp [Hf Hs]]]. exists p. split; auto. left.
      split; auto. now rewrite Hs.
Qed.
Lemma wf_normalize g : wf_graph g -> wf_graph (normalize g).
Proof.
  intro W. constructor.
  - rewrite gverts_normalize. apply W.
  - intro x. rewrite normalize_eq. apply NoDup_nbrs_norm_fold. rewrite nbrs_empty_adj. constructor.
  - intros x H. apply (proj1 (In_nbrs_normalize g x x W)) in H. now apply (wf_irrefl g W x).
  - intros x y H. apply (proj1 (In_nbrs_normalize g x y W)) in H. rewrite gverts_normalize.
    eapply (wf_closed g W); eauto.
  - intros x y H. apply (proj1 (In_nbrs_normalize g x y W)) in H.
    apply (proj2 (In_nbrs_normalize g y x W)). now apply (wf_sym g W).
Qed.

(** * graphs with the same vertices (in the same order) and the same neighbour sets *)
Definition geq (g h : graph) : Prop :=
  gverts g = gverts h /\ forall x y, In y (nbrs g x) <-> In y (nbrs h x).

Lemma geq_deg g h x : wf_graph g -> wf_graph h -> geq g h -> deg g x = deg h x.
Proof.
  intros Wg Wh [_ E]. unfold deg. apply Nat.le_antisymm; apply NoDup_incl_length.
  - apply Wg. - intros y Hy. now apply E.
  - apply Wh. - intros y Hy. now apply E.
Qed.
Lemma geq_eliminate g h v : wf_graph g -> wf_graph h -> geq g h ->
  geq (eliminate_node g v) (eliminate_node h v).
Proof.
  intros Wg Wh [E1 E2]. split.
  - rewrite !gverts_eliminate. now rewrite E1.
  - intros x y. rewrite !In_nbrs_eliminate by auto. rewrite !E2. tauto.
Qed.
Lemma geq_elim_width order : forall g h, wf_graph g -> wf_graph h -> geq g h ->
  elim_width g order = elim_width h order.
Proof.
  induction order as [|v r IH]; intros g h Wg Wh E; cbn; auto.
  rewrite (geq_deg g h v Wg Wh E).
  rewrite (IH _ _ (wf_eliminate g v Wg) (wf_eliminate h v Wh) (geq_eliminate g h v Wg Wh E)). reflexivity.
Qed.

(** * quickbb *)
Theorem quickbb_sound g w order : wf_graph g -> quickbb g = Some (w, order) ->
  Permutation order (gverts g) /\ w = elim_width g order.
Proof.
  intros W H. unfold quickbb in H.
  pose proof (wf_normalize g W) as Wn.
  assert (E : geq (normalize g) g).
  { split; [apply gverts_normalize|]. intros x y. now apply In_nbrs_normalize. }
  assert (G : good (normalize g) (w, order)).
  { destruct (min_fill_reports_width (normalize g) (wf_keys _ Wn)) as [d [o [Em [P D]]]].
    rewrite Em in H. destruct (minor_min_width (normalize g)) as [lb|]; [|discriminate].
    assert (Gb : good (normalize g) (d, o)) by (split; auto).
    destruct (lb <? fst (d, o)).
    - eapply (bb_sound (normalize g) Wn) with (order := []); [exact I|reflexivity|reflexivity|exact Gb|exact H].
    - inversion H; subst. exact Gb. }
  destruct G as [P D]. cbn [fst snd] in P, D. rewrite gverts_normalize in P. split; auto.
  rewrite D. now apply geq_elim_width.
Qed.

(** full statement (open): [forall g, wf_graph g -> exists w order t, quickbb g = Some (w, order) /\ ... /\ w = tw_perm g];
    proved here: validity whenever the model returns *)
Theorem quickbb_valid_partial g w order : wf_graph g -> quickbb g = Some (w, order) ->
  Permutation order (gverts g) /\ w = elim_width g order /\
  exists t, tree_decomposition 1 g = Some t /\ valid_td g t /\ width t = w.
Proof.
  intros W H. destruct (quickbb_sound g w order W H) as [P D]. split; auto. split; auto.
  destruct (elimination_td_valid g order W P) as [t [T [V Wd]]].
  exists t. cbn [tree_decomposition]. rewrite H. split; auto. split; auto. congruence.
Qed.

Example quickbb_valid_example :
  let g := [(0,[1;3]);(1,[0;2]);(2,[1;3]);(3,[0;2])] in
  wf_graphb g = true /\ quickbb g = Some (2, [0;1;2;3]).
Proof. vm_compute. auto. Qed.
