(** [where], the theorem: see Proofs/PTensor_where.v for the statement of what is covered. *)
From Coq Require Import List Arith Lia PeanoNat Bool PArith.
Import ListNotations.
Require Import Fggs.Model.Axis Fggs.Model.AxisCheck Fggs.Model.PTensor Fggs.Model.PTensorOps Fggs.Model.PTensorCheck Fggs.Model.PTEqual.
Require Import Fggs.Proofs.Axis_sem Fggs.Proofs.Axis_unify Fggs.Proofs.Axis_antiunify Fggs.Proofs.Axis_antiunify_inv.
Require Import Fggs.Proofs.Axis_complete_gen Fggs.Proofs.Axis_typed Fggs.Proofs.Axis_total.
Require Import Fggs.Proofs.Axis_fuel Fggs.Proofs.Axis_mgu Fggs.Proofs.Axis_rank Fggs.Proofs.Axis_stride_typed Fggs.Proofs.Axis_stride_total.
Require Import Fggs.Proofs.PTensor_sem Fggs.Proofs.PTensor_dense Fggs.Proofs.Axis_repr Fggs.Proofs.PTensor_gen Fggs.Proofs.PTensor_binary Fggs.Proofs.PTensor_bcast.
Require Import Fggs.Proofs.PTEqual_count Fggs.Proofs.PTEqual_sem Fggs.Proofs.PTEqual_typed Fggs.Proofs.PTEqual_typed_main Fggs.Proofs.PTEqual_freshen.
Require Import Fggs.Proofs.PTensor_struct Fggs.Proofs.PTensor_d2d Fggs.Proofs.Axis_views Fggs.Proofs.PTensor_project Fggs.Proofs.PTensor_where Fggs.Proofs.PTensor_where_stage.
Local Open Scope nat_scope.

Lemma same_keys_spec (a b : list pn) : same_keys a b = true ->
  (forall k, In k (map fst a) -> In k (map fst b)) /\ (forall k, In k (map fst b) -> In k (map fst a)).
Proof.
  unfold same_keys. intros H. apply andb_true_iff in H. destruct H as [H1 H2]. rewrite forallb_forall in H1, H2.
  split; intros k Hk; apply in_map_iff in Hk; destruct Hk as ([k' n] & <- & Hk); apply pmem_In; [exact (H1 _ Hk)|exact (H2 _ Hk)].
Qed.

Lemma Forall2_combine_In {A B K W} (R : A -> B -> Prop) (f : B -> K) (g : A -> W) l1 l2 x :
  Forall2 R l1 l2 -> In x l1 -> exists y, In y l2 /\ R x y /\ In (f y, g x) (combine (map f l2) (map g l1)).
Proof.
  induction 1 as [|a b l1 l2 Hab _ IH]; intros H; [contradiction|]. destruct H as [<-|H].
  - exists b. split; [left; reflexivity|]. split; [exact Hab|left; reflexivity].
  - destruct (IH H) as (y & Hy & Rxy & Hin). exists y. split; [right; exact Hy|]. split; [exact Rxy|right; exact Hin].
Qed.

Lemma combine_In_Forall2 {A B K W} (R : A -> B -> Prop) (f : B -> K) (g : A -> W) l1 l2 j v :
  Forall2 R l1 l2 -> In (j, v) (combine (map f l2) (map g l1)) -> exists x y, In x l1 /\ R x y /\ j = f y /\ v = g x.
Proof.
  induction 1 as [|a b l1 l2 Hab _ IH]; intros H; [contradiction|]. destruct H as [H|H].
  - inversion H; subst. exists a, b. split; [left; reflexivity|]. auto.
  - destruct (IH H) as (x & y & Hx & Rxy & E1 & E2). exists x, y. split; [right; exact Hx|]. auto.
Qed.

Lemma combine_fst {A B} (l1 : list A) : forall (l2 : list B), length l1 = length l2 -> map fst (combine l1 l2) = l1.
Proof. induction l1 as [|x l1 IH]; intros [|y l2] L; try discriminate; [reflexivity|]. simpl. f_equal. apply IH. simpl in L. lia. Qed.

Section WhereCore.
Variable V : Type.
Variable truth : V -> bool.
Variables t c u : ptensor V.
Variable cd : bool.
Hypothesis Hcd : cd = truth (default c).
Hypothesis Wt : wf V t.
Hypothesis Wc : wf V c.
Hypothesis Wu : wf V u.
Variable G : ctx.
Variable nx : positive.
Variable pss : list (list ity).
Hypothesis CG : ctx_good G.
Hypothesis CB : ctx_below G nx.
Hypothesis Tt : tys G (vaxes t) pss.
Hypothesis Tc : tys G (vaxes c) pss.
Hypothesis Tu : tys G (vaxes u) pss.
Hypothesis Gp : Forall gprimes pss.
Hypothesis Dj : forall k, In k (map fst (paxes c)) -> ~ In k (map fst (paxes t)).

Let cnd := fun v : V => xorb (truth v) cd.

Lemma cnd_default : cnd (default c) = false.
Proof. unfold cnd. rewrite Hcd. apply xorb_nilpotent. Qed.

Lemma tys_numel G0 es qss : tys G0 es qss -> map numel es = map tsizes qss.
Proof. induction 1 as [|e es ps qss He _ IH]; [reflexivity|]. simpl. rewrite (ty_numel _ _ _ He), IH. reflexivity. Qed.

(** the result tensor, once the final buffer is known on the backed cells *)
Lemma where_final B fuel lggs ast (ud2 : nat -> V) :
  vars_below V B c -> vars_below V B u ->
  antiunify_list fuel (vaxes c) (vaxes u) (astate0 B) = Ok (lggs, ast) ->
  (forall g, Forall (inrange g) lggs ->
     ud2 (flat_offset (map snd (gs_of (as_list ast))) (pcoords (gs_of (as_list ast)) g)) =
     if cnd (denote V c (evals g lggs)) then denote V t (evals g lggs) else denote V u (evals g lggs)) ->
  let r := mkPT (fun g => ud2 (flat_offset (map snd (gs_of (as_list ast))) g)) (gs_of (as_list ast)) lggs (default u) in
  wf V r /\ shape V r = shape V c /\ default r = default u /\
  forall idx, length idx = length (vaxes c) ->
    denote V r idx = if cnd (denote V c idx) then denote V t idx else denote V u idx.
Proof.
  intros Bc Bu AL Hud r. set (L := as_list ast) in *.
  assert (Nsz : map numel (vaxes c) = map numel (vaxes u)) by (rewrite (tys_numel _ _ _ Tc), (tys_numel _ _ _ Tu); reflexivity).
  destruct (where_gen V c u B Bc Bu Nsz fuel lggs ast AL) as [G1 G2]. fold L in G1, G2.
  assert (WR : wf V r) by (apply (gen_wf V part1 B L lggs (vaxes c) G1)).
  assert (Lg : length lggs = length (vaxes c)) by exact (g_len _ _ _ _ _ G1).
  assert (Lcu : length (vaxes c) = length (vaxes u)) by (apply (f_equal (@length nat)) in Nsz; rewrite !map_length in Nsz; exact Nsz).
  split; [exact WR|]. split.
  { unfold shape. cbn [vaxes r].
    destruct (antiunify_list_sound _ (vaxes c) (vaxes u) (astate0 B) lggs ast (Forall_nil _) AL) as (_ & Nn & _).
    rewrite <- Lcu, firstn_all in Nn. exact Nn. }
  split; [reflexivity|]. intros idx Li.
  assert (LR : length idx = length (vaxes r)) by (cbn [vaxes r]; rewrite Lg; exact Li).
  destruct (denote_cases V r idx (wf_covers V r WR) LR) as [(g & Rg & Eg & D)|[N D]].
  - rewrite D. unfold pget. cbn [physical paxes r vaxes] in *. rewrite (Hud g Rg), Eg. reflexivity.
  - rewrite D. cbn [default r].
    assert (Dc : denote V c idx = default c).
    { destruct (denote_cases V c idx (wf_covers V c Wc) Li) as [(rho & Rr & Er & _)|[_ Dc]]; [|exact Dc].
      exfalso. destruct (core_complete part1 B L lggs (vaxes c) G1 rho Rr) as (g & Rg & Eg).
      apply (N g Rg). cbn [vaxes r]. rewrite Eg. exact Er. }
    assert (Du : denote V u idx = default u).
    { destruct (denote_cases V u idx (wf_covers V u Wu) (eq_trans Li Lcu)) as [(rho & Rr & Er & _)|[_ Du]]; [|exact Du].
      exfalso. destruct (core_complete part2 B L lggs (vaxes u) G2 rho Rr) as (g & Rg & Eg).
      apply (N g Rg). cbn [vaxes r]. rewrite Eg. exact Er. }
    rewrite Dc, cnd_default, Du. reflexivity.
Qed.

(** if the unifier left the physical axes of [c] free and distinct ([full]), every physical index of
    [c] extends to an environment satisfying the bindings *)
Lemma full_models G' sigma looks (rho_c : env) :
  ctx_good G' -> wts G' sigma ->
  (forall k n, In (k, n) (paxes c) -> n = tsizes (G' k) /\ G' k <> []) ->
  mapM (fun kn : pn => lookup (S (length sigma)) sigma (Phys (fst kn) (snd kn))) (paxes c) = Ok looks ->
  forallb is_phys looks = true -> length (dedup [] (flat_map fvn looks)) = length (paxes c) ->
  (forall k n, In (k, n) (paxes c) -> rho_c k < n) ->
  exists rho, models rho sigma /\ fits G' rho /\ forall k, In k (map fst (paxes c)) -> rho k = rho_c k.
Proof.
  intros CG' W Sz Hl Hp Hd Rc.
  apply mapM_Forall2 in Hl.
  set (keyof := fun e : axis => match e with Phys j _ => j | _ => 1%positive end).
  set (R := fun (kn : pn) (e : axis) => is_phys e = true /\ assoc (keyof e) sigma = None /\ G' (keyof e) = G' (fst kn) /\
                        forall rho, models rho sigma -> rho (keyof e) = rho (fst kn)).
  assert (F : Forall2 R (paxes c) looks).
  { rewrite forallb_forall in Hp.
    assert (Gen : forall ps ls, Forall2 (fun (x : pn) y => lookup (S (length sigma)) sigma (Phys (fst x) (snd x)) = Ok y) ps ls ->
              (forall x, In x ps -> In x (paxes c)) -> (forall e, In e ls -> is_phys e = true) -> Forall2 R ps ls).
    { induction 1 as [|[k n] e ps ls Le _ IH]; intros Hin Hph; constructor.
      - cbn [fst snd] in Le. pose proof (Hph e (or_introl eq_refl)) as Pe. destruct e as [j m| |]; try discriminate.
        destruct (Sz k n (Hin _ (or_introl eq_refl))) as [En Gk].
        assert (Tk : ty G' (Phys k n) (G' k)) by (constructor; assumption).
        destruct (lookup_typed G' sigma _ _ W Tk) as (e' & Le' & Te & Ue). unfold lookup_fuel in Le'. rewrite Le in Le'. inversion Le'; subst e'.
        unfold R, keyof. cbn [fst]. split; [reflexivity|]. split; [exact (Ue j m eq_refl)|]. split; [apply ty_phys_inv in Te; symmetry; tauto|].
        intros rho M. exact (lookup_sem rho sigma M _ _ _ Le).
      - apply IH; [intros x Hx; apply Hin; right; exact Hx|intros x Hx; apply Hph; right; exact Hx]. }
    apply (Gen _ _ Hl); [auto|exact Hp]. }
  assert (Lk : map fst (flat_map fvn looks) = map keyof looks).
  { clear - Hp. rewrite forallb_forall in Hp. induction looks as [|e l IH]; [reflexivity|]. simpl.
    pose proof (Hp e (or_introl eq_refl)) as Pe. destruct e; try discriminate. simpl. f_equal. apply IH. intros x Hx. apply Hp. right. exact Hx. }
  assert (Len : length looks = length (paxes c)) by (symmetry; exact (Forall2_len _ _ _ Hl)).
  assert (ND : NoDup (map keyof looks)).
  { rewrite <- Lk. apply (dedup_full_nodup _ []). rewrite Hd. rewrite <- Len.
    apply (f_equal (@length positive)) in Lk. rewrite !map_length in Lk. symmetry. exact Lk. }
  set (al := combine (map keyof looks) (map (fun kn : pn => rho_c (fst kn)) (paxes c))).
  assert (Kal : map fst al = map keyof looks) by (unfold al; apply combine_fst; rewrite !map_length; exact Len).
  destruct (model_exists G' sigma (env_of al) W) as (rho & M & U).
  exists rho. split; [exact M|]. split.
  - apply (model_fits G' sigma rho W M). intros k A Gk. rewrite (U k A). unfold env_of. destruct (assoc k al) as [v|] eqn:Ak.
    + apply assoc_In in Ak. destruct (combine_In_Forall2 R keyof (fun kn : pn => rho_c (fst kn)) _ _ k v F Ak) as ([k0 n0] & e & Hk0 & (_ & _ & Gj & _) & -> & ->).
      cbn [fst] in *. rewrite Gj. rewrite <- (proj1 (Sz k0 n0 Hk0)). exact (Rc k0 n0 Hk0).
    + pose proof (gprimes_pos _ (CG' k)). lia.
  - intros k Hk. apply in_map_iff in Hk. destruct Hk as ([k0 n0] & <- & Hk0). cbn [fst].
    destruct (Forall2_combine_In R keyof (fun kn : pn => rho_c (fst kn)) _ _ (k0, n0) F Hk0) as (e & He & (_ & Aj & _ & Hj) & Hin).
    cbn [fst] in *. rewrite <- (Hj rho M), (U _ Aj). unfold env_of. fold al in Hin.
    rewrite (assoc_In_nodup (keyof e) al (rho_c k0)); [reflexivity|rewrite Kal; exact ND|exact Hin].
Qed.

(** a physical index of [c] and one of [t] give a common environment (disjoint axes) *)
Lemma merged_ct (rho_c rho_t : env) : Forall (inrange rho_c) (vaxes c) -> Forall (inrange rho_t) (vaxes t) ->
  exists rho0, Forall (inrange rho0) (vaxes c) /\ Forall (inrange rho0) (vaxes t) /\
    evals rho0 (vaxes c) = evals rho_c (vaxes c) /\ evals rho0 (vaxes t) = evals rho_t (vaxes t) /\
    (forall k, In k (map fst (paxes c)) -> rho0 k = rho_c k).
Proof.
  intros Rc Rt.
  assert (Pc : forall k n, In (k, n) (paxes c) -> rho_c k < n).
  { intros k n Hk. apply (wf_fv V c Wc) in Hk. exact (proj1 (inrange_list_fvn rho_c (vaxes c)) Rc k n Hk). }
  assert (Pt : forall k n, In (k, n) (paxes t) -> rho_t k < n).
  { intros k n Hk. apply (wf_fv V t Wt) in Hk. exact (proj1 (inrange_list_fvn rho_t (vaxes t)) Rt k n Hk). }
  pose proof (restrict_in rho_c (paxes c) Pc) as Hpi. pose proof (restrict_in rho_t (paxes t) Pt) as Hpj.
  destruct (merge_facts V c t Wc Wt Dj _ _ Hpi Hpj) as (R1 & R2 & E1 & E2 & _ & _).
  exists (merge_env (restrict rho_c (paxes c)) (restrict rho_t (paxes t))).
  split; [exact R1|]. split; [exact R2|]. split; [|split].
  - rewrite E1. unfold cell_of. apply evals_ext. intros k Hk. apply restrict_env. apply (fv_paxes V c Wc). exact Hk.
  - rewrite E2. unfold cell_of. apply evals_ext. intros k Hk. apply restrict_env. apply (fv_paxes V t Wt). exact Hk.
  - intros k Hk. rewrite (merge_left V c _ _ k Hpi Hk). apply restrict_env. exact Hk.
Qed.

Theorem where_core r nx' :
  where_body V truth cd t c u (vaxes t) (vaxes c) (vaxes u) [] [] nx = Ok (r, nx') ->
  wf V r /\ shape V r = shape V c /\ default r = default u /\
  forall idx, length idx = length (vaxes c) ->
    denote V r idx = if cnd (denote V c idx) then denote V t idx else denote V u idx.
Proof.
  unfold where_body. cbn [app length]. cbv zeta.
  set (fuel := 6 * (asize_list (vaxes t) + asize_list (vaxes c) + asize_list (vaxes u)) + 10).
  destruct (unify_list fuel (vaxes c) (vaxes t) {| us_subst := []; us_next := nx; us_warn := false |}) as [[b st']|] eqn:E; [|discriminate].
  cbn [bind fst snd].
  destruct (unify_typed_mgu_any_fuel G (vaxes c) (vaxes t) pss nx fuel b st' CG CB Tc Tt Gp E) as (_ & (G' & L & X & T') & HU).
  set (sigma := us_subst st') in *. set (nx1 := us_next st') in *. set (f2 := fuel + length sigma + 2).
  pose proof (ts_wts _ _ T') as W. fold sigma in W. pose proof (ts_good _ _ T') as CG'.
  assert (Tc' : tys G' (vaxes c) pss) by (apply (tys_ext G G' nx); assumption).
  assert (Tt' : tys G' (vaxes t) pss) by (apply (tys_ext G G' nx); assumption).
  assert (Bc : vars_below V nx1 c).
  { intros e He k Hk. pose proof (tys_below _ _ _ _ CB Tc e He k Hk). unfold nx1. lia. }
  assert (Bu : vars_below V nx1 u).
  { intros e He k Hk. pose proof (tys_below _ _ _ _ CB Tu e He k Hk). unfold nx1. lia. }
  assert (Lct : length (vaxes c) = length (vaxes t)) by (rewrite (tys_length _ _ _ Tc), (tys_length _ _ _ Tt); reflexivity).
  assert (Nsz : map numel (vaxes c) = map numel (vaxes u)) by (rewrite (tys_numel _ _ _ Tc), (tys_numel _ _ _ Tu); reflexivity).
  (* facts shared by the two branches, once the generalisation is known *)
  assert (Shared : forall lggs ast, antiunify_list fuel (vaxes c) (vaxes u) (astate0 nx1) = Ok (lggs, ast) ->
    let Ls := as_list ast in let ecs := map part1 Ls in let eus := map part2 Ls in let shp := map snd (gs_of Ls) in
    gen_ok part1 nx1 Ls lggs (vaxes c) /\ gen_ok part2 nx1 Ls lggs (vaxes u) /\
    wf V (with_vaxes V c ecs) /\ wf V (with_vaxes V u eus) /\ map numel ecs = shp /\ map numel eus = shp /\
    (forall g, Forall (inrange g) lggs -> in_bounds shp (pcoords (gs_of Ls) g))).
  { intros lggs ast AL Ls ecs eus shp. destruct (where_gen V c u nx1 Bc Bu Nsz fuel lggs ast AL) as [G1 G2]. fold Ls in G1, G2.
    split; [exact G1|]. split; [exact G2|]. split; [exact (gen_parts_wf V part1 nx1 Ls lggs c G1 Wc)|].
    split; [exact (gen_parts_wf V part2 nx1 Ls lggs u G2 Wu)|]. split; [exact (gen_shape part1 _ _ _ _ G1)|]. split; [exact (gen_shape part2 _ _ _ _ G2)|].
    intros g Rg. unfold in_bounds, pcoords, shp. clear - Rg G1.
    assert (Hin : forall kn, In kn (gs_of Ls) -> g (fst kn) < snd kn).
    { intros [k n] Hkn. pose proof (gen_wf V part1 nx1 Ls lggs (vaxes c) G1 (fun _ => default c) (default c)) as WR.
      apply (proj1 (inrange_list_fvn g lggs) Rg). apply (wf_fv V _ WR). exact Hkn. }
    induction (gs_of Ls) as [|[k n] l IH]; simpl; constructor; [exact (Hin (k, n) (or_introl eq_refl))|apply IH; intros kn Hkn; apply Hin; right; exact Hkn]. }
  destruct b; cbn [andb negb].
  - (* the patterns of [c] and [t] unify *)
    destruct (fv_list f2 sigma (paxes_axes' (paxes c))) as [ksc|] eqn:Eksc; [|discriminate]. cbn [bind].
    change (fv_list f2 sigma (paxes_axes' [])) with (@Ok (list pn) []). cbn [bind]. rewrite app_nil_r.
    destruct (fv_list_keys sigma f2 _ _ Eksc) as (NDc & K1c & K2c & _).
    rewrite (dedup_id ksc [] NDc (fun _ _ => eq_refl)).
    destruct (mapM (fun kn : pn => lookup (S (length sigma)) sigma (Phys (fst kn) (snd kn))) (paxes c)) as [looks|] eqn:Elooks; [|discriminate]. cbn [bind].
    set (full := forallb is_phys looks && Nat.eqb (length (dedup [] (flat_map fvn looks))) (length (paxes c))).
    destruct (fv_list f2 sigma (paxes_axes' (paxes t))) as [kst|] eqn:Ekst; [|discriminate]. cbn [bind].
    destruct (forallb (fun kn : pn => pmem (fst kn) (map fst ksc)) kst) eqn:Esub; [|discriminate]. cbn [negb].
    change {| as_list := []; as_next := nx1; as_warn := false |} with (astate0 nx1).
    destruct (antiunify_list fuel (vaxes c) (vaxes u) (astate0 nx1)) as [[lggs ast]|] eqn:AL; [|discriminate]. cbn [bind]. cbv beta iota.
    destruct (Shared lggs ast eq_refl) as (G1 & G2 & WC1 & WU1 & Shc & Shu & Bnd).
    set (Ls := as_list ast) in *.
    set (ecs := map part1 Ls) in *. set (eus := map part2 Ls) in *. set (shp := map snd (gs_of Ls)) in *.
    destruct (to_dense_denote V (expanded V 0 (paxes u) eus u) WU1) as (ud0 & Eud0 & Hud0). rewrite Eud0. cbn [bind].
    destruct (fv_list (S (asize_list ecs)) [] ecs) as [eks0|] eqn:Eeks0; [|discriminate]. cbn [bind].
    destruct (fv_list f2 sigma ecs) as [eks|] eqn:Eeks; [|discriminate]. cbn [bind].
    destruct ((negb full && negb (same_keys eks0 (paxes c))) || negb (same_keys eks ksc)) eqn:Echk; [discriminate|].
    apply orb_false_iff in Echk. destruct Echk as [_ Ek]. apply negb_false_iff in Ek. destruct (same_keys_spec _ _ Ek) as [Ke1 Ke2].
    destruct (fv_list_keys sigma f2 _ _ Eeks) as (_ & _ & K2e & _).
    (* the masked-fill stage *)
    assert (Hfa : forall e, In e ecs -> asize e <= S (asize_list ecs)).
    { intros e He. pose proof (asize_le_list e ecs He). lia. }
    set (stage1 := if full then Ok ud0 else write_all (paxes c) _ _ ud0).
    destruct stage1 as [ud1|] eqn:E1; [|discriminate]. cbn [bind].
    assert (Hud1 : forall cg, in_bounds shp cg ->
              ud1 (flat_offset shp cg) = if full then ud0 (flat_offset shp cg)
                                         else if cnd (denote V (with_vaxes V c ecs) cg) then default t else ud0 (flat_offset shp cg)).
    { intros cg Bd. unfold stage1 in E1. destruct full.
      - inversion E1; subst ud1. reflexivity.
      - exact (masked_stage V c ecs WC1 cnd cnd_default (default t) (S (asize_list ecs)) Hfa shp ud0 ud1 Shc E1 cg Bd). }
    clear E1 stage1.
    (* the copy stage *)
    match goal with |- (ud <- write_all ksc ?off ?val ud1 ;; _) = _ -> _ => set (offf := off); set (valf := val) end.
    destruct (write_all ksc offf valf ud1) as [ud2|] eqn:Ew2; [|discriminate]. cbn [bind].
    intros H. inversion H; subst r nx'. clear H.
    apply (where_final nx1 fuel lggs ast ud2 Bc Bu AL). fold Ls. fold shp. intros g Rg.
    (* sizes, strides, keys *)
    assert (Sz_c : forall k n, In (k, n) (paxes c) -> n = tsizes (G' k) /\ G' k <> []).
    { intros k n Hk. apply (wf_fv V c Wc) in Hk. exact (tys_sized _ _ _ Tc' k n Hk). }
    assert (Sz_t : forall k n, In (k, n) (paxes t) -> n = tsizes (G' k) /\ G' k <> []).
    { intros k n Hk. apply (wf_fv V t Wt) in Hk. exact (tys_sized _ _ _ Tt' k n Hk). }
    assert (Sz_s : forall k T, In (k, T) sigma -> forall j n, In (j, n) (fvn T) -> n = tsizes (G' j)).
    { intros k T Hk j n Hj. destruct (wts_ty _ _ W k T Hk) as [_ HT]. exact (proj1 (ty_sized_both G') _ _ HT j n Hj). }
    assert (Below_c : forall k, In k (map fst (paxes c)) -> (k < nx)%positive).
    { intros k Hk. apply in_map_iff in Hk. destruct Hk as ([k' n] & <- & Hk). apply (wf_fv V c Wc) in Hk.
      destruct (tys_sized _ _ _ Tc k' n Hk) as [_ Gk]. simpl. destruct (Pos.ltb_spec k' nx) as [Lt|Ge]; [exact Lt|]. exfalso. apply Gk. apply CB. exact Ge. }
    assert (ks_size : forall j n, In (j, n) ksc -> n = tsizes (G' j)).
    { intros j n Hj. eapply (fv_list_sized (fun j => tsizes (G' j)) sigma); [exact Sz_s| |exact Eksc|exact Hj].
      intros j' n' Hj'. unfold paxes_axes' in Hj'. apply in_flat_map in Hj'. destruct Hj' as (e & He & Hj'). apply in_map_iff in He.
      destruct He as ([k0 n0] & <- & Hk0). simpl in Hj'. destruct Hj' as [Hj'|[]]. inversion Hj'; subst. exact (proj1 (Sz_c _ _ Hk0)). }
    assert (Hzero : In (restrict (fun _ => 0) ksc) (all_envs ksc)).
    { apply restrict_in. intros j n Hj. rewrite (ks_size j n Hj). apply (gprimes_pos _ (CG' j)). }
    destruct (write_all_inv _ _ _ _ _ Ew2 _ Hzero) as (o0 & v0 & Eo0 & Ev0). unfold offf in Eo0. unfold valf in Ev0.
    assert (Hs_e : forall e, In e ecs -> exists o s, stride f2 sigma e = Ok (o, s)).
    { destruct (at_axes f2 sigma (env_of (restrict (fun _ => 0) ksc)) ecs) as [offs|] eqn:A; [|discriminate]. exact (at_axes_strides _ _ _ _ _ A). }
    assert (Hs_c : forall e, In e (paxes_axes' (paxes c)) -> exists o s, stride f2 sigma e = Ok (o, s)).
    { destruct (at_axes f2 sigma (env_of (restrict (fun _ => 0) ksc)) (paxes_axes' (paxes c))) as [cs|] eqn:A; [|discriminate]. exact (at_axes_strides _ _ _ _ _ A). }
    assert (Hs_t : forall e, In e (paxes_axes' (paxes t)) -> exists o s, stride f2 sigma e = Ok (o, s)).
    { destruct (at_axes f2 sigma (env_of (restrict (fun _ => 0) ksc)) (paxes_axes' (paxes c))) as [cs|] eqn:A; [|discriminate]. cbn [bind] in Ev0.
      destruct (at_axes f2 sigma (env_of (restrict (fun _ => 0) ksc)) (paxes_axes' (paxes t))) as [ts|] eqn:A'; [|discriminate]. exact (at_axes_strides _ _ _ _ _ A'). }
    clear o0 v0 Eo0 Ev0.
    destruct (fv_list_keys sigma f2 _ _ Ekst) as (_ & _ & K2t & _).
    assert (Kc : forall e o s j, In e (paxes_axes' (paxes c)) -> stride f2 sigma e = Ok (o, s) -> In j (keys s) -> In j (map fst ksc)) by exact K2c.
    assert (Kt : forall e o s j, In e (paxes_axes' (paxes t)) -> stride f2 sigma e = Ok (o, s) -> In j (keys s) -> In j (map fst ksc)).
    { intros e o s j He Es Hj. pose proof (K2t e o s j He Es Hj) as Hin. apply in_map_iff in Hin. destruct Hin as ([j' n] & <- & Hin).
      apply pmem_In. rewrite forallb_forall in Esub. exact (Esub _ Hin). }
    assert (Kecs : forall e o s j, In e ecs -> stride f2 sigma e = Ok (o, s) -> In j (keys s) -> In j (map fst ksc)).
    { intros e o s j He Es Hj. apply Ke1. exact (K2e e o s j He Es Hj). }
    assert (Usub : forall j, In j (map fst ksc) -> assoc j sigma = None /\ exists k n, In (k, n) (paxes c) /\ reach sigma k j).
    { intros j Hj. destruct (K1c j Hj Hs_c) as (e & o & s & He & Es & Hjs).
      destruct (stride_keys_ok sigma _ _ _ _ Es) as [_ K]. destruct (K j Hjs) as [U (j0 & Hj0 & R)]. split; [exact U|].
      unfold paxes_axes' in He. apply in_map_iff in He. destruct He as ([k n] & <- & Hk). simpl in Hj0. destruct Hj0 as [<-|[]]. eauto. }
    set (offv := fun pi : list pn => match at_axes f2 sigma (env_of pi) ecs with Ok offs => flat_offset shp offs | Fail _ => 0 end).
    set (valv := fun pi : list pn => match at_axes f2 sigma (env_of pi) (paxes_axes' (paxes c)), at_axes f2 sigma (env_of pi) (paxes_axes' (paxes t)) with
                                     | Ok cc, Ok tc => if cnd (physical c cc) then Some (physical t tc) else None
                                     | _, _ => None end).
    destruct (write_all_spec_opt ksc offf valf offv valv ud1) as (st2 & Ew2' & S).
    { intros pi _. unfold offf, valf, offv, valv. destruct (at_axes_total sigma f2 (env_of pi) _ Hs_e) as (offs & ->).
      destruct (at_axes_total sigma f2 (env_of pi) _ Hs_c) as (cs & ->). destruct (at_axes_total sigma f2 (env_of pi) _ Hs_t) as (ts & ->).
      split; reflexivity. }
    rewrite Ew2 in Ew2'. inversion Ew2'; subst st2. clear Ew2'.
    assert (P : forall pi, In pi (all_envs ksc) -> exists rho, models rho sigma /\ fits G' rho /\
              offv pi = flat_offset shp (evals rho ecs) /\ valv pi = if cnd (pget V c rho) then Some (pget V t rho) else None).
    { intros pi Hpi. destruct (env_model G' sigma CG' W ksc pi NDc ks_size Hpi) as (rho & M & F & A).
      exists rho. split; [exact M|]. split; [exact F|]. unfold offv, valv.
      destruct (at_axes_total sigma f2 (env_of pi) _ Hs_e) as (offs & Eo). destruct (at_axes_total sigma f2 (env_of pi) _ Hs_c) as (cs & Ec).
      destruct (at_axes_total sigma f2 (env_of pi) _ Hs_t) as (ts & Et). rewrite Eo, Ec, Et. split.
      - f_equal. eapply at_axes_model; eauto. intros e o s j He Es Hj. symmetry. apply A. exact (proj1 (Usub j (Kecs e o s j He Es Hj))).
      - assert (cs = pcoords (paxes c) rho) as ->.
        { rewrite <- evals_paxes_axes. eapply at_axes_model; eauto. intros e o s j He Es Hj. symmetry. apply A. exact (proj1 (Usub j (Kc e o s j He Es Hj))). }
        assert (ts = pcoords (paxes t) rho) as ->.
        { rewrite <- evals_paxes_axes. eapply at_axes_model; eauto. intros e o s j He Es Hj. symmetry. apply A. exact (proj1 (Usub j (Kt e o s j He Es Hj))). }
        reflexivity. }
    set (cg := pcoords (gs_of Ls) g). set (idx := evals g lggs).
    pose proof (Bnd g Rg) as Bcg. fold cg in Bcg.
    (* the expanded operands at the generalised index *)
    assert (Dc : denote V (with_vaxes V c ecs) cg = denote V c idx) by exact (core_denote V part1 nx1 Ls lggs (vaxes c) G1 c g eq_refl Wc Rg).
    assert (Du : ud0 (flat_offset shp cg) = denote V u idx).
    { transitivity (denote V (with_vaxes V u eus) cg); [|exact (core_denote V part2 nx1 Ls lggs (vaxes u) G2 u g eq_refl Wu Rg)].
      change (shape V (expanded V 0 (paxes u) eus u)) with (map numel eus) in Hud0. rewrite Shu in Hud0. exact (Hud0 cg Bcg). }
    (* every writer at this cell comes from an environment that backs [c] and [t] at [idx] *)
    assert (Writers : forall pi, In pi (all_envs ksc) -> offv pi = flat_offset shp cg ->
              valv pi = (if cnd (denote V c idx) then Some (denote V t idx) else None) /\
              exists rho_t, Forall (inrange rho_t) (vaxes t) /\ evals rho_t (vaxes t) = idx).
    { intros pi Hpi Eo. destruct (P pi Hpi) as (rho & M & F & Eo' & Ev). rewrite Eo' in Eo.
      pose proof (tys_inrange _ _ _ _ Tc' F) as R1. pose proof (tys_inrange _ _ _ _ Tt' F) as R2.
      assert (Re : Forall (inrange rho) ecs).
      { apply inrange_list_fvn. intros k n Hk. apply (wf_fv V _ WC1) in Hk. cbn [paxes with_vaxes] in Hk.
        rewrite (proj1 (Sz_c k n Hk)). apply F. exact (proj2 (Sz_c k n Hk)). }
      assert (Ecg : evals rho ecs = cg).
      { apply (flat_offset_inj shp); [rewrite <- Shc; apply evals_in_bounds; exact Re|exact Bcg|exact Eo]. }
      destruct (proj2 (core_iff part1 nx1 Ls lggs (vaxes c) G1 g rho Rg) (conj Re Ecg)) as [_ Ei]. fold idx in Ei.
      pose proof (proj1 (HU rho R1 R2) M) as Snd. change (evals rho (vaxes c) = evals rho (vaxes t)) in Snd.
      rewrite Ev. rewrite <- (denote_backed V c rho (wf_covers V c Wc) R1), <- (denote_backed V t rho (wf_covers V t Wt) R2), <- Snd, Ei.
      split; [reflexivity|]. exists rho. split; [exact R2|]. rewrite <- Snd. exact Ei. }
    (* a coincidence of [c] and [t] at [idx] gives a writer *)
    assert (Writer_of : forall rho', models rho' sigma -> inr_s rho' sigma ->
              (forall k, In k (map fst (paxes c)) -> forall n, In (k, n) (paxes c) -> rho' k < n) ->
              Forall (inrange rho') (vaxes c) -> evals rho' (vaxes c) = idx ->
              exists pi, In pi (all_envs ksc) /\ offv pi = flat_offset shp cg).
    { intros rho' M Rs Rpc R1 E1.
      assert (Rsub : forall j n, In (j, n) ksc -> rho' j < n).
      { intros j n Hj. destruct (Usub j) as [_ (k & m & Hk & R')]; [apply in_map_iff; exists (j, n); auto|].
        rewrite (ks_size j n Hj).
        destruct (reach_occurs _ _ _ R') as [<-|(k' & T & Hk' & HjT)].
        - rewrite <- (proj1 (Sz_c k m Hk)). apply (Rpc k); [apply in_map_iff; exists (k, m); auto|exact Hk].
        - unfold inr_s in Rs. rewrite Forall_forall in Rs. specialize (Rs _ Hk'). simpl in Rs.
          rewrite fv_fvn in HjT. apply in_map_iff in HjT. destruct HjT as ([j' n'] & Ej & HjT). simpl in Ej. subst j'.
          rewrite <- (Sz_s k' T Hk' j n' HjT). exact (fvn_of_inrange rho' T Rs j n' HjT). }
      exists (restrict rho' ksc). split; [exact (restrict_in rho' ksc Rsub)|]. unfold offv.
      destruct (at_axes_total sigma f2 (env_of (restrict rho' ksc)) _ Hs_e) as (offs & Eo). rewrite Eo. f_equal.
      rewrite (at_axes_model sigma f2 _ rho' _ _ Eo M).
      - exact (proj2 (proj1 (core_iff part1 nx1 Ls lggs (vaxes c) G1 g rho' Rg) (conj R1 E1))).
      - intros e o s j He Es Hj. apply restrict_env. exact (Kecs e o s j He Es Hj). }
    destruct (S (flat_offset shp cg)) as [S1 S2].
    destruct (cnd (denote V c idx)) eqn:Ecnd.
    + (* [c] selects [t] here *)
      assert (Li : length idx = length (vaxes c)) by (unfold idx, evals; rewrite map_length; exact (g_len _ _ _ _ _ G1)).
      destruct (denote_cases V c idx (wf_covers V c Wc) Li) as [(rho_c & Rc & Ec & _)|[_ Dc0]]; [|rewrite Dc0, cnd_default in Ecnd; discriminate].
      destruct (denote_cases V t idx (wf_covers V t Wt) (eq_trans Li Lct)) as [(rho_t & Rt & Et & _)|[Nt Dt]].
      * (* [t] stores an element there: it is copied *)
        destruct (merged_ct rho_c rho_t Rc Rt) as (rho0 & R1 & R2 & E1 & E2 & A0).
        destruct (proj2 (HU rho0 R1 R2)) as (rho' & Xr & Rs & M).
        { change (evals rho0 (vaxes c) = evals rho0 (vaxes t)). rewrite E1, E2, Ec, Et. reflexivity. }
        assert (Agree : forall k, In k (map fst (paxes c)) -> rho' k = rho0 k) by (intros k Hk; apply Xr; apply Below_c; exact Hk).
        destruct (Writer_of rho' M Rs) as (pi & Hpi & Eo).
        { intros k Hk n Hkn. rewrite (Agree k Hk). apply (wf_fv V c Wc) in Hkn. exact (proj1 (inrange_list_fvn rho0 (vaxes c)) R1 k n Hkn). }
        { apply (Forall_inrange_ext' rho0); [|exact R1]. intros k Hk. symmetry. apply Agree. apply (fv_paxes V c Wc). exact Hk. }
        { rewrite <- Ec, <- E1. apply evals_ext. intros k Hk. apply Agree. apply (fv_paxes V c Wc). exact Hk. }
        apply S2.
        -- exists pi. split; [exact Hpi|]. split; [exact Eo|]. exact (proj1 (Writers pi Hpi Eo)).
        -- intros pi2 w Hpi2 Eo2 Ev2. rewrite (proj1 (Writers pi2 Hpi2 Eo2)) in Ev2. inversion Ev2. reflexivity.
      * (* [t] stores nothing there: nothing is copied; the cell holds [t.default] *)
        rewrite Dt. rewrite S1.
        2:{ intros pi Hpi Eo. exfalso. destruct (proj2 (Writers pi Hpi Eo)) as (rho_t & Rt & Et). exact (Nt rho_t Rt Et). }
        rewrite (Hud1 cg Bcg), Dc, Ecnd. destruct full eqn:Efull; [|reflexivity]. exfalso.
        unfold full in Efull. apply andb_true_iff in Efull. destruct Efull as [Fp Fl]. apply Nat.eqb_eq in Fl.
        assert (Pc : forall k n, In (k, n) (paxes c) -> rho_c k < n).
        { intros k n Hk. apply (wf_fv V c Wc) in Hk. exact (proj1 (inrange_list_fvn rho_c (vaxes c)) Rc k n Hk). }
        destruct (full_models G' sigma looks rho_c CG' W Sz_c Elooks Fp Fl Pc) as (rho & M & F & A).
        destruct (Writer_of rho M (fits_inr_s _ _ _ W F)) as (pi & Hpi & Eo).
        { intros k Hk n Hkn. rewrite (A k Hk). exact (Pc k n Hkn). }
        { exact (tys_inrange _ _ _ _ Tc' F). }
        { rewrite <- Ec. apply evals_ext. intros k Hk. apply A. apply (fv_paxes V c Wc). exact Hk. }
        destruct (proj2 (Writers pi Hpi Eo)) as (rho_t & Rt & Et). exact (Nt rho_t Rt Et).
    + (* [c] selects [u] here: nothing is written *)
      rewrite S1.
      2:{ intros pi Hpi Eo. exact (proj1 (Writers pi Hpi Eo)). }
      rewrite (Hud1 cg Bcg), Dc, Ecnd. destruct full; exact Du.
  - (* the patterns of [c] and [t] do not meet *)
    cbn [bind app dedup length map flat_map forallb].
    change {| as_list := []; as_next := nx1; as_warn := false |} with (astate0 nx1).
    destruct (antiunify_list fuel (vaxes c) (vaxes u) (astate0 nx1)) as [[lggs ast]|] eqn:AL; [|discriminate]. cbn [bind]. cbv beta iota.
    destruct (Shared lggs ast eq_refl) as (G1 & G2 & WC1 & WU1 & Shc & Shu & Bnd).
    set (Ls := as_list ast) in *.
    set (ecs := map part1 Ls) in *. set (eus := map part2 Ls) in *. set (shp := map snd (gs_of Ls)) in *.
    destruct (to_dense_denote V (expanded V 0 (paxes u) eus u) WU1) as (ud0 & Eud0 & Hud0). rewrite Eud0. cbn [bind].
    destruct (fv_list (S (asize_list ecs)) [] ecs) as [eks0|] eqn:Eeks0; [|discriminate]. cbn [bind].
    destruct (negb (same_keys eks0 (paxes c)) || false); [discriminate|].
    assert (Hfa : forall e, In e ecs -> asize e <= S (asize_list ecs)).
    { intros e He. pose proof (asize_le_list e ecs He). lia. }
    match goal with |- (ud <- write_all (paxes c) ?off ?val ud0 ;; _) = _ -> _ => destruct (write_all (paxes c) off val ud0) as [ud1|] eqn:E1; [|discriminate] end.
    cbn [bind]. intros H. inversion H; subst r nx'. clear H.
    apply (where_final nx1 fuel lggs ast ud1 Bc Bu AL). fold Ls. fold shp. intros g Rg.
    set (cg := pcoords (gs_of Ls) g). set (idx := evals g lggs).
    pose proof (Bnd g Rg) as Bcg. fold cg in Bcg.
    assert (Dc : denote V (with_vaxes V c ecs) cg = denote V c idx) by exact (core_denote V part1 nx1 Ls lggs (vaxes c) G1 c g eq_refl Wc Rg).
    assert (Du : ud0 (flat_offset shp cg) = denote V u idx).
    { transitivity (denote V (with_vaxes V u eus) cg); [|exact (core_denote V part2 nx1 Ls lggs (vaxes u) G2 u g eq_refl Wu Rg)].
      change (shape V (expanded V 0 (paxes u) eus u)) with (map numel eus) in Hud0. rewrite Shu in Hud0. exact (Hud0 cg Bcg). }
    rewrite (masked_stage V c ecs WC1 cnd cnd_default (default t) (S (asize_list ecs)) Hfa shp ud0 ud1 Shc E1 cg Bcg), Dc.
    destruct (cnd (denote V c idx)) eqn:Ecnd; [|exact Du].
    assert (Li : length idx = length (vaxes c)) by (unfold idx, evals; rewrite map_length; exact (g_len _ _ _ _ _ G1)).
    destruct (denote_cases V c idx (wf_covers V c Wc) Li) as [(rho_c & Rc & Ec & _)|[_ Dc0]]; [|rewrite Dc0, cnd_default in Ecnd; discriminate].
    symmetry. apply denote_unbacked; [rewrite <- Lct; exact Li|]. intros rho_t Rt Et.
    destruct (merged_ct rho_c rho_t Rc Rt) as (rho0 & R1 & R2 & E1' & E2' & _).
    apply (HU rho0 R1 R2). change (evals rho0 (vaxes c) = evals rho0 (vaxes t)). rewrite E1', E2', Ec, Et. reflexivity.
Qed.

End WhereCore.
