(** C13: the hypotheses of the theorems are satisfiable by non-trivial values, and the witness that
    the premise cannot be dropped: on operands typed by different sum decompositions of one
    dimension (the library warns "index type mismatch" and goes on) [equal] answers True although the
    two dense tensors differ. *)
From Coq Require Import List Arith Lia PeanoNat Bool PArith QArith Qcanon.
Import ListNotations.
Require Import Fggs.Model.Axis Fggs.Model.AxisCheck Fggs.Model.XVal Fggs.Model.PTensor Fggs.Model.PTensorCheck Fggs.Model.PTEqual.
Require Import Fggs.Proofs.PTensor_dense Fggs.Proofs.PTEqual_sem Fggs.Proofs.PTEqual_main Fggs.Proofs.PTEqual_multi.
Local Open Scope nat_scope.

Definition qx (n : Z) : nat * Q := (0, Qmake n 1).

(** diag(1,2,3) with default 0; a dense 3x3 tensor with default 7 holding the same matrix;
    the same with one off-diagonal cell changed; a one-cell tensor nested in the diagonal *)
Definition ex_diag : pt := of_wire ([(1%positive, 3)], [Phys 1 3; Phys 1 3], qx 0, [qx 1; qx 2; qx 3]).
Definition ex_dense : pt :=
  of_wire ([(2%positive, 3); (3%positive, 3)], [Phys 2 3; Phys 3 3], qx 7,
           [qx 1; qx 0; qx 0; qx 0; qx 2; qx 0; qx 0; qx 0; qx 3]).
Definition ex_dense' : pt :=
  of_wire ([(2%positive, 3); (3%positive, 3)], [Phys 2 3; Phys 3 3], qx 7,
           [qx 1; qx 0; qx 0; qx 0; qx 2; qx 0; qx 0; qx 5; qx 3]).
Definition ex_cell : pt :=
  of_wire ([(4%positive, 2)], [Sum 1 (Phys 4 2) 0; Sum 1 (Phys 4 2) 0], qx 0, [qx 2; qx 3]).

(** the premise holds (overlapping, nested, shared-axes operands) and the model answers as the theorem says *)
Example pre_ex :
  compare_pre_b 10 ex_diag ex_dense = true /\ compare_pre_b 10 ex_dense ex_diag = true /\
  compare_pre_b 10 ex_diag ex_diag = true /\ compare_pre_b 10 ex_cell ex_diag = true /\
  equal_model 10 ex_diag ex_dense = Ok true /\ equal_model 10 ex_diag ex_dense' = Ok false /\
  equal_model 10 ex_diag ex_diag = Ok true /\ equal_model 10 ex_cell ex_diag = Ok false /\
  allclose_model 0%Qc (Q2Qc (5#1)) false 10 ex_diag ex_dense' = Ok true /\
  allclose_model 0%Qc (Q2Qc (4#1)) false 10 ex_diag ex_dense' = Ok false.
Proof. vm_compute. repeat split; reflexivity. Qed.

Example nan_free_ex : nan_free ex_diag.
Proof.
  intros idx B. inversion B as [|i ? r ? Hi B1]; subst. inversion B1 as [|j ? r2 ? Hj B2]; subst. inversion B2; subst.
  simpl in Hi, Hj.
  assert (Hi' : i = 0 \/ i = 1 \/ i = 2) by lia. assert (Hj' : j = 0 \/ j = 1 \/ j = 2) by lia.
  destruct Hi' as [->|[->| ->]], Hj' as [->|[->| ->]]; vm_compute; discriminate.
Qed.

(** the overlap of the diagonal with the dense tensor: three cells, found through one view axis *)
Example overlap_ex :
  overlap_model xval 10 ex_diag ex_dense =
  Ok (Some (mkOv [(3%positive, 3)] [(0, [(3%positive, 1)])] [(0, [(3%positive, 1)]); (0, [(3%positive, 1)])])).
Proof. vm_compute. reflexivity. Qed.

(** * the premise cannot be dropped: mixed index types *)
(** [t] = [5,5,0] as (2+1) with default 0, [u] = [5,0,0] as (1+2) with default 5 *)
Definition mix_t : pt := of_wire ([(1%positive, 2)], [Sum 0 (Phys 1 2) 1], qx 0, [qx 5; qx 5]).
Definition mix_u : pt := of_wire ([(2%positive, 2)], [Sum 1 (Phys 2 2) 0], qx 5, [qx 0; qx 0]).

Theorem equal_mixed_types_refuted :
  wf_b mix_t = true /\ wf_b mix_u = true /\ shape xval mix_t = shape xval mix_u /\
  equal_model 10 mix_t mix_u = Ok true /\
  denote xval mix_t [1] <> denote xval mix_u [1] /\
  compare_pre_b 10 mix_t mix_u = false.
Proof. vm_compute. repeat split; try reflexivity. discriminate. Qed.

(** MultiTensor: premise and result *)
Example multi_pre_ex :
  mt_pre 10 [(0, ex_diag); (1, ex_cell)] [(0, ex_dense)] /\
  mt_allclose_model (XF 0%Qc) 0%Qc 10 [(0, ex_diag); (1, ex_cell)] [(0, ex_dense)] = Ok false /\
  mt_allclose_model (XF 0%Qc) (Q2Qc (3#1)) 10 [(0, ex_diag); (1, ex_cell)] [(0, ex_dense)] = Ok true.
Proof.
  split; [|vm_compute; split; reflexivity].
  split.
  - intros k t [H|[H|[]]]; inversion H; subst; cbn [mt_get Nat.eqb].
    + vm_compute. reflexivity.
    + apply wf_b_sound. vm_compute. reflexivity.
  - intros k u [H|[]] G. inversion H; subst. cbn in G. discriminate.
Qed.
