(** Enumerated environments ([all_envs]): append, NoDup, relation with [all_assts], equality of
    two enumerated environments from agreement on the keys; sums with a unique contributing
    element; first-appearance lists ([dedup_nat]). *)
From Coq Require Import List Arith Bool PeanoNat Lia Permutation Ring Ring_theory PArith.
Import ListNotations.
Require Import Fggs.Model.Semiring Fggs.Model.SumProduct.
Require Import Fggs.Proofs.BigSum Fggs.Proofs.SP_trees.
Require Import Fggs.Model.Axis Fggs.Model.PTensor Fggs.Model.AxisCheck Fggs.Model.Einsum.
Require Import Fggs.Proofs.Axis_sem Fggs.Proofs.PTensor_dense Fggs.Proofs.Axis_complete Fggs.Proofs.Einsum_dense.

Lemma leqb_eq a b : leqb a b = true <-> a = b.
Proof. exact (Axis_complete.nat_list_eqb_eq a b). Qed.
Lemma leqb_refl a : leqb a a = true.
Proof. apply leqb_eq. reflexivity. Qed.

Lemma forallb_ext_in' {A} (f g : A -> bool) l : (forall x, In x l -> f x = g x) -> forallb f l = forallb g l.
Proof.
  induction l as [|x l IH]; intros H; [reflexivity|]. simpl. rewrite (H x (or_introl eq_refl)), IH; [reflexivity|].
  intros y Hy. apply H. right. exact Hy.
Qed.

Lemma NoDup_app_parts {A} (l1 l2 : list A) :
  NoDup (l1 ++ l2) -> NoDup l1 /\ NoDup l2 /\ (forall x, In x l1 -> In x l2 -> False).
Proof.
  induction l1 as [|x l1 IH]; simpl; intros H.
  - split; [constructor|]. split; [exact H|]. intros x [].
  - inversion H as [|? ? Hx H']; subst. destruct (IH H') as (N1 & N2 & D). split.
    + constructor; [|exact N1]. intros Hi. apply Hx. apply in_or_app. left. exact Hi.
    + split; [exact N2|]. intros y [->|Hy] Hy2; [apply Hx; apply in_or_app; right; exact Hy2|eauto].
Qed.

(** * all_envs *)
Lemma all_envs_app v1 v2 :
  all_envs (v1 ++ v2) = flat_map (fun p1 => map (app p1) (all_envs v2)) (all_envs v1).
Proof.
  induction v1 as [|[k n] v1 IH]; simpl.
  - rewrite app_nil_r. symmetry. apply map_id.
  - rewrite IH. clear IH. induction (seq 0 n) as [|i l IHl]; [reflexivity|].
    simpl. rewrite flat_map_app, <- IHl. f_equal.
    clear. induction (all_envs v1) as [|p l IH]; [reflexivity|].
    simpl. rewrite map_app, IH. f_equal. rewrite !map_map. reflexivity.
Qed.

Lemma all_envs_keys vars pi : In pi (all_envs vars) -> map fst pi = map fst vars.
Proof. intros H. exact (proj1 (in_all_envs _ _ H)). Qed.

Lemma NoDup_all_envs vars : NoDup (all_envs vars).
Proof.
  induction vars as [|[k n] vars IH]; simpl; [constructor; [intros []|constructor]|].
  apply NoDup_flat_map.
  - apply seq_NoDup.
  - intros i _. apply NoDup_map_inj; [|exact IH]. intros a b _ _ E. inversion E. reflexivity.
  - intros i j z _ _ Hi Hj. apply in_map_iff in Hi, Hj. destruct Hi as (a & <- & _), Hj as (b & E & _).
    inversion E. reflexivity.
Qed.

Lemma all_envs_assts vars : all_envs vars = map (combine (map fst vars)) (all_assts (map snd vars)).
Proof.
  induction vars as [|[k n] vars IH]; [reflexivity|]. simpl. rewrite IH.
  induction (seq 0 n) as [|i l IHl]; [reflexivity|]. simpl. rewrite map_app, IHl. f_equal.
  rewrite !map_map. reflexivity.
Qed.

Lemma all_envs_length vars : length (all_envs vars) = fold_right Nat.mul 1 (map snd vars).
Proof.
  induction vars as [|[k n] vars IH]; [reflexivity|]. simpl. rewrite <- IH.
  generalize 0 at 1. induction n as [|n IHn]; intros s; [reflexivity|]. simpl.
  rewrite app_length, map_length, IHn. reflexivity.
Qed.

(** environments of association lists *)
Lemma env_of_app_l p1 p2 k : In k (map fst p1) -> env_of (p1 ++ p2) k = env_of p1 k.
Proof.
  intros H. unfold env_of. destruct (assoc k p1) as [v|] eqn:E.
  - rewrite (assoc_app_Some _ _ _ _ E). reflexivity.
  - exfalso. clear -H E. induction p1 as [|[k' v] p1 IH]; [contradiction|]. simpl in *.
    destruct (Pos.eqb_spec k' k); [discriminate|]. destruct H as [H|H]; [congruence|auto].
Qed.
Lemma assoc_notin {A} k (p : list (positive * A)) : ~ In k (map fst p) -> assoc k p = None.
Proof.
  induction p as [|[k' v] p IH]; intros H; [reflexivity|]. simpl in *.
  destruct (Pos.eqb_spec k' k) as [->|]; [exfalso; apply H; left; reflexivity|]. apply IH. tauto.
Qed.
Lemma env_of_app_r p1 p2 k : ~ In k (map fst p1) -> env_of (p1 ++ p2) k = env_of p2 k.
Proof. intros H. unfold env_of. rewrite (assoc_app_None _ _ _ (assoc_notin _ _ H)). reflexivity. Qed.

Lemma env_of_combine_map (ks : list positive) (rho : env) k : In k ks ->
  env_of (combine ks (map rho ks)) k = rho k.
Proof.
  intros H. unfold env_of. induction ks as [|k' ks IH]; [contradiction|]. simpl.
  destruct (Pos.eqb_spec k' k) as [->|Hne]; [reflexivity|]. apply IH. destruct H; [congruence|assumption].
Qed.

(** two enumerated environments that agree on the keys are the same list *)
Lemma envs_eq vars p1 p2 : In p1 (all_envs vars) -> In p2 (all_envs vars) -> NoDup (map fst vars) ->
  (forall k, In k (map fst vars) -> env_of p1 k = env_of p2 k) -> p1 = p2.
Proof.
  revert p1 p2. induction vars as [|[k n] vars IH]; intros p1 p2 H1 H2 ND E.
  - simpl in H1, H2. destruct H1 as [<-|[]], H2 as [<-|[]]. reflexivity.
  - simpl in H1, H2. apply in_flat_map in H1, H2.
    destruct H1 as (i1 & _ & H1), H2 as (i2 & _ & H2). apply in_map_iff in H1, H2.
    destruct H1 as (q1 & <- & Q1), H2 as (q2 & <- & Q2).
    inversion ND as [|? ? Hk ND']; subst.
    assert (Ei : i1 = i2).
    { specialize (E k (or_introl eq_refl)). unfold env_of in E. simpl in E. rewrite Pos.eqb_refl in E. exact E. }
    subst. f_equal. apply IH; trivial. intros k' Hk'.
    specialize (E k' (or_intror Hk')). unfold env_of in *. simpl in E.
    destruct (Pos.eqb_spec k k') as [->|]; [contradiction|exact E].
Qed.

(** the canonical enumerated environment of a function *)
Definition restrict (rho : env) (vars : list pn) : list (positive * nat) := map (fun kn => (fst kn, rho (fst kn))) vars.
Lemma restrict_env rho vars k : In k (map fst vars) -> env_of (restrict rho vars) k = rho k.
Proof. intros H. unfold env_of, restrict. rewrite (assoc_restrict rho vars k H). reflexivity. Qed.

(** * first appearances *)
Lemma dedup_nat_In seen l x : In x (dedup_nat seen l) <-> In x l /\ ~ In x seen.
Proof.
  revert seen. induction l as [|y l IH]; intros seen; simpl; [tauto|].
  destruct (existsb (Nat.eqb y) seen) eqn:E.
  - rewrite IH. apply existsb_exists in E. destruct E as (z & Hz & Ez). apply Nat.eqb_eq in Ez. subst z.
    split; [tauto|]. intros [[->|H] N]; [contradiction|tauto].
  - assert (Ny : ~ In y seen).
    { intros H. assert (existsb (Nat.eqb y) seen = true) by (apply existsb_exists; exists y; split; [exact H|apply Nat.eqb_refl]). congruence. }
    simpl. rewrite IH. simpl. split.
    + intros [->|[H N]]; [tauto|]. split; [tauto|]. intros H'. apply N. right. exact H'.
    + intros [[->|H] N]; [tauto|]. destruct (Nat.eq_dec y x) as [->|Hne]; [tauto|]. right. split; [exact H|]. intros [->|H']; tauto.
Qed.
Lemma dedup_nat_NoDup seen l : NoDup (dedup_nat seen l).
Proof.
  revert seen. induction l as [|y l IH]; intros seen; simpl; [constructor|].
  destruct (existsb (Nat.eqb y) seen); [apply IH|]. constructor; [|apply IH].
  rewrite dedup_nat_In. intros [_ N]. apply N. left. reflexivity.
Qed.

(** * labels *)
Lemma lassoc_combine_map (ls : list nat) (f : nat -> nat) l : In l ls ->
  lassoc l (combine ls (map f ls)) = Some (f l).
Proof.
  induction ls as [|x ls IH]; intros H; [contradiction|]. simpl.
  destruct (Nat.eqb_spec x l) as [->|Hne]; [reflexivity|]. apply IH. destruct H; [congruence|assumption].
Qed.
Lemma lval_combine_map ls f l : In l ls -> lval (combine ls (map f ls)) l = f l.
Proof. intros H. unfold lval. rewrite (lassoc_combine_map ls f l H). reflexivity. Qed.

Lemma lassoc_combine_notin (ls vs : list nat) l : ~ In l ls -> lassoc l (combine ls vs) = None.
Proof.
  revert vs. induction ls as [|x ls IH]; intros vs H; [reflexivity|]. destruct vs as [|v vs]; [reflexivity|]. simpl.
  destruct (Nat.eqb_spec x l) as [->|]; [exfalso; apply H; left; reflexivity|]. apply IH. simpl in H. tauto.
Qed.

Lemma out_consistent_map output f : out_consistent output (map f output) = true.
Proof.
  unfold out_consistent. rewrite map_length, Nat.eqb_refl. simpl.
  apply forallb_forall. intros [l v] Hin. simpl.
  assert (Hl : In l output) by (apply in_combine_l in Hin; exact Hin).
  rewrite (lval_combine_map output f l Hl).
  assert (G : forall (ls : list nat), In (l, v) (combine ls (map f ls)) -> v = f l).
  { clear. induction ls as [|x ls IH]; [intros []|]. simpl. intros [E|H]; [inversion E; reflexivity|auto]. }
  rewrite (G _ Hin). apply Nat.eqb_refl.
Qed.

(** * sums with at most one contributing element *)
Section Unique.
Context {R : Type} (o : sr_ops R).
Hypothesis Hr : sr_ring o.
Add Ring RingEE : (sr_is_srt o Hr).

Lemma sumS_unique {A} (l : list A) (p : A -> bool) (f : A -> R) x0 :
  NoDup l -> In x0 l -> p x0 = true -> (forall x, In x l -> p x = true -> x = x0) ->
  sumS o l (fun x => if p x then f x else Semiring.zero o) = f x0.
Proof.
  intros ND Hin Hp Hu. induction l as [|y l IH]; [contradiction|].
  rewrite (sumS_cons o). inversion ND as [|? ? Hy ND']; subst. destruct Hin as [->|Hin].
  - rewrite Hp. rewrite (sumS_all_zero o Hr); [ring|]. intros x Hx.
    destruct (p x) eqn:E; [|reflexivity]. exfalso. apply Hy. rewrite <- (Hu x (or_intror Hx) E). exact Hx.
  - destruct (p y) eqn:E.
    + exfalso. apply Hy. rewrite (Hu y (or_introl eq_refl) E). exact Hin.
    + rewrite IH; trivial; [ring|]. intros x Hx. apply Hu. right. exact Hx.
Qed.

Lemma sumS_none {A} (l : list A) (p : A -> bool) (f : A -> R) :
  (forall x, In x l -> p x = false) ->
  sumS o l (fun x => if p x then f x else Semiring.zero o) = Semiring.zero o.
Proof. intros H. apply (sumS_all_zero o Hr). intros x Hx. rewrite (H x Hx). reflexivity. Qed.

Lemma sumS_if_mul {A B} (l : list A) (l' : list B) (p : A -> bool) (q : B -> bool) (f : A -> R) (g : B -> R) :
  mul o (sumS o l (fun x => if p x then f x else Semiring.zero o))
        (sumS o l' (fun y => if q y then g y else Semiring.zero o))
  = sumS o l (fun x => sumS o l' (fun y => if p x && q y then mul o (f x) (g y) else Semiring.zero o)).
Proof.
  rewrite (sumS_mul_r o Hr). apply (sumS_ext o). intros x _. rewrite (sumS_mul_l o Hr).
  apply (sumS_ext o). intros y _. destruct (p x), (q y); simpl; ring.
Qed.
End Unique.
