(** C13 without the executable premise: [equal] / [allclose] (as modelled: size test, freshening of
    [other] when the operands share physical axes, unification of the patterns, the two projected
    views, the counting argument) decide the cellwise comparison of the denoted dense tensors for
    EVERY pair of well-formed tensors whose patterns are typed alike over good index types --
    whenever the model answers ([Ok b]; the only other outcome is [Fail OutOfFuel], the fuel being
    an artefact of the model).  The typing context of the freshened operand is built here. *)
From Coq Require Import List Arith Lia PeanoNat Bool PArith QArith Qcanon.
Import ListNotations.
Require Import Fggs.Model.Axis Fggs.Model.AxisCheck Fggs.Model.XVal Fggs.Model.PTensor Fggs.Model.PTensorCheck Fggs.Model.PTEqual.
Require Import Fggs.Proofs.Axis_sem Fggs.Proofs.Axis_unify Fggs.Proofs.Axis_complete_gen Fggs.Proofs.Axis_typed Fggs.Proofs.Axis_total.
Require Import Fggs.Proofs.Axis_rank Fggs.Proofs.Axis_mgu.
Require Import Fggs.Proofs.PTensor_sem Fggs.Proofs.PTensor_dense Fggs.Proofs.Axis_repr Fggs.Proofs.PTensor_gen.
Require Import Fggs.Proofs.PTEqual_count Fggs.Proofs.PTEqual_sem Fggs.Proofs.PTEqual_freshen Fggs.Proofs.PTEqual_main Fggs.Proofs.PTEqual_typed.
Local Open Scope nat_scope.

(** * typing is stable under renaming of the physical axes *)
Lemma is_prod_rename g e : is_prod (rename_axis g e) = is_prod e.
Proof. destruct e; reflexivity. Qed.

Lemma ty_rename_both G0 G1 g :
  (forall e ps, ty G0 e ps -> (forall k, In k (fv e) -> G1 (g k) = G0 k) -> ty G1 (rename_axis g e) ps) /\
  (forall l ps, tyl G0 l ps -> (forall k, In k (flat_map fv l) -> G1 (g k) = G0 k) -> tyl G1 (map (rename_axis g) l) ps).
Proof.
  apply ty_tyl_ind.
  - intros k n N -> A. simpl. rewrite <- (A k (or_introl eq_refl)). constructor; rewrite (A k (or_introl eq_refl)); auto.
  - intros b t a pre tj post Hb Ha _ IH A. simpl. constructor; auto.
  - intros l ps Hl _ IH A. simpl. constructor; [rewrite map_length; exact Hl|auto].
  - intros _. constructor.
  - intros x l p1 ps Hx _ IHx _ IHl A. simpl. constructor; [rewrite is_prod_rename; exact Hx|apply IHx|apply IHl];
      intros k Hk; apply A; simpl; apply in_or_app; auto.
Qed.

Lemma tys_rename G0 G1 g es pss : tys G0 es pss -> (forall k, In k (flat_map fv es) -> G1 (g k) = G0 k) ->
  tys G1 (map (rename_axis g) es) pss.
Proof.
  induction 1 as [|e es ps pss He Hes IH]; intros A; simpl; constructor.
  - apply (proj1 (ty_rename_both G0 G1 g) _ _ He). intros k Hk. apply A. simpl. apply in_or_app. left. exact Hk.
  - apply IH. intros k Hk. apply A. simpl. apply in_or_app. right. exact Hk.
Qed.

Lemma tys_agree G0 G1 es pss : tys G0 es pss -> (forall k, In k (flat_map fv es) -> G1 k = G0 k) -> tys G1 es pss.
Proof.
  induction 1 as [|e es ps pss He Hes IH]; intros A; constructor.
  - apply (proj1 (ty_agree_both G0 G1) _ _ He). intros k Hk. apply A. simpl. apply in_or_app. left. exact Hk.
  - apply IH. intros k Hk. apply A. simpl. apply in_or_app. right. exact Hk.
Qed.

(** * the counter after freshening *)
Lemma new_pn_keys_lt ps : forall nx k n, In (k, n) (new_pn ps nx) -> (k < pos_after nx (length ps))%positive.
Proof.
  assert (Mono : forall m nx, (nx <= pos_after nx m)%positive).
  { induction m as [|m IH]; intros nx; simpl; [lia|]. specialize (IH (Pos.succ nx)). lia. }
  induction ps as [|[k0 n0] ps IH]; intros nx k n H; [contradiction|]. simpl in H. destruct H as [H|H].
  - inversion H; subst. simpl. pose proof (Mono (length ps) (Pos.succ k)). lia.
  - simpl. apply IH in H. exact H.
Qed.

Section Fresh.
Variable V : Type.
Variable u : ptensor V.
Variable next : positive.
Hypothesis W : wf V u.

Lemma pt_freshen_next : snd (pt_freshen V next u) = pos_after next (length (paxes u)).
Proof.
  unfold pt_freshen. change (map (fun kn : pn => Phys (fst kn) (snd kn)) (paxes u)) with (paxes_axes (paxes u)).
  rewrite freshen_paxes; [|apply (wf_nodup V u W)|intros; reflexivity]. cbn [app].
  rewrite (freshen_list_known (ren_of (new_rename (paxes u) next))).
  - reflexivity.
  - intros k n Hk. cbn [fs_rename]. apply (wf_fv V u W) in Hk.
    destruct (new_rename_assoc (paxes u) next k n (wf_nodup V u W) Hk) as (k' & E & _).
    unfold ren_of. rewrite E. reflexivity.
Qed.

Lemma pt_freshen_keys_lt k : In k (map fst (paxes (fst (pt_freshen V next u)))) ->
  (k < snd (pt_freshen V next u))%positive.
Proof.
  rewrite pt_freshen_next, (pt_freshen_eq V u next W). cbn [paxes]. intros H. apply in_map_iff in H.
  destruct H as ([k0 n] & E & H). simpl in E. subst k0. eapply new_pn_keys_lt; eauto.
Qed.

End Fresh.

(** * the hypothesis: both operands well formed and typed alike in one context *)
Record typed_pair (V : Type) (G : ctx) (next : positive) (pss : list (list ity)) (t u : ptensor V) : Prop := {
  tp_wft : wf V t;
  tp_wfu : wf V u;
  tp_good : ctx_good G;
  tp_below : ctx_below G next;
  tp_t : tys G (vaxes t) pss;
  tp_u : tys G (vaxes u) pss;
  tp_primes : Forall gprimes pss }.

Section Main.
Variable V : Type.
Variables t u : ptensor V.
Variable G : ctx.
Variable next : positive.
Variable pss : list (list ity).
Hypothesis TP : typed_pair V G next pss t u.

Let Wt := tp_wft _ _ _ _ _ _ TP.
Let Wu := tp_wfu _ _ _ _ _ _ TP.

Lemma keys_below_next (w : ptensor V) : wf V w -> tys G (vaxes w) pss -> forall k, In k (map fst (paxes w)) -> (k < next)%positive.
Proof.
  intros Ww Tw k Hk. apply in_map_iff in Hk. destruct Hk as ([k' n] & <- & Hk). apply (wf_fv V w Ww) in Hk.
  destruct (tys_sized G _ _ Tw k' n Hk) as [_ Gk]. simpl.
  destruct (Pos.ltb_spec k' next) as [Lt|Ge]; [exact Lt|]. exfalso. apply Gk. apply (tp_below _ _ _ _ _ _ TP). exact Ge.
Qed.

(** the context for [t] and the freshened [u] *)
Let g := ren_of (new_rename (paxes u) next).
Definition fresh_ctx : ctx := fun k' =>
  if Pos.ltb k' next then G k'
  else match find (fun kn : pn => Pos.eqb (g (fst kn)) k') (paxes u) with
       | Some kn => G (fst kn)
       | None => []
       end.

Lemma g_ge k n : In (k, n) (paxes u) -> (next <= g k)%positive /\ In (g k, n) (new_pn (paxes u) next).
Proof.
  intros Hk. destruct (new_rename_assoc (paxes u) next k n (wf_nodup V u Wu) Hk) as (k' & E & L & I).
  unfold g, ren_of. rewrite E. auto.
Qed.

Lemma fresh_ctx_new k n : In (k, n) (paxes u) -> fresh_ctx (g k) = G k.
Proof.
  intros Hk. destruct (g_ge k n Hk) as [L _]. unfold fresh_ctx.
  destruct (Pos.ltb_spec (g k) next) as [Lt|_]; [lia|].
  destruct (find _ (paxes u)) as [[k1 n1]|] eqn:F.
  - apply find_some in F. destruct F as [F1 F2]. apply Pos.eqb_eq in F2. cbn [fst] in *.
    f_equal. eapply (ren_inj (paxes u) next); eauto. apply (wf_nodup V u Wu).
  - exfalso. apply (find_none _ _ F (k, n)) in Hk. simpl in Hk. rewrite Pos.eqb_refl in Hk. discriminate.
Qed.

Lemma fresh_ctx_good : ctx_good fresh_ctx.
Proof.
  intros k. unfold fresh_ctx. destruct (Pos.ltb k next); [apply (tp_good _ _ _ _ _ _ TP)|].
  destruct (find _ (paxes u)) as [kn|]; [apply (tp_good _ _ _ _ _ _ TP)|constructor].
Qed.

Lemma fresh_ctx_below : ctx_below fresh_ctx (snd (pt_freshen V next u)).
Proof.
  intros k Hk. rewrite (pt_freshen_next V u next Wu) in Hk.
  assert (Mono : forall m nx, (nx <= pos_after nx m)%positive).
  { induction m as [|m IH]; intros nx; simpl; [lia|]. specialize (IH (Pos.succ nx)). lia. }
  pose proof (Mono (length (paxes u)) next).
  unfold fresh_ctx. destruct (Pos.ltb_spec k next) as [Lt|_]; [lia|].
  destruct (find _ (paxes u)) as [[k1 n1]|] eqn:F; [|reflexivity]. exfalso.
  apply find_some in F. destruct F as [F1 F2]. apply Pos.eqb_eq in F2. cbn [fst] in F2. subst k.
  destruct (g_ge k1 n1 F1) as [_ I]. apply new_pn_keys_lt in I. lia.
Qed.

Lemma fresh_tys_t : tys fresh_ctx (vaxes t) pss.
Proof.
  apply (tys_agree G); [apply (tp_t _ _ _ _ _ _ TP)|]. intros k Hk. unfold fresh_ctx.
  assert (L : (k < next)%positive) by (apply (keys_below_next t Wt (tp_t _ _ _ _ _ _ TP)); apply fv_paxes; assumption).
  destruct (Pos.ltb_spec k next); [reflexivity|lia].
Qed.

Lemma fresh_tys_u : tys fresh_ctx (vaxes (fst (pt_freshen V next u))) pss.
Proof.
  rewrite (pt_freshen_vaxes V u next Wu). apply (tys_rename G); [apply (tp_u _ _ _ _ _ _ TP)|].
  intros k Hk. apply (fv_paxes V u Wu) in Hk. apply in_map_iff in Hk. destruct Hk as ([k' n] & <- & Hk). simpl.
  eapply fresh_ctx_new; eauto.
Qed.

Lemma isdisjoint_spec : pt_isdisjoint V t u = true ->
  forall k, In k (map fst (paxes t)) -> ~ In k (map fst (paxes u)).
Proof.
  unfold pt_isdisjoint. rewrite forallb_forall. intros H k Hk Hu. apply in_map_iff in Hk. destruct Hk as ([k' n] & <- & Hk).
  specialize (H _ Hk). apply negb_true_iff in H. simpl in *.
  assert (existsb (Pos.eqb k') (map fst (paxes u)) = true); [|congruence].
  apply existsb_exists. exists k'. split; [exact Hu|apply Pos.eqb_refl].
Qed.

(** the overlap of [t] with the (possibly freshened) [u] is exact *)
Theorem freshened_overlap_ok :
  let u' := fst (freshened V next t u) in
  let next' := snd (freshened V next t u) in
  forall cs, overlap_cs V t u' next' = Ok cs -> overlap_ok V t u' cs.
Proof.
  unfold freshened. destruct (pt_isdisjoint V t u) eqn:D; cbn [fst snd].
  - apply (overlap_typed_ok V t u Wt Wu G next pss); try apply TP. apply isdisjoint_spec. exact D.
  - apply (overlap_typed_ok V t _ Wt (pt_freshen_wf V u next Wu) fresh_ctx _ pss).
    + exact fresh_ctx_good.
    + exact fresh_ctx_below.
    + exact fresh_tys_t.
    + exact fresh_tys_u.
    + apply TP.
    + intros k Hk Hu. pose proof (keys_below_next t Wt (tp_t _ _ _ _ _ _ TP) k Hk).
      pose proof (pt_freshen_fresh V u next Wu k Hu). lia.
Qed.

End Main.

(** * [equal] / [allclose] on typed pairs *)
Section Concrete.
Variable cmp : xval -> xval -> bool.

Theorem compare_model_correct_typed G next pss (t u : pt) b :
  typed_pair xval G next pss t u ->
  compare_model xval cmp next t u = Ok b ->
  (b = true <-> cellwise cmp t u).
Proof.
  intros TP H. unfold compare_model, cellwise in *.
  pose proof (tp_wft _ _ _ _ _ _ TP) as Pt. pose proof (tp_wfu _ _ _ _ _ _ TP) as Pu.
  destruct (freshened_props next t u Pu) as (Wu' & Su' & Du').
  pose proof (freshened_overlap_ok xval t u G next pss TP) as Hov. cbv zeta in Hov.
  destruct (freshened xval next t u) as [u' next'] eqn:F. cbn [fst snd] in *.
  destruct (nat_list_eqb (shape xval t) (shape xval u)) eqn:Es; cbn [negb] in H.
  - apply Axis_complete.nat_list_eqb_eq in Es.
    assert (Hs' : shape xval t = shape xval u') by congruence.
    pose proof (compare_core_correct xval cmp t u' Pt Wu' Hs' next' b Hov H) as C. rewrite C. split.
    + intros A. split; [exact Es|]. intros idx B. rewrite <- Du'; [apply A; exact B|].
      apply in_bounds_length in B. rewrite Es in B. unfold shape in B. rewrite map_length in B. exact B.
    + intros [_ A] idx B. rewrite Du'; [apply A; exact B|].
      apply in_bounds_length in B. rewrite Es in B. unfold shape in B. rewrite map_length in B. exact B.
  - inversion H; subst b. split; [discriminate|]. intros [E _]. exfalso.
    assert (nat_list_eqb (shape xval t) (shape xval u) = true); [apply Axis_complete.nat_list_eqb_eq; exact E|congruence].
Qed.

End Concrete.

Theorem equal_correct_typed G next pss (t u : pt) b :
  typed_pair xval G next pss t u -> equal_model next t u = Ok b ->
  (b = true <-> shape xval t = shape xval u /\
                forall idx, in_bounds (shape xval t) idx -> denote xval t idx = denote xval u idx /\ denote xval t idx <> XNaN).
Proof.
  intros TP H. rewrite (compare_model_correct_typed xeq_num G next pss t u b TP H). unfold cellwise.
  split; intros [S A]; (split; [exact S|]); intros idx B; apply xeq_num_spec; apply A; exact B.
Qed.

Theorem allclose_correct_typed rtol atol en G next pss (t u : pt) b :
  typed_pair xval G next pss t u -> allclose_model rtol atol en next t u = Ok b ->
  (b = true <-> shape xval t = shape xval u /\
                forall idx, in_bounds (shape xval t) idx -> xisclose rtol atol en (denote xval t idx) (denote xval u idx) = true).
Proof. intros TP H. exact (compare_model_correct_typed (xisclose rtol atol en) G next pss t u b TP H). Qed.
