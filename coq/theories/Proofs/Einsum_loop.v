(** C07: soundness of the unification loop of [einsum] (from C06_unify_sound, in the form
    [unify_sound_both] that threads a substitution): if no unification failed, every environment
    that satisfies the final substitution gives every co-indexed axis the value of the first axis
    seen for its index. *)
From Coq Require Import List Arith Bool PeanoNat Lia PArith.
Import ListNotations.
Require Import Fggs.Model.Semiring.
Require Import Fggs.Model.Axis Fggs.Model.PTensor Fggs.Model.AxisCheck Fggs.Model.Einsum Fggs.Model.EinsumCheck Fggs.Model.EinsumCert.
Require Import Fggs.Proofs.Axis_sem Fggs.Proofs.Axis_unify.
Require Import Fggs.Proofs.Einsum_dense Fggs.Proofs.Einsum_envs.

Lemma pos_sizes_b_eq e : pos_sizes_b e = pos_sizes e.
Proof.
  induction e as [k n|l IH|b t a IH] using axis_ind'; [reflexivity| |exact IH].
  simpl. induction l as [|x l IHl]; [reflexivity|]. inversion IH; subst. simpl. rewrite H1, IHl by assumption. reflexivity.
Qed.

Section Loop.
Context {R : Type}.
Notation stensor := (stensor (R:=R)).

Definition i2v_pos (i2v : list (nat * axis)) : Prop := forall l e0, lassoc l i2v = Some e0 -> pos_sizes e0 = true.

Lemma unify_dims_sound fuel : forall vs inp s s',
  forallb pos_sizes vs = true -> pos_subst (us_subst (ls_u s)) = true -> i2v_pos (ls_i2v s) ->
  unify_dims fuel vs inp s = Ok s' ->
  usound (ls_u s) (ls_u s') /\ i2v_pos (ls_i2v s') /\
  (forall l e0, lassoc l (ls_i2v s) = Some e0 -> lassoc l (ls_i2v s') = Some e0) /\
  (ls_zero s = true -> ls_zero s' = true) /\
  (ls_zero s' = false -> forall rho, models rho (us_subst (ls_u s')) ->
     forall l e, In (l, e) (combine inp vs) -> exists e0, lassoc l (ls_i2v s') = Some e0 /\ eval rho e = eval rho e0).
Proof.
  induction vs as [|v vs IH]; intros inp s s' Pv Ps Pi H.
  - simpl in H. inversion H; subst. split; [apply usound_refl; exact Ps|]. split; [exact Pi|]. split; [auto|]. split; [auto|].
    intros _ rho _ l e Hin. destruct inp; destruct Hin.
  - destruct inp as [|l inp].
    + simpl in H. inversion H; subst. split; [apply usound_refl; exact Ps|]. split; [exact Pi|]. split; [auto|]. split; [auto|].
      intros _ rho _ l e [].
    + simpl in Pv. apply andb_true_iff in Pv. destruct Pv as [Pv Pvs]. cbn [unify_dims] in H.
      destruct (lassoc l (ls_i2v s)) as [e1|] eqn:E1.
      * destruct (unify fuel e1 v (ls_u s)) as [[b u1]|] eqn:EU; [|discriminate]. cbn [bind fst snd] in H.
        destruct (proj1 (unify_sound_both fuel) _ _ _ _ _ (Pi l e1 E1) Pv Ps EU) as [U1 S1].
        destruct (IH inp (mkLS (ls_fv s) (ls_i2v s) u1 (ls_zero s || negb b)) s' Pvs (proj2 U1) Pi H) as (U2 & Pi' & G & Z & S2). cbn [ls_u ls_i2v ls_zero] in *.
        split; [eapply usound_trans; eauto|]. split; [exact Pi'|]. split; [exact G|].
        split; [intros Hz; apply Z; rewrite Hz; reflexivity|].
        intros Hz rho M l' e Hin. destruct Hin as [Hin|Hin].
        -- inversion Hin; subst. exists e1. split; [apply G; exact E1|].
           assert (Hb : b = true).
           { destruct b; [reflexivity|]. exfalso. rewrite Z in Hz; [discriminate|]. rewrite orb_true_r. reflexivity. }
           symmetry. apply (S1 Hb). exact (usound_models _ _ _ U2 M).
        -- exact (S2 Hz rho M l' e Hin).
      * assert (Pi1 : i2v_pos (ls_i2v s ++ [(l, v)])).
        { intros l' e0 E. rewrite lassoc_app in E. destruct (lassoc l' (ls_i2v s)) eqn:E'; [inversion E; subst; eapply Pi; eauto|].
          simpl in E. destruct (Nat.eqb l l'); [inversion E; subst; exact Pv|discriminate]. }
        destruct (IH inp (mkLS (ls_fv s) (ls_i2v s ++ [(l, v)]) (ls_u s) (ls_zero s)) s' Pvs Ps Pi1 H) as (U2 & Pi' & G & Z & S2). cbn [ls_u ls_i2v ls_zero] in *.
        split; [exact U2|]. split; [exact Pi'|].
        split; [intros l' e0 E; apply G; rewrite lassoc_app, E; reflexivity|]. split; [exact Z|].
        intros Hz rho M l' e Hin. destruct Hin as [Hin|Hin].
        -- inversion Hin; subst. exists e. split; [|reflexivity]. apply G. rewrite lassoc_app, E1. simpl. rewrite Nat.eqb_refl. reflexivity.
        -- exact (S2 Hz rho M l' e Hin).
Qed.

Definition pts (ts : list stensor) : list (ptensor R) := map st_pt ts.

Lemma eloop_sound fuel : forall ts inputs s acc s' fts,
  eloop fuel ts inputs s acc = Ok (s', fts) ->
  exists new, fts = acc ++ new /\
    (Forall (fun t => forallb pos_sizes (vaxes (st_pt t)) = true) new ->
     pos_subst (us_subst (ls_u s)) = true -> i2v_pos (ls_i2v s) ->
     usound (ls_u s) (ls_u s') /\ i2v_pos (ls_i2v s') /\
     (forall l e0, lassoc l (ls_i2v s) = Some e0 -> lassoc l (ls_i2v s') = Some e0) /\
     (ls_zero s = true -> ls_zero s' = true) /\
     (ls_zero s' = false -> forall rho, models rho (us_subst (ls_u s')) ->
        forall l e, In (l, e) (occurrences (pts new) inputs) ->
        exists e0, lassoc l (ls_i2v s') = Some e0 /\ eval rho e = eval rho e0)).
Proof.
  induction ts as [|t ts IH]; intros inputs s acc s' fts H.
  - simpl in H. inversion H; subst. exists []. split; [rewrite app_nil_r; reflexivity|]. intros _ Ps Pi.
    split; [apply usound_refl; exact Ps|]. split; [exact Pi|]. split; [auto|]. split; [auto|]. intros _ rho _ l e [].
  - destruct inputs as [|inp inputs].
    + simpl in H. inversion H; subst. exists []. split; [rewrite app_nil_r; reflexivity|]. intros _ Ps Pi.
      split; [apply usound_refl; exact Ps|]. split; [exact Pi|]. split; [auto|]. split; [auto|]. intros _ rho _ l e [].
    + cbn [eloop] in H.
      set (disj := forallb (fun kn : pn => negb (existsb (Pos.eqb (fst kn)) (ls_fv s))) (paxes (st_pt t))) in H.
      destruct (if disj then (t, us_next (ls_u s)) else st_freshen (us_next (ls_u s)) t) as [t' nx] eqn:Et.
      destruct (unify_dims fuel (vaxes (st_pt t')) inp _) as [s1|] eqn:EU; [|discriminate]. cbn [bind] in H.
      destruct (IH inputs s1 (acc ++ [t']) s' fts H) as (new & Ef & G).
      exists (t' :: new). split; [rewrite Ef, <- app_assoc; reflexivity|].
      intros Pn Ps Pi. inversion Pn as [|? ? Pt Pn']; subst.
      destruct (unify_dims_sound fuel (vaxes (st_pt t')) inp
                  (mkLS (ls_fv s ++ map fst (paxes (st_pt t'))) (ls_i2v s) (with_next (ls_u s) nx) (ls_zero s)) s1 Pt Ps Pi EU)
        as (U1 & Pi1 & G1 & Z1 & S1). cbn [ls_u ls_i2v ls_zero with_next us_subst] in *.
      destruct (G Pn' (proj2 U1) Pi1) as (U2 & Pi2 & G2 & Z2 & S2).
      split; [exact (usound_trans _ _ _ U1 U2)|]. split; [exact Pi2|]. split; [intros l e0 E; apply G2, G1; exact E|].
      split; [intros Hz; apply Z2, Z1; exact Hz|].
      intros Hz rho M l e Hin. unfold pts in Hin. cbn [map] in Hin.
      change (occurrences (st_pt t' :: map st_pt new) (inp :: inputs))
        with (combine inp (vaxes (st_pt t')) ++ occurrences (pts new) inputs) in Hin.
      apply in_app_or in Hin. destruct Hin as [Hin|Hin].
      * assert (Hz1 : ls_zero s1 = false).
        { destruct (ls_zero s1) eqn:E; [|reflexivity]. rewrite Z2 in Hz; [discriminate|reflexivity]. }
        destruct (S1 Hz1 rho (usound_models _ _ _ U2 M) l e Hin) as (e0 & E0 & Ev).
        exists e0. split; [apply G2; exact E0|exact Ev].
      * exact (S2 Hz rho M l e Hin).
Qed.
End Loop.
