(** C14, weights, layer B (second half) and the theorem: the gather reading [spec_denote] of a
    patterned specification (decode each virtual coordinate into physical coordinates: integers
    bind physical axes -- repeated ones must agree --, lists are mixed-radix numbers, dicts embed)
    is what the strided [to_dense] of [json_to_weights]'s result computes. *)
From Coq Require Import List Arith Bool PeanoNat ZArith Lia Permutation.
Import ListNotations.
Require Import Fggs.Model.Json Fggs.Proofs.Json_base Fggs.Proofs.Json_dense Fggs.Proofs.Json_wparse.
Local Open Scope nat_scope.

(** * partial assignments *)
Definition agrees (f : nat -> nat) (a : asg) : Prop := forall k x, asg_get a k = Some x -> f k = x.
Definition dom (a : asg) (k : nat) : Prop := asg_get a k <> None.

Section Decode.
  Variable psh : list nat.
  Let np := length psh.

  (** [vs_decode] inverts [vs_eval]: soundness (with what it binds) and completeness *)
  Definition dec_spec (v : vspec) : Prop :=
    forall i a, i < vs_numel psh v ->
      (forall a', vs_decode psh v i a = Some a' ->
         (forall f, agrees f a' -> agrees f a /\ vs_eval psh f v = i) /\
         (forall k, dom a' k <-> dom a k \/ In k (vs_axes np v)) /\
         (forall k x, asg_get a' k = Some x -> asg_get a k = Some x \/ (k < np /\ x < nth k psh 0))) /\
      (forall f, in_range psh f -> agrees f a -> vs_eval psh f v = i ->
         exists a', vs_decode psh v i a = Some a' /\ agrees f a').

  Definition dstep (g : vspec) (st : nat * option asg) : nat * option asg :=
    (fst st / vs_numel psh g,
     match snd st with
     | Some a' => vs_decode psh g (fst st mod vs_numel psh g) a'
     | None => None
     end).

  Lemma vs_decode_list : forall l i a, vs_decode psh (VList l) i a = snd (fold_right dstep (i, Some a) l).
  Proof. reflexivity. Qed.

  Lemma fold_dstep_none : forall l st, snd st = None -> snd (fold_right dstep st l) = None.
  Proof. induction l as [|g l IH]; intros st H; cbn; [assumption|]. now rewrite IH. Qed.

  Lemma fold_dstep_fst_indep : forall l i o o', fst (fold_right dstep (i, o) l) = fst (fold_right dstep (i, o') l).
  Proof. induction l as [|g l IH]; intros i o o'; cbn; [reflexivity|]. now rewrite (IH i o o'). Qed.

  Definition vprod (l : list vspec) : nat := fold_right (fun f acc => vs_numel psh f * acc) 1 l.

  Lemma vprod_app : forall l1 l2, vprod (l1 ++ l2) = vprod l1 * vprod l2.
  Proof. unfold vprod. induction l1 as [|g l1 IH]; intro l2; cbn; [lia|]. rewrite IH. lia. Qed.

  Lemma vs_eval_snoc : forall f l g,
    vs_eval psh f (VList (l ++ [g])) = vs_eval psh f (VList l) * vs_numel psh g + vs_eval psh f g.
  Proof. intros f l g. cbn [vs_eval]. now rewrite fold_left_app. Qed.

  Lemma decode_snoc : forall l g i a,
    vs_decode psh (VList (l ++ [g])) i a =
    match vs_decode psh g (i mod vs_numel psh g) a with
    | Some a1 => vs_decode psh (VList l) (i / vs_numel psh g) a1
    | None => None
    end.
  Proof.
    intros l g i a. rewrite vs_decode_list, fold_right_app. cbn [fold_right]. unfold dstep at 2. cbn [fst snd].
    destruct (vs_decode psh g (i mod vs_numel psh g) a) as [a1|]; [reflexivity|]. now apply fold_dstep_none.
  Qed.

  Lemma asg_get_cons : forall k i a k0, asg_get ((k, i) :: a) k0 = if Nat.eqb k k0 then Some i else asg_get a k0.
  Proof. reflexivity. Qed.

  Lemma decode_ok : forall v, vs_in_range np v = true -> dec_spec v.
  Proof.
    induction v as [z|l IH|b t a0 IH] using vspec_ind'; intro Hr.
    - (* an integer names a physical axis *)
      cbn [vs_in_range] in Hr. pose proof (vs_axis_lt _ _ Hr) as Hk. fold np in Hk.
      intros i a Hi. cbn [vs_numel] in Hi. cbn [vs_decode vs_eval vs_axes]. fold np.
      set (k := vs_axis np z) in *.
      destruct (asg_get a k) as [x|] eqn:Ek.
      + destruct (Nat.eqb x i) eqn:Ex.
        * apply Nat.eqb_eq in Ex. subst x. split.
          -- intros a' Ha. inversion Ha; subst a'. repeat split.
             ++ assumption.
             ++ now apply H.
             ++ tauto.
             ++ intros [H|[<-|[]]]; [assumption|]. unfold dom. congruence.
             ++ tauto.
          -- intros f _ Ha _. exists a. now split.
        * apply Nat.eqb_neq in Ex. split; [discriminate|]. intros f _ Ha He. specialize (Ha k x Ek). congruence.
      + split.
        * intros a' Ha. inversion Ha; subst a'. repeat split.
          -- intros k0 x H0. apply H. rewrite asg_get_cons. destruct (Nat.eqb k k0) eqn:E; [|assumption].
             apply Nat.eqb_eq in E. subst. congruence.
          -- apply H. rewrite asg_get_cons. now rewrite Nat.eqb_refl.
          -- unfold dom. rewrite asg_get_cons. destruct (Nat.eqb k k0) eqn:E.
             ++ apply Nat.eqb_eq in E. intros _. right. now left.
             ++ tauto.
          -- unfold dom. rewrite asg_get_cons. destruct (Nat.eqb k k0) eqn:E.
             ++ discriminate.
             ++ intros [H|[H|[]]]; [assumption|]. apply Nat.eqb_neq in E. contradiction.
          -- intros k0 x. rewrite asg_get_cons. destruct (Nat.eqb k k0) eqn:E; [|tauto].
             apply Nat.eqb_eq in E. subst k0. intro H. inversion H; subst. right. split; assumption.
        * intros f _ Ha He. eexists. split; [reflexivity|]. intros k0 x. rewrite asg_get_cons.
          destruct (Nat.eqb k k0) eqn:E; [|apply Ha]. apply Nat.eqb_eq in E. subst k0. intro H. inversion H as [Hx]. rewrite <- Hx. exact He.
    - (* a list is a mixed-radix number *)
      cbn [vs_in_range] in Hr. rewrite forallb_forall in Hr.
      assert (Forall dec_spec l /\ Forall (fun g => vs_in_range np g = true) l) as [Hl Hrl].
      { split; apply Forall_forall; intros g Hg; [|now apply Hr]. rewrite Forall_forall in IH. apply IH; [assumption|now apply Hr]. }
      clear IH Hr. induction l as [|g l IHl] using rev_ind.
      + intros i a Hi. cbn in Hi. assert (i = 0) by lia. subst i. cbn. split.
        * intros a' Ha. inversion Ha; subst. repeat split; tauto.
        * intros f _ Ha _. exists a. now split.
      + apply Forall_app in Hl as [Hl Hg]. apply Forall_app in Hrl as [Hrl Hrg].
        inversion Hg as [|? ? Hg' _]; subst. inversion Hrg as [|? ? Hrg' _]; subst.
        specialize (IHl Hl Hrl).
        intros i a Hi. change (vs_numel psh (VList (l ++ [g]))) with (vprod (l ++ [g])) in Hi.
        rewrite vprod_app in Hi. unfold vprod at 2 in Hi. cbn [fold_right] in Hi. rewrite Nat.mul_1_r in Hi.
        set (n := vs_numel psh g) in *.
        assert (n <> 0) as Hn by (intro E; rewrite E in Hi; lia).
        assert (i mod n < n) as Hmod by (now apply Nat.mod_upper_bound).
        assert (i / n < vprod l) as Hdiv by (apply Nat.div_lt_upper_bound; [assumption|lia]).
        pose proof (Nat.div_mod i n Hn) as Hdm.
        rewrite decode_snoc. fold n.
        assert (forall k, In k (vs_axes np (VList (l ++ [g]))) <-> In k (vs_axes np (VList l)) \/ In k (vs_axes np g)) as Haxes.
        { intro k. cbn [vs_axes]. rewrite flat_map_app, in_app_iff. cbn [flat_map]. now rewrite app_nil_r. }
        split.
        * intros a' Ha. destruct (vs_decode psh g (i mod n) a) as [a1|] eqn:E1; [|discriminate].
          destruct (Hg' (i mod n) a Hmod) as [HgS _]. destruct (HgS a1 E1) as [HgS1 [HgS2 HgS3]].
          destruct (IHl (i / n) a1 Hdiv) as [HlS _]. destruct (HlS a' Ha) as [HlS1 [HlS2 HlS3]].
          repeat split.
          -- apply HgS1. now apply HlS1.
          -- rewrite vs_eval_snoc. fold n. destruct (HlS1 f H) as [Ha1 ->]. destruct (HgS1 f Ha1) as [_ ->]. lia.
          -- intro H. rewrite Haxes. apply HlS2 in H as [H|H]; [apply HgS2 in H|]; tauto.
          -- intro H. rewrite Haxes in H. apply HlS2. rewrite HgS2. tauto.
          -- intros k x H. apply HlS3 in H as [H|H]; [apply HgS3 in H|]; tauto.
        * intros f Hf Ha He. rewrite vs_eval_snoc in He. fold n in He.
          assert (vs_eval psh f g < n) as Hlt by (now apply vs_eval_lt).
          assert (n * (i / n) + i mod n = n * vs_eval psh f (VList l) + vs_eval psh f g) as Heq by lia.
          destruct (Nat.div_mod_unique n _ _ _ _ Hmod Hlt Heq) as [Eq Er].
          destruct (Hg' (i mod n) a Hmod) as [_ HgC]. destruct (HgC f Hf Ha (eq_sym Er)) as [a1 [E1 Ha1]].
          rewrite E1. destruct (IHl (i / n) a1 Hdiv) as [_ HlC]. now apply (HlC f Hf Ha1).
    - (* a dict embeds its term *)
      cbn [vs_in_range] in Hr. specialize (IH Hr).
      intros i a Hi. cbn [vs_numel] in Hi. cbn [vs_decode vs_eval vs_axes].
      destruct ((i <? b) || (b + vs_numel psh t <=? i)) eqn:Ec.
      + split; [discriminate|]. intros f Hf Ha He.
        pose proof (vs_eval_lt psh f t Hf Hr) as Hlt.
        apply orb_true_iff in Ec as [Ec|Ec]; [apply Nat.ltb_lt in Ec|apply Nat.leb_le in Ec]; lia.
      + apply orb_false_iff in Ec as [E1 E2]. apply Nat.ltb_ge in E1. apply Nat.leb_gt in E2.
        destruct (IH (i - b) a) as [HS HC]; [lia|]. split.
        * intros a' Ha. destruct (HS a' Ha) as [H1 [H2 H3]]. repeat split; try assumption.
          -- now apply H1.
          -- destruct (H1 f H) as [_ ->]. lia.
          -- apply H2.
          -- apply H2.
        * intros f Hf Ha He. apply (HC f Hf Ha). lia.
  Qed.

  (** all dimensions *)
  Lemma decode_all_ok : forall vs idx a,
    Forall (fun v => vs_in_range np v = true) vs -> in_bounds idx (map (vs_numel psh) vs) ->
    (forall a', decode_all psh vs idx a = Some a' ->
       (forall f, agrees f a' -> agrees f a /\ map (vs_eval psh f) vs = idx) /\
       (forall k, dom a' k <-> dom a k \/ In k (flat_map (vs_axes np) vs)) /\
       (forall k x, asg_get a' k = Some x -> asg_get a k = Some x \/ (k < np /\ x < nth k psh 0))) /\
    (forall f, in_range psh f -> agrees f a -> map (vs_eval psh f) vs = idx ->
       exists a', decode_all psh vs idx a = Some a' /\ agrees f a').
  Proof.
    induction vs as [|v vs IH]; intros idx a Hr Hb.
    - inversion Hb; subst. cbn. split.
      + intros a' Ha. inversion Ha; subst. repeat split; tauto.
      + intros f _ Ha _. exists a. now split.
    - inversion Hr as [|? ? Hv Hr']; subst. cbn [map] in Hb. inversion Hb as [|i idx' n sh Hi Hb']; subst.
      destruct (decode_ok v Hv i a Hi) as [HvS HvC]. cbn [decode_all flat_map]. split.
      + intros a' Ha. destruct (vs_decode psh v i a) as [a1|] eqn:E1; [|discriminate].
        destruct (HvS a1 eq_refl) as [H1 [H2 H3]].
        destruct (IH idx' a1 Hr' Hb') as [HS _]. destruct (HS a' Ha) as [G1 [G2 G3]]. repeat split.
        * apply H1. now apply G1.
        * cbn [map]. destruct (G1 f H) as [Ha1 ->]. destruct (H1 f Ha1) as [_ ->]. reflexivity.
        * intro H. rewrite in_app_iff. apply G2 in H as [H|H]; [apply H2 in H|]; tauto.
        * intro H. rewrite in_app_iff in H. apply G2. rewrite H2. tauto.
        * intros k x H. apply G3 in H as [H|H]; [apply H3 in H|]; tauto.
      + intros f Hf Ha He. cbn [map] in He. inversion He; subst.
        destruct (HvC f Hf Ha eq_refl) as [a1 [E1 Ha1]]. rewrite E1.
        destruct (IH (map (vs_eval psh f) vs) a1 Hr' Hb') as [_ HC]. now apply (HC f Hf Ha1).
  Qed.
End Decode.

Lemma vs_evals_in_bounds : forall psh f l, in_range psh f ->
  Forall (fun v => vs_in_range (length psh) v = true) l ->
  in_bounds (map (vs_eval psh f) l) (map (vs_numel psh) l).
Proof.
  intros psh f l Hf H. induction H as [|v l Hv _ IH]; cbn; [constructor|].
  constructor; [now apply vs_eval_lt|assumption].
Qed.

Lemma in_bounds_skipn : forall ex shape p, in_bounds p (ex ++ shape) -> in_bounds (skipn (length ex) p) shape.
Proof.
  induction ex as [|n ex IH]; intros shape p H; [exact H|]. inversion H; subst. cbn. now apply IH.
Qed.

(** * the physical index a successful decoding stands for *)
Definition pstar (psh : list nat) (a : asg) : list nat :=
  map (fun k => match asg_get a k with Some x => x | None => 0 end) (seq 0 (length psh)).

Lemma nth_error_seq' : forall n s k, k < n -> nth_error (seq s n) k = Some (s + k).
Proof.
  induction n as [|n IH]; intros s k H; [lia|]. cbn [seq]. destruct k as [|k]; cbn [nth_error].
  - now rewrite Nat.add_0_r.
  - rewrite IH by lia. f_equal. lia.
Qed.

Lemma nthp_pstar : forall psh a k, k < length psh ->
  nthp (pstar psh a) k = match asg_get a k with Some x => x | None => 0 end.
Proof.
  intros psh a k H. unfold nthp, pstar. apply nth_error_nth.
  rewrite (map_nth_error _ k (seq 0 (length psh)) (nth_error_seq' _ 0 k H)). reflexivity.
Qed.

Lemma in_bounds_of_nth : forall sh p, length p = length sh ->
  (forall k, k < length sh -> nth k p 0 < nth k sh 0) -> in_bounds p sh.
Proof.
  induction sh as [|n sh IH]; intros [|i p] Hl H; cbn in Hl; try discriminate; [constructor|].
  constructor.
  - apply (H 0). cbn. lia.
  - apply IH; [lia|]. intros k Hk. apply (H (S k)). cbn. lia.
Qed.

Lemma forallb_combine_seq : forall (P : nat * nat -> bool) l s,
  forallb P (combine (seq s (length l)) l) = true -> forall k, k < length l -> P (s + k, nth k l 0) = true.
Proof.
  intros P. induction l as [|n l IH]; intros s H k Hk; cbn in Hk; [lia|]. cbn [length seq combine forallb] in H.
  apply andb_true_iff in H as [H0 H]. destruct k as [|k]; cbn [nth].
  - now rewrite Nat.add_0_r.
  - replace (s + S k) with (S s + k) by lia. apply IH; [assumption|lia].
Qed.

Lemma forallb_combine_seq_intro : forall (P : nat * nat -> bool) l s,
  (forall k, k < length l -> P (s + k, nth k l 0) = true) -> forallb P (combine (seq s (length l)) l) = true.
Proof.
  intros P. induction l as [|n l IH]; intros s H; [reflexivity|]. cbn [length seq combine forallb].
  apply andb_true_iff. split.
  - specialize (H 0). cbn in H. rewrite Nat.add_0_r in H. apply H. lia.
  - apply IH. intros k Hk. replace (S s + k) with (s + S k) by lia. apply (H (S k)). cbn. lia.
Qed.

Lemma existsb_eqb_In : forall k l, existsb (Nat.eqb k) l = true <-> In k l.
Proof.
  intros k l. rewrite existsb_exists. split.
  - intros [x [Hx E]]. apply Nat.eqb_eq in E. now subst.
  - intro H. exists k. split; [assumption|apply Nat.eqb_refl].
Qed.

Lemma vs_axes_lt : forall np v k, vs_in_range np v = true -> In k (vs_axes np v) -> k < np.
Proof.
  intros np. induction v as [z|l IH|b t a IH] using vspec_ind'; intros k Hr Hin.
  - cbn in *. destruct Hin as [<-|[]]. now apply vs_axis_lt.
  - cbn in *. rewrite forallb_forall in Hr. apply in_flat_map in Hin as [g [Hg Hk]].
    rewrite Forall_forall in IH. apply (IH g Hg k); [now apply Hr|assumption].
  - cbn in *. now apply IH.
Qed.

Lemma cstrides_length : forall sh, length (cstrides sh) = length sh.
Proof. induction sh; cbn; [reflexivity|]. now f_equal. Qed.

(** * C14_patterned_weights *)
Section Spec.
  Variable s : wspec.
  Hypothesis Hwf : wf_wspec s = true.
  Let psh := ws_pshape s.
  Let np := length psh.
  Let vs := ws_vaxes_eff s.

  Lemma wf_parts :
    (exists shape, tens_shape (ws_phys s) = Some shape /\ psh = ws_expand s ++ shape) /\
    Forall (fun v => vs_in_range np v = true) vs /\
    (forall k, k < np -> In k (flat_map (vs_axes np) vs) \/ nth k psh 0 = 1).
  Proof.
    unfold wf_wspec in Hwf. unfold psh, np, vs, ws_pshape in *.
    destruct (tens_shape (ws_phys s)) as [shape|] eqn:Es; [|discriminate].
    apply andb_true_iff in Hwf as [H1 H2]. split; [exists shape; now split|]. split.
    - apply Forall_forall. rewrite forallb_forall in H1. exact H1.
    - intros k Hk. pose proof (forallb_combine_seq _ _ 0 H2 k Hk) as H. cbn [fst snd Nat.add] in H.
      apply orb_true_iff in H as [H|H]; [left; now apply existsb_eqb_In|right; now apply Nat.eqb_eq].
  Qed.

  Lemma spec_pt_shape : pt_shape (spec_pt s) = spec_shape s.
  Proof.
    unfold pt_shape, spec_pt, spec_shape. cbn [pt_vaxes]. rewrite map_map. apply map_ext. apply vs_to_axis_numel.
  Qed.

  Lemma spec_pt_evals : forall p, evals (spec_pt s) p = map (vs_eval psh (nthp p)) vs.
  Proof.
    intro p. unfold evals, spec_pt. cbn [pt_vaxes]. rewrite map_map. apply map_ext. intro v. apply vs_to_axis_eval.
  Qed.

  Lemma spec_pt_axes : forall k, In k (flat_map ax_axes (pt_vaxes (spec_pt s))) <-> In k (flat_map (vs_axes np) vs).
  Proof.
    intro k. unfold spec_pt. cbn [pt_vaxes]. fold psh. fold vs. induction vs as [|v l IH]; [reflexivity|].
    cbn [map flat_map]. rewrite !in_app_iff, IH. now rewrite vs_to_axis_axes.
  Qed.

  Lemma spec_pt_scoped : axes_scoped (spec_pt s).
  Proof.
    destruct wf_parts as [_ [Hr _]].
    intros e He p Hp. unfold spec_pt in He, Hp. cbn [pt_vaxes pt_pshape] in He, Hp.
    apply in_map_iff in He as [v [<- Hv]]. apply vs_to_axis_ok.
    - now apply in_bounds_nth.
    - rewrite Forall_forall in Hr. now apply Hr.
  Qed.

  Lemma spec_pt_dense_ok : exists t, pt_to_dense (spec_pt s) = Ok t.
  Proof.
    destruct wf_parts as [_ [Hr Hused]].
    unfold pt_to_dense.
    match goal with |- context [negb ?c] => assert (c = true) as Hc end.
    { assert (forall k, In k (map fst (snd (project_strides (pt_vaxes (spec_pt s)) (cstrides (pt_shape (spec_pt s))))))
                        <-> In k (flat_map (vs_axes np) vs)) as Hkeys.
      { intro k. rewrite project_strides_keys; [apply spec_pt_axes|].
        rewrite cstrides_length. unfold pt_shape. now rewrite map_length. }
      apply andb_true_iff. split.
      - unfold spec_pt at 1 2. cbn [pt_pshape]. fold psh. apply forallb_combine_seq_intro. intros k Hk. cbn [fst snd Nat.add].
        apply orb_true_iff. destruct (Hused k Hk) as [H|H].
        + left. apply existsb_eqb_In. now apply Hkeys.
        + right. now apply Nat.eqb_eq.
      - apply forallb_forall. intros k Hk. apply Nat.ltb_lt. apply Hkeys in Hk.
        apply in_flat_map in Hk as [v [Hv Hk]]. unfold spec_pt. cbn [pt_pshape]. fold psh. fold np.
        rewrite Forall_forall in Hr. eapply vs_axes_lt; [apply Hr; exact Hv|exact Hk]. }
    rewrite Hc. cbn [negb]. eexists. reflexivity.
  Qed.

  (** decoding from the empty assignment *)
  Lemma decoded_facts : forall idx a, in_bounds idx (spec_shape s) -> decode_all psh vs idx [] = Some a ->
    in_bounds (pstar psh a) psh /\ agrees (nthp (pstar psh a)) a /\
    (forall f, agrees f a -> map (vs_eval psh f) vs = idx) /\
    (forall k, k < np -> asg_get a k = None -> nth k psh 0 = 1).
  Proof.
    intros idx a Hidx Ha. destruct wf_parts as [_ [Hr Hused]].
    destruct (decode_all_ok psh vs idx [] Hr Hidx) as [HS _]. destruct (HS a Ha) as [H1 [H2 H3]].
    assert (forall k, k < np -> asg_get a k = None -> nth k psh 0 = 1) as Hone.
    { intros k Hk Hn. destruct (Hused k Hk) as [H|H]; [|assumption].
      exfalso. assert (dom a k) as Hd by (apply H2; now right). now apply Hd. }
    assert (forall k x, asg_get a k = Some x -> k < np /\ x < nth k psh 0) as Hval.
    { intros k x H. apply H3 in H as [H|H]; [discriminate|assumption]. }
    repeat split.
    - apply in_bounds_of_nth.
      + unfold pstar. now rewrite map_length, seq_length.
      + intros k Hk. change (nth k (pstar psh a) 0) with (nthp (pstar psh a) k). rewrite nthp_pstar by assumption.
        destruct (asg_get a k) as [x|] eqn:E; [now apply Hval|]. rewrite (Hone k Hk E). lia.
    - intros k x H. destruct (Hval k x H) as [Hk _]. rewrite nthp_pstar by assumption. now rewrite H.
    - intros f Hf. now apply H1.
    - exact Hone.
  Qed.

  (** a physical index in range is determined by the virtual index it is mapped to *)
  Lemma evals_injective : forall p p', in_bounds p psh -> in_bounds p' psh ->
    map (vs_eval psh (nthp p)) vs = map (vs_eval psh (nthp p')) vs -> p = p'.
  Proof.
    intros p p' Hp Hp' E. destruct wf_parts as [_ [Hr Hused]].
    set (idx := map (vs_eval psh (nthp p)) vs).
    assert (in_bounds idx (map (vs_numel psh) vs)) as Hidx.
    { unfold idx. apply vs_evals_in_bounds; [now apply in_bounds_nth|exact Hr]. }
    destruct (decode_all_ok psh vs idx [] Hr Hidx) as [HS HC].
    destruct (HC (nthp p) (in_bounds_nth _ _ Hp)) as [a [Ha Hag]]; [intros k x H; discriminate|reflexivity|].
    destruct (HC (nthp p') (in_bounds_nth _ _ Hp')) as [a2 [Ha2 Hag']]; [intros k x H; discriminate|now symmetry|].
    rewrite Ha in Ha2. inversion Ha2; subst a2.
    destruct (HS a Ha) as [_ [H2 _]].
    apply (nth_ext p p' 0 0).
    - rewrite (in_bounds_length _ _ Hp), (in_bounds_length _ _ Hp'). reflexivity.
    - intros k Hk. rewrite (in_bounds_length _ _ Hp) in Hk. fold np in Hk.
      destruct (asg_get a k) as [x|] eqn:Ek.
      + change (nthp p k = nthp p' k). now rewrite (Hag k x Ek), (Hag' k x Ek).
      + assert (nth k psh 0 = 1) as H1.
        { destruct (Hused k Hk) as [H|H]; [|assumption]. exfalso.
          assert (dom a k) as Hd by (apply H2; now right). now apply Hd. }
        pose proof (in_bounds_nth _ _ Hp k Hk) as B1. pose proof (in_bounds_nth _ _ Hp' k Hk) as B2.
        unfold nthp in *. lia.
  Qed.

  Theorem patterned_weights :
    exists pt t,
      json_to_weights_model (wspec_to_json s) = Ok pt /\
      pt_to_dense pt = Ok t /\
      forall idx, in_bounds idx (spec_shape s) -> tens_get t idx = spec_denote s idx.
  Proof.
    destruct spec_pt_dense_ok as [t Ht]. exists (spec_pt s), t.
    split; [now apply json_to_weights_spec|]. split; [exact Ht|].
    intros idx Hidx. destruct wf_parts as [[shape [Hshape Hpsh]] [Hr Hused]].
    assert (in_bounds idx (pt_shape (spec_pt s))) as Hidx' by (now rewrite spec_pt_shape).
    destruct (dense_spec (spec_pt s) t Ht spec_pt_scoped) with (idx := idx) as [Hhit Hmiss].
    { intros p p' Hp Hp' E. rewrite !spec_pt_evals in E.
      now rewrite (evals_injective p p' Hp Hp' E). }
    { exact Hidx'. }
    unfold spec_denote. fold psh. fold vs.
    destruct (decode_all psh vs idx []) as [a|] eqn:Ed.
    - destruct (decoded_facts idx a Hidx Ed) as [Hb [Hag [Hev _]]].
      change (map (fun k => match asg_get a k with Some x => x | None => 0 end) (seq 0 (length psh))) with (pstar psh a).
      assert (exists v, tens_get (ws_phys s) (skipn (length (ws_expand s)) (pstar psh a)) = Some v) as [v Hv].
      { apply (tens_get_in_bounds _ shape); [assumption|].
        apply in_bounds_skipn. rewrite <- Hpsh. exact Hb. }
      rewrite Hv. apply (Hhit (pstar psh a) v).
      + exact Hb.
      + rewrite spec_pt_evals. now apply Hev.
      + exact Hv.
    - apply Hmiss. intros p Hp E. rewrite spec_pt_evals in E.
      destruct (decode_all_ok psh vs idx [] Hr Hidx) as [_ HC].
      destruct (HC (nthp p) (in_bounds_nth _ _ Hp)) as [a [Ha _]]; [intros k x H; discriminate|exact E|].
      fold np in Ha. congruence.
  Qed.
End Spec.

(** the hypothesis is satisfiable: a 2x3 physical matrix read as a 3x(1+2+1) tensor whose second
    axis embeds physical axis 0 and whose first axis is physical axis 1 named from the end *)
Example patterned_weights_ex :
  wf_wspec (mkWS (TL [TL [TS (NFin (QArith_base.inject_Z 1)); TS (NFin (QArith_base.inject_Z 2)); TS NPInf]; TL [TS (NFin (QArith_base.inject_Z 4)); TS (NFin (QArith_base.inject_Z 5)); TS (NFin (QArith_base.inject_Z 6))]])
                 [] (Some [VInt (-1); VDict 1 (VInt 0) 1]) (NFin (QArith_base.inject_Z 0))) = true.
Proof. reflexivity. Qed.

(** ... and a specification without "vaxes": the 2x3 matrix broadcast along a leading axis of size 2 *)
Example patterned_weights_ex_no_vaxes :
  let s := mkWS (TL [TL [TS (NFin (QArith_base.inject_Z 1)); TS (NFin (QArith_base.inject_Z 2)); TS NPInf];
                     TL [TS (NFin (QArith_base.inject_Z 4)); TS (NFin (QArith_base.inject_Z 5)); TS (NFin (QArith_base.inject_Z 6))]])
                [2] None NNInf in
  wf_wspec s = true /\ spec_shape s = [2; 2; 3] /\ spec_denote s [1; 0; 2] = Some NPInf.
Proof. repeat split; reflexivity. Qed.
