(** C07: the oracles of the check functions are sound.  [dspec] (brute force: the in-range
    environment that evaluates to the index) is the denotation; hence a case accepted by
    [spec_verdict] has the shape and, cell by cell, the values of the dense specification applied
    to the operands' denotations; [argmax_ok] means what it says. *)
From Coq Require Import List Arith Bool PeanoNat Lia PArith.
Import ListNotations.
Require Import Fggs.Model.Semiring Fggs.Model.SumProduct.
Require Import Fggs.Proofs.BigSum Fggs.Proofs.SP_trees.
Require Import Fggs.Model.Axis Fggs.Model.PTensor Fggs.Model.AxisCheck Fggs.Model.Einsum Fggs.Model.EinsumCheck.
Require Import Fggs.Proofs.Axis_sem Fggs.Proofs.PTensor_sem Fggs.Proofs.PTensor_dense Fggs.Proofs.PTensor_gen.
Require Import Fggs.Proofs.Einsum_dense Fggs.Proofs.Einsum_envs Fggs.Proofs.Einsum_support.

Section Oracle.
Context {R WO : Type} (o : sr_ops R) (okw : R -> WO -> bool).
Notation ptensor := (ptensor R).

Theorem dspec_denote (t : ptensor) idx : wf R t -> length idx = length (vaxes t) -> dspec t idx = denote R t idx.
Proof.
  intros W L. unfold dspec.
  destruct (denote_cases R t idx (wf_covers R t W) L) as [(rho & Rr & E & Dn)|[N Dn]].
  - rewrite Dn.
    assert (Hin : In (restrict rho (paxes t)) (all_envs (paxes t))).
    { apply all_envs_complete. intros k n Hk. apply (wf_fv R t W) in Hk. apply in_flat_map in Hk.
      destruct Hk as (e & He & Hk). rewrite Forall_forall in Rr. exact (proj2 (inrange_fvn rho e) (Rr e He) k n Hk). }
    assert (Hev : evals (env_of (restrict rho (paxes t))) (vaxes t) = idx).
    { rewrite <- E. apply evals_ext. intros k Hk. apply restrict_env. apply wf_keys_fv; assumption. }
    destruct (find _ (all_envs (paxes t))) as [p|] eqn:Ef.
    + apply find_some in Ef. destruct Ef as [Hp Ep]. apply leqb_eq in Ep.
      unfold pget. f_equal. apply pcoords_ext. intros k Hk.
      apply (pattern_injective (vaxes t)); [exact (wf_inrange R t p W Hp)|exact Rr| |exact (wf_covers R t W k Hk)].
      unfold evals in *. congruence.
    + exfalso. pose proof (find_none _ _ Ef _ Hin) as X. cbv beta in X. rewrite (proj2 (leqb_eq _ _) Hev) in X. discriminate.
  - rewrite Dn. destruct (find _ (all_envs (paxes t))) as [p|] eqn:Ef; [|reflexivity].
    apply find_some in Ef. destruct Ef as [Hp Ep]. apply leqb_eq in Ep.
    exfalso. exact (N (env_of p) (wf_inrange R t p W Hp) Ep).
Qed.

(** the specification only queries an operand at index tuples of the length of its index list *)
Lemma einsum_dense_ext_len (ops ops' : list (operand (R:=R))) inputs output oidx :
  map fst ops = map fst ops' ->
  (forall j idx, j < length ops -> length idx = length (nth j inputs []) ->
     snd (nth j ops ([], fun _ => Semiring.zero o)) idx = snd (nth j ops' ([], fun _ => Semiring.zero o)) idx) ->
  einsum_dense o ops inputs output oidx = einsum_dense o ops' inputs output oidx.
Proof.
  intros Hs Hf. unfold einsum_dense. rewrite Hs. destruct (out_consistent output oidx); [|reflexivity].
  cbv zeta. apply (sumS_ext o). intros sv _. unfold einsum_term.
  assert (Hl : length ops = length ops') by (apply (f_equal (@length _)) in Hs; rewrite !map_length in Hs; exact Hs).
  clear Hs. generalize (combine output oidx ++ combine (summed_labels inputs output) sv). intros env.
  revert ops' inputs Hf Hl. induction ops as [|op ops IH]; intros [|op' ops'] inputs Hf Hl; try discriminate; [reflexivity|].
  destruct inputs as [|inp inputs]; [reflexivity|].
  cbn [combine]. rewrite !(prodS_cons o). f_equal.
  - cbn [fst snd]. apply (Hf 0 _ (Nat.lt_0_succ _)). simpl. apply map_length.
  - apply IH; [|simpl in Hl; lia]. intros j idx Hj Hlen. apply (Hf (S j) idx); [simpl; lia|exact Hlen].
Qed.

Theorem spec_dense_is_denotation (ts : list ptensor) inputs output oidx :
  Forall (wf R) ts -> Forall2 (fun t inp => length (vaxes t) = length inp) ts inputs ->
  einsum_dense o (map spec_operand ts) inputs output oidx = einsum_dense o (map (dn (R:=R)) ts) inputs output oidx.
Proof.
  intros HW HF. apply einsum_dense_ext_len; [rewrite !map_map; reflexivity|].
  intros j idx Hj Hlen. rewrite map_length in Hj.
  rewrite (nth_indep (map spec_operand ts) _ (spec_operand (mkPT (fun _ => Semiring.zero o) [] [] (Semiring.zero o)))) by (rewrite map_length; exact Hj).
  rewrite (nth_indep (map (dn (R:=R)) ts) _ (dn (mkPT (fun _ => Semiring.zero o) [] [] (Semiring.zero o)))) by (rewrite map_length; exact Hj).
  rewrite !map_nth. cbn [spec_operand dn snd].
  set (t := nth j ts _).
  assert (Ht : In t ts) by (apply nth_In; exact Hj).
  rewrite Forall_forall in HW. apply dspec_denote; [apply HW; exact Ht|].
  rewrite Hlen. symmetry. clear -HF Hj. subst t. revert j Hj. induction HF as [|t0 inp ts0 inputs0 E _ IH]; intros j Hj; [simpl in Hj; lia|].
  destruct j as [|j]; [exact E|]. simpl. apply IH. simpl in Hj. lia.
Qed.

(** what verdict 0 of the specification oracle means *)
Theorem spec_verdict_sound (ts : list ptensor) inputs output i_shp (i_vals : list WO) :
  Forall (wf R) ts -> Forall2 (fun t inp => length (vaxes t) = length inp) ts inputs ->
  spec_verdict o okw (map spec_operand ts) inputs output (0, i_shp, i_vals) = 0 ->
  i_shp = einsum_shape (map (dn (R:=R)) ts) inputs output /\
  Forall2 (fun x w => okw x w = true) (map (einsum_dense o (map (dn (R:=R)) ts) inputs output) (all_assts i_shp)) i_vals.
Proof.
  intros HW HF H. unfold spec_verdict in H.
  assert (Es : einsum_shape (map spec_operand ts) inputs output = einsum_shape (map (dn (R:=R)) ts) inputs output).
  { unfold einsum_shape. rewrite !map_map. reflexivity. }
  destruct (leqb (einsum_shape (map spec_operand ts) inputs output) i_shp) eqn:E1; [|discriminate]. cbn [negb] in H.
  apply leqb_eq in E1. rewrite Es in E1. split; [symmetry; exact E1|].
  destruct (first_bad _ _ _) eqn:E2; [discriminate|]. unfold first_bad in E2. apply negb_false_iff, andb_true_iff in E2.
  destruct E2 as [EL EA]. apply Nat.eqb_eq in EL. rewrite Es, E1 in EL, EA.
  rewrite (map_ext _ (einsum_dense o (map (dn (R:=R)) ts) inputs output)) in EL, EA
    by (intros a; apply spec_dense_is_denotation; assumption).
  revert EL EA. generalize (map (einsum_dense o (map (dn (R:=R)) ts) inputs output) (all_assts i_shp)). intros l.
  revert i_vals. induction l as [|x l IH]; intros [|w ws] EL EA; try discriminate; constructor.
  - simpl in EA. apply andb_true_iff in EA. tauto.
  - apply IH; [simpl in EL; lia|]. simpl in EA. apply andb_true_iff in EA. tauto.
Qed.

(** what the pointer oracle means *)
Theorem argmax_ok_sound (veqb : R -> R -> bool) ops inputs output oidx vp value :
  argmax_ok o veqb ops inputs output oidx vp value = true ->
  let sizes := map (lval (label_sizes (map fst ops) inputs)) (summed_labels inputs output) in
  (forall n, In n sizes -> n <> 0) -> out_consistent output oidx = true ->
  In vp (all_assts sizes) /\
  veqb (einsum_term o ops inputs (combine output oidx ++ combine (summed_labels inputs output) vp)) value = true.
Proof.
  intros H sizes Hnz OC. unfold argmax_ok in H. fold sizes in H. rewrite OC in H. cbn [negb orb] in H.
  destruct (existsb (Nat.eqb 0) sizes) eqn:Ez.
  - exfalso. apply existsb_exists in Ez. destruct Ez as (n & Hn & En). apply Nat.eqb_eq in En. subst. exact (Hnz 0 Hn eq_refl).
  - cbn [orb] in H. apply andb_true_iff in H. destruct H as [H Hv]. apply andb_true_iff in H. destruct H as [HL HR].
    split; [|exact Hv]. apply in_all_assts.
    assert (HL' : length vp = length sizes) by (unfold sizes; rewrite map_length; apply Nat.eqb_eq; exact HL).
    clear -HL' HR. clearbody sizes. revert vp HL' HR. induction sizes as [|n l IH]; intros [|v vp] HL HR; try discriminate; constructor.
    + simpl in HR. apply andb_true_iff in HR. destruct HR as [HR _]. apply Nat.ltb_lt in HR. exact HR.
    + apply IH; [simpl in HL; lia|]. simpl in HR. apply andb_true_iff in HR. tauto.
Qed.
End Oracle.
