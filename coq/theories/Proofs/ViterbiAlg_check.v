(** C04, code-shaped model: (1) an order of components accepted by the verified oracle
    [scc_ok] of C19 on the nonterminal graph is a valid order for [viterbi_tables]
    ([order_ok]: dependency order, every nonterminal exactly once); (2) soundness of
    [vit_alg_check]: verdict 0 (the implementation's derivation is the model's) or 32 (they
    differ by tie-breaking only) means that the implementation's derivation is well formed, has
    finite weight equal to the value of the model's start cell, and that no derivation of the
    start symbol at that assignment weighs more. *)
From Coq Require Import QArith Qcanon List Arith Bool PeanoNat Lia.
Import ListNotations.
Require Import Fggs.Model.Semiring Fggs.Model.SCC Fggs.Model.SumProduct Fggs.Model.SumProductCheck
               Fggs.Model.Kleene Fggs.Model.EReal Fggs.Model.Trop Fggs.Model.Viterbi Fggs.Model.ViterbiAlg.
Require Import Fggs.Proofs.SCC_ntgraph Fggs.Proofs.BigSum Fggs.Proofs.SP_mono Fggs.Proofs.SP_trees Fggs.Proofs.SP_nonrec
               Fggs.Proofs.SP_rename Fggs.Proofs.SP_scc_glue Fggs.Proofs.Kleene_proofs Fggs.Proofs.Kleene_scc
               Fggs.Proofs.Viterbi_trop Fggs.Proofs.Viterbi_proofs Fggs.Proofs.ViterbiAlg_base
               Fggs.Proofs.ViterbiAlg_loop Fggs.Proofs.ViterbiAlg_recon Fggs.Proofs.ViterbiAlg_opt.
Local Open Scope nat_scope.

(* ------------------------------------------------------------------------- *)
(** * [scc_ok] gives a valid order *)
Lemma ordered_ok_cons g c rest :
  ordered_ok g (c :: rest) = true ->
  ordered_ok g rest = true /\ forall u v, In u c -> In v (concat rest) -> ~ In v (succs g u).
Proof.
  cbn [ordered_ok]. rewrite andb_true_iff. intros [H Hrest]. split; [exact Hrest|].
  intros u v Hu Hv Hs. apply in_concat in Hv. destruct Hv as (d & Hd & Hvd).
  rewrite forallb_forall in H. specialize (H u Hu). rewrite forallb_forall in H. specialize (H d Hd).
  rewrite forallb_forall in H. specialize (H v Hvd).
  apply andb_true_iff in H. destruct H as [_ H]. apply negb_true_iff in H.
  apply SP_rename.not_mem_In in H. apply H. exact Hs.
Qed.

Lemma dep_ordered_from_ordered G : forall order done,
  ordered_ok (nt_graph G) order = true ->
  (forall X, In X (concat order) -> In X (nonterminals G)) ->
  (forall X Y, In X (concat order) -> In Y (deps G X) -> In Y (done ++ concat order)) ->
  Kleene_scc.dep_ordered G done order.
Proof.
  induction order as [|c order IH]; intros done Hord Hnt Hdeps; [exact I|].
  apply ordered_ok_cons in Hord. destruct Hord as [Hord Hfwd].
  cbn [concat] in *. cbn [Kleene_scc.dep_ordered]. split; [|split].
  - intros n r ed Hn Hr Hed Ht.
    assert (HY : In (fst ed) (deps G n)).
    { apply in_deps. apply in_rules_of in Hr. exists r, ed. tauto. }
    specialize (Hdeps n (fst ed) (in_or_app _ _ _ (or_introl Hn)) HY).
    apply in_app_or in Hdeps. destruct Hdeps as [Hd|Hd]; [right; exact Hd|].
    apply in_app_or in Hd. destruct Hd as [Hd|Hd]; [left; exact Hd|].
    exfalso. apply (Hfwd n (fst ed) Hn Hd). apply nt_graph_edge. split; [|exact HY].
    apply Hnt. apply in_or_app. left. exact Hn.
  - intros n Hn. apply Hnt. apply in_or_app. left. exact Hn.
  - apply IH; [exact Hord | intros X HX; apply Hnt; apply in_or_app; right; exact HX |].
    intros X Y HX HY. specialize (Hdeps X Y (in_or_app _ _ _ (or_intror HX)) HY).
    rewrite <- app_assoc. exact Hdeps.
Qed.

Theorem scc_ok_order_ok G order : scc_ok (nt_graph G) order = true -> order_ok G order.
Proof.
  unfold scc_ok. rewrite !andb_true_iff, nt_graph_verts.
  intros (((((Hlen & Hnd) & Hall) & _) & _) & Hord).
  apply Nat.eqb_eq in Hlen. apply nodupb_NoDup in Hnd.
  assert (Hcover : forall X, In X (nonterminals G) -> In X (concat order)).
  { rewrite forallb_forall in Hall. intros X HX. apply SCC_ntgraph.mem_In. apply Hall. exact HX. }
  assert (Hincl : forall X, In X (concat order) -> In X (nonterminals G)).
  { apply (NoDup_length_incl (nonterminals_NoDup G)); [lia | exact Hcover]. }
  split; [|split; [exact Hnd | exact Hcover]].
  apply dep_ordered_from_ordered; [exact Hord | exact Hincl |].
  intros X Y _ HY. cbn [app]. apply Hcover. apply nonterminal_In. exact (deps_nonterminal G X Y HY).
Qed.

(* ------------------------------------------------------------------------- *)
(** * soundness of [vit_alg_check] *)
Theorem vit_alg_check_sound gw ws xi kmax tol kind t :
  let c := vit_alg_check (gw, ws, xi, (kmax, tol), (kind, t)) in
  c = 0 \/ c = 32 ->
  let G := grammar_of_w gw in
  let w := env_of trop_ops (weights_tmt trop_of G ws) in
  kind = 0 /\ wf_grammar G = true
  /\ wf_dtree G (g_start G) xi t
  /\ (exists q, weight trop_ops G w t = TFin q)
  /\ (forall t', wf_dtree G (g_start G) xi t' -> tle (weight trop_ops G w t') (weight trop_ops G w t))
  /\ exists order T tm,
       scc (nt_graph G) = Some order /\ order_ok G order
       /\ viterbi_tables G w order tol kmax = Some (T, true)
       /\ weight trop_ops G w t = tables_val T (g_start G) xi
       /\ viterbi_model G w order xi tol kmax = Some tm
       /\ wf_dtree G (g_start G) xi tm
       /\ weight trop_ops G w tm = weight trop_ops G w t.
Proof.
  intros c Hc G w. unfold c, vit_alg_check in Hc. fold G in Hc.
  destruct (wf_grammar G) eqn:Hwf; cbn [negb] in Hc; [|destruct Hc; discriminate].
  destruct (scc (nt_graph G)) as [order|] eqn:Hscc; [|destruct Hc; discriminate].
  destruct (scc_ok (nt_graph G) order) eqn:Hok; cbn [negb] in Hc; [|destruct Hc; discriminate].
  fold w in Hc.
  destruct (Nat.eqb (length xi) (length (ltype G (g_start G)))) eqn:Hlen; cbn [negb] in Hc; [|destruct Hc; discriminate].
  destruct (viterbi_tables G w order tol kmax) as [[T conv]|] eqn:HT; [|destruct Hc; discriminate].
  destruct (trop_is_fin (tables_val T (g_start G) xi)) eqn:Hfin; cbn [negb] in Hc; [|destruct Hc; discriminate].
  destruct conv; cbn [negb] in Hc; [|destruct Hc; discriminate].
  destruct (reconstruct_model G T (fuel_bound order kmax) (g_start G) xi) as [tm|] eqn:Htm; [|destruct Hc; discriminate].
  destruct (wf_dtree_b G (g_start G) xi tm && teqb (weight trop_ops G w tm) (tables_val T (g_start G) xi)) eqn:Hm;
    cbn [negb] in Hc; [|destruct Hc; discriminate].
  destruct kind as [|kind]; [|destruct Hc; discriminate].
  destruct (wf_dtree_b G (g_start G) xi t) eqn:Hwt; cbn [negb] in Hc; [|destruct Hc; discriminate].
  destruct (teqb (weight trop_ops G w t) (tables_val T (g_start G) xi)) eqn:Hw; cbn [negb] in Hc; [|destruct Hc; discriminate].
  clear Hc. apply andb_true_iff in Hm. destruct Hm as [Hwtm Hwm].
  apply wf_reflect in Hwt. apply wf_reflect in Hwtm. apply vt_teqb_iff in Hw. apply vt_teqb_iff in Hwm.
  apply vt_fin_iff in Hfin.
  pose proof (scc_ok_order_ok G order Hok) as Hord.
  destruct (tables_lfp G w Hwf order tol kmax T Hord HT) as (_ & _ & _ & Htrees).
  split; [reflexivity|]. split; [reflexivity|]. split; [exact Hwt|].
  split; [rewrite Hw; exact Hfin|].
  split; [intros t' Ht'; rewrite Hw; apply Htrees; exact Ht'|].
  exists order, T, tm. split; [reflexivity|]. split; [exact Hord|]. split; [exact HT|].
  split; [exact Hw|]. split.
  - unfold viterbi_model, viterbi_gen. fold (viterbi_tables G w order tol kmax). rewrite HT, Hlen. exact Htm.
  - split; [exact Hwtm | rewrite Hwm, Hw; reflexivity].
Qed.
