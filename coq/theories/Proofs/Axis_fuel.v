(** The fuel of the model is an artefact (the Python code simply recurses): once [unify] returns
    [Ok r] with some fuel, it returns the same [r] with any larger fuel.  Hence a theorem proved for
    "enough fuel" holds for every fuel with which the model does not answer [Fail OutOfFuel]. *)
From Coq Require Import List Arith Lia PeanoNat Bool PArith.
Import ListNotations.
Require Import Fggs.Model.Axis Fggs.Proofs.Axis_sem Fggs.Proofs.Axis_unify.

Definition M_unify (fuel : nat) : Prop :=
  forall fuel' e f st r, fuel <= fuel' -> unify fuel e f st = Ok r -> unify fuel' e f st = Ok r.
Definition M_loop (fuel : nat) : Prop :=
  forall fuel' esr fsr st r, fuel <= fuel' -> unify_loop fuel esr fsr st = Ok r -> unify_loop fuel' esr fsr st = Ok r.

Lemma leftovers_mono fuel fuel' : (forall e f st r, unify fuel e f st = Ok r -> unify fuel' e f st = Ok r) ->
  forall l st r, leftovers fuel l st = Ok r -> leftovers fuel' l st = Ok r.
Proof.
  intros IH. induction l as [|x l IHl]; intros st r H; simpl in *; [exact H|].
  destruct (unify fuel x unitAxis st) as [[b1 st1]|] eqn:E1; [|discriminate]. rewrite (IH _ _ _ _ E1).
  cbn [bind fst snd] in *. destruct b1; [apply IHl; exact H|exact H].
Qed.

Lemma unify_mono_step fuel : M_unify fuel -> M_loop fuel -> M_unify (S fuel) /\ M_loop (S fuel).
Proof.
  intros IHu IHl. split.
  - intros fuel' e0 f0 st r L H. destruct fuel' as [|fuel']; [lia|]. assert (L' : fuel <= fuel') by lia.
    cbn [unify] in *.
    destruct (lookup (lookup_fuel (us_subst st)) (us_subst st) e0) as [e|]; [|discriminate]. cbn [bind] in *.
    destruct (lookup (lookup_fuel (us_subst st)) (us_subst st) f0) as [f|]; [|discriminate]. cbn [bind] in *.
    destruct (same_object e f); [exact H|].
    set (st1 := if Nat.eqb (numel e) (numel f) then st else u_warn st) in *. clearbody st1.
    destruct e as [k1 n1|l1|b1 t1 a1]; destruct f as [k2 n2|l2|b2 t2 a2]; try exact H.
    + destruct (zero (Prod l1)); [exact H|]. apply (IHl _ _ _ _ _ L' H).
    + destruct (is_unit (Prod l1)); [|exact H]. destruct (Nat.eqb b2 0 && Nat.eqb a2 0); [|exact H]. apply (IHu _ _ _ _ _ L' H).
    + destruct (is_unit (Prod l2)); [|exact H]. destruct (Nat.eqb b1 0 && Nat.eqb a1 0); [|exact H]. apply (IHu _ _ _ _ _ L' H).
    + destruct (Nat.eqb b1 b2 && Nat.eqb a1 a2); [|exact H]. apply (IHu _ _ _ _ _ L' H).
  - intros fuel' esr fsr st r L H. destruct fuel' as [|fuel']; [lia|]. assert (L' : fuel <= fuel') by lia.
    cbn [unify_loop] in *.
    assert (Left : forall l, leftovers fuel l st = Ok r -> leftovers fuel' l st = Ok r).
    { intros l. apply (leftovers_mono fuel fuel'). intros e f st0 r0 H0. apply (IHu _ _ _ _ _ L' H0). }
    destruct esr as [|e9 esr']; [exact (Left (rev (@nil axis) ++ rev fsr) H)|].
    destruct fsr as [|f9 fsr']; [exact (Left (rev (e9 :: esr') ++ rev (@nil axis)) H)|]. clear Left.
    destruct (Nat.eqb (numel e9) (numel f9)).
    + destruct (unify fuel e9 f9 st) as [[b1 st1]|] eqn:E1; [|discriminate]. rewrite (IHu _ _ _ _ _ L' E1).
      cbn [bind fst snd] in *. destruct b1; [apply (IHl _ _ _ _ _ L' H)|exact H].
    + destruct (numel e9 <? numel f9).
      * destruct (Nat.eqb (numel e9) 0); [exact H|]. destruct (negb (Nat.eqb (numel f9 mod numel e9) 0)); [exact H|].
        destruct (u_fresh (numel f9 / numel e9) st) as [k st0].
        destruct (unify fuel f9 (productAxis [k; e9]) st0) as [[b1 st1]|] eqn:E1; [|discriminate]. rewrite (IHu _ _ _ _ _ L' E1).
        cbn [bind fst snd] in *. destruct b1; [apply (IHl _ _ _ _ _ L' H)|exact H].
      * destruct (Nat.eqb (numel f9) 0); [exact H|]. destruct (negb (Nat.eqb (numel e9 mod numel f9) 0)); [exact H|].
        destruct (u_fresh (numel e9 / numel f9) st) as [k st0].
        destruct (unify fuel e9 (productAxis [k; f9]) st0) as [[b1 st1]|] eqn:E1; [|discriminate]. rewrite (IHu _ _ _ _ _ L' E1).
        cbn [bind fst snd] in *. destruct b1; [apply (IHl _ _ _ _ _ L' H)|exact H].
Qed.

Theorem unify_mono_both : forall fuel, M_unify fuel /\ M_loop fuel.
Proof.
  induction fuel as [|fuel [IHu IHl]]; [split; intros ? ? ? ? ? ? H; discriminate|].
  apply unify_mono_step; assumption.
Qed.

Theorem unify_list_mono fuel fuel' : fuel <= fuel' ->
  forall es fs st r, unify_list fuel es fs st = Ok r -> unify_list fuel' es fs st = Ok r.
Proof.
  intros L. induction es as [|e es IH]; intros fs st r H; destruct fs as [|f fs]; simpl in *; try exact H.
  destruct (unify fuel e f st) as [[b1 st1]|] eqn:E1; [|discriminate].
  rewrite (proj1 (unify_mono_both fuel) _ _ _ _ _ L E1). cbn [bind fst snd] in *.
  destruct b1; [apply IH; exact H|exact H].
Qed.

Example unify_mono_ex :
  unify_list 5 [Prod [Phys 1 2; Phys 2 3]] [Phys 3 6] (ustate0 4) = unify_list 50 [Prod [Phys 1 2; Phys 2 3]] [Phys 3 6] (ustate0 4).
Proof. reflexivity. Qed.
