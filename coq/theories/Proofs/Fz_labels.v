(** C05: the factorised grammar keeps the start symbol, every label of the label tables, every
    factor and every domain (factorize_hrg as of /repo 833be06, FGG.from_hrg as of 450bcaa). *)
From Coq Require Import List Arith Bool PeanoNat Lia.
Import ListNotations.
Require Import Fggs.Model.Conj Fggs.Model.TreeDec Fggs.Proofs.TreeDec_graph Fggs.Model.Factorize.

Lemma add_elabel_incl tbl l tbl' : add_elabel tbl l = Ok tbl' -> incl tbl tbl'.
Proof.
  unfold add_elabel. destruct (find _ tbl) as [x|].
  - destruct (elabel_eqb x l); [|discriminate]. intros [= <-]. apply incl_refl.
  - intros [= <-]. apply incl_appl, incl_refl.
Qed.
Lemma mfold_add_elabel_incl ls : forall tbl tbl', mfold add_elabel ls tbl = Ok tbl' -> incl tbl tbl'.
Proof.
  induction ls as [|l ls IH]; intros tbl tbl' H; cbn [mfold] in H.
  - injection H as <-. apply incl_refl.
  - destruct (add_elabel tbl l) as [t1|e] eqn:E; [|discriminate].
    eapply incl_tran; [eapply add_elabel_incl; exact E|now apply IH].
Qed.
Lemma fold_add_nlabel_incl ls : forall tbl, incl tbl (fold_left add_nlabel ls tbl).
Proof.
  induction ls as [|l ls IH]; intro tbl; cbn [fold_left]; [apply incl_refl|].
  eapply incl_tran; [|apply IH]. unfold add_nlabel. destruct (mem l tbl); [apply incl_refl|apply incl_appl, incl_refl].
Qed.

Definition keeps (h h' : fhrg) : Prop :=
  incl (fh_elabels h) (fh_elabels h') /\ incl (fh_nlabels h) (fh_nlabels h') /\ fh_start h' = fh_start h.
Lemma keeps_refl h : keeps h h.
Proof. repeat split; apply incl_refl. Qed.
Lemma keeps_trans a b c : keeps a b -> keeps b c -> keeps a c.
Proof. intros (A1 & A2 & A3) (B1 & B2 & B3). repeat split; [eapply incl_tran; eauto|eapply incl_tran; eauto|congruence]. Qed.

Lemma hrg_add_rule_keeps h c h' : hrg_add_rule h c = Ok h' -> keeps h h'.
Proof.
  unfold hrg_add_rule. destruct (add_elabel (fh_elabels h) (fr_lhs c)) as [els|e] eqn:E1; [|discriminate]. cbn [bind].
  destruct (mfold add_elabel (map fe_lab (fr_edges c)) els) as [els'|e] eqn:E2; [|discriminate]. cbn [bind].
  intros [= <-]. cbn. repeat split.
  - eapply incl_tran; [eapply add_elabel_incl; exact E1|eapply mfold_add_elabel_incl; exact E2].
  - apply fold_add_nlabel_incl.
Qed.
Lemma mfold_add_rule_keeps cs : forall h h', mfold hrg_add_rule cs h = Ok h' -> keeps h h'.
Proof.
  induction cs as [|c cs IH]; intros h h' H; cbn [mfold] in H.
  - injection H as <-. apply keeps_refl.
  - destruct (hrg_add_rule h c) as [h1|e] eqn:E; [|discriminate].
    eapply keeps_trans; [eapply hrg_add_rule_keeps; exact E|now apply IH].
Qed.

Lemma hrg_loop_keeps (ps : list (frule * rule_oracle)) : forall gn L x,
  mfold (fun (acc : fhrg * list elabel) (p : frule * rule_oracle) =>
           y <- factorize_rule_model (fst p) (snd acc) (fst (snd p)) (snd (snd p)) ;;
           gn <- mfold hrg_add_rule (fst y) (fst acc) ;;
           Ok (gn, snd y)) ps (gn, L) = Ok x -> keeps gn (fst x).
Proof.
  induction ps as [|p ps IH]; intros gn L x H; cbn [mfold] in H.
  - injection H as <-. apply keeps_refl.
  - cbn [fst snd] in H.
    destruct (factorize_rule_model (fst p) L (fst (snd p)) (snd (snd p))) as [y|e] eqn:E1; [|discriminate]. cbn [bind] in H.
    destruct (mfold hrg_add_rule (fst y) gn) as [gn'|e] eqn:E2; [|discriminate]. cbn [bind] in H.
    eapply keeps_trans; [eapply mfold_add_rule_keeps; exact E2|]. eapply IH. exact H.
Qed.

Theorem factorize_hrg_keeps g orc g' : factorize_hrg_with g orc = Ok g' -> keeps g g'.
Proof.
  unfold factorize_hrg_with, factorize_hrg_from.
  destruct (mfold _ (combine (fh_all_rules g) orc) _) as [x|e] eqn:E; [|discriminate]. cbn [bind]. intros [= <-].
  apply hrg_loop_keeps in E. destruct E as (E1 & E2 & E3). repeat split; assumption.
Qed.
Theorem from_hrg_keeps h h' : from_hrg_model h = Ok h' -> keeps h h'.
Proof.
  unfold from_hrg_model. intro H. apply mfold_add_rule_keeps in H. destruct H as (H1 & H2 & H3). repeat split; assumption.
Qed.

(** every factor is bound to a label of the edge-label table, every domain to a node label *)
Definition factors_bound (f : ffgg) : Prop :=
  forall p, In p (ff_factors f) -> In (fst p) (map el_name (fh_elabels (ff_hrg f))).
Definition domains_bound (f : ffgg) : Prop :=
  forall p, In p (ff_domains f) -> In (fst p) (fh_nlabels (ff_hrg f)).

Theorem factorize_fgg_keeps m g orc f : factorize_fgg_model m g orc = Ok f ->
  keeps (ff_hrg g) (ff_hrg f) /\ ff_factors f = ff_factors g /\ ff_domains f = ff_domains g
  /\ (factors_bound g -> factors_bound f) /\ (domains_bound g -> domains_bound f).
Proof.
  unfold factorize_fgg_model, factorize_hrg_model.
  destruct (factorize_hrg_with (ff_hrg g) (orc m)) as [h|e] eqn:E1; [|discriminate]. cbn [bind].
  destruct (from_hrg_model h) as [h'|e] eqn:E2; [|discriminate]. cbn [bind]. intros [= <-]. cbn [ff_hrg ff_factors ff_domains].
  assert (K : keeps (ff_hrg g) h') by (eapply keeps_trans; [eapply factorize_hrg_keeps; exact E1|eapply from_hrg_keeps; exact E2]).
  split; [exact K|]. split; [reflexivity|]. split; [reflexivity|]. destruct K as (K1 & K2 & _). split.
  - intros B p Hp. specialize (B p Hp). apply in_map_iff in B. destruct B as (l & <- & Hl). apply in_map. now apply K1.
  - intros B p Hp. apply K2. now apply B.
Qed.
