(** C12, twin rules: two rules of one nonterminal may have the SAME edge list (in the library:
    equal Edge objects, because node and edge ids only have to be unique inside one right-hand
    side) and still be different rules -- they differ in the external nodes or in nodes that no
    edge touches.  The definition sums over the rule LIST: every rule contributes its own
    [rule_val], computed from its own nodes and externals ([step_rule_appended]); and a rule
    cannot be identified by (lhs, edges): replacing a rule by its twin changes the value
    ([twin_rules_not_interchangeable], witnesses in the Boolean semiring for a different choice
    of the external node and for an added isolated node in the counting semiring nat). *)
From Coq Require Import List Arith Bool PeanoNat Ring Ring_theory.
Import ListNotations.
Require Import Fggs.Model.Semiring Fggs.Model.SumProduct.
Require Import Fggs.Proofs.BigSum Fggs.Proofs.SP_nonrec.

Section Twin.
Context {R : Type} (o : sr_ops R).
Hypothesis Hr : sr_ring o.

(** same lhs, same edges; nothing is said about nodes and externals *)
Definition twin_rules (r r' : rule) : Prop := r_lhs r = r_lhs r' /\ r_edges r = r_edges r'.

(** appending a rule [r] of nonterminal [X] adds exactly [rule_val r] -- whatever other rules with
    the same edges are already there *)
Lemma step_rule_appended :
  forall G G' r w x xi,
    g_doms G' = g_doms G -> g_labels G' = g_labels G -> g_rules G' = g_rules G ++ [r] ->
    is_term G (r_lhs r) = false ->
    step o G' w x (r_lhs r) xi
    = add o (step o G w x (r_lhs r) xi)
            (rule_val o G' (fun l => if is_term G' l then w l else x l) r xi).
Proof.
  intros G G' r w x xi Hd Hl Hrules Hnt.
  assert (Ht : forall l, is_term G' l = is_term G l) by (intro l; unfold is_term; now rewrite Hl).
  assert (Hrv : forall r0 e xi0, rule_val o G' e r0 xi0 = rule_val o G e r0 xi0).
  { intros r0 e xi0. unfold rule_val, node_sizes, dom. now rewrite Hd. }
  unfold step. rewrite Ht, Hnt.
  unfold rules_of. rewrite Hrules, filter_app. cbn [filter]. rewrite Nat.eqb_refl.
  rewrite (sumS_app o Hr). rewrite sumS_cons, sumS_nil.
  rewrite (r_add_0_r o Hr).
  f_equal.
  apply (sumS_ext o). intros r0 _. rewrite Hrv. apply (rule_val_ext o). intros ed a _ _. now rewrite Ht.
Qed.
End Twin.

(** ** witnesses *)
(** labels: 0 = terminal f(D,D), 1 = nonterminal X(D); one node label D of size 2.
    rA : X(a) -> f(a,b)      rB : X(b) -> f(a,b)      (same nodes, same edges, other external node) *)
Definition tw_rA : rule := {| r_lhs := 1; r_nodes := [0; 0]; r_edges := [(0, [0; 1])]; r_ext := [0] |}.
Definition tw_rB : rule := {| r_lhs := 1; r_nodes := [0; 0]; r_edges := [(0, [0; 1])]; r_ext := [1] |}.
(** rC : rA with one more node that no edge touches *)
Definition tw_rC : rule := {| r_lhs := 1; r_nodes := [0; 0; 0]; r_edges := [(0, [0; 1])]; r_ext := [0] |}.
Definition tw_G (rs : list rule) : grammar :=
  {| g_doms := [2]; g_labels := [(true, [0; 0]); (false, [0])]; g_rules := rs; g_start := 1 |}.
(** f(0,1) = 1, all other entries 0 *)
Definition tw_wb : env (R:=bool) := fun l xi => match l, xi with 0, [0; 1] => true | _, _ => false end.
Definition tw_wn : env (R:=nat) := fun l xi => match l, xi with 0, [0; 1] => 1 | _, _ => 0 end.
Definition nat_ops : sr_ops nat :=
  {| zero := 0; one := 1; add := Nat.add; mul := Nat.mul; star := fun _ => 1; le := Nat.le |}.

Example tw_wf : wf_grammar (tw_G [tw_rA; tw_rB; tw_rC]) = true.
Proof. vm_compute. reflexivity. Qed.
Example tw_twins : twin_rules tw_rA tw_rB /\ twin_rules tw_rA tw_rC.
Proof. repeat split. Qed.

(** a rule is not determined by (lhs, edges): writing the twin's value in the place of the rule's
    own value (what a table keyed on the edges does) changes the result.
    Boolean semiring, other external node: X(0) is derivable with rA, not with rB. *)
Lemma twin_rules_not_interchangeable_ext :
  exists r r' w k xi,
    twin_rules r r' /\ wf_grammar (tw_G [r; r']) = true /\
    Zk bool_ops (tw_G [r; r']) w k 1 xi <> Zk bool_ops (tw_G [r; r]) w k 1 xi.
Proof.
  exists tw_rB, tw_rA, tw_wb, 1, [0].
  split; [split; reflexivity|]. split; [vm_compute; reflexivity|].
  vm_compute. discriminate.
Qed.

(** counting semiring, one more isolated node: X(0) has 1 + 2 derivations, not 1 + 1 *)
Lemma twin_rules_not_interchangeable_isolated :
  exists r r' w k xi,
    twin_rules r r' /\ wf_grammar (tw_G [r; r']) = true /\
    Zk nat_ops (tw_G [r; r']) w k 1 xi = 3 /\ Zk nat_ops (tw_G [r; r]) w k 1 xi = 2.
Proof.
  exists tw_rA, tw_rC, tw_wn, 1, [0].
  split; [split; reflexivity|]. split; [vm_compute; reflexivity|].
  split; vm_compute; reflexivity.
Qed.

(** [step_rule_appended] is applicable to the witness grammar *)
Example tw_step_appended :
  step nat_ops (tw_G [tw_rA; tw_rC]) tw_wn (zero_env nat_ops) 1 [0]
  = step nat_ops (tw_G [tw_rA]) tw_wn (zero_env nat_ops) 1 [0] + 2.
Proof. vm_compute. reflexivity. Qed.
