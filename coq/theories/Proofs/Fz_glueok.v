(** C05: soundness of the grammar-level oracle [glue_ok] (Model/FactorizeCheck.v). *)
From Coq Require Import List Arith Bool PeanoNat Lia Permutation.
Import ListNotations.
Require Import Fggs.Model.Conj Fggs.Proofs.ConjBase Fggs.Proofs.ConjNames.
Require Import Fggs.Model.TreeDec Fggs.Model.Factorize Fggs.Model.FactorizeCheck Fggs.Proofs.Fz_inline.

Lemma frule_eqb_eq a b : frule_eqb a b = true -> a = b.
Proof.
  unfold frule_eqb. rewrite !andb_true_iff. intros [[[H1 H2] H3] H4].
  apply elabel_eqb_eq in H1. apply list_eqb_eq in H4.
  apply (leqb_eq pair_eqb pair_eqb_eq) in H2. apply (leqb_eq fedge_eqb fedge_eqb_eq) in H3.
  destruct a, b; cbn in *. congruence.
Qed.

(** what the grammar-level oracle establishes about the IMPLEMENTATION's output: the new grammar
    consists exactly of the rules the factorize_rule calls returned; the fresh left-hand sides
    of ALL calls have pairwise different names, none of which is the name of a label of the
    input grammar; in the whole new grammar each of them is the left-hand side of exactly one
    rule and labels exactly one edge *)
Theorem glue_ok_sound g outs gnew : glue_ok g outs gnew = true ->
  Permutation (concat outs) (fh_all_rules gnew)
  /\ NoDup (map el_name (flat_map fresh_of outs))
  /\ forall l, In l (flat_map fresh_of outs) ->
       ~ In (el_name l) (map el_name (fh_elabels g))
       /\ rules_with_lhs l (fh_all_rules gnew) = 1
       /\ count_label l (fh_all_rules gnew) = 1.
Proof.
  unfold glue_ok. rewrite !andb_true_iff, forallb_forall. intros [[H1 H2] H3]. split; [|split].
  - apply (perm_b_sound frule_eqb); trivial. exact frule_eqb_eq.
  - now apply snodup_NoDup.
  - intros l Hl. specialize (H3 l Hl). rewrite !andb_true_iff, negb_true_iff, !Nat.eqb_eq in H3.
    destruct H3 as [[H3 H4] H5]. split; [now apply smem_false|auto].
Qed.
