(** C12: renumbering the edge labels and the node labels (i.e. renaming them / entering them in
    the label tables in another order), every reference being renumbered consistently, renames
    the Kleene iterates in the same way. *)
From Coq Require Import List Arith Bool PeanoNat Lia Permutation.
Import ListNotations.
Require Import Fggs.Model.Semiring Fggs.Model.SCC Fggs.Model.SumProduct.
Require Import Fggs.Proofs.SCC_ntgraph Fggs.Proofs.BigSum Fggs.Proofs.SP_trees Fggs.Proofs.SP_nonrec
               Fggs.Proofs.SP_code Fggs.Proofs.SP_rename Fggs.Proofs.SP_spe Fggs.Proofs.SP_driver.
Require Import Fggs.Proofs.Presentation Fggs.Proofs.Presentation_perm Fggs.Proofs.Presentation_dom.

(** [pel] renumbers edge labels, [pnl] node labels *)
Definition rule_relabelled (pel pnl : nat -> nat) (r r' : rule) : Prop :=
  r_lhs r' = pel (r_lhs r)
  /\ r_nodes r' = map pnl (r_nodes r)
  /\ r_edges r' = map (fun ed => (pel (fst ed), snd ed)) (r_edges r)
  /\ r_ext r' = r_ext r.

(** [G'] is [G] relabelled: [pel] is injective on the labels of [G]; the label tables of [G']
    hold at the new positions what those of [G] hold at the old ones (types renumbered by
    [pnl]); rules and start symbol are renumbered.  (Nothing is required of positions of the
    tables of [G'] that are not images, nor that [pnl] be injective: merging two node labels of
    equal domain size is harmless.) *)
Record relabelled (pel pnl : nat -> nat) (G G' : grammar) : Prop := {
  rl_inj : forall l l', l < length (g_labels G) -> l' < length (g_labels G) -> pel l = pel l' -> l = l';
  rl_dom : forall nl, nl < length (g_doms G) -> dom G' (pnl nl) = dom G nl;
  rl_term : forall l, l < length (g_labels G) -> is_term G' (pel l) = is_term G l;
  rl_type : forall l, l < length (g_labels G) -> ltype G' (pel l) = map pnl (ltype G l);
  rl_start : g_start G' = pel (g_start G);
  rl_rules : Forall2 (rule_relabelled pel pnl) (g_rules G) (g_rules G') }.

(** the transform itself, for permutations given as lists (harness/gen.py [present]: [pel], [pnl]) *)
Definition relabel_rule (pe pn : list nat) (r : rule) : rule :=
  {| r_lhs := pfun pe (r_lhs r);
     r_nodes := map (pfun pn) (r_nodes r);
     r_edges := map (fun ed => (pfun pe (fst ed), snd ed)) (r_edges r);
     r_ext := r_ext r |}.
Definition relabel_grammar (pe pn : list nat) (G : grammar) : grammar :=
  {| g_doms := sel (g_doms G) (pinv pn);
     g_labels := map (fun j => let l := pfun (pinv pe) j in (is_term G l, map (pfun pn) (ltype G l)))
                     (seq 0 (length (g_labels G)));
     g_rules := map (relabel_rule pe pn) (g_rules G);
     g_start := pfun pe (g_start G) |}.

Lemma nth_map_seq {A} (f : nat -> A) n j d : j < n -> nth j (map f (seq 0 n)) d = f j.
Proof.
  intros Hj. rewrite nth_indep with (d' := f 0) by now rewrite map_length, seq_length.
  rewrite map_nth. now rewrite seq_nth.
Qed.
Lemma Forall2_map_r {A B} (P : A -> B -> Prop) (f : A -> B) l : (forall x, In x l -> P x (f x)) -> Forall2 P l (map f l).
Proof.
  induction l as [|x l IH]; intros H; cbn [map]; constructor; [apply H; now left|].
  apply IH. intros y Hy. apply H. now right.
Qed.

Lemma relabel_grammar_rel pe pn G :
  is_perm pe -> length pe = length (g_labels G) -> is_perm pn -> length pn = length (g_doms G) ->
  relabelled (pfun pe) (pfun pn) G (relabel_grammar pe pn G).
Proof.
  intros He Hle Hn Hln. split.
  - intros l l' _ _. now apply pfun_inj.
  - intros nl _. unfold dom, relabel_grammar. cbn [g_doms].
    rewrite nth_sel_perm by now rewrite pinv_length. now rewrite pfun_pinv_l.
  - intros l Hl. unfold is_term at 1, relabel_grammar. cbn [g_labels].
    rewrite nth_map_seq by (rewrite <- Hle; apply pfun_lt; trivial; lia).
    cbn [fst]. now rewrite pfun_pinv_l.
  - intros l Hl. unfold ltype at 1, relabel_grammar. cbn [g_labels].
    rewrite nth_map_seq by (rewrite <- Hle; apply pfun_lt; trivial; lia).
    cbn [snd]. now rewrite pfun_pinv_l.
  - reflexivity.
  - cbn [relabel_grammar g_rules]. apply Forall2_map_r. intros r _. repeat split.
Qed.

Section Relabel.
Context {R : Type} (o : sr_ops R) (Hring : sr_ring o).

Theorem rule_val_relabel pel pnl G G' (e e' : env (R:=R)) r r' xi :
  wf_rule G r = true ->
  (forall nl, nl < length (g_doms G) -> dom G' (pnl nl) = dom G nl) ->
  (forall l idx, l < length (g_labels G) -> e' (pel l) idx = e l idx) ->
  rule_relabelled pel pnl r r' ->
  rule_val o G' e' r' xi = rule_val o G e r xi.
Proof.
  intros Hwf Hdom He (_ & Hn & Hed & Hx).
  destruct (wf_rule_types G r Hwf) as (_ & Hnl & Hedges & _).
  assert (Hs : node_sizes G' r' = node_sizes G r).
  { unfold node_sizes. rewrite Hn, map_map. apply map_ext_in. intros nl Hin. apply Hdom. now apply Hnl. }
  unfold rule_val. rewrite Hs, Hx, Hed. apply sumS_ext. intros a _.
  rewrite prodS_map. apply prodS_ext. intros ed Hin. cbn [fst snd]. apply He. now apply (Hedges ed).
Qed.

Theorem Zk_relabel pel pnl G G' (w w' : env (R:=R)) :
  wf_grammar G = true -> relabelled pel pnl G G' ->
  (forall l idx, l < length (g_labels G) -> is_term G l = true -> w' (pel l) idx = w l idx) ->
  forall k X xi, X < length (g_labels G) -> Zk o G' w' k (pel X) xi = Zk o G w k X xi.
Proof.
  intros Hwf Hrel Hw k X xi HX.
  apply (Zk_sim o G G' pel (fun _ idx => idx) (vlab G) (fun _ _ => True)); trivial.
  - apply (rl_term _ _ _ _ Hrel).
  - apply (rl_inj _ _ _ _ Hrel).
  - intros l idx Hl _. now apply Hw.
  - eapply Forall2_mono_In; [|exact (rl_rules _ _ _ _ Hrel)]. intros r r' Hr _ Hrr.
    pose proof (wf_grammar_rules G Hwf r Hr) as Hwr.
    split; [apply (wf_rule_types G r Hwr)|]. split; [apply Hrr|].
    intros e e' xi' He _. apply (rule_val_relabel pel pnl); trivial; [apply (rl_dom _ _ _ _ Hrel)|].
    intros l idx Hl. now apply He.
Qed.

(** ... in particular for the transform computed from two permutation lists, the weights being
    looked up under the old number of the label *)
Definition relabel_weights (pe : list nat) (w : env (R:=R)) : env (R:=R) :=
  fun l' idx => w (pfun (pinv pe) l') idx.

Corollary Zk_relabel_grammar pe pn G (w : env (R:=R)) :
  wf_grammar G = true ->
  is_perm pe -> length pe = length (g_labels G) -> is_perm pn -> length pn = length (g_doms G) ->
  forall k X xi, X < length (g_labels G) ->
    Zk o (relabel_grammar pe pn G) (relabel_weights pe w) k (pfun pe X) xi = Zk o G w k X xi.
Proof.
  intros Hwf He Hle Hn Hln. apply (Zk_relabel (pfun pe) (pfun pn)); trivial.
  - now apply relabel_grammar_rel.
  - intros l idx _ _. unfold relabel_weights. now rewrite pfun_pinv_l.
Qed.
End Relabel.
