(** C01: the code-shaped [spe] (= sum_product_edges of fggs/sum_product.py) computes the
    mathematical [rule_val]: einsum over the connected nodes only, externals without edges
    broadcast, duplicated externals renamed apart and tied by identity factors, unconnected
    internal nodes multiplied in as [from_nat |dom|], [None] = zero. *)
From Coq Require Import List Arith Bool PeanoNat Lia Permutation Ring Ring_theory.
Import ListNotations.
Require Import Fggs.Model.Semiring Fggs.Model.SCC Fggs.Model.SumProduct.
Require Import Fggs.Proofs.SCC_ntgraph Fggs.Proofs.BigSum Fggs.Proofs.SP_trees.

(** * Updating one coordinate of an assignment *)
Definition lupd (v i : nat) (b : list nat) : list nat := firstn v b ++ [i] ++ skipn (S v) b.

Lemma lupd_0 i x b : lupd 0 i (x :: b) = i :: b.
Proof. reflexivity. Qed.
Lemma lupd_S v i x b : lupd (S v) i (x :: b) = x :: lupd v i b.
Proof. reflexivity. Qed.
Lemma lupd_length v i b : v < length b -> length (lupd v i b) = length b.
Proof.
  revert v. induction b as [|x b IH]; intros v Hv; [cbn in Hv; lia|].
  destruct v as [|v]; [reflexivity|]. rewrite lupd_S. cbn [length]. rewrite IH; [reflexivity|cbn in Hv; lia].
Qed.
Lemma lupd_nth v i b u : v < length b -> nth u (lupd v i b) 0 = if Nat.eqb u v then i else nth u b 0.
Proof.
  revert v u. induction b as [|x b IH]; intros v u Hv; [cbn in Hv; lia|].
  destruct v as [|v].
  - rewrite lupd_0. destruct u; reflexivity.
  - rewrite lupd_S. destruct u as [|u]; [reflexivity|]. cbn [nth]. rewrite IH by (cbn in Hv; lia). reflexivity.
Qed.
Lemma lupd_nth_same v i b : v < length b -> nth v (lupd v i b) 0 = i.
Proof. intros H. now rewrite lupd_nth, Nat.eqb_refl. Qed.
Lemma lupd_nth_other v i b u : v < length b -> u <> v -> nth u (lupd v i b) 0 = nth u b 0.
Proof. intros H Hne. rewrite lupd_nth by exact H. now rewrite (proj2 (Nat.eqb_neq u v) Hne). Qed.

Lemma assts_over_cons sizes v vs base :
  assts_over sizes (v :: vs) base
  = flat_map (fun i => assts_over sizes vs (lupd v i base)) (seq 0 (nth v sizes 0)).
Proof. reflexivity. Qed.

Lemma put_cons o x outs xs b : put (o :: outs) (x :: xs) b = put outs xs (lupd o x b).
Proof. reflexivity. Qed.
Lemma put_nil_l xs b : put [] xs b = b.
Proof. reflexivity. Qed.
Lemma put_nil_r outs b : put outs [] b = b.
Proof. destruct outs; reflexivity. Qed.

(** * Membership and NoDup of [assts_over] *)
Lemma in_AO_fwd sizes vs : forall b a,
  (forall v, In v vs -> v < length b) -> In a (assts_over sizes vs b) ->
  length a = length b
  /\ (forall u, ~ In u vs -> nth u a 0 = nth u b 0)
  /\ (forall u, In u vs -> nth u a 0 < nth u sizes 0).
Proof.
  induction vs as [|v vs IH]; intros b a Hb Ha.
  - destruct Ha as [<-|[]]. repeat split; trivial. intros u [].
  - rewrite assts_over_cons, in_flat_map in Ha. destruct Ha as (i & Hi & Ha). apply in_seq in Hi.
    assert (Hv : v < length b) by (apply Hb; now left).
    destruct (IH (lupd v i b) a) as (Hl & Ho & Hs); trivial.
    { intros w Hw. rewrite lupd_length by exact Hv. apply Hb. now right. }
    rewrite lupd_length in Hl by exact Hv. split; trivial. split.
    + intros u Hu. rewrite Ho by (intros H; apply Hu; now right).
      apply lupd_nth_other; trivial. intros ->. apply Hu. now left.
    + intros u [<-|Hu]; [|now apply Hs].
      destruct (in_dec Nat.eq_dec v vs) as [Hin|Hnin]; [now apply Hs|].
      rewrite Ho by exact Hnin. rewrite lupd_nth_same by exact Hv. lia.
Qed.

Lemma in_AO_bwd sizes vs : forall b a,
  (forall v, In v vs -> v < length b) -> length a = length b ->
  (forall u, ~ In u vs -> nth u a 0 = nth u b 0) ->
  (forall u, In u vs -> nth u a 0 < nth u sizes 0) ->
  In a (assts_over sizes vs b).
Proof.
  induction vs as [|v vs IH]; intros b a Hb Hl Ho Hs.
  - left. symmetry. apply nth_ext with (d := 0) (d' := 0); trivial. intros n _. apply Ho. intros [].
  - rewrite assts_over_cons, in_flat_map. exists (nth v a 0).
    assert (Hv : v < length b) by (apply Hb; now left).
    split; [apply in_seq; split; [lia|]; cbn [Nat.add]; apply Hs; now left|].
    apply IH.
    + intros w Hw. rewrite lupd_length by exact Hv. apply Hb. now right.
    + now rewrite lupd_length.
    + intros u Hu. rewrite lupd_nth by exact Hv. destruct (Nat.eqb u v) eqn:E.
      * apply Nat.eqb_eq in E. now subst.
      * apply Nat.eqb_neq in E. apply Ho. intros [H|H]; [now subst|now apply Hu].
    + intros u Hu. apply Hs. now right.
Qed.

Lemma NoDup_AO sizes vs : forall b,
  NoDup vs -> (forall v, In v vs -> v < length b) -> NoDup (assts_over sizes vs b).
Proof.
  induction vs as [|v vs IH]; intros b Hnd Hb.
  - constructor; [intros []|constructor].
  - inversion Hnd as [|? ? Hv Hnd']; subst. rewrite assts_over_cons.
    assert (Hvb : v < length b) by (apply Hb; now left).
    assert (Hb' : forall i w, In w vs -> w < length (lupd v i b)).
    { intros i w Hw. rewrite lupd_length by exact Hvb. apply Hb. now right. }
    apply NoDup_flat_map.
    + apply seq_NoDup.
    + intros i _. apply IH; trivial. apply Hb'.
    + intros i j a _ _ Hi Hj.
      apply in_AO_fwd in Hi; [|apply Hb']. apply in_AO_fwd in Hj; [|apply Hb'].
      destruct Hi as (_ & Hi & _), Hj as (_ & Hj & _).
      specialize (Hi v Hv). specialize (Hj v Hv). rewrite lupd_nth_same in Hi, Hj by exact Hvb. congruence.
Qed.

Section Code.
Context {R : Type} (o : sr_ops R).
Hypothesis Hr : sr_ring o.
Add Ring RingR3 : (sr_is_srt o Hr).

Declare Scope sr_scope.
Delimit Scope sr_scope with sr.
Local Notation "x + y" := (add o x y) : sr_scope.
Local Notation "x * y" := (mul o x y) : sr_scope.

(** [F] reads its argument only at the coordinates in [S] *)
Definition dep_only (S : list nat) (F : list nat -> R) : Prop :=
  forall a a', (forall u, In u S -> nth u a 0 = nth u a' 0) -> F a = F a'.

(** the sum over [assts_over] does not see coordinates of the base (or sizes) outside S \ vs *)
Lemma AO_sum_indep S F : dep_only S F ->
  forall vs sizes sizes' b b',
  (forall v, In v vs -> v < length b /\ v < length b' /\ nth v sizes 0 = nth v sizes' 0) ->
  (forall u, In u S -> In u vs \/ nth u b 0 = nth u b' 0) ->
  sumS o (assts_over sizes vs b) F = sumS o (assts_over sizes' vs b') F.
Proof.
  intros HF. induction vs as [|v vs IH]; intros sizes sizes' b b' Hb Hag.
  - cbn [assts_over]. rewrite !(sumS_single o Hr). apply HF. intros u Hu.
    destruct (Hag u Hu) as [[]|H]; exact H.
  - rewrite !assts_over_cons, !(sumS_flat_map o Hr).
    destruct (Hb v (or_introl eq_refl)) as (Hv & Hv' & Hsz). rewrite <- Hsz.
    apply sumS_ext. intros i _. apply IH.
    + intros w Hw. rewrite !lupd_length by trivial. apply Hb. now right.
    + intros u Hu. rewrite !lupd_nth by trivial. destruct (Nat.eqb u v) eqn:E; [now right|].
      apply Nat.eqb_neq in E. destruct (Hag u Hu) as [[H|H]|H]; [congruence|now left|now right].
Qed.

(** the order of the summed variables does not matter *)
Lemma AO_sum_perm F sizes vs vs' b :
  NoDup vs -> NoDup vs' -> (forall v, In v vs <-> In v vs') -> (forall v, In v vs -> v < length b) ->
  sumS o (assts_over sizes vs b) F = sumS o (assts_over sizes vs' b) F.
Proof.
  intros Hnd Hnd' Heq Hb.
  assert (Hb' : forall v, In v vs' -> v < length b) by (intros v Hv; apply Hb; now apply Heq).
  apply (sumS_NoDup_equiv o Hr); try (apply NoDup_AO; trivial).
  intros a. split; intros Ha.
  - apply in_AO_fwd in Ha; trivial. destruct Ha as (Hl & Ho & Hs).
    apply in_AO_bwd; trivial.
    + intros u Hu. apply Ho. intros H. apply Hu. now apply Heq.
    + intros u Hu. apply Hs. now apply Heq.
  - apply in_AO_fwd in Ha; trivial. destruct Ha as (Hl & Ho & Hs).
    apply in_AO_bwd; trivial.
    + intros u Hu. apply Ho. intros H. apply Hu. now apply Heq.
    + intros u Hu. apply Hs. now apply Heq.
Qed.

(** summing over variables the summand does not read multiplies by the domain sizes *)
Lemma AO_sum_free S F : dep_only S F ->
  forall free vs sizes b,
  (forall v, In v free -> ~ In v S) ->
  (forall v, In v (free ++ vs) -> v < length b) ->
  sumS o (assts_over sizes (free ++ vs) b) F
  = (from_nat o (fold_right Nat.mul 1 (map (fun v => nth v sizes 0) free)) * sumS o (assts_over sizes vs b) F)%sr.
Proof.
  intros HF. induction free as [|v free IH]; intros vs sizes b Hfree Hb.
  - cbn [app map fold_right]. rewrite (from_nat_1 o Hr). ring.
  - cbn [app map fold_right]. rewrite assts_over_cons, (sumS_flat_map o Hr).
    assert (Hv : v < length b) by (apply Hb; now left).
    rewrite (sumS_ext o _ _ (fun _ => sumS o (assts_over sizes (free ++ vs) b) F)).
    + rewrite (sumS_const o Hr), seq_length, (from_nat_mul o Hr), IH.
      * ring.
      * intros w Hw. apply Hfree. now right.
      * intros w Hw. apply Hb. now right.
    + intros i _. apply (AO_sum_indep S F HF).
      * intros w Hw. rewrite lupd_length by exact Hv. split; [|split; trivial]; apply Hb; now right.
      * intros u Hu. right. apply lupd_nth_other; trivial. intros ->. apply (Hfree v); [now left|exact Hu].
Qed.

End Code.
