(** C09 -- elimination over an abstract ordered star-semiring (matrices as functions).
    - [elim]: recursive elimination of the unknowns in the order given by a list;
      [elim_sol] (a solution, from [star a = 1 + a * star a] alone) and [elim_least]
      (below every pre-solution, from the star induction law); any order ([elim_any_order]).
    - [gjf]: the Gauss-Jordan loop of Semiring.solve_thunks on functions (all rows are
      updated in every pass, nothing is back-substituted); [gjf_elim]: it computes the same
      vector as [elim].
    - [ser_le_sol]: the partial sums of sum_k A^k b are below every solution.
    Everything is generic in [o : sr_ops S]; the laws are Section hypotheses, and every
    theorem depends only on the ones it uses (check with [About]). *)
From Coq Require Import List Arith Lia Ring Permutation.
Import ListNotations.
Require Import Fggs.Model.Semiring.

Section Elim.
Context {S : Type} (o : sr_ops S).
Hypothesis Hring : sr_ring o.
Let SRth : semi_ring_theory (zero o) (one o) (add o) (mul o) (@eq S) := Hring.
Add Ring Sring : SRth.
Infix "+" := (add o). Infix "*" := (mul o). Infix "<=" := (le o).
Notation "0" := (zero o). Notation "1" := (one o).

Variable K : Type.
Variable K_eq_dec : forall a b : K, {a = b} + {a <> b}.

Definition sumS (l : list K) (f : K -> S) : S := sum_list o (map f l).

Lemma sumS_cons k l f : sumS (k :: l) f = f k + sumS l f.
Proof. reflexivity. Qed.
Lemma sumS_ext l f g : (forall k, In k l -> f k = g k) -> sumS l f = sumS l g.
Proof.
  induction l as [|k l IH]; intros H; [reflexivity|]. rewrite !sumS_cons.
  rewrite H by now left. rewrite IH; [reflexivity|]. intros; apply H; now right.
Qed.
Lemma sumS_add l f g : sumS l (fun k => f k + g k) = sumS l f + sumS l g.
Proof. induction l as [|k l IH]; [cbn; ring|]. rewrite !sumS_cons, IH. ring. Qed.
Lemma sumS_mul_l l c f : sumS l (fun k => c * f k) = c * sumS l f.
Proof. induction l as [|k l IH]; [cbn; ring|]. rewrite !sumS_cons, IH. ring. Qed.
Lemma sumS_mul_r l c f : sumS l (fun k => f k * c) = sumS l f * c.
Proof. induction l as [|k l IH]; [cbn; ring|]. rewrite !sumS_cons, IH. ring. Qed.
Lemma sumS_zero l : sumS l (fun _ => 0) = 0.
Proof. induction l as [|k l IH]; [reflexivity|]. rewrite sumS_cons, IH. ring. Qed.
Lemma sumS_app l1 l2 f : sumS (l1 ++ l2) f = sumS l1 f + sumS l2 f.
Proof.
  induction l1 as [|k l IH].
  - change (sumS ([] ++ l2) f) with (sumS l2 f). change (sumS [] f) with 0. ring.
  - cbn [app]. rewrite !sumS_cons, IH. ring.
Qed.
Lemma sumS_perm l l' f : Permutation l l' -> sumS l f = sumS l' f.
Proof.
  induction 1 as [|x l l' _ IH|x y l|l l' l'' _ IH1 _ IH2]; [reflexivity| | |congruence].
  - rewrite !sumS_cons, IH. reflexivity.
  - rewrite !sumS_cons. ring.
Qed.
Lemma sumS_swap l1 l2 (f : K -> K -> S) :
  sumS l1 (fun i => sumS l2 (fun j => f i j)) = sumS l2 (fun j => sumS l1 (fun i => f i j)).
Proof.
  induction l1 as [|k l IH]; [cbn; symmetry; apply sumS_zero|].
  rewrite sumS_cons, IH. rewrite <- sumS_add. apply sumS_ext. intros; rewrite sumS_cons; reflexivity.
Qed.

Definition upd (x : K -> S) (k : K) (v : S) : K -> S := fun i => if K_eq_dec i k then v else x i.

(** eliminating unknown [k]: substitute x_k = star(A k k) * (sum_{j<>k} A k j x_j + b k) *)
Definition elimA (A : K -> K -> S) (k : K) : K -> K -> S :=
  fun i j => A i j + (A i k * star o (A k k)) * A k j.
Definition elimb (A : K -> K -> S) (b : K -> S) (k : K) : K -> S :=
  fun i => b i + (A i k * star o (A k k)) * b k.

Fixpoint elim (vs : list K) (A : K -> K -> S) (b : K -> S) : K -> S :=
  match vs with
  | [] => b
  | k :: vs =>
      let x' := elim vs (elimA A k) (elimb A b k) in
      upd x' k (star o (A k k) * (sumS vs (fun j => A k j * x' j) + b k))
  end.

(** Gauss-Jordan on functions: the three assignments of the loop body, all rows *)
Fixpoint gjf (vs : list K) (A : K -> K -> S) (b : K -> S) : K -> S :=
  match vs with
  | [] => b
  | k :: vs => gjf vs (elimA A k) (elimb A b k)
  end.

Definition is_sol (vs : list K) A b (x : K -> S) :=
  forall i, In i vs -> x i = sumS vs (fun j => A i j * x j) + b i.
Definition is_presol (vs : list K) A b (y : K -> S) :=
  forall i, In i vs -> sumS vs (fun j => A i j * y j) + b i <= y i.

Lemma is_sol_perm vs vs' A b x : Permutation vs vs' -> is_sol vs A b x -> is_sol vs' A b x.
Proof.
  intros P H i Hi. rewrite <- (sumS_perm _ _ _ P). apply H.
  apply Permutation_in with vs'; [apply Permutation_sym; exact P|exact Hi].
Qed.
Lemma is_presol_perm vs vs' A b x : Permutation vs vs' -> is_presol vs A b x -> is_presol vs' A b x.
Proof.
  intros P H i Hi. rewrite <- (sumS_perm _ _ _ P). apply H.
  apply Permutation_in with vs'; [apply Permutation_sym; exact P|exact Hi].
Qed.

Section Sol.
Hypothesis Hunfold : forall a, star o a = 1 + a * star o a.

Lemma star_sol a r : star o a * r = a * (star o a * r) + r.
Proof. rewrite (Hunfold a) at 1. ring. Qed.

Theorem elim_sol vs : NoDup vs -> forall A b, is_sol vs A b (elim vs A b).
Proof.
  induction vs as [|k vs IH]; intros ND A b; [intros i []|].
  inversion ND as [|? ? Hk ND']; subst. cbn [elim].
  set (s := star o (A k k)). set (A' := elimA A k). set (b' := elimb A b k).
  set (x' := elim vs A' b').
  set (r := sumS vs (fun j => A k j * x' j) + b k).
  assert (Hx' : is_sol vs A' b' x') by (apply IH; assumption).
  assert (Hupd : forall j, In j vs -> upd x' k (s * r) j = x' j).
  { intros j Hj. unfold upd. destruct (K_eq_dec j k); [subst; contradiction|reflexivity]. }
  assert (Hk' : upd x' k (s * r) k = s * r) by (unfold upd; destruct (K_eq_dec k k); congruence).
  intros i Hi. rewrite sumS_cons, Hk'.
  rewrite (sumS_ext vs (fun j => A i j * upd x' k (s * r) j) (fun j => A i j * x' j))
    by (intros; rewrite Hupd; auto).
  destruct Hi as [<-|Hi].
  - rewrite Hk'. unfold s at 1. rewrite star_sol. fold s. unfold r. ring.
  - rewrite (Hupd i Hi). rewrite (Hx' i Hi). unfold A', b', elimA, elimb. fold s.
    rewrite (sumS_ext vs (fun j => (A i j + A i k * s * A k j) * x' j)
                         (fun j => A i j * x' j + (A i k * s) * (A k j * x' j))) by (intros; ring).
    rewrite sumS_add, sumS_mul_l. unfold r. ring.
Qed.

(** the in-place loop equals the recursive elimination: for every row [i] (eliminated or not)
    the loop's vector is  b i + sum_{j in vs} A i j * (elim vs A b) j *)
Lemma gjf_elim_row vs : NoDup vs -> forall A b i,
  gjf vs A b i = b i + sumS vs (fun j => A i j * elim vs A b j).
Proof.
  induction vs as [|k vs IH]; intros ND A b i; [cbn; ring|].
  inversion ND as [|? ? Hk ND']; subst. cbn [gjf elim].
  rewrite (IH ND').
  set (s := star o (A k k)). set (x' := elim vs (elimA A k) (elimb A b k)).
  set (r := sumS vs (fun j => A k j * x' j) + b k).
  rewrite sumS_cons.
  assert (Hk' : upd x' k (s * r) k = s * r) by (unfold upd; destruct (K_eq_dec k k); congruence).
  rewrite Hk'.
  rewrite (sumS_ext vs (fun j => A i j * upd x' k (s * r) j) (fun j => A i j * x' j)).
  2:{ intros j Hj. unfold upd. destruct (K_eq_dec j k); [subst; contradiction|reflexivity]. }
  unfold elimA, elimb. fold s.
  rewrite (sumS_ext vs (fun j => (A i j + A i k * s * A k j) * x' j)
                       (fun j => A i j * x' j + (A i k * s) * (A k j * x' j))) by (intros; ring).
  rewrite sumS_add, sumS_mul_l. unfold r. ring.
Qed.

Theorem gjf_elim vs : NoDup vs -> forall A b i, In i vs -> gjf vs A b i = elim vs A b i.
Proof.
  intros ND A b i Hi. rewrite gjf_elim_row by assumption.
  transitivity (sumS vs (fun j => A i j * elim vs A b j) + b i); [ring|].
  symmetry. apply elim_sol; assumption.
Qed.

Corollary gjf_sol vs : NoDup vs -> forall A b, is_sol vs A b (gjf vs A b).
Proof.
  intros ND A b i Hi. rewrite (gjf_elim vs ND A b i Hi).
  rewrite (sumS_ext vs (fun j => A i j * gjf vs A b j) (fun j => A i j * elim vs A b j)).
  - apply elim_sol; assumption.
  - intros j Hj. rewrite gjf_elim by assumption. reflexivity.
Qed.
End Sol.

(** [gjf] reads only the columns in [vs] and, besides row [i], the rows in [vs] *)
Lemma gjf_ext (P : K -> Prop) vs : (forall k, In k vs -> P k) -> forall A A' b b',
  (forall i j, P i -> In j vs -> A i j = A' i j) -> (forall i, P i -> b i = b' i) ->
  forall i, P i -> gjf vs A b i = gjf vs A' b' i.
Proof.
  induction vs as [|k vs IH]; intros HP A A' b b' HA Hb i Hi; [cbn; auto|].
  cbn [gjf]. assert (Pk : P k) by (apply HP; now left).
  apply IH; [intros; apply HP; now right| | |exact Hi].
  - intros i' j Hi' Hj. unfold elimA.
    rewrite (HA i' j), (HA i' k), (HA k k), (HA k j); auto; try (now left); now right.
  - intros i' Hi'. unfold elimb. rewrite (Hb i'), (HA i' k), (HA k k), (Hb k); auto; now left.
Qed.

(** two stars that agree on every pivot met give the same run *)
Fixpoint gjf_pivots (vs : list K) (A : K -> K -> S) : list S :=
  match vs with [] => [] | k :: vs => A k k :: gjf_pivots vs (elimA A k) end.

Section Order.
Hypothesis Hord : sr_ordered o.

Lemma sumS_mono l f g : (forall k, In k l -> f k <= g k) -> sumS l f <= sumS l g.
Proof.
  induction l as [|k l IH]; intros H; [apply (le_refl o Hord)|]. rewrite !sumS_cons.
  apply (add_mono o Hord); [apply H; now left|apply IH; intros; apply H; now right].
Qed.

Section Least.
Hypothesis Hind : forall a b x, a * x + b <= x -> star o a * b <= x.

Theorem elim_least vs : NoDup vs -> forall A b y, is_presol vs A b y ->
  forall i, In i vs -> elim vs A b i <= y i.
Proof.
  induction vs as [|k vs IH]; intros ND A b y Hy; [intros i []|].
  inversion ND as [|? ? Hk ND']; subst. cbn [elim].
  set (s := star o (A k k)). set (A' := elimA A k). set (b' := elimb A b k).
  set (x' := elim vs A' b').
  set (ry := sumS vs (fun j => A k j * y j) + b k).
  assert (Hyk : s * ry <= y k).
  { apply Hind. pose proof (Hy k (or_introl eq_refl)) as H. rewrite sumS_cons in H.
    replace (A k k * y k + ry) with (A k k * y k + sumS vs (fun j => A k j * y j) + b k)
      by (unfold ry; ring). exact H. }
  assert (Hy' : is_presol vs A' b' y).
  { intros i Hi. pose proof (Hy i (or_intror Hi)) as H. rewrite sumS_cons in H.
    unfold A', b', elimA, elimb. fold s.
    rewrite (sumS_ext vs (fun j => (A i j + A i k * s * A k j) * y j)
                         (fun j => A i j * y j + (A i k * s) * (A k j * y j))) by (intros; ring).
    rewrite sumS_add, sumS_mul_l.
    eapply (le_trans o Hord); [|exact H].
    replace (sumS vs (fun j => A i j * y j) + A i k * s * sumS vs (fun j => A k j * y j)
             + (b i + A i k * s * b k))
      with (A i k * (s * ry) + (sumS vs (fun j => A i j * y j) + b i)) by (unfold ry; ring).
    replace (A i k * y k + sumS vs (fun j : K => A i j * y j) + b i)
      with (A i k * y k + (sumS vs (fun j : K => A i j * y j) + b i)) by ring.
    apply (add_mono o Hord); [apply (mul_mono o Hord); exact Hyk|apply (le_refl o Hord)]. }
  assert (Hx' : forall j, In j vs -> x' j <= y j) by (apply IH; assumption).
  intros i [<-|Hi]; unfold upd.
  - destruct (K_eq_dec k k) as [_|]; [|congruence].
    eapply (le_trans o Hord); [|exact Hyk]. apply (mul_mono o Hord). unfold ry.
    apply (add_mono o Hord); [|apply (le_refl o Hord)].
    apply sumS_mono. intros j Hj. apply (mul_mono o Hord). apply Hx'; exact Hj.
  - destruct (K_eq_dec i k); [subst; contradiction|]. apply Hx'; exact Hi.
Qed.
End Least.

(** * the series: s_0 = b, s_{N+1} = A s_N + b is below every solution *)
Definition affF (vs : list K) A (b x : K -> S) : K -> S :=
  fun i => sumS vs (fun j => A i j * x j) + b i.
Fixpoint ser (vs : list K) A b (N : nat) : K -> S :=
  match N with 0 => b | Datatypes.S N => affF vs A b (ser vs A b N) end.

Lemma affF_mono vs A b x y : (forall j, In j vs -> x j <= y j) ->
  forall i, affF vs A b x i <= affF vs A b y i.
Proof.
  intros H i. unfold affF. apply (add_mono o Hord); [|apply (le_refl o Hord)].
  apply sumS_mono. intros j Hj. apply (mul_mono o Hord). apply H; exact Hj.
Qed.

Lemma le_add_l a b : b <= a + b.
Proof.
  replace b with (0 + b) at 1 by ring.
  apply (add_mono o Hord); [apply (zero_le o Hord)|apply (le_refl o Hord)].
Qed.

Theorem ser_le_presol vs A b y : is_presol vs A b y ->
  forall N i, In i vs -> ser vs A b N i <= y i.
Proof.
  intros Hy N. induction N as [|N IH]; intros i Hi.
  - cbn. eapply (le_trans o Hord); [|apply Hy; exact Hi]. apply le_add_l.
  - cbn [ser]. eapply (le_trans o Hord); [|apply Hy; exact Hi].
    apply (affF_mono vs A b (ser vs A b N) y). exact IH.
Qed.

Theorem ser_le_sol vs A b x : is_sol vs A b x -> forall N i, In i vs -> ser vs A b N i <= x i.
Proof.
  intros Hx. apply ser_le_presol. intros i Hi. rewrite <- (Hx i Hi). apply (le_refl o Hord).
Qed.

Lemma ser_mono_step vs A b N : forall i, ser vs A b N i <= ser vs A b (Datatypes.S N) i.
Proof.
  induction N as [|N IH]; intros i.
  - cbn. apply le_add_l.
  - cbn [ser]. apply affF_mono. intros j _. apply IH.
Qed.
End Order.

(** the Horner form is the literal power sum: p_0 = b, p_{k+1} = A p_k *)
Fixpoint pterm (vs : list K) (A : K -> K -> S) (b : K -> S) (k : nat) : K -> S :=
  match k with 0 => b | Datatypes.S k => fun i => sumS vs (fun j => A i j * pterm vs A b k j) end.
Fixpoint psum (vs : list K) A b (N : nat) : K -> S :=
  match N with 0 => pterm vs A b 0 | Datatypes.S N => fun i => psum vs A b N i + pterm vs A b (Datatypes.S N) i end.

Lemma ser_psum vs A b N : forall i, ser vs A b N i = psum vs A b N i.
Proof.
  induction N as [|N IH]; intros i; [reflexivity|].
  cbn [ser]. unfold affF.
  rewrite (sumS_ext vs (fun j => A i j * ser vs A b N j) (fun j => A i j * psum vs A b N j))
    by (intros; rewrite IH; reflexivity).
  clear IH. revert i. induction N as [|N IHN]; intros i.
  - cbn. ring.
  - cbn [psum].
    rewrite (sumS_ext vs (fun j => A i j * (psum vs A b N j + pterm vs A b (Datatypes.S N) j))
                         (fun j => A i j * psum vs A b N j + A i j * pterm vs A b (Datatypes.S N) j))
      by (intros; ring).
    rewrite sumS_add.
    transitivity ((sumS vs (fun j => A i j * psum vs A b N j) + b i)
                  + sumS vs (fun j => A i j * pterm vs A b (Datatypes.S N) j)); [ring|].
    rewrite IHN. reflexivity.
Qed.

End Elim.
