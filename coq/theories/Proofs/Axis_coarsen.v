(** Coarsening of a typing: every typed pair of patterns has a typing whose PATH weight
    ([pm], Proofs/Axis_total_path.v) is bounded by what the two patterns show:

      [pm ps' <= L + S * (L + 1)],   S = number of [Sum] nodes of the two patterns,
                                     L = floor (log2 (size of the dimension)).

    A typing judgement [ty G e ps] may use types that are much larger than the axes that inhabit
    them: a physical axis hides the structure of its type, a [Sum b t a] node shows one summand and
    hides the others.  Two facts bound what matters:
    - every prime has size >= 2, so a product type of size [N] has at most [log2 N] primes, and the
      same holds in every summand, whose size is at most the size of the sum;
    - a sum type at which no [Sum] node of the patterns is typed is never opened by [unify]; it can
      be replaced by an atom of its size.  [co V] does that for every sum type whose weight [tw] is
      not in the list [V]; the weights of the sum types met by the typing derivation of a pattern
      are as many as the pattern has [Sum] nodes.  Along a chain of nested sum types that are kept
      the weights strictly decrease, so the chain is no longer than [V].
    The translation keeps sizes, goodness, the primes ([tprimes (co V t) = map (co V) (tprimes t)])
    and hence the judgement: [ty G e ps -> ty (coG V G) e (map (co V) ps)] as soon as [V] contains
    the weights collected from the derivation. *)
From Coq Require Import List Arith Lia PeanoNat Bool PArith.
Import ListNotations.
Require Import Fggs.Model.Axis Fggs.Model.AxisCheck.
Require Import Fggs.Proofs.Axis_sem Fggs.Proofs.Axis_unify Fggs.Proofs.Axis_complete_gen
               Fggs.Proofs.Axis_typed Fggs.Proofs.Axis_total Fggs.Proofs.Axis_total_path.

(** * the translation *)
Definition keptb (V : list nat) (w : nat) : bool := existsb (Nat.eqb w) V.

Fixpoint co (V : list nat) (t : ity) : ity :=
  match t with
  | TAtom n => TAtom n
  | TProd l => TProd (map (co V) l)
  | TSum l => if keptb V (tw t) then TSum (map (co V) l) else TAtom (tsize t)
  end.

Definition coG (V : list nat) (G : ctx) : ctx := fun k => map (co V) (G k).

Lemma keptb_in V w : In w V -> keptb V w = true.
Proof. intros H. apply existsb_exists. exists w. split; [exact H|apply Nat.eqb_refl]. Qed.
Lemma keptb_true V w : keptb V w = true -> In w V.
Proof. intros H. apply existsb_exists in H. destruct H as (x & Hx & E). apply Nat.eqb_eq in E. subst. exact Hx. Qed.

Lemma co_sum V l : co V (TSum l) = if keptb V (tw (TSum l)) then TSum (map (co V) l) else TAtom (tsize (TSum l)).
Proof. reflexivity. Qed.

Lemma tsum_map_co V l : Forall (fun t => tsize (co V t) = tsize t) l ->
  fold_right (fun t acc => tsize t + acc) 0 (map (co V) l) = fold_right (fun t acc => tsize t + acc) 0 l.
Proof. induction 1 as [|x l Hx _ IH]; simpl; [reflexivity|]. rewrite Hx, IH. reflexivity. Qed.

Lemma co_tsize V t : tsize (co V t) = tsize t.
Proof.
  induction t as [n|l IH|l IH] using ity_ind'.
  - reflexivity.
  - cbn [co tsize]. induction IH as [|x l Hx _ IHl]; simpl; [reflexivity|]. rewrite Hx, IHl. reflexivity.
  - rewrite co_sum. destruct (keptb V (tw (TSum l))); [|reflexivity]. cbn [tsize]. apply tsum_map_co. exact IH.
Qed.

Lemma co_tsum V l : tsum (map (co V) l) = tsum l.
Proof. unfold tsum. apply tsum_map_co. apply Forall_forall. intros t _. apply co_tsize. Qed.

Lemma co_tsizes V ps : tsizes (map (co V) ps) = tsizes ps.
Proof. induction ps as [|p ps IH]; [reflexivity|]. cbn [map]. rewrite !tsizes_cons, co_tsize, IH. reflexivity. Qed.

Lemma tgood_sum_size l : tgood (TSum l) = true -> 2 <= tsize (TSum l).
Proof. cbn [tgood tsize]. intros H. apply andb_true_iff in H. destruct H as [_ H]. apply Nat.leb_le in H. exact H. Qed.

Lemma co_tgood V t : tgood t = true -> tgood (co V t) = true.
Proof.
  induction t as [n|l IH|l IH] using ity_ind'; intros H.
  - exact H.
  - cbn [co tgood] in *. rewrite forallb_forall in *. intros x Hx. apply in_map_iff in Hx. destruct Hx as (y & <- & Hy).
    rewrite Forall_forall in IH. apply IH; auto.
  - rewrite co_sum. pose proof (tgood_sum_size l H) as Hs. destruct (keptb V (tw (TSum l))).
    + cbn [tgood] in *. apply andb_true_iff in H. destruct H as [H1 H2]. apply andb_true_iff. split.
      * rewrite forallb_forall in *. intros x Hx. apply in_map_iff in Hx. destruct Hx as (y & <- & Hy).
        rewrite Forall_forall in IH. apply IH; auto.
      * rewrite tsum_map_co; [exact H2|]. apply Forall_forall. intros t _. apply co_tsize.
    + cbn [tgood]. apply Nat.leb_le. lia.
Qed.

Lemma gprime_tgood p : gprime p = true -> tgood p = true.
Proof.
  destruct p as [n|l|l]; cbn [gprime]; intros H; [|discriminate|exact H].
  cbn [tgood]. apply Nat.leb_le in H. apply Nat.leb_le. lia.
Qed.

Lemma co_gprime V p : gprime p = true -> gprime (co V p) = true.
Proof.
  intros H. destruct p as [n|l|l]; [exact H|discriminate|].
  pose proof (co_tgood V (TSum l) H) as Hg. rewrite co_sum in *. destruct (keptb V (tw (TSum l))).
  - exact Hg.
  - cbn [gprime]. apply Nat.leb_le. apply tgood_sum_size. exact H.
Qed.

Lemma co_gprimes V ps : gprimes ps -> gprimes (map (co V) ps).
Proof. induction 1 as [|p ps Hp _ IH]; [constructor|]. cbn [map]. constructor; [apply co_gprime; exact Hp|exact IH]. Qed.

Lemma co_tprimes V t : tgood t = true -> tprimes (co V t) = map (co V) (tprimes t).
Proof.
  induction t as [n|l IH|l IH] using ity_ind'; intros H.
  - cbn [co tprimes]. destruct (Nat.eqb n 1); reflexivity.
  - cbn [co tprimes tgood] in *. induction l as [|x l IHl]; [reflexivity|]. cbn [map flat_map forallb] in *.
    apply andb_true_iff in H. destruct H as [Hx Hl]. inversion IH; subst. rewrite map_app, H1, IHl by assumption. reflexivity.
  - pose proof (tgood_sum_size l H) as Hs. cbn [tprimes map]. rewrite co_sum. destruct (keptb V (tw (TSum l))); [reflexivity|].
    cbn [tprimes]. destruct (Nat.eqb_spec (tsize (TSum l)) 1); [lia|reflexivity].
Qed.

Lemma coG_good V G : ctx_good G -> ctx_good (coG V G).
Proof. intros CG k. apply co_gprimes. apply CG. Qed.
Lemma coG_below V G nx : ctx_below G nx -> ctx_below (coG V G) nx.
Proof. intros CB k Hk. unfold coG. rewrite (CB k Hk). reflexivity. Qed.

(** * the judgement is kept when [V] has the weights of the sum types of the derivation *)
Lemma co_ty_both G :
  (forall e ps, ty G e ps -> gprimes ps ->
     exists V0, length V0 = nsum e /\ forall V, incl V0 V -> ty (coG V G) e (map (co V) ps)) /\
  (forall l ps, tyl G l ps -> gprimes ps ->
     exists V0, length V0 = nsum_list l /\ forall V, incl V0 V -> tyl (coG V G) l (map (co V) ps)).
Proof.
  apply ty_tyl_ind.
  - intros k n N -> _. exists []. split; [reflexivity|]. intros V _.
    change (map (co V) (G k)) with (coG V G k). constructor.
    + unfold coG. destruct (G k); [congruence|discriminate].
    + unfold coG. rewrite co_tsizes. reflexivity.
  - intros b t a pre tj post -> -> _ IH Gp. inversion Gp as [|? ? Gsum _]; subst.
    assert (Gtj : tgood tj = true) by (eapply gprime_summand; eauto).
    destruct (IH (tgood_primes _ Gtj)) as (V0 & LV & HV).
    exists (tw (TSum (pre ++ tj :: post)) :: V0). split; [simpl; rewrite LV; reflexivity|].
    intros V Hin. cbn [map]. rewrite co_sum, keptb_in by (apply Hin; left; reflexivity).
    rewrite map_app. cbn [map]. constructor.
    + rewrite co_tsum. reflexivity.
    + rewrite co_tsum. reflexivity.
    + rewrite (co_tprimes V tj Gtj). apply HV. intros w Hw. apply Hin. right. exact Hw.
  - intros l ps Hl _ IH Gp. destruct (IH Gp) as (V0 & LV & HV). exists V0. split; [exact LV|].
    intros V Hin. constructor; [exact Hl|apply HV; exact Hin].
  - intros _. exists []. split; [reflexivity|]. intros V _. constructor.
  - intros x l p1 ps Hx _ IHx _ IHl Gp. apply gprimes_app in Gp. destruct Gp as [G1 G2].
    destruct (IHx G1) as (Vx & Lx & Hvx). destruct (IHl G2) as (Vl & Ll & Hvl).
    exists (Vx ++ Vl). split; [rewrite app_length, Lx, Ll; reflexivity|].
    intros V Hin. rewrite map_app. constructor; [exact Hx|apply Hvx|apply Hvl]; intros w Hw; apply Hin; apply in_or_app; auto.
Qed.

Lemma co_tys G es pss : tys G es pss -> Forall gprimes pss ->
  exists V0, length V0 = nsum_list es /\ forall V, incl V0 V -> tys (coG V G) es (map (map (co V)) pss).
Proof.
  induction 1 as [|e es ps pss He Hes IH]; intros Gp.
  - exists []. split; [reflexivity|]. intros V _. constructor.
  - inversion Gp; subst. destruct (proj1 (co_ty_both G) e ps He H1) as (Ve & Le & Hve).
    destruct (IH H2) as (Vs & Ls & Hvs). exists (Ve ++ Vs). split; [rewrite app_length, Le, Ls; reflexivity|].
    intros V Hin. cbn [map]. constructor; [apply Hve|apply Hvs]; intros w Hw; apply Hin; apply in_or_app; auto.
Qed.

(** * a good type of size [N] has at most [log2 N] primes *)
Lemma pow2_plen t : tgood t = true -> 2 ^ plen t <= tsize t.
Proof.
  induction t as [n|l IH|l IH] using ity_ind'; intros H.
  - cbn [plen tsize tgood] in *. apply Nat.leb_le in H. destruct (Nat.eqb_spec n 1); simpl; lia.
  - cbn [plen tsize tgood] in *. induction l as [|x l IHl]; [simpl; lia|]. cbn [fold_right forallb] in *.
    apply andb_true_iff in H. destruct H as [Hx Hl]. inversion IH; subst. rewrite Nat.pow_add_r.
    apply Nat.mul_le_mono; auto.
  - pose proof (tgood_sum_size l H). cbn [plen]. simpl Nat.pow. lia.
Qed.

Lemma pow2_length ps : gprimes ps -> 2 ^ length ps <= tsizes ps.
Proof.
  induction 1 as [|p ps Hp _ IH]; [simpl; lia|]. rewrite tsizes_cons. cbn [length]. rewrite Nat.pow_succ_r'.
  pose proof (gprime_size _ Hp). apply Nat.mul_le_mono; assumption.
Qed.

Lemma log2_bound a N : 2 ^ a <= N -> a <= Nat.log2 N.
Proof. intros H. rewrite <- (Nat.log2_pow2 a) by lia. apply Nat.log2_le_mono. exact H. Qed.

(** sizes of the parts *)
Lemma tsize_factor_le l x : forallb tgood l = true -> In x l -> tsize x <= tsize (TProd l).
Proof.
  cbn [tsize]. induction l as [|y l IH]; intros H Hx; [destruct Hx|]. cbn [forallb fold_right] in *.
  apply andb_true_iff in H. destruct H as [Hy Hl].
  assert (P : 1 <= fold_right (fun t acc => tsize t * acc) 1 l) by (apply (tgood_pos (TProd l)); exact Hl).
  pose proof (tgood_pos _ Hy). destruct Hx as [->|Hx]; [nia|]. specialize (IH Hl Hx). nia.
Qed.

Lemma tsize_summand_le l x : In x l -> tsize x <= tsize (TSum l).
Proof.
  cbn [tsize]. induction l as [|y l IH]; intros Hx; [destruct Hx|]. cbn [fold_right].
  destruct Hx as [->|Hx]; [lia|]. specialize (IH Hx). lia.
Qed.

Lemma tw_factor_le l x : In x l -> tw x < tw (TProd l).
Proof.
  cbn [tw]. induction l as [|y l IH]; intros Hx; [destruct Hx|]. cbn [fold_right].
  destruct Hx as [->|Hx]; [lia|]. specialize (IH Hx). lia.
Qed.
Lemma tw_summand_lt l x : In x l -> tw x < tw (TSum l).
Proof.
  cbn [tw]. induction l as [|y l IH]; intros Hx; [destruct Hx|]. cbn [fold_right].
  destruct Hx as [->|Hx]; [lia|]. specialize (IH Hx). lia.
Qed.

(** * counting the kept weights below a bound *)
Definition cnt (V : list nat) (n : nat) : nat := length (filter (fun w => w <=? n) V).

Lemma cnt_mono V n m : n <= m -> cnt V n <= cnt V m.
Proof.
  intros L. unfold cnt. induction V as [|w V IH]; simpl; [lia|].
  destruct (Nat.leb_spec w n), (Nat.leb_spec w m); simpl; lia.
Qed.
Lemma cnt_lt V n w : In w V -> n < w -> cnt V n < cnt V w.
Proof.
  intros H L. unfold cnt. induction V as [|v V IH]; [destruct H|]. simpl.
  destruct H as [->|H].
  - destruct (Nat.leb_spec w n); [lia|]. rewrite Nat.leb_refl. simpl.
    pose proof (cnt_mono V n w ltac:(lia)). unfold cnt in *. lia.
  - specialize (IH H). destruct (Nat.leb_spec v n), (Nat.leb_spec v w); simpl; lia.
Qed.
Lemma cnt_le_length V n : cnt V n <= length V.
Proof. unfold cnt. induction V as [|w V IH]; simpl; [lia|]. destruct (w <=? n); simpl; lia. Qed.

Lemma fold_max_le {A} (f : A -> nat) l B : (forall x, In x l -> f x <= B) ->
  fold_right (fun t acc => Nat.max (f t) acc) 0 l <= B.
Proof.
  induction l as [|x l IH]; intros H; simpl; [lia|].
  pose proof (H x (or_introl eq_refl)). specialize (IH (fun y Hy => H y (or_intror Hy))). lia.
Qed.

(** * the bound on the path weight of the translated type *)
Section Bound.
Variable V : list nat.
Variable N : nat.
Let L := Nat.log2 N.

Lemma co_plen_le t : tgood t = true -> tsize t <= N -> plen (co V t) <= L.
Proof.
  intros H S. apply log2_bound. pose proof (pow2_plen _ (co_tgood V t H)). rewrite co_tsize in *. lia.
Qed.

Lemma co_pmx_bound t : tgood t = true -> tsize t <= N -> pmx (co V t) <= cnt V (tw t) * S L.
Proof.
  induction t as [n|l IH|l IH] using ity_ind'; intros H Hs.
  - simpl. lia.
  - cbn [co pmx]. apply fold_max_le. intros y Hy. apply in_map_iff in Hy. destruct Hy as (x & <- & Hx).
    rewrite Forall_forall in IH. cbn [tgood] in H.
    assert (Gx : tgood x = true) by (rewrite forallb_forall in H; auto).
    pose proof (tsize_factor_le l x H Hx). pose proof (tw_factor_le l x Hx).
    specialize (IH x Hx Gx ltac:(lia)). pose proof (cnt_mono V (tw x) (tw (TProd l)) ltac:(lia)). nia.
  - rewrite co_sum. destruct (keptb V (tw (TSum l))) eqn:K; [|simpl; lia].
    apply keptb_true in K. cbn [pmx].
    assert (B : fold_right (fun t acc => Nat.max (plen t + pmx t) acc) 0 (map (co V) l) <= L + (cnt V (tw (TSum l)) - 1) * S L).
    { apply fold_max_le. intros y Hy. apply in_map_iff in Hy. destruct Hy as (x & <- & Hx).
      rewrite Forall_forall in IH. cbn [tgood] in H. apply andb_true_iff in H. destruct H as [H _].
      assert (Gx : tgood x = true) by (rewrite forallb_forall in H; auto).
      pose proof (tsize_summand_le l x Hx). pose proof (tw_summand_lt l x Hx).
      specialize (IH x Hx Gx ltac:(lia)). pose proof (co_plen_le x Gx ltac:(lia)).
      pose proof (cnt_lt V (tw x) (tw (TSum l)) K ltac:(lia)). nia. }
    pose proof (cnt_lt V 0 (tw (TSum l)) K ltac:(simpl; lia)). nia.
Qed.

Lemma co_pm_bound ps : gprimes ps -> tsizes ps <= N -> pm (map (co V) ps) <= L + length V * S L.
Proof.
  intros Gp Hs. unfold pm. rewrite map_length.
  assert (A : length ps <= L) by (apply log2_bound; pose proof (pow2_length ps Gp); lia).
  assert (B : pmxs (map (co V) ps) <= length V * S L).
  { unfold pmxs. apply fold_max_le. intros y Hy. apply in_map_iff in Hy. destruct Hy as (p & <- & Hp).
    unfold gprimes in Gp. rewrite Forall_forall in Gp. pose proof (Gp p Hp) as Gpp.
    assert (Sp : tsize p <= tsizes ps).
    { clear -Gp Hp. induction ps as [|q ps IH]; [destruct Hp|]. rewrite tsizes_cons.
      assert (P : 1 <= tsizes ps).
      { apply gprimes_pos. apply Forall_forall. intros z Hz. apply Gp. right. exact Hz. }
      pose proof (gprime_size q (Gp q (or_introl eq_refl))).
      destruct Hp as [->|Hp]; [nia|]. specialize (IH (fun z Hz => Gp z (or_intror Hz)) Hp). nia. }
    pose proof (co_pmx_bound p (gprime_tgood p Gpp) ltac:(lia)). pose proof (cnt_le_length V (tw p)). nia. }
  lia.
Qed.
End Bound.
