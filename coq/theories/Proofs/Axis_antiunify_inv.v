(** Syntactic invariants of [antiunify] needed by the tensor-level theorems: the new variables are
    fresh and pairwise distinct, the generalisation mentions only (and all of the) new variables,
    the recorded parts mention only variables of the corresponding argument, and every variable of
    an argument is covered by some recorded part. *)
From Coq Require Import List Arith Lia PeanoNat Bool PArith.
Import ListNotations.
Require Import Fggs.Model.Axis.
Require Import Fggs.Proofs.Axis_sem Fggs.Proofs.Axis_unify Fggs.Proofs.Axis_antiunify.

Definition below (B : positive) (e : axis) : Prop := forall k, In k (fv e) -> (k < B)%positive.
Definition akeys (l : list aentry) : list positive := map (fun en => match en with (k, _, _, _) => k end) l.
Definition part1 (en : aentry) : axis := match en with (_, _, e, _) => e end.
Definition part2 (en : aentry) : axis := match en with (_, _, _, f) => f end.

Record ainv (B : positive) (st : astate) : Prop := {
  ai_ok : entries_ok (as_list st);
  ai_keys : forall k, In k (akeys (as_list st)) -> (B <= k)%positive /\ (k < as_next st)%positive;
  ai_nodup : NoDup (akeys (as_list st));
  ai_parts : forall k n e f, In (k, n, e, f) (as_list st) ->
               (e = Phys k n \/ below B e) /\ (f = Phys k n \/ below B f);
  ai_next : (B <= as_next st)%positive }.

(** what a call that generalises the lists [es], [fs] to [gs] adds *)
Record aresult (B : positive) (es fs gs : list axis) (st st' : astate) : Prop := {
  ar_inv : ainv B st';
  ar_ext : exists ext, as_list st' = as_list st ++ ext /\
             (forall en, In en ext -> (forall kn, In kn (fvn (part1 en)) -> In kn (flat_map fvn es)) /\
                                      (forall kn, In kn (fvn (part2 en)) -> In kn (flat_map fvn fs))) /\
             (forall k, In k (akeys ext) -> exists n, In (k, n) (flat_map fvn gs));
  ar_gpairs : forall k n, In (k, n) (flat_map fvn gs) -> exists e f, In (k, n, e, f) (as_list st');
  ar_cover1 : forall kn, In kn (flat_map fvn es) -> exists en, In en (as_list st') /\ In kn (fvn (part1 en));
  ar_cover2 : forall kn, In kn (flat_map fvn fs) -> exists en, In en (as_list st') /\ In kn (fvn (part2 en)) }.

Lemma fvn_factors l kn : In kn (flat_map fvn (flat_map factors_of l)) <-> In kn (flat_map fvn l).
Proof.
  induction l as [|x l IH]; simpl; [tauto|]. rewrite flat_map_app, !in_app_iff, IH.
  assert (In kn (flat_map fvn (factors_of x)) <-> In kn (fvn x)) as ->; [|tauto].
  destruct x as [k' n|l'|b t a]; simpl; rewrite ?app_nil_r; tauto.
Qed.

Lemma fvn_productAxis l kn : In kn (fvn (productAxis l)) <-> In kn (flat_map fvn l).
Proof.
  rewrite <- fvn_factors. unfold productAxis.
  destruct (flat_map factors_of l) as [|x [|y r]]; simpl; rewrite ?app_nil_r; tauto.
Qed.

Lemma fv_fvn' e : fv e = map fst (fvn e).
Proof.
  induction e as [k n|l IH|b t a IH] using axis_ind'; [reflexivity| |exact IH].
  simpl. induction l as [|x l IHl]; [reflexivity|]. inversion IH; subst. simpl. rewrite map_app, H1, IHl by assumption. reflexivity.
Qed.

Lemma fv_of_fvn e k : In k (fv e) <-> exists n, In (k, n) (fvn e).
Proof.
  rewrite fv_fvn', in_map_iff. split.
  - intros ([k' n] & <- & H). exists n. exact H.
  - intros (n & H). exists (k, n). auto.
Qed.

Lemma fv_productAxis' l k : In k (fv (productAxis l)) <-> In k (flat_map fv l).
Proof.
  rewrite fv_of_fvn. split.
  - intros (n & H). apply fvn_productAxis in H. apply in_flat_map in H. destruct H as (x & Hx & H).
    apply in_flat_map. exists x. split; [exact Hx|]. apply fv_of_fvn. eauto.
  - intros H. apply in_flat_map in H. destruct H as (x & Hx & H). apply fv_of_fvn in H. destruct H as (n & H).
    exists n. apply fvn_productAxis. apply in_flat_map. eauto.
Qed.

Lemma below_productAxis B l : (forall x, In x l -> below B x) -> below B (productAxis l).
Proof.
  intros H k Hk. apply fv_productAxis' in Hk. apply in_flat_map in Hk. destruct Hk as (x & Hx & Hk). exact (H x Hx k Hk).
Qed.

Lemma akeys_app a b : akeys (a ++ b) = akeys a ++ akeys b.
Proof. unfold akeys. apply map_app. Qed.

Lemma afind_key e f l k n : afind e f l = Some (k, n) -> In k (akeys l).
Proof.
  intros H. apply afind_In in H. unfold akeys. apply in_map_iff. exists (k, n, e, f). auto.
Qed.

Lemma NoDup_snoc {A} (l : list A) x : NoDup l -> ~ In x l -> NoDup (l ++ [x]).
Proof.
  induction l as [|y l IH]; simpl; intros H N; [constructor; [intros []|constructor]|].
  inversion H; subst. constructor.
  - intros Hin. apply in_app_or in Hin. destruct Hin as [Hin|[->|[]]]; [contradiction|apply N; left; reflexivity].
  - apply IH; [assumption|]. intros Hx. apply N. right. exact Hx.
Qed.

Lemma ainv_warn B (c : bool) st : ainv B st -> ainv B (if c then st else a_warn st).
Proof. destruct c; [auto|]. intros [H1 H2 H3 H4 H5]. constructor; assumption. Qed.

Lemma flat1 {A B} (f : A -> list B) x : flat_map f [x] = f x.
Proof. simpl. apply app_nil_r. Qed.

Lemma extend_inv B e f st g st' :
  below B e -> below B f -> ainv B st -> extend_antisubst e f st = (g, st') -> aresult B [e] [f] [g] st st'.
Proof.
  intros Be Bf I H. unfold extend_antisubst in H. destruct (afind e f (as_list st)) as [[k n]|] eqn:F.
  - inversion H; subst. constructor; rewrite ?flat1.
    + exact I.
    + exists []. rewrite app_nil_r. split; [reflexivity|]. split; intros ? [].
    + intros k' n' [E|[]]. inversion E; subst. exists e, f. eapply afind_In; eauto.
    + intros kn Hkn. exists (k, n, e, f). split; [eapply afind_In; eauto|exact Hkn].
    + intros kn Hkn. exists (k, n, e, f). split; [eapply afind_In; eauto|exact Hkn].
  - inversion H; subst. clear H. destruct I as [I1 I2 I3 I4 I5]. constructor; rewrite ?flat1.
    + constructor; cbn [as_list as_next].
      * apply Forall_app. split; [exact I1|]. constructor; [reflexivity|constructor].
      * intros k Hk. rewrite akeys_app in Hk. apply in_app_or in Hk. destruct Hk as [Hk|Hk].
        -- destruct (I2 k Hk). split; [assumption|]. lia.
        -- simpl in Hk. destruct Hk as [<-|[]]. split; [exact I5|lia].
      * rewrite akeys_app. simpl. apply NoDup_snoc; [exact I3|]. intros Hk. destruct (I2 _ Hk). lia.
      * intros k n e0 f0 Hin. apply in_app_or in Hin. destruct Hin as [Hin|Hin]; [exact (I4 _ _ _ _ Hin)|].
        destruct Hin as [Hin|[]]. inversion Hin; subst. split; right; assumption.
      * lia.
    + cbn [as_list]. eexists. split; [reflexivity|]. split.
      * intros en [<-|[]]. simpl. split; auto.
      * intros k [<-|[]]. simpl. eexists. left. reflexivity.
    + cbn [as_list]. intros k n [E|[]]. inversion E; subst. exists e, f. apply in_or_app. right. left. reflexivity.
    + cbn [as_list]. intros kn Hkn. eexists. split; [apply in_or_app; right; left; reflexivity|exact Hkn].
    + cbn [as_list]. intros kn Hkn. eexists. split; [apply in_or_app; right; left; reflexivity|exact Hkn].
Qed.

(** composing two consecutive results *)
Lemma aresult_seq B es1 fs1 gs1 es2 fs2 gs2 st st1 st2 :
  aresult B es1 fs1 gs1 st st1 -> aresult B es2 fs2 gs2 st1 st2 ->
  aresult B (es1 ++ es2) (fs1 ++ fs2) (gs1 ++ gs2) st st2.
Proof.
  intros [I1 (x1 & X1 & P1 & K1) G1 C1 D1] [I2 (x2 & X2 & P2 & K2) G2 C2 D2]. constructor.
  - exact I2.
  - exists (x1 ++ x2). split; [rewrite X2, X1, app_assoc; reflexivity|]. split.
    + intros en Hen. rewrite !flat_map_app. apply in_app_or in Hen. destruct Hen as [Hen|Hen].
      * destruct (P1 en Hen) as [A1 A2]. split; intros kn Hkn; apply in_or_app; left; auto.
      * destruct (P2 en Hen) as [A1 A2]. split; intros kn Hkn; apply in_or_app; right; auto.
    + intros k Hk. rewrite akeys_app in Hk.
      apply in_app_or in Hk. destruct Hk as [Hk|Hk]; [destruct (K1 k Hk) as (n & Hn)|destruct (K2 k Hk) as (n & Hn)];
        exists n; rewrite flat_map_app; apply in_or_app; [left|right]; exact Hn.
  - intros k n Hk. rewrite flat_map_app in Hk. apply in_app_or in Hk. destruct Hk as [Hk|Hk]; [|auto].
    destruct (G1 k n Hk) as (e & f & H). exists e, f. rewrite X2. apply in_or_app. left. exact H.
  - intros kn Hkn. rewrite flat_map_app in Hkn. apply in_app_or in Hkn. destruct Hkn as [Hkn|Hkn]; [|auto].
    destruct (C1 kn Hkn) as (en & Hen & H). exists en. split; [rewrite X2; apply in_or_app; left; exact Hen|exact H].
  - intros kn Hkn. rewrite flat_map_app in Hkn. apply in_app_or in Hkn. destruct Hkn as [Hkn|Hkn]; [|auto].
    destruct (D1 kn Hkn) as (en & Hen & H). exists en. split; [rewrite X2; apply in_or_app; left; exact Hen|exact H].
Qed.

Lemma aresult_nil B st : ainv B st -> aresult B [] [] [] st st.
Proof.
  intros I. constructor; [exact I| |intros k n []|intros kn []|intros kn []].
  exists []. rewrite app_nil_r. split; [reflexivity|]. split; intros ? [].
Qed.

(** re-labelling the lists by ones with the same free variables *)
Lemma aresult_equiv B es fs gs es' fs' gs' st st' :
  (forall kn, In kn (flat_map fvn es) <-> In kn (flat_map fvn es')) ->
  (forall kn, In kn (flat_map fvn fs) <-> In kn (flat_map fvn fs')) ->
  (forall kn, In kn (flat_map fvn gs) <-> In kn (flat_map fvn gs')) ->
  aresult B es fs gs st st' -> aresult B es' fs' gs' st st'.
Proof.
  intros He Hf Hg [I (x & X & P & K) G C D]. constructor.
  - exact I.
  - exists x. split; [exact X|]. split.
    + intros en Hen. destruct (P en Hen) as [A1 A2]. split; intros kn Hkn; [apply He|apply Hf]; auto.
    + intros k Hk. destruct (K k Hk) as (n & Hn). exists n. apply Hg. exact Hn.
  - intros k n Hk. apply G. apply Hg. exact Hk.
  - intros kn Hkn. apply C. apply He. exact Hkn.
  - intros kn Hkn. apply D. apply Hf. exact Hkn.
Qed.

Definition I_anti (fuel : nat) : Prop :=
  forall B e f st g st', below B e -> below B f -> ainv B st ->
    antiunify fuel e f st = Ok (g, st') -> aresult B [e] [f] [g] st st'.

Definition I_sweep (fuel : nat) : Prop :=
  forall B egrp erest fgrp frest en fn ret st rets st',
    (forall x, In x (egrp ++ erest) -> below B x) -> (forall x, In x (fgrp ++ frest) -> below B x) -> ainv B st ->
    sweep fuel egrp erest fgrp frest en fn ret st = Ok (rets, st') ->
    exists new, rets = ret ++ new /\ aresult B (egrp ++ erest) (fgrp ++ frest) new st st'.

Lemma below_flat B l : (forall x, In x l -> below B x) <-> (forall k, In k (flat_map fv l) -> (k < B)%positive).
Proof.
  split.
  - intros H k Hk. apply in_flat_map in Hk. destruct Hk as (x & Hx & Hk). exact (H x Hx k Hk).
  - intros H x Hx k Hk. apply H. apply in_flat_map. eauto.
Qed.

Lemma inv_step fuel : I_anti fuel -> I_sweep fuel -> I_anti (S fuel) /\ I_sweep (S fuel).
Proof.
  intros IHa IHs. split.
  - intros B e f st0 g st' Be Bf I0 H. cbn [antiunify] in H.
    remember (if Nat.eqb (numel e) (numel f) then st0 else a_warn st0) as st eqn:Est.
    assert (I : ainv B st) by (subst st; apply ainv_warn; exact I0).
    assert (Els : as_list st = as_list st0) by (subst st; apply as_list_warn_if).
    assert (G : aresult B [e] [f] [g] st st').
    2:{ destruct G as [G1 (x & X & P & K) G3 G4 G5]. constructor; try assumption.
        exists x. rewrite <- Els. auto. }
    clear Est I0 Els st0.
    destruct e as [k1 n1|l1|b1 t1 a1]; destruct f as [k2 n2|l2|b2 t2 a2];
      try (inversion H as [H']; apply (extend_inv B _ _ _ _ _ Be Bf I H')).
    + (* Prod, Prod *)
      destruct (negb (zero (Prod l1)) && negb (zero (Prod l2))).
      * destruct (sweep fuel [] l1 [] l2 1 1 [] st) as [[rets st1]|] eqn:Sw; [|discriminate].
        cbn [bind fst snd] in H. inversion H; subst. clear H.
        destruct (IHs B [] l1 [] l2 1 1 [] st rets st') as (new & Enew & R); try assumption.
        { intros x Hx k Hk. apply Be. simpl. apply in_flat_map. eauto. }
        { intros x Hx k Hk. apply Bf. simpl. apply in_flat_map. eauto. }
        simpl in Enew. subst rets. simpl in R.
        eapply aresult_equiv; [| | |exact R].
        -- intros kn. rewrite flat1. reflexivity.
        -- intros kn. rewrite flat1. reflexivity.
        -- intros kn. rewrite flat1. symmetry. apply fvn_productAxis.
      * inversion H as [H']. apply (extend_inv B _ _ _ _ _ Be Bf I H').
    + (* Sum, Sum *)
      destruct (Nat.eqb b1 b2 && Nat.eqb a1 a2).
      * destruct (antiunify fuel t1 t2 st) as [[g1 st1]|] eqn:E1; [|discriminate].
        cbn [bind fst snd] in H. inversion H; subst. clear H.
        eapply aresult_equiv; [| | |exact (IHa B t1 t2 st g1 st' Be Bf I E1)]; intros; simpl; reflexivity.
      * inversion H as [H']. apply (extend_inv B _ _ _ _ _ Be Bf I H').
  - intros B egrp erest fgrp frest en fn ret st rets st' Be Bf I H. cbn [sweep] in H.
    destruct (negb (nonempty egrp || nonempty erest || nonempty fgrp || nonempty frest)) eqn:Done.
    { apply negb_true_iff in Done. repeat (apply orb_false_iff in Done; destruct Done as [Done ?]).
      apply nonempty_false in Done. repeat match goal with X : nonempty _ = false |- _ => apply nonempty_false in X end.
      subst. inversion H; subst. exists []. rewrite app_nil_r. split; [reflexivity|]. apply aresult_nil. exact I. }
    clear Done.
    destruct (Nat.eqb en fn && (nonempty egrp || nonempty fgrp)).
    + set (e1 := productAxis egrp) in *. set (f1 := productAxis fgrp) in *.
      destruct ((if is_prod e1 && is_prod f1 then Ok (extend_antisubst e1 f1 st) else antiunify fuel e1 f1 st))
        as [[g1 st1]|] eqn:R; [|discriminate].
      cbn [bind fst snd] in H.
      assert (Be1 : below B e1).
      { apply below_productAxis. intros x Hx. apply Be. apply in_or_app. left. exact Hx. }
      assert (Bf1 : below B f1).
      { apply below_productAxis. intros x Hx. apply Bf. apply in_or_app. left. exact Hx. }
      assert (G1 : aresult B [e1] [f1] [g1] st st1).
      { destruct (is_prod e1 && is_prod f1).
        - inversion R as [R']. apply (extend_inv B _ _ _ _ _ Be1 Bf1 I R').
        - exact (IHa B e1 f1 st g1 st1 Be1 Bf1 I R). }
      destruct (IHs B [] erest [] frest en fn (ret ++ [g1]) st1 rets st') as (new & Enew & R2); try assumption.
      { intros x Hx. apply Be. apply in_or_app. right. exact Hx. }
      { intros x Hx. apply Bf. apply in_or_app. right. exact Hx. }
      { exact (ar_inv _ _ _ _ _ _ G1). }
      exists (g1 :: new). split; [rewrite Enew, <- app_assoc; reflexivity|].
      pose proof (aresult_seq _ _ _ _ _ _ _ _ _ _ G1 R2) as S. simpl in S.
      eapply aresult_equiv; [| | |exact S].
      * intros kn. simpl. rewrite flat_map_app, !in_app_iff. unfold e1. rewrite fvn_productAxis. tauto.
      * intros kn. simpl. rewrite flat_map_app, !in_app_iff. unfold f1. rewrite fvn_productAxis. tauto.
      * intros kn. reflexivity.
    + destruct (en <? fn).
      * destruct erest as [|x erest']; [discriminate|].
        destruct (IHs B (egrp ++ [x]) erest' fgrp frest (en * numel x) fn ret st rets st') as (new & Enew & R); try assumption.
        { rewrite <- app_assoc. exact Be. }
        exists new. split; [exact Enew|]. rewrite <- app_assoc in R. exact R.
      * destruct frest as [|y frest']; [discriminate|].
        destruct (IHs B egrp erest (fgrp ++ [y]) frest' en (fn * numel y) ret st rets st') as (new & Enew & R); try assumption.
        { rewrite <- app_assoc. exact Bf. }
        exists new. split; [exact Enew|]. rewrite <- app_assoc in R. exact R.
Qed.

Theorem antiunify_inv : forall fuel, I_anti fuel /\ I_sweep fuel.
Proof.
  induction fuel as [|fuel [IHa IHs]].
  - split; [intros ? ? ? ? ? ? ? ? ? H|intros ? ? ? ? ? ? ? ? ? ? ? ? ? ? H]; discriminate.
  - apply inv_step; assumption.
Qed.
