(** C08, float level: transfer of the laws of Proofs/FloatFormatLaws.v (one-NaN layer [ff_*])
    to IEEE floats WITH NaN payloads ([fp_*] over Flocq's [Binary.binary_float prec emax]),
    for every NaN-choosing function [pnan]; the explicit binary32 / binary64 instances; and
    the concrete witnesses against the laws that rounding destroys. *)
From Coq Require Import ZArith Bool Reals Lia.
From Flocq Require Import Core.
Require Import Fggs.Model.FloatFormat Fggs.Proofs.FloatFormatLaws.

Section Payload.

Variable prec emax : Z.
Context (prec_gt_0_ : Prec_gt_0 prec).
Context (prec_lt_emax_ : SN.Prec_lt_emax prec emax).

Notation fb := (FB.binary_float prec emax).
Notation bf := (SN.binary_float prec emax).
Variable pnan : fb -> fb -> { x : fb | FB.is_nan prec emax x = true }.

Notation "# x" := (FB.B2BSN prec emax x) (at level 9, format "# x").
Notation same := (fp_same prec emax).

Notation fzero := (fp_zero prec emax).
Notation finf := (fp_inf prec emax).
Notation fninf := (fp_ninf prec emax).
Notation fone := (fp_one prec emax prec_gt_0_ prec_lt_emax_).
Notation fadd := (fp_add prec emax prec_gt_0_ prec_lt_emax_ pnan).
Notation fmul := (fp_mul prec emax prec_gt_0_ prec_lt_emax_ pnan).
Notation fltb := (fp_ltb prec emax).
Notation fleb := (fp_leb prec emax).
Notation fmax := (fp_max prec emax).
Notation freal_mul := (fp_real_mul prec emax prec_gt_0_ prec_lt_emax_ pnan).
Notation fvit_mul := (fp_vit_mul prec emax prec_gt_0_ prec_lt_emax_ pnan).
Notation fvit_star := (fp_vit_star prec emax).
Notation isnan := (FB.is_nan prec emax).

(** ** [same] is "equal, or both NaN" *)
Lemma fp_same_iff (x y : fb) : same x y <-> x = y \/ (isnan x = true /\ isnan y = true).
Proof.
  unfold fp_same. split.
  - intros E.
    destruct (isnan x) eqn:Nx.
    + right. split; trivial. rewrite <- (FB.is_nan_B2BSN prec emax) in Nx |- *. now rewrite <- E.
    + left. apply FB.B2FF_inj.
      destruct x as [sx|sx|sx px Hx|sx mx ex Hx]; try discriminate;
        destruct y as [sy|sy|sy py Hy|sy my ey Hy]; try discriminate; cbn in E |- *; now inversion E.
  - intros [->|[Nx Ny]]; trivial.
    destruct x as [sx|sx|sx px Hx|sx mx ex Hx]; try discriminate;
      destruct y as [sy|sy|sy py Hy|sy my ey Hy]; try discriminate; reflexivity.
Qed.

Lemma fp_same_eq (x y : fb) : same x y -> isnan x = false -> x = y.
Proof. intros S N. apply fp_same_iff in S. destruct S as [E|[N' _]]; trivial. congruence. Qed.

(** ** every IEEE operation commutes with forgetting the payload *)
Lemma is_nan_B2BSN (x : fb) : SN.is_nan #x = isnan x.
Proof. apply FB.is_nan_B2BSN. Qed.
Lemma fp_add_B2BSN x y : #(fadd x y) = ff_add prec emax prec_gt_0_ prec_lt_emax_ #x #y.
Proof. apply FB.B2BSN_BSN2B. Qed.
Lemma fp_sub_B2BSN x y :
  #(fp_sub prec emax prec_gt_0_ prec_lt_emax_ pnan x y) = ff_sub prec emax prec_gt_0_ prec_lt_emax_ #x #y.
Proof. apply FB.B2BSN_BSN2B. Qed.
Lemma fp_mul_B2BSN x y : #(fmul x y) = ff_mul prec emax prec_gt_0_ prec_lt_emax_ #x #y.
Proof. apply FB.B2BSN_BSN2B. Qed.
Lemma fp_div_B2BSN x y :
  #(fp_div prec emax prec_gt_0_ prec_lt_emax_ pnan x y) = ff_div prec emax prec_gt_0_ prec_lt_emax_ #x #y.
Proof. apply FB.B2BSN_BSN2B. Qed.
Lemma fp_ltb_B2BSN x y : fltb x y = ff_ltb prec emax #x #y.
Proof. reflexivity. Qed.
Lemma fp_leb_B2BSN x y : fleb x y = ff_leb prec emax #x #y.
Proof. reflexivity. Qed.
Lemma fp_eqb_B2BSN x y : fp_eqb prec emax x y = ff_eqb prec emax #x #y.
Proof. reflexivity. Qed.
Lemma fp_one_B2BSN : #fone = ff_one prec emax prec_gt_0_ prec_lt_emax_.
Proof. apply FB.B2BSN_BSN2B'. Qed.
Lemma fp_lowest_B2BSN :
  #(fp_lowest prec emax prec_gt_0_ prec_lt_emax_) = ff_lowest prec emax prec_gt_0_ prec_lt_emax_.
Proof. apply FB.B2BSN_BSN2B'. Qed.
Lemma fp_highest_B2BSN :
  #(fp_highest prec emax prec_gt_0_ prec_lt_emax_) = ff_highest prec emax prec_gt_0_ prec_lt_emax_.
Proof. apply FB.B2BSN_BSN2B'. Qed.
Lemma fp_nan_to_num_B2BSN x a b c :
  #(fp_nan_to_num prec emax x a b c) = ff_nan_to_num prec emax #x #a #b #c.
Proof. now destruct x as [s|[|]|s p H|s m e H]. Qed.
Lemma fp_relu_B2BSN x : #(fp_relu prec emax x) = ff_relu prec emax #x.
Proof. unfold fp_relu, ff_relu. rewrite fp_ltb_B2BSN. now destruct ff_ltb. Qed.
Lemma fp_max_B2BSN x y : #(fmax x y) = ff_max prec emax #x #y.
Proof.
  unfold fp_max, ff_max. rewrite !is_nan_B2BSN, fp_ltb_B2BSN.
  destruct (isnan x); trivial. destruct (isnan y); trivial. now destruct ff_ltb.
Qed.
Lemma fp_real_mul_B2BSN x y : #(freal_mul x y) = ff_real_mul prec emax prec_gt_0_ prec_lt_emax_ #x #y.
Proof. unfold fp_real_mul, ff_real_mul. now rewrite fp_nan_to_num_B2BSN, fp_mul_B2BSN, fp_lowest_B2BSN. Qed.
Lemma fp_real_sub_B2BSN x y :
  #(fp_real_sub prec emax prec_gt_0_ prec_lt_emax_ pnan x y) = ff_real_sub prec emax prec_gt_0_ prec_lt_emax_ #x #y.
Proof.
  unfold fp_real_sub, ff_real_sub.
  now rewrite fp_nan_to_num_B2BSN, fp_relu_B2BSN, fp_sub_B2BSN, fp_lowest_B2BSN.
Qed.
Lemma fp_real_star_B2BSN x :
  #(fp_real_star prec emax prec_gt_0_ prec_lt_emax_ pnan x) = ff_real_star prec emax prec_gt_0_ prec_lt_emax_ #x.
Proof.
  unfold fp_real_star, ff_real_star. rewrite fp_leb_B2BSN, fp_one_B2BSN.
  destruct ff_leb; trivial. now rewrite fp_div_B2BSN, fp_sub_B2BSN, fp_one_B2BSN.
Qed.
Lemma fp_real_from_int_B2BSN n :
  #(fp_real_from_int prec emax prec_gt_0_ prec_lt_emax_ n) = ff_real_from_int prec emax prec_gt_0_ prec_lt_emax_ n.
Proof. apply FB.B2BSN_BSN2B'. Qed.
Lemma fp_vit_mul_B2BSN x y : #(fvit_mul x y) = ff_vit_mul prec emax prec_gt_0_ prec_lt_emax_ #x #y.
Proof. unfold fp_vit_mul, ff_vit_mul. now rewrite fp_nan_to_num_B2BSN, fp_add_B2BSN. Qed.
Lemma fp_vit_star_B2BSN x : #(fvit_star x) = ff_vit_star prec emax #x.
Proof. unfold fp_vit_star, ff_vit_star. rewrite fp_ltb_B2BSN. now destruct ff_ltb. Qed.

Lemma fp_real_mul_not_nan x y : isnan (freal_mul x y) = false.
Proof. rewrite <- is_nan_B2BSN, fp_real_mul_B2BSN. apply real_mul_not_nan. Qed.
Lemma fp_vit_mul_not_nan x y : isnan (fvit_mul x y) = false.
Proof. rewrite <- is_nan_B2BSN, fp_vit_mul_B2BSN. apply vit_mul_not_nan. Qed.

Lemma B2BSN_neq_nzero x : x <> FB.B754_zero prec emax true -> #x <> ff_nzero prec emax.
Proof. intros H E. apply H. now destruct x as [[|]|s|s p Hp|s m e Hm]. Qed.
Lemma B2BSN_neq_ninf x : x <> fninf -> #x <> ff_ninf prec emax.
Proof. intros H E. apply H. now destruct x as [s|[|]|s p Hp|s m e Hm]. Qed.

(** ** the laws, for IEEE floats with payloads and any [pnan] *)

Theorem fp_add_comm x y : same (fadd x y) (fadd y x).
Proof. unfold fp_same. rewrite !fp_add_B2BSN. apply ff_add_comm. Qed.
Theorem fp_mul_comm x y : same (fmul x y) (fmul y x).
Proof. unfold fp_same. rewrite !fp_mul_B2BSN. apply ff_mul_comm. Qed.
Theorem fp_real_mul_comm x y : freal_mul x y = freal_mul y x.
Proof.
  apply fp_same_eq; [|apply fp_real_mul_not_nan].
  unfold fp_same. rewrite !fp_real_mul_B2BSN. apply ff_real_mul_comm.
Qed.
Theorem fp_vit_mul_comm x y : fvit_mul x y = fvit_mul y x.
Proof.
  apply fp_same_eq; [|apply fp_vit_mul_not_nan].
  unfold fp_same. rewrite !fp_vit_mul_B2BSN. apply ff_vit_mul_comm.
Qed.

Theorem fp_real_mul_zero x :
  FB.Bsign prec emax x = false \/ isnan x = true -> freal_mul fzero x = fzero /\ freal_mul x fzero = fzero.
Proof.
  intros H.
  assert (S : SN.Bsign #x = false).
  { destruct H as [H|H]; [|now destruct x]. destruct x; trivial. }
  destruct (ff_real_mul_zero prec emax prec_gt_0_ prec_lt_emax_ #x S) as [A B].
  split; (apply fp_same_eq; [|apply fp_real_mul_not_nan]); unfold fp_same; rewrite fp_real_mul_B2BSN; assumption.
Qed.
Corollary fp_real_mul_zero_inf : freal_mul fzero finf = fzero /\ freal_mul finf fzero = fzero.
Proof. apply fp_real_mul_zero. now left. Qed.

Theorem fp_vit_mul_ninf x : fvit_mul fninf x = fninf /\ fvit_mul x fninf = fninf.
Proof.
  destruct (ff_vit_mul_ninf prec emax prec_gt_0_ prec_lt_emax_ #x) as [A B].
  split; (apply fp_same_eq; [|apply fp_vit_mul_not_nan]); unfold fp_same; rewrite fp_vit_mul_B2BSN; assumption.
Qed.

Theorem fp_add_zero x : x <> FB.B754_zero prec emax true -> same (fadd x fzero) x /\ same (fadd fzero x) x.
Proof.
  intros H. apply B2BSN_neq_nzero in H.
  destruct (ff_add_zero prec emax prec_gt_0_ prec_lt_emax_ #x H) as [A B].
  unfold fp_same. now rewrite !fp_add_B2BSN.
Qed.

Theorem fp_mul_one x : same (fmul x fone) x /\ same (fmul fone x) x.
Proof.
  destruct (ff_mul_one prec emax prec_gt_0_ prec_lt_emax_ #x) as [A B].
  unfold fp_same. now rewrite !fp_mul_B2BSN, fp_one_B2BSN.
Qed.

Theorem fp_real_mul_one x :
  isnan x = false -> x <> fninf -> freal_mul x fone = x /\ freal_mul fone x = x.
Proof.
  intros N H. apply B2BSN_neq_ninf in H. rewrite <- is_nan_B2BSN in N.
  destruct (ff_real_mul_one prec emax prec_gt_0_ prec_lt_emax_ #x N H) as [A B].
  split; (apply fp_same_eq; [|apply fp_real_mul_not_nan]); unfold fp_same;
    rewrite fp_real_mul_B2BSN, fp_one_B2BSN; assumption.
Qed.

Theorem fp_max_idem x : fmax x x = x.
Proof. unfold fp_max. destruct (isnan x); trivial. now destruct (fltb x x). Qed.
Theorem fp_max_assoc x y z : same (fmax (fmax x y) z) (fmax x (fmax y z)).
Proof. unfold fp_same. rewrite !fp_max_B2BSN. apply ff_max_assoc. Qed.
Theorem fp_max_comm x y :
  same (fmax x y) (fmax y x) \/ (fp_is_zero prec emax x = true /\ fp_is_zero prec emax y = true).
Proof.
  unfold fp_same. rewrite !fp_max_B2BSN.
  destruct (ff_max_comm prec emax #x #y) as [E|[Zx Zy]]; [now left|right].
  split; [now destruct x | now destruct y].
Qed.
Theorem fp_max_ninf x : fmax fninf x = x /\ fmax x fninf = x.
Proof.
  split.
  - now destruct x as [s|[|]|s p H|s m e H].
  - now destruct x as [s|[|]|s p H|[|] m e H].
Qed.

Theorem fp_add_mono a b c :
  fleb fzero a = true -> fleb fzero c = true -> fleb a b = true -> fleb (fadd a c) (fadd b c) = true.
Proof. rewrite !fp_leb_B2BSN, !fp_add_B2BSN. apply ff_add_mono. Qed.
Theorem fp_real_mul_mono a b c :
  fleb fzero a = true -> fleb fzero c = true -> fleb a b = true -> fleb (freal_mul a c) (freal_mul b c) = true.
Proof. rewrite !fp_leb_B2BSN, !fp_real_mul_B2BSN. apply ff_real_mul_mono. Qed.
Theorem fp_vit_mul_mono a b c : fleb a b = true -> fleb (fvit_mul a c) (fvit_mul b c) = true.
Proof. rewrite !fp_leb_B2BSN, !fp_vit_mul_B2BSN. apply ff_vit_mul_mono. Qed.

Theorem fp_vit_mul_max_distr a b c :
  isnan a = false -> isnan b = false -> fvit_mul (fmax a b) c = fmax (fvit_mul a c) (fvit_mul b c).
Proof.
  intros Na Nb. apply fp_same_eq; [|apply fp_vit_mul_not_nan].
  unfold fp_same. rewrite fp_max_B2BSN, !fp_vit_mul_B2BSN, fp_max_B2BSN.
  apply ff_vit_mul_max_distr; now rewrite is_nan_B2BSN.
Qed.

Theorem fp_vit_star_unfold x : fvit_star x = fmax fzero (fvit_mul x (fvit_star x)).
Proof.
  apply fp_same_eq.
  - unfold fp_same. rewrite fp_max_B2BSN, fp_vit_mul_B2BSN, !fp_vit_star_B2BSN.
    apply ff_vit_star_unfold.
  - unfold fp_vit_star. now destruct fltb.
Qed.

End Payload.

(* ------------------------------------------------------------------------- *)
(** * The statements, bundled (so that they can be instantiated per format) *)

(** one-NaN layer: plain equalities *)
Definition ff_laws (prec emax : Z) (Hp : Prec_gt_0 prec) (He : SN.Prec_lt_emax prec emax) : Prop :=
  let add := ff_add prec emax Hp He in
  let mul := ff_mul prec emax Hp He in
  let rmul := ff_real_mul prec emax Hp He in
  let vmul := ff_vit_mul prec emax Hp He in
  let vstar := ff_vit_star prec emax in
  let mx := ff_max prec emax in
  let leb := ff_leb prec emax in
  let zero := ff_zero prec emax in
  let nzero := ff_nzero prec emax in
  let one := ff_one prec emax Hp He in
  let ninf := ff_ninf prec emax in
  let iszero := ff_is_zero prec emax in
  (* commutativity *)
  (forall x y, add x y = add y x /\ mul x y = mul y x /\ rmul x y = rmul y x /\ vmul x y = vmul y x) /\
  (* Real: zero annihilates (0 * inf, 0 * nan included), identities *)
  (forall x, iszero (rmul zero x) = true /\ iszero (rmul x zero) = true) /\
  (forall x, SN.Bsign x = false -> rmul zero x = zero /\ rmul x zero = zero) /\
  (forall x, x <> nzero -> add x zero = x /\ add zero x = x) /\
  (forall x, mul x one = x /\ mul one x = x) /\
  (forall x, SN.is_nan x = false -> x <> ninf -> rmul x one = x /\ rmul one x = x) /\
  (* Real: add and mul are monotone on [0, +inf] *)
  (forall a b c, leb zero a = true -> leb zero c = true -> leb a b = true ->
                 leb (add a c) (add b c) = true /\ leb (rmul a c) (rmul b c) = true) /\
  (* Viterbi: max laws, -inf is the identity of max and annihilates mul (incl. -inf + +inf) *)
  (forall x y z, mx x x = x /\ mx (mx x y) z = mx x (mx y z) /\
                 (mx x y = mx y x \/ (iszero x = true /\ iszero y = true))) /\
  (forall x, mx ninf x = x /\ mx x ninf = x /\ vmul ninf x = ninf /\ vmul x ninf = ninf) /\
  (forall x, SN.is_nan x = false -> x <> nzero -> vmul x zero = x /\ vmul zero x = x) /\
  (* Viterbi: mul is monotone and distributes over max exactly; star unfolds *)
  (forall a b c, leb a b = true -> leb (vmul a c) (vmul b c) = true) /\
  (forall a b c, SN.is_nan a = false -> SN.is_nan b = false ->
                 vmul (mx a b) c = mx (vmul a c) (vmul b c) /\ vmul c (mx a b) = mx (vmul c a) (vmul c b)) /\
  (forall x, vstar x = mx zero (vmul x (vstar x))).

Theorem ff_laws_hold prec emax Hp He : ff_laws prec emax Hp He.
Proof.
  unfold ff_laws. repeat match goal with |- _ /\ _ => split end.
  - intros x y. repeat split; [apply ff_add_comm|apply ff_mul_comm|apply ff_real_mul_comm|apply ff_vit_mul_comm].
  - apply ff_real_mul_zero_is_zero.
  - apply ff_real_mul_zero.
  - apply ff_add_zero.
  - apply ff_mul_one.
  - apply ff_real_mul_one.
  - intros a b c H1 H2 H3. split; [now apply ff_add_mono|now apply ff_real_mul_mono].
  - intros x y z. repeat split; [apply ff_max_idem|apply ff_max_assoc|apply ff_max_comm].
  - intros x. destruct (ff_max_ninf prec emax x), (ff_vit_mul_ninf prec emax Hp He x). now repeat split.
  - apply ff_vit_mul_one.
  - apply ff_vit_mul_mono.
  - intros a b c Na Nb. split; [now apply ff_vit_mul_max_distr|now apply ff_vit_mul_max_distr_l].
  - apply ff_vit_star_unfold.
Qed.

(** IEEE layer with payloads: for every NaN-choosing function; [fp_same] = equal or both NaN *)
Definition fp_laws (prec emax : Z) (Hp : Prec_gt_0 prec) (He : SN.Prec_lt_emax prec emax) : Prop :=
  forall pnan : FB.binary_float prec emax -> FB.binary_float prec emax ->
                { x : FB.binary_float prec emax | FB.is_nan prec emax x = true },
  let same := fp_same prec emax in
  let add := fp_add prec emax Hp He pnan in
  let mul := fp_mul prec emax Hp He pnan in
  let rmul := fp_real_mul prec emax Hp He pnan in
  let vmul := fp_vit_mul prec emax Hp He pnan in
  let vstar := fp_vit_star prec emax in
  let mx := fp_max prec emax in
  let leb := fp_leb prec emax in
  let zero := fp_zero prec emax in
  let nzero := FB.B754_zero prec emax true in
  let one := fp_one prec emax Hp He in
  let ninf := fp_ninf prec emax in
  let iszero := fp_is_zero prec emax in
  let isnan := FB.is_nan prec emax in
  (forall x y, same x y <-> (x = y \/ (isnan x = true /\ isnan y = true))) /\
  (forall x y, same (add x y) (add y x) /\ same (mul x y) (mul y x) /\ rmul x y = rmul y x /\ vmul x y = vmul y x) /\
  (forall x, FB.Bsign prec emax x = false \/ isnan x = true -> rmul zero x = zero /\ rmul x zero = zero) /\
  (forall x, x <> nzero -> same (add x zero) x /\ same (add zero x) x) /\
  (forall x, same (mul x one) x /\ same (mul one x) x) /\
  (forall x, isnan x = false -> x <> ninf -> rmul x one = x /\ rmul one x = x) /\
  (forall a b c, leb zero a = true -> leb zero c = true -> leb a b = true ->
                 leb (add a c) (add b c) = true /\ leb (rmul a c) (rmul b c) = true) /\
  (forall x y z, mx x x = x /\ same (mx (mx x y) z) (mx x (mx y z)) /\
                 (same (mx x y) (mx y x) \/ (iszero x = true /\ iszero y = true))) /\
  (forall x, mx ninf x = x /\ mx x ninf = x /\ vmul ninf x = ninf /\ vmul x ninf = ninf) /\
  (forall a b c, leb a b = true -> leb (vmul a c) (vmul b c) = true) /\
  (forall a b c, isnan a = false -> isnan b = false -> vmul (mx a b) c = mx (vmul a c) (vmul b c)) /\
  (forall x, vstar x = mx zero (vmul x (vstar x))).

Theorem fp_laws_hold prec emax Hp He : fp_laws prec emax Hp He.
Proof.
  unfold fp_laws. intros pnan. repeat match goal with |- _ /\ _ => split end.
  - apply fp_same_iff.
  - intros x y. repeat split; [apply fp_add_comm|apply fp_mul_comm|apply fp_real_mul_comm|apply fp_vit_mul_comm].
  - apply fp_real_mul_zero.
  - apply fp_add_zero.
  - apply fp_mul_one.
  - apply fp_real_mul_one.
  - intros a b c H1 H2 H3. split; [now apply fp_add_mono|now apply fp_real_mul_mono].
  - intros x y z. repeat split; [apply fp_max_idem|apply fp_max_assoc|apply fp_max_comm].
  - intros x. destruct (fp_max_ninf prec emax x), (fp_vit_mul_ninf prec emax Hp He pnan x). now repeat split.
  - apply fp_vit_mul_mono.
  - apply fp_vit_mul_max_distr.
  - apply fp_vit_star_unfold.
Qed.

(** ** the two formats of the library, explicitly *)
Theorem ff_laws_binary32 : ff_laws 24 128 prec32 emax32.
Proof. apply ff_laws_hold. Qed.
Theorem ff_laws_binary64 : ff_laws 53 1024 prec64 emax64.
Proof. apply ff_laws_hold. Qed.
Theorem fp_laws_binary32 : fp_laws 24 128 prec32 emax32.
Proof. apply fp_laws_hold. Qed.
Theorem fp_laws_binary64 : fp_laws 53 1024 prec64 emax64.
Proof. apply fp_laws_hold. Qed.

(* ------------------------------------------------------------------------- *)
(** * What rounding destroys: associativity of + and *, distributivity of * over +.
    These are laws of the EXACT carriers only (Proofs/SemiringLaws.v); on floats they fail already
    for small positive normal numbers.  Witnesses are given as bit patterns and evaluated by
    vm_compute on Flocq's operations. *)

Definition b32 (z : Z) : SN.binary_float 24 128 := FB.B2BSN 24 128 (FBits.b32_of_bits z).
Definition b64 (z : Z) : SN.binary_float 53 1024 := FB.B2BSN 53 1024 (FBits.b64_of_bits z).
Notation add32 := (ff_add 24 128 prec32 emax32).
Notation mul32 := (ff_real_mul 24 128 prec32 emax32).
Notation add64 := (ff_add 53 1024 prec64 emax64).
Notation mul64 := (ff_real_mul 53 1024 prec64 emax64).

Ltac refute := intros E; apply (f_equal SN.B2SF) in E; vm_compute in E; discriminate E.

(** 0.1f, 0.1f, 0.7f *)
Theorem ff_add_assoc_refuted_binary32 :
  exists x y z, add32 (add32 x y) z <> add32 x (add32 y z).
Proof. exists (b32 0x3dcccccd), (b32 0x3dcccccd), (b32 0x3f333333). refute. Qed.
(** 0.1f, 0.1f, 10f *)
Theorem ff_mul_assoc_refuted_binary32 :
  exists x y z, mul32 (mul32 x y) z <> mul32 x (mul32 y z).
Proof. exists (b32 0x3dcccccd), (b32 0x3dcccccd), (b32 0x41200000). refute. Qed.
(** 0.1f * (0.1f + 0.7f) *)
Theorem ff_real_distr_refuted_binary32 :
  exists x y z, mul32 x (add32 y z) <> add32 (mul32 x y) (mul32 x z).
Proof. exists (b32 0x3dcccccd), (b32 0x3dcccccd), (b32 0x3f333333). refute. Qed.

(** 0.1, 0.1, 1.1 *)
Theorem ff_add_assoc_refuted_binary64 :
  exists x y z, add64 (add64 x y) z <> add64 x (add64 y z).
Proof. exists (b64 0x3fb999999999999a), (b64 0x3fb999999999999a), (b64 0x3ff199999999999a). refute. Qed.
(** 0.1, 0.1, 0.3 *)
Theorem ff_mul_assoc_refuted_binary64 :
  exists x y z, mul64 (mul64 x y) z <> mul64 x (mul64 y z).
Proof. exists (b64 0x3fb999999999999a), (b64 0x3fb999999999999a), (b64 0x3fd3333333333333). refute. Qed.
Theorem ff_real_distr_refuted_binary64 :
  exists x y z, mul64 x (add64 y z) <> add64 (mul64 x y) (mul64 x z).
Proof. exists (b64 0x3fb999999999999a), (b64 0x3fb999999999999a), (b64 0x3fd3333333333333). refute. Qed.

(** the hypotheses of the conditional laws are satisfiable: 1 <= 2, c = 3 in binary32 *)
Example ff_mono_hyps_ex :
  ff_nonneg 24 128 (b32 0x3f800000) = true /\ ff_nonneg 24 128 (b32 0x40400000) = true /\
  ff_leb 24 128 (b32 0x3f800000) (b32 0x40000000) = true /\
  SN.is_nan (b32 0x3f800000) = false /\ b32 0x3f800000 <> ff_ninf 24 128 /\ b32 0x3f800000 <> ff_nzero 24 128.
Proof.
  repeat split; try (vm_compute; reflexivity);
    intros E; apply (f_equal SN.B2SF) in E; vm_compute in E; discriminate E.
Qed.
