(** C04, code-shaped model: the theorems of ViterbiAlg_loop / _recon restated with their
    auxiliary predicates ([linv], [cell_inv], [good_ptr], [recok]) unfolded, in the form
    Props/C04.v quotes them. *)
From Coq Require Import QArith Qcanon List Arith Bool PeanoNat Lia.
Import ListNotations.
Require Import Fggs.Model.Semiring Fggs.Model.SCC Fggs.Model.SumProduct Fggs.Model.SumProductCheck
               Fggs.Model.Kleene Fggs.Model.EReal Fggs.Model.Trop Fggs.Model.Viterbi Fggs.Model.ViterbiAlg.
Require Import Fggs.Proofs.SP_mono Fggs.Proofs.SP_trees Fggs.Proofs.Viterbi_trop Fggs.Proofs.Viterbi_proofs
               Fggs.Proofs.ViterbiAlg_base Fggs.Proofs.ViterbiAlg_loop Fggs.Proofs.ViterbiAlg_recon.
Local Open Scope nat_scope.

Theorem loop_values G w done comp :
  wf_grammar G = true ->
  forall k n xi, In n comp -> In xi (all_assts (lshape G n)) ->
    rho G w done comp (S k) n xi = Fval G (E G w done comp k) n xi
    /\ tle (rho G w done comp k n xi) (rho G w done comp (S k) n xi).
Proof.
  intros Hwf k n xi Hn Hxi. split; [apply rho_step; assumption | apply rho_mono; assumption].
Qed.

Theorem ptr_inv_explicit G w done comp :
  wf_grammar G = true ->
  forall k, 1 <= k ->
  forall n xi, In n comp -> In xi (all_assts (lshape G n)) ->
  exists S nr v lp rps,
    viter G w done comp k = Some S /\ aget S n = Some nr /\ nt_cell nr xi = (v, lp, rps)
    /\ v = rho G w done comp k n xi
    /\ length rps = length (rules_of G n)
    /\ (v <> NInf ->
        exists j r ptr,
          1 <= j <= k /\ rho G w done comp j n xi = v /\ rho G w done comp (j - 1) n xi <> v
          /\ nth_error (rules_of G n) lp = Some r /\ nth lp rps None = Some ptr
          /\ length ptr = length (summed r)
          /\ In (rebuild r xi ptr) (all_assts (node_sizes G r))
          /\ sel (rebuild r xi ptr) (r_ext r) = xi
          /\ edges_prod (E G w done comp (j - 1)) r (rebuild r xi ptr) = v).
Proof.
  intros Hwf k Hk n xi Hn Hxi.
  destruct (linv_all G w done comp Hwf k Hk n xi Hn Hxi) as (S & nr & HS & Hg & Hc).
  destruct (nt_cell nr xi) as [[v lp] rps] eqn:Hcell.
  exists S, nr, v, lp, rps. split; [exact HS|]. split; [exact Hg|]. split; [exact Hcell|]. exact Hc.
Qed.

Theorem loop_returns_iterate G w done comp tol kmax st c :
  vloop G w tol done comp kmax None None = Some (st, c) ->
  exists K, K < kmax /\ viter G w done comp (S K) = Some st
            /\ c = all_equal G comp (viter G w done comp K) st.
Proof.
  intros H.
  destruct (vloop_spec G w done comp tol kmax 0 None st c H) as [C|(K & HK & H1 & H2)]; [discriminate|].
  exists K. split; [lia|]. split; assumption.
Qed.

Theorem reconstruct_terminates_explicit G w :
  wf_grammar G = true ->
  forall order tol kmax T,
    NoDup (concat order) ->
    viterbi_tables G w order tol kmax = Some (T, true) ->
    forall X xi, In xi (all_assts (lshape G X)) -> (exists q, tables_val T X xi = TFin q) ->
    forall fuel, length order * S kmax <= fuel ->
      exists t, reconstruct_model G T fuel X xi = Some t
                /\ wf_dtree G X xi t /\ wf_dtree_b G X xi t = true
                /\ weight trop_ops G w t = tables_val T X xi.
Proof.
  intros Hwf order tol kmax T Hnd HT X xi Hxi Hfin fuel Hfuel.
  destruct (tables_recok G w Hwf order tol kmax T Hnd HT X xi Hxi Hfin fuel Hfuel) as (t & H1 & H2 & H3).
  exists t. split; [exact H1|]. split; [exact H2|]. split; [apply wf_reflect; exact H2 | exact H3].
Qed.
