(** C12 for the VITERBI weight: with C04 (in a selective ordered semiring such as (max, +) every
    Kleene iterate is the weight of one of the well-formed derivations of bounded depth, or zero,
    and bounds all of them) the image of an OPTIMAL derivation of [G] under the presentation map
    is an optimal derivation of the presentation [G'], of the same weight; and the optimum
    computed by the exact enclosure is the same on both sides. *)
From Coq Require Import QArith Qcanon List Arith Bool PeanoNat Lia Permutation.
Import ListNotations.
Require Import Fggs.Model.Semiring Fggs.Model.SCC Fggs.Model.SumProduct Fggs.Model.SumProductCheck
               Fggs.Model.Kleene Fggs.Model.EReal Fggs.Model.Trop Fggs.Model.Viterbi.
Require Import Fggs.Proofs.BigSum Fggs.Proofs.SP_mono Fggs.Proofs.SP_trees Fggs.Proofs.Kleene_proofs
               Fggs.Proofs.Viterbi_trop Fggs.Proofs.Viterbi_proofs.
Require Import Fggs.Proofs.Presentation Fggs.Proofs.Presentation_perm Fggs.Proofs.Presentation_nodes
               Fggs.Proofs.Presentation_dom Fggs.Proofs.Presentation_relabel Fggs.Proofs.Presentation_wf
               Fggs.Proofs.Presentation_cor Fggs.Proofs.Presentation_lfp Fggs.Proofs.Presentation_trees.
Local Open Scope nat_scope.

Section Opt.
Context {R : Type} (o : sr_ops R) (Hring : sr_ring o) (Hord : sr_ordered o).
Hypothesis Hsel : forall a b, add o a b = a \/ add o a b = b.

Lemma sumS_sel {A} (l : list A) (f : A -> R) :
  sumS o l f = zero o \/ exists x, In x l /\ f x = sumS o l f.
Proof.
  induction l as [|y l IH]; [left; reflexivity|]. rewrite sumS_cons.
  destruct (Hsel (f y) (sumS o l f)) as [E|E]; rewrite E.
  - right. exists y. split; [left; reflexivity | reflexivity].
  - destruct IH as [IH|(x & Hx & Hfx)]; [left; exact IH|].
    right. exists x. split; [right; exact Hx | exact Hfx].
Qed.

(** every derivation of the presentation is dominated by a derivation of the grammar (or by zero) *)
Lemma presentation_tree_dominated rho pel pnl G G' (w w' : env (R:=R)) X xi s' :
  wf_grammar G = true -> presents rho pel pnl G G' -> weights_pres rho pel G w w' ->
  vlab G X -> vidx G X xi -> is_term G X = false ->
  wf_dtree G' (pel X) (pmap rho (ltype G X) xi) s' ->
  le o (weight o G' w' s') (zero o)
  \/ exists s, wf_dtree G X xi s /\ le o (weight o G' w' s') (weight o G w s).
Proof.
  intros Hwf Hp Hw HX Hxi Ht Hs'.
  assert (Ht' : is_term G' (pel X) = false) by now rewrite (presents_is_term rho pel pnl G G' X Hp HX).
  pose proof (tree_weight_below_Zk o Hring Hord G' w' _ _ s' Ht' Hs') as Hle.
  rewrite (Zk_presentation o Hring rho pel pnl G G' w w' Hwf Hp Hw _ X xi HX Hxi) in Hle.
  rewrite (Zk_is_tree_sum o Hring G w _ X xi Ht) in Hle. unfold tree_sum in Hle.
  destruct (sumS_sel (enum_trees G (Viterbi.depth s') X xi) (weight o G w)) as [E|(s & Hin & E)].
  - left. now rewrite E in Hle.
  - right. exists s. split; [|now rewrite E]. apply enum_trees_spec in Hin. tauto.
Qed.

(** the image of an optimal derivation is an optimal derivation *)
Theorem optimal_derivation_presentation rho pel pnl G G' (w w' : env (R:=R)) X xi t :
  wf_grammar G = true -> presents rho pel pnl G G' -> weights_pres rho pel G w w' ->
  vlab G X -> vidx G X xi -> is_term G X = false ->
  wf_dtree G X xi t -> (forall s, wf_dtree G X xi s -> le o (weight o G w s) (weight o G w t)) ->
  exists t', wf_dtree G' (pel X) (pmap rho (ltype G X) xi) t'
    /\ weight o G' w' t' = weight o G w t /\ depth t' = depth t
    /\ forall s', wf_dtree G' (pel X) (pmap rho (ltype G X) xi) s' -> le o (weight o G' w' s') (weight o G' w' t').
Proof.
  intros Hwf Hp Hw HX Hxi Ht Hwt Hopt.
  destruct (tree_presentation o Hring rho pel pnl G G' w w' X xi Hwf Hp Hw t Hwt) as (t' & H1 & H2 & H3).
  exists t'. repeat split; trivial. intros s' Hs'. rewrite H2.
  destruct (presentation_tree_dominated rho pel pnl G G' w w' X xi s' Hwf Hp Hw HX Hxi Ht Hs') as [Hz|(s & Hs & Hle)].
  - apply (le_trans o Hord) with (zero o); [exact Hz|apply (zero_le o Hord)].
  - apply (le_trans o Hord) with (weight o G w s); [exact Hle|now apply Hopt].
Qed.

(** the optimum as computed by the exact enclosure: same value at corresponding cells *)
Theorem optimum_presentation (leb : R -> R -> bool) :
  (forall x y, leb x y = true -> le o x y) ->
  forall rho pel pnl G G' (w w' : env (R:=R)) K K' lo u lo' u' X xi,
  wf_grammar G = true -> wf_grammar G' = true -> presents rho pel pnl G G' -> weights_pres rho pel G w w' ->
  enclosure o (fun x => x) (fun x => x) leb G w K = Some (lo, u) ->
  enclosure o (fun x => x) (fun x => x) leb G' w' K' = Some (lo', u') ->
  In X (nonterminals G) -> In xi (all_assts (lshape G X)) ->
  env_of o lo' (pel X) (pmap rho (ltype G X) xi) = env_of o lo X xi.
Proof.
  intros Hleb rho pel pnl G G' w w' K K' lo u lo' u' X xi Hwf Hwf' Hp Hw He He' HX Hxi.
  destruct (enclosure_exact o Hring Hord leb Hleb G w K lo u Hwf He) as (_ & _ & _ & Hup & (j & _ & Hj)).
  destruct (enclosure_exact o Hring Hord leb Hleb G' w' K' lo' u' Hwf' He') as (_ & _ & _ & Hup' & (j' & _ & Hj')).
  destruct (pres_cell_in rho pel pnl G G' Hwf Hp X xi HX Hxi) as (H1 & H2 & HX1 & Hxi1 & Ht).
  assert (HX' : In (pel X) (nonterminals G')).
  { assert (Ht' : is_term G' (pel X) = false) by now rewrite (presents_is_term rho pel pnl G G' X Hp HX1).
    apply in_nonterminals. split; [now apply is_term_false_lt|exact Ht']. }
  apply (le_antisym o Hord).
  - rewrite (Hj' _ _ HX' H2), (Zk_presentation o Hring rho pel pnl G G' w w' Hwf Hp Hw _ X xi HX1 Hxi1).
    now apply Hup.
  - rewrite (Hj _ _ HX Hxi), <- (Zk_presentation o Hring rho pel pnl G G' w w' Hwf Hp Hw _ X xi HX1 Hxi1).
    now apply Hup'.
Qed.
End Opt.

(** * the Viterbi semiring: no premise on the carrier *)
Definition trop_tree_presentation := @tree_presentation trop trop_ops vt_trop_ring.
Definition trop_optimal_derivation_presentation :=
  @optimal_derivation_presentation trop trop_ops vt_trop_ring vt_trop_ordered vt_tmax_cases.
Definition trop_optimum_presentation :=
  @optimum_presentation trop trop_ops vt_trop_ring vt_trop_ordered tleb (fun x y H => proj1 (vt_tleb_iff x y) H).
