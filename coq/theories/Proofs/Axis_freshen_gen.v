(** [Axis.freshen(rename)] started from any consistent rename dict: the result is the axis renamed by the
    final dict, the dict is extended by exactly the axes that were not in it (fresh, pairwise
    distinct new names), and stays functional and injective.  (Proofs/PTEqual_freshen.v covers the
    special case of [PatternedTensor.freshen], where every axis of the pattern is renamed beforehand;
    [dim_to_dense] freshens a pattern starting from the empty dict.) *)
From Coq Require Import List Arith Lia PeanoNat Bool PArith.
Import ListNotations.
Require Import Fggs.Model.Axis Fggs.Model.PTensor.
Require Import Fggs.Proofs.Axis_sem Fggs.Proofs.PTensor_sem Fggs.Proofs.PTensor_dense Fggs.Proofs.PTensor_gen.
Require Import Fggs.Proofs.Axis_antiunify_inv Fggs.Proofs.PTEqual_freshen Fggs.Proofs.PTensor_struct.

Definition rkeys (r : rename) : list positive := map fst r.
Definition rvals (r : rename) : list positive := map (fun x => fst (snd x)) r.

Record ren_inv (B : positive) (sz : positive -> nat) (st : fstate) : Prop := {
  ri_keys : NoDup (rkeys (fs_rename st));
  ri_vals : NoDup (rvals (fs_rename st));
  ri_rng : forall k k' n, In (k, (k', n)) (fs_rename st) -> (B <= k')%positive /\ (k' < fs_next st)%positive /\ n = sz k;
  ri_next : (B <= fs_next st)%positive }.

Lemma assoc_None_notin {A} k (s : list (positive * A)) : assoc k s = None -> ~ In k (map fst s).
Proof. intros H Hin. destruct (assoc_in_keys k s Hin) as (a & E). congruence. Qed.

(** what one call establishes; [ren_of R] for every later extension [R] of the dict *)
Definition fresh_post (B : positive) (sz : positive -> nat) (fvs : list positive) (st st' : fstate)
                      (ok : rename -> Prop) : Prop :=
  ren_inv B sz st' /\ (fs_next st <= fs_next st')%positive /\
  (exists ext, fs_rename st' = fs_rename st ++ ext /\ forall k, In k (rkeys ext) -> In k fvs) /\
  (forall k, In k fvs -> In k (rkeys (fs_rename st'))) /\
  (forall R ext2, R = fs_rename st' ++ ext2 -> NoDup (rkeys R) -> ok R).

Lemma freshen_spec B sz e : forall st e' st',
  (forall k n, In (k, n) (fvn e) -> n = sz k) -> freshen e st = (e', st') -> ren_inv B sz st ->
  fresh_post B sz (fv e) st st' (fun R => e' = rename_axis (ren_of R) e).
Proof.
  induction e as [k n|l IH|b t a IH] using axis_ind'; intros st e' st' Hsz H I.
  - simpl in H. destruct (assoc k (fs_rename st)) as [[k' n']|] eqn:E.
    + inversion H; subst e' st'. clear H. split; [exact I|]. split; [lia|]. split; [exists []; rewrite app_nil_r; split; [reflexivity|intros ? []]|].
      split; [intros k0 [<-|[]]; unfold rkeys; apply in_map_iff; exists (k, (k', n')); split; [reflexivity|apply assoc_In; exact E]|].
      intros R ext2 -> ND. simpl. unfold ren_of. rewrite (assoc_app_l _ _ _ _ E).
      destruct (ri_rng _ _ _ I k k' n' (assoc_In _ _ _ E)) as (_ & _ & En). rewrite En, <- (Hsz k n (or_introl eq_refl)). reflexivity.
    + inversion H; subst e' st'. clear H. destruct I as [I1 I2 I3 I4].
      split; [constructor; cbn [fs_rename fs_next]|].
      * unfold rkeys. rewrite map_app. simpl. apply NoDup_snoc; [exact I1|]. apply assoc_None_notin. exact E.
      * unfold rvals. rewrite map_app. simpl. apply NoDup_snoc; [exact I2|]. intros Hin. apply in_map_iff in Hin.
        destruct Hin as ([k0 [k0' n0]] & Ek & Hin). simpl in Ek. subst k0'. destruct (I3 _ _ _ Hin) as (_ & Hlt & _). lia.
      * intros k0 k0' n0 Hin. apply in_app_or in Hin. destruct Hin as [Hin|[Hin|[]]].
        -- destruct (I3 _ _ _ Hin) as (A1 & A2 & A3). repeat split; try assumption; lia.
        -- inversion Hin; subst. repeat split; try lia. apply Hsz. left. reflexivity.
      * lia.
      * cbn [fs_rename fs_next]. split; [lia|]. split; [eexists; split; [reflexivity|]; intros k0 [<-|[]]; left; reflexivity|].
        split; [intros k0 [<-|[]]; unfold rkeys; rewrite map_app; apply in_or_app; right; left; reflexivity|].
        intros R ext2 -> ND. simpl. unfold ren_of. rewrite <- app_assoc. rewrite (assoc_app_r _ _ _ E). simpl. rewrite Pos.eqb_refl. reflexivity.
  - rewrite freshen_Prod in H.
    assert (G : forall l0, Forall (fun e => forall st e' st',
                  (forall k n, In (k, n) (fvn e) -> n = sz k) -> freshen e st = (e', st') -> ren_inv B sz st ->
                  fresh_post B sz (fv e) st st' (fun R => e' = rename_axis (ren_of R) e)) l0 ->
                forall st l' st', (forall k n, In (k, n) (flat_map fvn l0) -> n = sz k) -> freshen_list l0 st = (l', st') -> ren_inv B sz st ->
                fresh_post B sz (flat_map fv l0) st st' (fun R => l' = map (rename_axis (ren_of R)) l0)).
    { clear. induction l0 as [|x l0 IHl]; intros F st l' st' Hsz H I.
      - simpl in H. inversion H; subst. split; [exact I|]. split; [lia|]. split; [exists []; rewrite app_nil_r; split; [reflexivity|intros ? []]|].
        split; [intros ? []|]. intros; reflexivity.
      - inversion F as [|? ? Fx Fl]; subst. simpl in H. destruct (freshen x st) as [x' st1] eqn:E1.
        destruct (freshen_list l0 st1) as [l1 st2] eqn:E2. inversion H; subst l' st'. clear H.
        destruct (Fx st x' st1 (fun k n Hk => Hsz k n (in_or_app _ _ _ (or_introl Hk))) E1 I) as (I1 & N1 & (x1 & X1 & K1) & C1 & R1).
        destruct (IHl Fl st1 l1 st2 (fun k n Hk => Hsz k n (in_or_app _ _ _ (or_intror Hk))) E2 I1) as (I2 & N2 & (x2 & X2 & K2) & C2 & R2).
        split; [exact I2|]. split; [lia|]. split.
        { exists (x1 ++ x2). split; [rewrite X2, X1, app_assoc; reflexivity|]. intros k Hk. unfold rkeys in Hk. rewrite map_app in Hk.
          simpl. apply in_or_app. apply in_app_or in Hk. destruct Hk as [Hk|Hk]; [left; apply K1|right; apply K2]; exact Hk. }
        split.
        { intros k Hk. simpl in Hk. apply in_app_or in Hk. destruct Hk as [Hk|Hk]; [|apply C2; exact Hk].
          specialize (C1 k Hk). rewrite X2. unfold rkeys. rewrite map_app. apply in_or_app. left. exact C1. }
        intros R ext2 ER ND. simpl. f_equal.
        + apply (R1 R (x2 ++ ext2)); [rewrite ER, X2, <- app_assoc; reflexivity|exact ND].
        + apply (R2 R ext2 ER ND). }
    destruct (freshen_list l st) as [l' st1] eqn:E. inversion H; subst e' st'. clear H.
    destruct (G l IH st l' st1 Hsz E I) as (I1 & N1 & X & C & R). split; [exact I1|]. split; [exact N1|]. split; [exact X|]. split; [exact C|].
    intros R0 ext2 ER ND. simpl. f_equal. exact (R R0 ext2 ER ND).
  - simpl in H. destruct (freshen t st) as [t' st1] eqn:E. inversion H; subst e' st'. clear H.
    destruct (IH st t' st1 Hsz E I) as (I1 & N1 & X & C & R). split; [exact I1|]. split; [exact N1|]. split; [exact X|]. split; [exact C|].
    intros R0 ext2 ER ND. simpl. f_equal. exact (R R0 ext2 ER ND).
Qed.

Theorem freshen_list_spec B sz es : forall st es' st',
  (forall k n, In (k, n) (flat_map fvn es) -> n = sz k) -> freshen_list es st = (es', st') -> ren_inv B sz st ->
  fresh_post B sz (flat_map fv es) st st' (fun R => es' = map (rename_axis (ren_of R)) es).
Proof.
  induction es as [|x es IH]; intros st es' st' Hsz H I.
  - simpl in H. inversion H; subst. split; [exact I|]. split; [lia|]. split; [exists []; rewrite app_nil_r; split; [reflexivity|intros ? []]|].
    split; [intros ? []|]. intros; reflexivity.
  - simpl in H. destruct (freshen x st) as [x' st1] eqn:E1. destruct (freshen_list es st1) as [l1 st2] eqn:E2. inversion H; subst es' st'. clear H.
    destruct (freshen_spec B sz x st x' st1 (fun k n Hk => Hsz k n (in_or_app _ _ _ (or_introl Hk))) E1 I) as (I1 & N1 & (x1 & X1 & K1) & C1 & R1).
    destruct (IH st1 l1 st2 (fun k n Hk => Hsz k n (in_or_app _ _ _ (or_intror Hk))) E2 I1) as (I2 & N2 & (x2 & X2 & K2) & C2 & R2).
    split; [exact I2|]. split; [lia|]. split.
    { exists (x1 ++ x2). split; [rewrite X2, X1, app_assoc; reflexivity|]. intros k Hk. unfold rkeys in Hk. rewrite map_app in Hk.
      simpl. apply in_or_app. apply in_app_or in Hk. destruct Hk as [Hk|Hk]; [left; apply K1|right; apply K2]; exact Hk. }
    split.
    { intros k Hk. simpl in Hk. apply in_app_or in Hk. destruct Hk as [Hk|Hk]; [|apply C2; exact Hk].
      specialize (C1 k Hk). rewrite X2. unfold rkeys. rewrite map_app. apply in_or_app. left. exact C1. }
    intros R ext2 ER ND. simpl. f_equal.
    + apply (R1 R (x2 ++ ext2)); [rewrite ER, X2, <- app_assoc; reflexivity|exact ND].
    + apply (R2 R ext2 ER ND).
Qed.

Lemma ren_inv_init B sz : ren_inv B sz {| fs_rename := []; fs_next := B |}.
Proof. constructor; cbn [fs_rename fs_next]; [constructor|constructor|intros ? ? ? []|lia]. Qed.
