(** Completeness of the C15 oracles: the boolean checkers run on every implementation output are
    exact deciders of the Prop-level specifications ([replace_ok] <-> [replace_spec],
    [same_upto_naming] <-> [iso_via], [start_ok] <-> [start_spec]).  Unbounded. *)
From Coq Require Import List Arith Bool PeanoNat Lia Permutation.
Import ListNotations.
Require Import Fggs.Model.Replace Fggs.Proofs.Replace_base Fggs.Proofs.Replace_wf Fggs.Proofs.Replace_explicit
  Fggs.Proofs.Replace_spec Fggs.Proofs.Replace_model_spec Fggs.Proofs.Replace_confl.

Section PermComplete.
  Context {A : Type} (eqb : A -> A -> bool).
  Lemma count_by_perm : forall x l1 l2, Permutation l1 l2 -> count_by eqb x l1 = count_by eqb x l2.
  Proof.
    unfold count_by. induction 1; simpl; auto.
    - destruct (eqb x x0); simpl; auto.
    - destruct (eqb x x0), (eqb x y); simpl; auto.
    - congruence.
  Qed.
  Lemma perm_eqb_complete : forall l1 l2, Permutation l1 l2 -> perm_eqb eqb l1 l2 = true.
  Proof.
    intros. unfold perm_eqb. apply andb_true_iff. split.
    - apply Nat.eqb_eq. apply Permutation_length; auto.
    - apply forallb_forall. intros x _. apply Nat.eqb_eq. apply count_by_perm; auto.
  Qed.
End PermComplete.

Lemma perm_eqb_iff : forall {A} (eqb : A -> A -> bool), (forall a b, eqb a b = true <-> a = b) ->
  forall l1 l2, perm_eqb eqb l1 l2 = true <-> Permutation l1 l2.
Proof. intros. split; [apply perm_eqb_sound; auto | apply perm_eqb_complete]. Qed.

Lemma glue_complete : forall (nm : nmap) exts atts, map (aget node_eqb nm) exts = map Some atts ->
  map (fun v => match aget node_eqb nm v with Some g => g | None => v end) exts = atts /\
  forallb (fun v => amem node_eqb nm v) exts = true.
Proof.
  induction exts as [|a exts IH]; destruct atts as [|b atts]; simpl; intros H; try discriminate; auto.
  inversion H as [[H1 H2]]. unfold amem at 1. rewrite H1. destruct (IH _ H2) as [E F]. rewrite E, F. auto.
Qed.

Lemma omap_of_map_Some : forall {A B} (f : A -> option B) l ys, map Some ys = map f l -> omap f l = Some ys.
Proof.
  induction l as [|a l IH]; destruct ys as [|y ys]; simpl; intros H; try discriminate; auto.
  inversion H as [[H1 H2]]. rewrite (IH ys); auto.
Qed.

Lemma is_prefix_complete : forall (p l : list elabel), (exists t, l = p ++ t) -> is_prefix elabel_eqb p l = true.
Proof.
  intros p l [t ->]. unfold is_prefix. rewrite firstn_prefix. apply (list_eqb_eq elabel_eqb elabel_eqb_eq); auto.
Qed.

(** the oracle accepts every outcome that satisfies the specification *)
Theorem replace_ok_complete : forall host e repl res nm em,
  replace_spec host e repl res nm em -> replace_ok host e repl res nm em = true.
Proof.
  intros host e repl res nm em [S1 S2 S3 S4 S5 S6 S7 S8 S9 S10 S11 S12 S13 S14 S15].
  destruct (glue_complete _ _ _ S7) as [G1 G2].
  unfold replace_ok. rewrite !andb_true_iff. repeat split.
  - apply (memb_In edge_eqb edge_eqb_eq); auto.
  - apply (list_eqb_eq edge_eqb edge_eqb_eq); auto.
  - apply (list_eqb_eq node_eqb node_eqb_eq); auto.
  - apply (list_eqb_eq node_eqb node_eqb_eq); auto.
  - apply perm_eqb_complete; auto.
  - apply (nodupb_NoDup node_eqb node_eqb_eq); auto.
  - apply (list_eqb_eq node_eqb node_eqb_eq); auto.
  - exact G2.
  - apply forallb_forall. intros [v x] Hin. cbn [fst snd]. apply Nat.eqb_eq. apply S8; auto.
  - apply (list_eqb_eq edge_eqb edge_eqb_eq); auto.
  - apply forallb_forall. intros [re ge] Hin. cbn [fst snd]. destruct (S11 re ge Hin) as [L M].
    apply andb_true_iff. split.
    + apply elabel_eqb_eq; auto.
    + rewrite map_nodes_omap. rewrite (omap_of_map_Some _ _ _ M). apply (list_eqb_eq node_eqb node_eqb_eq); auto.
  - apply (nodupb_NoDup id_eqb id_eqb_eq); auto.
  - apply (nodupb_NoDup id_eqb id_eqb_eq); auto.
  - apply is_prefix_complete; auto.
  - apply forallb_forall. intros [re ge] Hin. cbn [fst snd]. apply (memb_In elabel_eqb elabel_eqb_eq). eapply S14; eauto.
  - apply (list_eqb_eq Nat.eqb Nat.eqb_eq); auto.
Qed.

Theorem replace_ok_iff : forall host e repl res nm em,
  replace_ok host e repl res nm em = true <-> replace_spec host e repl res nm em.
Proof. intros. split; [apply replace_ok_sound | apply replace_ok_complete]. Qed.

(** hence a rejected output is a genuine violation of the specification *)
Corollary replace_ok_false : forall host e repl res nm em,
  replace_ok host e repl res nm em = false <-> ~ replace_spec host e repl res nm em.
Proof.
  intros. rewrite <- replace_ok_iff. destruct (replace_ok host e repl res nm em); split; intros; congruence.
Qed.

Theorem same_upto_naming_complete : forall g nn en d, iso_via g nn en d -> same_upto_naming g nn en d = true.
Proof.
  intros g nn en d [A [B [C [D [E [F [d' [R [P1 P2]]]]]]]]].
  unfold same_upto_naming. rewrite R. rewrite !andb_true_iff. repeat split.
  - apply (list_eqb_eq node_eqb node_eqb_eq); auto.
  - apply (list_eqb_eq edge_eqb edge_eqb_eq); auto.
  - apply (nodupb_NoDup id_eqb id_eqb_eq); auto.
  - apply (nodupb_NoDup id_eqb id_eqb_eq); auto.
  - apply (nodupb_NoDup name_eqb name_eqb_eq); auto.
  - apply (nodupb_NoDup name_eqb name_eqb_eq); auto.
  - apply perm_eqb_complete; auto.
  - apply perm_eqb_complete; auto.
Qed.

Theorem same_upto_naming_iff : forall g nn en d, same_upto_naming g nn en d = true <-> iso_via g nn en d.
Proof. intros. split; [apply same_upto_naming_sound | apply same_upto_naming_complete]. Qed.

Corollary same_upto_naming_false : forall g nn en d, same_upto_naming g nn en d = false <-> ~ iso_via g nn en d.
Proof.
  intros. rewrite <- same_upto_naming_iff. destruct (same_upto_naming g nn en d); split; intros; congruence.
Qed.

(** * start_graph: Prop-level specification and exactness of [start_ok] *)
Record start_spec (s : elabel) (g : graph) : Prop := {
  ss_edge : exists e, g_edges g = [e] /\ e_label e = s /\ e_att e = g_nodes g;
  ss_labels : map n_label (g_nodes g) = l_type s;
  ss_ids : NoDup (map n_id (g_nodes g));
  ss_ext : g_ext g = [];
  ss_elabs : g_elabs g = [s];
  ss_nlabs : g_nlabs g = add_nlabs [] (l_type s) }.

Theorem start_ok_iff : forall s g, start_ok s g = true <-> start_spec s g.
Proof.
  intros s g. unfold start_ok. split.
  - intros H. destruct (g_edges g) as [|e [|e' es]] eqn:E; try discriminate.
    rewrite !andb_true_iff in H. destruct H as [[[[[[H1 H2] H3] H4] H5] H6] H7].
    apply elabel_eqb_eq in H1. apply (list_eqb_eq node_eqb node_eqb_eq) in H2.
    apply (list_eqb_eq Nat.eqb Nat.eqb_eq) in H3. apply (nodupb_NoDup id_eqb id_eqb_eq) in H4.
    apply (list_eqb_eq elabel_eqb elabel_eqb_eq) in H6. apply (list_eqb_eq Nat.eqb Nat.eqb_eq) in H7.
    constructor; auto.
    + exists e; auto.
    + destruct (g_ext g); auto; discriminate.
  - intros [[e [E [L A]]] S2 S3 S4 S5 S6]. rewrite E. rewrite !andb_true_iff. repeat split.
    + apply elabel_eqb_eq; auto.
    + apply (list_eqb_eq node_eqb node_eqb_eq); auto.
    + apply (list_eqb_eq Nat.eqb Nat.eqb_eq); auto.
    + apply (nodupb_NoDup id_eqb id_eqb_eq); auto.
    + rewrite S4; auto.
    + apply (list_eqb_eq elabel_eqb elabel_eqb_eq); auto.
    + apply (list_eqb_eq Nat.eqb Nat.eqb_eq); auto.
Qed.

Theorem start_graph_model_spec : forall s nx, start_spec s (fst (fst (start_graph_model s nx))).
Proof. intros. apply start_ok_iff. apply start_graph_model_ok. Qed.

(** the hypotheses are satisfiable: the model's own output on the worked example is accepted, and
    a result with one attachment transposed is rejected (so it is NOT a replacement) *)
Example replace_ok_iff_example :
  (exists g' nx' nm em, replace_edge_model ex_host 2 ex_edge ex_repl = (g', nx', Ok (nm, em)) /\
                        replace_spec ex_host ex_edge ex_repl g' nm em) /\
  ~ replace_spec ex_host ex_edge ex_repl ex_host [] [].
Proof.
  split.
  - eexists _, _, _, _. split; [vm_compute; reflexivity|]. apply replace_ok_iff. vm_compute. reflexivity.
  - apply replace_ok_false. vm_compute. reflexivity.
Qed.
