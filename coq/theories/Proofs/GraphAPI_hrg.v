(** C16 -- HRG / FGG methods and the copy methods preserve the invariant. *)
From Coq Require Import List Arith Bool Lia.
Import ListNotations.
Require Import Fggs.Model.GraphAPI Fggs.Proofs.GraphAPI_assoc Fggs.Proofs.GraphAPI_wf Fggs.Proofs.GraphAPI_graph.

Lemma fold_err_result : forall {A B} (f : A -> B -> A * result) l a,
    snd (fold_err f l a) = ROk \/ exists k, snd (fold_err f l a) = RErr k.
Proof.
  induction l as [|x l IH]; intros a; cbn; [left; reflexivity|].
  destruct (f a x) as [a' [| |k]]; cbn; auto. right. exists k. reflexivity.
Qed.

(** * label registration loops *)
Lemma fold_nl_ok : forall (l : list (ident * node)) t,
    tab_ok t ->
    let t' := fold_left (fun t kn => t_add_node_label t (n_label (snd kn))) l t in
    tab_ok t' /\ tab_le t t'.
Proof.
  induction l as [|x l IH]; intros t H; cbn; [split; [assumption | apply tab_le_refl]|].
  destruct (add_node_label_ok t (n_label (snd x)) H) as [A B].
  destruct (IH _ A) as [C D]. split; [exact C | exact (tab_le_trans _ _ _ B D)].
Qed.

Lemma fold_el_spec : forall (l : list (ident * edge)) t t' r,
    fold_err (fun t ke => t_add_edge_label t (e_label (snd ke))) l t = (t', r) -> tab_ok t ->
    tab_ok t' /\ tab_le t t' /\
    (is_err r = false -> forall ke, In ke l -> registered t' (e_label (snd ke))).
Proof.
  induction l as [|x l IH]; intros t t' r E H; cbn in E.
  - inversion E; subst. split; [exact H | split; [apply tab_le_refl | intros _ ? []]].
  - destruct (t_add_edge_label t (e_label (snd x))) as [t1 r1] eqn:E1.
    destruct (add_edge_label_spec _ _ _ _ E1 H) as (A & B & C & D & F & _).
    destruct r1 as [| |k].
    + destruct (IH _ _ _ E A) as (A' & B' & C').
      split; [assumption|]. split; [eapply tab_le_trans; eauto|].
      intros NE ke [<-|Hin]; [apply B'; apply C; reflexivity | apply C'; assumption].
    + destruct F; discriminate.
    + inversion E; subst. split; [assumption|]. split; [assumption|]. cbn. discriminate.
Qed.

(** * start setter, constructors *)
Record hrg_pre (os : list obj) (h : hrg) : Prop := {
  hp_tab : tab_ok (h_tab h);
  hp_keys : NoDup (map fst (h_rules h));
  hp_lhs : forall k rs r, In (k, rs) (h_rules h) -> In r rs -> r_lhs r = k;
  hp_rules : forall k rs r, In (k, rs) (h_rules h) -> In r rs -> rule_wf os (h_tab h) r }.

Lemma hrg_ok_pre : forall os h, hrg_ok os h -> hrg_pre os h.
Proof. intros os h [A B C D E]. split; assumption. Qed.

Lemma h_set_start_spec : forall os h sp h' r,
    h_set_start h sp = (h', r) -> hrg_pre os h ->
    (r = ROk /\ hrg_ok os h') \/ (r <> ROk /\ h' = h).
Proof.
  intros os h sp h' r E [T K L R]. unfold h_set_start in E.
  destruct sp as [|l|n]; [inversion E; right; split; [discriminate | reflexivity]| |].
  all: match type of E with (if el_term ?l then _ else _) = _ => set (lab := l) in * end.
  all: destruct (el_term lab); [inversion E; right; split; [discriminate | reflexivity]|].
  all: destruct (t_add_edge_label (h_tab h) lab) as [t1 r1] eqn:E1.
  all: destruct (add_edge_label_spec _ _ _ _ E1 T) as (A & B & C & D & F & _).
  all: destruct r1 as [| |k]; [|destruct F; discriminate | inversion E; right; split; [discriminate | reflexivity]].
  all: inversion E; subst; left; split; [reflexivity|].
  all: split; cbn; auto.
  all: intros k rs r0 H1 H2; eapply rule_wf_mono; [intros ? ? X; exact X | exact B | eauto].
Qed.

Lemma h_set_start_ok : forall os h sp, hrg_ok os h -> hrg_ok os (fst (h_set_start h sp)).
Proof.
  intros os h sp OK. destruct (h_set_start h sp) as [h' r] eqn:E.
  destruct (h_set_start_spec os _ _ _ _ E (hrg_ok_pre _ _ OK)) as [[_ H]|[_ ->]]; assumption.
Qed.

Lemma h_new_ok : forall os b sp h r, h_new b sp = (Some h, r) -> hrg_ok os h.
Proof.
  intros os b sp h r E. unfold h_new in E.
  destruct (h_set_start (mkH b [] (EL 0 [] false) empty_tab) sp) as [h' r'] eqn:E1.
  assert (P : hrg_pre os (mkH b [] (EL 0 [] false) empty_tab)).
  { split; cbn; [apply tab_ok_empty | constructor | intros ? ? ? [] | intros ? ? ? []]. }
  destruct (h_set_start_spec os _ _ _ _ E1 P) as [[-> H]|[N _]].
  - inversion E; subst. assumption.
  - destruct r'; [congruence | discriminate | discriminate].
Qed.

Lemma h_new_start : forall b l h r, h_new b (SLabel l) = (Some h, r) -> h_start h = l /\ h_rules h = [].
Proof.
  intros b l h r E. unfold h_new, h_set_start in E.
  destruct (el_term l); [discriminate|].
  destruct (t_add_edge_label empty_tab l) as [t1 [| |k]]; cbn in E; inversion E; subst; cbn; auto.
Qed.

(** * add_rule *)
Lemma h_add_rule_ok : forall os h l gh g,
    hrg_ok os h -> get_graph os gh = Some g -> rule_ok l g = true ->
    hrg_ok os (fst (h_add_rule h (Rule l gh) g)).
Proof.
  intros os h l gh g OK Hg RO. pose proof OK as [T K L S R]. unfold h_add_rule. cbn [r_lhs].
  destruct (labels_clash (t_el (h_tab h)) (l :: map (fun ke => e_label (snd ke)) (g_edges g))); [cbn; assumption|].
  destruct (t_add_edge_label (h_tab h) l) as [t1 r1] eqn:E1.
  destruct (add_edge_label_spec _ _ _ _ E1 T) as (A1 & B1 & C1 & D1 & F1 & _).
  destruct r1 as [| |k]; [|destruct F1; discriminate | cbn; assumption].
  specialize (C1 eq_refl).
  destruct (fold_nl_ok (g_nodes g) t1 A1) as [A2 B2].
  set (t2 := fold_left (fun t kn => t_add_node_label t (n_label (snd kn))) (g_nodes g) t1) in *.
  destruct (fold_err (fun t ke => t_add_edge_label t (e_label (snd ke))) (g_edges g) t2) as [t3 r3] eqn:E3.
  destruct (fold_el_spec _ _ _ _ E3 A2) as (A3 & B3 & C3).
  assert (LE : tab_le (h_tab h) t3) by (eapply tab_le_trans; [exact B1 | eapply tab_le_trans; eauto]).
  assert (OLD : forall k rs r, In (k, rs) (h_rules h) -> In r rs -> rule_wf os t3 r).
  { intros k rs r H1 H2. eapply rule_wf_mono; [intros ? ? X; exact X | exact LE | eauto]. }
  pose proof (fold_err_result (fun t ke => t_add_edge_label t (e_label (snd ke))) (g_edges g) t2) as FR.
  rewrite E3 in FR. cbn in FR.
  destruct r3 as [|b|k]; cbn.
  2:{ destruct FR as [FR|[? FR]]; discriminate. }
  2:{ split; cbn; auto. }
  split; cbn; auto.
  - apply NoDup_aset. assumption.
  - intros k rs r H1 H2. apply In_aset in H1. destruct H1 as [H1|H1]; [|eapply L; eauto].
    inversion H1; subst. apply in_app_or in H2. destruct H2 as [H2|[<-|[]]]; [|reflexivity].
    destruct (aget elabel_eq_dec (h_rules h) l) eqn:G; [|destruct H2].
    apply aget_In in G. eapply L; eauto.
  - intros k rs r H1 H2. apply In_aset in H1. destruct H1 as [H1|H1]; [|eapply OLD; eauto].
    inversion H1; subst. apply in_app_or in H2. destruct H2 as [H2|[<-|[]]].
    + destruct (aget elabel_eq_dec (h_rules h) l) eqn:G; [|destruct H2].
      apply aget_In in G. eapply OLD; eauto.
    + split; cbn; [apply B3, B2, C1|].
      exists g. split; [assumption|]. unfold rule_ok in RO. apply andb_true_iff in RO. destruct RO as [_ RO].
      destruct (lnat_eq_dec (el_ty l) (g_type g)); [|discriminate]. split; [assumption|].
      intros k0 e0 H. apply (C3 eq_refl (k0, e0)). assumption.
Qed.

(** after the clash test the registration of a rule's labels cannot raise *)
Lemma labels_clash_step : forall t l ls,
    labels_clash (t_el t) (l :: ls) = false ->
    exists t', t_add_edge_label t l = (t', ROk) /\ labels_clash (t_el t') ls = false.
Proof.
  intros t l ls H. cbn in H. unfold t_add_edge_label.
  destruct (aget Nat.eq_dec (t_el t) (el_name l)) as [l'|] eqn:G.
  - destruct (elabel_eq_dec l' l) as [->|]; [|discriminate].
    eexists. split; [reflexivity|]. cbn. rewrite (aset_id Nat.eq_dec _ _ _ G). assumption.
  - eexists. split; [reflexivity|]. cbn. assumption.
Qed.

Lemma fold_nl_el : forall (l : list (ident * node)) t,
    t_el (fold_left (fun t kn => t_add_node_label t (n_label (snd kn))) l t) = t_el t.
Proof. induction l as [|x l IH]; intros t; cbn; [reflexivity|]. rewrite IH. reflexivity. Qed.

Lemma labels_clash_fold : forall (es : list (ident * edge)) t,
    labels_clash (t_el t) (map (fun ke => e_label (snd ke)) es) = false ->
    is_err (snd (fold_err (fun t ke => t_add_edge_label t (e_label (snd ke))) es t)) = false.
Proof.
  induction es as [|x es IH]; intros t H; cbn; [reflexivity|].
  destruct (labels_clash_step _ _ _ H) as (t' & E & H'). rewrite E. apply IH. assumption.
Qed.

(** add_rule either raises and changes nothing, or succeeds *)
Lemma h_add_rule_cases : forall h r g,
    h_add_rule h r g = (h, RErr ValueErr) \/ snd (h_add_rule h r g) = ROk.
Proof.
  intros h r g. unfold h_add_rule.
  destruct (labels_clash (t_el (h_tab h)) (r_lhs r :: map (fun ke => e_label (snd ke)) (g_edges g))) eqn:LC; [left; reflexivity|].
  right. destruct (labels_clash_step _ _ _ LC) as (t1 & E1 & LC1). rewrite E1.
  pose proof (labels_clash_fold (g_edges g)
              (fold_left (fun t kn => t_add_node_label t (n_label (snd kn))) (g_nodes g) t1)) as F.
  rewrite fold_nl_el in F. specialize (F LC1).
  pose proof (fold_err_result (fun t ke => t_add_edge_label t (e_label (snd ke))) (g_edges g)
              (fold_left (fun t kn => t_add_node_label t (n_label (snd kn))) (g_nodes g) t1)) as FR.
  destruct (fold_err _ (g_edges g) _) as [t3 r3]. cbn in *.
  destruct FR as [->|[k ->]]; [reflexivity | discriminate].
Qed.

(** * copies of graphs *)
Lemma g_add_node_result : forall g n, snd (g_add_node g n) = ROk \/ snd (g_add_node g n) = RErr ValueErr.
Proof. intros. unfold g_add_node. destruct (amem ident_eq_dec (g_nodes g) (n_id n)); cbn; auto. Qed.

Lemma nodes_phase : forall l c0 c1 r,
    fold_err g_add_node l c0 = (c1, r) ->
    grows c0 c1 /\ (is_err r = false -> forall n, In n l -> has_node c1 n).
Proof.
  induction l as [|n l IH]; intros c0 c1 r E; cbn in E.
  - inversion E; subst. split; [apply grows_refl | intros _ ? []].
  - pose proof (add_node_grows c0 n) as G0. pose proof (add_node_has c0 n) as H0.
    pose proof (g_add_node_result c0 n) as R0.
    destruct (g_add_node c0 n) as [c0' r0]. cbn in *.
    destruct r0 as [| |k].
    + destruct (IH _ _ _ E) as [G1 H1]. split; [eapply grows_trans; eauto|].
      intros NE m [<-|Hm]; [|apply H1; assumption].
      apply (gr_nodes _ _ G1). apply H0. reflexivity.
    + destruct R0; discriminate.
    + inversion E; subst. split; [assumption | cbn; discriminate].
Qed.

Lemma g_add_edge_keeps : forall g e n, has_node g n -> has_node (fst (g_add_edge g e)) n.
Proof.
  intros g e n H.
  destruct (g_add_edge_cases g e) as [E|(add & t' & CN & E & _)]; rewrite E; cbn [fst]; [assumption|].
  unfold has_node. cbn. apply (gr_nodes _ _ (add_all_grows add g)). assumption.
Qed.

Lemma edges_phase : forall l c1 c2 r,
    fold_err g_add_edge l c1 = (c2, r) -> graph_ok c1 ->
    (forall e, In e l -> el_ty (e_label e) = map n_label (e_nodes e)) ->
    graph_ok c2 /\ (forall n, has_node c1 n -> has_node c2 n) /\ g_ext c2 = g_ext c1 /\
    forall k e, In (k, e) (g_edges c2) -> In (k, e) (g_edges c1) \/ In e l.
Proof.
  induction l as [|e l IH]; intros c1 c2 r E OK TY; cbn in E.
  - inversion E; subst. auto.
  - assert (OK' : graph_ok (fst (g_add_edge c1 e))).
    { apply g_add_edge_ok; [assumption | apply TY; left; reflexivity]. }
    pose proof (g_add_edge_keeps c1 e) as KP. pose proof (g_add_edge_shape c1 e) as [SX SE].
    destruct (g_add_edge c1 e) as [c1' r1]. cbn [fst snd] in *.
    assert (DONE : (c2, r) = (c1', r1) \/ fold_err g_add_edge l c1' = (c2, r)).
    { destruct r1; auto. }
    destruct DONE as [D|D].
    + inversion D; subst. split; [exact OK'|]. split; [|split; [exact SX|]].
      * intros n Hn. apply KP. assumption.
      * intros k e0 H. destruct (SE _ _ H) as [X|[-> _]]; [left; assumption | right; left; reflexivity].
    + destruct (IH _ _ _ D OK') as (A & B & C & F).
      * intros e0 H. apply TY. right. assumption.
      * split; [exact A|]. split; [|split; [congruence|]].
        -- intros n Hn. apply B. apply KP. assumption.
        -- intros k e0 H. destruct (F _ _ H) as [X|X]; [|right; right; assumption].
           destruct (SE _ _ X) as [Y|[-> _]]; [left; assumption | right; left; reflexivity].
Qed.

Lemma empty_graph_ok : forall b, graph_ok (empty_graph b).
Proof.
  intros. split; cbn; try apply keyed_nil; try apply tab_ok_empty; try (intros ? ? ? []); try (intros ? ? []); intros ? [].
Qed.

(** a copy of a well-formed graph is well formed, has the same external nodes, the same label
    tables, and only edges of the original *)
Lemma g_copy_ok : forall g c,
    graph_ok g -> g_copy g = inl c ->
    graph_ok c /\ g_ext c = g_ext g /\ (forall k e, In (k, e) (g_edges c) -> In (k, e) (g_edges g)) /\
    t_nl (g_tab c) = t_nl (g_tab g) /\ t_el (g_tab c) = t_el (g_tab g).
Proof.
  intros g c OK E. unfold g_copy in E.
  destruct (g_fg g) eqn:FG.
  - destruct (fold_err g_add_node (map snd (g_nodes g)) (empty_graph true)) as [c1 r1] eqn:E1.
    destruct (nodes_phase _ _ _ _ E1) as [G1 H1].
    assert (NE1 : is_err r1 = false) by (destruct r1; [reflexivity | reflexivity | discriminate]).
    assert (E' : match fold_err g_add_edge (map snd (g_edges g)) c1 with
                 | (_, RErr k) => inr k
                 | (c0, _) => inl (gset_tab (gset_ext c0 (g_ext g))
                                            (mkT (t_nl (g_tab g)) (t_el (g_tab g)) (t_dom (g_tab g)) (t_fac (g_tab g))))
                 end = inl c) by (destruct r1; [exact E | exact E | discriminate]).
    clear E. destruct (fold_err g_add_edge (map snd (g_edges g)) c1) as [c2 r2] eqn:E2.
    assert (HAS : forall n, has_node g n -> has_node c1 n).
    { intros n Hn. apply H1; [assumption|]. apply aget_In in Hn. change n with (snd (n_id n, n)). apply in_map. assumption. }
    destruct (edges_phase _ _ _ _ E2 (grows_ok _ _ (empty_graph_ok true) G1)) as (A & B & C & D).
    { intros e He. apply in_map_iff in He. destruct He as [[k e'] [<- He]]. eapply (gk_typed _ OK); eauto. }
    assert (Ec : c = gset_tab (gset_ext c2 (g_ext g))
                              (mkT (t_nl (g_tab g)) (t_el (g_tab g)) (t_dom (g_tab g)) (t_fac (g_tab g))))
      by (destruct r2; inversion E'; reflexivity).
    subst c. cbn.
    assert (SUB : forall k e, In (k, e) (g_edges c2) -> In (k, e) (g_edges g)).
    { intros k e H. destruct (D _ _ H) as [X|X].
      - rewrite (gr_edges _ _ G1) in X. destruct X.
      - apply in_map_iff in X. destruct X as [[k' e'] [<- X]]. cbn.
        pose proof (proj2 (gk_edges _ OK) _ _ X) as K1. pose proof (proj2 (gk_edges _ A) _ _ H) as K2.
        cbn in *. congruence. }
    split; [|auto].
    destruct A as [a1 a2 a3 a4 a5 a6 a7]. destruct (gk_tab _ OK) as [t1 t2]. split; cbn; auto.
    + split; assumption.
    + intros n Hn. apply B, HAS, (gk_ext _ OK). assumption.
    + intros k e H. unfold registered. cbn. apply (gk_reg _ OK k e). apply SUB. assumption.
  - inversion E; subst c. cbn. split; [|auto].
    destruct OK as [N Ed [t1 t2] A X R Ty]. split; cbn; auto. split; assumption.
Qed.
