(** C02, parts 1 and 2 (generic): in an ordered commutative semiring the grammar's equations
    [step G w] are monotone in the environment, the Kleene iterates [Zk] form an increasing
    chain, and every pre-fixed point bounds every Kleene iterate (Park induction).  Also the
    range facts: a well-formed rule only queries its sub-environment at in-range index tuples
    of labels of the grammar, so all of this holds relative to "in range" as well. *)
From Coq Require Import List Arith Bool PeanoNat Lia Ring_theory.
Import ListNotations.
Require Import Fggs.Model.SCC Fggs.Model.SumProduct Fggs.Model.Semiring.

(** * list_eqb, all_assts, sel: order-free facts *)
Lemma nat_list_eqb_eq a b : nat_list_eqb a b = true -> a = b.
Proof.
  unfold nat_list_eqb, list_eqb. revert b.
  induction a as [|x a IH]; intros [|y b]; cbn; try discriminate; auto.
  intros H. apply andb_true_iff in H as [Hl H]. apply andb_true_iff in H as [Hxy H].
  apply Nat.eqb_eq in Hxy. subst y. f_equal. apply IH. rewrite Hl. exact H.
Qed.

Lemma nat_list_eqb_refl a : nat_list_eqb a a = true.
Proof.
  unfold nat_list_eqb, list_eqb. rewrite Nat.eqb_refl. cbn [andb].
  induction a as [|x a IH]; [reflexivity|]. cbn. rewrite Nat.eqb_refl. exact IH.
Qed.

Lemma nat_list_eqb_iff a b : nat_list_eqb a b = true <-> a = b.
Proof. split; [apply nat_list_eqb_eq | intros ->; apply nat_list_eqb_refl]. Qed.

(** [In a (all_assts sizes)] means: same length and every coordinate below its size *)
Lemma in_all_assts a sizes : In a (all_assts sizes) <-> Forall2 lt a sizes.
Proof.
  revert a. induction sizes as [|n rest IH]; intros a; cbn [all_assts].
  - split.
    + intros [<-|[]]. constructor.
    + intros H. inversion H. left. reflexivity.
  - rewrite in_flat_map. split.
    + intros (i & Hi & Ha). apply in_map_iff in Ha as (a' & <- & Ha').
      apply in_seq in Hi. constructor; [lia | apply IH; exact Ha'].
    + intros H. inversion H as [|i n' a' rest' Hi Ha']; subst.
      exists i. split; [apply in_seq; lia|]. apply in_map_iff. exists a'. split; [reflexivity|].
      apply IH. exact Ha'.
Qed.

Lemma Forall2_lt_nth a sizes i :
  Forall2 lt a sizes -> i < length sizes -> nth i a 0 < nth i sizes 0.
Proof.
  intros H. revert i. induction H as [|x n a sizes Hx H IH]; intros i Hi; cbn in Hi; [lia|].
  destruct i as [|i]; cbn [nth]; [exact Hx | apply IH; lia].
Qed.

Lemma sel_in_range a sizes idxs :
  Forall2 lt a sizes -> Forall (fun i => i < length sizes) idxs ->
  Forall2 lt (sel a idxs) (map (fun i => nth i sizes 0) idxs).
Proof.
  intros Ha H. unfold sel. induction H as [|i idxs Hi H IH]; cbn [map]; constructor.
  - apply Forall2_lt_nth; assumption.
  - exact IH.
Qed.

(** * what [wf_rule] / [wf_grammar] give *)
Lemma wf_rule_edge G r ed :
  wf_rule G r = true -> In ed (r_edges r) ->
  fst ed < length (g_labels G)
  /\ Forall (fun i => i < length (r_nodes r)) (snd ed)
  /\ map (fun i => nth i (r_nodes r) 0) (snd ed) = ltype G (fst ed).
Proof.
  unfold wf_rule. intros H Hin.
  apply andb_true_iff in H as [H _]. apply andb_true_iff in H as [H _].
  apply andb_true_iff in H as [_ Hedges].
  rewrite forallb_forall in Hedges. specialize (Hedges ed Hin).
  apply andb_true_iff in Hedges as [Hedges H3]. apply andb_true_iff in Hedges as [H1 H2].
  split; [apply Nat.ltb_lt; exact H1|]. split.
  - apply Forall_forall. intros i Hi. rewrite forallb_forall in H2. apply Nat.ltb_lt. apply H2. exact Hi.
  - apply nat_list_eqb_eq. exact H3.
Qed.

Lemma wf_grammar_rule G r : wf_grammar G = true -> In r (g_rules G) -> wf_rule G r = true.
Proof.
  unfold wf_grammar. intros H Hin.
  repeat (apply andb_true_iff in H as [H ?]).
  rewrite forallb_forall in H. apply H. exact Hin.
Qed.

Lemma in_rules_of G X r : In r (rules_of G X) <-> In r (g_rules G) /\ r_lhs r = X.
Proof. unfold rules_of. rewrite filter_In, Nat.eqb_eq. reflexivity. Qed.

Lemma in_nonterminals G l : In l (nonterminals G) <-> l < length (g_labels G) /\ is_term G l = false.
Proof.
  unfold nonterminals. rewrite filter_In, in_seq, negb_true_iff. split; intros [H1 H2]; (split; [lia | exact H2]).
Qed.

(** the index tuple a well-formed rule passes to the tensor of one of its edges is in range *)
Lemma wf_rule_query_in_range G r ed a :
  wf_rule G r = true -> In ed (r_edges r) -> In a (all_assts (node_sizes G r)) ->
  In (sel a (snd ed)) (all_assts (lshape G (fst ed))).
Proof.
  intros Hwf Hed Ha. destruct (wf_rule_edge G r ed Hwf Hed) as (_ & Hidx & Hty).
  apply in_all_assts. apply in_all_assts in Ha.
  unfold lshape. rewrite <- Hty. rewrite map_map.
  replace (map (fun i => dom G (nth i (r_nodes r) 0)) (snd ed))
    with (map (fun i => nth i (node_sizes G r) 0) (snd ed)).
  - apply sel_in_range; [exact Ha|]. unfold node_sizes. rewrite map_length. exact Hidx.
  - apply map_ext_in. intros i Hi. rewrite Forall_forall in Hidx. specialize (Hidx i Hi).
    unfold node_sizes. rewrite (nth_indep _ 0 (dom G 0)) by (rewrite map_length; exact Hidx).
    apply map_nth.
Qed.

Section Mono.
Context {R : Type} (o : sr_ops R).
Hypothesis Hr : sr_ring o.
Hypothesis Ho : sr_ordered o.

Local Notation "x <== y" := (le o x y) (at level 70).

(** * part 1: monotonicity *)
Lemma mul_mono2 a b c d : a <== b -> c <== d -> mul o a c <== mul o b d.
Proof.
  intros H1 H2. apply (le_trans o Ho) with (mul o a d).
  - apply (mul_mono o Ho). exact H2.
  - rewrite (SRmul_comm Hr a d), (SRmul_comm Hr b d). apply (mul_mono o Ho). exact H1.
Qed.

Lemma sum_list_mono l1 l2 : Forall2 (le o) l1 l2 -> sum_list o l1 <== sum_list o l2.
Proof.
  induction 1; cbn [sum_list]; [apply (le_refl o Ho) | apply (add_mono o Ho); assumption].
Qed.

Lemma prod_list_mono l1 l2 : Forall2 (le o) l1 l2 -> prod_list o l1 <== prod_list o l2.
Proof.
  induction 1; cbn [prod_list]; [apply (le_refl o Ho) | apply mul_mono2; assumption].
Qed.

Lemma sumS_mono {A} (l : list A) (f g : A -> R) :
  (forall a, In a l -> f a <== g a) -> sumS o l f <== sumS o l g.
Proof.
  intros H. unfold sumS. apply sum_list_mono.
  induction l as [|a l IH]; cbn [map]; constructor.
  - apply H. left. reflexivity.
  - apply IH. intros b Hb. apply H. right. exact Hb.
Qed.

Lemma prodS_mono {A} (l : list A) (f g : A -> R) :
  (forall a, In a l -> f a <== g a) -> prodS o l f <== prodS o l g.
Proof.
  intros H. unfold prodS. apply prod_list_mono.
  induction l as [|a l IH]; cbn [map]; constructor.
  - apply H. left. reflexivity.
  - apply IH. intros b Hb. apply H. right. exact Hb.
Qed.

Lemma sumS_ext {A} (l : list A) (f g : A -> R) :
  (forall a, In a l -> f a = g a) -> sumS o l f = sumS o l g.
Proof. intros H. unfold sumS. f_equal. apply map_ext_in. exact H. Qed.

Lemma prodS_ext {A} (l : list A) (f g : A -> R) :
  (forall a, In a l -> f a = g a) -> prodS o l f = prodS o l g.
Proof. intros H. unfold prodS. f_equal. apply map_ext_in. exact H. Qed.

(** pointwise order on environments *)
Definition env_le (x y : env (R:=R)) : Prop := forall X xi, x X xi <== y X xi.

(** the queries [rule_val] makes: label of an edge of the rule, at the restriction of a full
    assignment of the rule's nodes to that edge's attachment nodes *)
Definition queried (G : grammar) (r : rule) (l : nat) (xi : list nat) : Prop :=
  exists ed a, In ed (r_edges r) /\ In a (all_assts (node_sizes G r)) /\ l = fst ed /\ xi = sel a (snd ed).

Lemma rule_val_mono_queried G (e1 e2 : env (R:=R)) r xi :
  (forall l xj, queried G r l xj -> e1 l xj <== e2 l xj) ->
  rule_val o G e1 r xi <== rule_val o G e2 r xi.
Proof.
  intros H. unfold rule_val. apply sumS_mono. intros a Ha. apply filter_In in Ha as [Ha _].
  apply prodS_mono. intros ed Hed. apply H. exists ed, a. auto.
Qed.

Lemma rule_val_ext_queried G (e1 e2 : env (R:=R)) r xi :
  (forall l xj, queried G r l xj -> e1 l xj = e2 l xj) ->
  rule_val o G e1 r xi = rule_val o G e2 r xi.
Proof.
  intros H. unfold rule_val. apply sumS_ext. intros a Ha. apply filter_In in Ha as [Ha _].
  apply prodS_ext. intros ed Hed. apply H. exists ed, a. auto.
Qed.

(** a well-formed rule queries only labels of the grammar at in-range index tuples *)
Lemma wf_rule_queried_in_range G r l xj :
  wf_rule G r = true -> queried G r l xj ->
  l < length (g_labels G) /\ In xj (all_assts (lshape G l)).
Proof.
  intros Hwf (ed & a & Hed & Ha & -> & ->). split.
  - apply (wf_rule_edge G r ed Hwf Hed).
  - apply (wf_rule_query_in_range G r ed a Hwf Hed Ha).
Qed.

Lemma rule_val_mono G (e1 e2 : env (R:=R)) r xi :
  env_le e1 e2 -> rule_val o G e1 r xi <== rule_val o G e2 r xi.
Proof. intros H. apply rule_val_mono_queried. intros l xj _. apply H. Qed.

(** [x <= y] on the nonterminals of G at in-range tuples *)
Definition env_le_on (G : grammar) (x y : env (R:=R)) : Prop :=
  forall X xi, In X (nonterminals G) -> In xi (all_assts (lshape G X)) -> x X xi <== y X xi.
Definition env_eq_on (G : grammar) (x y : env (R:=R)) : Prop :=
  forall X xi, In X (nonterminals G) -> In xi (all_assts (lshape G X)) -> x X xi = y X xi.

Lemma env_le_le_on G x y : env_le x y -> env_le_on G x y.
Proof. intros H X xi _ _. apply H. Qed.

Lemma rule_val_mono_on G w (x y : env (R:=R)) r xi :
  wf_rule G r = true -> env_le_on G x y ->
  rule_val o G (fun l => if is_term G l then w l else x l) r xi
  <== rule_val o G (fun l => if is_term G l then w l else y l) r xi.
Proof.
  intros Hwf H. apply rule_val_mono_queried. intros l xj Hq.
  destruct (wf_rule_queried_in_range G r l xj Hwf Hq) as [Hl Hxj].
  destruct (is_term G l) eqn:E; [apply (le_refl o Ho)|].
  apply H; [apply in_nonterminals; auto | exact Hxj].
Qed.

Lemma rule_val_ext_on G w (x y : env (R:=R)) r xi :
  wf_rule G r = true -> env_eq_on G x y ->
  rule_val o G (fun l => if is_term G l then w l else x l) r xi
  = rule_val o G (fun l => if is_term G l then w l else y l) r xi.
Proof.
  intros Hwf H. apply rule_val_ext_queried. intros l xj Hq.
  destruct (wf_rule_queried_in_range G r l xj Hwf Hq) as [Hl Hxj].
  destruct (is_term G l) eqn:E; [reflexivity|].
  apply H; [apply in_nonterminals; auto | exact Hxj].
Qed.

Theorem step_mono G w (x y : env (R:=R)) : env_le x y -> env_le (step o G w x) (step o G w y).
Proof.
  intros H X xi. unfold step. destruct (is_term G X); [apply (le_refl o Ho)|].
  apply sumS_mono. intros r _. apply rule_val_mono.
  intros l xj. destruct (is_term G l); [apply (le_refl o Ho) | apply H].
Qed.

(** the same relative to the range: comparing [x] and [y] only where a well-formed grammar
    looks is enough, and the conclusion holds at EVERY index tuple [xi] *)
Theorem step_mono_on G w (x y : env (R:=R)) :
  wf_grammar G = true -> env_le_on G x y -> env_le (step o G w x) (step o G w y).
Proof.
  intros Hwf H X xi. unfold step. destruct (is_term G X); [apply (le_refl o Ho)|].
  apply sumS_mono. intros r Hr'. apply in_rules_of in Hr' as [Hr' _].
  apply rule_val_mono_on; [apply (wf_grammar_rule G r Hwf Hr') | exact H].
Qed.

Theorem step_ext_on G w (x y : env (R:=R)) :
  wf_grammar G = true -> env_eq_on G x y -> forall X xi, step o G w x X xi = step o G w y X xi.
Proof.
  intros Hwf H X xi. unfold step. destruct (is_term G X); [reflexivity|].
  apply sumS_ext. intros r Hr'. apply in_rules_of in Hr' as [Hr' _].
  apply rule_val_ext_on; [apply (wf_grammar_rule G r Hwf Hr') | exact H].
Qed.

(** the Kleene iterates form an increasing chain *)
Theorem Zk_chain G w k : env_le (Zk o G w k) (Zk o G w (S k)).
Proof.
  induction k as [|k IH].
  - intros X xi. cbn [Zk]. unfold zero_env at 1. apply (zero_le o Ho).
  - change (env_le (step o G w (Zk o G w k)) (step o G w (Zk o G w (S k)))).
    apply step_mono. exact IH.
Qed.

Corollary Zk_mono_k G w j k : j <= k -> env_le (Zk o G w j) (Zk o G w k).
Proof.
  induction 1 as [|k Hjk IH]; intros X xi; [apply (le_refl o Ho)|].
  apply (le_trans o Ho) with (Zk o G w k X xi); [apply IH | apply Zk_chain].
Qed.

(** * part 2: Park induction *)
Theorem park G w (u : env (R:=R)) :
  env_le (step o G w u) u -> forall k, env_le (Zk o G w k) u.
Proof.
  intros Hu k. induction k as [|k IH]; intros X xi.
  - cbn [Zk]. unfold zero_env. apply (zero_le o Ho).
  - cbn [Zk]. apply (le_trans o Ho) with (step o G w u X xi); [|apply Hu].
    apply step_mono. exact IH.
Qed.

(** Park relative to the range: [u] need only be a pre-fixed point at the in-range tuples of
    the nonterminals (that is what [prefix_ok] tests) *)
Theorem park_on G w (u : env (R:=R)) :
  wf_grammar G = true -> env_le_on G (step o G w u) u -> forall k, env_le_on G (Zk o G w k) u.
Proof.
  intros Hwf Hu k. induction k as [|k IH]; intros X xi HX Hxi.
  - cbn [Zk]. unfold zero_env. apply (zero_le o Ho).
  - cbn [Zk]. apply (le_trans o Ho) with (step o G w u X xi); [|apply Hu; assumption].
    apply step_mono_on; assumption.
Qed.

(** consequently a pre-fixed point is above every fixed point that is a limit of the chain;
    and any two "least pre-fixed points" coincide.  The least fixed point [mu] of the
    equations, when it exists in the carrier, is characterised by: [step mu = mu] and
    [mu <= u] for every pre-fixed point [u]; then every [Zk k <= mu]. *)
Corollary Zk_below_fixed_point G w (mu : env (R:=R)) :
  (forall X xi, step o G w mu X xi = mu X xi) -> forall k, env_le (Zk o G w k) mu.
Proof.
  intros H. apply park. intros X xi. rewrite H. apply (le_refl o Ho).
Qed.

End Mono.
