(** Bounded, in-kernel theorems about the model of fggs/factorize.py: every labelled simple
    graph on at most 5 vertices (vertex set 0..n-1, dict insertion order 0..n-1) and,
    for at most 4 vertices, every dict insertion order.  Proofs for the stated finite
    domains only ([vm_compute] + [forallb_forall]); the bound is in every name. *)
From Coq Require Import List Arith Bool PeanoNat NArith Lia.
Import ListNotations.
Require Import Fggs.Model.TreeDec.

Fixpoint sublists {A} (l : list A) : list (list A) :=
  match l with [] => [[]] | x :: l => let r := sublists l in r ++ map (cons x) r end.
Definition all_pairs (n : nat) : list (nat * nat) :=
  flat_map (fun i => map (fun j => (i, j)) (seq (S i) (n - S i))) (seq 0 n).
Definition pair_in (es : list (nat * nat)) (v w : nat) : bool :=
  existsb (fun e => ((fst e =? v) && (snd e =? w)) || ((fst e =? w) && (snd e =? v))) es.
Definition graph_of_edges (order : list nat) (n : nat) (es : list (nat * nat)) : graph :=
  map (fun v => (v, filter (pair_in es v) (seq 0 n))) order.
Definition graphs_on (n : nat) : list graph := map (graph_of_edges (seq 0 n) n) (sublists (all_pairs n)).
Definition graphs_upto5 : list graph :=
  graphs_on 0 ++ graphs_on 1 ++ graphs_on 2 ++ graphs_on 3 ++ graphs_on 4 ++ graphs_on 5.
(** all insertion orders *)
Definition graphs_perm_on (n : nat) : list graph :=
  flat_map (fun order => map (graph_of_edges order n) (sublists (all_pairs n))) (perms (seq 0 n)).
Definition graphs_perm_upto4 : list graph :=
  graphs_perm_on 0 ++ graphs_perm_on 1 ++ graphs_perm_on 2 ++ graphs_perm_on 3 ++ graphs_perm_on 4.

Example graphs_upto5_size : length graphs_upto5 = 1100.
Proof. vm_compute. reflexivity. Qed.
Example graphs_perm_upto4_size : length graphs_perm_upto4 = 1590.
Proof. vm_compute. reflexivity. Qed.
Lemma graphs_upto5_wf : forallb wf_graphb graphs_upto5 = true.
Proof. vm_compute. reflexivity. Qed.
Lemma graphs_perm_upto4_wf : forallb wf_graphb graphs_perm_upto4 = true.
Proof. vm_compute. reflexivity. Qed.

(** * every elimination order gives a valid decomposition of the elimination width (stop-gap
      for the unbounded theorem in TreeDec_elim.v; kept as an independent cross-check of the
      model and of [td_ok]) *)
Definition elim_ok (g : graph) : bool :=
  forallb (fun order => match tdfo g order with
                        | Some t => td_ok g t && (width t =? elim_width g order)
                        | None => false end) (perms (gverts g)).
Lemma elim_ok_upto5_b : forallb elim_ok graphs_upto5 = true.
Proof. vm_compute. reflexivity. Qed.
Theorem elimination_td_valid_upto5 :
  forall g order, In g graphs_upto5 -> In order (perms (gverts g)) ->
    exists t, tdfo g order = Some t /\ td_ok g t = true /\ width t = elim_width g order.
Proof.
  intros g order Hg Ho.
  pose proof (proj1 (forallb_forall _ _) elim_ok_upto5_b g Hg) as H.
  pose proof (proj1 (forallb_forall _ _) H order Ho) as H1. cbv beta in H1.
  destruct (tdfo g order) as [t|]; [|discriminate].
  apply andb_true_iff in H1. destruct H1 as [H1 H2]. apply Nat.eqb_eq in H2. eauto.
Qed.

(** * min_fill and quickbb: result is (elimination width of the order, a permutation); the tree is valid;
      quickbb reaches the treewidth; minor_min_width <= tw <= min_fill *)
Definition order_res_ok (g : graph) (r : option (nat * list nat)) (exact : bool) : bool :=
  match r with
  | Some (w, order) =>
    is_perm order (gverts g) && (elim_width g order =? w)
    && (if exact then w =? tw_perm g else tw_perm g <=? w)
  | None => false
  end.
Definition td_res_ok (g : graph) (r : option td) (exact : bool) : bool :=
  match r with
  | Some t => td_ok g t && (if exact then width t =? tw_perm g else tw_perm g <=? width t)
  | None => false
  end.
Definition heur_ok (g : graph) : bool :=
  order_res_ok g (min_fill g) false && td_res_ok g (tree_decomposition 0 g) false
  && order_res_ok g (quickbb g) true && td_res_ok g (tree_decomposition 1 g) true
  && match minor_min_width g with Some l => l <=? tw_perm g | None => false end.

Lemma heur_ok_upto5_b : forallb heur_ok graphs_upto5 = true.
Proof. vm_compute. reflexivity. Qed.
Lemma heur_ok_perm_upto4_b : forallb heur_ok graphs_perm_upto4 = true.
Proof. vm_compute. reflexivity. Qed.

Lemma heur_ok_spec g : heur_ok g = true ->
  (exists w order t, quickbb g = Some (w, order) /\ is_perm order (gverts g) = true /\
       elim_width g order = w /\ w = tw_perm g /\
       tree_decomposition 1 g = Some t /\ td_ok g t = true /\ width t = tw_perm g) /\
  (exists l u order t, minor_min_width g = Some l /\ min_fill g = Some (u, order) /\
       l <= tw_perm g /\ tw_perm g <= u /\ is_perm order (gverts g) = true /\ elim_width g order = u /\
       tree_decomposition 0 g = Some t /\ td_ok g t = true /\ tw_perm g <= width t).
Proof.
  unfold heur_ok, order_res_ok, td_res_ok. intro H.
  repeat (apply andb_true_iff in H; destruct H as [H ?]).
  destruct (min_fill g) as [[u o]|]; [|discriminate].
  destruct (tree_decomposition 0 g) as [t0|]; [|discriminate].
  destruct (quickbb g) as [[w o1]|]; [|discriminate].
  destruct (tree_decomposition 1 g) as [t1|]; [|discriminate].
  destruct (minor_min_width g) as [l|]; [|discriminate].
  repeat match goal with
         | H : _ && _ = true |- _ => apply andb_true_iff in H; destruct H
         | H : (_ =? _) = true |- _ => apply Nat.eqb_eq in H
         | H : (_ <=? _) = true |- _ => apply Nat.leb_le in H
         end.
  split.
  - exists w, o1, t1. repeat split; auto.
  - exists l, u, o, t0. repeat split; auto.
Qed.

Theorem quickbb_optimal_upto5 :
  forall g, In g graphs_upto5 \/ In g graphs_perm_upto4 ->
    exists w order t, quickbb g = Some (w, order) /\ is_perm order (gverts g) = true /\
       elim_width g order = w /\ w = tw_perm g /\
       tree_decomposition 1 g = Some t /\ td_ok g t = true /\ width t = tw_perm g.
Proof.
  intros g [Hg|Hg].
  - apply heur_ok_spec, (proj1 (forallb_forall _ _) heur_ok_upto5_b g Hg).
  - apply heur_ok_spec, (proj1 (forallb_forall _ _) heur_ok_perm_upto4_b g Hg).
Qed.

Theorem bounds_bracket_upto5 :
  forall g, In g graphs_upto5 \/ In g graphs_perm_upto4 ->
    exists l u order t, minor_min_width g = Some l /\ min_fill g = Some (u, order) /\
       l <= tw_perm g /\ tw_perm g <= u /\ is_perm order (gverts g) = true /\ elim_width g order = u /\
       tree_decomposition 0 g = Some t /\ td_ok g t = true /\ tw_perm g <= width t.
Proof.
  intros g [Hg|Hg].
  - apply heur_ok_spec, (proj1 (forallb_forall _ _) heur_ok_upto5_b g Hg).
  - apply heur_ok_spec, (proj1 (forallb_forall _ _) heur_ok_perm_upto4_b g Hg).
Qed.

(** * acb: valid and optimal on the whole bounded domain (graphs with isolated vertices included;
      the defect F8 of the code before /repo 96ab4c3 is kept below as [acb_old]) *)
Definition acb_ok (g : graph) : bool := td_res_ok g (acb g) true.
Lemma acb_ok_upto5_b : forallb acb_ok graphs_upto5 = true.
Proof. vm_compute. reflexivity. Qed.
Lemma acb_ok_perm_upto4_b : forallb acb_ok graphs_perm_upto4 = true.
Proof. vm_compute. reflexivity. Qed.

Lemma acb_ok_spec g : acb_ok g = true ->
  exists t, tree_decomposition 2 g = Some t /\ td_ok g t = true /\ width t = tw_perm g.
Proof.
  unfold acb_ok, td_res_ok. intro H. cbn [tree_decomposition].
  destruct (acb g) as [t|]; [|discriminate].
  apply andb_true_iff in H. destruct H as [H1 H2]. apply Nat.eqb_eq in H2. eauto.
Qed.

Theorem acb_optimal_upto5 :
  forall g, In g graphs_upto5 \/ In g graphs_perm_upto4 ->
    exists t, tree_decomposition 2 g = Some t /\ td_ok g t = true /\ width t = tw_perm g.
Proof.
  intros g [Hg|Hg].
  - apply acb_ok_spec, (proj1 (forallb_forall _ _) acb_ok_upto5_b g Hg).
  - apply acb_ok_spec, (proj1 (forallb_forall _ _) acb_ok_perm_upto4_b g Hg).
Qed.

(** ** historical: acb before /repo 96ab4c3 (F8).  [acb_old] is NOT the model of the current code;
       it returned from inside the component loop as soon as a component was a single vertex. *)
Fixpoint acb_old_loop (g : graph) (comps : list (list nat)) (comptrees : list rtree)
  : option (td + list rtree) :=
  match comps with
  | [] => Some (inr comptrees)
  | c :: comps' =>
    let cg := restrict g c in
    match min_fill cg with
    | None => None
    | Some (ub, _) =>
      if ub =? 0 then Some (inl ([sort_set (gverts cg)], []))
      else match acb_try_k cg ub 1 with
           | ATree t => acb_old_loop g comps' (comptrees ++ [t])
           | _ => None
           end
    end
  end.
Definition acb_old (g : graph) : option td :=
  match connected_components g [] with
  | None => None
  | Some comps =>
    match acb_old_loop g comps [] with
    | None => None
    | Some (inl t) => Some t
    | Some (inr [t]) => unroot t (Some ([], []))
    | Some (inr ts) => unroot (RNode [] ts) (Some ([], []))
    end
  end.
Definition f8_graph : graph := [(0, [1]); (1, [0]); (2, [])].
Lemma acb_old_isolated_refuted :
  wf_graphb f8_graph = true /\ acb_old f8_graph = Some ([[2]], []) /\ td_ok f8_graph ([[2]], []) = false.
Proof. vm_compute. auto. Qed.
(** the repaired code on the same graph *)
Example acb_f8_graph_now :
  acb f8_graph = Some ([[]; [0; 1]; [2]], [(0, 1); (0, 2)]) /\
  td_ok f8_graph ([[]; [0; 1]; [2]], [(0, 1); (0, 2)]) = true.
Proof. vm_compute. auto. Qed.

(** the hypotheses are satisfiable by non-trivial values *)
Definition graph_eq_dec : forall a b : graph, {a = b} + {a <> b}.
Proof. repeat decide equality. Defined.
Lemma in_dec_true g l : (if in_dec graph_eq_dec g l then true else false) = true -> In g l.
Proof. destruct (in_dec graph_eq_dec g l); [auto|discriminate]. Qed.
Example c5_in_domain : In [(0,[1;4]);(1,[0;2]);(2,[1;3]);(3,[2;4]);(4,[0;3])] graphs_upto5.
Proof. apply in_dec_true. vm_compute. reflexivity. Qed.
Example f8_in_domain : In f8_graph graphs_upto5.
Proof. apply in_dec_true. vm_compute. reflexivity. Qed.
