(** C17: when does [conjoin_hrgs] return?  Always, unless two terminal labels conflict
    ([conjoin_hrgs_total]).  Before /repo commit 00f91d1 the code raised on two further classes of
    inputs; the witnesses are kept, about the explicitly named old definitions of Model/ConjOld.v
    ([*_refuted_old]). *)
From Coq Require Import List Arith Bool PeanoNat Lia Permutation Sorted.
Import ListNotations.
Require Import Fggs.Model.Conj Fggs.Model.ConjOld Fggs.Proofs.ConjBase Fggs.Proofs.ConjNames
               Fggs.Proofs.ConjSort Fggs.Proofs.ConjRule Fggs.Proofs.ConjHrg Fggs.Proofs.ConjBij.

(** * witnesses of the two defect classes of the old code *)
Definition lS : elabel := {| el_name := [83]; el_type := []; el_term := false |}.
Definition lt : elabel := {| el_name := [116]; el_type := [0]; el_term := true |}.
Definition nd0 : node := {| n_id := 1; n_lab := 0 |}.
(** S -> a node with one terminal edge "t" whose id is the string numbered 1 *)
Definition ex_d1 : hrg :=
  {| h_nlabels := [0]; h_elabels := [lS; lt]; h_start := lS;
     h_rules := [(lS, [{| r_lhs := lS;
                          r_rhs := {| g_nodes := [nd0];
                                      g_edges := [{| e_id := 1; e_lab := lt; e_att := [nd0] |}];
                                      g_ext := [] |} |}])] |}.
(** S -> one nonterminal edge S with an implicit (int) id, numbered 0;  S -> empty *)
Definition ex_d2 : hrg :=
  {| h_nlabels := []; h_elabels := [lS]; h_start := lS;
     h_rules := [(lS, [{| r_lhs := lS;
                          r_rhs := {| g_nodes := [];
                                      g_edges := [{| e_id := 0; e_lab := lS; e_att := [] |}];
                                      g_ext := [] |} |};
                       {| r_lhs := lS; r_rhs := {| g_nodes := []; g_edges := []; g_ext := [] |} |}])] |}.

(** the old code, conjoining a grammar that has a terminal edge with itself: ValueError without
    any label conflict; the current code returns *)
Theorem shared_terminal_id_refuted_old :
  exists h1 h2, wf_hrg_b h1 = true /\ wf_hrg_b h2 = true /\ has_tt_conflict h1 h2 = false /\
                defect_shared_terminal_id_old h1 h2 = true /\
                conjoin_hrgs_model_old h1 h2 = Err ValueErr /\
                exists g, conjoin_hrgs_model h1 h2 = Ok g.
Proof. exists ex_d1, ex_d1. vm_compute. repeat split; eauto. Qed.

(** the old code on grammars that share a nonterminal edge with an implicit id: TypeError *)
Theorem int_nt_id_refuted_old :
  exists h1 h2, wf_hrg_b h1 = true /\ wf_hrg_b h2 = true /\ has_tt_conflict h1 h2 = false /\
                defect_int_nt_id_old h1 h2 = true /\
                conjoin_hrgs_model_old h1 h2 = Err TypeErr /\
                exists g, conjoin_hrgs_model h1 h2 = Ok g.
Proof. exists ex_d2, ex_d2. vm_compute. repeat split; eauto. Qed.

(** * the graph builder never fails on nodes that are present and on fresh ids *)
Lemma hid_app : forall l1 l2 i, hid (l1 ++ l2) i = hid l1 i || hid l2 i.
Proof. intros. unfold hid. apply existsb_app. Qed.
Lemma heid_app : forall l1 l2 i, heid (l1 ++ l2) i = heid l1 i || heid l2 i.
Proof. intros. unfold heid. apply existsb_app. Qed.

Lemma add_nodes_total : forall l g,
  NoDup (map n_id l) -> (forall n, In n l -> hid (g_nodes g) (n_id n) = false) ->
  exists g', mfold add_node l g = Ok g'.
Proof.
  induction l as [|a l IH]; simpl; intros g N F; [eauto|].
  inversion N as [|? ? N1 N2]; subst.
  unfold add_node at 1. unfold has_node_id. fold (hid (g_nodes g) (n_id a)).
  rewrite (F a (or_introl eq_refl)). apply IH; [exact N2|]. simpl.
  intros n Hn. rewrite hid_app, (F n (or_intror Hn)). simpl.
  destruct (Nat.eqb (n_id a) (n_id n)) eqn:E; [|reflexivity].
  apply Nat.eqb_eq in E. exfalso. apply N1. rewrite E. apply in_map. exact Hn.
Qed.

Lemma set_ext_present : forall g ns,
  NoDup (map n_id (g_nodes g)) -> (forall n, In n ns -> In n (g_nodes g)) ->
  set_ext g ns = Ok {| g_nodes := g_nodes g; g_edges := g_edges g; g_ext := ns |}.
Proof. intros g ns N P. unfold set_ext. rewrite (add_new_nodes_present g ns N P). reflexivity. Qed.

Lemma add_edge_present : forall g e,
  heid (g_edges g) (e_id e) = false ->
  NoDup (map n_id (g_nodes g)) -> (forall n, In n (e_att e) -> In n (g_nodes g)) ->
  add_edge g e = Ok {| g_nodes := g_nodes g; g_edges := g_edges g ++ [e]; g_ext := g_ext g |}.
Proof.
  intros g e H N P. unfold add_edge, has_edge_id. fold (heid (g_edges g) (e_id e)). rewrite H.
  rewrite (add_new_nodes_present g _ N P). reflexivity.
Qed.

Lemma add_edges_total : forall es g,
  NoDup (map n_id (g_nodes g)) ->
  (forall e n, In e es -> In n (e_att e) -> In n (g_nodes g)) ->
  NoDup (map e_id es) -> (forall e, In e es -> heid (g_edges g) (e_id e) = false) ->
  exists g', mfold add_edge es g = Ok g'.
Proof.
  induction es as [|e es IH]; simpl; intros g NN P N F; [eauto|].
  inversion N as [|? ? N1 N2]; subst.
  rewrite (add_edge_present g e (F e (or_introl eq_refl)) NN (fun n Hn => P e n (or_introl eq_refl) Hn)).
  apply IH; simpl.
  - exact NN.
  - intros e' n He Hn. apply (P e' n); auto.
  - exact N2.
  - intros e' He. rewrite heid_app, (F e' (or_intror He)). simpl.
    destruct (Nat.eqb (e_id e) (e_id e')) eqn:E; [|reflexivity].
    apply Nat.eqb_eq in E. exfalso. apply N1. rewrite E. apply in_map. exact He.
Qed.

Lemma conj_nt_edges_total : forall m base ps g,
  NoDup (map n_id (g_nodes g)) ->
  (forall p n, In p ps -> In n (e_att (fst p)) -> In n (g_nodes g)) ->
  (forall p, In p ps -> exists l, nt_get m (e_lab (fst p), e_lab (snd p)) = Some l /\
                                  el_type l = map n_lab (e_att (fst p))) ->
  NoDup (map (fun p => e_id (fst p)) ps) ->
  (forall p, In p ps -> is_int_id (e_id (fst p)) = false -> heid (g_edges g) (e_id (fst p)) = false) ->
  exists g', mfold (conj_nt_edge m base) ps g = Ok g'.
Proof.
  induction ps as [|p ps IH]; simpl; intros g NN P L N F; [eauto|].
  inversion N as [|? ? N1 N2]; subst.
  destruct (L p (or_introl eq_refl)) as [l [G Ty]].
  unfold conj_nt_edge at 1. rewrite G. unfold mk_edge.
  rewrite (proj2 (nats_eqb_eq _ _) Ty). simpl.
  set (i := if is_int_id (e_id (fst p)) then fresh_eid base g else e_id (fst p)).
  assert (Hi : heid (g_edges g) i = false).
  { unfold i. destruct (is_int_id (e_id (fst p))) eqn:I.
    - rewrite fresh_eid_of. apply fresh_not_in.
    - apply (F p); auto. }
  rewrite add_edge_present; simpl; [|exact Hi|exact NN|intros n Hn; apply (P p n); auto].
  apply IH; simpl.
  - exact NN.
  - intros q n Hq Hn. apply (P q n); auto.
  - intros q Hq. apply L. auto.
  - exact N2.
  - intros q Hq Iq. rewrite heid_app, (F q (or_intror Hq) Iq). simpl.
    destruct (Nat.eqb i (e_id (fst q))) eqn:E; [|reflexivity].
    apply Nat.eqb_eq in E. exfalso. unfold i in E. destruct (is_int_id (e_id (fst p))) eqn:I.
    + pose proof (fresh_of_even base (g_edges g)) as Ev. rewrite <- fresh_eid_of, E in Ev. congruence.
    + apply N1. rewrite E. apply (in_map (fun p => e_id (fst p))). exact Hq.
Qed.

Lemma add_t2_edges_total : forall base es g,
  NoDup (map n_id (g_nodes g)) ->
  (forall e n, In e es -> In n (e_att e) -> In n (g_nodes g)) ->
  (forall e, In e es -> el_type (e_lab e) = map n_lab (e_att e)) ->
  exists g', mfold (add_t2_edge base) es g = Ok g'.
Proof.
  induction es as [|e es IH]; simpl; intros g NN P T; [eauto|].
  assert (X : exists g1, add_t2_edge base g e = Ok g1 /\ g_nodes g1 = g_nodes g).
  { unfold add_t2_edge. destruct (has_edge_id g (e_id e)) eqn:H.
    - unfold mk_edge. rewrite (proj2 (nats_eqb_eq _ _) (T e (or_introl eq_refl))). simpl.
      rewrite add_edge_present; simpl; [eauto| |exact NN|intros n Hn; apply (P e n); auto].
      rewrite fresh_eid_of. apply fresh_not_in.
    - rewrite add_edge_present; [eauto|exact H|exact NN|intros n Hn; apply (P e n); auto]. }
  destruct X as [g1 [E EN]]. rewrite E. apply IH.
  - rewrite EN. exact NN.
  - intros e' n He Hn. rewrite EN. apply (P e' n); auto.
  - intros e' He. apply T. auto.
Qed.

Lemma existsb_false_forall {A} (f : A -> bool) : forall l,
  existsb f l = false <-> forall x, In x l -> f x = false.
Proof.
  induction l as [|a l IH]; simpl; [split; [intros _ x []|reflexivity]|].
  rewrite orb_false_iff, IH. split.
  - intros [H1 H2] x [<-|Hx]; auto.
  - intros H. split; [apply H; auto | intros x Hx; apply H; auto].
Qed.

(** two different edges of a graph with unique edge ids have different ids *)
Lemma edge_ids_differ : forall (l : list edge) a b,
  NoDup (map e_id l) -> In a l -> In b l -> el_term (e_lab a) <> el_term (e_lab b) -> e_id a <> e_id b.
Proof.
  intros l a b N Ha Hb D E. apply D.
  rewrite (NoDup_map_inj_in e_id l a b N Ha Hb E). reflexivity.
Qed.

(** * [conjoin_rules] returns on conjoinable rules *)
Lemma built_ids_base : forall m base pre ps es, built m base pre ps es ->
  forall e', In e' es -> exists p', In p' ps /\
    (is_int_id (e_id (fst p')) = true -> base < e_id e') /\
    (is_int_id (e_id (fst p')) = false -> e_id e' = e_id (fst p')).
Proof.
  induction 1 as [|pre p ps e es H B IH]; intros e' He'; [contradiction|].
  destruct He' as [<-|He'].
  - exists p. split; [left; reflexivity|]. unfold new_nt_edge in H.
    destruct (nt_get m (e_lab (fst p), e_lab (snd p))); [|discriminate]. injection H as <-. simpl.
    split; intros I; rewrite I; [apply fresh_of_gt_base | reflexivity].
  - destruct (IH e' He') as [p' [Hp' AB]]. exists p'. split; [right; exact Hp' | exact AB].
Qed.

Theorem conjoin_rules_total : forall base r1 r2 m,
  wf_rule r1 -> wf_rule r2 -> conjoinable_model r1 r2 = true ->
  (exists L, nt_get m (r_lhs r1, r_lhs r2) = Some L /\ el_term L = false /\
             el_type L = el_type (r_lhs r1)) ->
  (forall e1 e2, In e1 (nt_edges (r_rhs r1)) -> In e2 (nt_edges (r_rhs r2)) ->
     exists l, nt_get m (e_lab e1, e_lab e2) = Some l /\ el_type l = el_type (e_lab e1)) ->
  (forall e, In e (t_edges (r_rhs r1)) -> e_id e <= base) ->
  exists r, conjoin_rules_model base r1 r2 m = Ok r.
Proof.
  intros base r1 r2 m W1 W2 C [L [GL [TL TyL]]] ML BD.
  pose proof W1 as [W1a W1b [W1n W1e W1x W1t W1y]]. pose proof W2 as [W2a W2b [W2n W2e W2x W2t W2y]].
  pose proof (proj1 (conjoinable_spec _ _) C) as [Cn [Cs Cx]].
  assert (N1 : NoDup (map e_id (nt_edges (r_rhs r1)))) by (apply NoDup_map_filter; exact W1e).
  destruct (shared_pairs r1 r2 W1 W2 C) as [LEN _].
  unfold conjoin_rules_model. rewrite GL.
  (* nodes *)
  destruct (add_nodes_total (g_nodes (r_rhs r1)) empty_graph W1n) as [g0 H0]; [intros; reflexivity|].
  rewrite H0. simpl. apply add_nodes_ok in H0. unfold empty_graph in H0. simpl in H0.
  destruct H0 as [A0 [B0 C0]].
  (* ext *)
  rewrite set_ext_present; [|rewrite A0; exact W1n|rewrite A0; exact W1x]. simpl.
  fold (nt_sorted r1). fold (nt_sorted r2).
  (* nonterminal edges *)
  set (g1 := {| g_nodes := g_nodes g0; g_edges := g_edges g0; g_ext := g_ext (r_rhs r1) |}).
  assert (P1 : forall (p : edge * edge) n, In p (combine (nt_sorted r1) (nt_sorted r2)) ->
                 In n (e_att (fst p)) -> In n (g_nodes g1)).
  { intros [a b] n Hp Hn. simpl in *. rewrite A0. apply in_combine_l in Hp.
    apply (proj1 (sort_edges_in _ _)) in Hp. apply nt_edges_in in Hp. apply (W1t a n); tauto. }
  destruct (conj_nt_edges_total m base (combine (nt_sorted r1) (nt_sorted r2)) g1) as [g2 H2].
  { simpl. rewrite A0. exact W1n. }
  { exact P1. }
  { intros [a b] Hp. simpl. pose proof (in_combine_l _ _ _ _ Hp) as Ha. pose proof (in_combine_r _ _ _ _ Hp) as Hb.
    apply (proj1 (sort_edges_in _ _)) in Ha. apply (proj1 (sort_edges_in _ _)) in Hb.
    destruct (ML a b Ha Hb) as [l [G Ty]]. exists l. split; [exact G|]. rewrite Ty.
    apply W1y. apply nt_edges_in in Ha. tauto. }
  { replace (map (fun p : edge * edge => e_id (fst p)) (combine (nt_sorted r1) (nt_sorted r2)))
      with (map e_id (nt_sorted r1)).
    - unfold nt_sorted. apply sort_edges_nodup. exact N1.
    - destruct (map_fst_combine _ _ LEN) as [E _]. rewrite <- E at 1. rewrite map_map. reflexivity. }
  { intros p Hp _. simpl. rewrite B0. reflexivity. }
  rewrite H2. simpl.
  apply conj_nt_edges_ok in H2; [|simpl; rewrite A0; exact W1n|exact P1].
  destruct H2 as [es [F [G [A2 [B2 [C2 D2]]]]]]. simpl in A2, B2, C2, F. rewrite B0 in B2. simpl in B2.
  rewrite B0 in F.
  (* terminal edges of rule 1 *)
  destruct (add_edges_total (t_edges (r_rhs r1)) g2) as [g3 H3].
  { rewrite A2, A0. exact W1n. }
  { intros e n He Hn. rewrite A2, A0. apply t_edges_in in He. destruct He as [He _]. apply (W1t e n); assumption. }
  { apply NoDup_map_filter. exact W1e. }
  { intros e He. rewrite B2. apply heid_false. intros Hin. apply in_map_iff in Hin.
    destruct Hin as [e' [E He']].
    destruct (built_ids_base _ _ _ _ _ F e' He') as [[a b] [Hp [I1 I2]]]. simpl in I1, I2.
    destruct (is_int_id (e_id a)) eqn:I.
    - specialize (I1 eq_refl). specialize (BD e He). lia.
    - specialize (I2 eq_refl). apply in_combine_l in Hp. apply (proj1 (sort_edges_in _ _)) in Hp.
      apply t_edges_in in He. apply nt_edges_in in Hp.
      apply (edge_ids_differ (g_edges (r_rhs r1)) a e W1e); try tauto; [|congruence].
      destruct Hp as [_ Hp]. destruct He as [_ He]. rewrite Hp, He. discriminate. }
  rewrite H3. simpl. apply add_edges_ok in H3; [|rewrite A2, A0; exact W1n|].
  2:{ intros e n He Hn. rewrite A2, A0. apply t_edges_in in He. destruct He as [He _]. apply (W1t e n); assumption. }
  destruct H3 as [A3 [B3 [C3 D3]]].
  (* terminal edges of rule 2 *)
  destruct (add_t2_edges_total base (t_edges (r_rhs r2)) g3) as [g4 H4].
  { rewrite A3, A2, A0. exact W1n. }
  { intros e n He Hn. rewrite A3, A2, A0. apply t_edges_in in He. destruct He as [He _].
    apply (proj2 (Cn n)). apply (W2t e n); assumption. }
  { intros e He. apply t_edges_in in He. apply W2y. tauto. }
  rewrite H4. simpl. apply add_t2_edges_ok in H4; [|rewrite A3, A2, A0; exact W1n|].
  2:{ intros e n He Hn. rewrite A3, A2, A0. apply t_edges_in in He. destruct He as [He _].
      apply (proj2 (Cn n)). apply (W2t e n); assumption. }
  destruct H4 as [ts2' [F2 [A4 [B4 [C4 D4]]]]].
  unfold mk_rule. rewrite TL. rewrite C4, C3, C2, TyL, W1b.
  rewrite (proj2 (nats_eqb_eq _ _) eq_refl). simpl. eauto.
Qed.

(** * [conjoin_hrgs] returns *)
Lemma id_bound_ge : forall h1 h2 r e,
  In r (all_rules h1) -> In e (g_edges (r_rhs r)) -> e_id e <= id_bound h1 h2.
Proof.
  intros h1 h2 r e Hr He. unfold id_bound, hrg_max_id.
  assert (A : e_id e <= graph_max_id (r_rhs r)).
  { unfold graph_max_id. apply fold_max_ge. apply in_map. exact He. }
  assert (B : graph_max_id (r_rhs r) <= fold_right Nat.max 0 (map (fun r => graph_max_id (r_rhs r)) (all_rules h1))).
  { apply fold_max_ge. apply (in_map (fun r => graph_max_id (r_rhs r))). exact Hr. }
  lia.
Qed.

Lemma wf_hrg_tables : forall h, wf_hrg_b h = true ->
  NoDup (map el_name (h_elabels h)) /\ el_term (h_start h) = false /\ In (h_start h) (h_elabels h).
Proof.
  intros h W. unfold wf_hrg_b in W. repeat rewrite andb_true_iff in W.
  destruct W as [[[[[A _] B] C] _] _]. split; [apply nodup_str_NoDup; exact A|].
  split; [unfold is_nt in B; apply negb_true_iff in B; exact B | apply mem_label_In; exact C].
Qed.

Lemma wf_hrg_edge_labels : forall h r e, wf_hrg_b h = true -> In r (all_rules h) ->
  In e (g_edges (r_rhs r)) -> In (e_lab e) (h_elabels h).
Proof.
  intros h r e W Hr He. unfold wf_hrg_b in W. repeat rewrite andb_true_iff in W.
  destruct W as [_ W]. rewrite forallb_forall in W.
  unfold all_rules in Hr. apply in_concat in Hr. destruct Hr as [rs [Hrs Hr]].
  apply in_map_iff in Hrs. destruct Hrs as [kr [E Hkr]]. subst rs.
  specialize (W kr Hkr). apply andb_true_iff in W. destruct W as [_ W]. rewrite forallb_forall in W.
  specialize (W r Hr). repeat rewrite andb_true_iff in W. destruct W as [_ WL].
  unfold rule_labels_in in WL. repeat rewrite andb_true_iff in WL.
  destruct WL as [[_ L2] _]. rewrite forallb_forall in L2. apply mem_label_In. apply L2. exact He.
Qed.

Section Total.
  Variables (h1 h2 : hrg) (m : ntmap).
  Hypothesis W1 : wf_hrg_b h1 = true.
  Hypothesis W2 : wf_hrg_b h2 = true.
  Hypothesis NC : has_tt_conflict h1 h2 = false.
  Hypothesis HM : ntmap_spec h1 h2 m.

  (** the labels that can enter the label table of the conjunction *)
  Definition good (l : elabel) : Prop :=
    (exists k, nt_get m k = Some l) \/
    (In l (h_elabels h1) /\ el_term l = true) \/ (In l (h_elabels h2) /\ el_term l = true).

  Lemma value_fresh : forall k l l', nt_get m k = Some l ->
    In l' (h_elabels h1 ++ h_elabels h2) -> el_name l = el_name l' -> False.
  Proof.
    intros k l l' G Hin E. destruct HM as [_ [V _]]. destruct (V k l G) as [_ [_ N]].
    apply N. rewrite E. apply in_map. exact Hin.
  Qed.

  Lemma no_conflict : forall a b, In a (h_elabels h1) -> In b (h_elabels h2) ->
    el_term a = true -> el_term b = true -> el_name a = el_name b -> a = b.
  Proof.
    intros a b Ha Hb Ta Tb E. destruct (elabel_eqb a b) eqn:Q; [apply elabel_eqb_eq; exact Q|].
    exfalso. assert (X : has_tt_conflict h1 h2 = true); [|congruence].
    unfold has_tt_conflict. apply existsb_exists. exists a. split; [exact Ha|].
    apply existsb_exists. exists b. split; [exact Hb|].
    rewrite (proj2 (str_eqb_eq _ _) E), Q, Ta, Tb. reflexivity.
  Qed.

  Lemma good_consistent : forall l l', good l -> good l' -> el_name l = el_name l' -> l = l'.
  Proof.
    destruct (wf_hrg_tables h1 W1) as [N1 _]. destruct (wf_hrg_tables h2 W2) as [N2 _].
    intros l l' [[k G]|[[I T]|[I T]]] [[k' G']|[[I' T']|[I' T']]] E.
    - destruct HM as [_ [_ Inj]]. pose proof (Inj k k' l l' G G' E) as X. subst k'.
      rewrite G in G'. injection G'. auto.
    - exfalso. apply (value_fresh k l l' G); [apply in_app_iff; auto | exact E].
    - exfalso. apply (value_fresh k l l' G); [apply in_app_iff; auto | exact E].
    - exfalso. apply (value_fresh k' l' l G'); [apply in_app_iff; auto | symmetry; exact E].
    - apply (NoDup_map_inj_in el_name (h_elabels h1)); auto.
    - apply no_conflict; auto.
    - exfalso. apply (value_fresh k' l' l G'); [apply in_app_iff; auto | symmetry; exact E].
    - symmetry. apply no_conflict; auto.
    - apply (NoDup_map_inj_in el_name (h_elabels h2)); auto.
  Qed.

  Lemma add_elabel_good : forall t l, Forall good t -> good l ->
    exists t', add_elabel t l = Ok t' /\ Forall good t'.
  Proof.
    intros t l Ft Gl. unfold add_elabel. destruct (find_label (el_name l) t) as [l'|] eqn:F.
    - unfold find_label in F. apply find_some in F. destruct F as [Hin E]. apply str_eqb_eq in E.
      rewrite Forall_forall in Ft.
      rewrite (good_consistent l' l (Ft l' Hin) Gl E), elabel_eqb_refl. exists t.
      split; [reflexivity | apply Forall_forall; exact Ft].
    - exists (t ++ [l]). split; [reflexivity|]. apply Forall_app. split; [exact Ft | constructor; auto].
  Qed.

  Lemma add_elabels_good : forall ls t, Forall good t -> Forall good ls ->
    exists t', mfold add_elabel ls t = Ok t' /\ Forall good t'.
  Proof.
    induction ls as [|l ls IH]; simpl; intros t Ft Fl; [eauto|].
    inversion Fl as [|? ? Gl Fl']; subst.
    destruct (add_elabel_good t l Ft Gl) as [t1 [E F1]]. rewrite E. apply IH; assumption.
  Qed.

  Lemma conj_step_total : forall st p, In p (cpairs h1 h2) -> Forall good (s_el st) ->
    exists st', conj_step m (id_bound h1 h2) st p = Ok st' /\ Forall good (s_el st').
  Proof.
    intros st [[i j] [r1 r2]] Hp Ft. pose proof Hp as Hp'. apply cpairs_in in Hp'.
    destruct Hp' as [H1 [H2 C]].
    pose proof (nth_error_In _ _ H1) as I1. pose proof (nth_error_In _ _ H2) as I2.
    destruct (wf_hrg_rules h1 r1 W1 I1) as [Wr1 [L1 E1]].
    destruct (wf_hrg_rules h2 r2 W2 I2) as [Wr2 [L2 E2]].
    pose proof HM as [Tot [Val _]].
    destruct (conjoin_rules_total (id_bound h1 h2) r1 r2 m Wr1 Wr2 C) as [r HR].
    { destruct (Tot _ _ L1 L2) as [L G]. exists L. destruct (Val _ _ G) as [T [Ty _]]. auto. }
    { intros e1 e2 He1 He2. destruct (Tot _ _ (E1 e1 He1) (E2 e2 He2)) as [l G]. exists l.
      destruct (Val _ _ G) as [_ [Ty _]]. auto. }
    { intros e He. apply t_edges_in in He. apply (id_bound_ge h1 h2 r1 e I1). tauto. }
    unfold conj_step. simpl. rewrite HR. simpl.
    destruct (conjoin_rules_exact _ _ _ _ _ Wr1 Wr2 C HR) as [es [ts2' [F [_ [F2 [GL [_ [EE _]]]]]]]].
    unfold add_rule_model. simpl.
    destruct (add_elabel_good (s_el st) (r_lhs r) Ft) as [t1 [A1 F1]]; [left; eauto|].
    rewrite A1. simpl.
    destruct (add_elabels_good (map e_lab (g_edges (r_rhs r))) t1 F1) as [t2 [A2 F2']].
    { rewrite EE. apply Forall_forall. intros l Hl. apply in_map_iff in Hl. destruct Hl as [e [<- He]].
      rewrite !in_app_iff in He. destruct He as [He|[He|He]].
      - destruct (Forall2_in_r _ _ _ _ F He) as [p [_ [G _]]]. left. eauto.
      - apply t_edges_in in He. destruct He as [He Te]. right. left.
        split; [apply (wf_hrg_edge_labels h1 r1 e W1 I1 He) | exact Te].
      - destruct (Forall2_in_r _ _ _ _ F2 He) as [x [Hx [Pl _]]]. rewrite Pl.
        apply t_edges_in in Hx. destruct Hx as [Hx Tx]. right. right.
        split; [apply (wf_hrg_edge_labels h2 r2 x W2 I2 Hx) | exact Tx]. }
    rewrite A2. simpl. eexists. split; [reflexivity|]. simpl. exact F2'.
  Qed.

  Lemma conj_fold_total : forall ps st, (forall p, In p ps -> In p (cpairs h1 h2)) ->
    Forall good (s_el st) -> exists st', mfold (conj_step m (id_bound h1 h2)) ps st = Ok st'.
  Proof.
    induction ps as [|p ps IH]; simpl; intros st Hps Ft; [eauto|].
    destruct (conj_step_total st p (Hps p (or_introl eq_refl)) Ft) as [st1 [E F1]]. rewrite E.
    apply IH; [intros q Hq; apply Hps; auto | exact F1].
  Qed.
End Total.

(** the positive theorem: [conjoin_hrgs] returns a grammar on every pair of well-formed grammars
    without a terminal/terminal label conflict *)
Theorem conjoin_hrgs_total : forall h1 h2,
  wf_hrg_b h1 = true -> wf_hrg_b h2 = true -> has_tt_conflict h1 h2 = false ->
  exists g, conjoin_hrgs_model h1 h2 = Ok g.
Proof.
  intros h1 h2 W1 W2 NC. unfold conjoin_hrgs_model, conjoin_hrgs_tagged.
  pose proof (ncol_nil h1 h2) as N.
  destruct (check_namespace_collisions_model h1 h2) as [n_col e_col] eqn:CN. simpl in N. subst n_col.
  assert (T : existsb tt_conflict e_col = false).
  { apply existsb_false_forall. intros [a b] Hin. unfold check_namespace_collisions_model in CN.
    injection CN as _ <-. apply in_flat_map in Hin. destruct Hin as [a' [Ha Hin]].
    destruct (find_label (el_name a') (h_elabels h2)) as [b'|] eqn:F; [|contradiction].
    destruct (elabel_eqb a' b') eqn:Q; [contradiction|]. destruct Hin as [E|[]]. injection E as -> ->.
    unfold find_label in F. apply find_some in F. destruct F as [Hb E]. apply str_eqb_eq in E.
    unfold tt_conflict. simpl. destruct (el_term a) eqn:Ta; [|reflexivity].
    destruct (el_term b) eqn:Tb; [|reflexivity]. exfalso.
    assert (X : has_tt_conflict h1 h2 = true); [|congruence].
    unfold has_tt_conflict. apply existsb_exists. exists a. split; [exact Ha|].
    apply existsb_exists. exists b. split; [exact Hb|].
    rewrite (proj2 (str_eqb_eq _ _) (eq_sym E)), Q, Ta, Tb. reflexivity. }
  rewrite T. destruct (nonterminal_pairs_total h1 h2) as [m HM]. rewrite HM. simpl.
  pose proof (nonterminal_pairs_spec _ _ _ HM) as SP. pose proof SP as [Tot [Val _]].
  destruct (wf_hrg_tables h1 W1) as [_ [T1 I1]]. destruct (wf_hrg_tables h2 W2) as [_ [T2 I2]].
  destruct (Tot (h_start h1) (h_start h2)) as [s G].
  { unfold nonterminals. apply filter_In. unfold is_nt. rewrite T1. auto. }
  { unfold nonterminals. apply filter_In. unfold is_nt. rewrite T2. auto. }
  rewrite G. destruct (Val _ _ G) as [Ts _]. rewrite Ts.
  destruct (conj_fold_total h1 h2 m W1 W2 NC SP (cpairs h1 h2)
              {| s_nl := []; s_el := [s]; s_rules := [] |}) as [st E].
  { auto. }
  { simpl. constructor; [left; eauto | constructor]. }
  rewrite E. simpl. eauto.
Qed.
