(** C17: when does [conjoin_hrgs] return?  The unmodified code raises on two classes of inputs
    that have no terminal-label conflict (witnesses [*_refuted]); outside them ([ids_ok]) and
    without a terminal conflict it returns a grammar ([conjoin_hrgs_total]). *)
From Coq Require Import List Arith Bool PeanoNat Lia Permutation Sorted.
Import ListNotations.
Require Import Fggs.Model.Conj Fggs.Proofs.ConjBase Fggs.Proofs.ConjNames Fggs.Proofs.ConjSort
               Fggs.Proofs.ConjRule Fggs.Proofs.ConjHrg Fggs.Proofs.ConjBij.

(** * witnesses of the two defect classes *)
Definition lS : elabel := {| el_name := [83]; el_type := []; el_term := false |}.
Definition lt : elabel := {| el_name := [116]; el_type := [0]; el_term := true |}.
Definition nd0 : node := {| n_id := 1; n_lab := 0 |}.
(** S -> a node with one terminal edge "t" whose id is the string numbered 1 *)
Definition ex_d1 : hrg :=
  {| h_nlabels := [0]; h_elabels := [lS; lt]; h_start := lS;
     h_rules := [(lS, [{| r_lhs := lS;
                          r_rhs := {| g_nodes := [nd0];
                                      g_edges := [{| e_id := 1; e_lab := lt; e_att := [nd0] |}];
                                      g_ext := [] |} |}])] |}.
(** S -> one nonterminal edge S with an implicit (int) id, numbered 0;  S -> empty *)
Definition ex_d2 : hrg :=
  {| h_nlabels := []; h_elabels := [lS]; h_start := lS;
     h_rules := [(lS, [{| r_lhs := lS;
                          r_rhs := {| g_nodes := [];
                                      g_edges := [{| e_id := 0; e_lab := lS; e_att := [] |}];
                                      g_ext := [] |} |};
                       {| r_lhs := lS; r_rhs := {| g_nodes := []; g_edges := []; g_ext := [] |} |}])] |}.

(** conjoining a grammar that has a terminal edge with itself: ValueError, no label conflict *)
Theorem shared_terminal_id_refuted :
  exists h1 h2, wf_hrg_b h1 = true /\ wf_hrg_b h2 = true /\ has_tt_conflict h1 h2 = false /\
                defect_shared_terminal_id h1 h2 = true /\ conjoin_hrgs_model h1 h2 = Err ValueErr.
Proof. exists ex_d1, ex_d1. vm_compute. auto. Qed.

(** conjoining grammars that share a nonterminal edge with an implicit id: TypeError *)
Theorem int_nt_id_refuted :
  exists h1 h2, wf_hrg_b h1 = true /\ wf_hrg_b h2 = true /\ has_tt_conflict h1 h2 = false /\
                defect_int_nt_id h1 h2 = true /\ conjoin_hrgs_model h1 h2 = Err TypeErr.
Proof. exists ex_d2, ex_d2. vm_compute. auto. Qed.

(** * the graph builder never fails on fresh ids *)
Lemma hid_app : forall l1 l2 i, hid (l1 ++ l2) i = hid l1 i || hid l2 i.
Proof. intros. unfold hid. apply existsb_app. Qed.
Lemma heid_app : forall l1 l2 i, heid (l1 ++ l2) i = heid l1 i || heid l2 i.
Proof. intros. unfold heid. apply existsb_app. Qed.

Lemma add_nodes_total : forall l g,
  NoDup (map n_id l) -> (forall n, In n l -> hid (g_nodes g) (n_id n) = false) ->
  exists g', mfold add_node l g = Ok g'.
Proof.
  induction l as [|a l IH]; simpl; intros g N F; [eauto|].
  inversion N as [|? ? N1 N2]; subst.
  unfold add_node at 1. unfold has_node_id. fold (hid (g_nodes g) (n_id a)).
  rewrite (F a (or_introl eq_refl)). apply IH; [exact N2|]. simpl.
  intros n Hn. rewrite hid_app, (F n (or_intror Hn)). simpl.
  destruct (Nat.eqb (n_id a) (n_id n)) eqn:E; [|reflexivity].
  apply Nat.eqb_eq in E. exfalso. apply N1. rewrite E. apply in_map. exact Hn.
Qed.

Lemma set_ext_present : forall g ns,
  (forall n, In n ns -> hid (g_nodes g) (n_id n) = true) ->
  set_ext g ns = Ok {| g_nodes := g_nodes g; g_edges := g_edges g; g_ext := ns |}.
Proof. intros g ns P. unfold set_ext. rewrite (add_missing_present ns g P). reflexivity. Qed.

Lemma add_edge_present : forall g e,
  heid (g_edges g) (e_id e) = false ->
  (forall n, In n (e_att e) -> hid (g_nodes g) (n_id n) = true) ->
  add_edge g e = Ok {| g_nodes := g_nodes g; g_edges := g_edges g ++ [e]; g_ext := g_ext g |}.
Proof.
  intros g e H P. unfold add_edge, has_edge_id. fold (heid (g_edges g) (e_id e)). rewrite H.
  rewrite (add_missing_present _ g P). reflexivity.
Qed.

Lemma add_edges_total : forall es g,
  (forall e n, In e es -> In n (e_att e) -> hid (g_nodes g) (n_id n) = true) ->
  NoDup (map e_id es) -> (forall e, In e es -> heid (g_edges g) (e_id e) = false) ->
  exists g', mfold add_edge es g = Ok g'.
Proof.
  induction es as [|e es IH]; simpl; intros g P N F; [eauto|].
  inversion N as [|? ? N1 N2]; subst.
  rewrite (add_edge_present g e (F e (or_introl eq_refl)) (fun n Hn => P e n (or_introl eq_refl) Hn)).
  apply IH; simpl.
  - intros e' n He Hn. apply (P e' n); auto.
  - exact N2.
  - intros e' He. rewrite heid_app, (F e' (or_intror He)). simpl.
    destruct (Nat.eqb (e_id e) (e_id e')) eqn:E; [|reflexivity].
    apply Nat.eqb_eq in E. exfalso. apply N1. rewrite E. apply in_map. exact He.
Qed.

Lemma conj_nt_edges_total : forall m ps g,
  (forall p n, In p ps -> In n (e_att (fst p)) -> hid (g_nodes g) (n_id n) = true) ->
  (forall p, In p ps -> exists l, nt_get m (e_lab (fst p), e_lab (snd p)) = Some l /\
                                  el_type l = map n_lab (e_att (fst p))) ->
  (forall p, In p ps -> is_int_id (e_id (fst p)) = false) ->
  NoDup (map (fun p => e_id (fst p)) ps) ->
  (forall p, In p ps -> heid (g_edges g) (e_id (fst p)) = false) ->
  exists g', mfold (conj_nt_edge m) ps g = Ok g'.
Proof.
  induction ps as [|p ps IH]; simpl; intros g P L I N F; [eauto|].
  inversion N as [|? ? N1 N2]; subst.
  destruct (L p (or_introl eq_refl)) as [l [G Ty]].
  unfold conj_nt_edge at 1. rewrite G. unfold mk_edge. rewrite (I p (or_introl eq_refl)).
  rewrite (proj2 (nats_eqb_eq _ _) Ty). simpl.
  rewrite add_edge_present; simpl; [| apply (F p); auto | intros n Hn; apply (P p n); auto].
  apply IH; simpl.
  - intros q n Hq Hn. apply (P q n); auto.
  - intros q Hq. apply L. auto.
  - intros q Hq. apply I. auto.
  - exact N2.
  - intros q Hq. rewrite heid_app, (F q (or_intror Hq)). simpl.
    destruct (Nat.eqb (e_id (fst p)) (e_id (fst q))) eqn:E; [|reflexivity].
    apply Nat.eqb_eq in E. exfalso. apply N1. rewrite E.
    apply (in_map (fun p => e_id (fst p))). exact Hq.
Qed.

Lemma existsb_false_forall {A} (f : A -> bool) : forall l,
  existsb f l = false <-> forall x, In x l -> f x = false.
Proof.
  induction l as [|a l IH]; simpl; [split; [intros _ x []|reflexivity]|].
  rewrite orb_false_iff, IH. split.
  - intros [H1 H2] x [<-|Hx]; auto.
  - intros H. split; [apply H; auto | intros x Hx; apply H; auto].
Qed.

(** two different edges of a graph with unique edge ids have different ids *)
Lemma edge_ids_differ : forall (l : list edge) a b,
  NoDup (map e_id l) -> In a l -> In b l -> el_term (e_lab a) <> el_term (e_lab b) -> e_id a <> e_id b.
Proof.
  intros l a b N Ha Hb D E. apply D.
  rewrite (NoDup_map_inj_in e_id l a b N Ha Hb E). reflexivity.
Qed.

(** * [conjoin_rules] returns on conjoinable rules outside the two defect classes *)
Theorem conjoin_rules_total : forall r1 r2 m,
  wf_rule r1 -> wf_rule r2 -> conjoinable_model r1 r2 = true ->
  (exists L, nt_get m (r_lhs r1, r_lhs r2) = Some L /\ el_term L = false /\
             el_type L = el_type (r_lhs r1)) ->
  (forall e1 e2, In e1 (nt_edges (r_rhs r1)) -> In e2 (nt_edges (r_rhs r2)) ->
     exists l, nt_get m (e_lab e1, e_lab e2) = Some l /\ el_type l = el_type (e_lab e1)) ->
  (forall e, In e (nt_edges (r_rhs r1)) -> is_int_id (e_id e) = false) ->
  shares_terminal_id r1 r2 = false ->
  exists r, conjoin_rules_model r1 r2 m = Ok r.
Proof.
  intros r1 r2 m W1 W2 C [L [GL [TL TyL]]] ML NI ST.
  pose proof W1 as [W1a W1b [W1n W1e W1x W1t W1y]]. pose proof W2 as [W2a W2b [W2n W2e W2x W2t W2y]].
  pose proof (proj1 (conjoinable_spec _ _) C) as [Cn [Cs Cx]].
  assert (P : forall n, In n (g_nodes (r_rhs r1)) -> hid (g_nodes (r_rhs r1)) (n_id n) = true)
    by (intros; apply hid_in; assumption).
  assert (N1 : NoDup (map e_id (nt_edges (r_rhs r1)))) by (apply NoDup_map_filter; exact W1e).
  assert (N2 : NoDup (map e_id (nt_edges (r_rhs r2)))) by (apply NoDup_map_filter; exact W2e).
  assert (AL : map sigf (nt_sorted r1) = map sigf (nt_sorted r2)).
  { unfold nt_sorted. apply sorted_sigs_eq; [exact N1 | exact N2 | exact Cs]. }
  assert (LEN : length (nt_sorted r1) = length (nt_sorted r2)).
  { apply (f_equal (@length _)) in AL. rewrite !map_length in AL. exact AL. }
  (* ids of the nonterminal edges of r2 are those of r1 *)
  assert (ID2 : forall b, In b (nt_edges (r_rhs r2)) -> exists a, In a (nt_edges (r_rhs r1)) /\ e_id a = e_id b).
  { intros b Hb. assert (X : In (sigf b) (nt_sig (r_rhs r1))).
    { apply Cs. rewrite nt_sig_sigf. apply in_map. exact Hb. }
    rewrite nt_sig_sigf in X. apply in_map_iff in X. destruct X as [a [E Ha]].
    exists a. split; [exact Ha|]. unfold sigf in E. injection E; auto. }
  assert (ID1 : forall a, In a (nt_edges (r_rhs r1)) -> exists b, In b (nt_edges (r_rhs r2)) /\ e_id b = e_id a).
  { intros a Ha. assert (X : In (sigf a) (nt_sig (r_rhs r2))).
    { apply Cs. rewrite nt_sig_sigf. apply in_map. exact Ha. }
    rewrite nt_sig_sigf in X. apply in_map_iff in X. destruct X as [b [E Hb]].
    exists b. split; [exact Hb|]. unfold sigf in E. injection E; auto. }
  unfold conjoin_rules_model. rewrite GL.
  (* nodes *)
  destruct (add_nodes_total (g_nodes (r_rhs r1)) empty_graph W1n) as [g0 H0]; [intros; reflexivity|].
  rewrite H0. simpl. apply add_nodes_ok in H0. unfold empty_graph in H0. simpl in H0.
  destruct H0 as [A0 [B0 C0]].
  (* ext *)
  rewrite set_ext_present; [|rewrite A0; intros n Hn; apply P; apply W1x; exact Hn]. simpl.
  (* sorting *)
  assert (M1 : mixed_ids (nt_edges (r_rhs r1)) = false).
  { unfold mixed_ids. apply andb_false_iff. left. apply existsb_false_forall. exact NI. }
  assert (M2 : mixed_ids (nt_edges (r_rhs r2)) = false).
  { unfold mixed_ids. apply andb_false_iff. left. apply existsb_false_forall.
    intros b Hb. destruct (ID2 b Hb) as [a [Ha E]]. rewrite <- E. apply NI. exact Ha. }
  unfold sorted_by_id. rewrite M1, M2. simpl.
  fold (nt_sorted r1). fold (nt_sorted r2).
  (* nonterminal edges *)
  set (g1 := {| g_nodes := g_nodes g0; g_edges := g_edges g0; g_ext := g_ext (r_rhs r1) |}).
  destruct (conj_nt_edges_total m (combine (nt_sorted r1) (nt_sorted r2)) g1) as [g2 H2].
  { intros [a b] n Hp Hn. simpl in *. rewrite A0. apply P. apply in_combine_l in Hp.
    apply (proj1 (sort_edges_in _ _)) in Hp. apply nt_edges_in in Hp. apply (W1t a n); tauto. }
  { intros [a b] Hp. simpl. pose proof (in_combine_l _ _ _ _ Hp) as Ha. pose proof (in_combine_r _ _ _ _ Hp) as Hb.
    apply (proj1 (sort_edges_in _ _)) in Ha. apply (proj1 (sort_edges_in _ _)) in Hb.
    destruct (ML a b Ha Hb) as [l [G Ty]]. exists l. split; [exact G|]. rewrite Ty.
    apply W1y. apply nt_edges_in in Ha. tauto. }
  { intros [a b] Hp. simpl. apply NI. apply in_combine_l in Hp.
    apply (proj1 (sort_edges_in _ _)) in Hp. exact Hp. }
  { replace (map (fun p : edge * edge => e_id (fst p)) (combine (nt_sorted r1) (nt_sorted r2)))
      with (map e_id (nt_sorted r1)).
    - unfold nt_sorted. apply sort_edges_nodup. exact N1.
    - destruct (map_fst_combine _ _ LEN) as [E _]. rewrite <- E at 1. rewrite map_map. reflexivity. }
  { intros p Hp. simpl. rewrite B0. reflexivity. }
  rewrite H2. simpl.
  apply conj_nt_edges_ok in H2.
  2:{ intros [a b] n Hp Hn. simpl in *. rewrite A0. apply P. apply in_combine_l in Hp.
      apply (proj1 (sort_edges_in _ _)) in Hp. apply nt_edges_in in Hp. apply (W1t a n); tauto. }
  destruct H2 as [es [F [G [A2 [B2 [C2 D2]]]]]]. simpl in A2, B2, C2. rewrite B0 in B2. simpl in B2.
  (* ids of the new edges are ids of nonterminal edges of r1 *)
  assert (IDS : forall e, In e es -> exists a, In a (nt_edges (r_rhs r1)) /\ e_id a = e_id e).
  { intros e He. destruct (Forall2_in_r _ _ _ _ F He) as [[a b] [Hp Pp]].
    unfold paired_edge in Pp. simpl in Pp. destruct (nt_get m (e_lab a, e_lab b)); [|discriminate].
    injection Pp as <-. simpl. exists a. split; [|reflexivity].
    apply in_combine_l in Hp. apply (proj1 (sort_edges_in _ _)) in Hp. exact Hp. }
  (* terminal edges *)
  destruct (add_edges_total (t_edges (r_rhs r1) ++ t_edges (r_rhs r2)) g2) as [g3 H3].
  { intros e n He Hn. rewrite A2, A0. apply P. apply in_app_iff in He.
    destruct He as [He|He]; apply t_edges_in in He; destruct He as [He _].
    - apply (W1t e n); assumption.
    - apply (proj2 (Cn n)). apply (W2t e n); assumption. }
  { rewrite map_app. apply NoDup_app_intro.
    - apply NoDup_map_filter. exact W1e.
    - apply NoDup_map_filter. exact W2e.
    - intros i H1 H2. apply in_map_iff in H1. destruct H1 as [a [<- Ha]].
      apply in_map_iff in H2. destruct H2 as [b [E Hb]].
      unfold shares_terminal_id in ST. rewrite existsb_false_forall in ST.
      specialize (ST a Ha). rewrite existsb_false_forall in ST. specialize (ST b Hb).
      apply Nat.eqb_neq in ST. congruence. }
  { intros e He. rewrite B2. apply heid_false. intros Hin. apply in_map_iff in Hin.
    destruct Hin as [e' [E He']]. destruct (IDS e' He') as [a [Ha Ea]]. apply in_app_iff in He.
    destruct He as [He|He].
    - apply t_edges_in in He. apply nt_edges_in in Ha.
      apply (edge_ids_differ (g_edges (r_rhs r1)) a e W1e); try tauto; [|congruence].
      destruct Ha as [_ Ha]. destruct He as [_ He]. rewrite Ha, He. discriminate.
    - destruct (ID1 a Ha) as [b [Hb Eb]]. apply t_edges_in in He. apply nt_edges_in in Hb.
      apply (edge_ids_differ (g_edges (r_rhs r2)) b e W2e); try tauto; [|congruence].
      destruct Hb as [_ Hb]. destruct He as [_ He]. rewrite Hb, He. discriminate. }
  rewrite H3. simpl. apply add_edges_ok in H3.
  2:{ intros e n He Hn. rewrite A2, A0. apply P. apply in_app_iff in He.
      destruct He as [He|He]; apply t_edges_in in He; destruct He as [He _].
      - apply (W1t e n); assumption.
      - apply (proj2 (Cn n)). apply (W2t e n); assumption. }
  destruct H3 as [A3 [B3 [C3 D3]]].
  unfold mk_rule. rewrite TL. rewrite C3, C2, TyL, W1b.
  rewrite (proj2 (nats_eqb_eq _ _) eq_refl). simpl. eauto.
Qed.

(** * [conjoin_hrgs] returns *)
Lemma wf_hrg_tables : forall h, wf_hrg_b h = true ->
  NoDup (map el_name (h_elabels h)) /\ el_term (h_start h) = false /\ In (h_start h) (h_elabels h).
Proof.
  intros h W. unfold wf_hrg_b in W. repeat rewrite andb_true_iff in W.
  destruct W as [[[[[A _] B] C] _] _]. split; [apply nodup_str_NoDup; exact A|].
  split; [unfold is_nt in B; apply negb_true_iff in B; exact B | apply mem_label_In; exact C].
Qed.

Lemma wf_hrg_edge_labels : forall h r e, wf_hrg_b h = true -> In r (all_rules h) ->
  In e (g_edges (r_rhs r)) -> In (e_lab e) (h_elabels h).
Proof.
  intros h r e W Hr He. unfold wf_hrg_b in W. repeat rewrite andb_true_iff in W.
  destruct W as [_ W]. rewrite forallb_forall in W.
  unfold all_rules in Hr. apply in_concat in Hr. destruct Hr as [rs [Hrs Hr]].
  apply in_map_iff in Hrs. destruct Hrs as [kr [E Hkr]]. subst rs.
  specialize (W kr Hkr). apply andb_true_iff in W. destruct W as [_ W]. rewrite forallb_forall in W.
  specialize (W r Hr). repeat rewrite andb_true_iff in W. destruct W as [_ WL].
  unfold rule_labels_in in WL. repeat rewrite andb_true_iff in WL.
  destruct WL as [[_ L2] _]. rewrite forallb_forall in L2. apply mem_label_In. apply L2. exact He.
Qed.

Section Total.
  Variables (h1 h2 : hrg) (m : ntmap).
  Hypothesis W1 : wf_hrg_b h1 = true.
  Hypothesis W2 : wf_hrg_b h2 = true.
  Hypothesis NC : has_tt_conflict h1 h2 = false.
  Hypothesis IDS : ids_ok h1 h2 = true.
  Hypothesis HM : ntmap_spec h1 h2 m.

  (** the labels that can enter the label table of the conjunction *)
  Definition good (l : elabel) : Prop :=
    (exists k, nt_get m k = Some l) \/
    (In l (h_elabels h1) /\ el_term l = true) \/ (In l (h_elabels h2) /\ el_term l = true).

  Lemma value_fresh : forall k l l', nt_get m k = Some l ->
    In l' (h_elabels h1 ++ h_elabels h2) -> el_name l = el_name l' -> False.
  Proof.
    intros k l l' G Hin E. destruct HM as [_ [V _]]. destruct (V k l G) as [_ [_ N]].
    apply N. rewrite E. apply in_map. exact Hin.
  Qed.

  Lemma no_conflict : forall a b, In a (h_elabels h1) -> In b (h_elabels h2) ->
    el_term a = true -> el_term b = true -> el_name a = el_name b -> a = b.
  Proof.
    intros a b Ha Hb Ta Tb E. destruct (elabel_eqb a b) eqn:Q; [apply elabel_eqb_eq; exact Q|].
    exfalso. assert (X : has_tt_conflict h1 h2 = true); [|congruence].
    unfold has_tt_conflict. apply existsb_exists. exists a. split; [exact Ha|].
    apply existsb_exists. exists b. split; [exact Hb|].
    rewrite (proj2 (str_eqb_eq _ _) E), Q, Ta, Tb. reflexivity.
  Qed.

  Lemma good_consistent : forall l l', good l -> good l' -> el_name l = el_name l' -> l = l'.
  Proof.
    destruct (wf_hrg_tables h1 W1) as [N1 _]. destruct (wf_hrg_tables h2 W2) as [N2 _].
    intros l l' [[k G]|[[I T]|[I T]]] [[k' G']|[[I' T']|[I' T']]] E.
    - destruct HM as [_ [_ Inj]]. pose proof (Inj k k' l l' G G' E) as X. subst k'.
      rewrite G in G'. injection G'. auto.
    - exfalso. apply (value_fresh k l l' G); [apply in_app_iff; auto | exact E].
    - exfalso. apply (value_fresh k l l' G); [apply in_app_iff; auto | exact E].
    - exfalso. apply (value_fresh k' l' l G'); [apply in_app_iff; auto | symmetry; exact E].
    - apply (NoDup_map_inj_in el_name (h_elabels h1)); auto.
    - apply no_conflict; auto.
    - exfalso. apply (value_fresh k' l' l G'); [apply in_app_iff; auto | symmetry; exact E].
    - symmetry. apply no_conflict; auto.
    - apply (NoDup_map_inj_in el_name (h_elabels h2)); auto.
  Qed.

  Lemma add_elabel_good : forall t l, Forall good t -> good l ->
    exists t', add_elabel t l = Ok t' /\ Forall good t'.
  Proof.
    intros t l Ft Gl. unfold add_elabel. destruct (find_label (el_name l) t) as [l'|] eqn:F.
    - unfold find_label in F. apply find_some in F. destruct F as [Hin E]. apply str_eqb_eq in E.
      rewrite Forall_forall in Ft.
      rewrite (good_consistent l' l (Ft l' Hin) Gl E), elabel_eqb_refl. exists t.
      split; [reflexivity | apply Forall_forall; exact Ft].
    - exists (t ++ [l]). split; [reflexivity|]. apply Forall_app. split; [exact Ft | constructor; auto].
  Qed.

  Lemma add_elabels_good : forall ls t, Forall good t -> Forall good ls ->
    exists t', mfold add_elabel ls t = Ok t' /\ Forall good t'.
  Proof.
    induction ls as [|l ls IH]; simpl; intros t Ft Fl; [eauto|].
    inversion Fl as [|? ? Gl Fl']; subst.
    destruct (add_elabel_good t l Ft Gl) as [t1 [E F1]]. rewrite E. apply IH; assumption.
  Qed.

  Lemma conj_step_total : forall st p, In p (cpairs h1 h2) -> Forall good (s_el st) ->
    exists st', conj_step m st p = Ok st' /\ Forall good (s_el st').
  Proof.
    intros st [[i j] [r1 r2]] Hp Ft. pose proof Hp as Hp'. apply cpairs_in in Hp'.
    destruct Hp' as [H1 [H2 C]].
    pose proof (nth_error_In _ _ H1) as I1. pose proof (nth_error_In _ _ H2) as I2.
    destruct (wf_hrg_rules h1 r1 W1 I1) as [Wr1 [L1 E1]].
    destruct (wf_hrg_rules h2 r2 W2 I2) as [Wr2 [L2 E2]].
    pose proof HM as [Tot [Val _]].
    pose proof IDS as IDS'. unfold ids_ok in IDS'. apply andb_true_iff in IDS'. destruct IDS' as [D1 D2].
    apply negb_true_iff in D1. apply negb_true_iff in D2.
    unfold defect_shared_terminal_id in D1. rewrite existsb_false_forall in D1. specialize (D1 _ Hp).
    unfold defect_int_nt_id in D2. rewrite existsb_false_forall in D2. specialize (D2 _ Hp).
    simpl in D1, D2. rewrite existsb_false_forall in D2.
    destruct (conjoin_rules_total r1 r2 m Wr1 Wr2 C) as [r HR].
    { destruct (Tot _ _ L1 L2) as [L G]. exists L. destruct (Val _ _ G) as [T [Ty _]]. auto. }
    { intros e1 e2 He1 He2. destruct (Tot _ _ (E1 e1 He1) (E2 e2 He2)) as [l G]. exists l.
      destruct (Val _ _ G) as [_ [Ty _]]. auto. }
    { exact D2. }
    { exact D1. }
    unfold conj_step. simpl. rewrite HR. simpl.
    destruct (conjoin_rules_exact _ _ _ _ Wr1 Wr2 C HR) as [es [F [_ [GL [_ [EE _]]]]]].
    unfold add_rule_model. simpl.
    destruct (add_elabel_good (s_el st) (r_lhs r) Ft) as [t1 [A1 F1]]; [left; eauto|].
    rewrite A1. simpl.
    destruct (add_elabels_good (map e_lab (g_edges (r_rhs r))) t1 F1) as [t2 [A2 F2]].
    { rewrite EE. apply Forall_forall. intros l Hl. apply in_map_iff in Hl. destruct Hl as [e [<- He]].
      rewrite !in_app_iff in He. destruct He as [He|[He|He]].
      - destruct (Forall2_in_r _ _ _ _ F He) as [[a b] [_ Pp]]. unfold paired_edge in Pp. simpl in Pp.
        destruct (nt_get m (e_lab a, e_lab b)) as [l|] eqn:G; [|discriminate]. injection Pp as <-.
        left. simpl. eauto.
      - apply t_edges_in in He. destruct He as [He Te]. right. left.
        split; [apply (wf_hrg_edge_labels h1 r1 e W1 I1 He) | exact Te].
      - apply t_edges_in in He. destruct He as [He Te]. right. right.
        split; [apply (wf_hrg_edge_labels h2 r2 e W2 I2 He) | exact Te]. }
    rewrite A2. simpl. eexists. split; [reflexivity|]. simpl. exact F2.
  Qed.

  Lemma conj_fold_total : forall ps st, (forall p, In p ps -> In p (cpairs h1 h2)) ->
    Forall good (s_el st) -> exists st', mfold (conj_step m) ps st = Ok st'.
  Proof.
    induction ps as [|p ps IH]; simpl; intros st Hps Ft; [eauto|].
    destruct (conj_step_total st p (Hps p (or_introl eq_refl)) Ft) as [st1 [E F1]]. rewrite E.
    apply IH; [intros q Hq; apply Hps; auto | exact F1].
  Qed.
End Total.

(** the positive theorem: without a terminal conflict and outside the two defect classes,
    [conjoin_hrgs] returns a grammar *)
Theorem conjoin_hrgs_total : forall h1 h2,
  wf_hrg_b h1 = true -> wf_hrg_b h2 = true -> has_tt_conflict h1 h2 = false -> ids_ok h1 h2 = true ->
  exists g, conjoin_hrgs_model h1 h2 = Ok g.
Proof.
  intros h1 h2 W1 W2 NC IDS. unfold conjoin_hrgs_model, conjoin_hrgs_tagged.
  pose proof (ncol_nil h1 h2) as N.
  destruct (check_namespace_collisions_model h1 h2) as [n_col e_col] eqn:CN. simpl in N. subst n_col.
  assert (T : existsb tt_conflict e_col = false).
  { apply existsb_false_forall. intros [a b] Hin. unfold check_namespace_collisions_model in CN.
    injection CN as _ <-. apply in_flat_map in Hin. destruct Hin as [a' [Ha Hin]].
    destruct (find_label (el_name a') (h_elabels h2)) as [b'|] eqn:F; [|contradiction].
    destruct (elabel_eqb a' b') eqn:Q; [contradiction|]. destruct Hin as [E|[]]. injection E as -> ->.
    unfold find_label in F. apply find_some in F. destruct F as [Hb E]. apply str_eqb_eq in E.
    unfold tt_conflict. simpl. destruct (el_term a) eqn:Ta; [|reflexivity].
    destruct (el_term b) eqn:Tb; [|reflexivity]. exfalso.
    assert (X : has_tt_conflict h1 h2 = true); [|congruence].
    unfold has_tt_conflict. apply existsb_exists. exists a. split; [exact Ha|].
    apply existsb_exists. exists b. split; [exact Hb|].
    rewrite (proj2 (str_eqb_eq _ _) (eq_sym E)), Q, Ta, Tb. reflexivity. }
  rewrite T. destruct (nonterminal_pairs_total h1 h2) as [m HM]. rewrite HM. simpl.
  pose proof (nonterminal_pairs_spec _ _ _ HM) as SP. pose proof SP as [Tot [Val _]].
  destruct (wf_hrg_tables h1 W1) as [_ [T1 I1]]. destruct (wf_hrg_tables h2 W2) as [_ [T2 I2]].
  destruct (Tot (h_start h1) (h_start h2)) as [s G].
  { unfold nonterminals. apply filter_In. unfold is_nt. rewrite T1. auto. }
  { unfold nonterminals. apply filter_In. unfold is_nt. rewrite T2. auto. }
  rewrite G. destruct (Val _ _ G) as [Ts _]. rewrite Ts.
  destruct (conj_fold_total h1 h2 m W1 W2 NC IDS SP (cpairs h1 h2)
              {| s_nl := []; s_el := [s]; s_rules := [] |}) as [st E].
  { auto. }
  { simpl. constructor; [left; eauto | constructor]. }
  rewrite E. simpl. eauto.
Qed.
