(** C06 -- the storage layout of the physical tensor does not matter (Model/Storage.v).

    - [view_map_read] / [view_map_values]: an elementwise map over the storage is the elementwise map of the
      logical contents, for EVERY offset and strides (stride 0, permuted, sliced, overlapping);
    - [sdot_stride0] / [view_read_stride0]: a coordinate along a dimension of stride 0 is irrelevant;
    - [pt_of_view_layout_irrelevant]: two views with the same logical contents give patterned tensors with the
      same denotation; [pt_map_of_view]: a unary map on a patterned tensor over a view = the tensor over the
      mapped storage;
    - [map_expanded_all_zero]: the optimisation "apply f to the repeated cell, expand again" is sound when it
      fires only if ALL strides are 0; [map_expanded_some_zero_refuted]: with the test "SOME stride is 0" it is
      not (a 2 x 2 view with strides (0, 1): the second column is lost). *)
From Coq Require Import List Arith Bool Lia PArith.
Import ListNotations.
Require Import Fggs.Model.Axis Fggs.Model.PTensor Fggs.Model.PTensorCheck Fggs.Model.Storage.
Require Import Fggs.Proofs.PTensor_binary.
Local Open Scope nat_scope.

Lemma sdot_all_zero strides idx : all_zero strides = true -> sdot strides idx = 0.
Proof.
  revert idx. induction strides as [|s strides IH]; intros [|i idx] H; cbn in *; try reflexivity.
  apply andb_prop in H. destruct H as [Hs H]. destruct s as [|s]; [|discriminate Hs]. rewrite (IH idx H). reflexivity.
Qed.

Lemma sdot_zeros (strides : list nat) idx : sdot (map (fun _ => 0) strides) idx = 0.
Proof.
  revert idx. induction strides as [|s strides IH]; intros [|i idx]; cbn; try reflexivity. apply IH.
Qed.

(** coordinates along stride-0 dimensions do not matter *)
Lemma sdot_stride0 strides : forall i j, length i = length j ->
  (forall k, nth k strides 0 = 0 \/ nth k i 0 = nth k j 0) -> sdot strides i = sdot strides j.
Proof.
  induction strides as [|s strides IH]; intros [|a i] [|b j] L H; cbn in *; try reflexivity; try discriminate.
  injection L as L.
  rewrite (IH i j L (fun k => H (S k))).
  destruct (H 0) as [Z|E]; cbn in *; [subst s; reflexivity|subst a; reflexivity].
Qed.

Section View.
  Variable V : Type.

  Lemma view_map_read (f : V -> V) dv (v : sview V) idx :
    view_read V (f dv) (view_map V f v) idx = f (view_read V dv v idx).
  Proof. destruct v as [[buf off] strides]. cbn. apply map_nth. Qed.

  Lemma view_map_values (f : V -> V) dv (v : sview V) sizes :
    view_values V (f dv) (view_map V f v) sizes = map f (view_values V dv v sizes).
  Proof.
    unfold view_values. rewrite map_map. apply map_ext. intro idx. apply view_map_read.
  Qed.

  Lemma view_read_stride0 dv buf off strides i j : length i = length j ->
    (forall k, nth k strides 0 = 0 \/ nth k i 0 = nth k j 0) ->
    view_read V dv (buf, off, strides) i = view_read V dv (buf, off, strides) j.
  Proof. intros L H. cbn. unfold saddr. rewrite (sdot_stride0 strides i j L H). reflexivity. Qed.

  (** the denotation only depends on what the view reads *)
  Lemma pt_of_view_layout_irrelevant dv1 dv2 (v1 v2 : sview V) ps vs d :
    (forall c, view_read V dv1 v1 c = view_read V dv2 v2 c) ->
    forall idx, denote V (pt_of_view V dv1 v1 ps vs d) idx = denote V (pt_of_view V dv2 v2 ps vs d) idx.
  Proof. intros H idx. apply denote_phys_ext; try reflexivity. exact H. Qed.

  Lemma pt_map_of_view (f : V -> V) fd dv (v : sview V) ps vs d idx :
    denote V (pt_map V f fd (pt_of_view V dv v ps vs d)) idx =
    denote V (pt_of_view V (f dv) (view_map V f v) ps vs fd) idx.
  Proof.
    apply denote_phys_ext; try reflexivity. intro c. cbn. symmetry. apply view_map_read.
  Qed.

  (** sound test: all strides 0 *)
  Lemma map_expanded_all_zero (f : V -> V) dv (v : sview V) idx :
    view_read V (f dv) (map_expanded V all_zero f dv v) idx = f (view_read V dv v idx).
  Proof.
    destruct v as [[buf off] strides]. unfold map_expanded.
    destruct (all_zero strides) eqn:Z.
    - cbn. unfold saddr. rewrite sdot_zeros, (sdot_all_zero strides idx Z), Nat.add_0_r. reflexivity.
    - apply (view_map_read f dv (buf, off, strides)).
  Qed.
End View.

(** unsound test: some stride 0 (a partially expanded view) *)
Lemma map_expanded_some_zero_refuted :
  exists (f : nat -> nat) dv (v : sview nat) idx,
    view_in_range 2 0 [0; 1] [2; 2] = true /\ v = ([1; 2], 0, [0; 1]) /\
    view_read nat (f dv) (map_expanded nat some_zero f dv v) idx <> f (view_read nat dv v idx).
Proof.
  exists S, 0, ([1; 2], 0, [0; 1]), [0; 1]. repeat split; cbn; discriminate.
Qed.

(** the non-trivial instance for the positive statements: a 2 x 3 view with strides (0, 1) over [10; 20; 30]
    at offset 1 reads the rows [10; 20; 30] twice *)
Example view_ex : view_values nat 0 ([7; 10; 20; 30], 1, [0; 1]) [2; 3] = [10; 20; 30; 10; 20; 30].
Proof. reflexivity. Qed.
