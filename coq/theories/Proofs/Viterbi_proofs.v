(** C04: what the verdict 0 of [vit_check] (Model/Viterbi.v) means.

    1. [wf_dtree_b] decides the Prop [wf_dtree] of Proofs/SP_trees.v (no guard on the grammar).
    2. In an ordered commutative semiring every well-formed derivation tree's weight is below
       the Kleene iterate at its depth ([Zk = tree_sum] + "a member of a list is below the sum
       of the list": [a <= a + b] follows from [0 <= b] and monotonicity of [+]; no idempotence
       needed).
    3. If the exact enclosure succeeds, its value bounds the weight of EVERY well-formed tree of
       every nonterminal and external assignment, and (in a selective semiring: [a + b] is [a]
       or [b], e.g. max) a value different from zero is attained by a well-formed tree.
    4. Soundness of [vit_check].
    5. [weight] of a well-formed tree = the product over its rule instances of the product of
       the instance's terminal factor entries = the score of derive()'s factor graph.

    Generic over the semiring wherever possible; the Viterbi instances at the end have no
    premises (law records from Proofs/Viterbi_trop.v). *)
From Coq Require Import QArith Qcanon List Arith Bool PeanoNat Lia Ring Ring_theory.
Import ListNotations.
Require Import Fggs.Model.Semiring Fggs.Model.SCC Fggs.Model.SumProduct Fggs.Model.SumProductCheck
               Fggs.Model.Kleene Fggs.Model.EReal Fggs.Model.Trop Fggs.Model.Viterbi.
Require Import Fggs.Proofs.BigSum Fggs.Proofs.SP_mono Fggs.Proofs.SP_trees Fggs.Proofs.Kleene_proofs
               Fggs.Proofs.Viterbi_trop.
Local Open Scope nat_scope.

(* ------------------------------------------------------------------------- *)
(** * induction on derivation trees (nested through [list (option _)]) *)
Section DtreeInd.
Variable P : dtree -> Prop.
Definition optP (c : option dtree) : Prop := match c with Some t => P t | None => True end.
Hypothesis HDT : forall ri a ch, Forall optP ch -> P (DT ri a ch).
Fixpoint dtree_ind' (t : dtree) : P t :=
  match t with
  | DT ri a ch =>
    HDT ri a ch
      ((fix go (ch : list (option dtree)) : Forall optP ch :=
          match ch return Forall optP ch with
          | [] => Forall_nil optP
          | c :: ch => @Forall_cons _ optP c ch
                         (match c return optP c with Some t => dtree_ind' t | None => I end) (go ch)
          end) ch)
  end.
End DtreeInd.

(* ------------------------------------------------------------------------- *)
(** * the two [depth] functions agree *)
Lemma depth_eq t : Viterbi.depth t = SP_trees.depth t.
Proof.
  induction t as [ri a ch IH] using dtree_ind'.
  cbn [Viterbi.depth SP_trees.depth]. f_equal.
  induction IH as [|c ch Hc _ IHch]; [reflexivity|].
  cbn [map fold_right]. destruct c as [t'|].
  - cbn [opt_depth]. rewrite <- Hc, <- IHch. reflexivity.
  - cbn [opt_depth]. rewrite Nat.max_0_l. exact IHch.
Qed.

Lemma depth_pos t : 1 <= Viterbi.depth t.
Proof. destruct t as [ri a ch]. cbn [Viterbi.depth]. apply le_n_S, Nat.le_0_l. Qed.

(* ------------------------------------------------------------------------- *)
(** * 1. [wf_dtree_b] reflects [wf_dtree] *)
Definition child_ok_b (G : grammar) (a : list nat) (c : option dtree) (ed : nat * list nat) : bool :=
  match c with
  | None => is_term G (fst ed)
  | Some t' => negb (is_term G (fst ed)) && wf_dtree_b G (fst ed) (sel a (snd ed)) t'
  end.
Fixpoint all2b {A B} (p : A -> B -> bool) (l : list A) (l' : list B) {struct l} : bool :=
  match l, l' with
  | [], [] => true
  | x :: l, y :: l' => p x y && all2b p l l'
  | _, _ => false
  end.

Lemma wf_dtree_b_DT G X xi ri a ch :
  wf_dtree_b G X xi (DT ri a ch)
  = (ri <? length (g_rules G))
    && Nat.eqb (r_lhs (get_rule G ri)) X
    && Nat.eqb (length a) (length (r_nodes (get_rule G ri)))
    && forallb (fun p => fst p <? snd p) (combine a (node_sizes G (get_rule G ri)))
    && nat_list_eqb (sel a (r_ext (get_rule G ri))) xi
    && Nat.eqb (length ch) (length (r_edges (get_rule G ri)))
    && all2b (child_ok_b G a) ch (r_edges (get_rule G ri)).
Proof.
  cbn [wf_dtree_b]. cbv zeta. f_equal.
  generalize (r_edges (get_rule G ri)).
  induction ch as [|c ch IH]; intros [|ed es]; try reflexivity.
  cbn [all2b]. rewrite <- IH. destruct c; reflexivity.
Qed.

Lemma all2b_all2 {A B} (p : A -> B -> bool) (P : A -> B -> Prop) l :
  Forall (fun x => forall y, p x y = true <-> P x y) l ->
  forall l', all2b p l l' = true <-> all2 P l l'.
Proof.
  induction 1 as [|x l Hx _ IH]; intros [|y l']; cbn [all2b all2].
  - split; auto.
  - split; [discriminate | intros []].
  - split; [discriminate | intros []].
  - rewrite andb_true_iff, Hx, IH. reflexivity.
Qed.

Lemma all2_length {A B} (P : A -> B -> Prop) l l' : all2 P l l' -> length l = length l'.
Proof.
  revert l'. induction l as [|x l IH]; intros [|y l']; cbn [all2 length]; try tauto.
  intros [_ H]. f_equal. apply IH. exact H.
Qed.

(** the assignment test: same length and every coordinate below its size *)
Lemma asst_ok_iff a sizes :
  (Nat.eqb (length a) (length sizes) = true
   /\ forallb (fun p => fst p <? snd p) (combine a sizes) = true)
  <-> In a (all_assts sizes).
Proof.
  rewrite SP_trees.in_all_assts. revert sizes.
  induction a as [|x a IH]; intros [|n sizes]; cbn [length combine forallb Nat.eqb fst snd].
  - split; [constructor | auto].
  - split; [intros [H _]; discriminate | intros H; inversion H].
  - split; [intros [H _]; discriminate | intros H; inversion H].
  - rewrite andb_true_iff, Nat.ltb_lt. split.
    + intros (Hl & Hx & Hf). constructor; [exact Hx | apply IH; auto].
    + intros H. inversion H as [|? ? ? ? Hx Ht]; subst. apply IH in Ht. tauto.
Qed.

Theorem wf_reflect G : forall t X xi, wf_dtree_b G X xi t = true <-> wf_dtree G X xi t.
Proof.
  induction t as [ri a ch IH] using dtree_ind'. intros X xi.
  rewrite wf_dtree_b_DT. cbn [wf_dtree].
  assert (Hch : all2b (child_ok_b G a) ch (r_edges (get_rule G ri)) = true
                <-> all2 (fun c ed => match c with
                                      | None => is_term G (fst ed) = true
                                      | Some t' => is_term G (fst ed) = false
                                                   /\ wf_dtree G (fst ed) (sel a (snd ed)) t'
                                      end) ch (r_edges (get_rule G ri))).
  { apply all2b_all2. clear -IH. induction IH as [|c ch Hc _ IHch]; constructor; [|exact IHch].
    intros ed. destruct c as [t'|]; cbn [child_ok_b]; [|reflexivity].
    cbn [optP] in Hc. rewrite andb_true_iff, negb_true_iff, Hc. reflexivity. }
  pose proof (asst_ok_iff a (node_sizes G (get_rule G ri))) as Ha.
  unfold node_sizes in Ha at 1. rewrite map_length in Ha.
  rewrite !andb_true_iff, Nat.ltb_lt, !Nat.eqb_eq, SP_trees.nat_list_eqb_iff.
  rewrite Nat.eqb_eq in Ha. split.
  - intros ((((((H1 & H2) & H3) & H4) & H5) & H6) & H7).
    repeat split; try assumption; [apply Ha; auto | apply Hch; exact H7].
  - intros (H1 & H2 & H3 & H4 & H5). apply Ha in H3. destruct H3 as [H3 H3'].
    repeat split; try assumption; [|apply Hch; exact H5].
    apply (all2_length _ _ _ H5).
Qed.

(* ------------------------------------------------------------------------- *)
(** * what a well-formed tree says about its nonterminal and external assignment *)
Lemma sel_typed_in_range G r idxs l a :
  Forall (fun i => i < length (r_nodes r)) idxs ->
  map (fun i => nth i (r_nodes r) 0) idxs = ltype G l ->
  In a (all_assts (node_sizes G r)) ->
  In (sel a idxs) (all_assts (lshape G l)).
Proof.
  intros Hidx Hty Ha. apply SP_mono.in_all_assts. apply SP_mono.in_all_assts in Ha.
  unfold lshape. rewrite <- Hty. rewrite map_map.
  replace (map (fun i => dom G (nth i (r_nodes r) 0)) idxs)
    with (map (fun i => nth i (node_sizes G r) 0) idxs).
  - apply sel_in_range; [exact Ha|]. unfold node_sizes. rewrite map_length. exact Hidx.
  - apply map_ext_in. intros i Hi. rewrite Forall_forall in Hidx. specialize (Hidx i Hi).
    unfold node_sizes. rewrite (nth_indep _ 0 (dom G 0)) by (rewrite map_length; exact Hidx).
    apply map_nth.
Qed.

Lemma wf_rule_lhs G r :
  wf_rule G r = true ->
  r_lhs r < length (g_labels G) /\ is_term G (r_lhs r) = false
  /\ Forall (fun i => i < length (r_nodes r)) (r_ext r)
  /\ map (fun i => nth i (r_nodes r) 0) (r_ext r) = ltype G (r_lhs r).
Proof.
  unfold wf_rule. intros H.
  apply andb_true_iff in H as [H H6]. apply andb_true_iff in H as [H H5].
  apply andb_true_iff in H as [H _]. apply andb_true_iff in H as [H _].
  apply andb_true_iff in H as [H1 H2].
  split; [apply Nat.ltb_lt; exact H1|]. split; [apply negb_true_iff; exact H2|]. split.
  - apply Forall_forall. intros i Hi. rewrite forallb_forall in H5. apply Nat.ltb_lt. apply H5. exact Hi.
  - apply SP_mono.nat_list_eqb_eq. exact H6.
Qed.

(** in a well-formed grammar a nonterminal that has a derivation tree is a nonterminal of the
    grammar, and the tree's external assignment is in range *)
Lemma wf_dtree_in_range G X xi t :
  wf_grammar G = true -> wf_dtree G X xi t ->
  In X (nonterminals G) /\ In xi (all_assts (lshape G X)).
Proof.
  intros Hwf Ht. destruct t as [ri a ch]. cbn [wf_dtree] in Ht.
  destruct Ht as (Hri & HX & Ha & Hxi & _).
  assert (Hr : wf_rule G (get_rule G ri) = true).
  { apply (wf_grammar_rule G _ Hwf). apply nth_In. exact Hri. }
  destruct (wf_rule_lhs G _ Hr) as (H1 & H2 & H3 & H4). rewrite HX in *. split.
  - apply in_nonterminals. auto.
  - rewrite <- Hxi. apply (sel_typed_in_range G (get_rule G ri)); assumption.
Qed.

(* ------------------------------------------------------------------------- *)
(** * 2., 3., 5. generic part *)
Section Generic.
Context {R : Type} (o : sr_ops R).
Hypothesis Hr : sr_ring o.
Hypothesis Ho : sr_ordered o.
Add Ring RingV : (sr_is_srt o Hr).

Local Notation "x <== y" := (le o x y) (at level 70).

Lemma le_add_l a b : a <== add o a b.
Proof.
  rewrite <- (r_add_0_r o Hr a) at 1.
  apply (add_mono o Ho); [apply (le_refl o Ho) | apply (zero_le o Ho)].
Qed.
Lemma le_add_r a b : b <== add o a b.
Proof.
  rewrite <- (r_add_0_l o Hr b) at 1.
  apply (add_mono o Ho); [apply (zero_le o Ho) | apply (le_refl o Ho)].
Qed.

(** a member of a list is below the sum of the list *)
Lemma in_le_sumS {A} (l : list A) (f : A -> R) x : In x l -> f x <== sumS o l f.
Proof.
  induction l as [|y l IH]; [intros []|]. rewrite sumS_cons. intros [->|Hin].
  - apply le_add_l.
  - apply (le_trans o Ho) with (sumS o l f); [apply IH; exact Hin | apply le_add_r].
Qed.

(** 2. every well-formed tree's weight is below the Kleene iterate at its depth *)
Theorem tree_weight_below_Zk G w X xi t :
  is_term G X = false -> wf_dtree G X xi t ->
  weight o G w t <== Zk o G w (Viterbi.depth t) X xi.
Proof.
  intros HX Ht. rewrite (Zk_is_tree_sum o Hr G w (Viterbi.depth t) X xi HX).
  unfold tree_sum. apply in_le_sumS. apply enum_trees_spec. split; [exact Ht|].
  rewrite depth_eq. apply le_n.
Qed.

Corollary tree_weight_below_Zk_ge G w X xi t k :
  is_term G X = false -> wf_dtree G X xi t -> Viterbi.depth t <= k ->
  weight o G w t <== Zk o G w k X xi.
Proof.
  intros HX Ht Hk. apply (le_trans o Ho) with (Zk o G w (Viterbi.depth t) X xi).
  - apply tree_weight_below_Zk; assumption.
  - apply (Zk_mono_k o Hr Ho G w _ _ Hk).
Qed.

Corollary tree_weight_below_Zk_wf G w X xi t :
  wf_grammar G = true -> wf_dtree G X xi t ->
  weight o G w t <== Zk o G w (Viterbi.depth t) X xi.
Proof.
  intros Hwf Ht. destruct (wf_dtree_in_range G X xi t Hwf Ht) as [HX _].
  apply in_nonterminals in HX. apply tree_weight_below_Zk; tauto.
Qed.

(** 3a. the exact enclosure bounds every well-formed tree of every nonterminal *)
Section Optimal.
Variable (leb : R -> R -> bool).
Hypothesis leb_sound : forall x y, leb x y = true -> le o x y.

Theorem optimal_upper G w K lo u :
  wf_grammar G = true ->
  enclosure o (fun x => x) (fun x => x) leb G w K = Some (lo, u) ->
  forall X xi t, wf_dtree G X xi t -> weight o G w t <== env_of o lo X xi.
Proof.
  intros Hwf He X xi t Ht.
  destruct (enclosure_exact o Hr Ho leb leb_sound G w K lo u Hwf He) as (_ & _ & _ & Hup & _).
  destruct (wf_dtree_in_range G X xi t Hwf Ht) as (HX & Hxi).
  apply (le_trans o Ho) with (Zk o G w (Viterbi.depth t) X xi).
  - apply tree_weight_below_Zk_wf; assumption.
  - apply Hup; assumption.
Qed.

(** 3b. in a selective semiring ([a + b] is [a] or [b]) a sum is zero or one of its terms *)
Hypothesis Hsel : forall a b, add o a b = a \/ add o a b = b.

Lemma sumS_selective {A} (l : list A) (f : A -> R) :
  sumS o l f = zero o \/ exists x, In x l /\ f x = sumS o l f.
Proof.
  induction l as [|y l IH]; [left; reflexivity|]. rewrite sumS_cons.
  destruct (Hsel (f y) (sumS o l f)) as [E|E]; rewrite E.
  - right. exists y. split; [left; reflexivity | reflexivity].
  - destruct IH as [IH|(x & Hx & Hfx)]; [left; exact IH|].
    right. exists x. split; [right; exact Hx | exact Hfx].
Qed.

(** the value of the enclosure is a Kleene iterate = the sum (max) over the well-formed trees
    of bounded depth, and unless it is zero it is the weight of one of them *)
Theorem optimal_attained G w K lo u :
  wf_grammar G = true ->
  enclosure o (fun x => x) (fun x => x) leb G w K = Some (lo, u) ->
  exists k, k <= 4 * K /\
  forall X xi, In X (nonterminals G) -> In xi (all_assts (lshape G X)) ->
    env_of o lo X xi = Zk o G w k X xi
    /\ Zk o G w k X xi = tree_sum o G w k X xi
    /\ (env_of o lo X xi <> zero o ->
        exists t, wf_dtree G X xi t /\ Viterbi.depth t <= k /\ weight o G w t = env_of o lo X xi).
Proof.
  intros Hwf He.
  destruct (enclosure_exact o Hr Ho leb leb_sound G w K lo u Hwf He) as (_ & _ & _ & _ & (j & Hj & Heq)).
  exists (4 * j). split; [lia|]. intros X xi HX Hxi.
  assert (HT : is_term G X = false) by (apply in_nonterminals in HX; tauto).
  pose proof (Zk_is_tree_sum o Hr G w (4 * j) X xi HT) as Hts.
  split; [apply Heq; assumption|]. split; [exact Hts|].
  rewrite (Heq X xi HX Hxi), Hts. unfold tree_sum. intros Hnz.
  destruct (sumS_selective (enum_trees G (4 * j) X xi) (weight o G w)) as [E|(t & Hin & Ht)]; [contradiction|].
  apply enum_trees_spec in Hin. destruct Hin as [Hwt Hd].
  exists t. split; [exact Hwt|]. split; [rewrite depth_eq; exact Hd | exact Ht].
Qed.
End Optimal.

(** 5. weight = product over the rule instances of the tree of their terminal factor entries *)
(** the rule instances (rule index, assignment) of a tree, root first, children in edge order *)
Fixpoint flatten (t : dtree) : list (nat * list nat) :=
  match t with
  | DT ri a ch => (ri, a) :: flat_map (fun c => match c with None => [] | Some t' => flatten t' end) ch
  end.
(** the factor entries (terminal label, index tuple) of one rule instance: one per terminal
    edge of the rule, at the instance's values of the edge's attachment nodes *)
Definition inst_factors (G : grammar) (p : nat * list nat) : list (nat * list nat) :=
  map (fun ed => (fst ed, sel (snd p) (snd ed)))
      (filter (fun ed => is_term G (fst ed)) (r_edges (get_rule G (fst p)))).
Definition inst_weight (G : grammar) (w : env (R:=R)) (p : nat * list nat) : R :=
  prodS o (inst_factors G p) (fun f => w (fst f) (snd f)).
(** all factor entries of the tree = the terminal edges of derive()'s factor graph with the
    values derive()'s assignment gives to their attachment nodes *)
Definition tree_factors (G : grammar) (t : dtree) : list (nat * list nat) :=
  flat_map (inst_factors G) (flatten t).

Lemma prodS_flat_map {A B} (g : A -> list B) (l : list A) (f : B -> R) :
  prodS o (flat_map g l) f = prodS o l (fun x => prodS o (g x) f).
Proof.
  induction l as [|x l IH]; [reflexivity|].
  cbn [flat_map]. rewrite (prodS_app o Hr), prodS_cons, IH. reflexivity.
Qed.

Theorem weight_is_product G w : forall t X xi,
  wf_dtree G X xi t -> weight o G w t = prodS o (flatten t) (inst_weight G w).
Proof.
  induction t as [ri a ch IH] using dtree_ind'. intros X xi Hwf.
  rewrite weight_DT. cbn [flatten]. rewrite prodS_cons.
  cbn [wf_dtree] in Hwf. destruct Hwf as (_ & _ & _ & _ & Hch).
  unfold inst_weight at 1. unfold inst_factors. cbn [fst snd]. rewrite prodS_map. cbn [fst snd].
  revert Hch. generalize (r_edges (get_rule G ri)).
  induction IH as [|c ch Hc _ IHch]; intros [|ed es]; cbn [all2]; try tauto.
  - intros _. cbn [combine filter flat_map]. rewrite !prodS_nil. ring.
  - intros [Hced Hrest]. specialize (IHch es Hrest).
    cbn [combine flat_map filter]. rewrite prodS_cons. cbn [fst snd]. rewrite IHch.
    destruct c as [t'|].
    + cbn [optP] in Hc. destruct Hced as [Hterm Hwt]. rewrite Hterm. cbn [child_weight].
      rewrite (Hc _ _ Hwt), (prodS_app o Hr). ring.
    + rewrite Hced. cbn [child_weight app]. rewrite prodS_cons. ring.
Qed.

Corollary weight_is_factor_product G w t X xi :
  wf_dtree G X xi t ->
  weight o G w t = prodS o (tree_factors G t) (fun f => w (fst f) (snd f)).
Proof.
  intros Hwf. rewrite (weight_is_product G w t X xi Hwf).
  unfold tree_factors. rewrite prodS_flat_map. reflexivity.
Qed.

End Generic.

(* ------------------------------------------------------------------------- *)
(** * Viterbi instances (no premises) *)
Definition idt : trop -> trop := fun x => x.

Theorem trop_tree_weight_below_kleene G w X xi t :
  is_term G X = false -> wf_dtree G X xi t ->
  tle (weight trop_ops G w t) (Zk trop_ops G w (Viterbi.depth t) X xi).
Proof. apply (tree_weight_below_Zk trop_ops vt_trop_ring vt_trop_ordered). Qed.

Theorem trop_tree_weight_below_kleene_wf G w X xi t :
  wf_grammar G = true -> wf_dtree G X xi t ->
  tle (weight trop_ops G w t) (Zk trop_ops G w (Viterbi.depth t) X xi).
Proof. apply (tree_weight_below_Zk_wf trop_ops vt_trop_ring vt_trop_ordered). Qed.

Lemma tleb_sound' x y : tleb x y = true -> le trop_ops x y.
Proof. apply vt_tleb_iff. Qed.

Theorem trop_optimal G w K lo u :
  wf_grammar G = true ->
  enclosure trop_ops (fun x => x) (fun x => x) tleb G w K = Some (lo, u) ->
  (forall X xi t, wf_dtree G X xi t -> tle (weight trop_ops G w t) (env_of trop_ops lo X xi))
  /\ exists k, k <= 4 * K /\
     forall X xi, In X (nonterminals G) -> In xi (all_assts (lshape G X)) ->
       env_of trop_ops lo X xi = Zk trop_ops G w k X xi
       /\ Zk trop_ops G w k X xi = tree_sum trop_ops G w k X xi
       /\ (env_of trop_ops lo X xi <> NInf ->
           exists t, wf_dtree G X xi t /\ Viterbi.depth t <= k
                     /\ weight trop_ops G w t = env_of trop_ops lo X xi).
Proof.
  intros Hwf He. split.
  - apply (optimal_upper trop_ops vt_trop_ring vt_trop_ordered tleb tleb_sound' G w K lo u Hwf He).
  - apply (optimal_attained trop_ops vt_trop_ring vt_trop_ordered tleb tleb_sound' vt_tmax_cases G w K lo u Hwf He).
Qed.

(** 4. soundness of the check function *)
Theorem vit_check_sound gw ws xi K kind t dw spv :
  vit_check (gw, ws, xi, K, (kind, t, dw, spv)) = 0 ->
  let G := grammar_of_w gw in
  let w := env_of trop_ops (weights_tmt trop_of G ws) in
  kind = 0 /\ wf_grammar G = true
  /\ wf_dtree G (g_start G) xi t
  /\ (exists q, weight trop_ops G w t = TFin q)
  /\ (forall t', wf_dtree G (g_start G) xi t' -> tle (weight trop_ops G w t') (weight trop_ops G w t))
  /\ (exists lo u k, enclosure trop_ops (fun x => x) (fun x => x) tleb G w K = Some (lo, u)
                     /\ weight trop_ops G w t = env_of trop_ops lo (g_start G) xi
                     /\ weight trop_ops G w t = Zk trop_ops G w k (g_start G) xi
                     /\ forall k', tle (Zk trop_ops G w k' (g_start G) xi) (weight trop_ops G w t))
  /\ tle (trop_of (fst spv)) (weight trop_ops G w t) /\ tle (weight trop_ops G w t) (trop_of (snd spv))
  /\ trop_of dw = weight trop_ops G w t.
Proof.
  intros H G w. unfold vit_check in H. fold G in H.
  destruct (wf_grammar G) eqn:Hwf; cbn [negb] in H; [|discriminate].
  fold w in H.
  destruct (enclosure trop_ops (fun x => x) (fun x => x) tleb G w K) as [[lo u]|] eqn:He; [|discriminate].
  destruct (trop_is_fin (env_of trop_ops lo (g_start G) xi)) eqn:Hfin; cbn [negb] in H; [|discriminate].
  destruct (trop_within (env_of trop_ops lo (g_start G) xi) (fst spv) (snd spv)) eqn:Hsp; cbn [negb] in H; [|discriminate].
  destruct kind as [|kind]; [|discriminate].
  destruct (wf_dtree_b G (g_start G) xi t) eqn:Hwt; cbn [negb] in H; [|discriminate].
  destruct (teqb (weight trop_ops G w t) (env_of trop_ops lo (g_start G) xi)) eqn:Hw; cbn [negb] in H; [|discriminate].
  destruct (teqb (trop_of dw) (env_of trop_ops lo (g_start G) xi)) eqn:Hd; cbn [negb] in H; [|discriminate].
  apply wf_reflect in Hwt. apply vt_teqb_iff in Hw. apply vt_teqb_iff in Hd.
  apply vt_fin_iff in Hfin. unfold trop_within in Hsp. apply andb_true_iff in Hsp as [Hs1 Hs2].
  apply vt_tleb_iff in Hs1. apply vt_tleb_iff in Hs2.
  destruct (trop_optimal G w K lo u Hwf He) as (Hup & k & _ & Hatt).
  destruct (wf_dtree_in_range G _ _ _ Hwf Hwt) as (HX & Hxi).
  destruct (Hatt _ _ HX Hxi) as (Hk & _ & _).
  destruct (enclosure_exact trop_ops vt_trop_ring vt_trop_ordered tleb tleb_sound' G w K lo u Hwf He)
    as (_ & _ & _ & Hall & _).
  split; [reflexivity|]. split; [reflexivity|]. split; [exact Hwt|].
  split; [rewrite Hw; exact Hfin|].
  split; [intros t' Ht'; rewrite Hw; apply Hup; exact Ht'|].
  split; [exists lo, u, k; split; [reflexivity|]; split; [exact Hw|]; split; [rewrite Hw; exact Hk|];
          intros k'; rewrite Hw; apply (Hall k' _ _ HX Hxi)|].
  rewrite Hw. split; [exact Hs1|]. split; [exact Hs2|exact Hd].
Qed.
