(** C12: the presentation invariances composed (the whole transform of harness/gen.py
    [present]), and carried from the Kleene iterates to the sums over derivation trees
    ([tree_sum], all derivations of a non-recursive grammar) and to the code-shaped driver
    [sum_products_nonrec]; any two dependency-respecting component orders give the same tables. *)
From Coq Require Import List Arith Bool PeanoNat Lia Permutation.
Import ListNotations.
Require Import Fggs.Model.Semiring Fggs.Model.SCC Fggs.Model.SumProduct.
Require Import Fggs.Proofs.SCC_ntgraph Fggs.Proofs.BigSum Fggs.Proofs.SP_trees Fggs.Proofs.SP_nonrec
               Fggs.Proofs.SP_code Fggs.Proofs.SP_rename Fggs.Proofs.SP_spe Fggs.Proofs.SP_driver
               Fggs.Proofs.SP_main Fggs.Proofs.SP_corollaries Fggs.Proofs.SP_examples Fggs.Proofs.SP_scc_glue.
Require Import Fggs.Proofs.Presentation Fggs.Proofs.Presentation_perm Fggs.Proofs.Presentation_nodes
               Fggs.Proofs.Presentation_dom Fggs.Proofs.Presentation_relabel Fggs.Proofs.Presentation_wf.

Section Cor.
Context {R : Type} (o : sr_ops R) (Hring : sr_ring o).

(** * the whole presentation transform *)
Theorem Zk_presentation rho pel pnl G G' (w w' : env (R:=R)) :
  wf_grammar G = true -> presents rho pel pnl G G' ->
  (forall l idx, vlab G l -> vidx G l idx -> is_term G l = true ->
                 w' (pel l) (pmap rho (ltype G l) idx) = w l idx) ->
  forall k X xi, vlab G X -> vidx G X xi ->
    Zk o G' w' k (pel X) (pmap rho (ltype G X) xi) = Zk o G w k X xi.
Proof.
  intros Hwf (Hrho & G2 & G3 & G4 & Hrel & [Hd23 Hl23] & Hn & [Hd34 Hl34] & He & [Hd45 Hl45] & Hp) Hw k X xi HX Hxi.
  rewrite <- (Zk_rules_perm o Hring G4 G' w' k _ _ Hd45 Hl45 Hp).
  rewrite <- (Zk_edges_perm o Hring G3 G4 w' k _ _ Hd34 Hl34 He).
  rewrite (Zk_nodes_perm o Hring G2 G3 w' k _ _ Hd23 Hl23 Hn).
  rewrite (Zk_relabel o pel pnl G G2 (fun l idx => w' (pel l) idx) w' Hwf Hrel) by trivial.
  apply (Zk_dom_perm o Hring G rho w); trivial.
Qed.

(** * from the Kleene iterates to the sums over derivation trees *)
Lemma tree_sum_transfer G G' (w w' : env (R:=R)) k X X' xi xi' :
  is_term G X = false -> is_term G' X' = false ->
  Zk o G' w' k X' xi' = Zk o G w k X xi ->
  tree_sum o G' w' k X' xi' = tree_sum o G w k X xi.
Proof. intros HX HX' E. now rewrite <- !(Zk_is_tree_sum o Hring) by trivial. Qed.

Theorem tree_sum_rules_perm G G' (w : env (R:=R)) k X xi :
  g_doms G = g_doms G' -> g_labels G = g_labels G' -> Permutation (g_rules G) (g_rules G') ->
  is_term G X = false -> tree_sum o G' w k X xi = tree_sum o G w k X xi.
Proof.
  intros Hd Hl Hp HX. apply tree_sum_transfer; trivial.
  - now rewrite (same_tables_is_term G G' X (conj Hd Hl)).
  - symmetry. now apply Zk_rules_perm.
Qed.
Theorem tree_sum_edges_perm G G' (w : env (R:=R)) k X xi :
  g_doms G = g_doms G' -> g_labels G = g_labels G' -> Forall2 rule_edges_perm (g_rules G) (g_rules G') ->
  is_term G X = false -> tree_sum o G' w k X xi = tree_sum o G w k X xi.
Proof.
  intros Hd Hl Hp HX. apply tree_sum_transfer; trivial.
  - now rewrite (same_tables_is_term G G' X (conj Hd Hl)).
  - symmetry. now apply Zk_edges_perm.
Qed.
Theorem tree_sum_nodes_perm G G' (w : env (R:=R)) k X xi :
  g_doms G = g_doms G' -> g_labels G = g_labels G' -> rules_nodes_perm (g_rules G) (g_rules G') ->
  is_term G X = false -> tree_sum o G' w k X xi = tree_sum o G w k X xi.
Proof.
  intros Hd Hl Hp HX. apply tree_sum_transfer; trivial.
  - now rewrite (same_tables_is_term G G' X (conj Hd Hl)).
  - now apply Zk_nodes_perm.
Qed.
Theorem tree_sum_relabel pel pnl G G' (w w' : env (R:=R)) k X xi :
  wf_grammar G = true -> relabelled pel pnl G G' ->
  (forall l idx, l < length (g_labels G) -> is_term G l = true -> w' (pel l) idx = w l idx) ->
  X < length (g_labels G) -> is_term G X = false ->
  tree_sum o G' w' k (pel X) xi = tree_sum o G w k X xi.
Proof.
  intros Hwf Hrel Hw HX Ht. apply tree_sum_transfer; trivial.
  - now rewrite (rl_term _ _ _ _ Hrel X HX).
  - now apply (Zk_relabel o pel pnl).
Qed.
Theorem tree_sum_dom_perm G rho (w w' : env (R:=R)) k X xi :
  wf_grammar G = true -> dom_perms G rho ->
  (forall l idx, vlab G l -> vidx G l idx -> is_term G l = true -> w' l (pmap rho (ltype G l) idx) = w l idx) ->
  vlab G X -> vidx G X xi -> is_term G X = false ->
  tree_sum o G w' k X (pmap rho (ltype G X) xi) = tree_sum o G w k X xi.
Proof.
  intros Hwf Hrho Hw HX Hxi Ht. apply tree_sum_transfer; trivial. now apply Zk_dom_perm.
Qed.

Theorem tree_sum_presentation rho pel pnl G G' (w w' : env (R:=R)) k X xi :
  wf_grammar G = true -> presents rho pel pnl G G' ->
  (forall l idx, vlab G l -> vidx G l idx -> is_term G l = true ->
                 w' (pel l) (pmap rho (ltype G l) idx) = w l idx) ->
  vlab G X -> vidx G X xi -> is_term G X = false ->
  tree_sum o G' w' k (pel X) (pmap rho (ltype G X) xi) = tree_sum o G w k X xi.
Proof.
  intros Hwf Hp Hw HX Hxi Ht. apply tree_sum_transfer; trivial.
  - now rewrite (presents_is_term rho pel pnl G G' X Hp HX).
  - now apply (Zk_presentation rho pel pnl).
Qed.

(** * non-recursive grammars: the sum over ALL derivation trees *)
(** whenever the Kleene iterates of two non-recursive grammars correspond at (X, xi) / (X', xi'),
    so do the sums over all their derivation trees (each enumerated exactly once) *)
Theorem all_trees_transfer G G' (w w' : env (R:=R)) rank rank' X X' xi xi' :
  ranked G rank -> ranked G' rank' -> is_term G X = false -> is_term G' X' = false ->
  (forall k, Zk o G' w' k X' xi' = Zk o G w k X xi) ->
  forall k k', length (nonterminals G) <= k -> length (nonterminals G') <= k' ->
    sumS o (enum_trees G' k' X' xi') (weight o G' w') = sumS o (enum_trees G k X xi) (weight o G w)
    /\ (forall t, In t (enum_trees G k X xi) <-> wf_dtree G X xi t)
    /\ (forall t, In t (enum_trees G' k' X' xi') <-> wf_dtree G' X' xi' t).
Proof.
  intros Hrk Hrk' HX HX' E k k' Hk Hk'.
  destruct (Zk_nonrec_all_trees o Hring G w rank Hrk k X xi HX Hk) as (E1 & _ & A1 & S1).
  destruct (Zk_nonrec_all_trees o Hring G' w' rank' Hrk' k' X' xi' HX' Hk') as (E2 & _ & A2 & S2).
  destruct (Zk_nonrec_all_trees o Hring G w rank Hrk (Nat.max k k') X xi HX ltac:(lia)) as (_ & _ & _ & S3).
  destruct (Zk_nonrec_all_trees o Hring G' w' rank' Hrk' (Nat.max k k') X' xi' HX' ltac:(lia)) as (_ & _ & _ & S4).
  split; [|split; trivial].
  rewrite <- E1, <- E2, S1, S2, <- S3, <- S4. apply E.
Qed.

Theorem all_trees_presentation rho pel pnl G G' (w w' : env (R:=R)) rank X xi :
  wf_grammar G = true -> presents rho pel pnl G G' ->
  (forall l idx, vlab G l -> vidx G l idx -> is_term G l = true ->
                 w' (pel l) (pmap rho (ltype G l) idx) = w l idx) ->
  ranked G rank -> vlab G X -> vidx G X xi -> is_term G X = false ->
  forall k k', length (nonterminals G) <= k -> length (nonterminals G') <= k' ->
    let xi' := pmap rho (ltype G X) xi in
    sumS o (enum_trees G' k' (pel X) xi') (weight o G' w') = sumS o (enum_trees G k X xi) (weight o G w)
    /\ (forall t, In t (enum_trees G k X xi) <-> wf_dtree G X xi t)
    /\ (forall t, In t (enum_trees G' k' (pel X) xi') <-> wf_dtree G' (pel X) xi' t).
Proof.
  intros Hwf Hp Hw Hrk HX Hxi Ht k k' Hk Hk' xi'.
  apply (all_trees_transfer G G' w w' rank (rank_back pel (length (g_labels G)) rank)); trivial.
  - now apply (presents_ranked rho pel pnl).
  - now rewrite (presents_is_term rho pel pnl G G' X Hp HX).
  - intros j. now apply (Zk_presentation rho pel pnl).
Qed.

(** * the code-shaped driver *)
(** any two dependency-respecting orders of singleton components give the same tables *)
Theorem scc_order_irrelevant G w ord ord' :
  wf_grammar G = true -> (forall l, tget w l <> None -> is_term G l = true) ->
  dep_ordered G [] ord -> dep_ordered G [] ord' ->
  forall X xi, In X ord -> In X ord' -> In xi (all_assts (lshape G X)) ->
    env_of o (sum_products_nonrec o G w (map (fun x => [x]) ord)) X xi
    = env_of o (sum_products_nonrec o G w (map (fun x => [x]) ord')) X xi.
Proof.
  intros Hwf Hk Hd Hd' X xi HX HX' Hxi.
  rewrite (sum_products_nonrec_Zk o Hring G Hwf w ord Hk Hd X (Nat.max (length ord) (length ord')) xi) by (trivial; lia).
  rewrite (sum_products_nonrec_Zk o Hring G Hwf w ord' Hk Hd' X (Nat.max (length ord) (length ord')) xi) by (trivial; lia).
  reflexivity.
Qed.

(** ... in particular any two component lists accepted by the verified SCC oracle (C19) *)
Theorem scc_order_irrelevant_scc G w order order' :
  wf_grammar G = true -> (forall l, tget w l <> None -> is_term G l = true) ->
  scc_ok (nt_graph G) order = true -> nonrecursive_order G order = true ->
  scc_ok (nt_graph G) order' = true -> nonrecursive_order G order' = true ->
  forall X xi, is_term G X = false -> In xi (all_assts (lshape G X)) ->
    env_of o (sum_products_nonrec o G w order) X xi = env_of o (sum_products_nonrec o G w order') X xi.
Proof.
  intros Hwf Hk Hok Hnr Hok' Hnr' X xi HX Hxi.
  destruct (sum_products_scc_correct o Hring G w order Hwf Hk Hok Hnr X xi HX Hxi) as (_ & E & _).
  destruct (sum_products_scc_correct o Hring G w order' Hwf Hk Hok' Hnr' X xi HX Hxi) as (_ & E' & _).
  cbn zeta in E, E'. now rewrite E, E'.
Qed.

(** whenever the Kleene iterates correspond, so do the driver's tables, whatever the two orders *)
Theorem sum_products_nonrec_transfer G G' w w' ord ord' X X' xi xi' :
  wf_grammar G = true -> wf_grammar G' = true ->
  (forall l, tget w l <> None -> is_term G l = true) -> (forall l, tget w' l <> None -> is_term G' l = true) ->
  dep_ordered G [] ord -> dep_ordered G' [] ord' -> In X ord -> In X' ord' ->
  In xi (all_assts (lshape G X)) -> In xi' (all_assts (lshape G' X')) ->
  (forall k, Zk o G' (env_of o w') k X' xi' = Zk o G (env_of o w) k X xi) ->
  env_of o (sum_products_nonrec o G' w' (map (fun x => [x]) ord')) X' xi'
  = env_of o (sum_products_nonrec o G w (map (fun x => [x]) ord)) X xi.
Proof.
  intros Hwf Hwf' Hk Hk' Hd Hd' HX HX' Hxi Hxi' E.
  rewrite (sum_products_nonrec_Zk o Hring G Hwf w ord Hk Hd X (Nat.max (length ord) (length ord')) xi) by (trivial; lia).
  rewrite (sum_products_nonrec_Zk o Hring G' Hwf' w' ord' Hk' Hd' X' (Nat.max (length ord) (length ord')) xi') by (trivial; lia).
  apply E.
Qed.

(** the model of [sum_products] on a presentation of a non-recursive grammar, with any
    dependency-respecting order, returns the canonical result re-indexed *)
Theorem sum_products_nonrec_presentation rho pel pnl G G' w w' ord ord' X xi :
  wf_grammar G = true -> wf_grammar G' = true -> presents rho pel pnl G G' ->
  (forall l, tget w l <> None -> is_term G l = true) -> (forall l, tget w' l <> None -> is_term G' l = true) ->
  (forall l idx, vlab G l -> vidx G l idx -> is_term G l = true ->
                 env_of o w' (pel l) (pmap rho (ltype G l) idx) = env_of o w l idx) ->
  dep_ordered G [] ord -> dep_ordered G' [] ord' -> In X ord -> In (pel X) ord' ->
  vlab G X -> vidx G X xi ->
  env_of o (sum_products_nonrec o G' w' (map (fun x => [x]) ord')) (pel X) (pmap rho (ltype G X) xi)
  = env_of o (sum_products_nonrec o G w (map (fun x => [x]) ord)) X xi.
Proof.
  intros Hwf Hwf' Hp Hk Hk' Hw Hd Hd' HX HX' HvX Hxi.
  apply sum_products_nonrec_transfer; trivial; [now apply (presents_vidx rho pel pnl)|].
  intros k. now apply (Zk_presentation rho pel pnl).
Qed.
End Cor.
