(** [unify] respects the bindings it is handed: the substitution is only ever EXTENDED, so an axis that is
    already bound on entry (by an earlier unification of the same einsum / unify_list call) has the same binding
    afterwards -- in particular when the product loop has to split it against a smaller factor (branches
    m < n / m > n), which goes through [unify] on the bound axis and hence through [lookup].
    (Seeded regression C07-g replaced that recursive call by a direct assignment [subst[e9] = k*f9].) *)
From Coq Require Import List Arith Bool PArith.
Import ListNotations.
Require Import Fggs.Model.Axis Fggs.Proofs.Axis_sem Fggs.Proofs.Axis_unify.

Lemma usound_keeps st st' k x :
  usound st st' -> assoc k (us_subst st) = Some x -> assoc k (us_subst st') = Some x.
Proof. intros [[ext ->] _] H. apply assoc_app_Some. exact H. Qed.

Theorem unify_keeps_bindings fuel e f st b st' k x :
  pos_sizes e = true -> pos_sizes f = true -> pos_subst (us_subst st) = true ->
  unify fuel e f st = Ok (b, st') ->
  assoc k (us_subst st) = Some x -> assoc k (us_subst st') = Some x.
Proof.
  intros He Hf Hs H. apply usound_keeps.
  exact (proj1 (proj1 (unify_sound_both fuel) e f st b st' He Hf Hs H)).
Qed.

Theorem unify_loop_keeps_bindings fuel esr fsr st b st' k x :
  forallb pos_sizes esr = true -> forallb pos_sizes fsr = true -> pos_subst (us_subst st) = true ->
  unify_loop fuel esr fsr st = Ok (b, st') ->
  assoc k (us_subst st) = Some x -> assoc k (us_subst st') = Some x.
Proof.
  intros He Hf Hs H. apply usound_keeps.
  exact (proj1 (proj2 (unify_sound_both fuel) esr fsr st b st' He Hf Hs H)).
Qed.

Theorem unify_list_keeps_bindings fuel es fs st b st' k x :
  forallb pos_sizes es = true -> forallb pos_sizes fs = true -> pos_subst (us_subst st) = true ->
  unify_list fuel es fs st = Ok (b, st') ->
  assoc k (us_subst st) = Some x -> assoc k (us_subst st') = Some x.
Proof.
  intros He Hf Hs H. apply usound_keeps.
  exact (proj1 (unify_list_sound fuel es fs st b st' He Hf Hs H)).
Qed.

(** the bound axis is split THROUGH its binding: Q(6) bound to U(2)*V(3) meets R(4)*S(3) as the last factor of
    P(2)*Q(6); afterwards Q is still bound to U*V, nothing has warned, and V -- not a fresh unrelated axis -- is
    bound to S. *)
Definition bts_st : ustate :=
  {| us_subst := [(2%positive, Prod [Phys 3 2; Phys 4 3])]; us_next := 7%positive; us_warn := false |}.

Example bound_then_split :
  exists st', unify 40 (Prod [Phys 1 2; Phys 2 6]) (Prod [Phys 5 4; Phys 6 3]) bts_st = Ok (true, st') /\
    assoc 2%positive (us_subst st') = Some (Prod [Phys 3 2; Phys 4 3]) /\
    us_warn st' = false /\
    assoc 4%positive (us_subst st') = Some (Phys 6 3).
Proof.
  eexists. split; [vm_compute; reflexivity|]. split; [reflexivity|]. split; reflexivity.
Qed.
