(** C13: the property theorems for [equal] / [allclose] / [equal_default] / [allclose_default]
    on the concrete carrier, from the generic theorem of PTEqual_sem.v:
    - the executable premise [compare_pre_b] implies the propositional premises;
    - [compare_model] (size test + freshening + core) decides the cellwise comparison;
    - instances, corollaries (symmetry, reflexivity, representation insensitivity);
    - soundness of the oracle of the check function ([dspec] = [denote]). *)
From Coq Require Import List Arith Lia PeanoNat Bool PArith QArith Qcanon.
Import ListNotations.
Require Import Fggs.Model.Axis Fggs.Model.AxisCheck Fggs.Model.XVal Fggs.Model.PTensor Fggs.Model.PTensorCheck Fggs.Model.PTEqual.
Require Import Fggs.Proofs.Axis_sem Fggs.Proofs.PTensor_sem Fggs.Proofs.PTensor_dense Fggs.Proofs.Axis_repr.
Require Import Fggs.Proofs.PTensor_unary Fggs.Proofs.Axis_complete Fggs.Proofs.PTEqual_count Fggs.Proofs.PTEqual_sem Fggs.Proofs.PTEqual_freshen.
Local Open Scope nat_scope.

(** * the executable premise *)
Lemma nodup_tuples_NoDup l : nodup_tuples l = true -> NoDup l.
Proof.
  induction l as [|x l IH]; simpl; intros H; constructor.
  - apply andb_true_iff in H. destruct H as [H _]. apply negb_true_iff in H. intros Hin.
    assert (memb nat_list_eqb x l = true); [|congruence]. apply (memb_In _ nat_list_eqb_eq). exact Hin.
  - apply IH. apply andb_true_iff in H. tauto.
Qed.

Lemma pair_eqb_eq a b : pair_eqb a b = true <-> a = b.
Proof.
  destruct a as [a1 a2], b as [b1 b2]. unfold pair_eqb. cbn [fst snd].
  rewrite andb_true_iff, !nat_list_eqb_eq. split; [intros [-> ->]; reflexivity|intros H; inversion H; auto].
Qed.

Lemma tlookup_some {A} (f g : A -> list nat) c (l : list A) a :
  tlookup c (map (fun x => (f x, g x)) l) = Some a -> exists x, In x l /\ f x = c /\ g x = a.
Proof.
  induction l as [|x l IH]; simpl; [discriminate|]. destruct (nat_list_eqb (f x) c) eqn:E.
  - intros H. inversion H; subst. apply nat_list_eqb_eq in E. exists x. auto.
  - intros H. destruct (IH H) as (y & Hy & Y). exists y. split; [right; exact Hy|exact Y].
Qed.

Lemma overlap_ok_b_sound (t u : pt) cs : overlap_ok_b t u cs = true -> overlap_ok xval t u cs.
Proof.
  unfold overlap_ok_b. intros H. apply andb_true_iff in H. destruct H as [H H3]. apply andb_true_iff in H. destruct H as [H1 H2].
  split; [apply nodup_tuples_NoDup; exact H1|]. split.
  - intros cc Hcc. rewrite forallb_forall in H2. specialize (H2 cc Hcc). unfold cell_table in H2.
    destruct (tlookup (fst cc) _) as [a|] eqn:Ea; [|discriminate]. destruct (tlookup (snd cc) _) as [b|] eqn:Eb; [|discriminate].
    apply tlookup_some in Ea, Eb. destruct Ea as (pi & Hpi & Fa & Ga), Eb as (pj & Hpj & Fb & Gb).
    apply nat_list_eqb_eq in H2. exists pi, pj. unfold cell_of. repeat split; auto. congruence.
  - intros pi pj Hpi Hpj E. unfold cell_table in H3. rewrite forallb_map', forallb_forall in H3. specialize (H3 pi Hpi).
    rewrite forallb_map', forallb_forall in H3. specialize (H3 pj Hpj). cbn [fst snd] in H3.
    apply orb_true_iff in H3. destruct H3 as [H3|H3].
    + apply negb_true_iff in H3.
      assert (nat_list_eqb (evals (env_of pi) (vaxes t)) (evals (env_of pj) (vaxes u)) = true); [|congruence].
      apply nat_list_eqb_eq. exact E.
    + apply (memb_In _ pair_eqb_eq) in H3. exact H3.
Qed.

Lemma overlap_exact_sound next (t u : pt) : overlap_exact_b next t u = true ->
  exists cs, overlap_cs xval t u next = Ok cs /\ overlap_ok xval t u cs.
Proof.
  unfold overlap_exact_b, overlap_cs. destruct (overlap_model xval next t u) as [[o|]|e]; intros H; [| |discriminate].
  - exists (ov_pairs o). split; [reflexivity|apply overlap_ok_b_sound; exact H].
  - exists []. split; [reflexivity|apply overlap_ok_b_sound; exact H].
Qed.

Lemma wf_b_sound (t : pt) : wf_b t = true -> wf xval t.
Proof. apply repr_inv_wf. Qed.

(** * [compare_model]: size test, freshening, core *)
Section Model.
Variable cmp : xval -> xval -> bool.

Definition cellwise (t u : pt) : Prop :=
  shape xval t = shape xval u /\
  forall idx, in_bounds (shape xval t) idx -> cmp (denote xval t idx) (denote xval u idx) = true.

Lemma freshened_props next (t u : pt) : wf xval u ->
  let u' := fst (freshened xval next t u) in
  wf xval u' /\ shape xval u' = shape xval u /\
  (forall idx, length idx = length (vaxes u) -> denote xval u' idx = denote xval u idx).
Proof.
  intros W. unfold freshened. destruct (pt_isdisjoint xval t u).
  - cbn [fst]. auto.
  - split; [apply pt_freshen_wf; exact W|]. split; [apply pt_freshen_shape; exact W|].
    intros idx L. apply pt_freshen_denote; assumption.
Qed.

Theorem compare_model_correct next (t u : pt) b :
  compare_pre_b next t u = true ->
  compare_model xval cmp next t u = Ok b ->
  (b = true <-> cellwise t u).
Proof.
  unfold compare_pre_b, compare_model, cellwise. intros P H.
  destruct (freshened_props next t u) as (Wu' & Su' & Du'); [| ].
  { destruct (freshened xval next t u) as [u' next']. apply andb_true_iff in P. destruct P as [P _].
    apply andb_true_iff in P. destruct P as [_ P]. apply wf_b_sound. exact P. }
  destruct (freshened xval next t u) as [u' next'] eqn:F. cbn [fst] in *.
  apply andb_true_iff in P. destruct P as [P Pov]. apply andb_true_iff in P. destruct P as [Pt Pu].
  apply wf_b_sound in Pt, Pu.
  destruct (nat_list_eqb (shape xval t) (shape xval u)) eqn:Es; cbn [negb] in H.
  - apply nat_list_eqb_eq in Es.
    destruct (overlap_exact_sound _ _ _ Pov) as (cs & Ecs & Ocs).
    assert (Hs' : shape xval t = shape xval u') by congruence.
    pose proof (compare_core_correct xval cmp t u' Pt Wu' Hs' next' b) as C.
    rewrite C; [|intros cs' E'; rewrite Ecs in E'; inversion E'; subst; exact Ocs|exact H].
    split.
    + intros A. split; [exact Es|]. intros idx B. rewrite <- Du'; [apply A; exact B|].
      apply in_bounds_length in B. rewrite Es in B. unfold shape in B. rewrite map_length in B. exact B.
    + intros [_ A] idx B. rewrite Du'; [apply A; exact B|].
      apply in_bounds_length in B. rewrite Es in B. unfold shape in B. rewrite map_length in B. exact B.
  - inversion H; subst b. split; [discriminate|]. intros [E _]. exfalso.
    assert (nat_list_eqb (shape xval t) (shape xval u) = true); [apply nat_list_eqb_eq; exact E|congruence].
Qed.

(** under the premise the model does not fail *)
Lemma compare_model_total next (t u : pt) :
  compare_pre_b next t u = true -> exists b, compare_model xval cmp next t u = Ok b.
Proof.
  unfold compare_pre_b, compare_model. intros P.
  destruct (nat_list_eqb (shape xval t) (shape xval u)); cbn [negb]; [|eauto].
  destruct (freshened xval next t u) as [u' next']. apply andb_true_iff in P. destruct P as [_ Pov].
  destruct (overlap_exact_sound _ _ _ Pov) as (cs & Ecs & _). apply compare_core_total. eauto.
Qed.

(** [equal_default] / [allclose_default] *)
Theorem default_model_correct (t : pt) : wf xval t -> cmp (default t) (default t) = true ->
  (default_model xval cmp t = true <->
   forall idx, in_bounds (shape xval t) idx -> cmp (denote xval t idx) (default t) = true).
Proof.
  intros W D. unfold default_model, pcoords_all. rewrite forallb_map', forallb_forall. split.
  - intros H idx B. destruct (backedb xval t idx) eqn:E.
    + apply backedb_true in E. destruct E as (pi & Hpi & <-). rewrite cell_denote by assumption. apply H. exact Hpi.
    + rewrite unbacked_denote by assumption. exact D.
  - intros H pi Hpi. rewrite <- (cell_denote xval t pi W Hpi). apply H. apply cell_in_bounds; assumption.
Qed.

End Model.

(** * the comparisons on the concrete carrier *)
Lemma Qccompare_refl q : Qccompare q q = Eq.
Proof. apply Qceq_alt. reflexivity. Qed.

Lemma xeq_num_spec a b : xeq_num a b = true <-> a = b /\ a <> XNaN.
Proof.
  destruct a as [p| | |], b as [q| | |]; unfold xeq_num, xleb; simpl;
    try (split; [discriminate|intros [E N]; try discriminate E; exfalso; apply N; reflexivity]);
    try (split; [intros _; split; [reflexivity|discriminate]|reflexivity]).
  rewrite <- (Qccompare_antisym p q). destruct (Qccompare p q) eqn:C; simpl.
  - apply Qceq_alt in C. subst. split; [intros _; split; [reflexivity|discriminate]|reflexivity].
  - split; [discriminate|]. intros [E _]. inversion E; subst. rewrite Qccompare_refl in C. discriminate.
  - split; [discriminate|]. intros [E _]. inversion E; subst. rewrite Qccompare_refl in C. discriminate.
Qed.

Lemma xeq_num_sym a b : xeq_num a b = xeq_num b a.
Proof. unfold xeq_num. apply andb_comm. Qed.

Lemma xeq_num_refl a : a <> XNaN -> xeq_num a a = true.
Proof. intros N. apply xeq_num_spec. auto. Qed.

Lemma qcabs_opp q : qcabs (- q) = qcabs q.
Proof.
  unfold qcabs. destruct (q ?= 0)%Qc eqn:C.
  - apply Qceq_alt in C. subst. reflexivity.
  - apply Qclt_alt in C. apply Qclt_minus_iff in C. replace (0 + - q)%Qc with (- q)%Qc in C by ring.
    assert (G : ((- q) ?= 0)%Qc = Gt) by (apply Qcgt_alt; exact C). rewrite G. reflexivity.
  - apply Qcgt_alt in C.
    assert (L : ((- q) ?= 0)%Qc = Lt).
    { apply Qclt_alt. apply Qclt_minus_iff. replace (0 + - - q)%Qc with q by ring. exact C. }
    rewrite L. apply Qcopp_involutive.
Qed.

(** with [rtol = 0] closeness is symmetric *)
Lemma xisclose_sym0 atol en a b : xisclose 0%Qc atol en a b = xisclose 0%Qc atol en b a.
Proof.
  unfold xisclose. rewrite (xeq_num_sym a b). f_equal; [f_equal; destruct en, a, b; reflexivity|].
  destruct a as [p| | |], b as [q| | |]; try reflexivity.
  rewrite !Qcmult_0_l. replace (p - q)%Qc with (- (q - p))%Qc by ring. rewrite qcabs_opp. reflexivity.
Qed.

(** * C13_equal_correct, C13_allclose_correct *)
Theorem equal_correct next (t u : pt) b :
  compare_pre_b next t u = true -> equal_model next t u = Ok b ->
  (b = true <-> shape xval t = shape xval u /\
                forall idx, in_bounds (shape xval t) idx -> denote xval t idx = denote xval u idx /\ denote xval t idx <> XNaN).
Proof.
  intros P H. rewrite (compare_model_correct xeq_num next t u b P H). unfold cellwise.
  split; intros [S A]; (split; [exact S|]); intros idx B; apply xeq_num_spec; apply A; exact B.
Qed.

Theorem allclose_correct rtol atol en next (t u : pt) b :
  compare_pre_b next t u = true -> allclose_model rtol atol en next t u = Ok b ->
  (b = true <-> shape xval t = shape xval u /\
                forall idx, in_bounds (shape xval t) idx -> xisclose rtol atol en (denote xval t idx) (denote xval u idx) = true).
Proof. intros P H. exact (compare_model_correct (xisclose rtol atol en) next t u b P H). Qed.

(** NaN-free tensors: [equal] is equality of the denotations *)
Definition nan_free (t : pt) : Prop := forall idx, in_bounds (shape xval t) idx -> denote xval t idx <> XNaN.

Corollary equal_correct_nanfree next (t u : pt) b : nan_free t ->
  compare_pre_b next t u = true -> equal_model next t u = Ok b ->
  (b = true <-> shape xval t = shape xval u /\
                forall idx, in_bounds (shape xval t) idx -> denote xval t idx = denote xval u idx).
Proof.
  intros NF P H. rewrite (equal_correct next t u b P H). split; intros [S A]; (split; [exact S|]); intros idx B.
  - apply A. exact B.
  - split; [apply A; exact B|apply NF; exact B].
Qed.

(** symmetric *)
Corollary equal_symmetric next (t u : pt) b1 b2 :
  compare_pre_b next t u = true -> compare_pre_b next u t = true ->
  equal_model next t u = Ok b1 -> equal_model next u t = Ok b2 -> b1 = b2.
Proof.
  intros P1 P2 H1 H2.
  pose proof (compare_model_correct xeq_num next t u b1 P1 H1) as C1.
  pose proof (compare_model_correct xeq_num next u t b2 P2 H2) as C2.
  assert (X : cellwise xeq_num t u <-> cellwise xeq_num u t).
  { unfold cellwise. split; intros [S A]; (split; [symmetry; exact S|]); intros idx B; rewrite xeq_num_sym; apply A; congruence. }
  destruct b1, b2; trivial.
  - assert (false = true); [apply C2; apply X; apply C1; reflexivity|discriminate].
  - assert (false = true); [apply C1; apply X; apply C2; reflexivity|discriminate].
Qed.

(** [allclose] with [rtol = 0] is symmetric too (with [rtol > 0] it is not: torch's formula scales by [|other|]) *)
Corollary allclose_symmetric_rtol0 atol en next (t u : pt) b1 b2 :
  compare_pre_b next t u = true -> compare_pre_b next u t = true ->
  allclose_model 0%Qc atol en next t u = Ok b1 -> allclose_model 0%Qc atol en next u t = Ok b2 -> b1 = b2.
Proof.
  intros P1 P2 H1 H2.
  pose proof (compare_model_correct _ next t u b1 P1 H1) as C1.
  pose proof (compare_model_correct _ next u t b2 P2 H2) as C2.
  assert (X : cellwise (xisclose 0%Qc atol en) t u <-> cellwise (xisclose 0%Qc atol en) u t).
  { unfold cellwise. split; intros [S A]; (split; [symmetry; exact S|]); intros idx B; rewrite xisclose_sym0; apply A; congruence. }
  destruct b1, b2; trivial.
  - assert (false = true); [apply C2; apply X; apply C1; reflexivity|discriminate].
  - assert (false = true); [apply C1; apply X; apply C2; reflexivity|discriminate].
Qed.

(** insensitive to representation: whatever denotes the same NaN-free dense tensor is equal *)
Corollary equal_repr_insensitive next (t u : pt) b : nan_free t ->
  shape xval t = shape xval u ->
  (forall idx, in_bounds (shape xval t) idx -> denote xval u idx = denote xval t idx) ->
  compare_pre_b next t u = true -> equal_model next t u = Ok b -> b = true.
Proof.
  intros NF S D P H. apply (equal_correct_nanfree next t u b NF P H). split; [exact S|].
  intros idx B. symmetry. apply D. exact B.
Qed.

(** reflexive (the operands share all their axes: the freshening path) *)
Corollary equal_reflexive next (t : pt) b : nan_free t ->
  compare_pre_b next t t = true -> equal_model next t t = Ok b -> b = true.
Proof. intros NF P H. apply (equal_repr_insensitive next t t b NF eq_refl); auto. Qed.

(** a tensor equals its clone ([clone] / [detach] / [freshen] rename the axes: [pt_freshen]) *)
Corollary equal_clone next next2 (t : pt) b : nan_free t -> wf xval t ->
  let c := fst (pt_freshen xval next2 t) in
  compare_pre_b next t c = true -> equal_model next t c = Ok b -> b = true.
Proof.
  intros NF W c P H. apply (equal_repr_insensitive next t c b NF); trivial.
  - symmetry. apply pt_freshen_shape. exact W.
  - intros idx B. apply pt_freshen_denote; [exact W|].
    apply in_bounds_length in B. unfold shape in B. rewrite map_length in B. exact B.
Qed.

(** * the oracle of the check function: [dspec] (denotation by search) is [denote] *)
Lemma dspec_denote (t : pt) idx : wf xval t -> in_bounds (shape xval t) idx -> dspec t idx = denote xval t idx.
Proof.
  intros W B. unfold dspec.
  destruct (find _ (all_envs (paxes t))) as [pi|] eqn:F.
  - apply find_some in F. destruct F as [Hpi E]. apply nat_list_eqb_eq in E.
    change (evals (env_of pi) (vaxes t)) with (cell_of xval t pi) in E. rewrite <- E.
    rewrite cell_denote by assumption. unfold pget. rewrite pcoords_env_of; [reflexivity|apply (wf_nodup xval t W)|exact Hpi].
  - rewrite unbacked_denote; [reflexivity|exact W|exact B|].
    unfold backedb. destruct (existsb _ (all_envs (paxes t))) eqn:X; [|reflexivity].
    apply existsb_exists in X. destruct X as (pi & Hpi & E). pose proof (find_none _ _ F pi Hpi) as N.
    unfold cell_of in E. unfold nat_list_eqb in E. cbv beta in N. rewrite E in N. discriminate.
Qed.

Theorem dense_pointwise_spec cmp (t u : pt) : wf xval t -> wf xval u ->
  (dense_pointwise cmp t u = true <-> cellwise cmp t u).
Proof.
  intros Wt Wu. unfold dense_pointwise, cellwise. rewrite andb_true_iff, nat_list_eqb_eq, forallb_forall.
  split; intros [S A]; (split; [exact S|]); intros idx B.
  - specialize (A idx (proj2 (all_idx_In _ _) B)). rewrite !dspec_denote in A; trivial. rewrite <- S. exact B.
  - apply all_idx_In in B. rewrite !dspec_denote; trivial; [apply A; exact B|rewrite <- S; exact B].
Qed.

Theorem dense_default_spec cmp (t : pt) : wf xval t ->
  (dense_default cmp t = true <-> forall idx, in_bounds (shape xval t) idx -> cmp (denote xval t idx) (default t) = true).
Proof.
  intros W. unfold dense_default. rewrite forallb_forall. split; intros A idx B.
  - specialize (A idx (proj2 (all_idx_In _ _) B)). rewrite dspec_denote in A; trivial.
  - apply all_idx_In in B. rewrite dspec_denote; trivial. apply A. exact B.
Qed.

(** what verdict 0 of the check function means for [equal] / [allclose] (modes 0, 1):
    the implementation's answer is the truth about the two denoted dense tensors *)
Theorem c13_check_sound mode rtol atol en wt wu impl :
  mode < 2 -> c13_check (mode, rtol, atol, en, wt, wu, impl) = 0 \/ c13_check (mode, rtol, atol, en, wt, wu, impl) = 30 ->
  wire_ok wt = true /\ wire_ok wu = true /\ (impl = 0 \/ impl = 1) /\
  (impl = 1 <-> cellwise (spec_cmp mode (Q2Qc rtol) (Q2Qc atol) en) (of_wire wt) (of_wire wu)).
Proof.
  intros M H. unfold c13_check in H.
  destruct (wire_ok wt) eqn:Ot; [|destruct H; discriminate]. destruct (wire_ok wu) eqn:Ou; [|destruct H; discriminate].
  cbn [andb negb] in H.
  assert (Wt : wf xval (of_wire wt)).
  { destruct wt as [[[ps vs] d] flat]. unfold wire_ok in Ot. apply andb_true_iff in Ot. destruct Ot as [_ Ot].
    eapply repr_inv_wf. exact Ot. }
  assert (Wu : wf xval (of_wire wu)).
  { destruct wu as [[[ps vs] d] flat]. unfold wire_ok in Ou. apply andb_true_iff in Ou. destruct Ou as [_ Ou].
    eapply repr_inv_wf. exact Ou. }
  apply Nat.ltb_lt in M. rewrite M in H.
  pose proof (dense_pointwise_spec (spec_cmp mode (Q2Qc rtol) (Q2Qc atol) en) _ _ Wt Wu) as Sp.
  split; [reflexivity|]. split; [reflexivity|].
  destruct (dense_pointwise _ (of_wire wt) (of_wire wu)) eqn:D.
  - destruct impl as [|[|impl]]; cbn in H; try (destruct H; discriminate).
    split; [right; reflexivity|]. split; [intros _; apply Sp; reflexivity|reflexivity].
  - destruct impl as [|[|impl]]; cbn in H; try (destruct H; discriminate).
    split; [left; reflexivity|]. split; [discriminate|]. intros C. apply Sp in C. discriminate.
Qed.
