(** Cliques and tree decompositions (for every simple undirected graph):
    - every clique lies in some bag of every valid tree decomposition (Helly property), hence
      |K| - 1 <= treewidth;
    - a clique can be eliminated last: if K is a clique and some vertex is outside K, then some
      vertex v outside K satisfies max(deg v, tw(eliminate v)) <= tw(g).  This is what makes
      quickbb's rule "branch only over vertices that are not neighbours of the vertex
      eliminated just before" complete (those neighbours form a clique). *)
From Coq Require Import List Arith Bool PeanoNat Lia Permutation Setoid Morphisms.
Import ListNotations.
Require Import Fggs.Model.TreeDec Fggs.Proofs.TreeDec_graph Fggs.Proofs.TreeDec_tdok
               Fggs.Proofs.TreeDec_elim Fggs.Proofs.TreeDec_qbb Fggs.Proofs.TreeDec_tw
               Fggs.Proofs.TreeDec_complete Fggs.Proofs.TreeDec_lower.

(** a vertex of a leaf bag that is not in the neighbour bag occurs in no other bag, and all its
    neighbours are in the leaf bag *)
Lemma ntd_private g nb es l e B Pb v :
  wf_graph g -> valid_ntd g nb es -> In (l, B) nb ->
  filter (incident l) es = [e] -> In (other_end l e, Pb) nb -> In v B -> ~ In v Pb ->
  (forall a, nholds nb v a -> a = l) /\ incl (nbrs g v) B.
Proof.
  intros W V HB F HP HvB HvP.
  pose proof (nv_tree g nb es V) as T. pose proof (tree_on_NoDup _ _ T) as Nd.
  assert (Only : forall a, nholds nb v a -> a = l).
  { intros a Ha. assert (Hl : nholds nb v l) by (exists B; auto).
    pose proof (nv_run g nb es V v l a Hl Ha) as Wk.
    destruct (walk_first _ _ _ Wk) as [E|[c [Hc [_ Hvc]]]]; auto.
    exfalso. rewrite (leaf_unique_edge es l e c F Hc) in Hvc.
    destruct Hvc as [b [H1 H2]]. rewrite (named_inj nb _ b Pb Nd H1 HP) in H2. auto. }
  split; auto.
  intros y Hy. destruct (nv_edge g nb es V v y Hy) as [a [b [H1 [H2 H3]]]].
  assert (a = l) by (apply Only; exists b; auto). subst a.
  now rewrite (named_inj nb l b B Nd H1 HB) in H3.
Qed.

Lemma clique_eliminate g v K : wf_graph g -> clique_of g K -> ~ In v K ->
  clique_of (eliminate_node g v) K.
Proof.
  intros W [K1 K2] Hv. split.
  - intros x Hx. rewrite gverts_eliminate. apply set_remove_In. split; auto. intro; subst; auto.
  - intros x y Hx Hy Hne. apply In_nbrs_eliminate; auto.
    split; [intro; subst; auto|]. split; [intro; subst; auto|]. left. auto.
Qed.

(** * Helly: a clique lies in some bag *)
Lemma ntd_clique_bag n : forall g nb es K,
  length g + length nb <= n -> wf_graph g -> valid_ntd g nb es -> clique_of g K ->
  exists a b, In (a, b) nb /\ incl K b.
Proof.
  induction n as [|n IH]; intros g nb es K Ln W V HK.
  - pose proof (tree_on_nonempty _ _ (nv_tree g nb es V)) as Hne.
    destruct nb; [cbn in Hne; congruence|cbn in Ln; lia].
  - pose proof (nv_tree g nb es V) as T. pose proof (tree_on_NoDup _ _ T) as Nd.
    pose proof (tree_on_nonempty _ _ T) as Hne.
    destruct (le_lt_dec 2 (length nb)) as [L2|L1].
    + assert (L2' : 2 <= length (map fst nb)) by now rewrite map_length.
      destruct (exists_leaf _ _ T L2') as [l [Hl Hle]].
      destruct (filter (incident l) es) as [|e [|e2 r]] eqn:F; try (cbn in Hle; lia).
      destruct (leaf_removal _ _ T l e Hl L2' F) as [Hpl [Hp T']].
      apply in_map_iff in Hl. destruct Hl as [[l0 B] [El HB]]. cbn in El. subst l0.
      apply in_map_iff in Hp. destruct Hp as [[p1 Pb] [Ep HP]]. cbn in Ep. subst p1.
      destruct (incl_dec_find B Pb) as [Hsub|[v [HvB HvP]]].
      * pose proof (ntd_delete_leaf g nb es l e B Pb V HB L2 F HP Hsub) as V'.
        set (nb' := filter (fun q => negb (fst q =? l)) nb) in *.
        assert (Len : S (length nb') = length nb).
        { rewrite <- (map_length fst nb'), <- (map_length fst nb). unfold nb'.
          rewrite map_fst_filter_name. apply set_remove_length; auto.
          change l with (fst (l, B)). now apply in_map. }
        destruct (IH g nb' _ K ltac:(lia) W V' HK) as [a [b [Hab Hi]]].
        exists a, b. split; auto. unfold nb' in Hab. apply filter_In in Hab. tauto.
      * destruct (ntd_private g nb es l e B Pb v W V HB F HP HvB HvP) as [Only Nv].
        destruct (in_dec Nat.eq_dec v K) as [HvK|HvK].
        -- exists l, B. split; auto. intros x Hx. destruct (Nat.eq_dec x v) as [->|Hxv]; auto.
           apply Nv. destruct HK as [_ K2]. apply (K2 v x); auto.
        -- destruct (ntd_eliminate g nb es l e B Pb v W V HB L2 F HP HvB HvP) as [_ V'].
           assert (Hv : In v (gverts g)) by exact (nv_sub g nb es V l B v HB HvB).
           pose proof (length_eliminate g v (wf_keys g W) Hv) as Le.
           assert (Ls : length (strip l v nb) = length nb) by (unfold strip; apply map_length).
           destruct (IH (eliminate_node g v) (strip l v nb) es K ltac:(lia) (wf_eliminate g v W) V'
                        (clique_eliminate g v K W HK HvK)) as [a [b' [Hab Hi]]].
           apply In_strip in Hab. destruct Hab as [b [Hb ->]]. exists a, b. split; auto.
           intros x Hx. specialize (Hi x Hx). destruct (a =? l); auto.
           apply set_remove_In in Hi. tauto.
    + destruct nb as [|[a b] [|q nb]]; [cbn in Hne; congruence| |cbn in L1; lia].
      exists a, b. split; [cbn; auto|]. intros x Hx. destruct HK as [K1 _].
      destruct (nv_vertex g _ es V x (K1 x Hx)) as [a' [b' [[E|[]] H2]]]. inversion E; subst. auto.
Qed.

Lemma nmax_width t : nmax (combine (seq 0 (length (fst t))) (fst t)) = max_bag t.
Proof.
  unfold nmax, max_bag. rewrite <- (map_map snd (@length nat)). now rewrite map_snd_combine_seq.
Qed.

Theorem clique_in_bag g t K : wf_graph g -> valid_td g t -> clique_of g K ->
  exists b, In b (fst t) /\ incl K b.
Proof.
  intros W V HK. pose proof (valid_td_ntd g t V) as Vn.
  destruct (ntd_clique_bag _ g _ _ K (le_n _) W Vn HK) as [a [b [Hab Hi]]].
  exists b. split; auto. apply in_combine_r in Hab. exact Hab.
Qed.

Lemma max_len_In (bs : list bag) (b : bag) :
  In b bs -> length b <= fold_right Nat.max 0 (map (@length nat) bs).
Proof.
  induction bs as [|c l IH]; cbn [map fold_right In]; intro H; [destruct H|].
  destruct H as [E|H]; [subst c; lia|]. specialize (IH H). lia.
Qed.
Lemma max_bag_In t b : In b (fst t) -> length b <= max_bag t.
Proof. apply max_len_In. Qed.

(** |K| - 1 <= treewidth *)
Theorem clique_lower_bound g K : wf_graph g -> clique_of g K -> NoDup K ->
  pred (length K) <= tw_perm g.
Proof.
  intros W HK Nd. destruct (tw_perm_decomposition g W) as [t [V Wd]].
  destruct (clique_in_bag g t K W V HK) as [b [Hb Hi]].
  pose proof (NoDup_incl_length Nd Hi). pose proof (max_bag_In t b Hb).
  rewrite <- Wd. unfold width. lia.
Qed.

(** * a tree with at least two nodes has two leaves *)
Lemma two_leaves ns es : tree_on ns es -> 2 <= length ns ->
  exists l1 l2, l1 <> l2 /\ In l1 ns /\ In l2 ns /\
                length (filter (incident l1) es) = 1 /\ length (filter (incident l2) es) = 1.
Proof.
  induction 1 as [v0|ns0 es0 w x e0 ns' es' T0 IH Hx Hw He Pn Pe]; intro L; [cbn in L; lia|].
  assert (Hxw : x <> w) by (intro; subst; auto).
  assert (Hin : forall y, In y (w :: ns0) -> In y ns').
  { intros y Hy. eapply Permutation_in; [apply Permutation_sym; exact Pn|exact Hy]. }
  assert (Cnt : forall l, length (filter (incident l) es') = length (filter (incident l) (e0 :: es0))).
  { intro l. apply Permutation_length, perm_filter, Pe. }
  assert (Lw : length (filter (incident w) es') = 1).
  { rewrite Cnt. cbn [filter]. rewrite (leaf_edge_incident x w e0 He).
    rewrite (filter_none (incident w) es0 (tree_no_incident _ _ w T0 Hw)). reflexivity. }
  assert (Other : forall l, In l ns0 -> l <> x -> length (filter (incident l) es0) = 1 ->
                            length (filter (incident l) es') = 1).
  { intros l Hl Hlx Hc. rewrite Cnt. cbn [filter].
    assert (incident l e0 = false) as ->.
    { apply not_true_is_false. intro H. apply (leaf_edge_incident_iff x w e0 l He) in H.
      destruct H as [->| ->]; auto. }
    exact Hc. }
  destruct (le_lt_dec 2 (length ns0)) as [L0|L0].
  - destruct (IH L0) as [l1 [l2 [Hne [H1 [H2 [C1 C2]]]]]].
    destruct (Nat.eq_dec l1 x) as [E1|E1].
    + exists w, l2. split; [intro; subst; auto|]. split; [apply Hin; cbn; auto|].
      split; [apply Hin; cbn; auto|]. split; auto. apply Other; auto. congruence.
    + exists w, l1. split; [intro; subst; auto|]. split; [apply Hin; cbn; auto|].
      split; [apply Hin; cbn; auto|]. split; auto.
  - (* the smaller tree is the single node x *)
    destruct ns0 as [|a [|b r]]; [destruct Hx| |cbn in L0; lia].
    destruct Hx as [->|[]]. pose proof (tree_on_length _ _ T0) as Le. cbn in Le.
    destruct es0; [|cbn in Le; lia].
    exists w, x. split; auto. split; [apply Hin; cbn; auto|]. split; [apply Hin; cbn; auto|].
    split; auto. rewrite Cnt. cbn [filter].
    assert (incident x e0 = true) as -> by (apply (leaf_edge_incident_iff x w e0 x He); auto).
    reflexivity.
Qed.

(** * a clique can be eliminated last *)
Lemma ntd_clique_last n : forall g nb es K r Br,
  length nb <= n -> wf_graph g -> valid_ntd g nb es -> In (r, Br) nb -> incl K Br ->
  (exists x, In x (gverts g) /\ ~ In x K) ->
  exists v, In v (gverts g) /\ ~ In v K /\
            Nat.max (deg g v) (tw_perm (eliminate_node g v)) <= pred (nmax nb).
Proof.
  induction n as [|n IH]; intros g nb es K r Br Ln W V Hr HK Hout.
  - destruct nb; [destruct Hr|cbn in Ln; lia].
  - pose proof (nv_tree g nb es V) as T. pose proof (tree_on_NoDup _ _ T) as Nd.
    destruct (le_lt_dec 2 (length nb)) as [L2|L1].
    + assert (L2' : 2 <= length (map fst nb)) by now rewrite map_length.
      destruct (two_leaves _ _ T L2') as [l1 [l2 [Hne [H1 [H2 [C1 C2]]]]]].
      assert (exists l, l <> r /\ In l (map fst nb) /\ length (filter (incident l) es) = 1) as [l [Hlr [Hl Hle]]].
      { destruct (Nat.eq_dec l1 r) as [E|E]; [exists l2|exists l1]; repeat split; auto. congruence. }
      destruct (filter (incident l) es) as [|e [|e2 r0]] eqn:F; try (cbn in Hle; lia).
      destruct (leaf_removal _ _ T l e Hl L2' F) as [Hpl [Hp T']].
      apply in_map_iff in Hl. destruct Hl as [[l0 B] [El HB]]. cbn in El. subst l0.
      apply in_map_iff in Hp. destruct Hp as [[p1 Pb] [Ep HP]]. cbn in Ep. subst p1.
      destruct (incl_dec_find B Pb) as [Hsub|[v [HvB HvP]]].
      * pose proof (ntd_delete_leaf g nb es l e B Pb V HB L2 F HP Hsub) as V'.
        set (nb' := filter (fun q => negb (fst q =? l)) nb) in *.
        assert (Len : S (length nb') = length nb).
        { rewrite <- (map_length fst nb'), <- (map_length fst nb). unfold nb'.
          rewrite map_fst_filter_name. apply set_remove_length; auto.
          change l with (fst (l, B)). now apply in_map. }
        assert (Hm : nmax nb' <= nmax nb).
        { apply nmax_le. intros a b H. unfold nb' in H. apply filter_In in H. exists b. split; [tauto|lia]. }
        assert (Hr' : In (r, Br) nb').
        { unfold nb'. apply filter_In. split; auto. cbn. apply negb_true_iff, Nat.eqb_neq. auto. }
        destruct (IH g nb' _ K r Br ltac:(lia) W V' Hr' HK Hout) as [v [Hv1 [Hv2 Hv3]]].
        exists v. split; auto. split; auto. lia.
      * destruct (ntd_private g nb es l e B Pb v W V HB F HP HvB HvP) as [Only Nv].
        destruct (ntd_eliminate g nb es l e B Pb v W V HB L2 F HP HvB HvP) as [Hd V'].
        assert (Hv : In v (gverts g)) by exact (nv_sub g nb es V l B v HB HvB).
        assert (HvK : ~ In v K).
        { intro H. apply Hlr. symmetry. apply Only. exists Br. split; auto. }
        assert (Hm : nmax (strip l v nb) <= nmax nb).
        { apply nmax_le. intros a b' H. apply In_strip in H. destruct H as [b [H ->]]. exists b. split; auto.
          destruct (a =? l); auto. unfold set_remove. apply filter_len_le. }
        pose proof (ntd_width_lower_bound _ (eliminate_node g v) (strip l v nb) es (le_n _)
                      (wf_eliminate g v W) V') as Hw.
        pose proof (nmax_In nb l B HB).
        exists v. split; auto. split; auto. lia.
    + pose proof (tree_on_nonempty _ _ T) as Hne.
      destruct nb as [|[a b] [|q nb]]; [destruct Hr| |cbn in L1; lia].
      destruct Hout as [x [Hx HxK]].
      assert (Hall : incl (gverts g) b).
      { intros y Hy. destruct (nv_vertex g _ es V y Hy) as [a' [b' [[E|[]] H2]]]. inversion E; subst. auto. }
      apply NoDup_incl_length in Hall; [|apply W]. unfold gverts in Hall. rewrite map_length in Hall.
      pose proof (deg_lt_length g x W Hx) as D.
      pose proof (length_eliminate g x (wf_keys g W) Hx) as Le.
      pose proof (wf_eliminate g x W) as W'.
      pose proof (tw_perm_le (eliminate_node g x) (gverts (eliminate_node g x)) (Permutation_refl _)) as H1.
      pose proof (elim_width_bound (gverts (eliminate_node g x)) _ W' (Permutation_refl _)) as H2.
      exists x. split; auto. split; auto. unfold nmax. cbn [map fold_right snd]. lia.
Qed.

Theorem clique_last g K : wf_graph g -> clique_of g K ->
  (exists x, In x (gverts g) /\ ~ In x K) ->
  exists v, In v (gverts g) /\ ~ In v K /\
            Nat.max (deg g v) (tw_perm (eliminate_node g v)) <= tw_perm g.
Proof.
  intros W HK Hout. destruct (tw_perm_decomposition g W) as [t [V Wd]].
  pose proof (valid_td_ntd g t V) as Vn.
  destruct (ntd_clique_bag _ g _ _ K (le_n _) W Vn HK) as [r [Br [Hr Hi]]].
  destruct (ntd_clique_last _ g _ _ K r Br (le_n _) W Vn Hr Hi Hout) as [v [H1 [H2 H3]]].
  exists v. split; auto. split; auto. rewrite nmax_width in H3. unfold width in Wd. lia.
Qed.
