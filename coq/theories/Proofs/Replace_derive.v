(** derive(): the recursive depth-first [visit] is the run of the generic stepper along the
    preorder linearisation. *)
From Coq Require Import List Arith Bool PeanoNat Lia Permutation.
Import ListNotations.
Require Import Fggs.Model.Replace Fggs.Proofs.Replace_base Fggs.Proofs.Replace_wf Fggs.Proofs.Replace_explicit
  Fggs.Proofs.Replace_spec Fggs.Proofs.Replace_model_spec Fggs.Proofs.Replace_inv Fggs.Proofs.Replace_step
  Fggs.Proofs.Replace_nodup Fggs.Proofs.Replace_confl.

Definition visit_children (em : emap) :=
  fix go (cs : list (edge * dtree)) (s : dstate) : dstate * option err :=
    match cs with
    | [] => (s, None)
    | (k, c) :: cs =>
      match aget edge_eqb em k with
      | None => (s, Some KeyErr)
      | Some e' => match visit c e' s with
                   | (s', Some x) => (s', Some x)
                   | (s', None) => go cs s'
                   end
      end
    end.

Lemma visit_unfold : forall r a cs e s,
  visit (DT r a cs) e s =
  match replace_edge_model (ds_graph s) (ds_next s) e (r_rhs r) with
  | (g', n', Err k) => (mkDS g' n' (ds_asst s), Some k)
  | (g', n', Ok (nm, em)) =>
    match assign_nodes nm a (g_nodes (r_rhs r)) (ds_asst s) with
    | (as', Some k) => (mkDS g' n' as', Some k)
    | (as', None) => visit_children em cs (mkDS g' n' as')
    end
  end.
Proof. intros. reflexivity. Qed.

Lemma run_app : forall l1 l2 s, run (l1 ++ l2) s = match run l1 s with Ok s' => run l2 s' | Err k => Err k end.
Proof.
  induction l1; simpl; intros; auto. destruct (step a s); auto.
Qed.

Definition proj (s : rstate) : dstate := mkDS (rs_graph s) (rs_next s) (rs_asst s).

Lemma split_task_head : forall p e t rest, split_task p (mkTask p e t :: rest) = Some ([], mkTask p e t, rest).
Proof.
  intros. simpl. assert (list_eqb id_eqb p p = true) by (apply path_eqb_eq; auto). rewrite H. reflexivity.
Qed.

Section VisitRun.
  Variable L : list elabel.
  Hypothesis HF : functional L.

  Lemma visit_run : forall t p e rest g n a nn en,
    Inv L (mkRS g n a (mkTask p e t :: rest) nn en) ->
    exists rs', run (preorder p t) (mkRS g n a (mkTask p e t :: rest) nn en) = Ok rs' /\
                rs_pending rs' = rest /\ Inv L rs' /\
                visit t e (mkDS g n a) = (proj rs', None).
  Proof.
    induction t as [r a0 cs IH] using dtree_ind'. intros p e rest g n a nn en HI.
    set (rs := mkRS g n a (mkTask p e (DT r a0 cs) :: rest) nn en) in *.
    pose proof (split_task_head p e (DT r a0 cs) rest) as HS.
    change (mkTask p e (DT r a0 cs) :: rest) with (rs_pending rs) in HS.
    destruct (step_explicit L HF rs p [] rest (mkTask p e (DT r a0 cs)) r a0 cs HI HS eq_refl) as [as' [Has Hst]].
    pose proof (s_next_inv L HF rs p [] rest (mkTask p e (DT r a0 cs)) r a0 cs HI HS eq_refl as') as HI'.
    cbn [preorder run]. rewrite Hst.
    rewrite visit_unfold. cbn [ds_graph ds_next ds_asst].
    pose proof (step_guard L HF rs p [] rest (mkTask p e (DT r a0 cs)) r a0 cs HI HS eq_refl) as GD.
    cbn [rs tk_edge rs_graph rs_next] in GD.
    rewrite (replace_explicit L _ _ _ _ GD).
    cbn [rs tk_edge rs_graph rs_next rs_asst] in Has. rewrite Has.
    (* the loop over the children *)
    unfold s_next in *. cbn [rs rs_graph rs_next rs_nnames rs_enames tk_edge tk_path app] in *.
    set (em := r_em n e (r_rhs r)) in *.
    set (g' := r_graph g n e (r_rhs r)) in *. set (n' := r_next n (r_rhs r)) in *.
    assert (KEYS : forall kc, In kc cs -> aget edge_eqb em (fst kc) = Some (ecopy em (fst kc))).
    { intros kc Hkc.
      pose proof (keys_in L rs p [] rest (mkTask p e (DT r a0 cs)) r a0 cs HI HS eq_refl kc Hkc) as Hk.
      cbn [r_rhs] in Hk.
      destruct (aget_In_key edge_eqb edge_eqb_eq em (fst kc)) as [x Hx].
      - unfold em, r_em. rewrite combine_keys; auto. unfold r_es. rewrite ecopies_length; auto.
      - unfold ecopy. rewrite Hx. auto. }
    clear HS Hst Has GD HI.
    revert HI'. generalize (nn ++ new_nnames p (r_rhs r) (r_nm n e (r_rhs r))) as nn1.
    generalize (filter (fun x : edge * name => negb (id_eqb (e_id (fst x)) (e_id e))) en ++ new_enames p em) as en1.
    generalize as' as a1. generalize g' as g1. generalize n' as n1. clear g' n'.
    assert (SUB : incl cs cs) by apply incl_refl. revert SUB.
    generalize cs at 1 3 4 5 6 as cs2.
    induction cs2 as [|[k c] cs2 IHcs]; intros SUB n1 g1 a1 en1 nn1 HI1.
    - cbn [map app flat_map run visit_children]. eexists. split; [reflexivity|]. split; [reflexivity|]. split; auto.
    - cbn [map app flat_map visit_children fst snd] in *.
      pose proof (KEYS (k, c) (SUB _ (or_introl eq_refl))) as Kk. cbn [fst] in Kk. rewrite Kk.
      destruct (IH k c (SUB _ (or_introl eq_refl)) (p ++ [e_id k]) (ecopy em k)
                   (map (fun kc => mkTask (p ++ [e_id (fst kc)]) (ecopy em (fst kc)) (snd kc)) cs2 ++ rest)
                   g1 n1 a1 nn1 en1 HI1) as [rs1 [R1 [P1 [I1 V1]]]].
      rewrite run_app, R1, V1.
      destruct rs1 as [g2 n2 a2 pend2 nn2 en2]. cbn [rs_pending] in P1. subst pend2.
      destruct (IHcs (fun x Hx => SUB x (or_intror Hx)) n2 g2 a2 en2 nn2 I1) as [rs2 [R2 [P2 [I2 V2]]]].
      exists rs2. split; [|split; [|split]]; auto.
  Qed.
End VisitRun.

Theorem derive_is_preorder_run : forall L t nx,
  wf_dtreeb L t = true -> functionalb L = true ->
  exists rs, run (preorder [] t) (init_state t nx) = Ok rs /\ rs_pending rs = [] /\ Inv L rs /\
             derive_model t nx = (proj rs, None).
Proof.
  intros L t nx HW HFb. apply functionalb_iff in HFb.
  pose proof (init_inv L t nx HW) as HI. rewrite init_explicit in *.
  destruct (visit_run L HFb t [] _ [] _ _ _ _ _ HI) as [rs [R [P [I V]]]].
  exists rs. split; [|split; [|split]]; auto.
  unfold derive_model. rewrite start_graph_explicit. exact V.
Qed.
