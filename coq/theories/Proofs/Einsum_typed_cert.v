(** C07 on typed operands, part 5: the certificate of Model/EinsumCert.v holds for every run of the
    model on typed operands.  From the invariant of the unification loop ([einv],
    Proofs/Einsum_typed_loop.v) -- the final substitution is well typed and acyclic in a context that
    types every axis of every operand, and every coincidence of the co-indexed axes extends to an
    environment satisfying the substitution -- each of [cert_operands], [cert_subst], [cert_views],
    [cert_complete] is derived. *)
From Coq Require Import List Arith Lia PeanoNat Bool PArith.
Import ListNotations.
Require Import Fggs.Model.Semiring Fggs.Model.SumProduct.
Require Import Fggs.Model.Axis Fggs.Model.AxisCheck Fggs.Model.PTensor Fggs.Model.Einsum Fggs.Model.EinsumCheck Fggs.Model.EinsumCert.
Require Import Fggs.Proofs.Axis_sem Fggs.Proofs.Axis_unify Fggs.Proofs.Axis_complete_gen Fggs.Proofs.Axis_repr.
Require Import Fggs.Proofs.Axis_typed Fggs.Proofs.Axis_total Fggs.Proofs.Axis_rank Fggs.Proofs.Axis_stride_typed Fggs.Proofs.Axis_stride_total.
Require Import Fggs.Proofs.PTensor_sem Fggs.Proofs.PTensor_dense Fggs.Proofs.PTEqual_typed.
Require Import Fggs.Proofs.Einsum_dense Fggs.Proofs.Einsum_envs Fggs.Proofs.Einsum_support Fggs.Proofs.Einsum_form.
Require Import Fggs.Proofs.Einsum_views Fggs.Proofs.Einsum_reduce Fggs.Proofs.Einsum_subst Fggs.Proofs.Einsum_loop.
Require Import Fggs.Proofs.Einsum_project Fggs.Proofs.Einsum_reindex Fggs.Proofs.Einsum_main.
Require Import Fggs.Proofs.Einsum_typed_base Fggs.Proofs.Einsum_typed_prep Fggs.Proofs.Einsum_typed_loop Fggs.Proofs.Einsum_typed_views.

Lemma Forall2_In_l {A B} (P : A -> B -> Prop) l l' a : Forall2 P l l' -> In a l -> exists b, In b l' /\ P a b.
Proof.
  induction 1 as [|x y l l' Hxy _ IH]; intros H; [contradiction|]. destruct H as [<-|H].
  - exists y. split; [left; reflexivity|exact Hxy].
  - destruct (IH H) as (b & Hb & Pb). exists b. split; [right; exact Hb|exact Pb].
Qed.

Lemma Forall2_In_r {A B} (P : A -> B -> Prop) l l' b : Forall2 P l l' -> In b l' -> exists a, In a l /\ P a b.
Proof.
  induction 1 as [|x y l l' Hxy _ IH]; intros H; [contradiction|]. destruct H as [<-|H].
  - exists x. split; [left; reflexivity|exact Hxy].
  - destruct (IH H) as (a & Ha & Pa). exists a. split; [right; exact Ha|exact Pa].
Qed.

Lemma Forall2_imp {A B} (P Q : A -> B -> Prop) l l' : (forall a b, P a b -> Q a b) -> Forall2 P l l' -> Forall2 Q l l'.
Proof. intros H. induction 1; constructor; auto. Qed.

Lemma lassoc_nodup {A} l (e : A) (i2v : list (nat * A)) : NoDup (map fst i2v) -> In (l, e) i2v -> lassoc l i2v = Some e.
Proof.
  induction i2v as [|[l' e'] i2v IH]; intros N H; [contradiction|]. simpl in N. inversion N as [|? ? Hl N']; subst. simpl.
  destruct H as [H|H].
  - inversion H; subst. rewrite Nat.eqb_refl. reflexivity.
  - destruct (Nat.eqb_spec l' l) as [->|_]; [|apply IH; assumption]. exfalso. apply Hl. apply in_map_iff. exists (l, e). auto.
Qed.

Lemma restrict_env_of (V : list pn) q : NoDup (map fst V) -> In q (all_envs V) -> restrict (env_of q) V = q.
Proof.
  intros ND Hq. apply (envs_eq V); [|exact Hq|exact ND|].
  - apply all_envs_complete. intros k n Hk. exact (env_of_in_range V q ND Hq k n Hk).
  - intros k Hk. apply restrict_env. exact Hk.
Qed.

Section Cert.
Context {R : Type} (o : sr_ops R).
Variable veqb : R -> R -> bool.
Hypothesis Hveqb : forall a b, veqb a b = true -> a = b.
Notation r0 := (Semiring.zero o).
Hypothesis Hrefl : veqb r0 r0 = true.
Variable lty : nat -> list ity.
Hypothesis Hlty : forall l, gprimes (lty l).
Variable nx1 : positive.

Variables (r : erun (R:=R)) (inputs : list (list nat)) (output : list nat).
Variables (G : ctx) (s : lstate).
Hypothesis E : einv lty nx1 r0 G s (er_ts r) inputs.
Hypothesis Esig : er_sigma r = us_subst (ls_u s).
Hypothesis Ei2v : er_i2v r = ls_i2v s.
Hypothesis E2 : mapM (fun l => match lassoc l (er_i2v r) with
                               | Some e => clone (sfuel (er_sigma r) [e]) (er_sigma r) e
                               | None => Fail OtherError end) output = Ok (er_outv r).

Local Notation ts := (map st_pt (er_ts r)).
Local Notation sigma := (er_sigma r).
Local Notation i2v := (er_i2v r).
Local Notation occ := (occurrences (map st_pt (er_ts r)) inputs).
Local Notation V := (all_vars (map st_pt (er_ts r))).
Local Notation F := (cert_fuel (er_sigma r)).

Lemma c_dinv : dinv lty nx1 G s occ.
Proof. exact (ei_d _ _ _ _ _ _ _ E). Qed.

Lemma c_wts : wts G sigma.
Proof. rewrite Esig. exact (ts_wts _ _ (di_t _ _ _ _ _ c_dinv)). Qed.

Lemma c_good : ctx_good G.
Proof. exact (ts_good _ _ (di_t _ _ _ _ _ c_dinv)). Qed.

Lemma ops_map (l : list (stensor (R:=R))) inps : Forall2 (op_typed lty G) l inps ->
  Forall2 (fun t inp => wf R t /\ tys G (vaxes t) (map lty inp)) (map st_pt l) inps.
Proof. induction 1 as [|t inp l l' (Wt & Tt & _) _ IH]; simpl; constructor; [split; assumption|exact IH]. Qed.

Lemma c_ops : Forall2 (fun t inp => wf R t /\ tys G (vaxes t) (map lty inp)) ts inputs.
Proof. apply ops_map. exact (ei_ops _ _ _ _ _ _ _ E). Qed.

Lemma c_op t : In t ts -> wf R t /\ exists inp, tys G (vaxes t) (map lty inp).
Proof. intros H. destruct (Forall2_In_l _ _ _ _ c_ops H) as (inp & _ & Wt & Tt). split; [exact Wt|exists inp; exact Tt]. Qed.

Lemma c_V_szok kn : In kn V -> szok G kn.
Proof.
  intros H. unfold all_vars in H. apply in_flat_map in H. destruct H as (t & Ht & Hk). destruct (c_op t Ht) as (Wt & inp & Tt).
  destruct kn as [k n]. apply (wf_fv R t Wt) in Hk. destruct (tys_sized G _ _ Tt k n Hk). split; assumption.
Qed.

Lemma c_occ l e : In (l, e) occ -> ty G e (lty l) /\ lassoc l i2v <> None.
Proof. intros H. rewrite Ei2v. destruct (di_occ _ _ _ _ _ c_dinv l e H) as (A & B & _). split; assumption. Qed.

Lemma c_occ_V l e kn : In (l, e) occ -> In kn (fvn e) -> In kn V.
Proof.
  intros He Hk. unfold occurrences in He. apply in_flat_map in He. destruct He as ([t inp] & Hti & He). simpl in He.
  apply in_combine_r in He. assert (Ht : In t ts) by (apply in_combine_l in Hti; exact Hti).
  unfold all_vars. apply in_flat_map. exists t. split; [exact Ht|]. destruct kn as [k n].
  apply (wf_fv R t (proj1 (c_op t Ht))). apply in_flat_map. exists e. split; assumption.
Qed.

Lemma c_i2v l e0 : lassoc l i2v = Some e0 -> In (l, e0) occ.
Proof. rewrite Ei2v. exact (di_i2v _ _ _ _ _ c_dinv l e0). Qed.

Lemma c_HC k n : closed sigma (resolve F sigma (Phys k n)) = true.
Proof. exact (resolve_closed_cert_fuel G sigma c_wts k n). Qed.

Lemma c_SZ : Sized sigma.
Proof. exact (wts_Sized G sigma c_wts). Qed.

Lemma c_leaf_szok x n kn : szok G (x, n) -> In kn (fvn (resolve F sigma (Phys x n))) -> szok G kn.
Proof.
  intros Sx. apply (resolve_szok G sigma c_wts). intros kn' [<-|[]]. exact Sx.
Qed.

Lemma c_leaf_unbound x n k m : In (k, m) (fvn (resolve F sigma (Phys x n))) -> assoc k sigma = None.
Proof. exact (proj1 (closed_fvn sigma _) (c_HC x n) k m). Qed.

Lemma c_V_nodup : NoDup (map fst V).
Proof. pose proof (ei_nodup _ _ _ _ _ _ _ E) as N. rewrite (ei_fv _ _ _ _ _ _ _ E) in N. exact N. Qed.

(** * the operands *)
Theorem typed_cert_operands : cert_operands o veqb r inputs output = true.
Proof.
  unfold cert_operands. repeat (apply andb_true_iff; split).
  - apply Nat.eqb_eq. rewrite map_length. exact (ei_len _ _ _ _ _ _ _ E).
  - apply Forall2_forallb_combine. eapply Forall2_imp; [|exact c_ops]. intros t inp [_ Tt].
    cbn [fst snd]. apply Nat.eqb_eq. rewrite (tys_length _ _ _ Tt), map_length. reflexivity.
  - apply forallb_forall. intros t Ht. apply in_map_iff in Ht. destruct Ht as (st & <- & Hst).
    pose proof (ei_dflt _ _ _ _ _ _ _ E) as Dz. rewrite Forall_forall in Dz. rewrite (Dz st Hst). exact Hrefl.
  - apply forallb_forall. intros t Ht. apply wf_repr_inv_b; [exact (proj1 (c_op t Ht))|].
    intros k n Hk. assert (Hv : In (k, n) V) by (unfold all_vars; apply in_flat_map; exists t; split; assumption).
    pose proof (szok_big G k n c_good (c_V_szok _ Hv)). lia.
  - apply NoDup_nodup_pos. exact c_V_nodup.
  - apply forallb_forall. intros l Hl. apply mapM_Forall2 in E2.
    destruct (Forall2_In_l _ _ _ _ E2 Hl) as (c & _ & Hc). destruct (lassoc l i2v); [reflexivity|discriminate].
  - apply forallb_forall. intros [l e] Hle. apply existsb_exists. exists (l, e). split.
    + apply c_i2v. apply lassoc_nodup; [|exact Hle]. rewrite Ei2v, (di_labels _ _ _ _ _ c_dinv). apply dedup_nat_NoDup.
    + cbn [fst snd]. rewrite Nat.eqb_refl, axis_eqb_refl. reflexivity.
  - apply forallb_forall. intros [l e] Hle. cbn [fst snd]. destruct (c_occ l e Hle) as [Te Nn].
    destruct (lassoc l i2v) as [e0|] eqn:E0; [|contradiction]. apply Nat.eqb_eq.
    destruct (c_occ l e0 (c_i2v l e0 E0)) as [Te0 _]. rewrite (ty_numel _ _ _ Te), (ty_numel _ _ _ Te0). reflexivity.
Qed.

(** * the output axes *)
Lemma c_outv c : In c (er_outv r) ->
  exists l e, In l output /\ In (l, e) occ /\ closed sigma c = true /\
              fvn c = lvs sigma F (fvn e).
Proof.
  intros Hc. apply mapM_Forall2 in E2. destruct (Forall2_In_r _ _ _ _ E2 Hc) as (l & Hl & Hcl).
  destruct (lassoc l i2v) as [e|] eqn:El; [|discriminate]. exists l, e. split; [exact Hl|]. split; [exact (c_i2v l e El)|].
  destruct (clone_leaves sigma _ _ _ Hcl) as [Cc Lc]. split; [exact Cc|].
  destruct (resolve_closed_some G sigma c_wts e) as (f & Cf). rewrite (Lc f Cf).
  exact (resolve_leaves sigma F c_HC e f Cf).
Qed.

Lemma c_outv_leaf c kn : In c (er_outv r) -> In kn (fvn c) -> exists x n, In (x, n) V /\ In kn (fvn (resolve F sigma (Phys x n))).
Proof.
  intros Hc Hk. destruct (c_outv c Hc) as (l & e & _ & He & _ & Ef). rewrite Ef in Hk. unfold lvs in Hk.
  apply in_flat_map in Hk. destruct Hk as ([x n] & Hx & Hk). exists x, n. split; [exact (c_occ_V l e _ He Hx)|exact Hk].
Qed.

(** * the normal exit *)
Hypothesis E3 : mapM (project_view sigma) (er_ts r) = Ok (er_views r).

Local Notation views := (er_views r).
Local Notation U := (flat_map (vw_vars (R:=R)) (er_views r)).

Lemma c_views : Forall2 (fun t v => project_view sigma t = Ok v) (er_ts r) views.
Proof. apply mapM_Forall2. exact E3. Qed.

Lemma c_view_vars (t : stensor (R:=R)) v : project_view sigma t = Ok v -> vw_vars v = dedup [] (lvs sigma F (paxes (st_pt t))).
Proof.
  intros H. destruct (project_view_vars sigma t v H) as (strs & vars & _ & Ev & -> & _).
  exact (fv_list_leaves sigma F c_HC _ _ _ Ev).
Qed.

Lemma c_lvs_szok (t : stensor (R:=R)) kn : In t (er_ts r) -> In kn (lvs sigma F (paxes (st_pt t))) -> szok G kn.
Proof.
  intros Ht Hk. unfold lvs in Hk. apply in_flat_map in Hk. destruct Hk as ([x n] & Hx & Hk).
  apply (c_leaf_szok x n kn); [|exact Hk]. apply c_V_szok. unfold all_vars. apply in_flat_map. exists (st_pt t).
  split; [apply in_map; exact Ht|exact Hx].
Qed.

(** every axis of a view is a leaf of a physical axis of an operand ... *)
Lemma c_U_leaf kn : In kn U -> exists x n, In (x, n) V /\ In kn (fvn (resolve F sigma (Phys x n))).
Proof.
  intros H. apply in_flat_map in H. destruct H as (v & Hv & Hk).
  destruct (Forall2_In_r _ _ _ _ c_views Hv) as (t & Ht & Hp). rewrite (c_view_vars t v Hp) in Hk.
  apply dedup_In_sub in Hk. unfold lvs in Hk. apply in_flat_map in Hk. destruct Hk as ([x n] & Hx & Hk).
  exists x, n. split; [|exact Hk]. unfold all_vars. apply in_flat_map. exists (st_pt t). split; [apply in_map; exact Ht|exact Hx].
Qed.

(** ... and conversely *)
Lemma c_leaf_U x n kn : In (x, n) V -> In kn (fvn (resolve F sigma (Phys x n))) -> In kn U.
Proof.
  intros Hx Hk. unfold all_vars in Hx. apply in_flat_map in Hx. destruct Hx as (t0 & Ht0 & Hx).
  apply in_map_iff in Ht0. destruct Ht0 as (t & <- & Ht).
  destruct (Forall2_In_l _ _ _ _ c_views Ht) as (v & Hv & Hp). apply in_flat_map. exists v. split; [exact Hv|].
  rewrite (c_view_vars t v Hp).
  apply (dedup_In_szok (szok G) (szok_unique G)); [intros kn' H'; exact (c_lvs_szok t kn' Ht H')|].
  unfold lvs. apply in_flat_map. exists (x, n). split; [exact Hx|exact Hk].
Qed.

Lemma c_U_szok kn : In kn U -> szok G kn.
Proof. intros H. destruct (c_U_leaf kn H) as (x & n & Hx & Hk). exact (c_leaf_szok x n kn (c_V_szok _ Hx) Hk). Qed.

(** no view has a zero-size dimension *)
Lemma c_no_zero_axis : existsb (fun d : positive * nat * nat => Nat.eqb (snd (fst d)) 0) (flat_map (vw_dims (R:=R)) views) = false.
Proof.
  destruct (existsb _ _) eqn:X; [|reflexivity]. exfalso. apply existsb_exists in X. destruct X as (d & Hd & Z).
  apply Nat.eqb_eq in Z. apply in_flat_map in Hd. destruct Hd as (v & Hv & Hd).
  assert (Hk : In (fst d) U) by (apply in_flat_map; exists v; split; [exact Hv|unfold vw_vars; apply in_map; exact Hd]).
  pose proof (c_U_szok _ Hk) as Sz. destruct (fst d) as [k n]. pose proof (szok_big G k n c_good Sz). simpl in Z. lia.
Qed.

Hypothesis E5 : fv_list (sfuel sigma (er_outv r)) sigma (er_outv r) = Ok (er_outp r).

Local Notation outp := (er_outp r).
Local Notation K := (kvars r).

Lemma c_outp_eq : outp = fvn_list (er_outv r).
Proof. apply (fv_list_closed _ sigma _ _ (fun c Hc => let '(ex_intro _ l (ex_intro _ e (conj _ (conj _ (conj C _))))) := c_outv c Hc in C) E5). Qed.

Lemma c_outp_leaf kn : In kn outp -> exists x n, In (x, n) V /\ In kn (fvn (resolve F sigma (Phys x n))).
Proof.
  rewrite c_outp_eq. unfold fvn_list. intros H. apply dedup_In_sub in H. apply in_flat_map in H. destruct H as (c & Hc & Hk).
  exact (c_outv_leaf c kn Hc Hk).
Qed.

Lemma c_outp_szok kn : In kn outp -> szok G kn.
Proof. intros H. destruct (c_outp_leaf kn H) as (x & n & Hx & Hk). exact (c_leaf_szok x n kn (c_V_szok _ Hx) Hk). Qed.

Lemma c_K_cases kn : In kn K -> In kn outp \/ In kn U.
Proof.
  unfold kvars, summed_vars. intros H. apply in_app_or in H. destruct H as [H|H]; [left; exact H|right].
  apply filter_In in H. destruct H as [H _]. apply dedup_In_sub in H. exact H.
Qed.

Lemma c_K_leaf kn : In kn K -> exists x n, In (x, n) V /\ In kn (fvn (resolve F sigma (Phys x n))).
Proof. intros H. destruct (c_K_cases kn H) as [H'|H']; [exact (c_outp_leaf kn H')|exact (c_U_leaf kn H')]. Qed.

Lemma c_K_szok kn : In kn K -> szok G kn.
Proof. intros H. destruct (c_K_leaf kn H) as (x & n & Hx & Hk). exact (c_leaf_szok x n kn (c_V_szok _ Hx) Hk). Qed.

(** a typed axis of a view is a physical index variable of the result *)
Lemma c_in_K kn : szok G kn -> In (fst kn) (map fst U) -> In kn K.
Proof.
  intros Sz Hk. destruct kn as [k n]. cbn [fst] in Hk. unfold kvars, summed_vars. apply in_or_app.
  destruct (pmem k outp) eqn:Po.
  - left. apply pmem_In in Po. apply in_map_iff in Po. destruct Po as ([k' n'] & Ek & Hin). simpl in Ek. subst k'.
    rewrite (szok_unique G k n n' Sz (c_outp_szok _ Hin)). exact Hin.
  - right. apply filter_In. split; [|cbn [fst]; rewrite Po; reflexivity].
    apply in_map_iff in Hk. destruct Hk as ([k' n'] & Ek & Hin). simpl in Ek. subst k'.
    rewrite (szok_unique G k n n' Sz (c_U_szok _ Hin)).
    apply (dedup_In_szok (szok G) (szok_unique G)); [exact c_U_szok|exact Hin].
Qed.

Lemma c_K_nodup : NoDup (map fst K).
Proof.
  unfold kvars, summed_vars. rewrite map_app. apply NoDup_app_intro.
  - exact (fv_list_keys_NoDup _ _ _ _ E5).
  - apply NoDup_map_filter. apply dedup_keys_NoDup.
  - intros k H1 H2. apply in_map_iff in H2. destruct H2 as ([k' n'] & Ek & Hin). simpl in Ek. subst k'.
    apply filter_In in Hin. destruct Hin as [_ Hf]. cbn [fst] in Hf. apply negb_true_iff in Hf.
    apply pmem_In in H1. congruence.
Qed.

(** * the substitution *)
Theorem typed_cert_subst : cert_subst r = true.
Proof.
  unfold cert_subst. repeat (apply andb_true_iff; split).
  - apply forallb_forall. intros t Ht. apply forallb_forall. intros e He. rewrite pos_sizes_b_eq.
    destruct (c_op t Ht) as (_ & inp & Tt).
    assert (Te : exists ps, ty G e ps /\ gprimes ps).
    { pose proof (lty_all lty Hlty inp) as Gp. clear -Tt He Gp. induction Tt as [|e0 es ps pss He0 _ IH]; [contradiction|].
      inversion Gp; subst. destruct He as [<-|He]; [eauto|auto]. }
    destruct Te as (ps & Te & Gp). exact (ty_pos G e ps c_good Te Gp).
  - apply NoDup_nodup_pos. exact (wts_nodup _ _ c_wts).
  - apply forallb_forall. intros [k e] _. exact (c_HC k 0).
  - apply forallb_forall. intros [k e] Hk. exact (c_SZ k e Hk).
  - apply forallb_forall. intros a Ha. unfold phys_axes in Ha. apply in_map_iff in Ha. destruct Ha as ([x n] & <- & Hx).
    apply (typed_sized G sigma c_wts). intros kn [<-|[]]. exact (c_V_szok _ Hx).
  - apply NoDup_nodup_pos. exact c_K_nodup.
  - apply forallb_forall. intros [k n] Hk. apply unbound_assoc. destruct (c_K_leaf _ Hk) as (x & m & _ & Hl).
    exact (c_leaf_unbound x m k n Hl).
  - apply forallb_forall. intros a Ha. apply in_map_iff in Ha. destruct Ha as (a0 & <- & Ha0).
    unfold phys_axes in Ha0. apply in_map_iff in Ha0. destruct Ha0 as ([x n] & <- & Hx). cbn [fst snd].
    apply forallb_forall. intros kn Hkn. apply pn_mem_In. apply c_in_K.
    + exact (c_leaf_szok x n kn (c_V_szok _ Hx) Hkn).
    + apply in_map. exact (c_leaf_U x n kn Hx Hkn).
  - apply forallb_forall. intros [k n] Hk. cbn [fst]. apply existsb_pos_true.
    destruct (c_K_leaf _ Hk) as (x & m & Hx & Hl). apply in_flat_map. exists (resolve F sigma (Phys x m)). split.
    + apply in_map. unfold phys_axes. apply in_map_iff. exists (x, m). auto.
    + rewrite fv_fvn. apply in_map_iff. exists (k, n). auto.
Qed.

(** * the views *)
Lemma c_view_ok (t : stensor (R:=R)) v : In t (er_ts r) -> project_view sigma t = Ok v ->
  match mapM (stride (sfuel sigma (phys_axes (paxes (st_pt t)))) sigma) (phys_axes (paxes (st_pt t))) with
  | Ok strs => forallb (fun os : nat * lin => forallb (fun kc : positive * nat => EinsumCert.unbound sigma (fst kc) && key_mem (fst kc) (vw_vars v)) (snd os)) strs
  | Fail _ => false
  end && nodup_pos (map fst (vw_vars v)) = true.
Proof.
  intros Ht Hp. pose proof (c_view_vars t v Hp) as Ev.
  destruct (project_view_vars sigma t v Hp) as (strs & vars & Es & _ & _ & _). rewrite Es. apply andb_true_iff. split.
  - apply forallb_forall. intros [o0 s0] Hos. apply forallb_forall. intros [j c] Hj. cbn [fst snd] in *.
    apply mapM_Forall2 in Es. destruct (Forall2_In_r _ _ _ _ Es Hos) as (a & Ha & Hs).
    unfold phys_axes in Ha. apply in_map_iff in Ha. destruct Ha as ([x n] & <- & Hx). cbn [fst snd] in Hs.
    destruct (stride_keys_leaves sigma F c_HC _ _ _ _ _ Hs j c Hj) as [Uj Lj].
    apply andb_true_iff. split; [apply unbound_assoc; exact Uj|]. apply key_mem_In. rewrite Ev. apply dedup_key_in.
    apply in_map_iff in Lj. destruct Lj as (kn & <- & Hkn). apply in_map. unfold lvs. apply in_flat_map. exists (x, n). split; assumption.
  - apply NoDup_nodup_pos. rewrite Ev. apply dedup_keys_NoDup.
Qed.

Lemma c_sv_U kn : In kn (summed_vars views outp) -> In kn U.
Proof. unfold summed_vars. intros H. apply filter_In in H. destruct H as [H _]. apply dedup_In_sub in H. exact H. Qed.

Theorem typed_cert_views : cert_views r = true.
Proof.
  unfold cert_views.
  apply andb_true_iff; split; [apply andb_true_iff; split; [apply andb_true_iff; split; [apply andb_true_iff; split;
    [apply andb_true_iff; split; [apply andb_true_iff; split; [apply andb_true_iff; split|]|]|]|]|]|].
  - apply Nat.eqb_eq. symmetry. exact (Forall2_len _ _ _ c_views).
  - apply Forall2_forallb_combine. pose proof c_views as Fv.
    assert (Fin : Forall2 (fun t v => In t (er_ts r) /\ project_view sigma t = Ok v) (er_ts r) views).
    { assert (Gn : forall l l', Forall2 (fun (t : stensor (R:=R)) v => project_view sigma t = Ok v) l l' -> (forall t, In t l -> In t (er_ts r)) ->
                Forall2 (fun t v => In t (er_ts r) /\ project_view sigma t = Ok v) l l').
      { induction 1 as [|t v l l' Hp _ IH]; intros Sub; constructor; [split; [apply Sub; left; reflexivity|exact Hp]|].
        apply IH. intros t' Ht'. apply Sub. right. exact Ht'. }
      apply Gn; [exact Fv|auto]. }
    eapply Forall2_imp; [|exact Fin]. intros t v [Ht Hp]. cbn [fst snd]. exact (c_view_ok t v Ht Hp).
  - apply leqb_eq. apply summed_vars_labels.
  - apply leqb_eq. rewrite label_sizes_views, map_map. apply map_ext_in. intros kn Hkn. symmetry.
    apply lval_label_sizes; [exact (c_sv_U kn Hkn)|]. intros [k' n'] H' Ek. destruct kn as [k n]. cbn [fst snd] in *. subst k'.
    exact (szok_unique G k n' n (c_U_szok _ H') (c_U_szok _ (c_sv_U _ Hkn))).
  - apply forallb_forall. intros v Hv. apply forallb_forall. intros kn Hkn. apply pn_mem_In.
    assert (Hu : In kn U) by (apply in_flat_map; exists v; split; assumption).
    apply c_in_K; [exact (c_U_szok _ Hu)|apply in_map; exact Hu].
  - apply forallb_forall. intros kn Hkn. apply key_mem_In. destruct (c_outp_leaf kn Hkn) as (x & n & Hx & Hl).
    apply in_map. exact (c_leaf_U x n kn Hx Hl).
  - apply (wf_repr_inv_b R (mkPT (fun _ => r0) outp (er_outv r) r0)).
    + split; cbn [paxes vaxes]; [exact (fv_list_keys_NoDup _ _ _ _ E5)|]. intros k n. rewrite c_outp_eq at 1. unfold fvn_list. split.
      * intros H. apply (dedup_In_szok (szok G) (szok_unique G)); [|exact H]. intros kn H'. apply in_flat_map in H'.
        destruct H' as (c & Hc & Hk). destruct (c_outv_leaf c kn Hc Hk) as (x & m & Hx & Hl). exact (c_leaf_szok x m kn (c_V_szok _ Hx) Hl).
      * apply dedup_In_sub.
    + cbn [paxes]. intros k n Hk. pose proof (szok_big G k n c_good (c_outp_szok _ Hk)). lia.
  - apply forallb_forall. intros c Hc. destruct (c_outv c Hc) as (_ & _ & _ & _ & C & _). exact C.
Qed.

(** * completeness: the counting criterion *)
Lemma c_coinc_on q : In q (all_envs V) -> coinc_b i2v occ (env_of q) = true -> coinc_on (ls_i2v s) occ (env_of q).
Proof.
  intros Hq Cq l e Hin. split.
  - apply inrange_fvn. intros k n Hk. exact (env_of_in_range V q c_V_nodup Hq k n (c_occ_V l e _ Hin Hk)).
  - unfold coinc_b in Cq. rewrite forallb_forall in Cq. specialize (Cq (l, e) Hin). cbn [fst snd] in Cq. apply Nat.eqb_eq in Cq.
    unfold lv in Cq. destruct (c_occ l e Hin) as [_ Nn]. rewrite <- Ei2v. destruct (lassoc l i2v) as [e0|]; [|contradiction].
    exists e0. split; [reflexivity|exact Cq].
Qed.

Lemma c_complete_env q : In q (all_envs V) -> coinc_b i2v occ (env_of q) = true ->
  ls_zero s = false /\ exists rho', (forall x n, In (x, n) V -> rho' x = env_of q x) /\ inr_s rho' sigma /\ models rho' sigma.
Proof.
  intros Hq Cq. destruct (di_compl _ _ _ _ _ c_dinv (env_of q) (c_coinc_on q Hq Cq)) as (Z & rho' & A & [Rs M]).
  split; [exact Z|]. exists rho'. rewrite Esig. split; [|split; assumption].
  intros x n Hx. apply A. right. rewrite (ei_fv _ _ _ _ _ _ _ E). apply in_map_iff. exists (x, n). split; [reflexivity|exact Hx].
Qed.

Theorem typed_count_zero : ls_zero s = true -> count_coinc r inputs = 0.
Proof.
  intros Z. unfold count_coinc. destruct (filter _ (all_envs V)) as [|q l] eqn:Ef; [reflexivity|]. exfalso.
  assert (Hq : In q (filter (fun pi => coinc_b i2v occ (env_of pi)) (all_envs V))) by (rewrite Ef; left; reflexivity).
  apply filter_In in Hq. destruct Hq as [Hq Cq]. destruct (c_complete_env q Hq Cq) as [Z' _]. congruence.
Qed.

Theorem typed_count_le : count_coinc r inputs <= fold_right Nat.mul 1 (map snd K).
Proof.
  unfold count_coinc. rewrite <- (all_envs_length K).
  set (phi := fun pi : list (positive * nat) => restrict (ext sigma F (env_of pi)) V).
  apply (Nat.le_trans _ (length (map phi (all_envs K)))); [|rewrite map_length; lia].
  apply NoDup_incl_length; [apply NoDup_filter; apply NoDup_all_envs|]. intros q Hq. apply filter_In in Hq. destruct Hq as [Hq Cq].
  destruct (c_complete_env q Hq Cq) as (_ & rho' & A & Rs & M).
  apply in_map_iff. exists (restrict rho' K). split.
  - unfold phi. transitivity (restrict (env_of q) V); [|exact (restrict_env_of V q c_V_nodup Hq)]. unfold restrict. apply map_ext_in. intros [x n] Hx. cbn [fst]. f_equal.
    rewrite <- (resolve_phys_size sigma F _ x n).
    rewrite (eval_ext_fv _ rho').
    + rewrite (resolve_models rho' sigma M c_SZ F (Phys x n)); [exact (A x n Hx)|].
      apply (typed_sized G sigma c_wts). intros kn [<-|[]]. exact (c_V_szok _ Hx).
    + intros k Hk. apply restrict_env. rewrite fv_fvn in Hk. apply in_map_iff in Hk. destruct Hk as ([k' m] & <- & Hk).
      apply in_map. apply c_in_K; [exact (c_leaf_szok x n _ (c_V_szok _ Hx) Hk)|apply in_map; exact (c_leaf_U x n _ Hx Hk)].
  - apply all_envs_complete. intros k n Hk. destruct (c_K_leaf _ Hk) as (x & m & Hx & Hl).
    destruct (resolve_fvn_origin sigma F (Phys x m) (k, n) Hl) as [[Ekn|[]]|(k' & T & HT & HkT)].
    + inversion Ekn; subst. rewrite (A k n Hx). exact (env_of_in_range V q c_V_nodup Hq k n Hx).
    + unfold inr_s in Rs. rewrite Forall_forall in Rs. exact (fvn_of_inrange rho' T (Rs (k', T) HT) k n HkT).
Qed.

(** * the premises of the pointer theorem *)
Lemma c_i2v_nodup : NoDup (map fst i2v).
Proof. rewrite Ei2v, (di_labels _ _ _ _ _ c_dinv). apply dedup_nat_NoDup. Qed.

Lemma c_lens : Forall2 (fun (t : ptensor R) inp => length (vaxes t) = length inp) ts inputs.
Proof. eapply Forall2_imp; [|exact c_ops]. intros t inp [_ Tt]. rewrite (tys_length _ _ _ Tt), map_length. reflexivity. Qed.

Theorem typed_cert_viterbi : cert_viterbi r inputs output = true.
Proof.
  unfold cert_viterbi, pop_all.
  assert (A6 : forallb (fun l => match lassoc l i2v with Some _ => true | None => false end) output = true).
  { apply forallb_forall. intros l Hl. apply mapM_Forall2 in E2.
    destruct (Forall2_In_l _ _ _ _ E2 Hl) as (c & _ & Hc). destruct (lassoc l i2v); [reflexivity|discriminate]. }
  rewrite A6, pop_each_filter.
  apply andb_true_iff. split; [apply andb_true_iff; split|].
  - apply leqb_eq. rewrite (map_fst_filter (fun l => negb (existsb (Nat.eqb l) output)) i2v).
    rewrite Ei2v, (di_labels _ _ _ _ _ c_dinv). unfold summed_labels. rewrite <- (occ_labels ts inputs c_lens).
    apply filter_dedup_nat. intros x. simpl. rewrite orb_false_r. reflexivity.
  - apply forallb_forall. intros [l e] Hle. apply filter_In in Hle. destruct Hle as [Hle _]. cbn [fst snd].
    rewrite (lassoc_nodup l e i2v c_i2v_nodup Hle). apply axis_eqb_refl.
  - apply forallb_forall. intros [l e] Hle. apply filter_In in Hle. destruct Hle as [Hle _]. cbn [fst snd].
    destruct (c_occ l e (c_i2v l e (lassoc_nodup l e i2v c_i2v_nodup Hle))) as [Te _].
    destruct (stride_total_sfuel G sigma e (lty l) c_wts Te) as (o0 & s0 & Es). rewrite Es. cbn [snd].
    apply forallb_forall. intros [k c] Hk. cbn [fst]. apply unbound_assoc.
    destruct (stride_keys_ok sigma _ _ _ _ Es) as [_ Kk]. apply (Kk k). unfold keys. apply in_map_iff. exists (k, c). auto.
Qed.
End Cert.
