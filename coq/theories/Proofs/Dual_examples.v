(** C03: concrete values showing that the hypotheses of the C03 theorems are satisfiable and what
    the definitions compute: the grammar [G_ex] of SP_examples in the semiring of natural numbers
    (commutative, ordered), its gradient by dual numbers, by the code-shaped backward pass, and by
    counting occurrences in derivation trees; a recursive grammar. *)
From Coq Require Import List Arith Bool PeanoNat Lia Ring Ring_theory ArithRing.
Import ListNotations.
Require Import Fggs.Model.Semiring Fggs.Model.SCC Fggs.Model.SumProduct Fggs.Model.SumProductCheck
               Fggs.Model.Kleene Fggs.Model.Dual.
Require Import Fggs.Proofs.BigSum Fggs.Proofs.SP_trees Fggs.Proofs.SP_examples Fggs.Proofs.SP_driver
               Fggs.Proofs.Dual_ring Fggs.Proofs.Dual_leibniz Fggs.Proofs.Dual_trees.

Lemma nat_ordered_example : sr_ordered nat_ops_example.
Proof.
  constructor; cbn.
  - intros x. apply Nat.le_refl.
  - intros x y z. apply Nat.le_trans.
  - intros x y. apply Nat.le_antisymm.
  - intros x. apply Nat.le_0_l.
  - intros a b c d. apply Nat.add_le_mono.
  - intros a b c. apply Nat.mul_le_mono_l.
Qed.

Example dual_nat_ring : sr_ring (dual_ops nat_ops_example).
Proof. exact (dual_ring nat_ops_example nat_ring_example). Qed.
Example dual_nat_ordered : sr_ordered (dual_ops nat_ops_example).
Proof. exact (dual_ordered nat_ops_example nat_ordered_example). Qed.

(** (3 + 2 eps) * (5 + 7 eps) = 15 + (3*7 + 2*5) eps *)
Example dual_mul_example : mul (dual_ops nat_ops_example) (3, 2) (5, 7) = (15, 31).
Proof. reflexivity. Qed.

(** G_ex: X(x0) -> f(x0, x1) with an isolated internal node of domain size 3; S -> X(x0);
    f(x0, x1) = x0 + x1.  S = 27 and dS / d f(x0, x1) = 3 for every entry. *)
Definition W_nat : env (R:=nat) := env_of nat_ops_example w_nat.
Example grad_S_f12 : grad_model nat_ops_example G_ex W_nat 0 [1; 2] 3 2 [] = 3.
Proof. vm_compute. reflexivity. Qed.
Example grad_X1_f12 : grad_model nat_ops_example G_ex W_nat 0 [1; 2] 3 1 [1] = 3
                      /\ grad_model nat_ops_example G_ex W_nat 0 [1; 2] 3 1 [0] = 0.
Proof. split; vm_compute; reflexivity. Qed.
(** the value part of the dual computation is the ordinary sum-product *)
Example dual_value_S : fst (Zk (dual_ops nat_ops_example) G_ex (denv W_nat (delta_env nat_ops_example 0 [1; 2])) 3 2 []) = 27.
Proof. vm_compute. reflexivity. Qed.
(** the code-shaped backward pass (reverse accumulation over the components X, Y, S) *)
Example backward_S_f : map snd (match tmt_get (backward_nonrec nat_ops_example G_ex w_nat (map (fun x => [x]) ord_ex) [1]) 0 with
                                | Some t => t | None => [] end) = [3; 3; 3; 3; 3; 3].
Proof. vm_compute. reflexivity. Qed.
(** occurrences in derivation trees: 18 trees, the entry f(1,2) is used by 3 of them (once each),
    and f(1,2) * dS/df(1,2) = 3 * 3 = sum over those trees of their weight (= 3 each) *)
Example occurrences_example :
  map (fun t => length (occurrences (0, [1; 2]) (leaves G_ex t))) (enum_trees G_ex 3 2 [])
  = [0; 0; 0; 0; 0; 0; 0; 0; 0; 0; 0; 0; 0; 0; 0; 1; 1; 1].
Proof. vm_compute. reflexivity. Qed.

(** the Jacobian block (X, f): for X(x0) -> f(x0, x1) the leave-one-out product with externals
    [x0] ++ [x0, x1] (a duplicated external, renamed apart) is 3 * [x0 = x0'] *)
Example J_example :
  map (fun idx => J_val nat_ops_example (J_contribs nat_ops_example G_ex [1] (fun l => Some (W_nat l)) true) 1 0 idx)
      [[0; 0; 0]; [0; 0; 2]; [0; 1; 0]; [1; 1; 1]; [1; 0; 1]]
  = [3; 3; 0; 3; 0].
Proof. vm_compute. reflexivity. Qed.

(** a recursive grammar: X -> X a | b (labels: 0 = a, 1 = b nullary terminals, 2 = X start):
    Z_k = b (1 + a + ... + a^(k-1)),  dZ_k/db = 1 + a + ... + a^(k-1),  dZ_k/da = b (1 + 2a + ... ) *)
Definition G_rec : grammar :=
  {| g_doms := [2];
     g_labels := [(true, []); (true, []); (false, [])];
     g_rules := [ {| r_lhs := 2; r_nodes := []; r_edges := [(2, []); (0, [])]; r_ext := [] |};
                  {| r_lhs := 2; r_nodes := []; r_edges := [(1, [])]; r_ext := [] |} ];
     g_start := 2 |}.
Example G_rec_wf : wf_grammar G_rec = true.
Proof. reflexivity. Qed.
Definition W_rec : env (R:=nat) := fun l _ => match l with 0 => 2 | 1 => 5 | _ => 0 end.
Example rec_values : map (fun k => Zk nat_ops_example G_rec W_rec k 2 []) [0; 1; 2; 3; 4] = [0; 5; 15; 35; 75].
Proof. vm_compute. reflexivity. Qed.
Example rec_grad_b : map (fun k => grad_model nat_ops_example G_rec W_rec 1 [] k 2 []) [0; 1; 2; 3; 4] = [0; 1; 3; 7; 15].
Proof. vm_compute. reflexivity. Qed.
Example rec_grad_a : map (fun k => grad_model nat_ops_example G_rec W_rec 0 [] k 2 []) [0; 1; 2; 3; 4] = [0; 0; 5; 25; 85].
Proof. vm_compute. reflexivity. Qed.
