(** The node-label table [_node_labels] of [Graph] under replace_edge / start_graph / derive():
    it only grows (by a suffix), every node's label stays registered, and along every run that
    starts from [start_graph] the table is exactly the duplicate-free list of the labels of the
    graph's nodes. *)
From Coq Require Import List Arith Bool PeanoNat Lia Permutation.
Import ListNotations.
Require Import Fggs.Model.Replace Fggs.Proofs.Replace_base Fggs.Proofs.Replace_wf Fggs.Proofs.Replace_explicit
  Fggs.Proofs.Replace_spec Fggs.Proofs.Replace_model_spec Fggs.Proofs.Replace_inv Fggs.Proofs.Replace_step
  Fggs.Proofs.Replace_confl Fggs.Proofs.Replace_derive.

Lemma add_nlab_In : forall tbl l x, In x (add_nlab tbl l) <-> In x tbl \/ x = l.
Proof.
  intros. unfold add_nlab. destruct (memb Nat.eqb tbl l) eqn:E.
  - apply (memb_In Nat.eqb Nat.eqb_eq) in E. split; auto. intros [H|H]; subst; auto.
  - rewrite in_app_iff. simpl. intuition.
Qed.
Lemma add_nlab_nodup : forall tbl l, NoDup tbl -> NoDup (add_nlab tbl l).
Proof.
  intros. unfold add_nlab. destruct (memb Nat.eqb tbl l) eqn:E; auto.
  apply (memb_false Nat.eqb Nat.eqb_eq) in E. apply NoDup_snoc; auto.
Qed.
Lemma add_nlab_prefix : forall tbl l, exists t, add_nlab tbl l = tbl ++ t.
Proof.
  intros. unfold add_nlab. destruct (memb Nat.eqb tbl l).
  - exists []. rewrite app_nil_r; auto.
  - eauto.
Qed.

Lemma add_nlabs_In : forall ls tbl x, In x (add_nlabs tbl ls) <-> In x tbl \/ In x ls.
Proof.
  unfold add_nlabs. induction ls as [|l ls IH]; simpl; intros.
  - tauto.
  - rewrite IH, add_nlab_In. intuition.
Qed.
Lemma add_nlabs_nodup : forall ls tbl, NoDup tbl -> NoDup (add_nlabs tbl ls).
Proof. unfold add_nlabs. induction ls; simpl; intros; auto. apply IHls. apply add_nlab_nodup; auto. Qed.
Lemma add_nlabs_prefix : forall ls tbl, exists t, add_nlabs tbl ls = tbl ++ t.
Proof.
  unfold add_nlabs. induction ls as [|l ls IH]; simpl; intros.
  - exists []. rewrite app_nil_r; auto.
  - destruct (add_nlab_prefix tbl l) as [t1 E1]. destruct (IH (add_nlab tbl l)) as [t2 E2].
    rewrite E2, E1. exists (t1 ++ t2). rewrite app_assoc; auto.
Qed.
(** registering labels that are all present changes nothing (a second use of a rule) *)
Lemma add_nlabs_present : forall ls tbl, incl ls tbl -> add_nlabs tbl ls = tbl.
Proof.
  unfold add_nlabs. induction ls as [|l ls IH]; simpl; intros; auto.
  assert (E : add_nlab tbl l = tbl).
  { unfold add_nlab. assert (M : memb Nat.eqb tbl l = true) by (apply (memb_In Nat.eqb Nat.eqb_eq); apply H; simpl; auto).
    rewrite M; auto. }
  rewrite E. apply IH. intros x Hx. apply H; simpl; auto.
Qed.

(** every node's label is registered / the table is exactly the set of the nodes' labels *)
Definition nl_closed (g : graph) : Prop := forall n, In n (g_nodes g) -> In (n_label n) (g_nlabs g).
Definition nl_tight (g : graph) : Prop :=
  NoDup (g_nlabs g) /\ forall l, In l (g_nlabs g) <-> In l (map n_label (g_nodes g)).

Lemma nl_tight_closed : forall g, nl_tight g -> nl_closed g.
Proof. intros g [_ H] n Hn. apply H. apply in_map; auto. Qed.

Lemma nl_tight_extend : forall ns tbl ns', NoDup tbl -> (forall l, In l tbl <-> In l (map n_label ns)) ->
  NoDup (add_nlabs tbl (map n_label ns')) /\
  forall l, In l (add_nlabs tbl (map n_label ns')) <-> In l (map n_label (ns ++ ns')).
Proof.
  intros. split; [apply add_nlabs_nodup; auto|]. intros l. rewrite add_nlabs_In, map_app, in_app_iff, H0. tauto.
Qed.

(** what the replacement specification says about the table *)
Theorem replace_spec_nlabs : forall host e repl res nm em, replace_spec host e repl res nm em ->
  (exists t, g_nlabs res = g_nlabs host ++ t) /\
  (nl_closed host -> nl_closed res) /\
  (nl_tight host -> nl_tight res).
Proof.
  intros host e repl res nm em S. pose proof (rs_nodes _ _ _ _ _ _ S) as N. pose proof (rs_nlabs _ _ _ _ _ _ S) as T.
  rewrite <- map_map in T.
  split; [rewrite T; apply add_nlabs_prefix|]. split.
  - intros C n Hn. rewrite N in Hn. rewrite T. apply add_nlabs_In. apply in_app_iff in Hn. destruct Hn as [Hn|Hn].
    + left. apply C; auto.
    + right. apply in_map; auto.
  - intros [ND EQ]. unfold nl_tight. rewrite T, N. apply nl_tight_extend; auto.
Qed.

Lemma r_graph_tight : forall g nx e r, nl_tight g -> nl_tight (r_graph g nx e r).
Proof. intros g nx e r [ND EQ]. unfold nl_tight, r_graph; cbn [g_nlabs g_nodes]. apply nl_tight_extend; auto. Qed.

Lemma start_graph_tight : forall s nx, nl_tight (fst (fst (start_graph_model s nx))).
Proof.
  intros. rewrite start_graph_explicit. cbn [fst]. unfold nl_tight; cbn [g_nlabs g_nodes].
  unfold start_nodes. rewrite fresh_nodes_labels. split.
  - apply add_nlabs_nodup. constructor.
  - intros l. rewrite add_nlabs_In. simpl. tauto.
Qed.

Lemma run_tight : forall L, functional L -> forall l s s',
  Inv L s -> nl_tight (rs_graph s) -> run l s = Ok s' -> nl_tight (rs_graph s').
Proof.
  intros L HF. induction l as [|p l IH]; intros s s' HI HT E.
  - simpl in E. inversion E; subst; auto.
  - simpl in E. destruct (split_task p (rs_pending s)) as [[[pre tk] post]|] eqn:HS.
    + destruct (tk_tree tk) as [r a cs] eqn:HTr.
      destruct (step_explicit L HF s p pre post tk r a cs HI HS HTr) as [as' [_ Hst]].
      rewrite Hst in E.
      eapply IH; [| |exact E].
      * apply (s_next_inv L HF s p pre post tk r a cs HI HS HTr).
      * cbn [s_next rs_graph]. apply r_graph_tight; auto.
    + rewrite step_not_pending in E by auto. discriminate.
Qed.

(** after ANY sequence of replacement steps of a well-formed derivation the node-label table of
    the graph is the duplicate-free list of the labels of its nodes *)
Theorem run_nlabs_tight : forall L t nx l s,
  wf_dtreeb L t = true -> functionalb L = true ->
  run l (init_state t nx) = Ok s -> nl_tight (rs_graph s).
Proof.
  intros L t nx l s HW HFb R. apply functionalb_iff in HFb.
  eapply (run_tight L HFb l (init_state t nx) s); auto.
  - apply init_inv; auto.
  - unfold init_state. pose proof (start_graph_tight (r_lhs (t_rule t)) nx) as T.
    destruct (start_graph_model (r_lhs (t_rule t)) nx) as [[g n1] e]. exact T.
Qed.

Theorem derive_nlabs_tight : forall L t nx,
  wf_dtreeb L t = true -> functionalb L = true ->
  exists s, derive_model t nx = (s, None) /\ nl_tight (ds_graph s).
Proof.
  intros L t nx HW HFb.
  destruct (derive_is_preorder_run L t nx HW HFb) as [rs [R [P [I V]]]].
  exists (proj rs). split; auto. cbn [proj ds_graph]. eapply run_nlabs_tight; eauto.
Qed.
