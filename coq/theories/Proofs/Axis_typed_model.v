(** The context judgement [ty] (Proofs/Axis_typed.v) is at least as strict as the Model's
    context-free boolean judgement [has_type] (Model/Axis.v): whatever is typed in some context
    passes [has_type].  (The converse needs a context, i.e. consistency of the types of repeated
    physical axes, and the normal-form conditions; on the enumerated universes it is checked by
    [ty_b], Proofs/Axis_typed_check.v.) *)
From Coq Require Import List Arith Lia PeanoNat Bool PArith.
Import ListNotations.
Require Import Fggs.Model.Axis Fggs.Proofs.Axis_sem Fggs.Proofs.Axis_typed.

(** the inner loops of [has_type_l], named *)
Definition h_sum (fuel : nat) (b a : nat) (t : axis) : nat -> list ity -> bool :=
  fix go (pre : nat) (ts : list ity) : bool :=
    match ts with
    | [] => false
    | tj :: ts' =>
        (Nat.eqb b pre && Nat.eqb a (fold_right (fun t acc => tsize t + acc) 0 ts')
         && has_type_l fuel t (tprimes tj))
        || go (pre + tsize tj) ts'
    end.

Definition h_pre (n : nat) (k : list ity -> bool) : nat -> list ity -> nat -> bool :=
  fix pre (taken : nat) (ps : list ity) (len : nat) : bool :=
    (Nat.eqb taken n && k ps)
    || match len, ps with
       | S len, p :: ps' => pre (taken * tsize p) ps' len
       | _, _ => false
       end.

Definition h_prod (fuel : nat) : list axis -> list ity -> bool :=
  fix go (es : list axis) (ps : list ity) : bool :=
    match es with
    | [] => match ps with [] => true | _ => false end
    | x :: es' =>
        match x with
        | Phys _ n => h_pre n (go es') 1 ps (length ps)
        | _ => match ps with
               | p :: ps' => has_type_l fuel x [p] && go es' ps'
               | [] => false
               end
        end
    end.

Lemma has_type_l_Prod fuel es ps : has_type_l (S fuel) (Prod es) ps = h_prod fuel es ps.
Proof. reflexivity. Qed.

Lemma has_type_l_Sum fuel b t a ts : has_type_l (S fuel) (Sum b t a) [TSum ts] = h_sum fuel b a t 0 ts.
Proof. reflexivity. Qed.

Lemma h_sum_found fuel b a t tj post : forall pre acc,
  b = acc + tsum pre -> a = tsum post -> has_type_l fuel t (tprimes tj) = true ->
  h_sum fuel b a t acc (pre ++ tj :: post) = true.
Proof.
  induction pre as [|p pre IH]; intros acc Hb Ha Ht; simpl.
  - apply orb_true_iff. left. rewrite Ht. simpl in Hb. rewrite Nat.add_0_r in Hb. subst.
    fold (tsum post). rewrite !Nat.eqb_refl. reflexivity.
  - apply orb_true_iff. right. apply IH; [rewrite tsum_cons in Hb; lia|exact Ha|exact Ht].
Qed.

Lemma h_pre_unfold n k taken ps len :
  h_pre n k taken ps len =
  (Nat.eqb taken n && k ps) || match len, ps with S len, p :: ps' => h_pre n k (taken * tsize p) ps' len | _, _ => false end.
Proof. destruct ps; reflexivity. Qed.

Lemma h_pre_found n k : forall g rest taken len,
  taken * tsizes g = n -> k rest = true -> length g <= len -> h_pre n k taken (g ++ rest) len = true.
Proof.
  induction g as [|p g IH]; intros rest taken len Hn Hk Hl; rewrite h_pre_unfold.
  - simpl in *. rewrite Hk. assert (Nat.eqb taken n = true) as -> by (apply Nat.eqb_eq; lia). reflexivity.
  - simpl in Hl. destruct len as [|len]; [lia|]. cbn [app]. apply orb_true_iff. right.
    apply IH; [rewrite tsizes_cons in Hn; rewrite <- Hn; ring|exact Hk|lia].
Qed.

Lemma asize_list_In x l : In x l -> asize x <= fold_right (fun e acc => asize e + acc) 0 l.
Proof. induction l as [|y l IH]; intros H; [destruct H|]. destruct H as [<-|H]; simpl; [lia|]. specialize (IH H). lia. Qed.

Lemma ty_has_type_l_both G :
  (forall e ps, ty G e ps -> forall fuel, asize e < fuel -> has_type_l fuel e ps = true) /\
  (forall l ps, tyl G l ps -> forall fuel, (forall x, In x l -> asize x < fuel) -> h_prod fuel l ps = true).
Proof.
  apply ty_tyl_ind.
  - intros k n _ -> fuel Hf. destruct fuel; [lia|]. simpl. apply Nat.eqb_refl.
  - intros b t a pre tj post Hb Ha _ IH fuel Hf. destruct fuel; [simpl in Hf; lia|].
    rewrite has_type_l_Sum. apply h_sum_found; [simpl; exact Hb|exact Ha|]. apply IH. simpl in Hf. lia.
  - intros l ps _ _ IH fuel Hf. destruct fuel; [lia|]. rewrite has_type_l_Prod. apply IH.
    intros x Hx. pose proof (asize_list_In x l Hx). simpl in Hf. lia.
  - intros fuel _. destruct fuel; reflexivity.
  - intros x l p1 ps Hx Hty IHx _ IHl fuel Hf.
    assert (Hl : h_prod fuel l ps = true) by (apply IHl; intros y Hy; apply Hf; right; exact Hy).
    assert (Hxf : has_type_l fuel x p1 = true) by (apply IHx; apply Hf; left; reflexivity).
    destruct x as [k n|l0|b t a]; [| discriminate |].
    + cbn [h_prod]. fold (h_prod fuel). rewrite app_length.
      apply h_pre_found; [|exact Hl|lia]. apply ty_phys_inv in Hty. destruct Hty as (-> & _ & ->). lia.
    + apply ty_sum_inv in Hty. destruct Hty as (pre & tj & post & -> & _). cbn [h_prod app]. fold (h_prod fuel).
      rewrite Hxf, Hl. reflexivity.
Qed.

(** a typed axis passes the Model's judgement *)
Theorem ty_has_type G e t : ty G e (tprimes t) -> has_type e t = true.
Proof. intros H. unfold has_type. apply (proj1 (ty_has_type_l_both G) _ _ H). lia. Qed.

Example ty_has_type_ex :
  has_type (Prod [Phys 1 2; Phys 2 15]) (TProd [TAtom 2; TAtom 3; TSum [TAtom 2; TAtom 3]]) = true.
Proof. apply (ty_has_type ex_ctx). exact (proj1 ty_ex). Qed.
