(** C09 tier B -- one pass of the axis loop of PatternedTensor.solve, semantically.
    [aimg a0 a1 P]: the rows of [a] reached from the columns in [P] (through the pattern of [a]:
    row pattern [a0] and column pattern [a1] share their physical axes).
    - [step_image]: after a successful, warning-free unification of [e] with [a1], the clone of
      [a0] under the unifier covers the image of the support of [e];
    - [step_disjoint]: after a failed, warning-free unification no column of [a] is in the support
      of [e];
    - [step_covers]: hence the generalisation [g] of a pass covers [e] and the image of [e]. *)
From Coq Require Import List Arith Lia PeanoNat Bool PArith.
Import ListNotations.
Require Import Fggs.Model.Axis Fggs.Model.AxisCheck Fggs.Model.PTensor Fggs.Model.PSolve.
Require Import Fggs.Proofs.Axis_sem Fggs.Proofs.Axis_unify Fggs.Proofs.Axis_antiunify Fggs.Proofs.Axis_antiunify_inv.
Require Import Fggs.Proofs.Axis_clone Fggs.Proofs.Axis_subst Fggs.Proofs.PSolve_anti.
Require Import Fggs.Proofs.Axis_complete_gen.

Definition aimg (a0 a1 : axis) (P : nat -> Prop) (v' : nat) : Prop :=
  exists rho, inrange rho a0 /\ inrange rho a1 /\ P (eval rho a1) /\ eval rho a0 = v'.

Lemma aimg_mono a0 a1 (P Q : nat -> Prop) : (forall v, P v -> Q v) -> forall v', aimg a0 a1 P v' -> aimg a0 a1 Q v'.
Proof. intros HPQ v' (rho & R0 & R1 & Hp & E). exists rho. auto. Qed.

(** the two notions of "variables below a bound" coincide *)
Lemma below_same B e : Axis_antiunify_inv.below B e <-> Axis_complete_gen.below B e.
Proof. split; intros H; exact H. Qed.

(** * the guards on the unifier, as propositions *)
Lemma sized_b_for sigma e : sized_b sigma e = true -> sized_for sigma e.
Proof.
  unfold sized_b. rewrite forallb_forall. intros H k n c Hk Ha. specialize (H (k, n) Hk). simpl in H.
  rewrite Ha in H. apply Nat.eqb_eq in H. exact H.
Qed.

Lemma subst_sized_b_Sized sigma : subst_sized_b sigma = true -> Sized sigma.
Proof.
  unfold subst_sized_b. rewrite forallb_forall. intros H k c Ha. apply assoc_In in Ha.
  apply sized_b_for. exact (H (k, c) Ha).
Qed.

(** * [clone] keeps environments in range *)
Lemma clone_inrange_m rho sigma : inr_s rho sigma ->
  forall fuel e c, inrange rho e -> clone fuel sigma e = Ok c -> inrange rho c.
Proof.
  intros Rs. induction fuel as [|fuel IH]; intros e c Re H; [discriminate|].
  destruct e as [k n|l|b t a]; cbn [clone] in H.
  - destruct (assoc k sigma) as [c0|] eqn:E.
    + apply (IH c0 c); [|exact H]. apply assoc_In in E. unfold inr_s in Rs. rewrite Forall_forall in Rs. exact (Rs _ E).
    + inversion H; subst. exact Re.
  - destruct (mapM (clone fuel sigma) l) as [l'|] eqn:E; [|discriminate]. cbn [bind] in H. inversion H; subst.
    apply inrange_productAxis. apply inrange_Prod in Re. apply mapM_Forall2' in E. clear H.
    induction E as [|x y l l' Hxy _ IHl]; [constructor|]. inversion Re; subst. constructor; [exact (IH x y H1 Hxy)|auto].
  - destruct (clone fuel sigma t) as [t'|] eqn:E; [|discriminate]. cbn [bind] in H. inversion H; subst.
    simpl. simpl in Re. exact (IH t t' Re E).
Qed.

(** the free axes of a clone come from the axis or from the values of the substitution *)
Lemma clone_below nx sigma : below_s nx sigma ->
  forall fuel e c, below nx e -> clone fuel sigma e = Ok c -> below nx c.
Proof.
  intros Bs. induction fuel as [|fuel IH]; intros e c Be H; [discriminate|].
  destruct e as [k n|l|b t a]; cbn [clone] in H.
  - destruct (assoc k sigma) as [c0|] eqn:E.
    + apply (IH c0 c); [|exact H]. apply assoc_In in E. exact (proj2 (Bs _ _ E)).
    + inversion H; subst. exact Be.
  - destruct (mapM (clone fuel sigma) l) as [l'|] eqn:E; [|discriminate]. cbn [bind] in H. inversion H; subst.
    intros k Hk. rewrite fv_productAxis in Hk. apply in_flat_map in Hk. destruct Hk as (y & Hy & Hk).
    apply mapM_Forall2' in E. clear H. rewrite below_Prod in Be.
    induction E as [|x y' l l' Hxy _ IHl]; [contradiction|].
    destruct Hy as [<-|Hy].
    + exact (IH x y' (Be x (or_introl eq_refl)) Hxy k Hk).
    + apply IHl; [|exact Hy]. intros z Hz. apply Be. right. exact Hz.
  - destruct (clone fuel sigma t) as [t'|] eqn:E; [|discriminate]. cbn [bind] in H. inversion H; subst.
    intros k Hk. simpl in Hk. exact (IH t t' Be E k Hk).
Qed.

(** * gluing two environments over disjoint sets of axes *)
Definition glue (ks : list positive) (r1 r2 : env) : env :=
  fun k => if existsb (Pos.eqb k) ks then r1 k else r2 k.

Lemma glue_in ks r1 r2 k : In k ks -> glue ks r1 r2 k = r1 k.
Proof.
  intros H. unfold glue. assert (existsb (Pos.eqb k) ks = true) as ->; [|reflexivity].
  apply existsb_exists. exists k. split; [exact H|apply Pos.eqb_refl].
Qed.
Lemma glue_out ks r1 r2 k : ~ In k ks -> glue ks r1 r2 k = r2 k.
Proof.
  intros H. unfold glue. destruct (existsb (Pos.eqb k) ks) eqn:X; [|reflexivity].
  apply existsb_exists in X. destruct X as (k' & Hk' & X). apply Pos.eqb_eq in X. subst k'. contradiction.
Qed.

Section Pass.
Variables (next : positive) (a0 a1 e : axis).
Hypothesis Ba0 : below next a0.
Hypothesis Ba1 : below next a1.
Hypothesis Be : below next e.
Hypothesis Dj : forall k, In k (fv e) -> ~ In k (fv a0 ++ fv a1).

Definition ust0 : ustate := {| us_subst := []; us_next := next; us_warn := false |}.

Lemma glue_facts re ra :
  let rho := glue (fv e) re ra in
  eval rho e = eval re e /\ eval rho a0 = eval ra a0 /\ eval rho a1 = eval ra a1 /\
  (inrange re e -> inrange rho e) /\ (inrange ra a0 -> inrange rho a0) /\ (inrange ra a1 -> inrange rho a1).
Proof.
  intros rho.
  assert (Xe : forall k, In k (fv e) -> rho k = re k) by (intros k Hk; apply glue_in; exact Hk).
  assert (X0 : forall k, In k (fv a0) -> rho k = ra k).
  { intros k Hk. apply glue_out. intros He. apply (Dj k He). apply in_or_app. left. exact Hk. }
  assert (X1 : forall k, In k (fv a1) -> rho k = ra k).
  { intros k Hk. apply glue_out. intros He. apply (Dj k He). apply in_or_app. right. exact Hk. }
  split; [apply eval_ext_fv; exact Xe|]. split; [apply eval_ext_fv; exact X0|]. split; [apply eval_ext_fv; exact X1|].
  split; [apply inrange_ext_fv; intros k Hk; symmetry; auto|].
  split; apply inrange_ext_fv; intros k Hk; symmetry; auto.
Qed.

Section Unified.
Variables (fuel : nat) (b : bool) (st : ustate).
Hypothesis U : unify fuel e a1 ust0 = Ok (b, st).
Hypothesis W : us_warn st = false.

Lemma pass_frame : (next <= us_next st)%positive /\ below_s (us_next st) (us_subst st).
Proof.
  destruct (proj1 (unify_complete_both fuel) e a1 ust0 b st Be Ba1 (fun k T (H : In (k, T) []) => match H with end) U) as [(L & Bs & _) _].
  split; [exact L|exact Bs].
Qed.

Lemma pass_complete rho : inrange rho e -> inrange rho a1 -> eval rho e = eval rho a1 ->
  if b then exists rho', extends_to next rho rho' /\ inr_s rho' (us_subst st) /\ models rho' (us_subst st) else False.
Proof.
  intros Re R1 Ev.
  destruct (proj1 (unify_complete_both fuel) e a1 ust0 b st Be Ba1 (fun k T (H : In (k, T) []) => match H with end) U) as [_ C].
  destruct (C W) as [_ G]. specialize (G rho Re R1). unfold cgoal in G. apply G; [|exact Ev]. split; constructor.
Qed.

End Unified.

(** a failed unification: no column of [a] is in the support of [e] *)
Theorem step_disjoint fuel st : unify fuel e a1 ust0 = Ok (false, st) -> us_warn st = false ->
  forall v, rng e v -> rng a1 v -> False.
Proof.
  intros U W v (re & Re & Ee) (ra & Ra & Ea).
  destruct (glue_facts re ra) as (E1 & _ & E3 & I1 & _ & I3).
  apply (pass_complete fuel false st U W (glue (fv e) re ra)); [auto|auto|congruence].
Qed.

(** a successful unification: the clone of the row pattern covers the image of the support of [e] *)
Theorem step_image fuel cf st c : unify fuel e a1 ust0 = Ok (true, st) -> us_warn st = false ->
  clone cf (us_subst st) a0 = Ok c -> Sized (us_subst st) -> sized_for (us_subst st) a0 ->
  forall v', aimg a0 a1 (rng e) v' -> rng c v'.
Proof.
  intros U W Cl SZ S0 v' (ra & R0 & R1 & (re & Re & Ee) & Ev).
  destruct (glue_facts re ra) as (E1 & E2 & E3 & I1 & I2 & I3).
  set (rho := glue (fv e) re ra) in *.
  destruct (pass_complete fuel true st U W rho (I1 Re) (I3 R1)) as (rho' & X & Rs & M); [congruence|].
  exists rho'. split.
  - apply (clone_inrange_m rho' (us_subst st) Rs cf a0 c); [|exact Cl]. eapply ext_inrange; [exact X|exact Ba0|exact (I2 R0)].
  - rewrite (proj2 (clone_sem_models rho' (us_subst st) M SZ cf a0 c S0 Cl)).
    rewrite (ext_eval _ _ _ _ X Ba0). congruence.
Qed.

Lemma step_clone_below fuel cf st c : unify fuel e a1 ust0 = Ok (true, st) ->
  clone cf (us_subst st) a0 = Ok c -> below (us_next st) c.
Proof.
  intros U Cl. destruct (pass_frame fuel true st U) as [L Bs].
  apply (clone_below (us_next st) (us_subst st) Bs cf a0 c); [|exact Cl]. eapply below_mono; [exact L|exact Ba0].
Qed.

(** one whole pass *)
Theorem step_covers fuel cf af st c g ast :
  unify fuel e a1 ust0 = Ok (true, st) -> clone cf (us_subst st) a0 = Ok c ->
  antiunify af e c (astate0 (us_next st)) = Ok (g, ast) ->
  us_warn st = false -> as_warn ast = false ->
  (forall v, rng e v -> rng g v) /\
  (Sized (us_subst st) -> sized_for (us_subst st) a0 -> forall v', aimg a0 a1 (rng e) v' -> rng g v') /\
  (acq_injective (as_list ast) = true -> forall v, rng g v -> rng e v) /\
  (forall k, In k (fv g) -> (us_next st <= k)%positive /\ (k < as_next ast)%positive) /\
  (next <= as_next ast)%positive /\
  numel g = numel e /\ (forall k n n', In (k, n) (fvn g) -> In (k, n') (fvn g) -> n = n').
Proof.
  intros U Cl An W Wa.
  destruct (pass_frame fuel true st U) as [L Bs].
  assert (Be' : Axis_antiunify_inv.below (us_next st) e) by (apply below_same; eapply below_mono; [exact L|exact Be]).
  assert (Bc' : Axis_antiunify_inv.below (us_next st) c) by (apply below_same; exact (step_clone_below fuel cf st c U Cl)).
  split; [intros v; exact (anti_range1 af (us_next st) e c g ast Be' Bc' An Wa v)|].
  split.
  { intros SZ S0 v' Hv'. apply (anti_range2 af (us_next st) e c g ast Be' Bc' An Wa v').
    exact (step_image fuel cf st c U W Cl SZ S0 v' Hv'). }
  split; [intros Hi v; exact (anti_injective af (us_next st) e c g ast Be' Bc' An Wa v Hi)|].
  split.
  - intros k Hk. split; [exact (anti_g_fresh af (us_next st) e c g ast Be' Bc' An Wa k Hk)|exact (anti_g_below af (us_next st) e c g ast Be' Bc' An Wa k Hk)].
  - split; [pose proof (anti_next_le af (us_next st) e c g ast Be' Bc' An); lia|].
    split; [exact (anti_numel af (us_next st) e c g ast An)|exact (anti_g_consistent af (us_next st) e c g ast Be' Bc' An Wa)].
Qed.

End Pass.
