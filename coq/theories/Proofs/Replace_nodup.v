(** The names of the nodes and of the edges of [derived_graph] are pairwise distinct. *)
From Coq Require Import List Arith Bool PeanoNat Lia Permutation.
Import ListNotations.
Require Import Fggs.Model.Replace Fggs.Proofs.Replace_base Fggs.Proofs.Replace_wf Fggs.Proofs.Replace_explicit
  Fggs.Proofs.Replace_spec Fggs.Proofs.Replace_model_spec Fggs.Proofs.Replace_inv.

(** induction principle for derivation trees *)
Section DtreeInd.
  Variable P : dtree -> Prop.
  Hypothesis H : forall r a cs, (forall k c, In (k, c) cs -> P c) -> P (DT r a cs).
  Fixpoint dtree_ind' (t : dtree) : P t :=
    match t with
    | DT r a cs =>
      H r a cs ((fix go (cs : list (edge * dtree)) : forall k c, In (k, c) cs -> P c :=
                   match cs with
                   | [] => fun k c (h : In (k, c) []) => match h with end
                   | kc0 :: cs' => fun k c (h : In (k, c) (kc0 :: cs')) =>
                       match h with
                       | or_introl e => eq_rect (snd kc0) P (dtree_ind' (snd kc0)) c (f_equal snd e)
                       | or_intror h' => go cs' k c h'
                       end
                   end) cs)
    end.
End DtreeInd.

Definition under (p : path) (k : id) (x : name) : Prop := exists q i, x = NInst (p ++ k :: q) i.
Definition below_path (p : path) (x : name) : Prop := exists q i, x = NInst (p ++ q) i.

Lemma under_below : forall p k x, below_path (p ++ [k]) x -> under p k x.
Proof. intros p k x [q [i ->]]. exists q, i. rewrite <- app_assoc. reflexivity. Qed.

Lemma nodup_names_gen : forall (p : path) (own : list name) (chs : list (id * list name)),
  NoDup own -> (forall x, In x own -> exists i, x = NInst p i) ->
  NoDup (map fst chs) ->
  (forall k ns, In (k, ns) chs -> NoDup ns /\ forall x, In x ns -> under p k x) ->
  NoDup (own ++ flat_map snd chs).
Proof.
  intros p own chs ND HO NK HC. apply NoDup_app_intro; auto.
  - clear ND HO. induction chs as [|[k ns] chs IH]; simpl; [constructor|].
    inversion NK; subst. destruct (HC k ns (or_introl eq_refl)) as [N1 U1].
    apply NoDup_app_intro; auto.
    + apply IH; auto. intros; apply HC; simpl; auto.
    + intros x Hx Hy. apply in_flat_map in Hy. destruct Hy as [[k' ns'] [Hin Hx']]. cbn [snd] in Hx'.
      destruct (U1 x Hx) as [q [i E1]]. destruct (HC k' ns' (or_intror Hin)) as [_ U2].
      destruct (U2 x Hx') as [q' [i' E2]]. rewrite E1 in E2. inversion E2.
      apply app_inv_head in H0. inversion H0; subst. apply H1. apply in_map_iff. exists (k', ns'); auto.
  - intros x Hx Hy. destruct (HO x Hx) as [i E1]. apply in_flat_map in Hy.
    destruct Hy as [[k ns] [Hin Hx']]. cbn [snd] in Hx'. destruct (HC k ns Hin) as [_ U].
    destruct (U x Hx') as [q [i' E2]]. rewrite E1 in E2. inversion E2.
    rewrite <- (app_nil_r p) in H0 at 1. apply app_inv_head in H0. discriminate.
Qed.

(** ** node names *)
Lemma dsub_nodes_below : forall t p x, In x (map fst (dsub_nodes p t)) -> below_path p x.
Proof.
  induction t as [r a cs IH] using dtree_ind'. intros p x Hx. cbn [dsub_nodes] in Hx.
  rewrite map_app, in_app_iff in Hx. destruct Hx as [Hx|Hx].
  - rewrite map_map in Hx. apply in_map_iff in Hx. destruct Hx as [v [<- _]]. cbn [fst].
    exists [], (n_id v). rewrite app_nil_r; auto.
  - apply in_map_iff in Hx. destruct Hx as [[y l] [<- Hy]]. apply in_flat_map in Hy.
    destruct Hy as [[k c] [Hkc Hy]]. cbn [fst snd] in *.
    destruct (IH k c Hkc (p ++ [e_id k]) y) as [q [i ->]].
    { apply in_map_iff. exists (y, l); auto. }
    exists (e_id k :: q), i. rewrite <- app_assoc. reflexivity.
Qed.

Lemma map_fst_flat_map : forall {A B C} (f : A -> list (B * C)) l,
  map fst (flat_map f l) = flat_map (fun x => map fst (f x)) l.
Proof. induction l; simpl; auto. rewrite map_app, IHl; auto. Qed.

Lemma dsub_nodes_nodup : forall L t p, wf_dtreeb L t = true -> NoDup (map fst (dsub_nodes p t)).
Proof.
  intros L. induction t as [r a cs IH] using dtree_ind'. intros p W.
  destruct (wf_dtreeb_unfold _ _ _ _ W) as [WR [_ [_ [_ [KND HC]]]]].
  cbn [dsub_nodes]. rewrite map_app, map_flat_map.
  set (chs := map (fun kc : edge * dtree => (e_id (fst kc), map fst (dsub_nodes (p ++ [e_id (fst kc)]) (snd kc)))) cs).
  replace (flat_map (fun x : edge * dtree => map fst (dsub_nodes (p ++ [e_id (fst x)]) (snd x))) cs)
    with (flat_map snd chs).
  2:{ unfold chs. rewrite flat_map_map'. reflexivity. }
  apply (nodup_names_gen p).
  - rewrite map_map. cbn [fst]. apply NoDup_map_inj.
    + intros x y Hx Hy E. inversion E. apply filter_In in Hx, Hy.
      apply (NoDup_map_inj_in n_id (g_nodes (r_rhs r)) (wf_nodes _ (wr_graph r WR))); tauto.
    + apply NoDup_filter. apply wf_graph_nodup_nodes. apply (wr_graph r WR).
  - intros x Hx. rewrite map_map in Hx. apply in_map_iff in Hx. destruct Hx as [v [<- _]]. cbn [fst]. eauto.
  - unfold chs. rewrite map_map. cbn [fst]. auto.
  - intros k ns Hin. unfold chs in Hin. apply in_map_iff in Hin. destruct Hin as [[k' c] [E Hkc]].
    inversion E; subst. cbn [fst snd]. split.
    + apply (IH k' c Hkc). apply (HC k' c Hkc).
    + intros x Hx. apply under_below. eapply dsub_nodes_below; eauto.
Qed.

(** ** edge names *)
Definition ename (x : dedge) : name := fst (fst x).

Lemma dsub_edges_below : forall t p xs x, In x (map ename (dsub_edges p xs t)) -> below_path p x.
Proof.
  induction t as [r a cs IH] using dtree_ind'. intros p xs x Hx. cbn [dsub_edges] in Hx.
  rewrite map_app, in_app_iff in Hx. destruct Hx as [Hx|Hx].
  - rewrite map_map in Hx. apply in_map_iff in Hx. destruct Hx as [v [<- _]]. unfold ename; cbn [fst].
    exists [], (e_id v). rewrite app_nil_r; auto.
  - apply in_map_iff in Hx. destruct Hx as [y [<- Hy]]. apply in_flat_map in Hy.
    destruct Hy as [[k c] [Hkc Hy]]. cbn [fst snd] in *.
    assert (B : below_path (p ++ [e_id k]) (ename y)).
    { eapply (IH k c Hkc). apply in_map; eauto. }
    destruct B as [q [i E]].
    exists (e_id k :: q), i. rewrite E, <- app_assoc. reflexivity.
Qed.

Lemma dsub_edges_nodup : forall L t p xs, wf_dtreeb L t = true -> NoDup (map ename (dsub_edges p xs t)).
Proof.
  intros L. induction t as [r a cs IH] using dtree_ind'. intros p xs W.
  destruct (wf_dtreeb_unfold _ _ _ _ W) as [WR [_ [_ [_ [KND HC]]]]].
  cbn [dsub_edges]. rewrite map_app, map_flat_map.
  match goal with |- NoDup (_ ++ flat_map ?f cs) =>
    set (chs := map (fun kc : edge * dtree => (e_id (fst kc), f kc)) cs);
    replace (flat_map f cs) with (flat_map snd chs) by (unfold chs; rewrite flat_map_map'; reflexivity)
  end.
  apply (nodup_names_gen p).
  - rewrite map_map. unfold ename; cbn [fst]. apply NoDup_map_inj.
    + intros x y Hx Hy E. inversion E. apply filter_In in Hx, Hy.
      apply (NoDup_map_inj_in e_id (g_edges (r_rhs r)) (wf_edges _ (wr_graph r WR))); tauto.
    + apply NoDup_filter. apply wf_graph_nodup_edges. apply (wr_graph r WR).
  - intros x Hx. rewrite map_map in Hx. apply in_map_iff in Hx. destruct Hx as [v [<- _]]. unfold ename; cbn [fst]. eauto.
  - unfold chs. rewrite map_map. cbn [fst]. auto.
  - intros k ns Hin. unfold chs in Hin. apply in_map_iff in Hin. destruct Hin as [[k' c] [E Hkc]].
    inversion E; subst. cbn [fst snd]. split.
    + apply (IH k' c Hkc). apply (HC k' c Hkc).
    + intros x Hx. apply under_below. eapply dsub_edges_below; eauto.
Qed.

(** ** the derived graph *)
Lemma start_dnodes_names : forall ls j x, In x (map fst (start_dnodes j ls)) -> exists k, x = NStart k /\ j <= k.
Proof.
  induction ls; simpl; intros; try tauto. destruct H as [<-|H]; eauto.
  destruct (IHls _ _ H) as [k [-> ?]]. exists k; split; auto; lia.
Qed.
Lemma start_dnodes_nodup : forall ls j, NoDup (map fst (start_dnodes j ls)).
Proof.
  induction ls; simpl; intros; constructor; auto.
  intro H. apply start_dnodes_names in H. destruct H as [k [E ?]]. inversion E. lia.
Qed.

Theorem derived_nodes_nodup : forall L t, wf_dtreeb L t = true -> NoDup (map fst (d_nodes (derived_graph t))).
Proof.
  intros. unfold derived_graph; cbn [d_nodes]. rewrite map_app. apply NoDup_app_intro.
  - apply start_dnodes_nodup.
  - eapply dsub_nodes_nodup; eauto.
  - intros x Hx Hy. apply start_dnodes_names in Hx. destruct Hx as [k [-> _]].
    apply dsub_nodes_below in Hy. destruct Hy as [q [i E]]. discriminate.
Qed.
Theorem derived_edges_nodup : forall L t, wf_dtreeb L t = true -> NoDup (map ename (d_edges (derived_graph t))).
Proof. intros. unfold derived_graph; cbn [d_edges]. eapply dsub_edges_nodup; eauto. Qed.
