(** C07: substitutions in solved form.  For a substitution that is functional (no key twice),
    acyclic (every bound axis resolves within the fuel) and size-preserving -- the decidable
    premises [cert_subst] evaluated on every case -- each valuation [rho'] of the unbound axes
    extends to a model [ext rho'] of the substitution; it is in range, evaluates a cloned axis like
    the original, and is determined by its values on the operands' axes (injectivity, from
    C06_at_most_one_backing applied to the resolved axes). *)
From Coq Require Import List Arith Bool PeanoNat Lia PArith.
Import ListNotations.
Require Import Fggs.Model.Axis Fggs.Model.PTensor Fggs.Model.AxisCheck Fggs.Model.Einsum Fggs.Model.EinsumCheck Fggs.Model.EinsumCert.
Require Import Fggs.Proofs.Axis_sem Fggs.Proofs.Axis_unify Fggs.Proofs.Axis_repr Fggs.Proofs.PTensor_dense Fggs.Proofs.PTensor_gen.
Require Import Fggs.Proofs.Einsum_envs.

(** * lists *)
Lemma forallb_flat_map {A B} (p : B -> bool) (f : A -> list B) l :
  forallb p (flat_map f l) = forallb (fun x => forallb p (f x)) l.
Proof. induction l as [|x l IH]; [reflexivity|]. simpl. rewrite forallb_app, IH. reflexivity. Qed.

Lemma assoc_of_In {A} k (s : list (positive * A)) a : NoDup (map fst s) -> In (k, a) s -> assoc k s = Some a.
Proof.
  induction s as [|[k' a'] s IH]; intros ND H; [contradiction|]. simpl in *. inversion ND as [|? ? Hk ND']; subst.
  destruct H as [H|H].
  - inversion H; subst. rewrite Pos.eqb_refl. reflexivity.
  - destruct (Pos.eqb_spec k' k) as [->|_]; [exfalso; apply Hk; apply in_map_iff; exists (k, a); auto|auto].
Qed.

Lemma mapM_Forall2 {A B} (f : A -> res B) l l' : mapM f l = Ok l' -> Forall2 (fun x y => f x = Ok y) l l'.
Proof.
  revert l'. induction l as [|x l IH]; intros l' H; simpl in H.
  - inversion H. constructor.
  - destruct (f x) as [y|] eqn:E; [|discriminate]. cbn [bind] in H.
    destruct (mapM f l) as [ys|] eqn:E2; [|discriminate]. cbn [bind] in H. inversion H; subst.
    constructor; [exact E|apply IH; reflexivity].
Qed.

Lemma evalL_Forall2 r1 r2 l l' :
  Forall2 (fun x y => numel y = numel x /\ eval r1 y = eval r2 x) l l' ->
  evalL r1 l' = evalL r2 l /\ prodn l' = prodn l.
Proof.
  induction 1 as [|x y l l' [N E] F [IH1 IH2]]; [split; reflexivity|].
  rewrite !evalL_cons, !prodn_cons, N, E, IH1, IH2. split; reflexivity.
Qed.

(** * closed / sized *)
Lemma closed_Prod sigma l : closed sigma (Prod l) = forallb (closed sigma) l.
Proof. unfold closed. simpl. apply forallb_flat_map. Qed.
Lemma sized_Prod sigma l : sized sigma (Prod l) = forallb (sized sigma) l.
Proof. unfold sized. simpl. apply forallb_flat_map. Qed.

Definition Sized (sigma : subst) : Prop := forall k e, In (k, e) sigma -> sized sigma e = true.

Lemma unbound_assoc sigma k : unbound sigma k = true <-> assoc k sigma = None.
Proof. unfold unbound. destruct (assoc k sigma); split; congruence. Qed.

(** * resolve *)
Lemma resolve_mono sigma : forall f e, closed sigma (resolve f sigma e) = true -> resolve (S f) sigma e = resolve f sigma e.
Proof.
  induction f as [|f IH]; intros e C.
  - simpl in C. destruct e as [k n|l|b t a]; simpl.
    + unfold closed in C. simpl in C. rewrite andb_true_r in C. apply unbound_assoc in C. rewrite C. reflexivity.
    + f_equal. apply map_id.
    + reflexivity.
  - destruct e as [k n|l|b t a].
    + change (resolve (S (S f)) sigma (Phys k n)) with (match assoc k sigma with Some e' => resolve (S f) sigma e' | None => Phys k n end).
      change (resolve (S f) sigma (Phys k n)) with (match assoc k sigma with Some e' => resolve f sigma e' | None => Phys k n end) in *.
      destruct (assoc k sigma) as [e'|]; [apply IH; exact C|reflexivity].
    + change (resolve (S f) sigma (Prod l)) with (Prod (map (resolve f sigma) l)) in C.
      change (resolve (S (S f)) sigma (Prod l)) with (Prod (map (resolve (S f) sigma) l)).
      change (resolve (S f) sigma (Prod l)) with (Prod (map (resolve f sigma) l)).
      rewrite closed_Prod, forallb_forall in C. f_equal. apply map_ext_in. intros x Hx. apply IH. apply C. apply in_map. exact Hx.
    + change (resolve (S f) sigma (Sum b t a)) with (Sum b (resolve f sigma t) a) in C.
      change (resolve (S (S f)) sigma (Sum b t a)) with (Sum b (resolve (S f) sigma t) a).
      change (resolve (S f) sigma (Sum b t a)) with (Sum b (resolve f sigma t) a).
      f_equal. apply IH. exact C.
Qed.

Lemma resolve_mono_le sigma f e : closed sigma (resolve f sigma e) = true ->
  forall d, resolve (d + f) sigma e = resolve f sigma e.
Proof.
  intros C. induction d as [|d IH]; [reflexivity|]. cbn [Nat.add]. rewrite resolve_mono; [exact IH|rewrite IH; exact C].
Qed.

Lemma resolve_closed_eq sigma f1 f2 e :
  closed sigma (resolve f1 sigma e) = true -> closed sigma (resolve f2 sigma e) = true ->
  resolve f1 sigma e = resolve f2 sigma e.
Proof.
  intros C1 C2. destruct (Nat.le_ge_cases f1 f2) as [H|H].
  - replace f2 with ((f2 - f1) + f1) by lia. symmetry. apply resolve_mono_le. exact C1.
  - replace f1 with ((f1 - f2) + f2) by lia. apply resolve_mono_le. exact C2.
Qed.

Lemma resolve_numel sigma : Sized sigma -> forall f e, sized sigma e = true -> numel (resolve f sigma e) = numel e.
Proof.
  intros SZ. induction f as [|f IH]; intros e Hz; [reflexivity|].
  destruct e as [k n|l|b t a]; simpl.
  - unfold sized in Hz. simpl in Hz. rewrite andb_true_r in Hz.
    destruct (assoc k sigma) as [e'|] eqn:E; [|reflexivity]. apply Nat.eqb_eq in Hz. rewrite <- Hz.
    apply IH. apply (SZ k). apply assoc_In. exact E.
  - rewrite sized_Prod, forallb_forall in Hz. induction l as [|x l IHl]; [reflexivity|]. simpl.
    rewrite (IH x (Hz x (or_introl eq_refl))). f_equal. apply IHl. intros y Hy. apply Hz. right. exact Hy.
  - f_equal. f_equal. apply IH. exact Hz.
Qed.

(** * the model of the substitution determined by a valuation of the unbound axes *)
Definition ext (sigma : subst) (F : nat) (rho' : env) : env := fun k => eval rho' (resolve F sigma (Phys k 0)).

Lemma ext_unbound sigma F rho' k : assoc k sigma = None -> ext sigma F rho' k = rho' k.
Proof. intros H. unfold ext. destruct F; simpl; [reflexivity|]. rewrite H. reflexivity. Qed.

Lemma resolve_phys_size sigma F rho' k n : eval rho' (resolve F sigma (Phys k n)) = ext sigma F rho' k.
Proof. unfold ext. destruct F; simpl; [reflexivity|]. destruct (assoc k sigma); reflexivity. Qed.

Section Solved.
Variables (sigma : subst) (F : nat).
Hypothesis ND : NoDup (map fst sigma).
Hypothesis HC : forall k e, In (k, e) sigma -> closed sigma (resolve F sigma (Phys k 0)) = true.
Hypothesis SZ : Sized sigma.

Lemma F_pos k e : In (k, e) sigma -> exists F', F = S F'.
Proof.
  intros H. destruct F as [|F']; [|eauto]. exfalso. specialize (HC k e H). simpl in HC.
  unfold closed in HC. simpl in HC. rewrite andb_true_r in HC. apply unbound_assoc in HC.
  rewrite (assoc_of_In k sigma e ND H) in HC. discriminate.
Qed.

(** evaluation of a resolved axis = evaluation of the axis under the extension *)
Lemma resolve_eval rho' : forall f e, closed sigma (resolve f sigma e) = true -> sized sigma e = true ->
  eval rho' (resolve f sigma e) = eval (ext sigma F rho') e.
Proof.
  induction f as [|f IH]; intros e C Hz.
  - simpl in *. apply eval_ext. intros k Hk. symmetry. apply ext_unbound. apply unbound_assoc.
    unfold closed in C. rewrite forallb_forall in C. apply C. exact Hk.
  - destruct e as [k n|l|b t a].
    + change (resolve (S f) sigma (Phys k n)) with (match assoc k sigma with Some e' => resolve f sigma e' | None => Phys k n end) in *.
      destruct (assoc k sigma) as [e'|] eqn:E.
      * simpl. unfold ext. destruct (F_pos k e' (assoc_In _ _ _ E)) as (F' & EF). rewrite EF. simpl. rewrite E.
        f_equal. apply resolve_closed_eq; [exact C|].
        pose proof (HC k e' (assoc_In _ _ _ E)) as C'. rewrite EF in C'. simpl in C'. rewrite E in C'. exact C'.
      * simpl. symmetry. apply ext_unbound. exact E.
    + change (resolve (S f) sigma (Prod l)) with (Prod (map (resolve f sigma) l)) in *.
      rewrite closed_Prod, forallb_forall in C. rewrite sized_Prod, forallb_forall in Hz.
      rewrite !eval_Prod.
      apply (evalL_Forall2 rho' (ext sigma F rho') l (map (resolve f sigma) l)).
      clear -IH C Hz SZ. induction l as [|x l IHl]; simpl; constructor.
      * split; [apply (resolve_numel sigma SZ); apply Hz; left; reflexivity|].
        apply IH; [apply C; left; reflexivity|apply Hz; left; reflexivity].
      * apply IHl; intros y Hy; [apply C|apply Hz]; right; exact Hy.
    + change (resolve (S f) sigma (Sum b t a)) with (Sum b (resolve f sigma t) a) in *. simpl. f_equal. apply IH; assumption.
Qed.

Theorem ext_models rho' : models (ext sigma F rho') sigma.
Proof.
  unfold models. apply Forall_forall. intros [k e] Hin. simpl.
  destruct (F_pos k e Hin) as (F' & EF).
  pose proof (HC k e Hin) as C. unfold ext at 1. rewrite EF in C |- * at 1. simpl in C |- *.
  rewrite (assoc_of_In k sigma e ND Hin) in C |- *.
  rewrite <- (resolve_eval rho' F' e C (SZ k e Hin)). reflexivity.
Qed.

(** in range *)
Lemma ext_bound rho' k n (K : list pn) pi :
  NoDup (map fst K) -> In pi (all_envs K) -> rho' = env_of pi ->
  sized sigma (Phys k n) = true ->
  (forall kn, In kn (fvn (resolve F sigma (Phys k n))) -> In kn K) ->
  ext sigma F rho' k < n.
Proof.
  intros NK Hp -> Hz HK. rewrite <- (resolve_phys_size sigma F (env_of pi) k n).
  rewrite <- (resolve_numel sigma SZ F (Phys k n) Hz) at 2. apply eval_bound.
  apply inrange_fvn. intros k' n' Hk'. apply (env_of_in_range K pi NK Hp). apply HK. exact Hk'.
Qed.
End Solved.

(** * [clone] evaluates like the axis under a model of the substitution *)
Lemma clone_sem rho sigma : models rho sigma -> Sized sigma ->
  forall f e c, sized sigma e = true -> clone f sigma e = Ok c -> numel c = numel e /\ eval rho c = eval rho e.
Proof.
  intros M SZ. induction f as [|f IH]; intros e c Hz H; [discriminate|].
  destruct e as [k n|l|b t a]; cbn [clone] in H.
  - destruct (assoc k sigma) as [e'|] eqn:E.
    + destruct (IH e' c (SZ k e' (assoc_In _ _ _ E)) H) as [N Ev]. split.
      * rewrite N. unfold sized in Hz. simpl in Hz. rewrite E, andb_true_r in Hz. apply Nat.eqb_eq in Hz. exact Hz.
      * rewrite Ev. simpl. symmetry. eapply assoc_models; eauto.
    + inversion H; subst. split; reflexivity.
  - destruct (mapM (clone f sigma) l) as [l'|] eqn:E; [|discriminate]. cbn [bind] in H. inversion H; subst.
    destruct (productAxis_sem rho l') as [Pe Pn]. rewrite Pe, Pn, eval_Prod, numel_Prod.
    rewrite sized_Prod, forallb_forall in Hz.
    assert (G : Forall2 (fun x y => numel y = numel x /\ eval rho y = eval rho x) l l').
    { apply mapM_Forall2 in E. clear -E IH Hz. induction E as [|x y l l' Hxy E IHE]; constructor.
      - apply IH; [apply Hz; left; reflexivity|exact Hxy].
      - apply IHE. intros z Hin. apply Hz. right. exact Hin. }
    destruct (evalL_Forall2 rho rho l l' G) as [E1 E2]. split; [exact E2|exact E1].
  - destruct (clone f sigma t) as [t'|] eqn:E; [|discriminate]. cbn [bind] in H. inversion H; subst.
    destruct (IH t t' Hz E) as [N Ev]. simpl. split; [rewrite N|rewrite Ev]; reflexivity.
Qed.
