(** Binary operations WITH broadcasting: the loop of [expansion] as coded (direct antisubst
    insertions for a [unitAxis] facing a non-unit axis, [zip_longest] padding for operands of
    different rank) generalises the two operands *after broadcasting*; hence [pt_binary],
    [pt_commutative], [pt_sub_like] denote the pointwise operation on the broadcast operands.
    The guard [sizes_agree] of the former [_partial] theorems is derived here from the broadcast
    compatibility of the two shapes ([antiunify] called on axes of equal size only records parts of
    equal sizes). *)
From Coq Require Import List Arith Lia PeanoNat Bool PArith.
Import ListNotations.
Require Import Fggs.Model.Axis Fggs.Model.PTensor.
Require Import Fggs.Proofs.Axis_sem Fggs.Proofs.Axis_unify Fggs.Proofs.Axis_antiunify.
Require Import Fggs.Proofs.PTensor_sem Fggs.Proofs.PTensor_dense Fggs.Proofs.PTensor_views.
Require Import Fggs.Proofs.Axis_antiunify_inv Fggs.Proofs.PTensor_gen Fggs.Proofs.PTensor_binary Fggs.Proofs.PTensor_expand.

(** * [antiunify] on axes of equal size records parts of equal sizes *)
Definition szeq (L : list aentry) : Prop := forall en, In en L -> numel (part1 en) = numel (part2 en).

Lemma extend_szeq e f st g st' : numel e = numel f -> szeq (as_list st) ->
  extend_antisubst e f st = (g, st') -> szeq (as_list st').
Proof.
  intros N S H. unfold extend_antisubst in H. destruct (afind e f (as_list st)) as [[k n]|].
  - inversion H; subst. exact S.
  - inversion H; subst. cbn [as_list]. intros en Hen. apply in_app_or in Hen.
    destruct Hen as [Hen|[<-|[]]]; [apply S; exact Hen|exact N].
Qed.

Definition Z_anti (fuel : nat) : Prop :=
  forall e f st g st', numel e = numel f -> szeq (as_list st) ->
    antiunify fuel e f st = Ok (g, st') -> szeq (as_list st').

Definition Z_sweep (fuel : nat) : Prop :=
  forall egrp erest fgrp frest en fn ret st rets st' c,
    c > 0 -> en = c * prodn egrp -> fn = c * prodn fgrp ->
    Forall (fun x => numel x > 0) (egrp ++ erest) -> Forall (fun x => numel x > 0) (fgrp ++ frest) ->
    szeq (as_list st) ->
    sweep fuel egrp erest fgrp frest en fn ret st = Ok (rets, st') -> szeq (as_list st').

Lemma sz_step fuel : Z_anti fuel -> Z_sweep fuel -> Z_anti (S fuel) /\ Z_sweep (S fuel).
Proof.
  intros IHa IHs. split.
  - intros e f st0 g st' N S0 H. cbn [antiunify] in H.
    remember (if Nat.eqb (numel e) (numel f) then st0 else a_warn st0) as st eqn:Est.
    assert (S : szeq (as_list st)) by (subst st; rewrite as_list_warn_if; exact S0).
    clear Est S0 st0.
    destruct e as [k1 n1|l1|b1 t1 a1]; destruct f as [k2 n2|l2|b2 t2 a2];
      try (inversion H as [H']; exact (extend_szeq _ _ _ _ _ N S H')).
    + destruct (negb (zero (Prod l1)) && negb (zero (Prod l2))) eqn:Z.
      * apply andb_true_iff in Z. destruct Z as [Z1 Z2]. apply negb_true_iff in Z1, Z2.
        destruct (sweep fuel [] l1 [] l2 1 1 [] st) as [[rets st1]|] eqn:Sw; [|discriminate].
        cbn [bind fst snd] in H. inversion H; subst. clear H.
        exact (IHs [] l1 [] l2 1 1 [] st rets st' 1 (le_n 1) eq_refl eq_refl
                   (zero_factors_pos _ Z1) (zero_factors_pos _ Z2) S Sw).
      * inversion H as [H']. exact (extend_szeq _ _ _ _ _ N S H').
    + destruct (Nat.eqb b1 b2 && Nat.eqb a1 a2) eqn:E0.
      * apply andb_true_iff in E0. destruct E0 as [Eb Ea]. apply Nat.eqb_eq in Eb, Ea. subst.
        destruct (antiunify fuel t1 t2 st) as [[g1 st1]|] eqn:E1; [|discriminate].
        cbn [bind fst snd] in H. inversion H; subst. clear H.
        apply (IHa t1 t2 st g1 st'); [simpl in N; lia|exact S|exact E1].
      * inversion H as [H']. exact (extend_szeq _ _ _ _ _ N S H').
  - intros egrp erest fgrp frest en fn ret st rets st' c Hc Hen Hfn Pe Pf S H. cbn [sweep] in H.
    destruct (negb (nonempty egrp || nonempty erest || nonempty fgrp || nonempty frest)).
    { inversion H; subst. exact S. }
    destruct (Nat.eqb en fn && (nonempty egrp || nonempty fgrp)) eqn:Cut.
    + apply andb_true_iff in Cut. destruct Cut as [Eq _]. apply Nat.eqb_eq in Eq.
      assert (Pg : prodn egrp = prodn fgrp) by nia.
      set (e1 := productAxis egrp) in *. set (f1 := productAxis fgrp) in *.
      assert (N1 : numel e1 = numel f1).
      { unfold e1, f1. rewrite (proj2 (productAxis_sem (fun _ => 0) egrp)), (proj2 (productAxis_sem (fun _ => 0) fgrp)). exact Pg. }
      destruct ((if is_prod e1 && is_prod f1 then Ok (extend_antisubst e1 f1 st) else antiunify fuel e1 f1 st))
        as [[g1 st1]|] eqn:R; [|discriminate].
      cbn [bind fst snd] in H.
      assert (S1 : szeq (as_list st1)).
      { destruct (is_prod e1 && is_prod f1).
        - inversion R as [R']. exact (extend_szeq _ _ _ _ _ N1 S R').
        - exact (IHa _ _ _ _ _ N1 S R). }
      apply Forall_app in Pe. destruct Pe as [Pe1 Pe2]. apply Forall_app in Pf. destruct Pf as [Pf1 Pf2].
      assert (Hc' : en > 0). { subst en. pose proof (prodn_pos _ Pe1). nia. }
      apply (IHs [] erest [] frest en fn (ret ++ [g1]) st1 rets st' en Hc');
        [unfold prodn; simpl; lia|unfold prodn; simpl; lia|exact Pe2|exact Pf2|exact S1|exact H].
    + destruct (en <? fn).
      * destruct erest as [|x erest']; [discriminate|].
        apply (IHs (egrp ++ [x]) erest' fgrp frest (en * numel x) fn ret st rets st' c Hc);
          [rewrite prodn_app; unfold prodn at 2; simpl; nia|exact Hfn|rewrite <- app_assoc; exact Pe|exact Pf|exact S|exact H].
      * destruct frest as [|y frest']; [discriminate|].
        apply (IHs egrp erest (fgrp ++ [y]) frest' en (fn * numel y) ret st rets st' c Hc);
          [exact Hen|rewrite prodn_app; unfold prodn at 2; simpl; nia|exact Pe|rewrite <- app_assoc; exact Pf|exact S|exact H].
Qed.

Theorem antiunify_szeq : forall fuel, Z_anti fuel /\ Z_sweep fuel.
Proof.
  induction fuel as [|fuel [IHa IHs]]; [split; [intros ? ? ? ? ? ? ? H|intros ? ? ? ? ? ? ? ? ? ? ? ? ? ? ? ? ? H]; discriminate|].
  apply sz_step; assumption.
Qed.

(** * the loop of [expansion], with the broadcast operand patterns as ghost outputs

    [es], [fs]: the two operand patterns after broadcasting (processing order = reversed);
    [gs]: the generalisation; [w1], [w2]: the fresh axes prepended to [paxes1] / [paxes2]. *)
Lemma is_unit_eq e : is_unit e = true -> e = unitAxis.
Proof. destruct e as [| [|] |]; try discriminate. reflexivity. Qed.

Definition left_entry (st : astate) (f : axis) : aentry :=
  (as_next st, numel f, Phys (as_next st) (numel f), f).
Definition right_entry (st : astate) (e : axis) : aentry :=
  (as_next st, numel e, e, Phys (as_next st) (numel e)).
Definition push_entry (st : astate) (en : aentry) : astate :=
  {| as_list := as_list st ++ [en]; as_next := Pos.succ (as_next st); as_warn := as_warn st |}.

Inductive xloop (fuel : nat) : list (axis * axis) -> astate -> list axis -> list axis -> list axis ->
                               list pn -> list pn -> astate -> Prop :=
| xl_nil st : xloop fuel [] st [] [] [] [] [] st
| xl_left e f pairs st es fs gs w1 w2 st' :
    is_unit e = true -> is_unit f = false ->
    xloop fuel pairs (push_entry st (left_entry st f)) es fs gs w1 w2 st' ->
    xloop fuel ((e, f) :: pairs) st (Phys (as_next st) (numel f) :: es) (f :: fs)
          (Phys (as_next st) (numel f) :: gs) ((as_next st, numel f) :: w1) w2 st'
| xl_right e f pairs st es fs gs w1 w2 st' :
    is_unit f = true -> is_unit e = false ->
    xloop fuel pairs (push_entry st (right_entry st e)) es fs gs w1 w2 st' ->
    xloop fuel ((e, f) :: pairs) st (e :: es) (Phys (as_next st) (numel e) :: fs)
          (Phys (as_next st) (numel e) :: gs) w1 ((as_next st, numel e) :: w2) st'
| xl_norm e f pairs st g st1 es fs gs w1 w2 st' :
    normal_pair (e, f) = true -> antiunify fuel e f st = Ok (g, st1) ->
    xloop fuel pairs st1 es fs gs w1 w2 st' ->
    xloop fuel ((e, f) :: pairs) st (e :: es) (f :: fs) (g :: gs) w1 w2 st'.

Lemma loop_xloop fuel : forall pairs st n1 n2 acc st' n1' n2' lggs',
  expansion_loop fuel pairs st n1 n2 acc = Ok (st', n1', n2', lggs') ->
  exists es fs gs w1 w2, xloop fuel pairs st es fs gs w1 w2 st' /\
    lggs' = rev gs ++ acc /\ n1' = rev w1 ++ n1 /\ n2' = rev w2 ++ n2.
Proof.
  induction pairs as [|[e f] pairs IH]; intros st n1 n2 acc st' n1' n2' lggs' H.
  - simpl in H. inversion H; subst. exists [], [], [], [], []. repeat split. constructor.
  - cbn [expansion_loop] in H. destruct (is_unit e && negb (is_unit f)) eqn:C1.
    + apply andb_true_iff in C1. destruct C1 as [Ue Uf]. apply negb_true_iff in Uf.
      destruct (IH _ _ _ _ _ _ _ _ H) as (es & fs & gs & w1 & w2 & X & -> & -> & ->).
      eexists (_ :: es), (f :: fs), (_ :: gs), (_ :: w1), w2. split; [apply xl_left; eassumption|].
      simpl. rewrite <- !app_assoc. repeat split.
    + destruct (is_unit f && negb (is_unit e)) eqn:C2.
      * apply andb_true_iff in C2. destruct C2 as [Uf Ue]. apply negb_true_iff in Ue.
        destruct (IH _ _ _ _ _ _ _ _ H) as (es & fs & gs & w1 & w2 & X & -> & -> & ->).
        eexists (e :: es), (_ :: fs), (_ :: gs), w1, (_ :: w2). split; [apply xl_right; eassumption|].
        simpl. rewrite <- !app_assoc. repeat split.
      * destruct (antiunify fuel e f st) as [[g st1]|] eqn:E1; [|discriminate]. cbn [bind fst snd] in H.
        destruct (IH _ _ _ _ _ _ _ _ H) as (es & fs & gs & w1 & w2 & X & -> & -> & ->).
        exists (e :: es), (f :: fs), (g :: gs), w1, w2. split.
        -- eapply xl_norm; [|exact E1|exact X]. unfold normal_pair. cbn [fst snd]. rewrite C1, C2. reflexivity.
        -- simpl. rewrite <- !app_assoc. repeat split.
Qed.

(** ** sizes *)
Definition pair_ok (p : axis * axis) : bool :=
  Nat.eqb (numel (fst p)) (numel (snd p)) || is_unit (fst p) || is_unit (snd p).

Lemma szeq_push st en : szeq (as_list st) -> numel (part1 en) = numel (part2 en) -> szeq (as_list (push_entry st en)).
Proof.
  intros S N en' H. cbn [push_entry as_list] in H. apply in_app_or in H.
  destruct H as [H|[<-|[]]]; [apply S; exact H|exact N].
Qed.

Lemma xloop_szeq fuel pairs st es fs gs w1 w2 st' :
  xloop fuel pairs st es fs gs w1 w2 st' -> forallb pair_ok pairs = true -> szeq (as_list st) -> szeq (as_list st').
Proof.
  induction 1 as [st|e f pairs st es fs gs w1 w2 st' Ue Uf X IH|e f pairs st es fs gs w1 w2 st' Uf Ue X IH
                 |e f pairs st g st1 es fs gs w1 w2 st' Np E1 X IH]; intros P S.
  - exact S.
  - simpl in P. apply andb_true_iff in P. apply IH; [tauto|]. apply szeq_push; [exact S|reflexivity].
  - simpl in P. apply andb_true_iff in P. apply IH; [tauto|]. apply szeq_push; [exact S|reflexivity].
  - simpl in P. apply andb_true_iff in P. destruct P as [Pp P]. apply IH; [exact P|].
    refine (proj1 (antiunify_szeq fuel) e f st g st1 _ S E1).
    unfold pair_ok in Pp. cbn [fst snd] in Pp. unfold normal_pair in Np. cbn [fst snd] in Np.
    destruct (Nat.eqb_spec (numel e) (numel f)) as [N|_]; [exact N|]. simpl in Pp.
    destruct (is_unit e) eqn:Ue, (is_unit f) eqn:Uf; simpl in *; try discriminate.
    apply is_unit_eq in Ue, Uf. subst. reflexivity.
Qed.

(** ** semantics: the generalisation evaluates like the broadcast operands *)
Lemma entries_ok_push st en : entries_ok (as_list st) ->
  (match en with (_, n, e, _) => n = numel e end) -> entries_ok (as_list (push_entry st en)).
Proof. intros H N. cbn [push_entry as_list]. apply Forall_app. split; [exact H|constructor; [exact N|constructor]]. Qed.

Lemma aext_push st en : entries_ok (as_list (push_entry st en)) -> aext st (push_entry st en).
Proof. intros H. split; [exists [en]; reflexivity|exact H]. Qed.

Lemma models_in rho sigma k e : models rho sigma -> In (k, e) sigma -> rho k = eval rho e.
Proof. intros M H. unfold models in M. rewrite Forall_forall in M. exact (M _ H). Qed.

Lemma xloop_sem fuel pairs st es fs gs w1 w2 st' :
  xloop fuel pairs st es fs gs w1 w2 st' -> entries_ok (as_list st) ->
  aext st st' /\ map numel gs = map numel es /\ length es = length pairs /\ length fs = length pairs /\
  (forall rho, models rho (sigma1 (as_list st')) -> evals rho gs = evals rho es) /\
  (forall rho, models rho (sigma2 (as_list st')) -> evals rho gs = evals rho fs).
Proof.
  induction 1 as [st|e f pairs st es fs gs w1 w2 st' Ue Uf X IH|e f pairs st es fs gs w1 w2 st' Uf Ue X IH
                 |e f pairs st g st1 es fs gs w1 w2 st' Np E1 X IH]; intros Hok.
  - split; [apply aext_refl; exact Hok|]. repeat split; reflexivity.
  - assert (Hok1 : entries_ok (as_list (push_entry st (left_entry st f)))) by (apply entries_ok_push; [exact Hok|reflexivity]).
    destruct (IH Hok1) as (A & N & L1 & L2 & S1 & S2).
    split; [eapply aext_trans; [apply aext_push; exact Hok1|exact A]|].
    split; [simpl; f_equal; exact N|]. split; [simpl; f_equal; exact L1|]. split; [simpl; f_equal; exact L2|].
    split; intros rho M; unfold evals in *; simpl; f_equal; auto.
    apply (models_in rho _ _ _ (aext_models2 _ _ _ A M)).
    cbn [push_entry as_list left_entry]. unfold sigma2. rewrite map_app. apply in_or_app. right. left. reflexivity.
  - assert (Hok1 : entries_ok (as_list (push_entry st (right_entry st e)))) by (apply entries_ok_push; [exact Hok|reflexivity]).
    destruct (IH Hok1) as (A & N & L1 & L2 & S1 & S2).
    split; [eapply aext_trans; [apply aext_push; exact Hok1|exact A]|].
    split; [simpl; f_equal; exact N|]. split; [simpl; f_equal; exact L1|]. split; [simpl; f_equal; exact L2|].
    split; intros rho M; unfold evals in *; simpl; f_equal; auto.
    apply (models_in rho _ _ _ (aext_models1 _ _ _ A M)).
    cbn [push_entry as_list right_entry]. unfold sigma1. rewrite map_app. apply in_or_app. right. left. reflexivity.
  - destruct (proj1 (antiunify_both fuel) _ _ _ _ _ Hok E1) as [A1 (N1 & X1 & X2)].
    destruct (IH (proj2 A1)) as (A & N & L1 & L2 & S1 & S2).
    split; [eapply aext_trans; eauto|].
    split; [simpl; f_equal; assumption|]. split; [simpl; f_equal; exact L1|]. split; [simpl; f_equal; exact L2|].
    split; intros rho M; unfold evals in *; simpl; f_equal; auto.
    + apply X1. exact (aext_models1 _ _ _ A M).
    + apply X2. exact (aext_models2 _ _ _ A M).
Qed.
