(** C17: the enumerator [enum h d X] lists, without repetition, exactly the well-formed derivation
    trees of depth <= d rooted in X; hence (with the bijection) the number of derivations of the
    conjunction up to any depth equals the number of pairable pairs of derivations -- the count
    that the harness checks on the implementation's output grammar. *)
From Coq Require Import List Arith Bool PeanoNat Lia Permutation.
Import ListNotations.
Require Import Fggs.Model.Conj Fggs.Proofs.ConjBase Fggs.Proofs.ConjRule Fggs.Proofs.ConjHrg Fggs.Proofs.ConjBij.

(** * lists *)
Lemma NoDup_flat_map {A B} (f : A -> list B) : forall l,
  NoDup l -> (forall a, In a l -> NoDup (f a)) ->
  (forall a a' b, In a l -> In a' l -> In b (f a) -> In b (f a') -> a = a') ->
  NoDup (flat_map f l).
Proof.
  induction l as [|a l IH]; simpl; intros N F D; [constructor|].
  inversion N as [|? ? N1 N2]; subst. apply NoDup_app_intro.
  - apply F. left. reflexivity.
  - apply IH; auto. intros x x' b Hx Hx'. apply D; auto.
  - intros b H1 H2. apply in_flat_map in H2. destruct H2 as [a' [Ha' Hb]].
    assert (a = a') by (apply (D a a' b); auto). subst a'. contradiction.
Qed.

Lemma NoDup_map_inj_on {A B} (f : A -> B) : forall l,
  (forall x y, In x l -> In y l -> f x = f y -> x = y) -> NoDup l -> NoDup (map f l).
Proof.
  induction l as [|a l IH]; simpl; intros I N; [constructor|].
  inversion N as [|? ? N1 N2]; subst. constructor.
  - intros H. apply in_map_iff in H. destruct H as [x [E Hx]].
    assert (x = a) by (apply I; auto). subst x. contradiction.
  - apply IH; auto.
Qed.

Lemma NoDup_list_prod' {A B} : forall (l1 : list A) (l2 : list B),
  NoDup l1 -> NoDup l2 -> NoDup (list_prod l1 l2).
Proof.
  induction l1 as [|a l1 IH]; simpl; intros l2 N1 N2; [constructor|].
  inversion N1 as [|? ? M1 M2]; subst. apply NoDup_app_intro.
  - apply NoDup_map_inj_on; [|exact N2]. intros x y _ _ E. injection E. auto.
  - apply IH; assumption.
  - intros [x y] H1 H2. apply in_map_iff in H1. destruct H1 as [y' [E _]]. injection E as <- <-.
    apply in_prod_iff in H2. destruct H2 as [H2 _]. contradiction.
Qed.

Lemma prod_all_in {A} : forall (ls : list (list A)) l,
  In l (prod_all ls) <-> Forall2 (fun x xs => In x xs) l ls.
Proof.
  induction ls as [|xs ls IH]; simpl; intros l.
  - split; [intros [<-|[]]; constructor | intros H; inversion H; auto].
  - rewrite in_flat_map. split.
    + intros [x [Hx H]]. apply in_map_iff in H. destruct H as [l' [<- Hl']].
      constructor; [exact Hx | apply IH; exact Hl'].
    + intros H. inversion H as [|x ? l' ? Hx Hl']; subst. exists x. split; [exact Hx|].
      apply in_map. apply IH. exact Hl'.
Qed.

Lemma prod_all_nodup {A} : forall ls : list (list A), Forall (@NoDup A) ls -> NoDup (prod_all ls).
Proof.
  induction ls as [|xs ls IH]; simpl; intros F.
  - constructor; [intros [] | constructor].
  - inversion F as [|? ? Nx F']; subst. apply NoDup_flat_map.
    + exact Nx.
    + intros a _. apply NoDup_map_inj_on; [|apply IH; exact F']. intros x y _ _ E. injection E. auto.
    + intros a a' b _ _ H1 H2. apply in_map_iff in H1. destruct H1 as [l1 [<- _]].
      apply in_map_iff in H2. destruct H2 as [l2 [E _]]. injection E. auto.
Qed.

Lemma fold_max_le : forall (cs : list dtree) d,
  fold_right Nat.max 0 (map depth cs) <= d <-> Forall (fun c => depth c <= d) cs.
Proof.
  induction cs as [|c cs IH]; simpl; intros d.
  - split; [constructor | lia].
  - split.
    + intros H. constructor; [lia | apply IH; lia].
    + intros H. inversion H as [|? ? H1 H2]; subst. apply IH in H2. lia.
Qed.

(** * the enumerator *)
Lemma enum_S : forall h d X, enum h (S d) X =
  flat_map (fun kr => if elabel_eqb (r_lhs (snd kr)) X
                      then map (DNode (fst kr)) (prod_all (map (fun e => enum h d (e_lab e)) (nt_sorted (snd kr))))
                      else [])
           (indexed (all_rules h)).
Proof. reflexivity. Qed.

Lemma children_sound : forall h d,
  (forall X t, In t (enum h d X) -> wf_dtree h X t /\ depth t <= d) ->
  forall (es : list edge) cs,
    Forall2 (fun x xs => In x xs) cs (map (fun e => enum h d (e_lab e)) es) ->
    Forall2 (wf_dtree h) (map e_lab es) cs /\ Forall (fun c => depth c <= d) cs.
Proof.
  intros h d IH. induction es as [|e es IHes]; simpl; intros cs H.
  - inversion H; subst. split; constructor.
  - inversion H as [|c xs cs' ls Hc Hcs]; subst.
    destruct (IHes _ Hcs) as [A B]. destruct (IH _ _ Hc) as [C D].
    split; constructor; assumption.
Qed.

Theorem enum_sound : forall h d X t, In t (enum h d X) -> wf_dtree h X t /\ depth t <= d.
Proof.
  induction d as [|d IH]; intros X t H; [contradiction|].
  rewrite enum_S in H. apply in_flat_map in H. destruct H as [[k r] [Hk H]]. simpl in H.
  destruct (elabel_eqb (r_lhs r) X) eqn:E; [|contradiction]. apply elabel_eqb_eq in E.
  apply in_map_iff in H. destruct H as [cs [<- Hcs]]. apply prod_all_in in Hcs.
  apply indexed_nth in Hk. destruct (children_sound h d IH _ _ Hcs) as [A B].
  split; [econstructor; eauto|]. rewrite depth_eq. apply fold_max_le in B. lia.
Qed.

Lemma children_complete : forall h d,
  (forall X t, wf_dtree h X t -> depth t <= d -> In t (enum h d X)) ->
  forall (ls : list edge) cs,
    Forall2 (wf_dtree h) (map e_lab ls) cs -> Forall (fun c => depth c <= d) cs ->
    Forall2 (fun x xs => In x xs) cs (map (fun e => enum h d (e_lab e)) ls).
Proof.
  intros h d IH. induction ls as [|e es IHes]; simpl; intros cs H D.
  - inversion H; subst. constructor.
  - inversion H as [|l c ls' cs' Hc Hcs]; subst. inversion D as [|? ? Dc Dcs]; subst.
    constructor; [apply IH; assumption | apply IHes; assumption].
Qed.

Theorem enum_complete : forall h d X t, wf_dtree h X t -> depth t <= d -> In t (enum h d X).
Proof.
  induction d as [|d IH]; intros X t W D.
  - destruct t. rewrite depth_eq in D. lia.
  - inversion W as [? k r cs Hk HX Fc]; subst. rewrite depth_eq in D.
    assert (B : Forall (fun c => depth c <= d) cs) by (apply fold_max_le; lia).
    rewrite enum_S. apply in_flat_map. exists (k, r). split; [apply indexed_nth; exact Hk|].
    simpl. rewrite elabel_eqb_refl. apply in_map. apply prod_all_in.
    apply children_complete; assumption.
Qed.

Theorem enum_nodup : forall h d X, NoDup (enum h d X).
Proof.
  induction d as [|d IH]; intros X; [constructor|].
  rewrite enum_S. apply NoDup_flat_map.
  - apply (NoDup_map_fst fst). apply indexed_fst_nodup.
  - intros [k r] _. simpl. destruct (elabel_eqb (r_lhs r) X); [|constructor].
    apply NoDup_map_inj_on; [intros x y _ _ E; injection E; auto|].
    apply prod_all_nodup. apply Forall_forall. intros l Hl. apply in_map_iff in Hl.
    destruct Hl as [e [<- _]]. apply IH.
  - intros [k r] [k' r'] b H1 H2 B1 B2. simpl in B1, B2.
    destruct (elabel_eqb (r_lhs r) X); [|contradiction].
    destruct (elabel_eqb (r_lhs r') X); [|contradiction].
    apply in_map_iff in B1. destruct B1 as [cs [<- _]].
    apply in_map_iff in B2. destruct B2 as [cs' [E _]]. injection E as -> _.
    apply indexed_nth in H1. apply indexed_nth in H2. rewrite H1 in H2. injection H2 as ->. reflexivity.
Qed.

(** * counting *)
Lemma filter_map_pair_length {A B} (p : A -> B -> bool) (a : A) : forall l2 : list B,
  length (filter (fun q => p (fst q) (snd q)) (map (pair a) l2)) = length (filter (p a) l2).
Proof.
  induction l2 as [|b l2 IH]; simpl; [reflexivity|]. destruct (p a b); simpl; rewrite IH; reflexivity.
Qed.

Lemma count_pairable_eq : forall h1 h2 l1 l2,
  count_pairable h1 h2 l1 l2 =
  length (filter (fun q => pairable_b h1 h2 (fst q) (snd q)) (list_prod l1 l2)).
Proof.
  intros h1 h2 l1 l2. unfold count_pairable.
  assert (G : forall l1 acc,
    fold_left (fun acc t1 => acc + length (filter (pairable_b h1 h2 t1) l2)) l1 acc =
    acc + length (filter (fun q => pairable_b h1 h2 (fst q) (snd q)) (list_prod l1 l2))).
  { clear l1. induction l1 as [|a l1 IH]; simpl; intros acc; [lia|].
    rewrite IH, filter_app, app_length, filter_map_pair_length. lia. }
  apply G.
Qed.

(** C17_count: for every depth, the conjunction has as many derivations as there are pairable
    pairs of derivations of the two grammars *)
Theorem conj_count : forall h1 h2 g12,
  wf_hrg_b h1 = true -> wf_hrg_b h2 = true ->
  conjoin_hrgs_model h1 h2 = Ok g12 ->
  forall d, length (enum g12 d (h_start g12)) =
            count_pairable h1 h2 (enum h1 d (h_start h1)) (enum h2 d (h_start h2)).
Proof.
  intros h1 h2 g12 W1 W2 H d. rewrite count_pairable_eq.
  destruct (conj_bijection h1 h2 g12 W1 W2 H) as [U [P _]].
  set (prov := conj_prov h1 h2) in *.
  set (A := enum g12 d (h_start g12)).
  set (B := filter (fun q => pairable_b h1 h2 (fst q) (snd q))
                   (list_prod (enum h1 d (h_start h1)) (enum h2 d (h_start h2)))).
  assert (NA : NoDup A) by apply enum_nodup.
  assert (NB : NoDup B).
  { apply NoDup_filter. apply NoDup_list_prod'; apply enum_nodup. }
  assert (UB : forall a, In a A -> In (unpair_tree prov a) B).
  { intros a Ha. apply enum_sound in Ha. destruct Ha as [Wa Da].
    destruct (U a Wa) as [X1 [X2 [X3 [_ [X5 X6]]]]].
    rewrite (surjective_pairing (unpair_tree prov a)). apply filter_In. split; [|exact X3].
    apply in_prod; apply enum_complete; auto; lia. }
  assert (INJ : forall a a', In a A -> In a' A -> unpair_tree prov a = unpair_tree prov a' -> a = a').
  { intros a a' Ha Ha' E. apply enum_sound in Ha. apply enum_sound in Ha'.
    destruct (U a (proj1 Ha)) as [_ [_ [_ [X4 _]]]]. destruct (U a' (proj1 Ha')) as [_ [_ [_ [X4' _]]]].
    rewrite E in X4. rewrite X4 in X4'. injection X4'. auto. }
  assert (SUR : forall b, In b B -> In b (map (unpair_tree prov) A)).
  { intros [t1 t2] Hb. apply filter_In in Hb. destruct Hb as [Hb Pb]. simpl in Pb.
    apply in_prod_iff in Hb. destruct Hb as [H1 H2].
    apply enum_sound in H1. apply enum_sound in H2. destruct H1 as [Wt1 D1]. destruct H2 as [Wt2 D2].
    destruct (P t1 t2 Wt1 Wt2 Pb) as [t [_ [Wt Et]]].
    apply in_map_iff. exists t. split; [exact Et|]. apply enum_complete; [exact Wt|].
    destruct (U t Wt) as [_ [_ [_ [_ [X5 _]]]]]. rewrite Et in X5. simpl in X5. lia. }
  apply Nat.le_antisymm.
  - rewrite <- (map_length (unpair_tree prov) A). apply NoDup_incl_length.
    + apply NoDup_map_inj_on; assumption.
    + intros b Hb. apply in_map_iff in Hb. destruct Hb as [a [<- Ha]]. apply UB. exact Ha.
  - rewrite <- (map_length (unpair_tree prov) A). apply NoDup_incl_length; [exact NB | exact SUR].
Qed.
