(** C16 -- a call that raises leaves every object unchanged, for the calls that satisfy
    [atomic_ok].  The only state hypothesis is the dict-key discipline of the label tables
    ([tabs_keyed]), which holds in EVERY reachable state, guards or not. *)
From Coq Require Import List Arith Bool Lia.
Import ListNotations.
Require Import Fggs.Model.GraphAPI Fggs.Proofs.GraphAPI_assoc Fggs.Proofs.GraphAPI_wf
        Fggs.Proofs.GraphAPI_graph Fggs.Proofs.GraphAPI_hrg Fggs.Proofs.GraphAPI_inv.

Definition tabs_keyed_os (os : list obj) : Prop := forall k o, nth_error os k = Some o -> tab_ok (tab_of o).
Definition tabs_keyed (s : state) : Prop := tabs_keyed_os (objs s).

(** * [tabs_keyed] is an unconditional invariant *)
Lemma tk_set_nth : forall os h o, tabs_keyed_os os -> tab_ok (tab_of o) -> tabs_keyed_os (set_nth os h o).
Proof.
  intros os h o T H k o' Hk. destruct (Nat.eq_dec k h) as [->|N].
  - destruct (Nat.lt_ge_cases h (length os)) as [L|L].
    + rewrite nth_error_set_nth_same in Hk by assumption. inversion Hk; subst. assumption.
    + assert (X : nth_error (set_nth os h o) h = None).
      { apply nth_error_None. rewrite length_set_nth. assumption. }
      congruence.
  - rewrite nth_error_set_nth_other in Hk by assumption. eapply T; eauto.
Qed.

Lemma tk_app : forall os news, tabs_keyed_os os -> (forall o, In o news -> tab_ok (tab_of o)) -> tabs_keyed_os (os ++ news).
Proof.
  intros os news T H k o Hk. destruct (Nat.lt_ge_cases k (length os)) as [L|L].
  - rewrite nth_error_app1 in Hk by assumption. eapply T; eauto.
  - rewrite nth_error_app2 in Hk by assumption. apply H. eapply nth_error_In; eauto.
Qed.

Lemma g_add_edge_tab : forall g e, tab_ok (g_tab g) -> tab_ok (g_tab (fst (g_add_edge g e))).
Proof.
  intros g e T. pose proof (add_missing_grows (e_nodes e) g) as GR.
  destruct (g_add_edge_cases g e T) as [[E _]|[[E _]|(t' & E & _ & _ & L)]]; rewrite E; cbn [fst].
  - assumption.
  - apply (gr_tab _ _ GR). assumption.
  - cbn. apply (add_edge_label_spec _ _ _ _ L (gr_tab _ _ GR T)).
Qed.

Lemma fold_err_pres : forall {A B} (P : A -> Prop) (f : A -> B -> A * result),
    (forall a x, P a -> P (fst (f a x))) -> forall l a, P a -> P (fst (fold_err f l a)).
Proof.
  intros A B P f H. induction l as [|x l IH]; intros a Pa; cbn; [assumption|].
  pose proof (H a x Pa) as P1. destruct (f a x) as [a' [| |k]]; cbn in *; auto.
Qed.

Lemma g_copy_tab : forall g c, g_copy g = inl c -> tab_ok (g_tab c).
Proof.
  intros g c E. unfold g_copy in E. destruct (g_fg g).
  - pose proof (fold_err_pres (fun g => tab_ok (g_tab g)) g_add_node
                              (fun a x T => gr_tab _ _ (add_node_grows a x) T)
                              (map snd (g_nodes g)) (empty_graph true) tab_ok_empty) as P1.
    destruct (fold_err g_add_node (map snd (g_nodes g)) (empty_graph true)) as [c1 r1]. cbn in P1.
    pose proof (fold_err_pres (fun g => tab_ok (g_tab g)) g_add_edge g_add_edge_tab (map snd (g_edges g)) c1 P1) as P2.
    destruct (fold_err g_add_edge (map snd (g_edges g)) c1) as [c2 r2]. cbn in P2.
    destruct r1 as [| |k1]; [| |discriminate]; (destruct r2 as [| |k2]; [| |discriminate]);
      inversion E; subst; cbn; destruct P2; split; assumption.
  - inversion E; subst. apply tab_ok_empty.
Qed.

Lemma h_set_start_tab : forall h sp, tab_ok (h_tab h) -> tab_ok (h_tab (fst (h_set_start h sp))).
Proof.
  intros h sp T. unfold h_set_start. destruct sp as [|l|n]; cbn; [assumption| |].
  all: match goal with |- context [if el_term ?l then _ else _] => set (lab := l) end.
  all: destruct (el_term lab); [assumption|].
  all: destruct (t_add_edge_label (h_tab h) lab) as [t1 r1] eqn:E1.
  all: destruct (add_edge_label_spec _ _ _ _ E1 T) as (A & _).
  all: destruct r1; cbn; assumption.
Qed.

Lemma h_add_rule_tab : forall h r g, tab_ok (h_tab h) -> tab_ok (h_tab (fst (h_add_rule h r g))).
Proof.
  intros h r g T. unfold h_add_rule.
  destruct (t_add_edge_label (h_tab h) (r_lhs r)) as [t1 r1] eqn:E1.
  destruct (add_edge_label_spec _ _ _ _ E1 T) as (A1 & _).
  destruct (fold_nl_ok (g_nodes g) t1 A1) as [A2 _].
  set (t2 := fold_left (fun t kn => t_add_node_label t (n_label (snd kn))) (g_nodes g) t1) in *.
  destruct (fold_err (fun t ke => t_add_edge_label t (e_label (snd ke))) (g_edges g) t2) as [t3 r3] eqn:E3.
  destruct (fold_el_spec _ _ _ _ E3 A2) as (A3 & _).
  destruct r1 as [| |k1]; [| |cbn; assumption]; (destruct r3; cbn; assumption).
Qed.

Lemma on_graph_tk : forall s c h f,
    tabs_keyed s -> (forall g, tab_ok (g_tab g) -> tab_ok (g_tab (fst (f g)))) -> tabs_keyed (fst (on_graph s c h f)).
Proof.
  intros s c h f T H. unfold on_graph. destruct (get_graph (objs s) h) as [g|] eqn:G; [|exact T].
  unfold get_graph in G. destruct (nth_error (objs s) h) as [[g0|]|] eqn:N; try discriminate. inversion G; subst.
  pose proof (H g (T _ _ N)) as X. destruct (f g) as [g' r]. cbn in *.
  unfold tabs_keyed. cbn. apply tk_set_nth; assumption.
Qed.

Lemma on_hrg_tk : forall s h f,
    tabs_keyed s -> (forall x, tab_ok (h_tab x) -> tab_ok (h_tab (fst (f x)))) -> tabs_keyed (fst (on_hrg s h f)).
Proof.
  intros s h f T H. unfold on_hrg. destruct (get_hrg (objs s) h) as [x|] eqn:G; [|exact T].
  unfold get_hrg in G. destruct (nth_error (objs s) h) as [[|x0]|] eqn:N; try discriminate. inversion G; subst.
  pose proof (H x (T _ _ N)) as X. destruct (f x) as [x' r]. cbn in *.
  unfold tabs_keyed. cbn. apply tk_set_nth; assumption.
Qed.

Lemma on_tab_tk : forall s b h f,
    tabs_keyed s -> (forall t, tab_ok t -> tab_ok (fst (f t))) -> tabs_keyed (fst (on_tab s b h f)).
Proof.
  intros s b h f T H. unfold on_tab. destruct (nth_error (objs s) h) as [o|] eqn:N; [|exact T].
  destruct (b && negb (has_interp o)); [exact T|].
  pose proof (H _ (T _ _ N)) as X. destruct (f (tab_of o)) as [t r]. cbn in *.
  unfold tabs_keyed. cbn. apply tk_set_nth; [assumption|]. destruct o; cbn; assumption.
Qed.

Lemma mk_edge_tab : forall l ns i g, tab_ok (g_tab g) -> tab_ok (g_tab (fst (mk_edge_and_add l ns i g))).
Proof.
  intros l ns i g T. unfold mk_edge_and_add. destruct i as [i|]; [|assumption].
  destruct (lnat_eq_dec (el_ty l) (map n_label ns)); [apply g_add_edge_tab; assumption | assumption].
Qed.

Lemma h_new_tab : forall b sp h r, h_new b sp = (Some h, r) -> tab_ok (h_tab h).
Proof.
  intros b sp h r E. unfold h_new in E.
  pose proof (h_set_start_tab (mkH b [] (EL 0 [] false) empty_tab) sp tab_ok_empty) as X.
  destruct (h_set_start (mkH b [] (EL 0 [] false) empty_tab) sp) as [h' [| |k]]; inversion E; subst. assumption.
Qed.

Theorem step_tabs_keyed : forall s o, tabs_keyed s -> tabs_keyed (fst (step s o)).
Proof.
  intros s o T. destruct o; cbn [step].
  - apply tk_app; [assumption|]. intros o [<-|[]]. apply tab_ok_empty.
  - apply tk_app; [assumption|]. intros o [<-|[]]. apply tab_ok_empty.
  - destruct (h_new false s0) as [[x|] r] eqn:E; [|exact T].
    apply tk_app; [assumption|]. intros o [<-|[]]. cbn. eapply h_new_tab; eauto.
  - destruct (h_new true s0) as [[x|] r] eqn:E; [|exact T].
    apply tk_app; [assumption|]. intros o [<-|[]]. cbn. eapply h_new_tab; eauto.
  - destruct (resolve (ctr s) [n]) as [ns c]. destruct ns as [|x [|y ns]]; try exact T.
    apply on_graph_tk; [assumption|]. intros g Tg. apply (gr_tab _ _ (add_node_grows g x) Tg).
  - destruct (resolve_id (ctr s) i) as [[i'|] c]; [|exact T].
    apply on_graph_tk; [assumption|]. intros g Tg. apply (gr_tab _ _ (add_node_grows g _) Tg).
  - apply on_graph_tk; [assumption|]. intros g Tg. unfold g_remove_node.
    destruct (negb _); cbn; [assumption|]. destruct (existsb _ _); cbn; [assumption|].
    destruct (inb _ _ _); cbn; assumption.
  - destruct (resolve (ctr s) ns) as [ns' c]. destruct (resolve_id c i) as [i' c'].
    apply on_graph_tk; [assumption|]. intros g Tg. apply mk_edge_tab. assumption.
  - destruct (resolve (ctr s) ns) as [ns' c]. destruct (resolve_id c i) as [i' c'].
    destruct ((t && nt) || (negb t && negb nt)); [exact T|].
    apply on_graph_tk; [assumption|]. intros g Tg. apply mk_edge_tab. assumption.
  - apply on_graph_tk; [assumption|]. intros g Tg. unfold g_remove_edge. destruct (negb _); cbn; assumption.
  - destruct (resolve (ctr s) ns) as [ns' c].
    apply on_graph_tk; [assumption|]. intros g Tg. cbn. apply (gr_tab _ _ (add_missing_grows ns' g) Tg).
  - destruct (nth_error (objs s) h) as [[g|x]|] eqn:N; [| |exact T].
    + destruct (g_copy g) as [c|] eqn:C; [|exact T].
      apply tk_app; [assumption|]. intros o [<-|[]]. cbn. eapply g_copy_tab; eauto.
    + destruct (h_copy (objs s) x) as [[c news]|] eqn:C; [|exact T].
      unfold h_copy in C.
      destruct (h_new (h_fgg x) (SLabel (h_start x))) as [[c0|] r0]; [|destruct r0; discriminate].
      destruct (copy_groups (objs s) (S (length (objs s))) (h_rules x)) as [[gs news0]|] eqn:E1; [|discriminate].
      inversion C; subst. destruct (copy_groups_spec _ _ _ _ _ E1) as (_ & _ & D).
      apply tk_app; [assumption|]. intros o [<-|Ho].
      * cbn. destruct (T _ _ N) as [a b]. split; assumption.
      * destruct (D _ Ho) as (k & rs & _ & (r & g & c1 & -> & _ & _ & Hc)). cbn. eapply g_copy_tab; eauto.
  - destruct (get_graph (objs s) g); exact T.
  - destruct (get_graph (objs s) g) as [g0|]; [|exact T]. destruct (rule_ok l g0); [|exact T].
    apply (on_hrg_tk s h (fun x => h_add_rule x (Rule l g) g0)); [assumption|]. intros; apply h_add_rule_tab; assumption.
  - destruct (get_graph (objs s) g) as [g0|]; [|exact T]. destruct (rule_ok _ g0); [|exact T].
    apply (on_hrg_tk s h (fun x => h_add_rule x (Rule (EL name (g_type g0) false) g) g0)); [assumption|].
    intros; apply h_add_rule_tab; assumption.
  - apply on_hrg_tk; [assumption|]. intros; apply h_set_start_tab; assumption.
  - apply on_tab_tk; [assumption|]. intros t0 T0. cbn. apply add_node_label_ok. assumption.
  - apply on_tab_tk; [assumption|]. intros t0 T0.
    destruct (t_add_edge_label t0 l) as [t1 r1] eqn:E. apply (add_edge_label_spec _ _ _ _ E T0).
  - apply on_tab_tk; [assumption|]. intros t0 T0. apply add_domain_ok. assumption.
  - apply on_tab_tk; [assumption|]. intros t0 T0. apply add_factor_ok. assumption.
  - apply on_tab_tk; [assumption|]. intros t0 T0. apply add_domain_ok. assumption.
  - apply on_tab_tk; [assumption|]. intros t0 T0. apply new_finite_factor_ok. assumption.
  - destruct (nth_error (objs s) h1), (nth_error (objs s) h2); exact T.
Qed.

Theorem reachable_tabs_keyed : forall ops, tabs_keyed (run init ops).
Proof.
  assert (H : forall ops s, tabs_keyed s -> tabs_keyed (run s ops)).
  { induction ops as [|o ops IH]; intros s T; [exact T|]. unfold run in *. cbn. apply IH. apply step_tabs_keyed. assumption. }
  intros ops. apply H. intros k o Hk. destruct k; discriminate.
Qed.

(** * atomicity *)
Lemma on_graph_atomic : forall s c h f,
    (forall g, get_graph (objs s) h = Some g -> is_err (snd (f g)) = true -> fst (f g) = g) ->
    is_err (snd (on_graph s c h f)) = true -> objs (fst (on_graph s c h f)) = objs s.
Proof.
  intros s c h f H. unfold on_graph. destruct (get_graph (objs s) h) as [g|] eqn:G; [|reflexivity].
  specialize (H g eq_refl). destruct (f g) as [g' r]. cbn in *. intros E. rewrite (H E).
  apply set_nth_same. unfold get_graph in G. destruct (nth_error (objs s) h) as [[g0|]|]; congruence.
Qed.

Lemma on_hrg_atomic : forall s h f,
    (forall x, get_hrg (objs s) h = Some x -> is_err (snd (f x)) = true -> fst (f x) = x) ->
    is_err (snd (on_hrg s h f)) = true -> objs (fst (on_hrg s h f)) = objs s.
Proof.
  intros s h f H. unfold on_hrg. destruct (get_hrg (objs s) h) as [x|] eqn:G; [|reflexivity].
  specialize (H x eq_refl). destruct (f x) as [x' r]. cbn in *. intros E. rewrite (H E).
  apply set_nth_same. unfold get_hrg in G. destruct (nth_error (objs s) h) as [[|x0]|]; congruence.
Qed.

Lemma with_tab_id : forall o, with_tab o (tab_of o) = o.
Proof. destruct o as [[? ? ? ? ?]|[? ? ? ?]]; reflexivity. Qed.

Lemma on_tab_atomic : forall s b h f,
    (forall o, nth_error (objs s) h = Some o -> (b && negb (has_interp o)) = false ->
               is_err (snd (f (tab_of o))) = true -> fst (f (tab_of o)) = tab_of o) ->
    is_err (snd (on_tab s b h f)) = true -> objs (fst (on_tab s b h f)) = objs s.
Proof.
  intros s b h f H. unfold on_tab. destruct (nth_error (objs s) h) as [o|] eqn:N; [|reflexivity].
  destruct (b && negb (has_interp o)) eqn:B; [reflexivity|].
  specialize (H o eq_refl B). destruct (f (tab_of o)) as [t r]. cbn in *. intros E. rewrite (H E).
  rewrite with_tab_id. apply set_nth_same. assumption.
Qed.

Lemma set_nl_id : forall t, set_nl t (t_nl t) = t.
Proof. destruct t; reflexivity. Qed.
Lemma hset_tab_id : forall h, hset_tab h (h_tab h) = h.
Proof. destruct h; reflexivity. Qed.

(** a registered label: registering it again changes nothing *)
Lemma add_edge_label_registered : forall t l, registered t l -> t_add_edge_label t l = (t, ROk).
Proof.
  intros t l R. unfold t_add_edge_label. unfold registered in R. rewrite R.
  destruct (elabel_eq_dec l l); [|congruence]. rewrite aset_id by assumption. rewrite set_el_id. reflexivity.
Qed.

Lemma add_factor_atomic_registered : forall t l f,
    registered t l -> is_err (snd (t_add_factor t l f)) = true -> fst (t_add_factor t l f) = t.
Proof.
  intros t l f R. unfold t_add_factor. destruct (negb (el_term l)); [reflexivity|].
  rewrite (add_edge_label_registered _ _ R).
  destruct (amem Nat.eq_dec (t_fac t) (el_name l)); [reflexivity|].
  destruct (negb (Nat.eqb (length (f_doms f)) (length (el_ty l)))); [reflexivity|].
  destruct (negb (fac_doms_ok t (el_ty l) (f_doms f))); [reflexivity|]. cbn. discriminate.
Qed.

Lemma mk_edge_atomic : forall l ns i g,
    tab_ok (g_tab g) ->
    (label_conflict (g_tab g) l = true -> forallb (fun n => amem ident_eq_dec (g_nodes g) (n_id n)) ns = true) ->
    is_err (snd (mk_edge_and_add l ns i g)) = true -> fst (mk_edge_and_add l ns i g) = g.
Proof.
  intros l ns i g T GD. unfold mk_edge_and_add. destruct i as [i|]; [|reflexivity].
  destruct (lnat_eq_dec (el_ty l) (map n_label ns)); [|reflexivity].
  destruct (g_add_edge_cases g (Edge l ns i) T) as [[E _]|[[E (_ & LC)]|(t' & E & _)]]; rewrite E; cbn [fst snd].
  - reflexivity.
  - intros _. cbn in LC. apply add_missing_id. intros n Hn. cbn in Hn.
    specialize (GD LC). rewrite forallb_forall in GD. apply GD. assumption.
  - discriminate.
Qed.

Theorem step_atomic : forall s o,
    tabs_keyed s -> atomic_ok s o = true -> is_err (snd (step s o)) = true ->
    objs (fst (step s o)) = objs s.
Proof.
  intros s o T G. unfold atomic_ok in G.
  apply andb_true_iff in G. destruct G as [G G3]. apply andb_true_iff in G. destruct G as [G1 G2].
  destruct o; cbn [step].
  - discriminate.
  - discriminate.
  - destruct (h_new false s0) as [[x|] r] eqn:E; [|reflexivity].
    unfold h_new in E. destruct (h_set_start _ s0) as [h' [| |k]]; inversion E; subst; discriminate.
  - destruct (h_new true s0) as [[x|] r] eqn:E; [|reflexivity].
    unfold h_new in E. destruct (h_set_start _ s0) as [h' [| |k]]; inversion E; subst; discriminate.
  - destruct (resolve (ctr s) [n]) as [ns c]. destruct ns as [|x [|y ns]]; try reflexivity.
    apply on_graph_atomic. intros g _. unfold g_add_node. destruct (amem _ _ _); cbn; [reflexivity | discriminate].
  - destruct (resolve_id (ctr s) i) as [[i'|] c]; [|reflexivity].
    apply on_graph_atomic. intros g _. unfold g_add_node. destruct (amem _ _ _); cbn; [reflexivity | discriminate].
  - apply on_graph_atomic. intros g _. unfold g_remove_node.
    destruct (negb _); cbn; [reflexivity|]. destruct (existsb _ _); cbn; [reflexivity|].
    destruct (inb _ _ _); cbn; [reflexivity | discriminate].
  - (* AddEdge *)
    cbn in G1. unfold resolved in G1.
    destruct (resolve (ctr s) ns) as [ns' c] eqn:ER. destruct (resolve_id c i) as [i' c'] eqn:EI. cbn [fst] in G1.
    intros ERR. revert ERR. apply on_graph_atomic. intros g Hg ERR.
    rewrite Hg in G1.
    assert (RS : is_err (snd (on_graph s c' h (mk_edge_and_add l ns' i'))) = true).
    { unfold on_graph. rewrite Hg. destruct (mk_edge_and_add l ns' i' g). exact ERR. }
    rewrite RS in G1. cbn in G1.
    apply mk_edge_atomic; [| |assumption].
    + unfold get_graph in Hg. destruct (nth_error (objs s) h) as [[g0|]|] eqn:N; try discriminate.
      inversion Hg; subst. apply (T _ _ N).
    + intros LC. rewrite LC in G1. exact G1.
  - (* NewEdge *)
    cbn in G1. unfold resolved in G1.
    destruct (resolve (ctr s) ns) as [ns' c] eqn:ER. destruct (resolve_id c i) as [i' c'] eqn:EI. cbn [fst] in G1.
    destruct ((t && nt) || (negb t && negb nt)); [reflexivity|].
    intros ERR. revert ERR. apply on_graph_atomic. intros g Hg ERR.
    rewrite Hg in G1.
    assert (RS : is_err (snd (on_graph s c' h (mk_edge_and_add (EL name (map n_label ns') t) ns' i'))) = true).
    { unfold on_graph. rewrite Hg. destruct (mk_edge_and_add _ ns' i' g). exact ERR. }
    rewrite RS in G1. cbn in G1.
    apply mk_edge_atomic; [| |assumption].
    + unfold get_graph in Hg. destruct (nth_error (objs s) h) as [[g0|]|] eqn:N; try discriminate.
      inversion Hg; subst. apply (T _ _ N).
    + intros LC. rewrite LC in G1. exact G1.
  - apply on_graph_atomic. intros g _. unfold g_remove_edge. destruct (negb _); cbn; [reflexivity | discriminate].
  - destruct (resolve (ctr s) ns) as [ns' c]. apply on_graph_atomic. intros g _. cbn. discriminate.
  - destruct (nth_error (objs s) h) as [[g|x]|]; [| |reflexivity].
    + destruct (g_copy g); [discriminate | reflexivity].
    + destruct (h_copy (objs s) x) as [[c news]|]; [discriminate | reflexivity].
  - destruct (get_graph (objs s) g); reflexivity.
  - (* AddRule *)
    cbn in G2. destruct (get_graph (objs s) g) as [g0|] eqn:Hg; [|reflexivity].
    destruct (rule_ok l g0) eqn:RO; [|reflexivity].
    apply (on_hrg_atomic s h (fun x => h_add_rule x (Rule l g) g0)). intros x Hx ERR.
    rewrite Hx in G2. cbn in G2.
    destruct (h_add_rule x (Rule l g) g0) as [x' r] eqn:E. cbn in *. rewrite ERR in G2. cbn in G2.
    destruct (tables_eq_dec (h_tab x') (h_tab x)) as [TE|]; [|discriminate].
    unfold h_add_rule in E.
    destruct (t_add_edge_label (h_tab x) (r_lhs (Rule l g))) as [t1 [| |k1]].
    3:{ inversion E; subst. reflexivity. }
    all: destruct (fold_err _ (g_edges g0) _) as [t3 [| |k3]]; inversion E; subst; cbn in *; try discriminate.
    all: rewrite TE; apply hset_tab_id.
  - (* NewRule *)
    unfold rule_reg_ok in G2. destruct (get_graph (objs s) g) as [g0|] eqn:Hg; [|reflexivity].
    destruct (rule_ok (EL name (g_type g0) false) g0) eqn:RO; [|reflexivity].
    apply (on_hrg_atomic s h (fun x => h_add_rule x (Rule (EL name (g_type g0) false) g) g0)). intros x Hx ERR.
    rewrite Hx in G2. cbv beta iota in G2. cbn [negb orb] in G2.
    destruct (h_add_rule x (Rule (EL name (g_type g0) false) g) g0) as [x' r] eqn:E. cbn in *. rewrite ERR in G2. cbn in G2.
    destruct (tables_eq_dec (h_tab x') (h_tab x)) as [TE|]; [|discriminate].
    unfold h_add_rule in E.
    destruct (t_add_edge_label (h_tab x) (r_lhs (Rule (EL name (g_type g0) false) g))) as [t1 [| |k1]].
    3:{ inversion E; subst. reflexivity. }
    all: destruct (fold_err _ (g_edges g0) _) as [t3 [| |k3]]; inversion E; subst; cbn in *; try discriminate.
    all: rewrite TE; apply hset_tab_id.
  - (* SetStart *)
    apply on_hrg_atomic. intros x _. unfold h_set_start. destruct s0 as [|l|n]; [reflexivity| |].
    all: match goal with |- context [if el_term ?l then _ else _] => set (lab := l) end.
    all: destruct (el_term lab); [reflexivity|].
    all: destruct (t_add_edge_label (h_tab x) lab) as [t1 [| |k]]; cbn; try discriminate; reflexivity.
  - apply on_tab_atomic. intros; discriminate.
  - apply on_tab_atomic. intros o Ho _ ERR.
    destruct (t_add_edge_label (tab_of o) l) as [t1 r1] eqn:E.
    destruct (add_edge_label_spec _ _ _ _ E (T _ _ Ho)) as (_ & _ & _ & D & _). cbn in *.
    apply D. intro; subst; discriminate.
  - (* AddDomain *)
    cbn in G3. apply on_tab_atomic. intros o Ho B ERR. rewrite Ho in G3. cbn in B. rewrite B in G3. cbn in G3.
    unfold t_add_domain in *.
    destruct (amem Nat.eq_dec (t_dom (t_add_node_label (tab_of o) l)) l) eqn:M; [|discriminate]. cbn in M.
    rewrite M in G3. cbn in G3. cbn.
    apply amem_true in G3. destruct G3 as [v Hv].
    pose proof (keyed_aget Nat.eq_dec (fun l : nat => l) _ _ _ (tk_nl _ (T _ _ Ho)) Hv) as Ev. cbn in Ev. subst v.
    unfold t_add_node_label. rewrite aset_id by assumption. apply set_nl_id.
  - (* AddFactor *)
    cbn [interp_reg_ok] in G3. intros ERR. revert ERR. apply on_tab_atomic. intros o Ho B ERR. rewrite Ho in G3.
    cbn in B. rewrite B in G3.
    assert (RS : is_err (snd (on_tab s true h (fun t => t_add_factor t l f))) = true).
    { unfold on_tab. rewrite Ho. cbn. rewrite B. destruct (t_add_factor (tab_of o) l f). exact ERR. }
    change (snd (step s (AddFactor h l f))) with (snd (on_tab s true h (fun t => t_add_factor t l f))) in G3.
    rewrite RS in G3. cbn in G3.
    destruct (el_term l) eqn:TM; cbn in G3.
    2:{ unfold t_add_factor. rewrite TM. reflexivity. }
    destruct (label_conflict (tab_of o) l) eqn:LC; cbn in G3.
    { unfold t_add_factor, t_add_edge_label. rewrite TM. cbn. unfold label_conflict, elabel_eqb in LC.
      destruct (aget Nat.eq_dec (t_el (tab_of o)) (el_name l)) as [l'|]; [|discriminate].
      destruct (elabel_eq_dec l' l); [discriminate | reflexivity]. }
    apply add_factor_atomic_registered; [|assumption].
    unfold registered. unfold label_conflict, elabel_eqb in LC.
    destruct (aget Nat.eq_dec (t_el (tab_of o)) (el_name l)) as [l'|]; [|discriminate].
    destruct (elabel_eq_dec l' l); [congruence | discriminate].
  - (* NewFiniteDomain *)
    cbn in G3. apply on_tab_atomic. intros o Ho B ERR. rewrite Ho in G3. cbn in B. rewrite B in G3. cbn in G3.
    unfold t_add_domain in *.
    destruct (amem Nat.eq_dec (t_dom (t_add_node_label (tab_of o) l)) l) eqn:M; [|discriminate]. cbn in M.
    rewrite M in G3. cbn in G3. cbn.
    apply amem_true in G3. destruct G3 as [v Hv].
    pose proof (keyed_aget Nat.eq_dec (fun l : nat => l) _ _ _ (tk_nl _ (T _ _ Ho)) Hv) as Ev. cbn in Ev. subst v.
    unfold t_add_node_label. rewrite aset_id by assumption. apply set_nl_id.
  - (* NewFiniteFactor *)
    apply on_tab_atomic. intros o Ho B ERR. unfold t_new_finite_factor in *.
    destruct (aget Nat.eq_dec (t_el (tab_of o)) name) as [l|] eqn:GL; [|reflexivity].
    destruct (lookup_doms (tab_of o) (el_ty l)) as [ds|]; [|reflexivity].
    destruct (lnat_eq_dec shape (map (@length nat) ds)); [|reflexivity].
    apply add_factor_atomic_registered; [|assumption].
    pose proof (keyed_aget Nat.eq_dec el_name _ _ _ (tk_el _ (T _ _ Ho)) GL) as En. unfold registered. rewrite <- En. assumption.
  - destruct (nth_error (objs s) h1), (nth_error (objs s) h2); reflexivity.
Qed.

Corollary step_atomic_observe : forall s o,
    tabs_keyed s -> atomic_ok s o = true -> is_err (snd (step s o)) = true ->
    observe (fst (step s o)) = observe s.
Proof. intros. unfold observe. f_equal. apply step_atomic; assumption. Qed.
