(** C16 -- a call that raises leaves every object unchanged: unconditionally, in every state
    (the code now tests before it mutates).  Also: objects without an interpretation (Graph,
    HRG) never get domains or factors ([plain_ok], an unconditional invariant used by the copy
    theorems). *)
From Coq Require Import List Arith Bool Lia.
Import ListNotations.
Require Import Fggs.Model.GraphAPI Fggs.Proofs.GraphAPI_assoc Fggs.Proofs.GraphAPI_wf
        Fggs.Proofs.GraphAPI_graph Fggs.Proofs.GraphAPI_hrg Fggs.Proofs.GraphAPI_inv.

(** * atomicity *)
Lemma on_graph_atomic : forall s c h f,
    (forall g, get_graph (objs s) h = Some g -> is_err (snd (f g)) = true -> fst (f g) = g) ->
    is_err (snd (on_graph s c h f)) = true -> objs (fst (on_graph s c h f)) = objs s.
Proof.
  intros s c h f H. unfold on_graph. destruct (get_graph (objs s) h) as [g|] eqn:G; [|reflexivity].
  specialize (H g eq_refl). destruct (f g) as [g' r]. cbn in *. intros E. rewrite (H E).
  apply set_nth_same. unfold get_graph in G. destruct (nth_error (objs s) h) as [[g0|]|]; congruence.
Qed.

Lemma on_hrg_atomic : forall s h f,
    (forall x, get_hrg (objs s) h = Some x -> is_err (snd (f x)) = true -> fst (f x) = x) ->
    is_err (snd (on_hrg s h f)) = true -> objs (fst (on_hrg s h f)) = objs s.
Proof.
  intros s h f H. unfold on_hrg. destruct (get_hrg (objs s) h) as [x|] eqn:G; [|reflexivity].
  specialize (H x eq_refl). destruct (f x) as [x' r]. cbn in *. intros E. rewrite (H E).
  apply set_nth_same. unfold get_hrg in G. destruct (nth_error (objs s) h) as [[|x0]|]; congruence.
Qed.

Lemma with_tab_id : forall o, with_tab o (tab_of o) = o.
Proof. destruct o as [[? ? ? ? ?]|[? ? ? ?]]; reflexivity. Qed.

Lemma on_tab_atomic : forall s b h f,
    (forall t, is_err (snd (f t)) = true -> fst (f t) = t) ->
    is_err (snd (on_tab s b h f)) = true -> objs (fst (on_tab s b h f)) = objs s.
Proof.
  intros s b h f H. unfold on_tab. destruct (nth_error (objs s) h) as [o|] eqn:N; [|reflexivity].
  destruct (b && negb (has_interp o)) eqn:B; [reflexivity|].
  specialize (H (tab_of o)). destruct (f (tab_of o)) as [t r]. cbn in *. intros E. rewrite (H E).
  rewrite with_tab_id. apply set_nth_same. assumption.
Qed.

Lemma add_edge_label_atomic : forall t l, is_err (snd (t_add_edge_label t l)) = true -> fst (t_add_edge_label t l) = t.
Proof.
  intros t l. unfold t_add_edge_label. destruct (aget Nat.eq_dec (t_el t) (el_name l)) as [l'|]; [|cbn; discriminate].
  destruct (elabel_eq_dec l' l); cbn; [discriminate | reflexivity].
Qed.

Lemma add_domain_atomic : forall t l d, is_err (snd (t_add_domain t l d)) = true -> fst (t_add_domain t l d) = t.
Proof.
  intros t l d. unfold t_add_domain. destruct (amem Nat.eq_dec (t_dom t) l); cbn; [reflexivity | discriminate].
Qed.

Lemma add_factor_atomic : forall t l f, is_err (snd (t_add_factor t l f)) = true -> fst (t_add_factor t l f) = t.
Proof.
  intros t l f. unfold t_add_factor.
  destruct (negb (el_term l)); [reflexivity|].
  destruct (label_conflict t l) eqn:LC; [reflexivity|].
  destruct (amem Nat.eq_dec (t_fac t) (el_name l)); [reflexivity|].
  destruct (negb (Nat.eqb (length (f_doms f)) (length (el_ty l)))); [reflexivity|].
  destruct (negb (fac_doms_ok t (el_ty l) (f_doms f))); [reflexivity|].
  destruct (add_edge_label_no_conflict _ _ LC) as [t' E]. rewrite E. cbn. discriminate.
Qed.

Lemma new_finite_factor_atomic : forall t n sh tag,
    is_err (snd (t_new_finite_factor t n sh tag)) = true -> fst (t_new_finite_factor t n sh tag) = t.
Proof.
  intros t n sh tag. unfold t_new_finite_factor.
  destruct (aget Nat.eq_dec (t_el t) n) as [l|]; [|reflexivity].
  destruct (lookup_doms t (el_ty l)) as [ds|]; [|reflexivity].
  destruct (lnat_eq_dec sh (map (@length nat) ds)); [apply add_factor_atomic | reflexivity].
Qed.

Lemma mk_edge_atomic : forall l ns i g,
    is_err (snd (mk_edge_and_add l ns i g)) = true -> fst (mk_edge_and_add l ns i g) = g.
Proof.
  intros l ns i g. unfold mk_edge_and_add. destruct i as [i|]; [|reflexivity].
  destruct (lnat_eq_dec (el_ty l) (map n_label ns)); [|reflexivity].
  destruct (g_add_edge_cases g (Edge l ns i)) as [E|(add & t' & _ & E & _)]; rewrite E; cbn; [reflexivity | discriminate].
Qed.

Lemma set_ext_atomic : forall g ns, is_err (snd (g_set_ext g ns)) = true -> fst (g_set_ext g ns) = g.
Proof.
  intros g ns. destruct (g_set_ext_shape g ns) as [_ [[R _]|[_ E]]]; [rewrite R; discriminate | intros; assumption].
Qed.

Lemma set_start_atomic : forall x sp, is_err (snd (h_set_start x sp)) = true -> fst (h_set_start x sp) = x.
Proof.
  intros x sp. unfold h_set_start. destruct sp as [|l|n]; [reflexivity| |].
  all: match goal with |- context [if el_term ?l then _ else _] => set (lab := l) end.
  all: destruct (el_term lab); [reflexivity|].
  all: destruct (t_add_edge_label (h_tab x) lab) as [t1 [| |k]]; cbn; try discriminate; reflexivity.
Qed.

Lemma add_rule_atomic : forall x r g, is_err (snd (h_add_rule x r g)) = true -> fst (h_add_rule x r g) = x.
Proof.
  intros x r g. destruct (h_add_rule_cases x r g) as [E|E]; rewrite E; [reflexivity | discriminate].
Qed.

Lemma upd_weights_atomic : forall t n u,
    is_err (snd (t_upd_weights t n u)) = true -> fst (t_upd_weights t n u) = t.
Proof.
  intros t n u. unfold t_upd_weights. destruct (aget Nat.eq_dec (t_fac t) n); cbn; [discriminate | reflexivity].
Qed.

Theorem step_atomic : forall s o, is_err (snd (step s o)) = true -> objs (fst (step s o)) = objs s.
Proof.
  intros s o. destruct o; cbn [step].
  - discriminate.
  - discriminate.
  - destruct (h_new false s0) as [[x|] r] eqn:E; [|reflexivity].
    unfold h_new in E. destruct (h_set_start _ s0) as [h' [| |k]]; inversion E; subst; discriminate.
  - destruct (h_new true s0) as [[x|] r] eqn:E; [|reflexivity].
    unfold h_new in E. destruct (h_set_start _ s0) as [h' [| |k]]; inversion E; subst; discriminate.
  - destruct (resolve (ctr s) [n]) as [ns c]. destruct ns as [|x [|y ns]]; try reflexivity.
    apply on_graph_atomic. intros g _. unfold g_add_node. destruct (amem _ _ _); cbn; [reflexivity | discriminate].
  - destruct (resolve_id (ctr s) i) as [[i'|] c]; [|reflexivity].
    apply on_graph_atomic. intros g _. unfold g_add_node. destruct (amem _ _ _); cbn; [reflexivity | discriminate].
  - apply on_graph_atomic. intros g _. unfold g_remove_node.
    destruct (aget ident_eq_dec (g_nodes g) (n_id n)); [|reflexivity].
    destruct (node_eq_dec n0 n); [|reflexivity].
    destruct (existsb _ _); cbn; [reflexivity|]. destruct (inb _ _ _); cbn; [reflexivity | discriminate].
  - destruct (resolve (ctr s) ns) as [ns' c]. destruct (resolve_id c i) as [i' c'].
    apply on_graph_atomic. intros g _. apply mk_edge_atomic.
  - destruct (resolve (ctr s) ns) as [ns' c]. destruct (resolve_id c i) as [i' c'].
    destruct ((t && nt) || (negb t && negb nt)); [reflexivity|].
    apply on_graph_atomic. intros g _. apply mk_edge_atomic.
  - apply on_graph_atomic. intros g _. unfold g_remove_edge. destruct (negb _); cbn; [reflexivity | discriminate].
  - destruct (resolve (ctr s) ns) as [ns' c]. apply on_graph_atomic. intros g _. apply set_ext_atomic.
  - destruct (nth_error (objs s) h) as [[g|x]|]; [| |reflexivity].
    + destruct (g_copy g); [discriminate | reflexivity].
    + destruct (h_copy (objs s) x) as [[c news]|]; [discriminate | reflexivity].
  - destruct (get_graph (objs s) g); reflexivity.
  - destruct (get_graph (objs s) g) as [g0|]; [|reflexivity]. destruct (rule_ok l g0); [|reflexivity].
    apply (on_hrg_atomic s h (fun x => h_add_rule x (Rule l g) g0)). intros x _. apply add_rule_atomic.
  - destruct (get_graph (objs s) g) as [g0|]; [|reflexivity]. destruct (rule_ok _ g0); [|reflexivity].
    apply (on_hrg_atomic s h (fun x => h_add_rule x (Rule (EL name (g_type g0) false) g) g0)). intros x _. apply add_rule_atomic.
  - apply on_hrg_atomic. intros x _. apply set_start_atomic.
  - apply on_tab_atomic. intros; discriminate.
  - apply on_tab_atomic. intros t0. apply add_edge_label_atomic.
  - apply on_tab_atomic. intros t0. apply add_domain_atomic.
  - apply on_tab_atomic. intros t0. apply add_factor_atomic.
  - apply on_tab_atomic. intros t0. apply add_domain_atomic.
  - apply on_tab_atomic. intros t0. apply new_finite_factor_atomic.
  - apply on_tab_atomic. intros t0. apply upd_weights_atomic.
  - destruct (nth_error (objs s) h1), (nth_error (objs s) h2); reflexivity.
Qed.

Corollary step_atomic_observe : forall s o,
    is_err (snd (step s o)) = true -> observe (fst (step s o)) = observe s.
Proof. intros. unfold observe. f_equal. apply step_atomic; assumption. Qed.

(** * plain objects carry no interpretation *)
Definition plain_tab (b : bool) (t : tables) : Prop := b = false -> t_dom t = [] /\ t_fac t = [].
Definition plain_obj (o : obj) : Prop := plain_tab (has_interp o) (tab_of o).
Definition plain_os (os : list obj) : Prop := forall k o, nth_error os k = Some o -> plain_obj o.
Definition plain_ok (s : state) : Prop := plain_os (objs s).

Lemma pl_set_nth : forall os h o, plain_os os -> plain_obj o -> plain_os (set_nth os h o).
Proof.
  intros os h o T H k o' Hk. destruct (Nat.eq_dec k h) as [->|N].
  - destruct (Nat.lt_ge_cases h (length os)) as [L|L].
    + rewrite nth_error_set_nth_same in Hk by assumption. inversion Hk; subst. assumption.
    + assert (X : nth_error (set_nth os h o) h = None).
      { apply nth_error_None. rewrite length_set_nth. assumption. }
      congruence.
  - rewrite nth_error_set_nth_other in Hk by assumption. eapply T; eauto.
Qed.

Lemma pl_app : forall os news, plain_os os -> (forall o, In o news -> plain_obj o) -> plain_os (os ++ news).
Proof.
  intros os news T H k o Hk. destruct (Nat.lt_ge_cases k (length os)) as [L|L].
  - rewrite nth_error_app1 in Hk by assumption. eapply T; eauto.
  - rewrite nth_error_app2 in Hk by assumption. apply H. eapply nth_error_In; eauto.
Qed.

(** a graph method that keeps the class flag and the interpretation *)
Definition keeps_interp (g g' : graph) : Prop :=
  g_fg g' = g_fg g /\ t_dom (g_tab g') = t_dom (g_tab g) /\ t_fac (g_tab g') = t_fac (g_tab g).

Lemma grows_keeps : forall g g', grows g g' -> keeps_interp g g'.
Proof. intros g g' G. split; [apply G | split; apply G]. Qed.

Lemma add_edge_label_interp : forall t l, t_dom (fst (t_add_edge_label t l)) = t_dom t /\ t_fac (fst (t_add_edge_label t l)) = t_fac t.
Proof.
  intros. unfold t_add_edge_label. destruct (aget Nat.eq_dec (t_el t) (el_name l)) as [l'|]; [|cbn; auto].
  destruct (elabel_eq_dec l' l); cbn; auto.
Qed.

Lemma g_add_edge_keeps_interp : forall g e, keeps_interp g (fst (g_add_edge g e)).
Proof.
  intros g e. destruct (g_add_edge_cases g e) as [E|(add & t' & _ & E & _ & L)]; rewrite E; cbn [fst]; [repeat split|].
  pose proof (add_all_grows add g) as GR. pose proof (add_edge_label_interp (g_tab (g_add_all g add)) (e_label e)) as [D F].
  rewrite L in D, F. cbn in D, F. split; [apply GR|]. cbn. split; [rewrite D; apply GR | rewrite F; apply GR].
Qed.

Lemma on_graph_pl : forall s c h f,
    plain_ok s -> (forall g, keeps_interp g (fst (f g))) -> plain_ok (fst (on_graph s c h f)).
Proof.
  intros s c h f T H. unfold on_graph. destruct (get_graph (objs s) h) as [g|] eqn:G; [|exact T].
  unfold get_graph in G. destruct (nth_error (objs s) h) as [[g0|]|] eqn:N; try discriminate. inversion G; subst.
  pose proof (H g) as (A & B & C). pose proof (T _ _ N) as P. destruct (f g) as [g' r]. cbn in *.
  unfold plain_ok. cbn. apply pl_set_nth; [assumption|]. unfold plain_obj, plain_tab in *. cbn in *.
  rewrite A, B, C. assumption.
Qed.

Lemma on_hrg_pl : forall s h f,
    plain_ok s ->
    (forall x, h_fgg (fst (f x)) = h_fgg x /\ t_dom (h_tab (fst (f x))) = t_dom (h_tab x) /\ t_fac (h_tab (fst (f x))) = t_fac (h_tab x)) ->
    plain_ok (fst (on_hrg s h f)).
Proof.
  intros s h f T H. unfold on_hrg. destruct (get_hrg (objs s) h) as [x|] eqn:G; [|exact T].
  unfold get_hrg in G. destruct (nth_error (objs s) h) as [[|x0]|] eqn:N; try discriminate. inversion G; subst.
  pose proof (H x) as (A & B & C). pose proof (T _ _ N) as P. destruct (f x) as [x' r]. cbn in *.
  unfold plain_ok. cbn. apply pl_set_nth; [assumption|]. unfold plain_obj, plain_tab in *. cbn in *.
  rewrite A, B, C. assumption.
Qed.

Lemma has_interp_with_tab : forall o t, has_interp (with_tab o t) = has_interp o.
Proof. destruct o; reflexivity. Qed.
Lemma tab_of_with_tab : forall o t, tab_of (with_tab o t) = t.
Proof. destruct o; reflexivity. Qed.

(** label methods keep the interpretation; interpretation methods only run on objects that have one *)
Lemma on_tab_pl : forall s b h f,
    plain_ok s ->
    (b = true \/ forall t, t_dom (fst (f t)) = t_dom t /\ t_fac (fst (f t)) = t_fac t) ->
    plain_ok (fst (on_tab s b h f)).
Proof.
  intros s b h f T H. unfold on_tab. destruct (nth_error (objs s) h) as [o|] eqn:N; [|exact T].
  destruct (b && negb (has_interp o)) eqn:B; [exact T|].
  pose proof (T _ _ N) as P. destruct (f (tab_of o)) as [t r] eqn:E. cbn.
  unfold plain_ok. cbn. apply pl_set_nth; [assumption|].
  unfold plain_obj, plain_tab in *. rewrite has_interp_with_tab, tab_of_with_tab. intros HI.
  destruct H as [->|H].
  - cbn in B. rewrite HI in B. discriminate.
  - destruct (H (tab_of o)) as [D F]. rewrite E in D, F. cbn in D, F. rewrite D, F. apply P. assumption.
Qed.

Lemma fold_nl_interp : forall (l : list (ident * node)) t,
    let t' := fold_left (fun t kn => t_add_node_label t (n_label (snd kn))) l t in
    t_dom t' = t_dom t /\ t_fac t' = t_fac t.
Proof. induction l as [|x l IH]; intros t; cbn; [auto|]. destruct (IH (t_add_node_label t (n_label (snd x)))) as [A B]. auto. Qed.

Lemma fold_el_interp : forall (l : list (ident * edge)) t,
    let t' := fst (fold_err (fun t ke => t_add_edge_label t (e_label (snd ke))) l t) in
    t_dom t' = t_dom t /\ t_fac t' = t_fac t.
Proof.
  induction l as [|x l IH]; intros t; cbn; [auto|].
  pose proof (add_edge_label_interp t (e_label (snd x))) as [A B].
  destruct (t_add_edge_label t (e_label (snd x))) as [t1 [| |k]]; cbn in *; auto;
    destruct (IH t1) as [C D]; cbn in *; split; congruence.
Qed.

Lemma h_add_rule_interp : forall x r g,
    h_fgg (fst (h_add_rule x r g)) = h_fgg x /\ t_dom (h_tab (fst (h_add_rule x r g))) = t_dom (h_tab x) /\
    t_fac (h_tab (fst (h_add_rule x r g))) = t_fac (h_tab x).
Proof.
  intros x r g. unfold h_add_rule. destruct (labels_clash _ _); [auto|].
  pose proof (add_edge_label_interp (h_tab x) (r_lhs r)) as [A B].
  destruct (t_add_edge_label (h_tab x) (r_lhs r)) as [t1 r1]. cbn in A, B.
  pose proof (fold_nl_interp (g_nodes g) t1) as [A2 B2]. cbn zeta in A2, B2.
  pose proof (fold_el_interp (g_edges g) (fold_left (fun t kn => t_add_node_label t (n_label (snd kn))) (g_nodes g) t1)) as [A3 B3].
  cbn zeta in A3, B3.
  destruct (fold_err _ (g_edges g) _) as [t3 r3]. cbn in A3, B3.
  destruct r1 as [| |k1]; destruct r3 as [| |k3]; cbn; (split; [reflexivity | split; congruence]).
Qed.

Lemma h_set_start_interp : forall x sp,
    h_fgg (fst (h_set_start x sp)) = h_fgg x /\ t_dom (h_tab (fst (h_set_start x sp))) = t_dom (h_tab x) /\
    t_fac (h_tab (fst (h_set_start x sp))) = t_fac (h_tab x).
Proof.
  intros x sp. unfold h_set_start. destruct sp as [|l|n]; [auto| |].
  all: match goal with |- context [if el_term ?l then _ else _] => set (lab := l) end.
  all: destruct (el_term lab); [auto|].
  all: pose proof (add_edge_label_interp (h_tab x) lab) as [A B].
  all: destruct (t_add_edge_label (h_tab x) lab) as [t1 [| |k]]; cbn in *; auto.
Qed.

Lemma fold_err_pres : forall {A B} (P : A -> Prop) (f : A -> B -> A * result),
    (forall a x, P a -> P (fst (f a x))) -> forall l a, P a -> P (fst (fold_err f l a)).
Proof.
  intros A B P f H. induction l as [|x l IH]; intros a Pa; cbn; [assumption|].
  pose proof (H a x Pa) as P1. destruct (f a x) as [a' [| |k]]; cbn in *; auto.
Qed.

Lemma g_copy_plain : forall g c, g_copy g = inl c -> plain_obj (OG c).
Proof.
  intros g c E. unfold g_copy in E. destruct (g_fg g) eqn:FG.
  - (* a FactorGraph copy is a FactorGraph *)
    assert (F : g_fg c = true).
    { destruct (fold_err g_add_node (map snd (g_nodes g)) (empty_graph true)) as [c1 r1] eqn:E1.
      destruct (nodes_phase _ _ _ _ E1) as [G1 _].
      pose proof (fold_err_pres (fun x => g_fg x = true) g_add_edge) as FP.
      assert (E' : match fold_err g_add_edge (map snd (g_edges g)) c1 with
                   | (_, RErr k) => inr k
                   | (c0, _) => inl (gset_tab (gset_ext c0 (g_ext g))
                                              (mkT (t_nl (g_tab g)) (t_el (g_tab g)) (t_dom (g_tab g)) (t_fac (g_tab g))))
                   end = inl c) by (destruct r1; [exact E | exact E | discriminate]).
      specialize (FP (fun a x H => eq_trans (proj1 (g_add_edge_keeps_interp a x)) H) (map snd (g_edges g)) c1).
      assert (C1 : g_fg c1 = true) by (rewrite (gr_fg _ _ G1); reflexivity). specialize (FP C1).
      destruct (fold_err g_add_edge (map snd (g_edges g)) c1) as [c2 r2]. cbn in FP.
      destruct r2; inversion E'; subst; cbn; assumption. }
    unfold plain_obj, plain_tab. cbn. rewrite F. discriminate.
  - inversion E; subst. unfold plain_obj, plain_tab. cbn. auto.
Qed.

Lemma h_new_plain : forall b sp h r, h_new b sp = (Some h, r) -> plain_obj (OH h).
Proof.
  intros b sp h r E. unfold h_new in E.
  pose proof (h_set_start_interp (mkH b [] (EL 0 [] false) empty_tab) sp) as (A & B & C).
  destruct (h_set_start (mkH b [] (EL 0 [] false) empty_tab) sp) as [h' [| |k]]; inversion E; subst.
  cbn in *. unfold plain_obj, plain_tab. cbn. rewrite B, C. auto.
Qed.

Lemma mk_edge_keeps_interp : forall l ns i g, keeps_interp g (fst (mk_edge_and_add l ns i g)).
Proof.
  intros l ns i g. unfold mk_edge_and_add. destruct i as [i|]; [|repeat split].
  destruct (lnat_eq_dec (el_ty l) (map n_label ns)); [apply g_add_edge_keeps_interp | repeat split].
Qed.

Theorem step_plain_ok : forall s o, plain_ok s -> plain_ok (fst (step s o)).
Proof.
  intros s o T. destruct o; cbn [step].
  - apply pl_app; [assumption|]. intros o [<-|[]]. unfold plain_obj, plain_tab. cbn. auto.
  - apply pl_app; [assumption|]. intros o [<-|[]]. unfold plain_obj, plain_tab. cbn. auto.
  - destruct (h_new false s0) as [[x|] r] eqn:E; [|exact T].
    apply pl_app; [assumption|]. intros o [<-|[]]. eapply h_new_plain; eauto.
  - destruct (h_new true s0) as [[x|] r] eqn:E; [|exact T].
    apply pl_app; [assumption|]. intros o [<-|[]]. eapply h_new_plain; eauto.
  - destruct (resolve (ctr s) [n]) as [ns c]. destruct ns as [|x [|y ns]]; try exact T.
    apply on_graph_pl; [assumption|]. intros g. apply grows_keeps, add_node_grows.
  - destruct (resolve_id (ctr s) i) as [[i'|] c]; [|exact T].
    apply on_graph_pl; [assumption|]. intros g. apply grows_keeps, add_node_grows.
  - apply on_graph_pl; [assumption|]. intros g. unfold g_remove_node.
    destruct (aget ident_eq_dec (g_nodes g) (n_id n)); [|repeat split].
    destruct (node_eq_dec n0 n); [|repeat split].
    destruct (existsb _ _); [repeat split|]. destruct (inb _ _ _); repeat split.
  - destruct (resolve (ctr s) ns) as [ns' c]. destruct (resolve_id c i) as [i' c'].
    apply on_graph_pl; [assumption|]. intros g. apply mk_edge_keeps_interp.
  - destruct (resolve (ctr s) ns) as [ns' c]. destruct (resolve_id c i) as [i' c'].
    destruct ((t && nt) || (negb t && negb nt)); [exact T|].
    apply on_graph_pl; [assumption|]. intros g. apply mk_edge_keeps_interp.
  - apply on_graph_pl; [assumption|]. intros g. unfold g_remove_edge. destruct (negb _); repeat split.
  - destruct (resolve (ctr s) ns) as [ns' c].
    apply on_graph_pl; [assumption|]. intros g. unfold g_set_ext.
    destruct (check_new (g_nodes g) [] ns') as [add|]; [|repeat split].
    cbn. apply (grows_keeps _ _ (add_all_grows add g)).
  - destruct (nth_error (objs s) h) as [[g|x]|] eqn:N; [| |exact T].
    + destruct (g_copy g) as [c|] eqn:C; [|exact T].
      apply pl_app; [assumption|]. intros o [<-|[]]. eapply g_copy_plain; eauto.
    + destruct (h_copy (objs s) x) as [[c news]|] eqn:C; [|exact T].
      unfold h_copy in C.
      destruct (h_new (h_fgg x) (SLabel (h_start x))) as [[c0|] r0]; [|destruct r0; discriminate].
      destruct (copy_groups (objs s) (S (length (objs s))) (h_rules x)) as [[gs news0]|] eqn:E1; [|discriminate].
      inversion C; subst. destruct (copy_groups_spec _ _ _ _ _ E1) as (_ & _ & D).
      apply pl_app; [assumption|]. intros o [<-|Ho].
      * unfold plain_obj, plain_tab. cbn. intros ->. auto.
      * destruct (D _ Ho) as (k & rs & _ & (r & g & c1 & -> & _ & _ & Hc)). eapply g_copy_plain; eauto.
  - destruct (get_graph (objs s) g); exact T.
  - destruct (get_graph (objs s) g) as [g0|]; [|exact T]. destruct (rule_ok l g0); [|exact T].
    apply (on_hrg_pl s h (fun x => h_add_rule x (Rule l g) g0)); [assumption|]. intros; apply h_add_rule_interp.
  - destruct (get_graph (objs s) g) as [g0|]; [|exact T]. destruct (rule_ok _ g0); [|exact T].
    apply (on_hrg_pl s h (fun x => h_add_rule x (Rule (EL name (g_type g0) false) g) g0)); [assumption|].
    intros; apply h_add_rule_interp.
  - apply on_hrg_pl; [assumption|]. intros; apply h_set_start_interp.
  - apply on_tab_pl; [assumption|]. right. intros t0. cbn. auto.
  - apply on_tab_pl; [assumption|]. right. intros t0. apply add_edge_label_interp.
  - apply on_tab_pl; [assumption|]. left. reflexivity.
  - apply on_tab_pl; [assumption|]. left. reflexivity.
  - apply on_tab_pl; [assumption|]. left. reflexivity.
  - apply on_tab_pl; [assumption|]. left. reflexivity.
  - apply on_tab_pl; [assumption|]. left. reflexivity.
  - destruct (nth_error (objs s) h1), (nth_error (objs s) h2); exact T.
Qed.

Theorem reachable_plain_ok : forall ops, plain_ok (run init ops).
Proof.
  assert (H : forall ops s, plain_ok s -> plain_ok (run s ops)).
  { induction ops as [|o ops IH]; intros s T; [exact T|]. unfold run in *. cbn. apply IH. apply step_plain_ok. assumption. }
  intros ops. apply H. intros k o Hk. destruct k; discriminate.
Qed.
