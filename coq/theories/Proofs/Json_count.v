(** C14: an HRG is a LIST of rules per left-hand side -- a rule that occurs twice (the same object added
    twice, or an equal copy: identical structure and identical explicit ids) counts twice.  The round
    trip keeps the number of rules of every left-hand side, repeated rules included, and the oracle
    [hrg_iso_b] rejects every result in which some left-hand side has lost or gained a rule, whatever
    bijections it is handed (so a dropped duplicate is a genuine failing input, verdict 1 of
    [c14_fgg_check], not an artefact of the witness search). *)
From Coq Require Import List Arith Bool PeanoNat Lia.
Import ListNotations.
Require Import Fggs.Model.Json.
Require Import Fggs.Proofs.Json_base Fggs.Proofs.Json_iso Fggs.Proofs.Json_roundtrip.

Lemma Forall2_same_length : forall {A B : Type} (R : A -> B -> Prop) l l', Forall2 R l l' -> length l = length l'.
Proof. intros A B R l l' H. induction H; cbn; [reflexivity|]. now f_equal. Qed.

Lemma hrg_iso_rule_counts : forall g g' lhs, hrg_iso g g' ->
  length (rules_of (h_rules g) lhs) = length (rules_of (h_rules g') lhs).
Proof. intros g g' lhs H. eapply Forall2_same_length. apply hrg_iso_rules_of. exact H. Qed.

Lemma hrg_iso_all_rules_count : forall g g', hrg_iso g g' -> length (all_rules g) = length (all_rules g').
Proof. intros g g' H. eapply Forall2_same_length. apply hrg_iso_all_rules. exact H. Qed.

(** the round trip keeps the number of rules: per left-hand side and in total *)
Theorem roundtrip_rule_counts : forall (dec : nat -> str) (g : hrg) (c : nat),
  wf_hrg g = true ->
  exists j g', hrg_to_json_model dec g = Ok j /\ json_to_hrg_model c j = Ok g' /\
    (forall lhs, length (rules_of (h_rules g') lhs) = length (rules_of (h_rules g) lhs)) /\
    length (all_rules g') = length (all_rules g).
Proof.
  intros dec g c Hwf. destruct (roundtrip_iso dec g c Hwf) as [j [g' [H1 [H2 H3]]]].
  exists j, g'. repeat split; try assumption.
  - intro lhs. symmetry. now apply hrg_iso_rule_counts.
  - symmetry. now apply hrg_iso_all_rules_count.
Qed.

(** the oracle rejects a grammar in which some left-hand side has another number of rules *)
Theorem iso_oracle_rejects_count_mismatch : forall g g' perms lhs,
  length (rules_of (h_rules g) lhs) <> length (rules_of (h_rules g') lhs) -> hrg_iso_b g g' perms = false.
Proof.
  intros g g' perms lhs Hne. destruct (hrg_iso_b g g' perms) eqn:E; [|reflexivity].
  apply hrg_iso_b_sound in E. apply hrg_iso_rule_counts with (lhs := lhs) in E. contradiction.
Qed.

(** ... also as the check applies it, after putting the keys of [g'] in the key order of [g] *)
Theorem check_rejects_dropped_rule : forall g g' perms lhs,
  wf_hrg g = true -> In lhs (map fst (h_rules g)) ->
  length (rules_of (h_rules g) lhs) <> length (rules_of (h_rules g') lhs) ->
  hrg_iso_b g (align_rules g g') perms = false.
Proof.
  intros g g' perms lhs Hwf Hin Hne.
  destruct (wf_hrg_facts g Hwf) as [_ [_ [_ [Hkeys _]]]].
  apply iso_oracle_rejects_count_mismatch with (lhs := lhs).
  rewrite (align_rules_rules_of g g' lhs Hkeys Hin). exact Hne.
Qed.

(** Non-trivial instance: S -> x -[X]; X(v) has three rules, the first two IDENTICAL (same structure,
    same explicit node and edge ids), the third with another terminal.  The grammar is well formed,
    every id is explicit, and the round trip gives three rules for X again, reproduces the first two
    as equal rules, and writes the same document a second time. *)
Definition dup_S : elabel := mkEL [83] [] false.
Definition dup_X : elabel := mkEL [88] [[78]] false.
Definition dup_A : elabel := mkEL [65] [[78]] true.
Definition dup_B : elabel := mkEL [66] [[78]] true.
Definition dup_v : node := mkNode [78] (Explicit [118]).
Definition dup_x : node := mkNode [78] (Explicit [120]).
Definition dup_rule (t : elabel) : rule := mkRule dup_X (mkGraph [dup_v] [mkEdge t [dup_v] (Explicit [101])] [dup_v]).
Definition dup_hrg : hrg :=
  mkHRG [dup_S; dup_X; dup_A; dup_B] dup_S
        [(dup_S, [mkRule dup_S (mkGraph [dup_x] [mkEdge dup_X [dup_x] (Explicit [101; 120])] [])]);
         (dup_X, [dup_rule dup_A; dup_rule dup_A; dup_rule dup_B])].

Example dup_hrg_wf : wf_hrg dup_hrg = true /\ all_explicit dup_hrg = true.
Proof. split; reflexivity. Qed.

Example dup_hrg_roundtrip : forall dec,
  exists j g', hrg_to_json_model dec dup_hrg = Ok j /\ json_to_hrg_model 0 j = Ok g' /\
    rules_of (h_rules g') dup_X = [dup_rule dup_A; dup_rule dup_A; dup_rule dup_B] /\
    hrg_to_json_model dec g' = Ok j.
Proof.
  intro dec. eexists. eexists. split; [reflexivity|]. split; [vm_compute; reflexivity|].
  split; vm_compute; reflexivity.
Qed.

(** the grammar with the repeated rule dropped is rejected by the oracle for every witness *)
Definition dup_hrg_dropped : hrg :=
  mkHRG (h_labels dup_hrg) dup_S
        [(dup_S, rules_of (h_rules dup_hrg) dup_S); (dup_X, [dup_rule dup_A; dup_rule dup_B])].

Example dup_hrg_dropped_rejected : forall perms, hrg_iso_b dup_hrg (align_rules dup_hrg dup_hrg_dropped) perms = false.
Proof.
  intro perms. apply check_rejects_dropped_rule with (lhs := dup_X).
  - reflexivity.
  - cbn. right. left. reflexivity.
  - vm_compute. discriminate.
Qed.
