(** C02 (tier B): the inner linear solves of Newton's method.  [solve_ms A b] -- the code's
    [multi_solve], i.e. [multi_solve_model] of Model/MultiSolve.v run on the row-major tabulated
    blocks of the Jacobian [A] and of the right-hand side [b], read back as an environment --
    is the least solution of  y = A y + b  on the component's range, in every ordered
    star-semiring: it satisfies the premise [solve_spec] of Proofs/Newton_sandwich.v.
    Composition of C09_multi_solve_refines ([multi_solve_least]) with [block_least_of_dense]. *)
From Coq Require Import List Arith Bool PeanoNat Lia Ring_theory Ring.
Import ListNotations.
Require Import Fggs.Model.Semiring Fggs.Model.SCC Fggs.Model.SumProduct Fggs.Model.Kleene
               Fggs.Model.Solve Fggs.Model.MultiSolve Fggs.Model.Newton.
Require Import Fggs.Proofs.SCC_ntgraph Fggs.Proofs.SP_mono Fggs.Proofs.Kleene_control Fggs.Proofs.Kleene_linear
               Fggs.Proofs.Kleene_linear_lfp.
Require Import Fggs.Proofs.SolveRefine Fggs.Proofs.MultiMV Fggs.Proofs.MultiSolveSem
               Fggs.Proofs.MultiSolveDense Fggs.Proofs.MultiOrder Fggs.Proofs.Newton_sandwich.
Require Fggs.Proofs.SolveElim.

Lemma cell_pos_pos_of xi l : cell_pos xi l = pos_of xi l.
Proof. induction l as [|y l IH]; [reflexivity|]. cbn [cell_pos pos_of]. now rewrite IH. Qed.

Section Lookups.
Context {E : Type}.

Lemma lookup1_map_key (f : nat -> vec E) (l : list nat) n :
  In n l -> lookup1 (map (fun k => (k, f k)) l) n = Some (f n).
Proof.
  induction l as [|a l IH]; intros H; [destruct H|]. cbn [map lookup1].
  destruct (Nat.eqb_spec a n) as [->|Hne]; [reflexivity|].
  destruct H as [->|H]; [congruence | now apply IH].
Qed.

Lemma lookup2_app (a b : @mt2 E) x y :
  lookup2 (a ++ b) x y = match lookup2 a x y with Some m => Some m | None => lookup2 b x y end.
Proof.
  induction a as [|[[p q] m] a IH]; [reflexivity|]. cbn [app lookup2].
  destruct (Nat.eqb p x && Nat.eqb q y); [reflexivity | exact IH].
Qed.

Lemma lookup2_row (g : nat -> nat -> mat E) n' (l : list nat) n m :
  lookup2 (map (fun k => ((n', k), g n' k)) l) n m
  = if Nat.eqb n' n && mem l m then Some (g n' m) else None.
Proof.
  induction l as [|a l IH]; cbn [map lookup2].
  - unfold mem. cbn. now rewrite andb_false_r.
  - unfold mem in *. cbn [existsb]. rewrite (Nat.eqb_sym m a).
    destruct (Nat.eqb n' n); cbn [andb] in *.
    + destruct (Nat.eqb_spec a m) as [->|Hne]; [reflexivity | exact IH].
    + exact IH.
Qed.

Lemma lookup2_grid (g : nat -> nat -> mat E) (rows cols : list nat) n m :
  In n rows -> In m cols ->
  lookup2 (flat_map (fun k => map (fun k' => ((k, k'), g k k')) cols) rows) n m = Some (g n m).
Proof.
  intros Hn Hm. induction rows as [|a rows IH]; [destruct Hn|].
  cbn [flat_map]. rewrite lookup2_app, lookup2_row.
  destruct (Nat.eqb_spec a n) as [->|Hne]; cbn [andb].
  - rewrite (proj2 (mem_In cols m) Hm). reflexivity.
  - destruct Hn as [->|Hn]; [congruence | now apply IH].
Qed.

Lemma NoDup_grid_keys (g : nat -> nat -> mat E) (rows cols : list nat) :
  NoDup rows -> NoDup cols ->
  NoDup (map fst (flat_map (fun k => map (fun k' => ((k, k'), g k k')) cols) rows)).
Proof.
  intros Hr Hc.
  assert (E1 : map fst (flat_map (fun k => map (fun k' => ((k, k'), g k k')) cols) rows)
               = flat_map (fun k => map (fun k' => (k, k')) cols) rows).
  { induction rows as [|a rows IH]; [reflexivity|]. cbn [flat_map].
    rewrite map_app, map_map. cbn [fst]. f_equal. apply IH. now inversion Hr. }
  rewrite E1. apply BigSum.NoDup_flat_map; trivial.
  - intros x _. apply BigSum.NoDup_map_inj; trivial. intros a b _ _ H. now injection H.
  - intros x y z _ _ Hx Hy. apply in_map_iff in Hx as (a & <- & _). apply in_map_iff in Hy as (b & H & _).
    now injection H.
Qed.
End Lookups.

Section NewtonSolve.
Context {R : Type} (o : sr_ops R).
Hypothesis Hr : sr_ring o.
Hypothesis Hord : sr_ordered o.
Hypothesis Hstar : sr_star o.
Add Ring sr_ring_nsolve : (Hr : semi_ring_theory (zero o) (one o) (add o) (mul o) eq).

Variables (G : grammar) (comp : list nat).
Hypothesis Hnd : NoDup comp.
Local Notation assts n := (nassts G n).
Local Notation dims := (ndims G comp).

Lemma map_fst_ndims : map fst dims = comp.
Proof. unfold ndims. rewrite map_map. cbn [fst]. apply map_id. Qed.

Lemma dim_ndims n : In n comp -> dim dims n = length (assts n).
Proof.
  unfold ndims. clear Hnd. induction comp as [|a l IH]; intros H; [destruct H|].
  cbn [map dim]. destruct (Nat.eqb_spec a n) as [->|Hne]; [reflexivity|].
  destruct H as [->|H]; [congruence|]. apply IH. exact H.
Qed.

Lemma nth_map_in {A B} (f : A -> B) (l : list A) p (da : A) (db : B) :
  p < length l -> nth p (map f l) db = f (nth p l da).
Proof. intros H. rewrite (nth_indep _ db (f da)) by (now rewrite map_length). apply map_nth. Qed.

(** what the tabulated blocks hold *)
Lemma J_blocks_get (A : jmat (R:=R)) n m p q :
  In n comp -> In m comp -> p < length (assts n) -> q < length (assts m) ->
  blockA o dims false (J_blocks G comp A) n m p q = A n m (nth p (assts n) [] ++ nth q (assts m) []).
Proof.
  intros Hn Hm Hp Hq. unfold blockA, semA.
  rewrite pad2_in by (rewrite ?dim_ndims by assumption; assumption).
  unfold getm, J_blocks.
  pose proof (lookup2_grid (fun n m => map (fun xi => map (fun eta => A n m (xi ++ eta)) (assts m)) (assts n))
                           comp comp n m Hn Hm) as E.
  cbv beta in E. unfold mat, vec in *. rewrite E. clear E.
  unfold get2.
  rewrite (nth_map_in (fun xi => map (fun eta => A n m (xi ++ eta)) (assts m)) (assts n) p [] [] Hp).
  rewrite (nth_map_in (fun eta => A n m (nth p (assts n) [] ++ eta)) (assts m) q [] (zero o) Hq).
  reflexivity.
Qed.

Lemma b_blocks_get (b : env (R:=R)) n p :
  In n comp -> p < length (assts n) ->
  semb o dims (b_blocks G comp b) n p = b n (nth p (assts n) []).
Proof.
  intros Hn Hp. unfold semb. rewrite pad1_in by (rewrite dim_ndims by assumption; exact Hp).
  unfold getv, b_blocks.
  pose proof (lookup1_map_key (fun n => map (b n) (assts n)) comp n Hn) as E.
  cbv beta in E. unfold mat, vec in *. rewrite E. clear E.
  unfold get1. apply (nth_map_in (b n) (assts n) p [] (zero o) Hp).
Qed.

(** [multi_mv] block by block, through the positions *)
Lemma Amv_blocks (A : jmat (R:=R)) (y : env (R:=R)) n p :
  In n comp -> p < length (assts n) ->
  Amv o G comp A y n (nth p (assts n) [])
  = SolveElim.sumS o nat (map fst dims)
      (fun m => sum_n o (dim dims m)
                  (fun q => mul o (blockA o dims false (J_blocks G comp A) n m p q) (y m (nth q (assts m) [])))).
Proof.
  intros Hn Hp. unfold Amv. rewrite map_fst_ndims.
  change (SumProduct.sumS o comp) with (SolveElim.sumS o nat comp).
  apply SolveElim.sumS_ext. intros m Hm.
  rewrite (sumS_positions o (all_assts (lshape G m)) []). fold (assts m).
  rewrite (dim_ndims m Hm). rewrite !sum_n_sumS. apply SolveElim.sumS_ext. intros q Hq.
  apply in_seq in Hq. rewrite J_blocks_get by (try assumption; lia). reflexivity.
Qed.

(** C02_newton_solve_least: [solve_ms] is the least solution of y = A y + b *)
Theorem solve_ms_spec : solve_spec o G comp (solve_ms o G comp).
Proof.
  intros A b.
  set (Jt := J_blocks G comp A). set (bt := b_blocks G comp b).
  set (sol := multi_solve_model o dims comp false Jt bt).
  assert (NDd : NoDup (map fst dims)) by (rewrite map_fst_ndims; exact Hnd).
  assert (Hleast : least_spec o (total dims) (assemble2 o dims false Jt) (assemble1 o dims bt)
                              (get1 o (assemble1 o dims sol))).
  { apply (multi_solve_least o Hr Hord Hstar); trivial.
    - rewrite map_fst_ndims. reflexivity.
    - unfold Jt, J_blocks. now apply NoDup_grid_keys.
    - unfold bt, b_blocks. rewrite map_map. cbn [fst]. rewrite map_id. exact Hnd. }
  destruct (block_least_of_dense o Hr dims false Jt bt sol NDd Hleast) as [Hs Hl].
  assert (Hread : forall m q, In m comp -> q < length (assts m) ->
            solve_ms o G comp A b m (nth q (assts m) []) = semb o dims sol m q).
  { intros m q Hm Hq. unfold solve_ms. fold Jt bt sol. rewrite cell_pos_pos_of.
    unfold nassts. rewrite (pos_of_nth (all_assts (lshape G m)) q (all_assts_NoDup _) Hq).
    unfold semb. rewrite pad1_in by (rewrite dim_ndims by assumption; exact Hq). reflexivity. }
  split.
  - intros n xi Hn Hxi. destruct (pos_of_spec xi (assts n) Hxi) as [Hp Enth].
    rewrite <- Enth. rewrite (Amv_blocks A _ n _ Hn Hp), (Hread n _ Hn Hp).
    rewrite (Hs n (pos_of xi (assts n))) by (rewrite ?map_fst_ndims, ?dim_ndims by assumption; assumption).
    fold Jt. f_equal.
    + apply SolveElim.sumS_ext. intros m Hm. rewrite map_fst_ndims in Hm.
      rewrite !sum_n_sumS. apply SolveElim.sumS_ext. intros q Hq. apply in_seq in Hq.
      rewrite (dim_ndims m Hm) in Hq. rewrite Hread by (try assumption; lia). reflexivity.
    + unfold bt. rewrite b_blocks_get by assumption. reflexivity.
  - intros y Hy n xi Hn Hxi. destruct (pos_of_spec xi (assts n) Hxi) as [Hp Enth].
    set (ys := fun m q => y m (nth q (assts m) [])).
    assert (Hpre : block_presol o dims false Jt bt ys).
    { intros n' p' Hn' Hp'. rewrite map_fst_ndims in Hn'. rewrite (dim_ndims n' Hn') in Hp'.
      unfold ys. unfold Jt. rewrite <- (Amv_blocks A y n' p' Hn' Hp').
      unfold bt. rewrite b_blocks_get by assumption.
      apply Hy; [exact Hn' | apply nth_In; exact Hp']. }
    rewrite <- Enth. rewrite (Hread n _ Hn Hp).
    apply (Hl ys Hpre n (pos_of xi (assts n)));
      rewrite ?map_fst_ndims, ?dim_ndims by assumption; assumption.
Qed.
End NewtonSolve.
