(** Two graphs isomorphic through namings to the same named graph are isomorphic to each other;
    hence any two complete orders of the replacement steps give isomorphic graphs. *)
From Coq Require Import List Arith Bool PeanoNat Lia Permutation.
Import ListNotations.
Require Import Fggs.Model.Replace Fggs.Proofs.Replace_base Fggs.Proofs.Replace_confl.

Definition Rn (nn1 nn2 : list (node * name)) (v1 v2 : node) : Prop := exists x, In (v1, x) nn1 /\ In (v2, x) nn2.
Definition Re (en1 en2 : list (edge * name)) (e1 e2 : edge) : Prop := exists y, In (e1, y) en1 /\ In (e2, y) en2.

(** a graph isomorphism given as a pair of relations: bijections between the node sets and between
    the edge sets, preserving node labels, edge labels and the attachment lists (in order) *)
Record graph_iso (g1 g2 : graph) (RN : node -> node -> Prop) (RE : edge -> edge -> Prop) : Prop := {
  gi_n_total : forall v1, In v1 (g_nodes g1) -> exists v2, In v2 (g_nodes g2) /\ RN v1 v2;
  gi_n_surj : forall v2, In v2 (g_nodes g2) -> exists v1, In v1 (g_nodes g1) /\ RN v1 v2;
  gi_n_fun : forall v1 v2 v2', RN v1 v2 -> RN v1 v2' -> v2 = v2';
  gi_n_inj : forall v1 v1' v2, RN v1 v2 -> RN v1' v2 -> v1 = v1';
  gi_n_lab : forall v1 v2, RN v1 v2 -> n_label v1 = n_label v2;
  gi_e_total : forall e1, In e1 (g_edges g1) -> exists e2, In e2 (g_edges g2) /\ RE e1 e2;
  gi_e_surj : forall e2, In e2 (g_edges g2) -> exists e1, In e1 (g_edges g1) /\ RE e1 e2;
  gi_e_fun : forall e1 e2 e2', RE e1 e2 -> RE e1 e2' -> e2 = e2';
  gi_e_inj : forall e1 e1' e2, RE e1 e2 -> RE e1' e2 -> e1 = e1';
  gi_e_pres : forall e1 e2, RE e1 e2 -> e_label e1 = e_label e2 /\ Forall2 RN (e_att e1) (e_att e2) }.

Lemma nodup_fst_fun : forall {A B} (l : list (A * B)) a b b', NoDup (map fst l) -> In (a, b) l -> In (a, b') l -> b = b'.
Proof.
  induction l as [|[x y] l]; simpl; intros; try tauto. inversion H; subst.
  destruct H0 as [H0|H0], H1 as [H1|H1].
  - congruence.
  - inversion H0; subst. exfalso. apply H4. apply in_map_iff. exists (a, b'); auto.
  - inversion H1; subst. exfalso. apply H4. apply in_map_iff. exists (a, b); auto.
  - eauto.
Qed.
Lemma nodup_snd_inj : forall {A B} (l : list (A * B)) a a' b, NoDup (map snd l) -> In (a, b) l -> In (a', b) l -> a = a'.
Proof.
  induction l as [|[x y] l]; simpl; intros; try tauto. inversion H; subst.
  destruct H0 as [H0|H0], H1 as [H1|H1].
  - congruence.
  - inversion H0; subst. exfalso. apply H4. apply in_map_iff. exists (a', b); auto.
  - inversion H1; subst. exfalso. apply H4. apply in_map_iff. exists (a, b); auto.
  - eauto.
Qed.

Lemma omap_Forall2 : forall {A B} (f : A -> option B) l ys, omap f l = Some ys -> Forall2 (fun x y => f x = Some y) l ys.
Proof.
  induction l; simpl; intros.
  - inversion H; constructor.
  - destruct (f a) eqn:E; try discriminate. destruct (omap f l) eqn:E2; try discriminate.
    inversion H; subst. constructor; auto.
Qed.

Lemma Forall2_In_l : forall {A B} (P : A -> B -> Prop) l1 l2 x, Forall2 P l1 l2 -> In x l1 -> exists y, In y l2 /\ P x y.
Proof.
  induction 1; simpl; intros; try tauto. destruct H1 as [<-|H1]; eauto.
  destruct (IHForall2 H1) as [y' [? ?]]; eauto.
Qed.
Lemma Forall2_In_r : forall {A B} (P : A -> B -> Prop) l1 l2 y, Forall2 P l1 l2 -> In y l2 -> exists x, In x l1 /\ P x y.
Proof.
  induction 1; simpl; intros; try tauto. destruct H1 as [<-|H1]; eauto.
  destruct (IHForall2 H1) as [x' [? ?]]; eauto.
Qed.

Lemma atts_related : forall nn1 nn2 att1 att2 xs,
  Forall2 (fun v x => aget node_eqb nn1 v = Some x) att1 xs ->
  Forall2 (fun v x => aget node_eqb nn2 v = Some x) att2 xs ->
  Forall2 (Rn nn1 nn2) att1 att2.
Proof.
  intros nn1 nn2 att1 att2 xs H. revert att2. induction H; intros att2 H2; inversion H2; subst; constructor; auto.
  exists y. split; apply (aget_Some_In node_eqb node_eqb_eq); auto.
Qed.

Section Half.
  Variables (g1 g2 : graph) (nn1 nn2 : list (node * name)) (en1 en2 : list (edge * name)) (d : dgraph).
  Hypothesis H1 : iso_via g1 nn1 en1 d.
  Hypothesis H2 : iso_via g2 nn2 en2 d.

  Lemma rename_parts : forall nn en d', rename_graph nn en = Some d' ->
    d_nodes d' = map (fun gx => (snd gx, n_label (fst gx))) nn /\ omap (rename_edge nn) en = Some (d_edges d').
  Proof.
    intros nn en d' E. unfold rename_graph in E. destruct (omap (rename_edge nn) en); try discriminate.
    inversion E; subst; auto.
  Qed.

  Lemma node_half : forall v1, In v1 (g_nodes g1) -> exists v2, In v2 (g_nodes g2) /\ Rn nn1 nn2 v1 v2 /\ n_label v1 = n_label v2.
  Proof.
    intros v1 Hv. destruct H1 as [A1 [_ [_ [_ [_ [_ [d1 [R1 [P1 _]]]]]]]]].
    destruct H2 as [A2 [_ [_ [_ [_ [_ [d2 [R2 [P2 _]]]]]]]]].
    destruct (rename_parts _ _ _ R1) as [N1 _]. destruct (rename_parts _ _ _ R2) as [N2 _].
    rewrite <- A1 in Hv. apply in_map_iff in Hv. destruct Hv as [[v x] [E Hin]]. cbn [fst] in E. subst v.
    assert (I1 : In (x, n_label v1) (d_nodes d1)).
    { rewrite N1. apply in_map_iff. exists (v1, x). auto. }
    apply (Permutation_in _ P1) in I1. apply (Permutation_in _ (Permutation_sym P2)) in I1.
    rewrite N2 in I1. apply in_map_iff in I1. destruct I1 as [[v2 x2] [E2 Hin2]]. cbn [fst snd] in E2.
    inversion E2; subst. exists v2. split; [|split; auto].
    - rewrite <- A2. apply in_map_iff. exists (v2, x). auto.
    - exists x. auto.
  Qed.

  Lemma edge_half : forall e1, In e1 (g_edges g1) ->
    exists e2, In e2 (g_edges g2) /\ Re en1 en2 e1 e2 /\ e_label e1 = e_label e2 /\ Forall2 (Rn nn1 nn2) (e_att e1) (e_att e2).
  Proof.
    intros e1 He. destruct H1 as [_ [B1 [_ [_ [_ [_ [d1 [R1 [_ P1]]]]]]]]].
    destruct H2 as [_ [B2 [_ [_ [_ [_ [d2 [R2 [_ P2]]]]]]]]].
    destruct (rename_parts _ _ _ R1) as [_ O1]. destruct (rename_parts _ _ _ R2) as [_ O2].
    apply omap_Forall2 in O1. apply omap_Forall2 in O2.
    rewrite <- B1 in He. apply in_map_iff in He. destruct He as [[e y] [E Hin]]. cbn [fst] in E. subst e.
    destruct (Forall2_In_l _ _ _ _ O1 Hin) as [de [Hde Hr]].
    unfold rename_edge in Hr. cbn [fst snd] in Hr.
    destruct (omap (aget node_eqb nn1) (e_att e1)) as [xs|] eqn:X1; try discriminate. inversion Hr; subst de.
    apply (Permutation_in _ P1) in Hde. apply (Permutation_in _ (Permutation_sym P2)) in Hde.
    destruct (Forall2_In_r _ _ _ _ O2 Hde) as [[e2 y2] [Hin2 Hr2]].
    unfold rename_edge in Hr2. cbn [fst snd] in Hr2.
    destruct (omap (aget node_eqb nn2) (e_att e2)) as [xs2|] eqn:X2; try discriminate. inversion Hr2; subst.
    exists e2. split; [|split; [|split]]; auto.
    - rewrite <- B2. apply in_map_iff. exists (e2, y). auto.
    - exists y. auto.
    - eapply atts_related; apply omap_Forall2; eauto.
  Qed.
End Half.

Theorem iso_via_compose : forall g1 g2 nn1 nn2 en1 en2 d,
  iso_via g1 nn1 en1 d -> iso_via g2 nn2 en2 d ->
  graph_iso g1 g2 (Rn nn1 nn2) (Re en1 en2).
Proof.
  intros g1 g2 nn1 nn2 en1 en2 d H1 H2.
  pose proof H1 as [A1 [B1 [C1 [D1 [E1 [F1 _]]]]]]. pose proof H2 as [A2 [B2 [C2 [D2 [E2 [F2 _]]]]]].
  assert (K1 : NoDup (map fst nn1)) by (rewrite A1; apply (NoDup_map_NoDup n_id); auto).
  assert (K2 : NoDup (map fst nn2)) by (rewrite A2; apply (NoDup_map_NoDup n_id); auto).
  assert (M1 : NoDup (map fst en1)) by (rewrite B1; apply (NoDup_map_NoDup e_id); auto).
  assert (M2 : NoDup (map fst en2)) by (rewrite B2; apply (NoDup_map_NoDup e_id); auto).
  constructor.
  - intros v1 Hv. destruct (node_half _ _ _ _ _ _ _ H1 H2 v1 Hv) as [v2 [? [? _]]]. eauto.
  - intros v2 Hv. destruct (node_half _ _ _ _ _ _ _ H2 H1 v2 Hv) as [v1 [? [[x [? ?]] _]]]. exists v1. split; auto. exists x; auto.
  - intros v1 v2 v2' [x [P1 P2]] [x' [Q1 Q2]]. assert (x = x') by (apply (nodup_fst_fun nn1 v1); auto). subst.
    apply (nodup_snd_inj nn2 v2 v2' x'); auto.
  - intros v1 v1' v2 [x [P1 P2]] [x' [Q1 Q2]]. assert (x = x') by (apply (nodup_fst_fun nn2 v2); auto). subst.
    apply (nodup_snd_inj nn1 v1 v1' x'); auto.
  - intros v1 v2 R. destruct R as [x [P1 P2]].
    assert (Hv : In v1 (g_nodes g1)). { rewrite <- A1. apply in_map_iff. exists (v1, x); auto. }
    destruct (node_half _ _ _ _ _ _ _ H1 H2 v1 Hv) as [v2' [_ [[x' [Q1 Q2]] L]]].
    assert (x = x') by (apply (nodup_fst_fun nn1 v1); auto). subst.
    assert (v2 = v2') by (apply (nodup_snd_inj nn2 v2 v2' x'); auto). subst. auto.
  - intros e1 He. destruct (edge_half _ _ _ _ _ _ _ H1 H2 e1 He) as [e2 [? [? _]]]. eauto.
  - intros e2 He. destruct (edge_half _ _ _ _ _ _ _ H2 H1 e2 He) as [e1 [? [[y [? ?]] _]]]. exists e1. split; auto. exists y; auto.
  - intros e1 e2 e2' [y [P1 P2]] [y' [Q1 Q2]]. assert (y = y') by (apply (nodup_fst_fun en1 e1); auto). subst.
    apply (nodup_snd_inj en2 e2 e2' y'); auto.
  - intros e1 e1' e2 [y [P1 P2]] [y' [Q1 Q2]]. assert (y = y') by (apply (nodup_fst_fun en2 e2); auto). subst.
    apply (nodup_snd_inj en1 e1 e1' y'); auto.
  - intros e1 e2 [y [P1 P2]].
    assert (He : In e1 (g_edges g1)). { rewrite <- B1. apply in_map_iff. exists (e1, y); auto. }
    destruct (edge_half _ _ _ _ _ _ _ H1 H2 e1 He) as [e2' [_ [[y' [Q1 Q2]] [L T]]]].
    assert (y = y') by (apply (nodup_fst_fun en1 e1); auto). subst.
    assert (e2 = e2') by (apply (nodup_snd_inj en2 e2 e2' y'); auto). subst. auto.
Qed.

(** any two complete orders of the replacement steps of a derivation give isomorphic graphs *)
Theorem two_orders_isomorphic : forall L t nx l1 l2 s1 s2,
  wf_dtreeb L t = true -> functionalb L = true ->
  run l1 (init_state t nx) = Ok s1 -> rs_pending s1 = [] ->
  run l2 (init_state t nx) = Ok s2 -> rs_pending s2 = [] ->
  graph_iso (rs_graph s1) (rs_graph s2) (Rn (rs_nnames s1) (rs_nnames s2)) (Re (rs_enames s1) (rs_enames s2)).
Proof.
  intros L t nx l1 l2 s1 s2 HW HF R1 P1 R2 P2.
  apply (iso_via_compose _ _ _ _ _ _ (derived_graph t)).
  - apply (proj2 (confluence_main L t nx HW HF l1) s1 R1 P1).
  - apply (proj2 (confluence_main L t nx HW HF l2) s2 R2 P2).
Qed.
