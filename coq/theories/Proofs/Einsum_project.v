(** C07: [project] (the strided view of a physical tensor over the unbound axes).
    [project_view_spec]: read at a valuation of its axes, the view returns the physical element
    at the coordinates given by any model of the substitution that extends the valuation (the
    stride lemma C06_stride_affine).  [project_view_ok]: a dimension of the view whose torch stride
    is 0 is ignored by the view (needed by reduce_equation). *)
From Coq Require Import List Arith Bool PeanoNat Lia PArith.
Import ListNotations.
Require Import Fggs.Model.Semiring Fggs.Model.SumProduct.
Require Import Fggs.Model.Axis Fggs.Model.PTensor Fggs.Model.AxisCheck Fggs.Model.Einsum Fggs.Model.EinsumCheck Fggs.Model.EinsumCert.
Require Import Fggs.Proofs.Axis_sem Fggs.Proofs.PTensor_dense.
Require Import Fggs.Proofs.Einsum_envs Fggs.Proofs.Einsum_views Fggs.Proofs.Einsum_reduce Fggs.Proofs.Einsum_subst.

(** * linear forms *)
Lemma lin_eval_agree r1 r2 (s : lin) : (forall k c, In (k, c) s -> r1 k = r2 k) -> lin_eval r1 s = lin_eval r2 s.
Proof.
  induction s as [|[k c] s IH]; intros H; [reflexivity|]. simpl. rewrite (H k c (or_introl eq_refl)), IH; [reflexivity|].
  intros k' c' H'. apply (H k' c'). right. exact H'.
Qed.

Definition tot (s : lin) (k : positive) : nat :=
  fold_right (fun kc acc => (if Pos.eqb (fst kc) k then snd kc else 0) + acc) 0 s.

Lemma lin_coeff_add1 s k c k' : lin_coeff (lin_add1 s k c) k' = lin_coeff s k' + (if Pos.eqb k k' then c else 0).
Proof.
  unfold lin_coeff. induction s as [|[k1 c1] s IH]; simpl.
  - destruct (Pos.eqb k k'); lia.
  - destruct (Pos.eqb_spec k1 k) as [->|Hne]; simpl.
    + destruct (Pos.eqb k k'); lia.
    + destruct (Pos.eqb_spec k1 k') as [->|Hne'].
      * destruct (Pos.eqb_spec k k'); [congruence|lia].
      * exact IH.
Qed.

Lemma lin_coeff_merge b : forall a k', lin_coeff (lin_merge a b) k' = lin_coeff a k' + tot b k'.
Proof.
  unfold lin_merge. induction b as [|[k c] b IH]; intros a k'; simpl; [lia|].
  rewrite IH, lin_coeff_add1. lia.
Qed.

Lemma tot_scale m s k : tot (lin_scale m s) k = tot s k * m.
Proof. induction s as [|[k1 c1] s IH]; simpl; [reflexivity|]. rewrite IH. destruct (Pos.eqb k1 k); lia. Qed.

Lemma lin_coeff_merged (pairs : list (nat * lin * nat)) : forall acc k,
  lin_coeff (fold_left (fun acc sm => lin_merge acc (lin_scale (snd sm) (snd (fst sm)))) pairs acc) k = 0 ->
  lin_coeff acc k = 0 /\ forall os m, In (os, m) pairs -> tot (snd os) k * m = 0.
Proof.
  induction pairs as [|[os m] pairs IH]; intros acc k H; simpl in H.
  - split; [exact H|intros ? ? []].
  - destruct (IH _ _ H) as [H1 H2]. rewrite lin_coeff_merge, tot_scale in H1. cbn [fst snd] in H1.
    split; [lia|]. intros os' m' [E|Hin]; [inversion E; subst; lia|exact (H2 os' m' Hin)].
Qed.

Lemma lin_eval_tot0 r1 r2 (s : lin) k : tot s k = 0 -> (forall k', k' <> k -> r1 k' = r2 k') -> lin_eval r1 s = lin_eval r2 s.
Proof.
  induction s as [|[k1 c1] s IH]; intros T H; [reflexivity|]. simpl in *.
  destruct (Pos.eqb_spec k1 k) as [->|Hne].
  - assert (c1 = 0) by lia. subst. rewrite IH by (trivial; lia). lia.
  - rewrite (H k1 Hne), IH by (trivial; lia). reflexivity.
Qed.

Lemma env_of_combine_set (ks : list positive) j x c k :
  NoDup ks -> j < length c -> nth j ks 1%positive <> k \/ length ks <= j ->
  env_of (combine ks (set_nth j x c)) k = env_of (combine ks c) k.
Proof.
  revert j c. induction ks as [|k0 ks IH]; intros j c NDk Hj H; [reflexivity|].
  inversion NDk as [|? ? Hk0 NDk']; subst.
  destruct c as [|c0 c]; [simpl in Hj; lia|].
  destruct j as [|j].
  - unfold set_nth. simpl. unfold env_of. simpl.
    destruct (Pos.eqb_spec k0 k) as [->|_]; [destruct H as [H|H]; [simpl in H; congruence|simpl in H; lia]|reflexivity].
  - change (set_nth (S j) x (c0 :: c)) with (c0 :: set_nth j x c). unfold env_of. simpl.
    destruct (Pos.eqb_spec k0 k) as [->|_]; [reflexivity|].
    apply (IH j c NDk'); [simpl in Hj; lia|]. destruct H as [H|H]; [left; exact H|right; simpl in H; lia].
Qed.

Lemma prodS_Forall2 {R A B} (o : sr_ops R) (f : A -> R) (g : B -> R) l l' :
  Forall2 (fun a b => f a = g b) l l' -> prodS o l f = prodS o l' g.
Proof. induction 1 as [|a b l l' E _ IH]; [reflexivity|]. unfold prodS in *. simpl. rewrite E, IH. reflexivity. Qed.

Section Project.
Context {R : Type}.
Notation stensor := (stensor (R:=R)).
Notation view := (view (R:=R)).

Lemma project_view_vars sigma (t : stensor) (v : view) : project_view sigma t = Ok v ->
  exists strs vars,
    mapM (stride (sfuel sigma (phys_axes (paxes (st_pt t)))) sigma) (phys_axes (paxes (st_pt t))) = Ok strs /\
    fv_list (sfuel sigma (phys_axes (paxes (st_pt t)))) sigma (phys_axes (paxes (st_pt t))) = Ok vars /\
    vw_vars v = vars /\
    vw_fn v = (fun coords => physical (st_pt t) (map (fun os => fst os + lin_eval (env_of (combine (map fst vars) coords)) (snd os)) strs)) /\
    map snd (vw_dims v) = map (fun kn => lin_coeff (fold_left (fun acc sm => lin_merge acc (lin_scale (snd sm) (snd (fst sm)))) (combine strs (st_pstr t)) []) (fst kn)) vars.
Proof.
  unfold project_view. intros H.
  destruct (mapM _ _) as [strs|] eqn:E1; [|discriminate]. cbn [bind] in H.
  destruct (fv_list _ _ _) as [vars|] eqn:E2; [|discriminate]. cbn [bind] in H. inversion H; subst. clear H.
  exists strs, vars. split; [reflexivity|]. split; [reflexivity|]. cbn [vw_fn vw_dims]. unfold vw_vars. cbn [vw_dims].
  rewrite !map_map. cbn [fst snd]. split; [apply map_id|]. split; reflexivity.
Qed.

Lemma fv_list_keys_NoDup fuel sigma es vars : fv_list fuel sigma es = Ok vars -> NoDup (map fst vars).
Proof.
  unfold fv_list. destruct (fold_left _ es (Ok [])) as [r|]; [|discriminate]. cbn [bind]. intros H. inversion H.
  apply dedup_keys_NoDup.
Qed.

(** the view read at a valuation of its axes = the physical element at the model's coordinates *)
Theorem project_view_spec sigma (t : stensor) (v : view) (rho rho' : env) :
  project_view sigma t = Ok v -> models rho sigma ->
  (forall strs, mapM (stride (sfuel sigma (phys_axes (paxes (st_pt t)))) sigma) (phys_axes (paxes (st_pt t))) = Ok strs ->
     forall os k c, In os strs -> In (k, c) (snd os) -> rho k = rho' k /\ In k (map fst (vw_vars v))) ->
  vw_fn v (map rho' (map fst (vw_vars v))) = pget R (st_pt t) rho.
Proof.
  intros H M HK. destruct (project_view_vars sigma t v H) as (strs & vars & E1 & E2 & Ev & Ef & _).
  specialize (HK strs E1). rewrite Ef, Ev in *. clear Ev Ef. unfold pget, pcoords. f_equal.
  apply mapM_Forall2 in E1. unfold phys_axes in E1.
  assert (G : forall (ps : list pn) strs0, Forall2 (fun x y => stride (sfuel sigma (phys_axes (paxes (st_pt t)))) sigma x = Ok y)
                                                   (map (fun kn : pn => Phys (fst kn) (snd kn)) ps) strs0 ->
              (forall os k c, In os strs0 -> In (k, c) (snd os) -> rho k = rho' k /\ In k (map fst vars)) ->
              map (fun os => fst os + lin_eval (env_of (combine (map fst vars) (map rho' (map fst vars)))) (snd os)) strs0
              = map (fun kn : pn => rho (fst kn)) ps).
  { induction ps as [|[k n] ps IH]; intros strs0 F2 HK0; inversion F2 as [|? os ? strs1 Hs F2']; subst; [reflexivity|].
    simpl. f_equal.
    - destruct os as [o0 s0]. pose proof (stride_affine rho sigma M _ _ _ _ Hs) as A. simpl in A. rewrite A. simpl. f_equal.
      apply lin_eval_agree. intros k' c' Hin. destruct (HK0 (o0, s0) k' c' (or_introl eq_refl) Hin) as [Er Hk'].
      rewrite (env_of_combine_map (map fst vars) rho' k' Hk'). symmetry. exact Er.
    - apply IH; [exact F2'|]. intros os' k' c' Hin. apply HK0. right. exact Hin. }
  apply G; [exact E1|exact HK].
Qed.

(** a stride-0 dimension of the view is ignored *)
Definition st_ok (t : stensor) : Prop := length (st_pstr t) = length (paxes (st_pt t)) /\ bc_ok t.

Lemma bc_agree (t : stensor) : bc_ok t -> forall a a', length a = length a' ->
  (forall i, i < length a -> nth i (st_pstr t) 1 <> 0 -> nth i a 0 = nth i a' 0) ->
  physical (st_pt t) a = physical (st_pt t) a'.
Proof.
  intros B a a' L A.
  apply (agree_except a a' (physical (st_pt t)) (map (fun m => Nat.eqb m 0) (st_pstr t))); [|exact L|].
  - intros j x c Z Hj. apply B; [|exact Hj].
    change false with ((fun m => Nat.eqb m 0) 1) in Z. rewrite map_nth in Z. apply Nat.eqb_eq in Z. exact Z.
  - intros j Hj Z. apply A; [exact Hj|].
    change false with ((fun m => Nat.eqb m 0) 1) in Z. rewrite map_nth in Z. apply Nat.eqb_neq in Z. exact Z.
Qed.

Theorem project_view_ok sigma (t : stensor) (v : view) : st_ok t -> project_view sigma t = Ok v -> view_ok v.
Proof.
  intros [Lp B] H. destruct (project_view_vars sigma t v H) as (strs & vars & E1 & E2 & Ev & Ef & Es).
  intros j x c Z Hj. rewrite Ef.
  pose proof (fv_list_keys_NoDup _ _ _ _ E2) as NDv.
  assert (Ls : length strs = length (paxes (st_pt t))).
  { apply mapM_Forall2 in E1. apply Forall2_len in E1. unfold phys_axes in E1. rewrite map_length in E1. symmetry. exact E1. }
  unfold stride0 in Z.
  destruct (Nat.lt_ge_cases j (length (vw_dims v))) as [Hjd|Hjd].
  2:{ rewrite nth_overflow in Z by (rewrite map_length; exact Hjd). discriminate. }
  rewrite (nth_map_lt _ _ j (1%positive, 0, 0) false Hjd) in Z. apply Nat.eqb_eq in Z.
  assert (Lv : length (vw_dims v) = length vars) by (rewrite <- Ev; unfold vw_vars; rewrite map_length; reflexivity).
  set (kj := fst (nth j vars (1%positive, 0))).
  assert (Zc : lin_coeff (fold_left (fun acc sm => lin_merge acc (lin_scale (snd sm) (snd (fst sm)))) (combine strs (st_pstr t)) []) kj = 0).
  { assert (E : nth j (map snd (vw_dims v)) 0 = snd (nth j (vw_dims v) (1%positive, 0, 0))) by (apply nth_map_lt; exact Hjd).
    rewrite Es in E. rewrite (nth_map_lt _ _ j (1%positive, 0) 0) in E by lia. unfold kj. rewrite E. exact Z. }
  destruct (lin_coeff_merged _ _ _ Zc) as [_ Zp].
  apply (bc_agree t B); [rewrite !map_length; reflexivity|].
  intros i Hi Hm. rewrite map_length in Hi.
  rewrite !(nth_map_lt _ _ i (0, []) 0 Hi). f_equal.
  assert (Hin : In (nth i strs (0, []), nth i (st_pstr t) 1) (combine strs (st_pstr t))).
  { rewrite <- (combine_nth strs (st_pstr t) i (0, []) 1) by lia. apply nth_In. rewrite combine_length. lia. }
  set (os := nth i strs (0, [])) in *.
  specialize (Zp os _ Hin).
  assert (T0 : tot (snd os) kj = 0) by (destruct (tot (snd os) kj); [reflexivity|simpl in Zp; lia]).
  apply (lin_eval_tot0 _ _ _ kj T0). intros k' Hk'.
  apply env_of_combine_set; [exact NDv|exact Hj|].
  destruct (Nat.lt_ge_cases j (length (map fst vars))) as [Hl|Hl]; [left|right; exact Hl].
  rewrite (nth_map_lt _ _ j (1%positive, 0) 1%positive) by (rewrite map_length in Hl; exact Hl). fold kj. congruence.
Qed.
End Project.
